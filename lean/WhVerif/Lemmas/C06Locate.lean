import WhVerif.Model.C06
import WhVerif.Lemmas.C06Iter
/-! Lemmas on the coordinate map `locate`: what a hit means (split point, coordinates), where it is `none`. -/
namespace WhVerif.C06

theorem refLen_append (a b : Cigar) : refLen (a ++ b) = refLen a + refLen b := by
  induction a with
  | nil => simp [refLen]
  | cons x xs ih => obtain ⟨op, len⟩ := x; simp [refLen, ih]; omega
theorem qLen_append (a b : Cigar) : qLen (a ++ b) = qLen a + qLen b := by
  induction a with
  | nil => simp [qLen]
  | cons x xs ih => obtain ⟨op, len⟩ := x; simp [qLen, ih]; omega
theorem expand_append (a b : Cigar) : expand (a ++ b) = expand a ++ expand b := by
  induction a with
  | nil => simp [expand]
  | cons x xs ih => obtain ⟨op, len⟩ := x; simp [expand, ih]
theorem refLen_reverse (a : Cigar) : refLen a.reverse = refLen a := by
  induction a with
  | nil => rfl
  | cons x xs ih => obtain ⟨op, len⟩ := x; simp [refLen_append, refLen, ih]; omega
theorem qLen_reverse (a : Cigar) : qLen a.reverse = qLen a := by
  induction a with
  | nil => rfl
  | cons x xs ih => obtain ⟨op, len⟩ := x; simp [qLen_append, qLen, ih]; omega

/-- one step of `locate` that neither hits nor is blocked by an N -/
theorem locate_step (p i rp qp op len : Nat) (rest : Cigar)
    (hM : ¬ (isMatch op = true ∧ rp ≤ p ∧ p < rp + len)) (hI : ¬ (op = 1 ∧ p = rp))
    (hD : ¬ (op = 2 ∧ rp ≤ p ∧ p < rp + len)) (hN : ¬ (op = 3 ∧ rp ≤ p ∧ p < rp + len)) :
    locate p i rp qp ((op, len) :: rest) =
      locate p (i + 1) (rp + (if consumesRef op then len else 0)) (qp + (if consumesQuery op then len else 0)) rest := by
  simp only [locate]
  by_cases hm : isMatch op = true
  · have : ¬ (rp ≤ p ∧ p < rp + len) := fun h => hM ⟨hm, h⟩
    simp [hm, this, consumesRef, consumesQuery]
  · have hm' : isMatch op = false := by simpa using hm
    simp only [hm', Bool.false_eq_true, if_false, consumesRef, consumesQuery, Bool.false_or]
    by_cases h1 : op = 1
    · subst h1; have : ¬ p = rp := fun h => hI ⟨rfl, h⟩; simp [this]
    · by_cases h2 : op = 2
      · subst h2; have : ¬ (rp ≤ p ∧ p < rp + len) := fun h => hD ⟨rfl, h⟩; simp [this]
      · by_cases h3 : op = 3
        · subst h3; have : ¬ (rp ≤ p ∧ p < rp + len) := fun h => hN ⟨rfl, h⟩; simp [this]
        · by_cases h4 : op = 4
          · subst h4; simp
          · simp [h1, h2, h3, h4]

/-- a hit: operation `i'` is M/=/X, I or D, the reference position of the split point is `p`, the query offset is the
number of query bases (clips included) before the split point -/
theorem locate_sound (p : Nat) (c : Cigar) (i rp qp i' cons q : Nat)
    (h : locate p i rp qp c = some (i', cons, q)) :
    ∃ op len, i ≤ i' ∧ c[i' - i]? = some (op, len) ∧ (isMatch op = true ∨ op = 1 ∨ op = 2)
      ∧ (op = 1 → cons = 0) ∧ (op ≠ 1 → cons < len)
      ∧ rp + refLen (c.take (i' - i)) + cons = p
      ∧ q = qp + qLen (c.take (i' - i)) + (if isMatch op then cons else 0) := by
  induction c generalizing i rp qp with
  | nil => simp [locate] at h
  | cons x rest ih =>
    obtain ⟨op, len⟩ := x
    by_cases hM : isMatch op = true ∧ rp ≤ p ∧ p < rp + len
    · simp only [locate, hM.1, if_true, hM.2, and_self, Option.some.injEq, Prod.mk.injEq] at h
      obtain ⟨rfl, rfl, rfl⟩ := h
      have h1 : op ≠ 1 := by intro e; subst e; exact absurd hM.1 (by decide)
      refine ⟨op, len, Nat.le_refl _, by simp, Or.inl hM.1, fun e => absurd e h1, fun _ => by omega, ?_, ?_⟩
      · simp [refLen]; omega
      · simp [qLen, hM.1]
    · by_cases hI : op = 1 ∧ p = rp
      · obtain ⟨rfl, rfl⟩ := hI
        simp only [locate, isMatch_1, Bool.false_eq_true, if_false, beq_self_eq_true, if_true,
          Option.some.injEq, Prod.mk.injEq] at h
        obtain ⟨rfl, rfl, rfl⟩ := h
        exact ⟨1, len, Nat.le_refl _, by simp, Or.inr (Or.inl rfl), fun _ => rfl, fun e => absurd rfl e, by simp [refLen],
          by simp [qLen, isMatch_1]⟩
      · by_cases hD : op = 2 ∧ rp ≤ p ∧ p < rp + len
        · obtain ⟨rfl, hD⟩ := hD
          simp only [locate, isMatch_2, Bool.false_eq_true, if_false, beq_self_eq_true, if_true, hD, and_self,
            Option.some.injEq, Prod.mk.injEq] at h
          simp at h
          obtain ⟨rfl, rfl, rfl⟩ := h
          exact ⟨2, len, Nat.le_refl _, by simp, Or.inr (Or.inr rfl), fun e => by simp at e, fun _ => by omega,
            by simp [refLen]; omega, by simp [qLen, isMatch_2]⟩
        · by_cases hN : op = 3 ∧ rp ≤ p ∧ p < rp + len
          · obtain ⟨rfl, hN⟩ := hN
            simp [locate, isMatch_3, hN] at h
          · rw [locate_step p i rp qp op len rest hM hI hD hN] at h
            obtain ⟨op', len', h1, h2, h3, h4, h5, h6, h7⟩ := ih _ _ _ h
            have e : i' - i = (i' - (i + 1)) + 1 := by omega
            refine ⟨op', len', by omega, ?_, h3, h4, h5, ?_, ?_⟩
            · rw [e]; simpa using h2
            · rw [e]; simp only [List.take_succ_cons, refLen]; omega
            · rw [e]; simp only [List.take_succ_cons, qLen]; omega

/-- right of the aligned span (and not at its end) nothing is found -/
theorem locate_gt_end (p : Nat) (c : Cigar) (i rp qp : Nat) (h : rp + refLen c < p) : locate p i rp qp c = none := by
  induction c generalizing i rp qp with
  | nil => rfl
  | cons x rest ih =>
    obtain ⟨op, len⟩ := x
    simp only [refLen] at h
    have hlen : (if consumesRef op = true then len else 0) ≤ len := by split <;> omega
    by_cases hr : consumesRef op = true
    · simp only [hr, if_true] at h
      rw [locate_step p i rp qp op len rest (by omega) (by omega) (by omega) (by omega)]
      apply ih; simp only [hr, if_true]; omega
    · have hr' : consumesRef op = false := by simpa using hr
      simp only [hr', Bool.false_eq_true, if_false] at h
      have hm : ¬ isMatch op = true := by intro hm; simp [consumesRef, hm] at hr'
      have h2 : op ≠ 2 := by intro e; subst e; simp [consumesRef] at hr'
      have h3 : op ≠ 3 := by intro e; subst e; simp [consumesRef] at hr'
      rw [locate_step p i rp qp op len rest (fun h => hm h.1) (by omega) (fun h => h2 h.1) (fun h => h3 h.1)]
      apply ih; simp only [hr', Bool.false_eq_true, if_false]; omega

/-- at the very end of the aligned span nothing is found unless the alignment ends in an insertion -/
theorem locate_at_end (c : Cigar) (i rp qp : Nat)
    (hI : ∀ k l, c[k]? = some (1, l) → 0 < refLen (c.drop (k + 1))) :
    locate (rp + refLen c) i rp qp c = none := by
  induction c generalizing i rp qp with
  | nil => rfl
  | cons x rest ih =>
    obtain ⟨op, len⟩ := x
    have ih' := fun i rp qp => ih i rp qp (fun k l hk => by simpa using hI (k + 1) l (by simpa using hk))
    by_cases h1 : op = 1
    · subst h1
      have h0 := hI 0 len (by simp)
      simp only [Nat.zero_add, List.drop_succ_cons, List.drop_zero] at h0
      have e : rp + refLen ((1, len) :: rest) = rp + refLen rest := by simp [refLen, consumesRef, isMatch_1]
      rw [e, locate_step _ i rp qp 1 len rest (by simp [isMatch_1]) (by omega) (by simp) (by simp)]
      simpa [consumesRef, isMatch_1] using ih' (i + 1) rp _
    · by_cases hr : consumesRef op = true
      · have e : rp + refLen ((op, len) :: rest) = (rp + len) + refLen rest := by simp [refLen, hr]; omega
        rw [e, locate_step _ i rp qp op len rest (by omega) (by omega) (by omega) (by omega)]
        simpa [hr] using ih' (i + 1) (rp + len) _
      · have hr' : consumesRef op = false := by simpa using hr
        have hm : ¬ isMatch op = true := by intro hm; simp [consumesRef, hm] at hr'
        have h2 : op ≠ 2 := by intro e; subst e; simp [consumesRef] at hr'
        have h3 : op ≠ 3 := by intro e; subst e; simp [consumesRef] at hr'
        have e : rp + refLen ((op, len) :: rest) = rp + refLen rest := by simp [refLen, hr']
        rw [e, locate_step _ i rp qp op len rest (fun h => hm h.1) (fun h => h1 h.1) (fun h => h2 h.1) (fun h => h3 h.1)]
        simpa [hr'] using ih' (i + 1) rp _

/-- inside a reference skip nothing is found (unless an insertion sits exactly at that position before the skip) -/
theorem locate_in_N (p : Nat) (a b : Cigar) (len i rp qp : Nat)
    (hin : rp + refLen a ≤ p ∧ p < rp + refLen a + len)
    (hI : ∀ k l, a[k]? = some (1, l) → rp + refLen (a.take k) ≠ p) :
    locate p i rp qp (a ++ (3, len) :: b) = none := by
  induction a generalizing i rp qp with
  | nil =>
    simp only [refLen, Nat.add_zero] at hin
    simp [locate, isMatch_3, hin]
  | cons x rest ih =>
    obtain ⟨op, l⟩ := x
    simp only [refLen] at hin
    have hI' : ∀ d, (∀ k l', rest[k]? = some (1, l') → rp + d + refLen (rest.take k) ≠ p) →
        locate p (i + 1) (rp + d) (qp + (if consumesQuery op then l else 0)) (rest ++ (3, len) :: b) = none ∨ True := fun _ _ => Or.inr trivial
    have hrec : ∀ k l', rest[k]? = some (1, l') →
        rp + (if consumesRef op = true then l else 0) + refLen (rest.take k) ≠ p := by
      intro k l' hk
      have := hI (k + 1) l' (by simpa using hk)
      simpa [refLen, Nat.add_assoc] using this
    have h1 : ¬ (op = 1 ∧ p = rp) := by
      rintro ⟨rfl, rfl⟩; exact hI 0 l (by simp) (by simp [refLen])
    simp only [List.cons_append]
    by_cases hr : consumesRef op = true
    · simp only [hr, if_true] at hin hrec
      rw [locate_step p i rp qp op l _ (by omega) h1 (by omega) (by omega)]
      simp only [hr, if_true]
      exact ih _ _ _ (by omega) hrec
    · have hr' : consumesRef op = false := by simpa using hr
      simp only [hr', Bool.false_eq_true, if_false, Nat.zero_add, Nat.add_zero] at hin hrec
      have hm : ¬ isMatch op = true := by intro hm; simp [consumesRef, hm] at hr'
      have h2 : op ≠ 2 := by intro e; subst e; simp [consumesRef] at hr'
      have h3 : op ≠ 3 := by intro e; subst e; simp [consumesRef] at hr'
      rw [locate_step p i rp qp op l _ (fun h => hm h.1) h1 (fun h => h2 h.1) (fun h => h3 h.1)]
      simp only [hr', Bool.false_eq_true, if_false, Nat.add_zero]
      exact ih _ _ _ (by omega) hrec

theorem expand_ite (op n : Nat) : expand (if n > 0 then [(op, n)] else []) = List.replicate n op := by
  by_cases h : n > 0
  · simp [h, expand]
  · have : n = 0 := by omega
    simp [this, expand]

theorem expand_split (op cons len : Nat) (hle : cons ≤ len) :
    expand ((if cons > 0 then [(op, cons)] else []).reverse ++ (if cons < len then [(op, len - cons)] else [])) =
      List.replicate len op := by
  have e1 : (if cons > 0 then [(op, cons)] else []).reverse = (if cons > 0 then [(op, cons)] else []) := by
    split <;> simp
  have e2 : (if cons < len then [(op, len - cons)] else []) = (if len - cons > 0 then [(op, len - cons)] else []) := by
    by_cases h : cons < len
    · have : len - cons > 0 := by omega
      simp [h, this]
    · have : ¬ len - cons > 0 := by omega
      simp [h, this]
  rw [e1, e2, expand_append, expand_ite, expand_ite, List.replicate_append_replicate]
  congr 1; omega

/-- the two halves of a split re-assemble the alignment, and the left half has the announced lengths -/
theorem split_reassemble (c : Cigar) (i cons op len : Nat) (hc : c[i]? = some (op, len)) (hle : cons ≤ len) :
    ∃ L R, splitLeft c i cons = .ok L ∧ splitRight c i cons = .ok R
      ∧ expand (L.reverse ++ R) = expand c
      ∧ refLen L = refLen (c.take i) + (if consumesRef op then cons else 0)
      ∧ qLen L = qLen (c.take i) + (if consumesQuery op then cons else 0) := by
  have hi : i < c.length := by
    rcases Nat.lt_or_ge i c.length with h | h
    · exact h
    · simp [List.getElem?_eq_none h] at hc
  have hget : c[i] = (op, len) := by
    have := List.getElem?_eq_getElem hi; rw [this] at hc; simpa using hc
  have hdecomp : c = c.take i ++ (op, len) :: c.drop (i + 1) := by
    rw [← hget]; simp
  refine ⟨(if cons > 0 then [(op, cons)] else []) ++ (c.take i).reverse,
    (if cons < len then [(op, len - cons)] else []) ++ c.drop (i + 1),
    by simp [splitLeft, hc, hle], by simp [splitRight, hc], ?_, ?_, ?_⟩
  · conv => rhs; rw [hdecomp]
    simp only [List.reverse_append, List.reverse_reverse, List.append_assoc, expand_append, expand]
    congr 1
    rw [← List.append_assoc, ← expand_append, expand_split op cons len hle]
  · by_cases h0 : cons > 0
    · simp [h0, refLen_append, refLen_reverse, refLen]; omega
    · have : cons = 0 := by omega
      simp [this, refLen_reverse]
  · by_cases h0 : cons > 0
    · simp [h0, qLen_append, qLen_reverse, qLen]; omega
    · have : cons = 0 := by omega
      simp [this, qLen_reverse]

end WhVerif.C06

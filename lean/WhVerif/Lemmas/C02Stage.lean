import WhVerif.Model.C02Stage
import WhVerif.Spec.C02Raw
import WhVerif.Props.C07
import WhVerif.Lemmas.C02Raw
/-! Lemmas for the composed stage model (Model/C02Stage.lean): the C07 selection stage on reads that carry alleles. -/
set_option linter.unusedSimpArgs false
set_option linter.unusedVariables false
namespace WhVerif.C02S
open WhVerif.C06 WhVerif.C07 WhVerif.C01 WhVerif.C02

theorem longEnough_toSRead (r : ReadOut) : longEnough (toSRead r) = longEnoughP r := by
  simp [longEnough, longEnoughP, toSRead]

/-- the candidate filter commutes with the view of the C07 stage model -/
theorem candidates_map (rs : List ReadOut) : candidates (rs.map toSRead) = (candidatesP rs).map toSRead := by
  unfold candidates candidatesP
  induction rs with
  | nil => rfl
  | cons r rs ih =>
    simp only [List.map_cons, List.filter_cons, longEnough_toSRead]
    by_cases h : longEnoughP r = true
    · simp [h, ih]
    · simp [h, ih]

theorem mem_candidatesP (rs : List ReadOut) (r : ReadOut) : r ∈ candidatesP rs ↔ r ∈ rs ∧ 2 ≤ r.variants.length := by
  simp [candidatesP, longEnoughP]

theorem mem_insertRead (rank : ReadOut → Nat) (x y : ReadOut) (l : List ReadOut) :
    y ∈ insertRead rank x l ↔ y = x ∨ y ∈ l := by
  induction l with
  | nil => simp [insertRead]
  | cons z zs ih =>
    simp only [insertRead]
    split
    · simp
    · simp only [List.mem_cons, ih]
      constructor
      · rintro (h | h | h)
        · exact Or.inr (Or.inl h)
        · exact Or.inl h
        · exact Or.inr (Or.inr h)
      · rintro (h | h | h)
        · exact Or.inr (Or.inl h)
        · exact Or.inl h
        · exact Or.inr (Or.inr h)

/-- `readset.sort()` only reorders -/
theorem mem_sortReads (rank : ReadOut → Nat) (y : ReadOut) (l : List ReadOut) : y ∈ sortReads rank l ↔ y ∈ l := by
  induction l with
  | nil => simp [sortReads]
  | cons x xs ih => simp [sortReads, mem_insertRead, ih]

theorem length_insertRead (rank : ReadOut → Nat) (x : ReadOut) (l : List ReadOut) :
    (insertRead rank x l).length = l.length + 1 := by
  induction l with
  | nil => simp [insertRead]
  | cons z zs ih =>
    simp only [insertRead]
    split <;> simp [ih]

theorem length_sortReads (rank : ReadOut → Nat) (l : List ReadOut) : (sortReads rank l).length = l.length := by
  induction l with
  | nil => rfl
  | cons x xs ih => simp [sortReads, length_insertRead, ih]

structure StagePSpec (rs : List ReadOut) (cap : Nat) (prefIds choices : List Nat) (o : StageOut) : Prop where
  so : ∃ so, sampleStage (rs.map toSRead) cap prefIds choices = .ok so ∧ o.selIdx = so.selIdx ∧
        so.cands = (candidatesP rs).map toSRead ∧ so.selected = o.selected.map toSRead
  cands : o.cands = candidatesP rs
  nodup : o.selIdx.Nodup
  sorted : o.selIdx.Pairwise (· ≤ ·)
  bound : ∀ i ∈ o.selIdx, i < (candidatesP rs).length
  selected : o.selected = o.selIdx.map (fun i => (candidatesP rs).getD i default)

theorem getD_map_toSRead (l : List ReadOut) (i : Nat) (hi : i < l.length) :
    (l.map toSRead).getD i default = toSRead (l.getD i default) := by
  simp [List.getD_eq_getElem?_getD, List.getElem?_eq_getElem hi]

theorem stageP_spec {rs : List ReadOut} {cap : Nat} {prefIds choices : List Nat} {o : StageOut}
    (h : stageP rs cap prefIds choices = .ok o) : StagePSpec rs cap prefIds choices o := by
  unfold stageP at h
  split at h
  · rename_i so hso
    cases h
    obtain ⟨hc, hnd, hsorted, hlt, hsel, _⟩ := WhVerif.Props.C07.stage_subset _ _ _ _ so hso
    rw [candidates_map] at hc
    have hb : ∀ i ∈ so.selIdx, i < (candidatesP rs).length := by
      intro i hi
      have := hlt i hi
      rw [hc] at this
      simpa using this
    refine ⟨⟨so, hso, rfl, hc, ?_⟩, rfl, hnd, hsorted, hb, rfl⟩
    rw [hsel, hc, List.map_map]
    apply List.map_congr_left
    intro i hi
    simp only [Function.comp]
    exact getD_map_toSRead _ i (hb i hi)
  · cases h

/-- the reads handed on are unchanged candidates: as the solver sees them they are `selectReads` of the candidates -/
theorem toRaw_select (cands : List ReadOut) (sel : List Nat) (hsel : ∀ i ∈ sel, i < cands.length) :
    (sel.map (fun i => cands.getD i default)).map toRaw = selectReads (cands.map toRaw) sel := by
  unfold selectReads
  rw [List.map_map]
  apply List.map_congr_left
  intro i hi
  have := hsel i hi
  simp [List.getD_eq_getElem?_getD, List.getElem?_eq_getElem this]

theorem selected_mem {cands : List ReadOut} {sel : List Nat} (hsel : ∀ i ∈ sel, i < cands.length) :
    ∀ r ∈ sel.map (fun i => cands.getD i default), r ∈ cands := by
  intro r hr
  obtain ⟨i, hi, rfl⟩ := List.mem_map.mp hr
  have := hsel i hi
  simp only [List.getD_eq_getElem?_getD, List.getElem?_eq_getElem this, Option.getD_some]
  exact List.getElem_mem this

/-- a per-read contract (membership form) gives the indexed contract `RawErrFree` with the haplotype read off the read -/
theorem rawErrFree_of_mem (hapAt : Nat → Nat) (rs : List ReadOut) (s : ReadOut → Bool)
    (h : ∀ r ∈ rs, RawReadOk hapAt (s r) (toRaw r)) :
    RawErrFree (rs.map toRaw) hapAt (fun k => s (rs.getD k default)) := by
  intro k hk
  rw [List.length_map] at hk
  have : (rs.map toRaw).getD k default = toRaw (rs.getD k default) := by
    simp [List.getD_eq_getElem?_getD, List.getElem?_eq_getElem hk]
  rw [this]
  apply h
  simp only [List.getD_eq_getElem?_getD, List.getElem?_eq_getElem hk, Option.getD_some]
  exact List.getElem_mem hk

end WhVerif.C02S

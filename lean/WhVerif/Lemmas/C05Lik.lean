import WhVerif.Model.C05Lik
import WhVerif.Lemmas.C05
/-!
# C05, likelihood variant: the entry `get_alleles` reports for a haplotype depends on its PARTITION only

`allelesFor` (shared by the trusted and the likelihood variant) computes, for haplotype `h` of individual `i`, the tie
test and the allele of the best assignment from the partition `hapToPartition i h` alone.  A child's haplotype 0 IS the
father's partition selected by transmission bit `2k` (`child_partitions`), so the child's entry — allele or tie flag —
equals the father's entry on the selected haplotype, for ANY candidate list and ANY cost function.
-/
namespace WhVerif.C05.L
open WhVerif.C05

/-- best cost over the candidates that put allele `a` on partition `p` -/
def sideBest (cost : Nat → Nat) (adm : List Nat) (p a : Nat) : Option Nat :=
  minCostWith cost (fun asg => alleleOf asg p == a) adm

/-- what `get_alleles` reports for a haplotype lying in partition `p` -/
def hapEntry (cost : Nat → Nat) (adm : List Nat) (best p : Nat) : Nat :=
  if sideBest cost adm p 0 == sideBest cost adm p 1 then EQUAL_SCORES else alleleOf best p

theorem bestCostFor_eq_sideBest {ped : Ped} {t i : Nat} {p : Nat × Nat} (hp : hapToPartition ped t i = some p)
    (cost : Nat → Nat) (adm : List Nat) (h a : Nat) :
    bestCostFor ped t cost adm i h a = sideBest cost adm (if h = 0 then p.1 else p.2) a := by
  unfold bestCostFor sideBest
  congr 1
  funext asg
  rw [indivAlleles_eq hp]
  by_cases h0 : h = 0 <;> simp [h0]

theorem allelesFor_eq {ped : Ped} {t i : Nat} {p : Nat × Nat} (hp : hapToPartition ped t i = some p)
    (cost : Nat → Nat) (adm : List Nat) (best : Nat) :
    allelesFor ped t cost adm best i = (hapEntry cost adm best p.1, hapEntry cost adm best p.2) := by
  unfold allelesFor hapEntry
  simp only [bestCostFor_eq_sideBest hp, indivAlleles_eq hp, Option.getD_some, if_true]
  simp

/-- a child's entry is the entry of the transmitted parental haplotype — allele or tie flag — whatever the candidate
assignments and their costs are -/
theorem allelesFor_child (ped : Ped) (t : Nat) (cost : Nat → Nat) (adm : List Nat) (best : Nat)
    (c k f m c' : Nat) (pc : Nat × Nat)
    (hk : tripleIndex ped c = some k) (htr : ped.triples[k]? = some (f, m, c'))
    (hpc : hapToPartition ped t c = some pc) :
    (allelesFor ped t cost adm best c).1 =
      (if t.testBit (2 * k) then (allelesFor ped t cost adm best f).1 else (allelesFor ped t cost adm best f).2) ∧
    (allelesFor ped t cost adm best c).2 =
      (if t.testBit (2 * k + 1) then (allelesFor ped t cost adm best m).1
        else (allelesFor ped t cost adm best m).2) := by
  obtain ⟨pf, pm, hpf, hpm, h0, h1⟩ := child_partitions ped t c k f m c' pc hk htr hpc
  rw [allelesFor_eq hpc, allelesFor_eq hpf, allelesFor_eq hpm]
  simp only
  rw [h0, h1]
  constructor <;> split <;> rfl

theorem hapEntry_cases (cost : Nat → Nat) (adm : List Nat) (best p : Nat) :
    hapEntry cost adm best p = 3 ∨ hapEntry cost adm best p ≤ 1 := by
  unfold hapEntry
  split
  · left; rfl
  · right; exact alleleOf_le _ _

/-! ### `glCost`: defined iff every individual has partitions and a likelihood triple -/

theorem glCost_fold_none (ped : Ped) (t : Nat) (gls : List Gl) (asg : Nat) : ∀ (l : List Nat),
    l.foldl (fun acc i =>
      match acc, indivAlleles ped t asg i, gls[i]? with
      | some a, some (a0, a1), some gl =>
        match gl[a0 + a1]? with
        | some g => some (a + g)
        | none => none
      | _, _, _ => none) none = none := by
  intro l
  induction l with
  | nil => rfl
  | cons x xs ih => simpa using ih

/-- with three likelihoods for every individual and a terminating partition recursion every assignment has a cost -/
theorem glCost_isSome (ped : Ped) (t : Nat) (gls : List Gl) (asg : Nat)
    (hp : ∀ i, i < ped.size → (hapToPartition ped t i).isSome = true)
    (hg : ∀ i, i < ped.size → ∃ gl, gls[i]? = some gl ∧ 3 ≤ gl.length) :
    (glCost ped t gls asg).isSome = true := by
  unfold glCost
  suffices h : ∀ (l : List Nat) (a : Nat), (∀ i ∈ l, i < ped.size) →
      (l.foldl (fun acc i =>
        match acc, indivAlleles ped t asg i, gls[i]? with
        | some a, some (a0, a1), some gl =>
          match gl[a0 + a1]? with
          | some g => some (a + g)
          | none => none
        | _, _, _ => none) (some a)).isSome = true from
    h _ 0 (fun i hi => List.mem_range.mp hi)
  intro l
  induction l with
  | nil => intro a _; rfl
  | cons x xs ih =>
    intro a hl
    have hx : x < ped.size := hl x (List.mem_cons_self)
    obtain ⟨gl, hgl, hlen⟩ := hg x hx
    cases hpx : hapToPartition ped t x with
    | none => have := hp x hx; rw [hpx] at this; cases this
    | some p =>
      have hsum : alleleOf asg p.1 + alleleOf asg p.2 < gl.length := by
        have := alleleOf_le asg p.1; have := alleleOf_le asg p.2; omega
      simp only [List.foldl_cons, indivAlleles_eq hpx, hgl, List.getElem?_eq_getElem hsum]
      exact ih _ (fun i hi => hl i (List.mem_cons_of_mem _ hi))

theorem mem_assignmentsLik {ped : Ped} {t : Nat} {gls : List Gl} {asg : Nat} :
    asg ∈ assignmentsLik ped t gls ↔ asg < 2 ^ partitionCount ped ∧ (glCost ped t gls asg).isSome = true := by
  unfold assignmentsLik
  simp [List.mem_filter]

theorem assignmentsLik_ne_nil (ped : Ped) (t : Nat) (gls : List Gl)
    (hp : ∀ i, i < ped.size → (hapToPartition ped t i).isSome = true)
    (hg : ∀ i, i < ped.size → ∃ gl, gls[i]? = some gl ∧ 3 ≤ gl.length) :
    assignmentsLik ped t gls ≠ [] := by
  have : 0 ∈ assignmentsLik ped t gls :=
    mem_assignmentsLik.mpr ⟨Nat.pow_pos (by omega), glCost_isSome ped t gls 0 hp hg⟩
  exact List.ne_nil_of_mem this

/-- `get_alleles` with likelihoods never raises on a well-formed column -/
theorem getAllelesLik_isSome (ped : Ped) (t : Nat) (gls : List Gl) (cp : PartCosts)
    (hp : ∀ i, i < ped.size → (hapToPartition ped t i).isSome = true)
    (hg : ∀ i, i < ped.size → ∃ gl, gls[i]? = some gl ∧ 3 ≤ gl.length) :
    ∃ res, getAllelesLik ped t gls cp = some res := by
  obtain ⟨b, hb⟩ := lastBest_isSome (totalCostLik ped t gls cp) _ (assignmentsLik_ne_nil ped t gls hp hg)
  refine ⟨(List.range ped.size).map
    (allelesFor ped t (totalCostLik ped t gls cp) (assignmentsLik ped t gls) b), ?_⟩
  unfold getAllelesLik
  simp only [hb]

/-- shape of a `get_alleles` result of either variant -/
theorem getAllelesLik_spec {ped : Ped} {t : Nat} {gls : List Gl} {cp : PartCosts} {res : List (Nat × Nat)}
    (h : getAllelesLik ped t gls cp = some res) :
    ∃ best, best ∈ assignmentsLik ped t gls ∧
      res = (List.range ped.size).map
        (allelesFor ped t (totalCostLik ped t gls cp) (assignmentsLik ped t gls) best) := by
  unfold getAllelesLik at h
  cases hb : lastBest (totalCostLik ped t gls cp) (assignmentsLik ped t gls) with
  | none => simp [hb] at h
  | some best =>
    simp only [hb, Option.some.injEq] at h
    exact ⟨best, lastBest_mem _ _ _ hb, h.symm⟩

theorem getAlleles_spec {ped : Ped} {t : Nat} {gts : List Gt} {cp : PartCosts} {res : List (Nat × Nat)}
    (h : getAlleles ped t gts cp = some res) :
    ∃ best, best ∈ admissible ped t gts ∧
      res = (List.range ped.size).map (allelesFor ped t (asgCost ped cp) (admissible ped t gts) best) := by
  unfold getAlleles at h
  cases hb : lastBest (asgCost ped cp) (admissible ped t gts) with
  | none => simp [hb] at h
  | some best =>
    simp only [hb, Option.some.injEq] at h
    exact ⟨best, lastBest_mem _ _ _ hb, h.symm⟩

theorem map_range_getElem? {α} (f : Nat → α) (n i : Nat) (hi : i < n) :
    ((List.range n).map f)[i]? = some (f i) := by
  simp [hi]

/-- the output genotypes of a trio whose six super-read alleles are definite have no Mendelian conflict, provided the
child's alleles are copies of a paternal and a maternal one -/
theorem outputGt_no_conflict (gic gif gim : Gt) (c f m : Nat × Nat)
    (hc : c.1 ≤ 1 ∧ c.2 ≤ 1) (hf : f.1 ≤ 1 ∧ f.2 ≤ 1) (hm : m.1 ≤ 1 ∧ m.2 ≤ 1)
    (h0 : c.1 = f.1 ∨ c.1 = f.2) (h1 : c.2 = m.1 ∨ c.2 = m.2) :
    mendelianConflict (outputGt gim m) (outputGt gif f) (outputGt gic c) = some false := by
  have e : ∀ (g : Gt) (x : Nat × Nat), x.1 ≤ 1 ∧ x.2 ≤ 1 → outputGt g x = mkGt2 x.1 x.2 := by
    intro g x hx; unfold outputGt; simp [hx.1, hx.2]
  rw [e _ _ hc, e _ _ hf, e _ _ hm]
  apply mendelianConflict_mkGt2
  · rcases h0 with h | h <;> rw [h]
    · exact mem_mkGt2_left _ _
    · exact mem_mkGt2_right _ _
  · rcases h1 with h | h <;> rw [h]
    · exact mem_mkGt2_left _ _
    · exact mem_mkGt2_right _ _

end WhVerif.C05.L

namespace WhVerif.C05.L
open WhVerif.C05

/-- the statement about a result list `res = map (allelesFor …) (range size)` -/
theorem result_child_entry (ped : Ped) (t : Nat) (cost : Nat → Nat) (adm : List Nat) (best : Nat)
    (res : List (Nat × Nat)) (hres : res = (List.range ped.size).map (allelesFor ped t cost adm best))
    (c k f m c' : Nat) (hk : tripleIndex ped c = some k) (htr : ped.triples[k]? = some (f, m, c'))
    (hc : c < ped.size) (hf : f < ped.size) (hm : m < ped.size)
    (hpc : (hapToPartition ped t c).isSome = true) :
    ∃ ec ef em, res[c]? = some ec ∧ res[f]? = some ef ∧ res[m]? = some em ∧
      ec.1 = (if t.testBit (2 * k) then ef.1 else ef.2) ∧
      ec.2 = (if t.testBit (2 * k + 1) then em.1 else em.2) ∧
      (ec.1 = 3 ∨ ec.1 ≤ 1) ∧ (ec.2 = 3 ∨ ec.2 ≤ 1) := by
  cases hp : hapToPartition ped t c with
  | none => rw [hp] at hpc; cases hpc
  | some pc =>
    obtain ⟨e0, e1⟩ := allelesFor_child ped t cost adm best c k f m c' pc hk htr hp
    refine ⟨_, _, _, by rw [hres]; exact map_range_getElem? _ _ _ hc, by rw [hres]; exact map_range_getElem? _ _ _ hf,
      by rw [hres]; exact map_range_getElem? _ _ _ hm, e0, e1, ?_, ?_⟩
    · rw [allelesFor_eq hp]; exact hapEntry_cases _ _ _ _
    · rw [allelesFor_eq hp]; exact hapEntry_cases _ _ _ _

/-- every assignment whatsoever gives the child the alleles of the transmitted parental haplotypes -/
theorem indivAlleles_child (ped : Ped) (t asg : Nat) (c k f m c' : Nat)
    (hk : tripleIndex ped c = some k) (htr : ped.triples[k]? = some (f, m, c'))
    (ca : Nat × Nat) (hca : indivAlleles ped t asg c = some ca) :
    ∃ fa ma, indivAlleles ped t asg f = some fa ∧ indivAlleles ped t asg m = some ma ∧
      ca.1 = (if t.testBit (2 * k) then fa.1 else fa.2) ∧ ca.2 = (if t.testBit (2 * k + 1) then ma.1 else ma.2) := by
  cases hp : hapToPartition ped t c with
  | none => simp [indivAlleles, hp] at hca
  | some pc =>
    obtain ⟨pf, pm, hpf, hpm, h0, h1⟩ := child_partitions ped t c k f m c' pc hk htr hp
    rw [indivAlleles_eq hp] at hca
    cases hca
    refine ⟨_, _, indivAlleles_eq hpf, indivAlleles_eq hpm, ?_, ?_⟩
    · simp only; rw [h0]; split <;> rfl
    · simp only; rw [h1]; split <;> rfl

end WhVerif.C05.L

namespace WhVerif.C05.L
open WhVerif.C05

theorem glCost_fold_some (ped : Ped) (t : Nat) (gls : List Gl) (asg : Nat) : ∀ (l : List Nat) (acc : Option Nat),
    (l.foldl (fun acc i =>
      match acc, indivAlleles ped t asg i, gls[i]? with
      | some a, some (a0, a1), some gl =>
        match gl[a0 + a1]? with
        | some g => some (a + g)
        | none => none
      | _, _, _ => none) acc).isSome = true → ∀ i ∈ l, (indivAlleles ped t asg i).isSome = true := by
  intro l
  induction l with
  | nil => intro _ _ i hi; cases hi
  | cons x xs ih =>
    intro acc h i hi
    rw [List.foldl_cons] at h
    rcases List.mem_cons.mp hi with rfl | hi'
    · cases hx : indivAlleles ped t asg i with
      | some _ => rfl
      | none =>
        exfalso
        have : (match acc, (none : Option (Nat × Nat)), gls[i]? with
          | some a, some (a0, a1), some gl =>
            match gl[a0 + a1]? with
            | some g => some (a + g)
            | none => none
          | _, _, _ => none) = none := by
          cases acc <;> rfl
        rw [hx, this, glCost_fold_none] at h
        cases h
    · exact ih _ h i hi'

/-- a candidate of the likelihood variant gives every individual two partitions -/
theorem assignmentsLik_indiv {ped : Ped} {t : Nat} {gls : List Gl} {asg : Nat} (h : asg ∈ assignmentsLik ped t gls)
    (i : Nat) (hi : i < ped.size) : (hapToPartition ped t i).isSome = true := by
  have h1 := glCost_fold_some ped t gls asg _ _ (mem_assignmentsLik.mp h).2 i (List.mem_range.mpr hi)
  unfold indivAlleles at h1
  cases hp : hapToPartition ped t i with
  | none => rw [hp] at h1; cases h1
  | some _ => rfl

end WhVerif.C05.L

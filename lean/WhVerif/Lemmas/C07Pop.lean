import WhVerif.Lemmas.C07
/-!
# C07 helper lemmas, part E: the abstract `pop` is well defined — the lexicographic order on 3-scores is a
# strict total order, so a non-empty queue has a maximal entry and `popChoice` returns one.
-/
namespace WhVerif.C07

theorem Score.lt_iff (x y : Score) :
    x.lt y = true ↔ x.a < y.a ∨ (x.a = y.a ∧ (x.b < y.b ∨ (x.b = y.b ∧ x.q < y.q))) := by
  simp [Score.lt]

theorem Score.lt_irrefl (x : Score) : x.lt x = false := by
  cases h : x.lt x with
  | false => rfl
  | true => rw [Score.lt_iff] at h; omega

theorem Score.lt_trans {x y z : Score} (h1 : x.lt y = true) (h2 : y.lt z = true) : x.lt z = true := by
  rw [Score.lt_iff] at *; omega

/-- a non-empty queue has an entry of maximal score -/
theorem exists_isMax : ∀ (pq : List Entry), pq ≠ [] → ∃ e ∈ pq, isMax pq e = true
  | [], h => absurd rfl h
  | [a], _ => ⟨a, by simp, by simp [isMax, Score.lt_irrefl]⟩
  | a :: b :: rest, _ => by
    obtain ⟨m, hm, hmax⟩ := exists_isMax (b :: rest) (by simp)
    unfold isMax at hmax
    rw [List.all_eq_true] at hmax
    by_cases h : m.score.lt a.score = true
    · refine ⟨a, by simp, ?_⟩
      unfold isMax
      rw [List.all_eq_true]
      intro f hf
      rcases List.mem_cons.mp hf with rfl | hf
      · simp [Score.lt_irrefl]
      · have := hmax f hf
        cases hlt : a.score.lt f.score with
        | false => rfl
        | true => simp [Score.lt_trans h hlt] at this
    · refine ⟨m, List.mem_cons_of_mem _ hm, ?_⟩
      unfold isMax
      rw [List.all_eq_true]
      intro f hf
      rcases List.mem_cons.mp hf with rfl | hf
      · simpa using h
      · exact hmax f hf

theorem maxIdx_ne_nil {pq : List Entry} (h : pq ≠ []) : maxIdx pq ≠ [] := by
  obtain ⟨e, he, hmax⟩ := exists_isMax pq h
  obtain ⟨j, hj, hje⟩ := List.getElem_of_mem he
  intro h0
  have : j ∈ maxIdx pq := by
    unfold maxIdx
    refine List.mem_filter.mpr ⟨List.mem_range.mpr hj, ?_⟩
    rw [List.getD_eq_getElem?_getD, List.getElem?_eq_getElem hj]
    simpa [hje] using hmax
  rw [h0] at this
  simp at this

theorem isMax_of_mem_maxIdx {pq : List Entry} {j : Nat} (h : j ∈ maxIdx pq) :
    isMax pq (pq.getD j default) = true := by
  unfold maxIdx at h
  exact (List.mem_filter.mp h).2

/-- the abstract `pop` returns an entry of maximal score: no queued entry has a strictly larger score -/
theorem popChoice_isMax {pq : List Entry} {c ci : Nat} {e : Entry} {pq' : List Entry}
    (h : popChoice pq c = some (ci, e, pq')) : ∀ f ∈ pq, e.score.lt f.score = false := by
  unfold popChoice at h
  match pq, h with
  | x :: xs, h =>
    simp only [Option.some.injEq, Prod.mk.injEq] at h
    obtain ⟨-, he, -⟩ := h
    have hne := maxIdx_ne_nil (pq := x :: xs) (by simp)
    have hlen : 0 < (maxIdx (x :: xs)).length := List.length_pos_iff.mpr hne
    have hm : c % (maxIdx (x :: xs)).length < (maxIdx (x :: xs)).length := Nat.mod_lt _ hlen
    have hmem : (maxIdx (x :: xs)).getD (c % (maxIdx (x :: xs)).length) 0 ∈ maxIdx (x :: xs) := by
      rw [List.getD_eq_getElem?_getD, List.getElem?_eq_getElem hm]
      exact List.getElem_mem hm
    have := isMax_of_mem_maxIdx hmem
    rw [he] at this
    unfold isMax at this
    rw [List.all_eq_true] at this
    intro f hf
    simpa using this f hf

end WhVerif.C07

import WhVerif.Model.C15
/-! Helper lemmas for `Props/C15.lean` (core Lean only; no Mathlib needed). -/
namespace WhVerif.C15

/-! ### dedup -/

theorem mem_dedup {l : List Allele} {a : Allele} : a ∈ dedup l ↔ a ∈ l := by
  induction l with
  | nil => simp [dedup]
  | cons x xs ih =>
    by_cases h : x ∈ xs
    · simp only [dedup, List.contains_eq_mem, h, decide_true, if_true, ih, List.mem_cons]
      constructor
      · intro h'; exact Or.inr h'
      · rintro (rfl | h')
        · exact h
        · exact h'
    · simp [dedup, h, ih]

theorem nodup_dedup (l : List Allele) : (dedup l).Nodup := by
  induction l with
  | nil => simp [dedup]
  | cons x xs ih =>
    by_cases h : x ∈ xs
    · simpa [dedup, h] using ih
    · simp only [dedup, List.contains_eq_mem, h, decide_false]
      refine List.nodup_cons.mpr ⟨?_, ih⟩
      rw [mem_dedup]; exact h

/-! ### double counting -/

/-- summing the multiplicities of `l` over a duplicate-free list that contains every element of `l` -/
theorem sum_count_eq_length (as l : List Allele) (hnd : as.Nodup) (hsub : ∀ x ∈ l, x ∈ as) :
    (as.map (fun a => l.count a)).sum = l.length := by
  induction as generalizing l with
  | nil =>
    cases l with
    | nil => simp
    | cons x xs => exact absurd (hsub x (by simp)) (by simp)
  | cons a0 as ih =>
    have hnd' := List.nodup_cons.mp hnd
    have h1 := ih (l.filter (fun x => x != a0)) hnd'.2 (by
      intro x hx
      have hx' := List.mem_filter.mp hx
      have hm := hsub x hx'.1
      rcases List.mem_cons.mp hm with h | h
      · have := hx'.2; simp [h] at this
      · exact h)
    have h2 : ∀ a ∈ as, l.count a = (l.filter (fun x => x != a0)).count a := by
      intro a ha
      have hne : a ≠ a0 := fun h => hnd'.1 (h ▸ ha)
      rw [List.count_filter]; simp [hne]
    simp only [List.map_cons, List.sum_cons]
    rw [List.map_congr_left h2, h1]
    have := List.length_eq_countP_add_countP (fun x => x == a0) (l := l)
    simp only [List.count_eq_countP, List.countP_eq_length_filter] at *
    rw [this]
    congr 2
    apply List.filter_congr
    intro x _; by_cases hx : x = a0 <;> simp [hx, bne]

/-! ### idxFrom / assign / fill -/

theorem length_idxFrom (f : Allele → Bool) (k : Nat) (l : List Allele) :
    (idxFrom f k l).length = (l.filter f).length := by
  induction l generalizing k with
  | nil => simp [idxFrom]
  | cons x xs ih =>
    unfold idxFrom
    by_cases h : f x = true <;> simp [h, ih]

/-- left-to-right fill of the slots satisfying `f` (value-level view of `assign` on `idxFrom`) -/
def fillSlots (f : Allele → Bool) : List Allele → List Allele → List Allele
  | [], _ => []
  | x :: xs, ins =>
    if f x then
      match ins with
      | [] => x :: xs
      | y :: ys => y :: fillSlots f xs ys
    else x :: fillSlots f xs ins

theorem assign_nil_right (col : List Allele) (ps : List Nat) : assign col ps [] = col := by
  cases ps <;> simp [assign]

theorem assign_idxFrom (f : Allele → Bool) (pre xs ins : List Allele) :
    assign (pre ++ xs) (idxFrom f pre.length xs) ins = pre ++ fillSlots f xs ins := by
  induction xs generalizing pre ins with
  | nil => simp [idxFrom, assign, fillSlots]
  | cons x xs ih =>
    unfold idxFrom fillSlots
    by_cases h : f x = true
    · simp only [h, if_true]
      cases ins with
      | nil => simp [assign]
      | cons v vs =>
        simp only [assign]
        have hset : (pre ++ x :: xs).set pre.length v = (pre ++ [v]) ++ xs := by
          simp
        rw [hset]
        have := ih (pre ++ [v]) vs
        simp only [List.length_append, List.length_cons, List.length_nil, Nat.zero_add] at this
        rw [this]; simp
    · have hf : f x = false := by simpa using h
      simp only [hf]
      have := ih (pre ++ [x]) ins
      simp only [List.length_append, List.length_cons, List.length_nil, Nat.zero_add] at this
      have e : pre ++ x :: xs = (pre ++ [x]) ++ xs := by simp
      rw [e]; simp only [Bool.false_eq_true, if_false]; rw [this]; simp

theorem count_fillSlots (f : Allele → Bool) (xs ins : List Allele) (a : Allele)
    (hlen : ins.length = (xs.filter f).length) :
    (fillSlots f xs ins).count a = (xs.filter (fun x => !f x)).count a + ins.count a := by
  induction xs generalizing ins with
  | nil =>
    have : ins = [] := by simpa using hlen
    simp [fillSlots, this]
  | cons x xs ih =>
    unfold fillSlots
    by_cases h : f x = true
    · simp only [h, if_true]
      cases ins with
      | nil => simp [h] at hlen
      | cons y ys =>
        have hl : ys.length = (xs.filter f).length := by simpa [h] using hlen
        simp only [List.count_cons, ih ys hl, List.filter_cons, h]
        simp; omega
    · have hf : f x = false := by simpa using h
      have hl : ins.length = (xs.filter f).length := by simpa [hf] using hlen
      simp only [hf, Bool.false_eq_true, if_false, List.filter_cons, Bool.not_false, if_true,
        List.count_cons, ih ins hl]
      omega

/-! ### counting in `alleles_to_insert` -/

theorem count_flatMap_replicate (as : List Allele) (n : Allele → Nat) (a : Allele) (hnd : as.Nodup) :
    (as.flatMap (fun b => List.replicate (n b) b)).count a = if a ∈ as then n a else 0 := by
  induction as with
  | nil => simp
  | cons b bs ih =>
    have hnd' := List.nodup_cons.mp hnd
    simp only [List.flatMap_cons, List.count_append, ih hnd'.2, List.count_replicate, List.mem_cons]
    by_cases hab : b = a
    · subst hab; simp [hnd'.1]
    · have : ¬ a = b := fun h => hab h.symm
      simp [hab, this]

theorem insertFor_eq (col gv : List Allele) (a : Allele) :
    insertFor col gv a =
      List.replicate (if gv.count a < col.count a then gv.count a else gv.count a - col.count a) a := by
  unfold insertFor; split <;> rfl

/-- per allele: abundant-slots + genotype = inserted + present -/
theorem balance (col gv : List Allele) (as : List Allele) :
    (as.map (fun a => if gv.count a < col.count a then col.count a else 0)).sum
      + (as.map (fun a => gv.count a)).sum
    = (as.map (fun a => (insertFor col gv a).length)).sum + (as.map (fun a => col.count a)).sum := by
  induction as with
  | nil => simp
  | cons a as ih =>
    simp only [List.map_cons, List.sum_cons, insertFor_eq, List.length_replicate]
    simp only [insertFor_eq, List.length_replicate] at ih
    split <;> omega

/-! ### force_genotypes: the two counting facts -/

theorem abundant_iff (col gv : List Allele) (a : Allele) :
    abundant col gv a = true ↔ gv.count a < col.count a := by simp [abundant]

theorem mem_alleles {col gv : List Allele} {a : Allele} : a ∈ alleles col gv ↔ a ∈ gv ∨ a ∈ col := by
  simp [alleles, mem_dedup]

theorem length_affected (col gv : List Allele) :
    (affected col gv).length = (col.filter (abundant col gv)).length := length_idxFrom _ _ _

theorem length_toInsert_eq_affected (col gv : List Allele) (hlen : gv.length = col.length) :
    (toInsert col gv).length = (affected col gv).length := by
  have hnd := nodup_dedup (gv ++ col)
  have hP := sum_count_eq_length (alleles col gv) col hnd (fun x hx => mem_alleles.mpr (Or.inr hx))
  have hG := sum_count_eq_length (alleles col gv) gv hnd (fun x hx => mem_alleles.mpr (Or.inl hx))
  have hA := sum_count_eq_length (alleles col gv) (col.filter (abundant col gv)) hnd
    (fun x hx => mem_alleles.mpr (Or.inr (List.mem_filter.mp hx).1))
  have hbal := balance col gv (alleles col gv)
  have hcf : ∀ a, (col.filter (abundant col gv)).count a
      = if gv.count a < col.count a then col.count a else 0 := by
    intro a
    by_cases h : gv.count a < col.count a
    · rw [List.count_filter ((abundant_iff col gv a).mpr h)]; simp [h]
    · simp only [h, if_false]
      apply List.count_eq_zero.mpr
      intro hm
      exact h ((abundant_iff col gv a).mp (List.mem_filter.mp hm).2)
  simp only [hcf] at hA
  rw [length_affected, ← hA]
  unfold toInsert
  rw [List.length_mergeSort, List.length_flatMap]
  omega

theorem count_toInsert (col gv : List Allele) (a : Allele) :
    (toInsert col gv).count a =
      if a ∈ alleles col gv then
        (if gv.count a < col.count a then gv.count a else gv.count a - col.count a) else 0 := by
  unfold toInsert
  rw [(List.mergeSort_perm _ _).count_eq]
  have : insertFor col gv = fun b => List.replicate
      (if gv.count b < col.count b then gv.count b else gv.count b - col.count b) b := by
    funext b; exact insertFor_eq col gv b
  rw [this]
  exact count_flatMap_replicate (alleles col gv) _ a (nodup_dedup _)

theorem assign_affected (col gv perm : List Allele) :
    assign col (affected col gv) perm = fillSlots (abundant col gv) col perm := by
  have := assign_idxFrom (abundant col gv) [] col perm
  simpa [affected] using this

theorem count_assign_perm (col gv perm : List Allele) (hlen : gv.length = col.length)
    (hperm : perm.Perm (toInsert col gv)) (a : Allele) :
    (assign col (affected col gv) perm).count a = gv.count a := by
  rw [assign_affected]
  have hl : perm.length = (col.filter (abundant col gv)).length := by
    rw [hperm.length_eq, length_toInsert_eq_affected col gv hlen, length_affected]
  rw [count_fillSlots _ _ _ _ hl, hperm.count_eq, count_toInsert]
  have hnf : (col.filter (fun x => !abundant col gv x)).count a
      = if gv.count a < col.count a then 0 else col.count a := by
    by_cases h : gv.count a < col.count a
    · simp only [h, if_true]
      apply List.count_eq_zero.mpr
      intro hm
      have := (List.mem_filter.mp hm).2
      simp [abundant, h] at this
    · rw [List.count_filter (by simp [abundant, h])]; simp [h]
  rw [hnf]
  by_cases hmem : a ∈ alleles col gv
  · simp only [hmem, if_true]; split <;> omega
  · simp only [hmem, if_false]
    have h1 : gv.count a = 0 := List.count_eq_zero.mpr (fun h => hmem (mem_alleles.mpr (Or.inl h)))
    have h2 : col.count a = 0 := List.count_eq_zero.mpr (fun h => hmem (mem_alleles.mpr (Or.inr h)))
    simp [h1, h2]

theorem count_eq_of_affected_nil (col gv : List Allele) (hlen : gv.length = col.length)
    (h : affected col gv = []) (a : Allele) : col.count a = gv.count a := by
  have hle : col.count a ≤ gv.count a := by
    by_cases hc : gv.count a < col.count a
    · exfalso
      have hpos : 0 < col.count a := by omega
      have hm : a ∈ col := List.count_pos_iff.mp hpos
      have : a ∈ col.filter (abundant col gv) := List.mem_filter.mpr ⟨hm, (abundant_iff col gv a).mpr hc⟩
      have h0 : (col.filter (abundant col gv)).length = 0 := by rw [← length_affected, h]; rfl
      rw [List.length_eq_zero_iff.mp h0] at this
      exact absurd this (by simp)
    · omega
  have hti : (toInsert col gv).length = 0 := by
    rw [length_toInsert_eq_affected col gv hlen, h]; rfl
  have hc := count_toInsert col gv a
  rw [List.length_eq_zero_iff.mp hti] at hc
  by_cases hmem : a ∈ alleles col gv
  · simp only [hmem, if_true, List.count_nil] at hc
    split at hc <;> omega
  · have h1 : gv.count a = 0 := List.count_eq_zero.mpr (fun h => hmem (mem_alleles.mpr (Or.inl h)))
    have h2 : col.count a = 0 := List.count_eq_zero.mpr (fun h => hmem (mem_alleles.mpr (Or.inr h)))
    omega

theorem exists_abundant_of_affected_ne_nil (col gv : List Allele) (h : affected col gv ≠ []) :
    ∃ a, a ∈ col ∧ gv.count a < col.count a := by
  have hl : (col.filter (abundant col gv)).length ≠ 0 := by
    rw [← length_affected]; intro h0; exact h (List.length_eq_zero_iff.mp h0)
  cases hf : col.filter (abundant col gv) with
  | nil => simp [hf] at hl
  | cons x xs =>
    have hx : x ∈ col.filter (abundant col gv) := by rw [hf]; simp
    have := List.mem_filter.mp hx
    exact ⟨x, this.1, (abundant_iff col gv x).mp this.2⟩

end WhVerif.C15

import WhVerif.Model.C08Glue
import Mathlib.Data.List.Basic
import Mathlib.Data.List.Nodup
namespace WhVerif.C08.Glue

theorem lookupFrom_not_mem (xs : List Nat) (i p : Nat) (acc : Option Nat) (h : p ∉ xs) : lookupFrom xs i p acc = acc := by
  induction xs generalizing i acc with
  | nil => rfl
  | cons x xs ih =>
    simp only [List.mem_cons, not_or] at h
    simp only [lookupFrom]
    rw [ih _ _ h.2, if_neg (fun e => h.1 e.symm)]

theorem lookupFrom_getElem (xs : List Nat) (hnd : xs.Nodup) (i : Nat) (acc : Option Nat) (j : Nat) (hj : j < xs.length) :
    lookupFrom xs i xs[j] acc = some (i + j) := by
  induction xs generalizing i acc j with
  | nil => simp at hj
  | cons x xs ih =>
    have hnd' := List.nodup_cons.mp hnd
    simp only [lookupFrom]
    cases j with
    | zero =>
      simp only [List.getElem_cons_zero, if_true]
      rw [lookupFrom_not_mem _ _ _ _ hnd'.1]; rfl
    | succ j =>
      simp only [List.getElem_cons_succ]
      rw [ih hnd'.2 (i + 1) _ j (by simpa using hj)]
      congr 1; omega

theorem varToPos_getElem (positions : List Nat) (hnd : positions.Nodup) (j : Nat) (hj : j < positions.length) :
    varToPos positions positions[j] = some j := by
  unfold varToPos; rw [lookupFrom_getElem _ hnd]; simp

theorem priorColumns_aligned {α : Type} (positions : List Nat) (all : List α) (acc : List Nat)
    (hnd : positions.Nodup) (hlen : all.length = positions.length) (hsub : ∀ a ∈ acc, a ∈ positions) :
    ∃ cols, priorColumns positions all acc = some cols ∧ cols.length = acc.length ∧
      ∀ i j (hi : i < acc.length) (hj : j < positions.length), positions[j] = acc[i] → cols[i]? = all[j]? := by
  induction acc with
  | nil => exact ⟨[], rfl, rfl, fun i j hi => absurd hi (by simp)⟩
  | cons a rest ih =>
    obtain ⟨cols, h1, h2, h3⟩ := ih (fun x hx => hsub x (List.mem_cons_of_mem _ hx))
    obtain ⟨j0, hj0, e0⟩ := List.getElem_of_mem (hsub a List.mem_cons_self)
    have hv : varToPos positions a = some j0 := by rw [← e0]; exact varToPos_getElem _ hnd _ hj0
    have hall : all[j0]? = some all[j0] := by simp [hlen, hj0]
    refine ⟨all[j0] :: cols, ?_, by simp [h2], ?_⟩
    · simp only [priorColumns, hv, Option.bind_some, hall, h1]
    · intro i j hi hj e
      cases i with
      | zero =>
        simp only [List.getElem_cons_zero] at e
        have : j = j0 := (List.Nodup.getElem_inj_iff hnd).mp (e.trans e0.symm)
        subst this
        simp [hall]
      | succ i =>
        simp only [List.getElem_cons_succ] at e
        simpa using h3 i j (by simpa using hi) hj e

end WhVerif.C08.Glue

import WhVerif.Model.C01Input
import WhVerif.Lemmas.C01Sys
/-! Lemmas about the input conversion `mkInst` (Model/C01Input.lean). Core Lean only. -/
namespace WhVerif.C01

/-! ### strictly increasing lists -/

theorem strictlyIncreasing_cons (a : Nat) : ∀ l, strictlyIncreasing (a :: l) = true →
    (∀ b ∈ l, a < b) ∧ strictlyIncreasing l = true
  | [], _ => by simp [strictlyIncreasing]
  | b :: rest, h => by
    simp only [strictlyIncreasing, Bool.and_eq_true, decide_eq_true_eq] at h
    have ih := strictlyIncreasing_cons b rest h.2
    refine ⟨?_, h.2⟩
    intro x hx
    rcases List.mem_cons.mp hx with rfl | hx
    · exact h.1
    · exact Nat.lt_trans h.1 (ih.1 x hx)

theorem strictlyIncreasing_pairwise : ∀ l, strictlyIncreasing l = true → l.Pairwise (· < ·)
  | [], _ => List.Pairwise.nil
  | a :: l, h => by
    have := strictlyIncreasing_cons a l h
    exact List.pairwise_cons.mpr ⟨this.1, strictlyIncreasing_pairwise l this.2⟩

theorem variantsSorted_eq : ∀ l, variantsSorted l = strictlyIncreasing (l.map (fun v => v.1))
  | [] => rfl
  | [_] => rfl
  | a :: b :: rest => by
    simp only [variantsSorted, List.map_cons, strictlyIncreasing]
    rw [variantsSorted_eq (b :: rest)]
    rfl

theorem variantsSorted_pairwise (l : List (Nat × Nat × Nat)) (h : variantsSorted l = true) :
    l.Pairwise (fun a b => a.1 < b.1) := by
  rw [variantsSorted_eq] at h
  have := strictlyIncreasing_pairwise _ h
  exact List.pairwise_map.mp this

theorem pw_get {l : List Nat} (h : l.Pairwise (· < ·)) {i j : Nat} (hij : i < j) (hj : j < l.length) :
    l[i]'(Nat.lt_trans hij hj) < l[j] :=
  (List.pairwise_iff_getElem.mp h) i j (Nat.lt_trans hij hj) hj hij

/-! ### `colOf` -/

theorem colOf_some {positions : List Nat} {p c : Nat} (h : colOf positions p = some c) :
    ∃ hc : c < positions.length, positions[c] = p := by
  unfold colOf at h
  rw [List.findIdx?_eq_some_iff_getElem] at h
  obtain ⟨hc, h1, _⟩ := h
  exact ⟨hc, by simpa using h1⟩

theorem colOf_get {positions : List Nat} (hp : positions.Pairwise (· < ·)) {c : Nat} (hc : c < positions.length) :
    colOf positions positions[c] = some c := by
  unfold colOf
  rw [List.findIdx?_eq_some_iff_getElem]
  refine ⟨hc, by simp, ?_⟩
  intro j hj
  have := pw_get hp hj hc
  simp only [beq_iff_eq]
  omega

/-- positions and columns are ordered alike -/
theorem colOf_le_iff {positions : List Nat} (hp : positions.Pairwise (· < ·)) {p q c d : Nat}
    (h1 : colOf positions p = some c) (h2 : colOf positions q = some d) : c ≤ d ↔ p ≤ q := by
  obtain ⟨hc, e1⟩ := colOf_some h1
  obtain ⟨hd, e2⟩ := colOf_some h2
  subst e1 e2
  constructor
  · intro h
    rcases Nat.lt_or_eq_of_le h with h | h
    · exact Nat.le_of_lt (pw_get hp h hd)
    · subst h; exact Nat.le_refl _
  · intro h
    apply Nat.le_of_not_lt
    intro hlt
    have := pw_get hp hlt hc
    omega

/-! ### one read -/

/-- `rd` is the column form of `raw` -/
structure Conv (positions : List Nat) (raw : RawRead) (rd : Read) : Prop where
  ne : raw.variants ≠ []
  sorted : variantsSorted raw.variants = true
  first : colOf positions raw.firstPos = some rd.first
  last : colOf positions raw.lastPos = some rd.last
  ind : rd.ind = raw.ind
  entries : rd.entries = toEntries positions raw.variants

theorem firstPos_cons (i : Nat) (v : Nat × Nat × Nat) (vs) :
    (RawRead.mk i (v :: vs)).firstPos = v.1 := by
  simp [RawRead.firstPos]

theorem lastPos_cons (i : Nat) (v : Nat × Nat × Nat) (vs) :
    (RawRead.mk i (v :: vs)).lastPos = ((v :: vs).getLast (List.cons_ne_nil v vs)).1 := by
  simp [RawRead.lastPos, List.getLast?_eq_some_getLast (List.cons_ne_nil v vs)]

/-- in a read with sorted variants every variant lies between the first and the last position -/
theorem variant_between (r : RawRead) (hs : variantsSorted r.variants = true) (v) (hv : v ∈ r.variants) :
    r.firstPos ≤ v.1 ∧ v.1 ≤ r.lastPos := by
  have hpw := variantsSorted_pairwise _ hs
  obtain ⟨i, l⟩ := r
  cases l with
  | nil => cases hv
  | cons a l =>
    rw [firstPos_cons, lastPos_cons]
    constructor
    · rcases List.mem_cons.mp hv with rfl | h
      · exact Nat.le_refl _
      · exact Nat.le_of_lt ((List.pairwise_cons.mp hpw).1 v h)
    · obtain ⟨k, hk, rfl⟩ := List.getElem_of_mem hv
      have hk' : k < (a :: l).length := hk
      rw [List.getLast_eq_getElem]
      have hpw' := List.pairwise_iff_getElem.mp hpw
      by_cases hlast : k = (a :: l).length - 1
      · subst hlast; exact Nat.le_refl _
      · exact Nat.le_of_lt (hpw' k ((a :: l).length - 1) hk (by simp) (by omega))

/-! ### the read loop -/

theorem convReads_spec (positions : List Nat) : ∀ (raws : List RawRead) (pos : Nat) (reads : List Read),
    convReads positions pos raws = .ok reads →
    reads.length = raws.length ∧
    (∀ k, k < raws.length → Conv positions (raws.getD k default) (reads.getD k default)) ∧
    (∀ k, k < raws.length → pos ≤ (raws.getD k default).firstPos) ∧
    (∀ k1 k2, k1 ≤ k2 → k2 < raws.length →
      (raws.getD k1 default).firstPos ≤ (raws.getD k2 default).firstPos) := by
  intro raws
  induction raws with
  | nil =>
    intro pos reads h
    simp only [convReads, Except.ok.injEq] at h
    subst h
    simp
  | cons r rs ih =>
    intro pos reads h
    obtain ⟨i, l⟩ := r
    cases l with
    | nil => simp [convReads] at h
    | cons v vs =>
      simp only [convReads] at h
      split at h
      · cases h
      · rename_i hpos
        split at h
        · cases h
        · rename_i hsorted
          split at h
          · rename_i cf cl hcf hcl
            split at h
            · rename_i rest hrest
              simp only [Except.ok.injEq] at h
              subst h
              obtain ⟨ih1, ih2, ih3, ih4⟩ := ih v.1 rest hrest
              have hconv : Conv positions ⟨i, v :: vs⟩
                  { ind := i, first := cf, last := cl, entries := toEntries positions (v :: vs) } :=
                { ne := by simp
                  sorted := by simpa using hsorted
                  first := by rw [firstPos_cons]; exact hcf
                  last := by rw [lastPos_cons]; exact hcl
                  ind := rfl
                  entries := rfl }
              refine ⟨by simp [ih1], ?_, ?_, ?_⟩
              · intro k hk
                cases k with
                | zero => simpa using hconv
                | succ k =>
                  simp only [List.getD_cons_succ]
                  exact ih2 k (by simpa using hk)
              · intro k hk
                cases k with
                | zero => simp only [List.getD_cons_zero, firstPos_cons]; omega
                | succ k =>
                  simp only [List.getD_cons_succ]
                  have := ih3 k (by simpa using hk)
                  omega
              · intro k1 k2 h12 hk2
                cases k2 with
                | zero =>
                  have : k1 = 0 := by omega
                  subst this; exact Nat.le_refl _
                | succ k2 =>
                  have hk2' : k2 < rs.length := by simpa using hk2
                  cases k1 with
                  | zero =>
                    simp only [List.getD_cons_zero, List.getD_cons_succ, firstPos_cons]
                    exact ih3 k2 hk2'
                  | succ k1 =>
                    simp only [List.getD_cons_succ]
                    exact ih4 k1 k2 (by omega) hk2'
            · cases h
          · cases h

/-! ### the instance -/

theorem mkInst_some {positions raws nind trios geno recomb} {I : Inst}
    (h : mkInst positions raws nind trios geno recomb = some I) :
    strictlyIncreasing positions = true ∧ convReads positions 0 raws = .ok I.reads ∧
    I.ncols = positions.length ∧ I.nind = nind ∧ I.trios = trios ∧ I.geno = geno ∧ I.recomb = recomb := by
  unfold mkInst mkInstE at h
  split at h
  · rename_i J hJ
    split at hJ
    · cases hJ
    · rename_i hsi
      split at hJ
      · rename_i rs hrs
        simp only [Except.ok.injEq] at hJ
        simp only [Option.some.injEq] at h
        subst h; subst hJ
        exact ⟨by simpa using hsi, hrs, rfl, rfl, rfl, rfl, rfl⟩
      · cases hJ
  · cases h

/-- the conversion, read by read (the basis of everything below) -/
theorem mkInst_conv {positions raws nind trios geno recomb} {I : Inst}
    (h : mkInst positions raws nind trios geno recomb = some I) :
    positions.Pairwise (· < ·) ∧ I.nreads = raws.length ∧
    (∀ k, k < raws.length → Conv positions (raws.getD k default) (I.read k)) ∧
    (∀ k1 k2, k1 ≤ k2 → k2 < raws.length →
      (raws.getD k1 default).firstPos ≤ (raws.getD k2 default).firstPos) := by
  obtain ⟨hsi, hc, _⟩ := mkInst_some h
  obtain ⟨h1, h2, _, h4⟩ := convReads_spec positions raws 0 I.reads hc
  exact ⟨strictlyIncreasing_pairwise _ hsi, h1, h2, h4⟩

/-- **`mkInst` establishes the solver's precondition** -/
theorem mkInst_wf {positions raws nind trios geno recomb} {I : Inst}
    (h : mkInst positions raws nind trios geno recomb = some I) : WF I := by
  obtain ⟨hp, hn, hconv, hsorted⟩ := mkInst_conv h
  constructor
  intro r1 r2 h12 h2
  rw [hn] at h2
  have c1 := hconv r1 (by omega)
  have c2 := hconv r2 h2
  exact (colOf_le_iff hp c1.first c2.first).mpr (hsorted r1 r2 h12 h2)

/-- every read spans a non-empty column interval inside the matrix and its entries lie inside its span -/
structure Spans (I : Inst) : Prop where
  first_le_last : ∀ r, r < I.nreads → (I.read r).first ≤ (I.read r).last
  last_lt : ∀ r, r < I.nreads → (I.read r).last < I.ncols
  entries_in : ∀ r, r < I.nreads → ∀ e ∈ (I.read r).entries, (I.read r).first ≤ e.1 ∧ e.1 ≤ (I.read r).last
  /-- the read has a (non-BLANK) entry in its first and in its last column -/
  ends : ∀ r, r < I.nreads → ((I.read r).entryAt (I.read r).first).isSome ∧ ((I.read r).entryAt (I.read r).last).isSome

theorem mem_toEntries {positions : List Nat} {vs : List (Nat × Nat × Nat)} {e : Nat × Nat × Nat} :
    e ∈ toEntries positions vs ↔ ∃ v ∈ vs, colOf positions v.1 = some e.1 ∧ e.2 = v.2 := by
  unfold toEntries
  rw [List.mem_filterMap]
  constructor
  · rintro ⟨v, hv, he⟩
    cases hc : colOf positions v.1 with
    | none => simp [hc] at he
    | some c =>
      simp only [hc, Option.map_some, Option.some.injEq] at he
      subst he
      exact ⟨v, hv, hc, rfl⟩
  · rintro ⟨v, hv, hc, he⟩
    refine ⟨v, hv, ?_⟩
    simp only [hc, Option.map_some, Option.some.injEq]
    obtain ⟨e1, e2⟩ := e
    simp only at he
    subst he
    rfl

theorem entryAt_isSome_of_mem {rd : Read} {c a w : Nat} (h : (c, a, w) ∈ rd.entries) :
    (rd.entryAt c).isSome := by
  unfold Read.entryAt
  rw [Option.isSome_map, List.find?_isSome]
  exact ⟨_, h, by simp⟩

theorem mkInst_spans {positions raws nind trios geno recomb} {I : Inst}
    (h : mkInst positions raws nind trios geno recomb = some I) : Spans I := by
  obtain ⟨hp, hn, hconv, _⟩ := mkInst_conv h
  obtain ⟨_, _, hncols, _⟩ := mkInst_some h
  have hfl : ∀ r, r < I.nreads → (I.read r).first ≤ (I.read r).last := by
    intro r hr
    have c := hconv r (by omega)
    obtain ⟨v, hv⟩ := List.exists_mem_of_ne_nil _ c.ne
    have := variant_between _ c.sorted v hv
    exact (colOf_le_iff hp c.first c.last).mpr (by omega)
  refine ⟨hfl, ?_, ?_, ?_⟩
  · intro r hr
    have c := hconv r (by omega)
    obtain ⟨hc, _⟩ := colOf_some c.last
    omega
  · intro r hr e he
    have c := hconv r (by omega)
    rw [c.entries, mem_toEntries] at he
    obtain ⟨v, hv, hcol, _⟩ := he
    have hb := variant_between _ c.sorted v hv
    exact ⟨(colOf_le_iff hp c.first hcol).mpr hb.1, (colOf_le_iff hp hcol c.last).mpr hb.2⟩
  · intro r hr
    have c := hconv r (by omega)
    generalize hraw : raws.getD r default = raw at c
    obtain ⟨i, l⟩ := raw
    cases l with
    | nil => exact absurd rfl c.ne
    | cons v vs =>
      have hf := c.first
      have hl := c.last
      rw [firstPos_cons] at hf
      rw [lastPos_cons] at hl
      constructor
      · apply entryAt_isSome_of_mem (a := v.2.1) (w := v.2.2)
        rw [c.entries, mem_toEntries]
        exact ⟨v, by simp, hf, rfl⟩
      · apply entryAt_isSome_of_mem (a := ((v :: vs).getLast (List.cons_ne_nil v vs)).2.1)
          (w := ((v :: vs).getLast (List.cons_ne_nil v vs)).2.2)
        rw [c.entries, mem_toEntries]
        exact ⟨_, List.getLast_mem _, hl, rfl⟩

/-! ### the column view of the instance is `ColumnIterator::get_next`'s column -/

theorem toEntries_find {positions : List Nat} (hp : positions.Pairwise (· < ·)) {c : Nat}
    (hc : c < positions.length) : ∀ vs : List (Nat × Nat × Nat),
    ((toEntries positions vs).find? (fun e => e.1 == c)).map (fun e => (e.2.1, e.2.2)) =
      (vs.find? (fun v => v.1 == positions[c])).map (fun v => (v.2.1, v.2.2))
  | [] => rfl
  | v :: vs => by
    have ih := toEntries_find hp hc vs
    unfold toEntries at ih ⊢
    rw [List.filterMap_cons]
    cases hcol : colOf positions v.1 with
    | none =>
      have hne : (v.1 == positions[c]) = false := by
        rw [beq_eq_false_iff_ne]
        intro e
        rw [e, colOf_get hp hc] at hcol
        cases hcol
      simp only [Option.map_none, List.find?_cons, hne]
      exact ih
    | some c' =>
      simp only [Option.map_some, List.find?_cons]
      by_cases hcc : c' = c
      · subst hcc
        obtain ⟨_, e⟩ := colOf_some hcol
        simp [e]
      · have hne : (v.1 == positions[c]) = false := by
          rw [beq_eq_false_iff_ne]
          intro e
          rw [e, colOf_get hp hc] at hcol
          exact hcc (Option.some.inj hcol).symm
        have hne' : (c' == c) = false := by simpa using hcc
        simp only [hne, hne']
        exact ih

/-- **Faithfulness of the conversion**: for every column `c`, the active reads (in id order) and their entries
(BLANK = `none`) as the DP model reads them off the instance are exactly what `ColumnIterator::get_next`
computes from the ReadSet at genomic position `positions[c]`. -/
theorem mkInst_column {positions raws nind trios geno recomb} {I : Inst}
    (h : mkInst positions raws nind trios geno recomb = some I) (c : Nat) (hc : c < positions.length) :
    I.column c = rawColumn raws positions[c] := by
  obtain ⟨hp, hn, hconv, _⟩ := mkInst_conv h
  unfold Inst.column rawColumn Inst.activeAt
  rw [hn]
  have hcc := colOf_get hp hc
  have hfilter : (List.range raws.length).filter
        (fun r => decide ((I.read r).first ≤ c) && decide (c ≤ (I.read r).last)) =
      (List.range raws.length).filter (fun k =>
        decide ((raws.getD k default).firstPos ≤ positions[c]) && decide (positions[c] ≤ (raws.getD k default).lastPos)) := by
    apply List.filter_congr
    intro k hk
    have cv := hconv k (List.mem_range.mp hk)
    have e1 := colOf_le_iff hp cv.first hcc
    have e2 := colOf_le_iff hp hcc cv.last
    simp only [e1, e2]
  rw [hfilter]
  apply List.map_congr_left
  intro k hk
  have hk' : k < raws.length := List.mem_range.mp (List.mem_filter.mp hk).1
  have cv := hconv k hk'
  simp only [Prod.mk.injEq, true_and]
  unfold Read.entryAt RawRead.variantAt
  rw [cv.entries]
  exact toEntries_find hp hc _

end WhVerif.C01

import WhVerif.Model.C01Pedigree
import WhVerif.Lemmas.C01Input
/-! C01 glue lemmas I: the `Pedigree` object (id ↔ index), the truncating likelihood sum, the resolution. -/
namespace WhVerif.C01
open WhVerif.Cost

/-! ### `cost += double` -/

theorem addTrunc_eq (den c n : Nat) (h : 0 < den) : addTrunc den c n = c + n / den := by
  unfold addTrunc
  rw [Nat.mul_comm, Nat.mul_add_div h]

theorem addTrunc_integral (den c m : Nat) (h : 0 < den) : addTrunc den c (den * m) = c + m := by
  rw [addTrunc_eq _ _ _ h, Nat.mul_div_cancel_left _ h]

/-! ### the id → index map -/

theorem find_filter_ne (k k' : Nat) (h : k' ≠ k) : ∀ m : List (Nat × Nat),
    (m.filter (fun e => e.1 != k)).find? (fun e => e.1 == k') = m.find? (fun e => e.1 == k') := by
  intro m
  induction m with
  | nil => rfl
  | cons a m ih =>
    by_cases ha : a.1 = k
    · have h1 : (a.1 != k) = false := by simp [ha]
      have h2 : (a.1 == k') = false := by rw [ha]; simp; exact fun e => h e.symm
      rw [List.filter_cons, h1, List.find?_cons, h2]
      simpa using ih
    · have h1 : (a.1 != k) = true := by simp [ha]
      rw [List.filter_cons, h1]
      simp only [if_true, List.find?_cons, ih]

theorem mapFind_insert (m : List (Nat × Nat)) (k v k' : Nat) :
    mapFind (mapInsert m k v) k' = if k' = k then some v else mapFind m k' := by
  unfold mapFind mapInsert
  by_cases h : k' = k
  · subst h; simp
  · rw [if_neg h, List.find?_cons]
    have h1 : ((k, v).1 == k') = false := by simp; exact fun e => h e.symm
    rw [h1]
    simp only
    rw [find_filter_ne k k' h]

/-- what every reachable `Pedigree` object satisfies -/
structure PedInv (P : Ped) : Prop where
  /-- a map entry points to an individual carrying that id -/
  sound : ∀ id i, P.idToIndex id = some i → P.ids[i]? = some id
  /-- every id that was added is in the map -/
  complete : ∀ id, id ∈ P.ids → ∃ i, P.idToIndex id = some i
  /-- the map points to the LAST individual added with the id -/
  last : ∀ id i j, P.idToIndex id = some i → P.ids[j]? = some id → j ≤ i
  glen : P.gts.length = P.ids.length
  llen : P.gls.length = P.ids.length
  /-- triples hold indices of existing individuals -/
  members : ∀ tr ∈ P.triples, tr.1 < P.ids.length ∧ tr.2.1 < P.ids.length ∧ tr.2.2 < P.ids.length

theorem PedInv.empty : PedInv {} :=
  { sound := by intro id i h; simp [Ped.idToIndex, mapFind] at h
    complete := by intro id h; simp at h
    last := by intro id i j h; simp [Ped.idToIndex, mapFind] at h
    glen := rfl, llen := rfl
    members := by intro tr h; simp at h }

theorem idx_lt_of_sound {P : Ped} (h : PedInv P) {id i : Nat} (hi : P.idToIndex id = some i) : i < P.ids.length := by
  have := h.sound id i hi
  exact (List.getElem?_eq_some_iff.mp this).1

theorem PedInv.addIndividual {P Q : Ped} (h : PedInv P) (id : Nat) (g l) (hq : P.addIndividual id g l = some Q) :
    PedInv Q := by
  unfold Ped.addIndividual at hq
  simp only at hq
  split at hq
  · cases hq
  · simp only [Option.some.injEq] at hq
    have hfind : ∀ id', Q.idToIndex id' = if id' = id then some P.ids.length else P.idToIndex id' := by
      intro id'; rw [← hq]; exact mapFind_insert _ _ _ _
    have hids : Q.ids = P.ids ++ [id] := by rw [← hq]
    have hgts : Q.gts = P.gts ++ [g] := by rw [← hq]
    have hgls : Q.gls = P.gls ++ [l] := by rw [← hq]
    have htri : Q.triples = P.triples := by rw [← hq]
    refine { sound := ?_, complete := ?_, last := ?_, glen := ?_, llen := ?_, members := ?_ }
    · intro id' i hi
      rw [hfind] at hi
      rw [hids]
      by_cases he : id' = id
      · rw [if_pos he] at hi; cases hi; subst he; simp
      · rw [if_neg he] at hi
        have := h.sound id' i hi
        have hl := (List.getElem?_eq_some_iff.mp this).1
        rw [List.getElem?_append_left hl]; exact this
    · intro id' hm
      rw [hfind]
      by_cases he : id' = id
      · exact ⟨_, by rw [if_pos he]⟩
      · rw [if_neg he]
        rw [hids] at hm
        simp only [List.mem_append, List.mem_singleton] at hm
        rcases hm with hm | hm
        · exact h.complete id' hm
        · exact absurd hm he
    · intro id' i j hi hj
      rw [hfind] at hi
      rw [hids] at hj
      by_cases he : id' = id
      · rw [if_pos he] at hi; cases hi
        have := (List.getElem?_eq_some_iff.mp hj).1
        simp at this; omega
      · rw [if_neg he] at hi
        by_cases hjl : j < P.ids.length
        · rw [List.getElem?_append_left hjl] at hj; exact h.last id' i j hi hj
        · rw [List.getElem?_append_right (by omega)] at hj
          have : j - P.ids.length = 0 := by
            cases hh : j - P.ids.length with
            | zero => rfl
            | succ q => rw [hh] at hj; simp at hj
          rw [this] at hj; simp at hj; exact absurd hj.symm he
    · rw [hgts, hids]; simp [h.glen]
    · rw [hgls, hids]; simp [h.llen]
    · intro tr htr
      rw [htri] at htr
      have := h.members tr htr
      rw [hids]
      simp only [List.length_append, List.length_singleton]
      omega

theorem PedInv.addRelationship {P Q : Ped} (h : PedInv P) (f m c : Nat) (hq : P.addRelationship f m c = some Q) :
    PedInv Q := by
  unfold Ped.addRelationship at hq
  split at hq
  · rename_i fi mi ci hf hm hc
    simp only [Option.some.injEq] at hq
    subst hq
    refine { sound := h.sound, complete := h.complete, last := h.last, glen := h.glen, llen := h.llen, members := ?_ }
    intro tr htr
    simp only [List.mem_append, List.mem_singleton] at htr
    rcases htr with htr | htr
    · exact h.members tr htr
    · subst htr
      exact ⟨idx_lt_of_sound h hf, idx_lt_of_sound h hm, idx_lt_of_sound h hc⟩
  · cases hq

theorem PedInv.run : ∀ (ops : List PedOp) (P Q : Ped), PedInv P → Ped.run ops P = some Q → PedInv Q := by
  intro ops
  induction ops with
  | nil => intro P Q h hq; simp only [Ped.run, Option.some.injEq] at hq; subst hq; exact h
  | cons op ops ih =>
    intro P Q h hq
    simp only [Ped.run] at hq
    cases hs : P.step op with
    | none => rw [hs] at hq; cases hq
    | some P' =>
      rw [hs] at hq
      simp only [Option.bind_some] at hq
      refine ih P' Q ?_ hq
      cases op with
      | addInd id g l => exact h.addIndividual id g l hs
      | addRel f m c => exact h.addRelationship f m c hs

/-- with pairwise distinct ids, `id_to_index` and `index_to_id` are inverse to each other -/
theorem PedInv.index_of_id {P : Ped} (h : PedInv P) (hnd : P.ids.Nodup) (i id : Nat) (hi : P.indexToId i = some id) :
    P.idToIndex id = some i := by
  unfold Ped.indexToId at hi
  obtain ⟨j, hj⟩ := h.complete id (List.mem_of_getElem? hi)
  have hs := h.sound id j hj
  obtain ⟨h1, h1'⟩ := List.getElem?_eq_some_iff.mp hi
  obtain ⟨h2, h2'⟩ := List.getElem?_eq_some_iff.mp hs
  have : i = j := by
    have hp := List.pairwise_iff_getElem.mp hnd
    rcases Nat.lt_trichotomy i j with hlt | heq | hgt
    · exact absurd (h1'.trans h2'.symm) (hp i j h1 h2 hlt)
    · exact heq
    · exact absurd (h2'.trans h1'.symm) (hp j i h2 h1 hgt)
  rw [this]; exact hj

/-! ### the resolution of the reads -/

theorem resolveReads_spec (P : Ped) : ∀ (rs : List ApiRead) (raws : List RawRead), resolveReads P rs = some raws →
    raws.length = rs.length ∧ ∀ k, k < rs.length →
      (raws.getD k default).variants = (rs.getD k default).variants ∧
      P.idToIndex (rs.getD k default).sample = some (raws.getD k default).ind := by
  intro rs
  induction rs with
  | nil => intro raws h; simp only [resolveReads, Option.some.injEq] at h; subst h; simp
  | cons r rs ih =>
    intro raws h
    unfold resolveReads at h
    split at h
    · rename_i i rest hi hrest
      simp only [Option.some.injEq] at h
      subst h
      obtain ⟨hl, hk⟩ := ih rest hrest
      refine ⟨by simp [hl], ?_⟩
      intro k hk'
      cases k with
      | zero => simp [hi]
      | succ k =>
        have := hk k (by simpa using hk')
        simpa using this
    · cases h

end WhVerif.C01

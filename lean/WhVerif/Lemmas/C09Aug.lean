import WhVerif.Model.C09Text
/-!
# C09: passthrough of `VcfAugmenter` over the chromosomes in file order; indexed `fetch` vs iteration
-/
namespace WhVerif.C09.Text

/-- neighbouring names differ -/
def AdjDiff : List String → Prop
  | [] => True
  | [_] => True
  | a :: b :: r => a ≠ b ∧ AdjDiff (b :: r)

def AdjDiff.dec : (l : List String) → Decidable (AdjDiff l)
  | [] => isTrue trivial
  | [_] => isTrue trivial
  | a :: b :: r =>
    match AdjDiff.dec (b :: r) with
    | isTrue h => if h' : a = b then isFalse (fun hh => hh.1 h') else isTrue ⟨h', h⟩
    | isFalse h => isFalse (fun hh => h hh.2)

instance (l : List String) : Decidable (AdjDiff l) := AdjDiff.dec l

@[simp] theorem flatten_nil {α} : flatten ([] : List (String × List α)) = [] := rfl

@[simp] theorem flatten_cons {α} (c : String) (xs : List α) (rest : List (String × List α)) :
    flatten ((c, xs) :: rest) = (xs.map fun x => (c, x)) ++ flatten rest := by
  simp [flatten]

/-! ## (A) passthrough -/

theorem iterLoop_block_nil {α} (chrom : String) (n : Nat) (xs : List α) :
    iterLoop chrom n (xs.map fun x => (chrom, x)) = (xs, none, [], false) := by
  induction xs generalizing n with
  | nil => rfl
  | cons x xs ih => simp [iterLoop, ih]

theorem iterLoop_block_cons {α} (chrom c : String) (h : c ≠ chrom) (n : Nat) (xs : List α) (y : α)
    (r : List (String × α)) :
    iterLoop chrom n ((xs.map fun x => (chrom, x)) ++ (c, y) :: r) =
      (xs, some (c, y), r, decide (n + xs.length = 0)) := by
  induction xs generalizing n with
  | nil => cases n <;> simp [iterLoop, h]
  | cons x xs ih => simp [iterLoop, ih]

/-- misuse: the first call names a chromosome that is not the first of the file (`assert n != 1`) -/
theorem iterRecords_wrong_first {α} (chrom c : String) (x : α) (r : List (String × α)) (h : c ≠ chrom) :
    iterRecords chrom ⟨none, (c, x) :: r⟩ = .error [] := by
  simp [iterRecords, iterLoop, h]

/-- a later call, the state being "pending": the first record of the next group sits in `unprocessed` -/
theorem runAug_pending {α} (later : List (String × List α)) :
    ∀ (c : String) (x : α) (xs : List α) (fs : List (Option (α → α))),
    fs.length = later.length + 1 → (∀ g ∈ later, g.2 ≠ []) → AdjDiff (c :: later.map (·.1)) →
    runAug ⟨some (c, x), (xs.map fun y => (c, y)) ++ flatten later⟩ ((c :: later.map (·.1)).zip fs) =
      .ok ((((c, x :: xs) :: later).zip fs).map fun gf =>
        match gf.2 with | none => gf.1.2 | some g => gf.1.2.map g) := by
  induction later with
  | nil =>
    intro c x xs fs hlen _ _
    match fs, hlen with
    | [f], _ =>
      simp [runAug, iterRecords, iterLoop_block_nil]
      cases f <;> rfl
  | cons g later ih =>
    intro c x xs fs hlen hne hadj
    obtain ⟨c', ys⟩ := g
    cases ys with
    | nil => exact absurd rfl (hne (c', []) (List.mem_cons_self ..))
    | cons y ys =>
      match fs, hlen with
      | f :: fs, hlen =>
        have hcc : c' ≠ c := fun e => hadj.1 e.symm
        have h2 := ih c' y ys fs (by simpa using hlen) (fun g hg => hne g (List.mem_cons_of_mem _ hg)) hadj.2
        simp [runAug, iterRecords, iterLoop_block_cons _ _ hcc, h2]
        cases f <;> rfl

theorem runAug_groups {α} (groups : List (String × List α)) (fs : List (Option (α → α)))
    (hlen : fs.length = groups.length) (hne : ∀ g ∈ groups, g.2 ≠ []) (hadj : AdjDiff (groups.map (·.1))) :
    runAug ⟨none, flatten groups⟩ ((groups.map (·.1)).zip fs) =
      .ok ((groups.zip fs).map fun gf => match gf.2 with | none => gf.1.2 | some g => gf.1.2.map g) := by
  match groups, fs, hlen, hne, hadj with
  | [], [], _, _, _ => rfl
  | (c, []) :: _, _, _, hne, _ => exact absurd rfl (hne (c, []) (List.mem_cons_self ..))
  | [(c, x :: xs)], [f], _, _, _ =>
    have := iterLoop_block_nil c 0 (x :: xs)
    simp only [List.map_cons] at this
    simp [runAug, iterRecords, this]
    cases f <;> rfl
  | (c, x :: xs) :: (c', []) :: _, _, _, hne, _ =>
    exact absurd rfl (hne (c', []) (List.mem_cons_of_mem _ (List.mem_cons_self ..)))
  | (c, x :: xs) :: (c', y :: ys) :: later, f :: fs, hlen, hne, hadj =>
    have hcc : c' ≠ c := fun e => hadj.1 e.symm
    have h1 := iterLoop_block_cons c c' hcc 0 (x :: xs) y ((ys.map fun z => (c', z)) ++ flatten later)
    simp only [List.map_cons, List.cons_append] at h1
    have h2 := runAug_pending later c' y ys fs (by simpa using hlen)
      (fun g hg => hne g (List.mem_cons_of_mem _ (List.mem_cons_of_mem _ hg))) hadj.2
    simp [runAug, iterRecords, h1, h2]
    cases f <;> rfl

theorem runAug_all_unchanged {α} (groups : List (String × List α))
    (hne : ∀ g ∈ groups, g.2 ≠ []) (hadj : AdjDiff (groups.map (·.1))) :
    runAug ⟨none, flatten groups⟩ ((groups.map (·.1)).map fun c => (c, (none : Option (α → α)))) =
      .ok (groups.map (·.2)) := by
  have h := runAug_groups groups (List.replicate groups.length none) (by simp) hne hadj
  have e1 : (groups.map (·.1)).zip (List.replicate groups.length (none : Option (α → α))) =
      (groups.map (·.1)).map fun c => (c, none) := by
    clear h hne hadj
    induction groups with
    | nil => rfl
    | cons g gs ih => simp [List.replicate_succ, ih]
  have e2 : ((groups.zip (List.replicate groups.length (none : Option (α → α)))).map fun gf =>
      match gf.2 with | none => gf.1.2 | some g => gf.1.2.map g) = groups.map (·.2) := by
    clear h hne hadj e1
    induction groups with
    | nil => rfl
    | cons g gs ih => simp [List.replicate_succ, ih]
  rw [e1, e2] at h
  exact h

/-! ## (B) fetch vs iteration -/

theorem overlaps_zero_none (s : Site) : overlaps 0 none s = decide (0 < s.start + s.rlen) := by
  simp [overlaps]

theorem overlaps_zero_none_iff (s : Site) : overlaps 0 none s = true ↔ 0 < s.rlen ∨ 0 < s.start := by
  simp [overlaps]; omega

/-- with `start = 1` (a 1-based POS taken for the 0-based start) the record at POS 1 is lost -/
theorem overlaps_one_loses_first (c : String) : overlaps 1 none ⟨c, 0, 1⟩ = false := by
  simp [overlaps]

theorem flatten_map_snd {α} (groups : List (String × List α)) :
    (flatten groups).map (·.2) = groups.flatMap (·.2) := by
  induction groups with
  | nil => rfl
  | cons g gs ih => obtain ⟨c, xs⟩ := g; simp [ih, Function.comp_def]

theorem fetchChrom_append {α} (site : α → Site) (a b : List α) (c : String) :
    fetchChrom site (a ++ b) c = fetchChrom site a c ++ fetchChrom site b c := by
  simp [fetchChrom, fetchRecs]

theorem fetchChrom_other {α} (site : α → Site) (gs : List (String × List α)) (c : String)
    (hchrom : ∀ g ∈ gs, ∀ x ∈ g.2, (site x).chrom = g.1) (hd : ∀ g ∈ gs, g.1 ≠ c) :
    fetchChrom site (gs.flatMap (·.2)) c = [] := by
  simp only [fetchChrom, fetchRecs, List.filter_eq_nil_iff, List.mem_flatMap]
  rintro x ⟨g, hg, hx⟩
  have := hchrom g hg x hx
  have := hd g hg
  simp_all

theorem fetchChrom_own {α} (site : α → Site) (xs : List α) (c : String)
    (hchrom : ∀ x ∈ xs, (site x).chrom = c) (hlen : ∀ x ∈ xs, 0 < (site x).rlen) :
    fetchChrom site xs c = xs := by
  simp only [fetchChrom, fetchRecs, List.filter_eq_self]
  intro x hx
  have := hchrom x hx
  have := hlen x hx
  simp [overlaps, *]; omega

theorem fetchChrom_group {α} (site : α → Site) (groups : List (String × List α))
    (hchrom : ∀ g ∈ groups, ∀ x ∈ g.2, (site x).chrom = g.1)
    (hpw : (groups.map (·.1)).Pairwise (· ≠ ·))
    (hlen : ∀ g ∈ groups, ∀ x ∈ g.2, 0 < (site x).rlen)
    (g : String × List α) (hg : g ∈ groups) :
    fetchChrom site ((flatten groups).map (·.2)) g.1 = g.2 := by
  rw [flatten_map_snd]
  induction groups with
  | nil => cases hg
  | cons g0 gs ih =>
    rw [List.flatMap_cons, fetchChrom_append]
    rw [List.map_cons, List.pairwise_cons] at hpw
    have hchrom' : ∀ g ∈ gs, ∀ x ∈ g.2, (site x).chrom = g.1 := fun g h => hchrom g (List.mem_cons_of_mem _ h)
    rcases List.mem_cons.1 hg with rfl | hg'
    · rw [fetchChrom_own site g.2 g.1 (hchrom g (List.mem_cons_self ..)) (hlen g (List.mem_cons_self ..)),
        fetchChrom_other site gs g.1 hchrom' (fun g' h' => (hpw.1 g'.1 (List.mem_map_of_mem h')).symm)]
      simp
    · have h0 : fetchChrom site g0.2 g.1 = [] := by
        simp only [fetchChrom, fetchRecs, List.filter_eq_nil_iff]
        intro x hx
        have h1 := hchrom g0 (List.mem_cons_self ..) x hx
        have h2 := hpw.1 g.1 (List.mem_map_of_mem hg')
        simp [h1, h2]
      rw [h0, List.nil_append]
      exact ih hchrom' hpw.2 (fun g h => hlen g (List.mem_cons_of_mem _ h)) hg'

/-- one block of records with the same key in front of a tail whose first run has another key -/
theorem runsOf_block {α} (key : α → String) (c : String) (tail : List α)
    (ht : ∀ c' ys t, runsOf key tail = (c', ys) :: t → c' ≠ c) :
    ∀ (xs : List α) (x : α), (∀ y ∈ x :: xs, key y = c) →
      runsOf key ((x :: xs) ++ tail) = (c, x :: xs) :: runsOf key tail := by
  intro xs
  induction xs with
  | nil =>
    intro x hk
    have hx : key x = c := hk x (List.mem_cons_self ..)
    simp only [List.cons_append, List.nil_append, runsOf]
    cases h : runsOf key tail with
    | nil => simp [hx]
    | cons p t =>
      obtain ⟨c', ys⟩ := p
      have := ht c' ys t h
      simp [hx, Ne.symm this]
  | cons x' xs ih =>
    intro x hk
    have hx : key x = c := hk x (List.mem_cons_self ..)
    have h := ih x' (fun y hy => hk y (List.mem_cons_of_mem _ hy))
    rw [List.cons_append, runsOf, h]
    simp [hx]

theorem runsOf_flatten {α} (site : α → Site) (groups : List (String × List α))
    (hchrom : ∀ g ∈ groups, ∀ x ∈ g.2, (site x).chrom = g.1)
    (hne : ∀ g ∈ groups, g.2 ≠ []) (hadj : AdjDiff (groups.map (·.1))) :
    runsOf (fun x => (site x).chrom) ((flatten groups).map (·.2)) = groups := by
  rw [flatten_map_snd]
  induction groups with
  | nil => rfl
  | cons g gs ih =>
    obtain ⟨c, xs⟩ := g
    have hadj' : AdjDiff (gs.map (·.1)) := by
      cases gs with
      | nil => trivial
      | cons g' gs' => exact hadj.2
    have ih' := ih (fun g h => hchrom g (List.mem_cons_of_mem _ h))
      (fun g h => hne g (List.mem_cons_of_mem _ h)) hadj'
    cases xs with
    | nil => exact absurd rfl (hne (c, []) (List.mem_cons_self ..))
    | cons x xs =>
      rw [List.flatMap_cons]
      rw [runsOf_block (fun x => (site x).chrom) c (gs.flatMap (·.2)) ?_ xs x
        (hchrom (c, x :: xs) (List.mem_cons_self ..)), ih']
      intro c' ys t h
      rw [ih'] at h
      subst h
      exact fun e => hadj.1 e.symm

/-! ## instances -/

example : runAug ⟨none, flatten [("chr1", [1, 2]), ("chr2", [3]), ("chr1", [4, 5])]⟩
    ((["chr1", "chr2", "chr1"]).zip [none, some (· + 10), none]) = .ok [[1, 2], [13], [4, 5]] :=
  runAug_groups [("chr1", [1, 2]), ("chr2", [3]), ("chr1", [4, 5])] [none, some (· + 10), none] rfl
    (by simp) (by simp [AdjDiff])

example : AdjDiff ["chr1", "chr2", "chr1"] := by decide

example : runAug ⟨none, flatten [("chr1", [1, 2]), ("chr2", [3])]⟩ [("chr1", none), ("chr2", none)] =
    .ok [[1, 2], [3]] :=
  runAug_all_unchanged [("chr1", [1, 2]), ("chr2", [3])] (by simp) (by simp [AdjDiff])

/-- calling for `chr2` first on a file that starts with `chr1`: the assertion -/
example : runAug ⟨none, flatten [("chr1", [1, 2]), ("chr2", [3])]⟩ [("chr2", (none : Option (Nat → Nat)))] =
    .error () := by
  simp [runAug, iterRecords_wrong_first]

example : fetchChrom id ((flatten [("chr1", [(⟨"chr1", 0, 1⟩ : Site), ⟨"chr1", 7, 2⟩]), ("chr2", [⟨"chr2", 3, 1⟩])]).map (·.2))
    "chr2" = [⟨"chr2", 3, 1⟩] :=
  fetchChrom_group id [("chr1", [⟨"chr1", 0, 1⟩, ⟨"chr1", 7, 2⟩]), ("chr2", [⟨"chr2", 3, 1⟩])]
    (by simp) (by simp) (by simp) ("chr2", [⟨"chr2", 3, 1⟩]) (by simp)

example : runsOf (fun x : Site => x.chrom) [⟨"chr1", 0, 1⟩, ⟨"chr1", 7, 2⟩, ⟨"chr2", 3, 1⟩] =
    [("chr1", [⟨"chr1", 0, 1⟩, ⟨"chr1", 7, 2⟩]), ("chr2", [⟨"chr2", 3, 1⟩])] :=
  runsOf_flatten id [("chr1", [⟨"chr1", 0, 1⟩, ⟨"chr1", 7, 2⟩]), ("chr2", [⟨"chr2", 3, 1⟩])]
    (by simp) (by simp) (by simp [AdjDiff])

/-- the record at POS 1 is found by `fetch(chrom)` (start 0) and lost with start 1 -/
example : fetchRecs id [(⟨"chr1", 0, 1⟩ : Site)] "chr1" 0 none = [⟨"chr1", 0, 1⟩] ∧
    fetchRecs id [(⟨"chr1", 0, 1⟩ : Site)] "chr1" 1 none = [] := by
  simp [fetchRecs, overlaps]

end WhVerif.C09.Text

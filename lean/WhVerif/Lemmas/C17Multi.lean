import WhVerif.Lemmas.C17Fold
/-! C17 for arbitrary allele ids: the vote-loop invariant and the consensus of a one-sided vote at a heterozygous
diploid call whose genotype vector is `[x, y]`, `x ≠ y` (multi-allelic sites: ids ≥ 2; `Genotype.as_vector()` lists
the alleles in descending order, the lemmas hold for either order). -/
namespace WhVerif.C17
open WhVerif.C10 (RV)

theorem alleleId_pair (x y : Nat) (hxy : x ≠ y) : alleleId [x, y] x = some 0 ∧ alleleId [x, y] y = some 1 := by
  have h1 : (y == x) = false := by simpa using fun e : y = x => hxy e.symm
  have h2 : (x == y) = false := by simpa using hxy
  constructor <;> simp [alleleId, List.zipIdx, h1, h2]

theorem alleleId_pair_other (x y a : Nat) (hx : a ≠ x) (hy : a ≠ y) : alleleId [x, y] a = none := by
  have h1 : (x == a) = false := by simpa using fun e : x = a => hx e.symm
  have h2 : (y == a) = false := by simpa using fun e : y = a => hy e.symm
  simp [alleleId, List.zipIdx, h1, h2]

/-- the vote key that reconstructs `a0|…`: the index of `a0` in the genotype vector `[x, y]` -/
def keyOf (x a0 : Nat) : Nat := if a0 = x then 0 else 1

theorem keyOf_le (x a0 : Nat) : keyOf x a0 ≤ 1 := by unfold keyOf; split <;> omega

theorem voteVariants_inv_pair {vars : List VarInfo} {pos : Nat} {info : VarInfo} {ps0 : Int} {k0 : Nat} (hk : k0 ≤ 1)
    (hinfo : infoAt vars pos = some info) {x y : Nat} (hxy : x ≠ y) (hgt : info.gt = [x, y]) {ps : Int} {ht : Nat}
    (vs : List RV)
    (hcons : ∀ v ∈ vs, v.pos = pos → ps = ps0 ∧ ∃ id, alleleId [x, y] v.allele = some id ∧ ht ^^^ id = k0)
    {S : Nat} {votes votes' : Votes} (hi : PosInv pos ps0 k0 S votes)
    (h : voteVariants vars ps ht votes vs = .ok votes') : PosInv pos ps0 k0 (S + qualOf pos vs) votes' := by
  induction vs generalizing S votes with
  | nil => simp [voteVariants] at h; subst h; simpa [qualOf] using hi
  | cons v rest ih =>
    simp only [voteVariants] at h
    cases hv : voteVariant vars ps ht votes v with
    | error e => simp [hv] at h
    | ok votes1 =>
      simp only [hv] at h
      have hrest : ∀ w ∈ rest, w.pos = pos → ps = ps0 ∧ ∃ id, alleleId [x, y] w.allele = some id ∧ ht ^^^ id = k0 :=
        fun w hw => hcons w (List.mem_cons_of_mem _ hw)
      rw [qualOf_cons, ← Nat.add_assoc]
      apply ih hrest _ h
      unfold voteVariant at hv
      by_cases hp : v.pos = pos
      · obtain ⟨hps, id, hid, hkey⟩ := hcons v List.mem_cons_self hp
        subst hps
        rw [hp, hinfo] at hv
        have hhom : info.homozygous = false := by
          have : (y == x) = false := by simpa using fun e : y = x => hxy e.symm
          simp [VarInfo.homozygous, hgt, this]
        have hid' : alleleId info.gt v.allele = some id := by rw [hgt]; exact hid
        simp only [hhom, hid', hkey] at hv
        simp only [Bool.false_eq_true, if_false] at hv
        cases hva : voteAt pos ps k0 v.qual votes with
        | none => simp [hva] at hv
        | some v1 =>
          simp only [hva] at hv
          injection hv with hv
          subst hv
          simpa [hp] using posInv_vote_self hk hi hva
      · simp only [hp, if_false, Nat.add_zero]
        cases hia : infoAt vars v.pos with
        | none => simp [hia] at hv
        | some info' =>
          simp only [hia] at hv
          by_cases hh : info'.homozygous = true
          · simp only [hh, if_true] at hv
            injection hv with hv; subst hv; exact hi
          · simp only [hh] at hv
            simp only [Bool.false_eq_true, if_false] at hv
            cases hid : alleleId info'.gt v.allele with
            | none => simp [hid] at hv
            | some id =>
              simp only [hid] at hv
              cases hva : voteAt v.pos ps (ht ^^^ id) v.qual votes with
              | none => simp [hva] at hv
              | some v1 =>
                simp only [hva] at hv
                injection hv with hv
                subst hv
                exact posInv_vote_other (fun e => hp e.symm) hi hva

theorem computeVotes_inv_pair {vars : List VarInfo} {pos : Nat} {info : VarInfo} {P : Int} {x y a0 a1 : Nat}
    (hxy : x ≠ y) (ha : (a0 = x ∧ a1 = y) ∨ (a0 = y ∧ a1 = x))
    (hinfo : infoAt vars pos = some info) (hgt : info.gt = [x, y])
    (reads : List TRead) (hcons : Consistent pos P a0 a1 reads)
    {S : Nat} {votes votes' : Votes} (hi : PosInv pos (P - 1) (keyOf x a0) S votes)
    (h : computeVotes vars votes reads = .ok votes') :
    PosInv pos (P - 1) (keyOf x a0) (S + qualAt pos reads) votes' := by
  have hk : keyOf x a0 ≤ 1 := keyOf_le x a0
  obtain ⟨idx, idy⟩ := alleleId_pair x y hxy
  induction reads generalizing S votes with
  | nil => simp [computeVotes] at h; subst h; simpa [qualAt] using hi
  | cons r rest ih =>
    simp only [computeVotes] at h
    cases hr : voteRead vars votes r with
    | error e => simp [hr] at h
    | ok votes1 =>
      simp only [hr] at h
      have hrest : Consistent pos P a0 a1 rest := fun x hx => hcons x (List.mem_cons_of_mem _ hx)
      unfold voteRead at hr
      by_cases hv : voting r = true
      · have hq : qualAt pos (r :: rest) = qualOf pos r.variants + qualAt pos rest := by
          simp [qualAt, hv]
        rw [hq, ← Nat.add_assoc]
        apply ih hrest _ h
        simp only [voting, Bool.and_eq_true, decide_eq_true_eq] at hv
        obtain ⟨⟨h1, h2⟩, h3⟩ := hv
        have c1 : ¬ (r.hp - 1 < 0 ∨ r.ps - 1 < 0) := by omega
        have c2 : ¬ (r.hp - 1 > 1) := by omega
        simp only [c1, c2, if_false] at hr
        have hvote : voting r = true := by simp [voting, h1, h2, h3]
        have hc := hcons r List.mem_cons_self hvote
        refine voteVariants_inv_pair hk hinfo hxy hgt r.variants ?_ hi hr
        intro v hv' hp
        obtain ⟨e1, e2⟩ := hc v hv' hp
        have hhp : r.hp = 1 ∨ r.hp = 2 := by omega
        rcases hhp with e | e
        · -- haplotype 1 shows a0
          simp only [e, if_true] at e2
          refine ⟨by omega, ?_⟩
          have h0 : (r.hp - 1).toNat = 0 := by omega
          rw [h0, e2]
          rcases ha with ⟨rfl, rfl⟩ | ⟨rfl, rfl⟩
          · exact ⟨0, idx, by simp [keyOf]⟩
          · exact ⟨1, idy, by simp [keyOf, hxy.symm]⟩
        · -- haplotype 2 shows a1
          have hne : ¬ r.hp = 1 := by omega
          simp only [hne, if_false] at e2
          refine ⟨by omega, ?_⟩
          have h1' : (r.hp - 1).toNat = 1 := by omega
          rw [h1', e2]
          rcases ha with ⟨rfl, rfl⟩ | ⟨rfl, rfl⟩
          · exact ⟨1, idy, by simp [keyOf]⟩
          · exact ⟨0, idx, by simp [keyOf, hxy.symm]⟩
      · have hq : qualAt pos (r :: rest) = qualAt pos rest := by
          simp [qualAt, hv]
        rw [hq]
        apply ih hrest _ h
        have hv' : ¬ (decide (1 ≤ r.hp) && decide (r.hp ≤ 2) && decide (1 ≤ r.ps)) = true := hv
        simp only [Bool.and_eq_true, decide_eq_true_eq] at hv'
        by_cases c1 : r.hp - 1 < 0 ∨ r.ps - 1 < 0
        · simp only [c1, if_true] at hr
          injection hr with hr; subst hr; exact hi
        · have c2 : r.hp - 1 > 1 := by omega
          simp only [c1, c2, if_true, if_false] at hr
          injection hr with hr; subst hr; exact hi

/-- consensus of a one-sided vote at the genotype vector `[x, y]`: super-read 1 gets the allele with index `k0`,
super-read 2 the other one -/
theorem consensusAt_shape_pair (par : Params) (hgap : par.gapThreshold ≤ 100) (honly : par.onlyIndels = false)
    (ref : Array Char) (info : VarInfo) {x y a0 a1 : Nat} (hxy : x ≠ y)
    (ha : (a0 = x ∧ a1 = y) ∨ (a0 = y ∧ a1 = x)) (hgt : info.gt = [x, y]) (hph : info.phase = none)
    (ps0 : Int) {S : Nat} (hS : 0 < S) (repaired : Bool) :
    consensusAt repaired par ref info (shape ps0 (keyOf x a0) S) = .ok ⟨info.pos, ps0, some (a0, a1)⟩ := by
  have hk := keyOf_le x a0
  have hb := bestCandidate_shape ps0 hk hS
  have h1 := lengthOfHomopolymer_le ref (info.pos + 1) true par.cutPoly
  have h2 := lengthOfHomopolymer_le ref info.pos false par.cutPoly
  have hgapS : ¬ 100 * S < par.gapThreshold * S := by
    have := Nat.mul_le_mul_right S hgap
    omega
  have hhp : ¬ par.cutPoly < max (lengthOfHomopolymer ref (info.pos + 1) true par.cutPoly)
      (lengthOfHomopolymer ref info.pos false par.cutPoly) := by omega
  have hid : idAllele info.gt (keyOf x a0) = some a0 ∧ idAllele info.gt (1 - keyOf x a0) = some a1 := by
    rw [hgt]
    rcases ha with ⟨rfl, rfl⟩ | ⟨rfl, rfl⟩
    · simp [idAllele, keyOf]
    · simp [idAllele, keyOf, hxy.symm]
  unfold consensusAt
  cases repaired <;> simp [hph, hb, hgapS, honly, hhp, hid.1, hid.2]

end WhVerif.C17

import WhVerif.Lemmas.C01Dp
/-! `optCost3 = optCost`: minimising over explicit per-column allele assignments column by column. -/
set_option linter.unusedSimpArgs false
namespace WhVerif.C01
open WhVerif.Cost

theorem minOver_filterMap {α β} (l : List α) (h : α → Option β) (f : β → Option Nat) :
    minOver (l.filterMap h) f = minOver l (fun a => match h a with | none => none | some b => f b) := by
  induction l with
  | nil => rfl
  | cons a l ih =>
    simp only [List.filterMap_cons, minOver_cons]
    cases ha : h a with
    | none => simp [ih]
    | some b => simp [ih]

theorem colCost_eq_min_with (I : Inst) (c : Nat) (bs : List Bool) (t : Nat) :
    colCost I c bs t = minOver (List.range (2 ^ I.npart)) (colCostWith I c bs t) := by
  unfold colCost assignments
  rw [minOver_filterMap]
  apply minOver_congr_fun
  intro α _
  unfold colCostWith
  cases assignCost I c t α <;> simp

theorem costUpToWith_congr (I : Inst) (β : List Bool) (τ αs αs' : List Nat) (c : Nat)
    (h : ∀ c', c' ≤ c → αs.getD c' 0 = αs'.getD c' 0) :
    costUpToWith I β τ αs c = costUpToWith I β τ αs' c := by
  induction c with
  | zero =>
    simp only [costUpToWith, colTotalWith]
    rw [h 0 (Nat.le_refl 0)]
  | succ c ih =>
    simp only [costUpToWith, colTotalWith]
    rw [ih (fun c' hc' => h c' (by omega)), h (c + 1) (Nat.le_refl _)]

def ValidA (I : Inst) (αs : List Nat) : Prop := αs.length = I.ncols ∧ ∀ a ∈ αs, a < 2 ^ I.npart

theorem getD_valid (I : Inst) (αs : List Nat) (h : ValidA I αs) (c : Nat) : αs.getD c 0 < 2 ^ I.npart := by
  rw [List.getD_eq_getElem?_getD]
  cases hc : αs[c]? with
  | none => simpa using Nat.two_pow_pos _
  | some a => simpa using h.2 a (List.mem_of_getElem? hc)

theorem colTotal_le_with (I : Inst) (β : List Bool) (τ αs : List Nat) (h : ValidA I αs) (c : Nat) :
    cle (colTotal I β τ c) (colTotalWith I β τ αs c) := by
  unfold colTotal colTotalWith
  apply cadd_mono _ (cle_refl _)
  rw [colCost_eq_min_with]
  exact (minOver_isMin _ _).lb _ (List.mem_range.mpr (getD_valid I αs h c))

theorem costUpTo_le_with (I : Inst) (β : List Bool) (τ αs : List Nat) (h : ValidA I αs) (c : Nat) :
    cle (costUpTo I β τ c) (costUpToWith I β τ αs c) := by
  induction c with
  | zero => exact colTotal_le_with I β τ αs h 0
  | succ c ih => exact cadd_mono ih (colTotal_le_with I β τ αs h (c + 1))

theorem getD_set (l : List Nat) (i j a : Nat) (hi : i < l.length) :
    (l.set i a).getD j 0 = if j = i then a else l.getD j 0 := by
  simp only [List.getD_eq_getElem?_getD, List.getElem?_set]
  by_cases h : i = j
  · subst h; simp [hi]
  · have : ¬ j = i := fun e => h e.symm
    simp [h, this]

theorem costUpTo_attained (I : Inst) (β : List Bool) (τ : List Nat) (c : Nat) (hc : c < I.ncols) :
    costUpTo I β τ c = none ∨ ∃ αs, ValidA I αs ∧ costUpToWith I β τ αs c = costUpTo I β τ c := by
  induction c with
  | zero =>
    simp only [costUpTo, costUpToWith]
    have hm := minOver_isMin (List.range (2 ^ I.npart)) (colCostWith I 0 (restrict β (I.activeAt 0)) (τ.getD 0 0))
    rcases hm.att with e | ⟨a, ha, e⟩
    · left; unfold colTotal; rw [colCost_eq_min_with, e]; simp
    · right
      refine ⟨(List.replicate I.ncols 0).set 0 a, ⟨by simp, ?_⟩, ?_⟩
      · intro x hx
        rcases List.mem_or_eq_of_mem_set hx with hx | hx
        · rw [(List.mem_replicate.mp hx).2]; exact Nat.two_pow_pos _
        · rw [hx]; exact List.mem_range.mp ha
      · unfold colTotalWith colTotal
        rw [getD_set _ _ _ _ (by simpa using hc), if_pos rfl, e, ← colCost_eq_min_with]
  | succ c ih =>
    simp only [costUpTo, costUpToWith]
    rcases ih (by omega) with e0 | ⟨αs', hv, e0⟩
    · left; rw [e0]; simp
    · have hm := minOver_isMin (List.range (2 ^ I.npart))
        (colCostWith I (c + 1) (restrict β (I.activeAt (c + 1))) (τ.getD (c + 1) 0))
      rcases hm.att with e | ⟨a, ha, e⟩
      · left
        have : colTotal I β τ (c + 1) = none := by unfold colTotal; rw [colCost_eq_min_with, e]; simp
        rw [this]; simp
      · right
        refine ⟨αs'.set (c + 1) a, ⟨by simp [hv.1], ?_⟩, ?_⟩
        · intro x hx
          rcases List.mem_or_eq_of_mem_set hx with hx | hx
          · exact hv.2 x hx
          · rw [hx]; exact List.mem_range.mp ha
        · have hlen : c + 1 < αs'.length := by rw [hv.1]; exact hc
          rw [costUpToWith_congr I β τ (αs'.set (c + 1) a) αs' c
            (fun c' hc' => by rw [getD_set _ _ _ _ hlen, if_neg (by omega)]), e0]
          congr 1
          unfold colTotalWith colTotal
          rw [getD_set _ _ _ _ hlen, if_pos rfl, e, ← colCost_eq_min_with]

/-- for a fixed bipartition and transmission vector, `totalCost` is the minimum of the explicit objective
over all per-column allele assignments -/
theorem totalCost_isMin (I : Inst) (β : List Bool) (τ : List Nat) :
    IsMinOf (ValidA I) (solutionCost I β τ) (totalCost I β τ) := by
  unfold solutionCost totalCost
  by_cases h0 : I.ncols = 0
  · simp only [h0, if_true]
    exact ⟨fun _ _ => by simp [cle], Or.inr ⟨[], ⟨by simp [h0], by simp⟩, rfl⟩⟩
  · simp only [h0, if_false]
    refine ⟨fun αs hv => costUpTo_le_with I β τ αs hv _, ?_⟩
    rcases costUpTo_attained I β τ (I.ncols - 1) (by omega) with e | ⟨αs, hv, e⟩
    · exact Or.inl e
    · exact Or.inr ⟨αs, hv, e⟩

/-- **the column-wise objective equals the fully flattened one** -/
theorem optCost3_eq_optCost (I : Inst) : optCost3 I = optCost I := by
  unfold optCost3 optCost solutions3
  rw [minOver_flatMap]
  apply minOver_congr_fun
  intro s _
  rw [minOver_map]
  have h1 := minOver_isMin (allLists (2 ^ I.npart) I.ncols) (fun αs => solutionCost I s.1 s.2 αs)
  have h2 := totalCost_isMin I s.1 s.2
  have : IsMinOf (ValidA I) (solutionCost I s.1 s.2)
      (minOver (allLists (2 ^ I.npart) I.ncols) (fun αs => solutionCost I s.1 s.2 αs)) :=
    ⟨fun αs hv => h1.lb αs ((mem_allLists _ _ _).mpr hv), by
      rcases h1.att with e | ⟨αs, hm, e⟩
      · exact Or.inl e
      · exact Or.inr ⟨αs, (mem_allLists _ _ _).mp hm, e⟩⟩
  exact this.unique h2

end WhVerif.C01

import WhVerif.Spec.C18
import WhVerif.Lemmas.C18Score
/-! C18 helper lemmas: position map, `swap`, `siftUp`, `siftDown`. -/
namespace WhVerif.C18

/-! ### position map as a function -/

theorem find?_filter_ne (pos : List (Nat × Nat)) (a b : Nat) (h : b ≠ a) :
    (pos.filter (fun p => p.1 != a)).find? (fun p => p.1 == b) = pos.find? (fun p => p.1 == b) := by
  induction pos with
  | nil => rfl
  | cons x xs ih =>
    rcases x with ⟨k, v⟩
    by_cases hx : k = a
    · subst hx
      have : ¬ k = b := by omega
      simp [List.filter_cons, List.find?_cons, this, ih]
    · by_cases hb : k = b
      · subst hb
        simp [List.filter_cons, hx, List.find?_cons]
      · simp [List.filter_cons, hx, List.find?_cons, hb, ih]

theorem find?_filter_self (pos : List (Nat × Nat)) (a : Nat) :
    (pos.filter (fun p => p.1 != a)).find? (fun p => p.1 == a) = none := by
  simp [List.find?_eq_none]

theorem posGet_posSet (pos : List (Nat × Nat)) (a i b : Nat) :
    posGet (posSet pos a i) b = if b = a then some i else posGet pos b := by
  unfold posGet posSet
  by_cases h : b = a
  · subst h; simp
  · have : ¬ a = b := fun h' => h h'.symm
    simp [List.find?_cons, this, h, find?_filter_ne pos a b h]

theorem posGet_posErase (pos : List (Nat × Nat)) (a b : Nat) :
    posGet (posErase pos a) b = if b = a then none else posGet pos b := by
  unfold posGet posErase
  by_cases h : b = a
  · subst h; simp [find?_filter_self]
  · simp [h, find?_filter_ne pos a b h]

/-! ### comparisons at indices -/

def ltAt (h : Array Entry) (i j : Nat) : Bool :=
  match h[i]?, h[j]? with
  | some a, some b => scoreLower a.score b.score
  | _, _ => false

theorem lowerAt_eq (q : PQ) (i j : Nat) : q.lowerAt i j = ltAt q.heap i j := rfl

theorem ltAt_eq {h : Array Entry} {i j : Nat} (hi : i < h.size) (hj : j < h.size) :
    ltAt h i j = scoreLower h[i].score h[j].score := by
  simp [ltAt, hi, hj]

theorem ltAt_lt {h : Array Entry} {i j : Nat} (hl : ltAt h i j = true) : i < h.size ∧ j < h.size := by
  unfold ltAt at hl
  split at hl
  · rename_i a b ha hb
    exact ⟨(Array.getElem?_eq_some_iff.mp ha).1, (Array.getElem?_eq_some_iff.mp hb).1⟩
  · simp at hl

theorem ltAt_trans {h : Array Entry} {a b c : Nat} (h1 : ltAt h a b = true) (h2 : ltAt h b c = true) :
    ltAt h a c = true := by
  have ⟨ha, hb⟩ := ltAt_lt h1
  have ⟨_, hc⟩ := ltAt_lt h2
  rw [ltAt_eq ha hb] at h1; rw [ltAt_eq hb hc] at h2; rw [ltAt_eq ha hc]
  exact scoreLower_trans _ _ _ h1 h2

theorem ltAt_asymm {h : Array Entry} {a b : Nat} (h1 : ltAt h a b = true) : ltAt h b a = false := by
  have ⟨ha, hb⟩ := ltAt_lt h1
  rw [ltAt_eq ha hb] at h1; rw [ltAt_eq hb ha]
  exact scoreLower_asymm _ _ h1

theorem ltAt_negtrans {h : Array Entry} {a b c : Nat} (hb : b < h.size)
    (h1 : ltAt h a b = false) (h2 : ltAt h b c = false) : ltAt h a c = false := by
  by_cases ha : a < h.size
  · by_cases hc : c < h.size
    · rw [ltAt_eq ha hb] at h1; rw [ltAt_eq hb hc] at h2; rw [ltAt_eq ha hc]
      exact scoreLower_negtrans _ _ _ h1 h2
    · simp [ltAt, hc]
  · simp [ltAt, ha]

theorem ltAt_oob_left {h : Array Entry} {a b : Nat} (ha : h.size ≤ a) : ltAt h a b = false := by
  simp [ltAt, ha]

theorem ltAt_oob_right {h : Array Entry} {a b : Nat} (hb : h.size ≤ b) : ltAt h a b = false := by
  simp [ltAt, hb]

/-! ### swap -/

/-- the transposition of two indices -/
def tr (i j k : Nat) : Nat := if k = i then j else if k = j then i else k

theorem swap_heap {q : PQ} {i j : Nat} (hi : i < q.heap.size) (hj : j < q.heap.size) :
    (q.swap i j).heap = q.heap.swap i j hi hj := by
  unfold PQ.swap Array.swap
  simp [hi, hj]

theorem swap_getElem? {q : PQ} {i j : Nat} (hi : i < q.heap.size) (hj : j < q.heap.size) (k : Nat) :
    (q.swap i j).heap[k]? = q.heap[tr i j k]? := by
  rw [swap_heap hi hj, Array.getElem?_swap]
  unfold tr
  by_cases h1 : j = k
  · subst h1; by_cases h2 : j = i
    · subst h2; simp
    · simp [h2]
  · by_cases h2 : i = k
    · subst h2; simp [h1]
    · have : ¬ k = i := fun h => h2 h.symm
      have : ¬ k = j := fun h => h1 h.symm
      simp [*]

theorem swap_ltAt {q : PQ} {i j : Nat} (hi : i < q.heap.size) (hj : j < q.heap.size) (a b : Nat) :
    ltAt (q.swap i j).heap a b = ltAt q.heap (tr i j a) (tr i j b) := by
  unfold ltAt
  rw [swap_getElem? hi hj, swap_getElem? hi hj]

/-! ### heap order through `siftUp` / `siftDown` -/

def HeapOrd (h : Array Entry) : Prop := ∀ j, 0 < j → ltAt h (parent j) j = false
def UpInv (h : Array Entry) (i : Nat) : Prop :=
  (∀ j, 0 < j → j ≠ i → ltAt h (parent j) j = false) ∧
  (∀ j, 0 < i → 0 < j → parent j = i → ltAt h (parent i) j = false)

theorem tr_left (i j : Nat) : tr i j i = j := by simp [tr]
theorem tr_right (i j : Nat) : tr i j j = i := by unfold tr; split <;> simp_all
theorem tr_other {i j k : Nat} (h1 : k ≠ i) (h2 : k ≠ j) : tr i j k = k := by simp [tr, h1, h2]

theorem parent_lt {i : Nat} (h : 0 < i) : parent i < i := by unfold parent; omega

theorem siftUp_heapOrd (q : PQ) (i : Nat) (hi : i < q.heap.size) (hinv : UpInv q.heap i) :
    HeapOrd (q.siftUp i).heap := by
  fun_induction PQ.siftUp q i with
  | case1 q => 
    intro j hj
    exact hinv.1 j hj (by omega)
  | case2 q i hi0 p hlt ih =>
    have hpi : p < i := parent_lt (by omega)
    have hps : p < q.heap.size := by omega
    apply ih (by simp; omega)
    rw [lowerAt_eq] at hlt
    obtain ⟨h1, h2⟩ := hinv
    constructor
    · intro j hj hjp
      rw [swap_ltAt hps hi]
      by_cases hji : j = i
      · subst hji
        rw [tr_left, tr_right]
        exact ltAt_asymm hlt
      · rw [tr_other hjp hji]
        by_cases hp1 : parent j = p
        · rw [hp1, tr_left]
          cases hc : ltAt q.heap i j with
          | false => rfl
          | true =>
            have := ltAt_trans hlt hc
            rw [← hp1, h1 j hj hji] at this
            exact this.symm
        · by_cases hp2 : parent j = i
          · rw [hp2, tr_right]
            exact h2 j (by omega) hj hp2
          · rw [tr_other hp1 hp2]
            exact h1 j hj hji
    · intro j hp0 hj hjp
      rw [swap_ltAt hps hi]
      have hpp : parent p < p := parent_lt hp0
      rw [tr_other (by omega) (by omega)]
      have hpp1 := h1 p hp0 (by omega)
      by_cases hji : j = i
      · subst hji
        rw [tr_right]
        exact hpp1
      · have hjp' : j ≠ p := by
          intro h; rw [h] at hjp; omega
        rw [tr_other hjp' hji]
        have := h1 j hj hji
        rw [hjp] at this
        exact ltAt_negtrans hps hpp1 this
  | case3 q i hi0 p hlt =>
    intro j hj
    by_cases hji : j = i
    · subst hji; rw [lowerAt_eq] at hlt; simpa using hlt
    · exact hinv.1 j hj hji


def DownInv (h : Array Entry) (i : Nat) : Prop :=
  (∀ j, 0 < j → parent j ≠ i → ltAt h (parent j) j = false) ∧
  (∀ j, 0 < i → 0 < j → parent j = i → ltAt h (parent i) j = false)

theorem ltAt_irrefl (h : Array Entry) (a : Nat) : ltAt h a a = false := by
  by_cases ha : a < h.size
  · rw [ltAt_eq ha ha]; exact scoreLower_irrefl _
  · exact ltAt_oob_left (by omega)

theorem child_iff (i j : Nat) : (0 < j ∧ parent j = i) ↔ (j = 2 * i + 1 ∨ j = 2 * i + 2) := by
  unfold parent; omega

theorem down_step {q : PQ} {i c : Nat} (hc : c < q.heap.size) (hc0 : 0 < c) (hpc : parent c = i)
    (hlt : ltAt q.heap i c = true) (hmax : ∀ j, 0 < j → parent j = i → ltAt q.heap c j = false)
    (hinv : DownInv q.heap i) : DownInv (q.swap c i).heap c := by
  have hic : i < c := by rw [← hpc]; exact parent_lt hc0
  have his : i < q.heap.size := by omega
  obtain ⟨h1, h2⟩ := hinv
  constructor
  · intro j hj hjp
    rw [swap_ltAt hc his]
    by_cases hjc : j = c
    · subst hjc
      rw [hpc, tr_right, tr_left]
      exact ltAt_asymm hlt
    · by_cases hji : j = i
      · subst hji
        have := parent_lt hj
        rw [tr_right, tr_other hjp (by omega)]
        exact h2 c hj hc0 hpc
      · rw [tr_other hjc hji]
        by_cases hp : parent j = i
        · rw [hp, tr_right]; exact hmax j hj hp
        · rw [tr_other hjp hp]; exact h1 j hj hp
  · intro j _ hj hjp
    rw [swap_ltAt hc his]
    have : c < j := by rw [← hjp]; exact parent_lt hj
    rw [hpc, tr_right, tr_other (by omega) (by omega)]
    have := h1 j hj (by omega)
    rwa [hjp] at this

theorem down_done {h : Array Entry} {i : Nat} (hinv : DownInv h i)
    (hmax : ∀ j, 0 < j → parent j = i → ltAt h i j = false) : HeapOrd h := by
  intro j hj
  by_cases hp : parent j = i
  · rw [hp]; exact hmax j hj hp
  · exact hinv.1 j hj hp

theorem siftDown_heapOrd (q : PQ) (i : Nat) (hinv : DownInv q.heap i) :
    HeapOrd (q.siftDown i).heap := by
  fun_induction PQ.siftDown q i with
  | case1 q i l r hr hlr hir ih =>
    rw [lowerAt_eq] at hlr hir
    apply ih
    apply down_step hr (by omega) (by simp [parent, r]; omega) hir _ hinv
    intro j hj hp
    rcases (child_iff i j).mp ⟨hj, hp⟩ with h | h
    · subst h; exact ltAt_asymm hlr
    · subst h; exact ltAt_irrefl _ _
  | case2 q i l r hr hlr hir =>
    rw [lowerAt_eq] at hlr hir
    apply down_done hinv
    intro j hj hp
    rcases (child_iff i j).mp ⟨hj, hp⟩ with h | h
    · subst h
      cases hc : ltAt q.heap i (2 * i + 1) with
      | false => rfl
      | true => have := ltAt_trans hc hlr; simp [r, this] at hir
    · subst h; simpa using hir
  | case3 q i l r hr hlr hil ih =>
    rw [lowerAt_eq] at hlr hil
    have hl : l < q.heap.size := by omega
    apply ih
    apply down_step hl (by omega) (by simp [parent, l]) hil _ hinv
    intro j hj hp
    rcases (child_iff i j).mp ⟨hj, hp⟩ with h | h
    · subst h; exact ltAt_irrefl _ _
    · subst h; simpa using hlr
  | case4 q i l r hr hlr hil =>
    rw [lowerAt_eq] at hlr hil
    have hl : l < q.heap.size := by omega
    apply down_done hinv
    intro j hj hp
    rcases (child_iff i j).mp ⟨hj, hp⟩ with h | h
    · subst h; simpa using hil
    · subst h
      exact ltAt_negtrans hl (by simpa using hil) (by simpa using hlr)
  | case5 q i l r hr hl hil ih =>
    rw [lowerAt_eq] at hil
    apply ih
    apply down_step hl (by omega) (by simp [parent, l]) hil _ hinv
    intro j hj hp
    rcases (child_iff i j).mp ⟨hj, hp⟩ with h | h
    · subst h; exact ltAt_irrefl _ _
    · subst h; exact ltAt_oob_right (by omega)
  | case6 q i l r hr hl hil =>
    rw [lowerAt_eq] at hil
    apply down_done hinv
    intro j hj hp
    rcases (child_iff i j).mp ⟨hj, hp⟩ with h | h
    · subst h; simpa using hil
    · subst h; exact ltAt_oob_right (by omega)
  | case7 q i l r hr hl =>
    apply down_done hinv
    intro j hj hp
    rcases (child_iff i j).mp ⟨hj, hp⟩ with h | h
    · subst h; exact ltAt_oob_right (by omega)
    · subst h; exact ltAt_oob_right (by omega)

/-! ### position map and entries through `swap` / `siftUp` / `siftDown` -/

def PosOK (q : PQ) : Prop :=
  ∀ item idx, posGet q.pos item = some idx ↔ ∃ e, q.heap[idx]? = some e ∧ e.item = item

theorem swap_pos {q : PQ} {i j : Nat} (hi : i < q.heap.size) (hj : j < q.heap.size) :
    (q.swap i j).pos = posSet (posSet q.pos q.heap[i].item ((posGet q.pos q.heap[j].item).getD 0))
      q.heap[j].item ((posGet q.pos q.heap[i].item).getD 0) := by
  unfold PQ.swap
  simp [hi, hj]

theorem swap_posOK {q : PQ} {i j : Nat} (hi : i < q.heap.size) (hj : j < q.heap.size)
    (hp : PosOK q) : PosOK (q.swap i j) := by
  have h1 : posGet q.pos q.heap[i].item = some i := (hp _ _).mpr ⟨q.heap[i], by simp, rfl⟩
  have h2 : posGet q.pos q.heap[j].item = some j := (hp _ _).mpr ⟨q.heap[j], by simp, rfl⟩
  have inj1 : ∀ x, posGet q.pos x = some i → x = q.heap[i].item := by
    intro x hx
    obtain ⟨e, he, hex⟩ := (hp _ _).mp hx
    simp [hi] at he; subst he; exact hex.symm
  have inj2 : ∀ x, posGet q.pos x = some j → x = q.heap[j].item := by
    intro x hx
    obtain ⟨e, he, hex⟩ := (hp _ _).mp hx
    simp [hj] at he; subst he; exact hex.symm
  intro x idx
  rw [swap_getElem? hi hj, ← hp, swap_pos hi hj, h1, h2, posGet_posSet, posGet_posSet]
  simp only [Option.getD_some]
  unfold tr
  grind


theorem siftUp_size (q : PQ) (i : Nat) : (q.siftUp i).heap.size = q.heap.size := by
  fun_induction PQ.siftUp q i <;> simp_all

theorem siftDown_size (q : PQ) (i : Nat) : (q.siftDown i).heap.size = q.heap.size := by
  fun_induction PQ.siftDown q i <;> simp_all

theorem siftUp_posOK (q : PQ) (i : Nat) (hi : i < q.heap.size) (hp : PosOK q) : PosOK (q.siftUp i) := by
  fun_induction PQ.siftUp q i with
  | case1 q => exact hp
  | case2 q i hi0 p hlt ih =>
    have hps : p < q.heap.size := by have := parent_le i; simp only [p]; omega
    exact ih (by simpa using hps) (swap_posOK hps hi hp)
  | case3 q i hi0 p hlt => exact hp

theorem siftDown_posOK (q : PQ) (i : Nat) (hi : i < q.heap.size) (hp : PosOK q) : PosOK (q.siftDown i) := by
  fun_induction PQ.siftDown q i with
  | case1 q i l r hr hlr hir ih => exact ih (by simpa using hr) (swap_posOK hr hi hp)
  | case3 q i l r hr hlr hil ih =>
    have hl : l < q.heap.size := by omega
    exact ih (by simpa using hl) (swap_posOK hl hi hp)
  | case5 q i l r hr hl hil ih => exact ih (by simpa using hl) (swap_posOK hl hi hp)
  | _ => exact hp

theorem swap_entries (q : PQ) (i j : Nat) : (q.swap i j).entries.Perm q.entries := by
  by_cases h : i < q.heap.size ∧ j < q.heap.size
  · unfold PQ.entries
    rw [swap_heap h.1 h.2]
    exact (Array.swap_perm h.1 h.2).toList.map _
  · unfold PQ.swap; simp [h]

theorem siftUp_entries (q : PQ) (i : Nat) : (q.siftUp i).entries.Perm q.entries := by
  fun_induction PQ.siftUp q i with
  | case1 q => exact .refl _
  | case2 q i hi0 p hlt ih => exact ih.trans (swap_entries _ _ _)
  | case3 q i hi0 p hlt => exact .refl _

theorem siftDown_entries (q : PQ) (i : Nat) : (q.siftDown i).entries.Perm q.entries := by
  fun_induction PQ.siftDown q i with
  | case1 q i l r hr hlr hir ih => exact ih.trans (swap_entries _ _ _)
  | case3 q i l r hr hlr hil ih => exact ih.trans (swap_entries _ _ _)
  | case5 q i l r hr hl hil ih => exact ih.trans (swap_entries _ _ _)
  | _ => exact .refl _

theorem inv_iff (q : PQ) : Inv q ↔ HeapOrd q.heap ∧ PosOK q := by
  constructor
  · intro ⟨h1, h2, h3⟩
    constructor
    · intro j hj
      by_cases hjs : j < q.heap.size
      · rw [ltAt_eq (Nat.lt_of_le_of_lt (parent_le j) hjs) hjs]; exact h1 j hjs hj
      · exact ltAt_oob_right (by omega)
    · intro item idx
      constructor
      · intro h
        obtain ⟨hlt, he⟩ := h3 item idx h
        exact ⟨q.heap[idx], by simp [hlt], he⟩
      · intro ⟨e, he, hei⟩
        obtain ⟨hlt, rfl⟩ := Array.getElem?_eq_some_iff.mp he
        rw [← hei]; exact h2 idx hlt
  · intro ⟨h1, h2⟩
    refine ⟨?_, ?_, ?_⟩
    · intro i hi hi0
      have := h1 i hi0
      rwa [ltAt_eq (Nat.lt_of_le_of_lt (parent_le i) hi) hi] at this
    · intro i hi
      exact (h2 _ _).mpr ⟨q.heap[i], by simp, rfl⟩
    · intro item idx h
      obtain ⟨e, he, hei⟩ := (h2 _ _).mp h
      obtain ⟨hlt, rfl⟩ := Array.getElem?_eq_some_iff.mp he
      exact ⟨hlt, hei⟩

end WhVerif.C18

import WhVerif.Lemmas.C05SolverPart
/-!
# C05 / solver: `PedOK` for the pedigrees `whatshap phase --ped` is normally run on

Two-generation pedigrees (all parents are founders): trios, two-child quartets — in ANY order of the members.
-/
namespace WhVerif.C05.Solver
open WhVerif.C01

/-- every parent is a founder (two-generation pedigree, any number of families and children) -/
theorem pedOK_founders (I : Inst)
    (hmem : ∀ tr ∈ I.trios, tr.1 < I.nind ∧ tr.2.1 < I.nind ∧ tr.2.2 < I.nind)
    (hroot : ∀ tr ∈ I.trios, isChild I tr.1 = false ∧ isChild I tr.2.1 = false)
    (hone : ∀ k k' f m f' m' ch : Nat, I.trios[k]? = some (f, m, ch) → I.trios[k']? = some (f', m', ch) → k = k') :
    PedOK I := by
  refine ⟨hmem, hone, ⟨fun i => if isChild I i = true then 1 else 0, ?_, ?_⟩⟩
  · intro tr htr
    have hc : isChild I tr.2.2 = true := by
      unfold isChild; rw [List.any_eq_true]; exact ⟨tr, htr, by simp⟩
    obtain ⟨h1, h2⟩ := hroot tr htr
    simp [hc, h1, h2]
  · intro i hi
    show (if isChild I i = true then 1 else 0) ≤ I.nind
    split <;> omega

theorem pedOK_trio (I : Inst) (f mo ch : Nat) (ht : I.trios = [(f, mo, ch)])
    (hf : f < I.nind) (hm : mo < I.nind) (hc : ch < I.nind) (hfc : f ≠ ch) (hmc : mo ≠ ch) : PedOK I := by
  apply pedOK_founders
  · intro tr htr; rw [ht] at htr; simp at htr; subst htr; exact ⟨hf, hm, hc⟩
  · intro tr htr; rw [ht] at htr; simp at htr; subst htr
    simp only [isChild, ht, List.any_cons, List.any_nil, Bool.or_false, beq_eq_false_iff_ne, ne_eq]
    exact ⟨fun e => hfc e.symm, fun e => hmc e.symm⟩
  · intro k k' f1 m1 f2 m2 c h1 h2
    rw [ht] at h1 h2
    have e1 : k = 0 := by
      cases k with
      | zero => rfl
      | succ n => simp at h1
    have e2 : k' = 0 := by
      cases k' with
      | zero => rfl
      | succ n => simp at h2
    omega

theorem pedOK_quartet (I : Inst) (f mo c1 c2 : Nat) (ht : I.trios = [(f, mo, c1), (f, mo, c2)])
    (hf : f < I.nind) (hm : mo < I.nind) (h1 : c1 < I.nind) (h2 : c2 < I.nind)
    (hc : c1 ≠ c2) (hf1 : f ≠ c1) (hf2 : f ≠ c2) (hm1 : mo ≠ c1) (hm2 : mo ≠ c2) : PedOK I := by
  apply pedOK_founders
  · intro tr htr; rw [ht] at htr; simp at htr
    rcases htr with rfl | rfl
    · exact ⟨hf, hm, h1⟩
    · exact ⟨hf, hm, h2⟩
  · intro tr htr; rw [ht] at htr; simp at htr
    have hh : isChild I f = false ∧ isChild I mo = false := by
      simp only [isChild, ht, List.any_cons, List.any_nil, Bool.or_false, Bool.or_eq_false_iff,
        beq_eq_false_iff_ne, ne_eq]
      exact ⟨⟨fun e => hf1 e.symm, fun e => hf2 e.symm⟩, fun e => hm1 e.symm, fun e => hm2 e.symm⟩
    rcases htr with rfl | rfl <;> exact hh
  · intro k k' fa ma fb mb c ha hb
    rw [ht] at ha hb
    match k, k' with
    | 0, 0 => rfl
    | 1, 1 => rfl
    | 0, 1 => simp at ha hb; omega
    | 1, 0 => simp at ha hb; omega
    | n + 2, _ => simp at ha
    | 0, n + 2 => simp at hb
    | 1, n + 2 => simp at hb

end WhVerif.C05.Solver

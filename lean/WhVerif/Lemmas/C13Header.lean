import WhVerif.Model.C13
import WhVerif.Model.C13Header
import WhVerif.Lemmas.C13
import WhVerif.Lemmas.C13Compose
/-! Helper lemmas for the header / file part of C13 (on the header functions of `Model/C13Bridge.lean`). -/
namespace WhVerif.Lemmas.C13
open WhVerif WhVerif.C13

theorem removeFirstPhasing_eq (h : List C04.HLine) : C04.removeFirstPhasing h = removeFirst isPhasingLine h := by
  induction h with
  | nil => rfl
  | cons a r ih =>
    unfold C04.removeFirstPhasing removeFirst isPhasingLine
    by_cases ha : a.key = "phasing"
    · simp [ha]
    · simp only [ha, if_false, decide_false, Bool.false_eq_true]
      rw [ih]
      rfl

theorem removeFirst_sublist {α : Type} (p : α → Bool) : ∀ (l : List α), (removeFirst p l).Sublist l := by
  intro l
  induction l with
  | nil => exact List.Sublist.slnil
  | cons x xs ih =>
    unfold removeFirst
    split
    · exact List.sublist_cons_self x xs
    · exact ih.cons₂ x

/-- what is removed satisfies `p`: filtering by anything that excludes `p` gives the same -/
theorem filter_removeFirst {α : Type} (p q : α → Bool) (hpq : ∀ x, p x = true → q x = false) : ∀ (l : List α),
    (removeFirst p l).filter q = l.filter q := by
  intro l
  induction l with
  | nil => rfl
  | cons x xs ih =>
    unfold removeFirst
    split
    · rename_i hp
      rw [List.filter_cons, if_neg (by simp [hpq x hp])]
    · simp only [List.filter_cons, ih]

theorem removeFirst_eq_self_iff {α : Type} (p : α → Bool) : ∀ (l : List α),
    removeFirst p l = l ↔ ∀ x ∈ l, p x = false := by
  intro l
  induction l with
  | nil => simp [removeFirst]
  | cons x xs ih =>
    unfold removeFirst
    by_cases hp : p x = true
    · rw [if_pos hp]
      constructor
      · intro h
        have := congrArg List.length h
        simp at this
      · intro h
        have := h x (List.mem_cons_self ..)
        rw [hp] at this; cases this
    · rw [if_neg hp]
      simp only [List.cons.injEq, true_and, List.mem_cons, forall_eq_or_imp]
      rw [ih]
      constructor
      · intro h; exact ⟨by simpa using hp, h⟩
      · intro h; exact h.2

/-- the number of `p`-elements drops by one (if there is one) -/
theorem count_removeFirst {α : Type} (p : α → Bool) : ∀ (l : List α),
    ((removeFirst p l).filter p).length = (l.filter p).length - 1 := by
  intro l
  induction l with
  | nil => rfl
  | cons x xs ih =>
    unfold removeFirst
    by_cases hp : p x = true
    · rw [if_pos hp, List.filter_cons, if_pos hp]
      simp
    · rw [if_neg hp, List.filter_cons, if_neg hp, List.filter_cons, if_neg hp]
      exact ih

theorem removeFirst_eq_filter {α : Type} (p : α → Bool) : ∀ (l : List α), (l.filter p).length ≤ 1 →
    removeFirst p l = l.filter (fun x => !p x) := by
  intro l
  induction l with
  | nil => intro _; rfl
  | cons x xs ih =>
    intro h
    unfold removeFirst
    by_cases hp : p x = true
    · rw [if_pos hp, List.filter_cons, if_neg (by simp [hp])]
      rw [List.filter_cons, if_pos hp] at h
      simp only [List.length_cons] at h
      have h0 : (xs.filter p).length = 0 := by omega
      have hnone : ∀ y ∈ xs, p y = false := by
        intro y hy
        cases hpy : p y with
        | false => rfl
        | true =>
          have : y ∈ xs.filter p := List.mem_filter.mpr ⟨hy, hpy⟩
          rw [List.length_eq_zero_iff.mp h0] at this
          cases this
      symm
      apply List.filter_eq_self.mpr
      intro y hy
      simp [hnone y hy]
    · rw [if_neg hp, List.filter_cons, if_pos (by simpa using hp)]
      rw [List.filter_cons, if_neg hp] at h
      rw [ih h]

theorem phasing_not_keep (l : C04.HLine) (h : isPhasingLine l = true) : keepLine l = false := by simp [keepLine, h]
theorem phasing_not_phaseFormat (l : C04.HLine) (h : isPhasingLine l = true) : isPhaseFormat l = false := by
  have hk : l.key = "phasing" := by simpa [isPhasingLine] using h
  simp [isPhaseFormat, hk]

theorem keepLine_eq (l : C04.HLine) : keepLine l = (!isPhasingLine l && !isPhaseFormat l) := by
  simp [keepLine]

theorem unphaseHeader_eq (h : List C04.HLine) :
    unphaseHeader h = (removeFirst isPhasingLine h).filter (fun l => !isPhaseFormat l) := by
  unfold unphaseHeader removePhaseFormats
  rw [removeFirstPhasing_eq]

theorem unphaseHeaderFix_eq (h : List C04.HLine) : unphaseHeaderFix h = h.filter keepLine := by
  unfold unphaseHeaderFix removePhaseFormats
  rw [List.filter_filter]
  apply List.filter_congr
  intro x _
  rw [keepLine_eq, Bool.and_comm]
  rfl

/-- the phasing lines of the output of the pre-3f23520 header function: one fewer -/
theorem count_phasing_cur (h : List C04.HLine) :
    ((unphaseHeader h).filter isPhasingLine).length = (h.filter isPhasingLine).length - 1 := by
  rw [unphaseHeader_eq, List.filter_filter, ← count_removeFirst isPhasingLine h]
  congr 1
  apply List.filter_congr
  intro x _
  cases hp : isPhasingLine x with
  | false => simp
  | true => simp [phasing_not_phaseFormat x hp]

/-- a line that is kept stays a member -/
theorem mem_cur_of_keep (h : List C04.HLine) (l : C04.HLine) (hl : l ∈ h) (hk : keepLine l = true) : l ∈ unphaseHeader h := by
  rw [unphaseHeader_eq]
  have hk' := hk
  rw [keepLine_eq] at hk'
  simp only [Bool.and_eq_true, Bool.not_eq_true'] at hk'
  refine List.mem_filter.mpr ⟨?_, by simp [hk'.2]⟩
  have : l ∈ (removeFirst isPhasingLine h).filter keepLine := by
    rw [filter_removeFirst isPhasingLine keepLine phasing_not_keep]
    exact List.mem_filter.mpr ⟨hl, hk⟩
  exact (List.mem_filter.mp this).1

theorem mem_fix_of_keep (h : List C04.HLine) (l : C04.HLine) (hl : l ∈ h) (hk : keepLine l = true) : l ∈ unphaseHeaderFix h := by
  rw [unphaseHeaderFix_eq]
  exact List.mem_filter.mpr ⟨hl, hk⟩

/-- the FORMAT keys of an unphased record are keys of the record that are not phase tags -/
theorem recordKeys_unphase (r : Record) (k : String) (hk : k ∈ recordKeys (unphaseRecord r)) :
    k ∈ recordKeys r ∧ isPhaseTag k = false := by
  unfold recordKeys at hk ⊢
  obtain ⟨c', hc', hkc⟩ := List.mem_flatMap.mp hk
  simp only [unphaseRecord, List.mem_map] at hc'
  obtain ⟨c, hc, rfl⟩ := hc'
  unfold callKeys at hkc
  rcases List.mem_append.mp hkc with h1 | h1
  · have hgt : (unphaseCall c).gt.isSome = c.gt.isSome := by simp [unphaseCall]
    rw [hgt] at h1
    split at h1
    · simp only [List.mem_singleton] at h1
      subst h1
      refine ⟨List.mem_flatMap.mpr ⟨c, hc, ?_⟩, by decide⟩
      unfold callKeys
      rename_i hs
      rw [if_pos hs]
      simp
    · cases h1
  · obtain ⟨kv, hkv, rfl⟩ := List.mem_map.mp h1
    simp only [unphaseCall, stripTags, List.mem_filter] at hkv
    refine ⟨List.mem_flatMap.mpr ⟨c, hc, ?_⟩, by simpa using hkv.2⟩
    unfold callKeys
    exact List.mem_append_right _ (List.mem_map_of_mem hkv.1)

end WhVerif.Lemmas.C13

import WhVerif.Model.C13
import WhVerif.Model.C13Header
import WhVerif.Lemmas.C13
/-! Helper lemmas for the header part of C13. -/
namespace WhVerif.Lemmas.C13
open WhVerif.C13

theorem removeFirst_sublist (p : HLine → Bool) : ∀ (l : List HLine), (removeFirst p l).Sublist l := by
  intro l
  induction l with
  | nil => exact List.Sublist.slnil
  | cons x xs ih =>
    unfold removeFirst
    split
    · exact List.sublist_cons_self x xs
    · exact ih.cons₂ x

/-- what is removed satisfies `p`: filtering by anything that excludes `p` gives the same -/
theorem filter_removeFirst (p q : HLine → Bool) (hpq : ∀ x, p x = true → q x = false) : ∀ (l : List HLine),
    (removeFirst p l).filter q = l.filter q := by
  intro l
  induction l with
  | nil => rfl
  | cons x xs ih =>
    unfold removeFirst
    split
    · rename_i hp
      rw [List.filter_cons, if_neg (by simp [hpq x hp])]
    · simp only [List.filter_cons, ih]

theorem removeFirst_eq_self_iff (p : HLine → Bool) : ∀ (l : List HLine),
    removeFirst p l = l ↔ ∀ x ∈ l, p x = false := by
  intro l
  induction l with
  | nil => simp [removeFirst]
  | cons x xs ih =>
    unfold removeFirst
    by_cases hp : p x = true
    · rw [if_pos hp]
      constructor
      · intro h
        have := congrArg List.length h
        simp at this
      · intro h
        have := h x (List.mem_cons_self ..)
        rw [hp] at this; cases this
    · rw [if_neg hp]
      simp only [List.cons.injEq, true_and, List.mem_cons, forall_eq_or_imp]
      rw [ih]
      constructor
      · intro h; exact ⟨by simpa using hp, h⟩
      · intro h; exact h.2

/-- the number of `p`-lines drops by one (if there is one) -/
theorem count_removeFirst (p : HLine → Bool) : ∀ (l : List HLine),
    ((removeFirst p l).filter p).length = (l.filter p).length - 1 := by
  intro l
  induction l with
  | nil => rfl
  | cons x xs ih =>
    unfold removeFirst
    by_cases hp : p x = true
    · rw [if_pos hp, List.filter_cons, if_pos hp]
      simp
    · rw [if_neg hp, List.filter_cons, if_neg hp, List.filter_cons, if_neg hp]
      exact ih

theorem removeFirst_eq_filter (p : HLine → Bool) : ∀ (l : List HLine), (l.filter p).length ≤ 1 →
    removeFirst p l = l.filter (fun x => !p x) := by
  intro l
  induction l with
  | nil => intro _; rfl
  | cons x xs ih =>
    intro h
    unfold removeFirst
    by_cases hp : p x = true
    · rw [if_pos hp, List.filter_cons, if_neg (by simp [hp])]
      rw [List.filter_cons, if_pos hp] at h
      simp only [List.length_cons] at h
      have h0 : (xs.filter p).length = 0 := by omega
      have hnone : ∀ y ∈ xs, p y = false := by
        intro y hy
        cases hpy : p y with
        | false => rfl
        | true =>
          have : y ∈ xs.filter p := List.mem_filter.mpr ⟨hy, hpy⟩
          rw [List.length_eq_zero_iff.mp h0] at this
          cases this
      symm
      apply List.filter_eq_self.mpr
      intro y hy
      simp [hnone y hy]
    · rw [if_neg hp, List.filter_cons, if_pos (by simpa using hp)]
      rw [List.filter_cons, if_neg hp] at h
      rw [ih h]

theorem phasing_not_keep (l : HLine) (h : isPhasing l = true) : keepLine l = false := by simp [keepLine, h]
theorem phasing_not_phaseFormat (l : HLine) (h : isPhasing l = true) : isPhaseFormat l = false := by
  unfold isPhasing at h
  unfold isPhaseFormat
  have hk : l.key = "phasing" := by simpa using h
  rw [hk]
  rfl

theorem keepLine_eq (l : HLine) : keepLine l = (!isPhasing l && !isPhaseFormat l) := by
  simp [keepLine]

/-- the phasing lines of the output of HEAD's `unphase_header`: one fewer -/
theorem count_phasing_cur (h : List HLine) :
    ((unphaseHeaderCur h).filter isPhasing).length = (h.filter isPhasing).length - 1 := by
  unfold unphaseHeaderCur
  rw [List.filter_filter, ← count_removeFirst isPhasing h]
  congr 1
  apply List.filter_congr
  intro x _
  cases hp : isPhasing x with
  | false => simp
  | true => simp [phasing_not_phaseFormat x hp]

theorem cur_filter_notFormat (h : List HLine) :
    (unphaseHeaderCur h).filter (fun l => !isPhaseFormat l) = unphaseHeaderCur h := by
  unfold unphaseHeaderCur
  rw [List.filter_filter]
  apply List.filter_congr
  intro x _
  simp

/-- a line that is kept stays a member -/
theorem mem_cur_of_keep (h : List HLine) (l : HLine) (hl : l ∈ h) (hk : keepLine l = true) : l ∈ unphaseHeaderCur h := by
  unfold unphaseHeaderCur
  have hk' := hk
  rw [keepLine_eq] at hk'
  simp only [Bool.and_eq_true, Bool.not_eq_true'] at hk'
  refine List.mem_filter.mpr ⟨?_, by simp [hk'.2]⟩
  have : l ∈ (removeFirst isPhasing h).filter keepLine := by
    rw [filter_removeFirst isPhasing keepLine phasing_not_keep]
    exact List.mem_filter.mpr ⟨hl, hk⟩
  exact (List.mem_filter.mp this).1

theorem mem_fix_of_keep (h : List HLine) (l : HLine) (hl : l ∈ h) (hk : keepLine l = true) : l ∈ unphaseHeaderFix h :=
  List.mem_filter.mpr ⟨hl, hk⟩

/-- the FORMAT keys of an unphased record are keys of the record that are not phase tags -/
theorem recordKeys_unphase (r : Record) (k : String) (hk : k ∈ recordKeys (unphaseRecord r)) :
    k ∈ recordKeys r ∧ isPhaseTag k = false := by
  unfold recordKeys at hk ⊢
  obtain ⟨c', hc', hkc⟩ := List.mem_flatMap.mp hk
  simp only [unphaseRecord, List.mem_map] at hc'
  obtain ⟨c, hc, rfl⟩ := hc'
  unfold callKeys at hkc
  rcases List.mem_append.mp hkc with h1 | h1
  · have hgt : (unphaseCall c).gt.isSome = c.gt.isSome := by simp [unphaseCall]
    rw [hgt] at h1
    split at h1
    · simp only [List.mem_singleton] at h1
      subst h1
      refine ⟨List.mem_flatMap.mpr ⟨c, hc, ?_⟩, by decide⟩
      unfold callKeys
      rename_i hs
      rw [if_pos hs]
      simp
    · cases h1
  · obtain ⟨kv, hkv, rfl⟩ := List.mem_map.mp h1
    simp only [unphaseCall, stripTags, List.mem_filter] at hkv
    refine ⟨List.mem_flatMap.mpr ⟨c, hc, ?_⟩, by simpa using hkv.2⟩
    unfold callKeys
    exact List.mem_append_right _ (List.mem_map_of_mem hkv.1)

end WhVerif.Lemmas.C13

import WhVerif.Lemmas.C08Scale
/-!
# C08 lemmas: the scaled forward–backward tables are the unscaled ones times the *product of the (inverse) scaling
factors* – explicitly, for every field and every scaling (no non-zero hypothesis is needed: `x / 0 = x * 0⁻¹`).
-/
namespace WhVerif.C08
open Finset

variable {K : Type} [Field K]

/-- `Π_{c' ≤ c} 1 / scaling_parameters[c']` -/
def fwFactor (S : Scal K) (c : Nat) : K := ∏ c' ∈ range (c + 1), (S.fw c')⁻¹

/-- `Π_{j ≤ d} 1 / scaling_sum` of the backward columns `n-1, n-2, …, n-1-d` -/
def bwFactor (S : Scal K) (n d : Nat) : K := ∏ j ∈ range (d + 1), (S.bw (n - 1 - j))⁻¹

/-- the factor of the `forward_backward` cells of column `c` -/
def fbFactor (S : Scal K) (n c : Nat) : K :=
  fwFactor S c * (if c + 1 < n then bwFactor S n (n - 2 - c) * (S.bw2 c)⁻¹ else 1)

variable (F : Frame) (W : Weights K) (S : Scal K)

theorem fwdTbl_scale_prod (c : Nat) : ∀ k, tblAt (fwdTbl F W S c) k = fwFactor S c * tblAt (fwdTbl F W Scal.one c) k := by
  induction c with
  | zero =>
    intro k
    have := fwdStep_scale F W S 0 #[] #[] 1 (by intro k; simp) k
    simpa [fwdTbl, fwFactor] using this
  | succ c ih =>
    intro k
    have := fwdStep_scale F W S (c + 1) _ _ (fwFactor S c) ih k
    rw [fwdTbl, fwdTbl, this]
    simp only [Nat.add_one_ne_zero, if_false]
    congr 1
    unfold fwFactor
    rw [prod_range_succ _ (c + 1)]

theorem bwdTbl_scale_prod (d : Nat) (hd : d + 2 ≤ F.nCols) :
    ∀ k, tblAt (bwdTbl F W S d) k = bwFactor S F.nCols d * tblAt (bwdTbl F W Scal.one d) k := by
  induction d with
  | zero =>
    intro k
    have := bwdStep_scale F W S (F.nCols - 1) #[] #[] 1 (by intro k; simp) k
    have hc : ¬ (F.nCols - 1 + 1 < F.nCols) := by omega
    simp only [hc, if_false, one_mul] at this
    simpa [bwdTbl, bwFactor] using this
  | succ d ih =>
    intro k
    have := bwdStep_scale F W S (F.nCols - 1 - (d + 1)) _ _ (bwFactor S F.nCols d) (ih (by omega)) k
    have hc : F.nCols - 1 - (d + 1) + 1 < F.nCols := by omega
    simp only [hc, if_true] at this
    rw [bwdTbl, bwdTbl, this]
    congr 1
    unfold bwFactor
    rw [prod_range_succ _ (d + 1)]

/-- **scaled = unscaled × product of the inverse scaling factors**, for the numerators of the likelihoods -/
theorem numer_scale_prod (c : Nat) (hc : c < F.nCols) (sel : Nat → Nat → Bool) :
    numer F W S c sel = fbFactor S F.nCols c * numer F W Scal.one c sel := by
  have hprev : ∀ k, tblAt (prevTbl F W S c) k =
      (if c = 0 then 1 else fwFactor S (c - 1)) * tblAt (prevTbl F W Scal.one c) k := by
    intro k
    cases c with
    | zero => simp [prevTbl]
    | succ c' => simpa [prevTbl] using fwdTbl_scale_prod F W S c' k
  have hb : ∀ k, tblAt (bwdOf F W S c) k =
      (if c + 1 < F.nCols then bwFactor S F.nCols (F.nCols - 2 - c) else 1) * tblAt (bwdOf F W Scal.one c) k := by
    intro k
    unfold bwdOf
    split
    · exact bwdTbl_scale_prod F W S _ (by omega) k
    · simp
  have hfw : (if c = 0 then 1 else (if c = 0 then 1 else fwFactor S (c - 1))) * (S.fw c)⁻¹ = fwFactor S c := by
    cases c with
    | zero => simp [fwFactor]
    | succ c' =>
      simp only [Nat.add_one_ne_zero, if_false, Nat.add_sub_cancel]
      unfold fwFactor
      rw [prod_range_succ _ (c' + 1)]
  unfold fbFactor
  rw [← hfw, numerOf_fbCells, numerOf_fbCells, mul_sum]
  apply sum_congr rfl; intro idx _
  rw [mul_sum]; apply sum_congr rfl; intro t _
  rw [mul_sum]; apply sum_congr rfl; intro a _
  split
  · rw [cell_scale W S c _ _ _ _ hprev]
    unfold bwdAt
    by_cases hl : c + 1 < F.nCols
    · simp only [hl, if_true, Scal.one_bw2, div_one]; rw [hb, div_eq_mul_inv]; simp only [hl, if_true]; ring
    · simp only [hl, if_false]; ring
  · simp

end WhVerif.C08

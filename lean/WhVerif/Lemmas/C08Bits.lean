import WhVerif.Model.C08
import Mathlib.Data.List.Basic
import Mathlib.Data.List.Range
import Mathlib.Tactic.Ring
/-!
# C08 lemmas, part 4: bit packing (`gather`) and the structure of the active-read lists of a sorted read set.
-/
namespace WhVerif.C08

theorem gather_lt (l : List Nat) (b : Nat) : gather l b < 2 ^ l.length := by
  induction l with
  | nil => simp [gather]
  | cons r rest ih =>
    simp only [gather, List.length_cons, Nat.pow_succ]
    split <;> omega

theorem testBit_gather (l : List Nat) (b k : Nat) :
    (gather l b).testBit k = if h : k < l.length then b.testBit l[k] else false := by
  induction l generalizing k with
  | nil => simp [gather]
  | cons r rest ih =>
    cases k with
    | zero =>
      simp only [gather, List.length_cons, Nat.zero_lt_succ, dite_true, List.getElem_cons_zero, Nat.testBit_zero]
      split <;> simp_all <;> omega
    | succ k =>
      have : (gather (r :: rest) b) / 2 = gather rest b := by
        simp only [gather]; split <;> omega
      rw [Nat.testBit_succ, this, ih]
      simp

theorem gather_append (l1 l2 : List Nat) (b : Nat) :
    gather (l1 ++ l2) b = gather l1 b + 2 ^ l1.length * gather l2 b := by
  induction l1 with
  | nil => simp [gather]
  | cons r rest ih =>
    simp only [List.cons_append, gather, ih, List.length_cons, Nat.pow_succ]
    ring

theorem gather_congr {l : List Nat} {b b' : Nat} (h : ∀ r ∈ l, b.testBit r = b'.testBit r) :
    gather l b = gather l b' := by
  induction l with
  | nil => rfl
  | cons r rest ih =>
    simp only [gather]
    rw [h r (by simp), ih (fun r' hr' => h r' (by simp [hr']))]

theorem eq_of_testBit_lt {x y n : Nat} (hx : x < 2 ^ n) (hy : y < 2 ^ n)
    (h : ∀ k, k < n → x.testBit k = y.testBit k) : x = y := by
  apply Nat.eq_of_testBit_eq
  intro k
  by_cases hk : k < n
  · exact h k hk
  · have hk' : n ≤ k := Nat.le_of_not_lt hk
    rw [Nat.testBit_lt_two_pow (Nat.lt_of_lt_of_le hx (Nat.pow_le_pow_right (by omega) hk')),
        Nat.testBit_lt_two_pow (Nat.lt_of_lt_of_le hy (Nat.pow_le_pow_right (by omega) hk'))]

theorem gather_range' (a k lo new : Nat) (hlo : lo < 2 ^ a) (hnew : new < 2 ^ k) :
    gather (List.range' a k) (lo + 2 ^ a * new) = new := by
  apply eq_of_testBit_lt (n := k)
  · simpa using gather_lt (List.range' a k) (lo + 2 ^ a * new)
  · exact hnew
  · intro j hj
    rw [testBit_gather]
    simp only [List.length_range', hj, dite_true, List.getElem_range', Nat.one_mul]
    rw [Nat.add_comm lo, Nat.testBit_two_pow_mul_add _ hlo]
    simp

theorem gather_range (n b : Nat) (h : b < 2 ^ n) : gather (List.range n) b = b := by
  have := gather_range' 0 n 0 b (by simp) h
  simpa [List.range_eq_range'] using this

theorem bitsOf_gather (l : List Nat) (b : Nat) : bitsOf l.length (gather l b) = l.map b.testBit := by
  apply List.ext_getElem
  · simp [bitsOf]
  · intro i h1 h2
    simp only [bitsOf, List.getElem_map, List.getElem_range, testBit_gather]
    have : i < l.length := by simpa [bitsOf] using h1
    simp [this]

theorem length_posWhere (p : Nat → Bool) (l : List Nat) (k : Nat) :
    (posWhere p l k).length = (l.filter p).length := by
  induction l generalizing k with
  | nil => rfl
  | cons r rest ih =>
    simp only [posWhere, List.filter_cons]
    split <;> simp [ih]

theorem gather_posWhere (p : Nat → Bool) (l : List Nat) (k0 idx b : Nat)
    (h : ∀ j, (hj : j < l.length) → idx.testBit (k0 + j) = b.testBit l[j]) :
    gather (posWhere p l k0) idx = gather (l.filter p) b := by
  induction l generalizing k0 with
  | nil => rfl
  | cons r rest ih =>
    have hrest : ∀ j, (hj : j < rest.length) → idx.testBit (k0 + 1 + j) = b.testBit rest[j] := by
      intro j hj
      have := h (j + 1) (by simp; omega)
      simpa [Nat.add_assoc, Nat.add_comm 1 j] using this
    have h0 : idx.testBit k0 = b.testBit r := by
      have := h 0 (by simp)
      simp only [Nat.add_zero, List.getElem_cons_zero] at this
      exact this
    simp only [posWhere, List.filter_cons]
    split
    · simp only [gather, h0, ih (k0 + 1) hrest]
    · exact ih (k0 + 1) hrest

/-! ### sorted frames -/

/-- number of reads whose first column is `≤ c` -/
def Frame.m (F : Frame) (c : Nat) : Nat := (List.range F.nReads).countP (fun r => decide (F.first r ≤ c))

/-- reads active in both `c` and `c+1`, increasing -/
def Frame.shared (F : Frame) (c : Nat) : List Nat := (F.active c).filter (fun r => (F.active (c + 1)).contains r)

theorem countP_range_downward (p : Nat → Bool) (R : Nat)
    (hdown : ∀ r r', r' ≤ r → r < R → p r = true → p r' = true) :
    ∀ r, r < R → (p r = true ↔ r < (List.range R).countP p) := by
  induction R with
  | zero => intro r hr; omega
  | succ R ih =>
    have ih' := ih (fun r r' h1 h2 h3 => hdown r r' h1 (by omega) h3)
    intro r hr
    rw [List.range_succ, List.countP_append]
    by_cases hpR : p R = true
    · have hall : ∀ r', r' < R → p r' = true := fun r' h => hdown R r' (by omega) (by omega) hpR
      have hc : (List.range R).countP p = R := by
        rw [List.countP_eq_length.mpr]
        · simp
        · intro x hx; exact hall x (by simpa using hx)
      simp only [hc, List.countP_cons, List.countP_nil, hpR, if_true]
      constructor
      · intro _; omega
      · intro _
        by_cases h : r < R
        · exact hall r h
        · have : r = R := by omega
          subst this; exact hpR
    · have hle : (List.range R).countP p ≤ R := by
        have := List.countP_le_length (p := p) (l := List.range R); simpa using this
      simp only [List.countP_cons, List.countP_nil, hpR]
      by_cases h : r < R
      · simpa using ih' r h
      · have : r = R := by omega
        subst this
        constructor
        · intro h'; exact absurd h' hpR
        · intro h'; simp at h'; omega

theorem Frame.first_mono {F : Frame} (hWF : F.WF) : ∀ r r', r' ≤ r → r < F.nReads → F.first r' ≤ F.first r := by
  intro r r' hle hr
  induction r with
  | zero => have : r' = 0 := by omega
            subst this; exact Nat.le_refl _
  | succ r ih =>
    by_cases h : r' = r + 1
    · subst h; exact Nat.le_refl _
    · exact Nat.le_trans (ih (by omega) (by omega)) (hWF.2 r hr)

theorem Frame.first_le_iff {F : Frame} (hWF : F.WF) (c r : Nat) (hr : r < F.nReads) :
    F.first r ≤ c ↔ r < F.m c := by
  have := countP_range_downward (fun r => decide (F.first r ≤ c)) F.nReads
    (by intro r r' h1 h2 h3
        simp only [decide_eq_true_eq] at h3 ⊢
        exact Nat.le_trans (Frame.first_mono hWF r r' h1 h2) h3) r hr
  simpa [Frame.m] using this

theorem Frame.m_le (F : Frame) (c : Nat) : F.m c ≤ F.nReads := by
  have := List.countP_le_length (p := fun r => decide (F.first r ≤ c)) (l := List.range F.nReads)
  simpa [Frame.m] using this

theorem Frame.m_mono {F : Frame} (hWF : F.WF) (c : Nat) : F.m c ≤ F.m (c + 1) := by
  by_contra h
  have h1 : F.m (c + 1) < F.m c := by omega
  have hr : F.m (c + 1) < F.nReads := Nat.lt_of_lt_of_le h1 (F.m_le c)
  have := (Frame.first_le_iff hWF c _ hr).mpr h1
  have h2 := (Frame.first_le_iff hWF (c + 1) _ hr).mp (by omega)
  omega

theorem Frame.m_last {F : Frame} (hWF : F.WF) (c : Nat) (hc : F.nCols ≤ c + 1) : F.m c = F.nReads := by
  by_contra h
  have hlt : F.m c < F.nReads := Nat.lt_of_le_of_ne (F.m_le c) h
  have h1 := hWF.1 _ hlt
  have := (Frame.first_le_iff hWF c _ hlt).mp (by omega)
  omega

theorem filter_range_prefix (R m : Nat) (hm : m ≤ R) (q : Nat → Bool) :
    (List.range R).filter (fun r => decide (r < m) && q r) = (List.range m).filter q := by
  have hsplit : List.range R = List.range m ++ List.range' m (R - m) := by
    rw [List.range_eq_range', List.range_eq_range']
    have : R = m + (R - m) := by omega
    conv_lhs => rw [this]
    rw [← List.range'_append_1]; simp
  rw [hsplit, List.filter_append]
  have h1 : (List.range m).filter (fun r => decide (r < m) && q r) = (List.range m).filter q := by
    apply List.filter_congr
    intro x hx
    have : x < m := by simpa using hx
    simp [this]
  have h2 : (List.range' m (R - m)).filter (fun r => decide (r < m) && q r) = [] := by
    rw [List.filter_eq_nil_iff]
    intro x hx
    have : m ≤ x := by
      rw [List.mem_range'] at hx
      obtain ⟨i, _, rfl⟩ := hx; omega
    simp; intro h; omega
  rw [h1, h2, List.append_nil]

theorem Frame.active_eq {F : Frame} (hWF : F.WF) (c : Nat) :
    F.active c = (List.range (F.m c)).filter (fun r => decide (c ≤ F.last r)) := by
  unfold Frame.active
  rw [← filter_range_prefix F.nReads (F.m c) (F.m_le c)]
  apply List.filter_congr
  intro r hr
  have hr' : r < F.nReads := by simpa using hr
  have := Frame.first_le_iff hWF c r hr'
  rw [Bool.eq_iff_iff]
  simp only [Bool.and_eq_true, decide_eq_true_eq]
  rw [this]

theorem Frame.mem_active {F : Frame} (c r : Nat) :
    r ∈ F.active c ↔ r < F.nReads ∧ F.first r ≤ c ∧ c ≤ F.last r := by
  simp [Frame.active]

theorem Frame.active_lt {F : Frame} (hWF : F.WF) {c c' r : Nat} (hr : r ∈ F.active c') (hc : c' ≤ c) : r < F.m c := by
  rw [Frame.mem_active] at hr
  exact (Frame.first_le_iff hWF c r hr.1).mp (by omega)

theorem Frame.shared_eq {F : Frame} (hWF : F.WF) (c : Nat) :
    F.shared c = (List.range (F.m c)).filter (fun r => decide (c + 1 ≤ F.last r)) := by
  unfold Frame.shared
  rw [Frame.active_eq hWF c, List.filter_filter]
  apply List.filter_congr
  intro r hr
  have hr' : r < F.m c := by simpa using hr
  have hrR : r < F.nReads := Nat.lt_of_lt_of_le hr' (F.m_le c)
  have hf : F.first r ≤ c := (Frame.first_le_iff hWF c r hrR).mpr hr'
  have : (F.active (c + 1)).contains r = true ↔ (c + 1 ≤ F.last r) := by
    rw [List.contains_iff_mem, Frame.mem_active]
    constructor
    · intro h; exact h.2.2
    · intro h; exact ⟨hrR, by omega, h⟩
  rw [Bool.eq_iff_iff]
  simp only [Bool.and_eq_true, decide_eq_true_eq]
  rw [this]
  omega

theorem Frame.active_succ {F : Frame} (hWF : F.WF) (c : Nat) :
    F.active (c + 1) = F.shared c ++ List.range' (F.m c) (F.m (c + 1) - F.m c) := by
  rw [Frame.active_eq hWF (c + 1), Frame.shared_eq hWF c]
  have hm := Frame.m_mono hWF c
  have hsplit : List.range (F.m (c + 1)) = List.range (F.m c) ++ List.range' (F.m c) (F.m (c + 1) - F.m c) := by
    rw [List.range_eq_range', List.range_eq_range']
    have : F.m (c + 1) = F.m c + (F.m (c + 1) - F.m c) := by omega
    conv_lhs => rw [this]
    rw [← List.range'_append_1]; simp
  rw [hsplit, List.filter_append]
  congr 1
  rw [List.filter_eq_self]
  intro r hr
  rw [List.mem_range'] at hr
  obtain ⟨i, hi, rfl⟩ := hr
  have hsub : F.m (c + 1) - F.m c + F.m c = F.m (c + 1) := Nat.sub_add_cancel hm
  have hlt : F.m c + 1 * i < F.m (c + 1) := by omega
  have hrR : F.m c + 1 * i < F.nReads := Nat.lt_of_lt_of_le hlt (F.m_le _)
  have h1 : F.first (F.m c + 1 * i) ≤ c + 1 := (Frame.first_le_iff hWF (c + 1) _ hrR).mpr hlt
  have h2 : ¬ F.first (F.m c + 1 * i) ≤ c := fun h => by
    have := (Frame.first_le_iff hWF c _ hrR).mp h; omega
  have h3 := (hWF.1 _ hrR).1
  simp only [Nat.one_mul] at h1 h2 h3 ⊢
  simp only [decide_eq_true_eq]; omega

theorem Frame.active_zero {F : Frame} (hWF : F.WF) : F.active 0 = List.range (F.m 0) := by
  rw [Frame.active_eq hWF 0, List.filter_eq_self]
  intro r _; simp

theorem Frame.col_nAct (F : Frame) (c : Nat) : (F.col c).nAct = (F.active c).length := rfl

theorem Frame.col_fwdPos_length (F : Frame) (c : Nat) : (F.col c).fwdPos.length = (F.shared c).length := by
  simp [Frame.col, Frame.shared, length_posWhere]

theorem Frame.col_bwdW_succ (F : Frame) (c : Nat) : (F.col (c + 1)).bwdW = (F.shared c).length := by
  simp [Frame.col, Frame.shared]

theorem Frame.col_bwdW_zero (F : Frame) : (F.col 0).bwdW = 0 := by
  simp [Frame.col]

/-- forward projection of the column index of a global bipartition = its bits at the shared reads -/
theorem Frame.fwdProj_colIdx (F : Frame) (c b : Nat) :
    gather (F.col c).fwdPos (gather (F.active c) b) = gather (F.shared c) b := by
  unfold Frame.col Frame.shared
  simp only []
  apply gather_posWhere
  intro j hj
  rw [testBit_gather]; simp [hj]

end WhVerif.C08

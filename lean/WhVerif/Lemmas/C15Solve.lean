import WhVerif.Model.C15Solve
import WhVerif.Lemmas.C15
import WhVerif.Lemmas.C15Blocks
import WhVerif.Lemmas.C15Glue
/-! Lemmas for `Model/C15Solve.lean`: every column `solve_polyphase_instance` can return is either undetermined
(contains `-1`) or a rearrangement of the genotype it was given. -/
namespace WhVerif.C15

/-- the invariant: the column has an undetermined allele or lists exactly the alleles of `gv` -/
def Good (gv col : List Allele) : Prop := (-1 : Allele) ∈ col ∨ col.Perm gv

/-! ## `assign` (write-back into slots) -/

theorem length_assign (c : List Allele) (ts : List Nat) (vs : List Allele) : (assign c ts vs).length = c.length := by
  induction ts generalizing c vs with
  | nil => simp [assign]
  | cons t ts ih =>
    cases vs with
    | nil => simp [assign]
    | cons v vs => simp [assign, ih]

theorem getD_assign_of_not_mem (c : List Allele) (ts : List Nat) (vs : List Allele) (i : Nat) (hi : i ∉ ts) :
    (assign c ts vs).getD i 0 = c.getD i 0 := by
  induction ts generalizing c vs with
  | nil => simp [assign]
  | cons t ts ih =>
    cases vs with
    | nil => simp [assign]
    | cons v vs =>
      simp only [List.mem_cons, not_or] at hi
      simp only [assign]
      rw [ih _ _ hi.2]
      simp [List.getD_eq_getElem?_getD, List.getElem?_set, Ne.symm hi.1]

theorem extractPerm_assign_disjoint (c : List Allele) (ts ts' : List Nat) (vs : List Allele)
    (h : ∀ t ∈ ts', t ∉ ts) : extractPerm ts' (assign c ts vs) = extractPerm ts' c := by
  unfold extractPerm
  apply List.map_congr_left
  intro t ht
  exact getD_assign_of_not_mem c ts vs t (h t ht)

theorem extractPerm_assign (c : List Allele) (ts : List Nat) (vs : List Allele) (hnd : ts.Nodup)
    (hr : ∀ t ∈ ts, t < c.length) (hl : vs.length = ts.length) : extractPerm ts (assign c ts vs) = vs := by
  induction ts generalizing c vs with
  | nil => cases vs with
    | nil => rfl
    | cons v vs => simp at hl
  | cons t ts ih =>
    cases vs with
    | nil => simp at hl
    | cons v vs =>
      simp only [List.nodup_cons] at hnd
      simp only [assign, extractPerm, List.map_cons]
      congr 1
      · rw [getD_assign_of_not_mem _ _ _ _ hnd.1]
        have := hr t (by simp)
        simp [List.getD_eq_getElem?_getD, this]
      · exact ih (c.set t v) vs hnd.2 (by intro x hx; simpa using hr x (List.mem_cons_of_mem _ hx)) (by simpa using hl)

/-- counting through a write-back: what is written replaces what was in the slots -/
theorem count_assign_add (c : List Allele) (ts : List Nat) (vs : List Allele) (hnd : ts.Nodup)
    (hr : ∀ t ∈ ts, t < c.length) (hl : vs.length = ts.length) (a : Allele) :
    (assign c ts vs).count a + (extractPerm ts c).count a = c.count a + vs.count a := by
  induction ts generalizing c vs with
  | nil => cases vs with
    | nil => simp [assign, extractPerm]
    | cons v vs => simp at hl
  | cons t ts ih =>
    cases vs with
    | nil => simp at hl
    | cons v vs =>
      simp only [List.nodup_cons] at hnd
      have ht : t < c.length := hr t (by simp)
      have ih' := ih (c.set t v) vs hnd.2 (by intro x hx; simpa using hr x (List.mem_cons_of_mem _ hx))
        (by simpa using hl)
      have hdis : extractPerm ts (c.set t v) = extractPerm ts c := by
        unfold extractPerm
        apply List.map_congr_left
        intro x hx
        have : x ≠ t := fun e => hnd.1 (e ▸ hx)
        simp [List.getD_eq_getElem?_getD, List.getElem?_set, Ne.symm this]
      rw [hdis, List.count_set ht] at ih'
      simp only [assign, extractPerm, List.map_cons, List.count_cons]
      unfold extractPerm at ih'
      have hg : c.getD t 0 = c[t] := by simp [List.getD_eq_getElem?_getD, ht]
      rw [hg]
      have hpos : (if (c[t] == a) = true then 1 else 0) ≤ c.count a := by
        by_cases e : (c[t] == a) = true
        · simp only [e, if_true]
          have : a ∈ c := by
            have := List.getElem_mem ht
            simpa using (beq_iff_eq.mp e) ▸ this
          exact List.count_pos_iff.mpr this
        · simp [e]
      omega

/-- writing a rearrangement of the slots' content back leaves a rearrangement of the column -/
theorem assign_perm (c : List Allele) (ts : List Nat) (vs : List Allele) (hnd : ts.Nodup)
    (hr : ∀ t ∈ ts, t < c.length) (hl : vs.length = ts.length) (hp : vs.Perm (extractPerm ts c)) :
    (assign c ts vs).Perm c := by
  apply List.perm_iff_count.mpr
  intro a
  have := count_assign_add c ts vs hnd hr hl a
  have := hp.count_eq a
  omega

theorem mem_assign_of_mem_vs (c : List Allele) (ts : List Nat) (vs : List Allele) (hnd : ts.Nodup)
    (hr : ∀ t ∈ ts, t < c.length) (hl : vs.length = ts.length) (x : Allele) (hx : x ∈ vs) :
    x ∈ assign c ts vs := by
  have he := extractPerm_assign c ts vs hnd hr hl
  rw [← he] at hx
  obtain ⟨t, ht, rfl⟩ := List.mem_map.mp hx
  have : t < (assign c ts vs).length := by rw [length_assign]; exact hr t ht
  simp [List.getD_eq_getElem?_getD, this]

/-! ## the stages preserve `Good` -/

theorem singletonCol_perm (gv : List Allele) : (singletonCol gv).Perm gv := isort_perm _ _

theorem forceOut_good (col gv out : List Allele) (hlen : col.length = gv.length) (h : ForceOut col gv out) :
    Good gv out := by
  unfold ForceOut at h
  by_cases h1 : (-1 : Allele) ∈ col
  · have hfs : forceStep col gv = .skipUndetermined := by simp [forceStep, h1]
    rw [hfs] at h
    subst h; exact Or.inl h1
  · by_cases h2 : affected col gv = []
    · have hfs : forceStep col gv = .nothingAbundant := by simp [forceStep, h1, h2]
      rw [hfs] at h
      subst h
      exact Or.inr (List.perm_iff_count.mpr (fun a => count_eq_of_affected_nil out gv hlen.symm h2 a))
    · have hfs : forceStep col gv = .choose (affected col gv) (toInsert col gv) := by
        simp [forceStep, h1, h2]
      rw [hfs] at h
      obtain ⟨perm, hp, rfl⟩ := h
      exact Or.inr (List.perm_iff_count.mpr (fun a => count_assign_perm col gv perm hlen.symm hp a))

theorem forceOut_length (col gv out : List Allele) (h : ForceOut col gv out) : out.length = col.length := by
  unfold ForceOut at h
  cases hfs : forceStep col gv with
  | skipUndetermined => rw [hfs] at h; rw [h]
  | nothingAbundant => rw [hfs] at h; rw [h]
  | choose aff ins =>
    rw [hfs] at h
    obtain ⟨perm, _, rfl⟩ := h
    exact length_assign _ _ _

theorem subSteps_good (S : List Allele → List Allele → Prop)
    (hS : ∀ g s, S g s → Good g s) (gv orig : List Allele) :
    ∀ (used : List Nat) (c c' : List Allele), SubSteps S orig used c c' →
      c.length = orig.length → (∀ i, i ∉ used → c.getD i 0 = orig.getD i 0) → Good gv c → Good gv c' := by
  intro used c c' h
  induction h with
  | done used c => intro _ _ hg; exact hg
  | step used ts c sub c' hnodup hrange hdisj hlen hsub _ ih =>
    intro hcl hagree hg
    have hrc : ∀ t ∈ ts, t < c.length := fun t ht => hcl ▸ hrange t ht
    have hext : extractPerm ts c = extractPerm ts orig := by
      unfold extractPerm
      apply List.map_congr_left
      intro t ht
      exact hagree t (hdisj t ht)
    apply ih
    · rw [length_assign, hcl]
    · intro i hi
      simp only [List.mem_append, not_or] at hi
      rw [getD_assign_of_not_mem _ _ _ _ hi.1]
      exact hagree i hi.2
    · rcases hS _ _ hsub with hm | hp
      · exact Or.inl (mem_assign_of_mem_vs c ts sub hnodup hrc hlen _ hm)
      · have hperm : (assign c ts sub).Perm c := assign_perm c ts sub hnodup hrc hlen (hext ▸ hp)
        rcases hg with hm | hpg
        · exact Or.inl (hperm.symm.subset hm)
        · exact Or.inr (hperm.trans hpg)

theorem subSteps_length (S : List Allele → List Allele → Prop) (orig : List Allele) :
    ∀ (used : List Nat) (c c' : List Allele), SubSteps S orig used c c' → c'.length = c.length := by
  intro used c c' h
  induction h with
  | done used c => rfl
  | step used ts c sub c' _ _ _ _ _ _ ih => rw [ih, length_assign]

/-- every column `solve_polyphase_instance` can return for `gv` has an undetermined allele or lists exactly the
alleles of `gv` -/
theorem solvedN_good : ∀ (n : Nat) (gv out : List Allele), SolvedN n gv out → Good gv out
  | 0, gv, out, h => by
    simp only [SolvedN] at h
    subst h; exact Or.inr (singletonCol_perm gv)
  | n + 1, gv, out, h => by
    simp only [SolvedN] at h
    rcases h with h | ⟨col0, col1, col2, perm, hlen, hf, hs, hperm, rfl⟩
    · subst h; exact Or.inr (singletonCol_perm gv)
    · have hg1 : Good gv col1 := forceOut_good col0 gv col1 hlen hf
      have hg2 : Good gv col2 :=
        subSteps_good (SolvedN n) (fun g s hs' => solvedN_good n g s hs') gv col1 [] col1 col2 hs rfl
          (fun _ _ => rfl) hg1
      have hl2 : col2.length = gv.length := by
        rw [subSteps_length _ _ _ _ _ hs, forceOut_length _ _ _ hf, hlen]
      have hpc : (permuteCol perm col2).Perm col2 := permuteCol_perm perm col2 (hl2 ▸ hperm)
      rcases hg2 with hm | hp
      · exact Or.inl (hpc.symm.subset hm)
      · exact Or.inr (hpc.trans hp)

end WhVerif.C15

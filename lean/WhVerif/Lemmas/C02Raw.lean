import WhVerif.Spec.C02Raw
import WhVerif.Lemmas.C01Input
/-! Lemmas for the C02 glue (Spec/C02Raw.lean): `mkInst` turns error-free raw reads into an `ErrFree` instance. -/
set_option linter.unusedSimpArgs false
set_option linter.unusedVariables false
namespace WhVerif.C02
open WhVerif.C01

theorem rawReadOkB_iff (hapAt : Nat → Nat) (s : Bool) (r : RawRead) :
    rawReadOkB hapAt s r = true ↔ RawReadOk hapAt s r := by
  unfold rawReadOkB RawReadOk
  simp only [Bool.and_eq_true, beq_iff_eq, List.all_eq_true, decide_eq_true_eq]

theorem rawErrFreeB_iff (raws : List RawRead) (hapAt : Nat → Nat) (src : Nat → Bool) :
    rawErrFreeB raws hapAt src = true ↔ RawErrFree raws hapAt src := by
  unfold rawErrFreeB RawErrFree
  simp only [List.all_eq_true, List.mem_range, rawReadOkB_iff]

/-- stage B: whatever reads selection keeps (unchanged), they are still error-free copies -/
theorem rawErrFree_select {cands : List RawRead} {hapAt : Nat → Nat} {src : Nat → Bool}
    (h : RawErrFree cands hapAt src) (sel : List Nat) (hsel : ∀ i ∈ sel, i < cands.length) :
    RawErrFree (selectReads cands sel) hapAt (fun k => src (sel.getD k 0)) := by
  intro k hk
  unfold selectReads at hk ⊢
  rw [List.length_map] at hk
  have hmem : sel.getD k 0 ∈ sel := by
    rw [List.getD_eq_getElem?_getD, List.getElem?_eq_getElem hk]; exact List.getElem_mem hk
  have : (sel.map fun i => cands.getD i default).getD k default = cands.getD (sel.getD k 0) default := by
    simp [List.getD_eq_getElem?_getD, List.getElem?_eq_getElem hk]
  rw [this]
  exact h _ (hsel _ hmem)

/-- distinct positions of a read become distinct columns -/
theorem toEntries_nodup {positions : List Nat} : ∀ (vs : List (Nat × Nat × Nat)),
    (vs.map (·.1)).Pairwise (· < ·) → ((toEntries positions vs).map (·.1)).Nodup
  | [], _ => by simp [toEntries]
  | v :: vs, h => by
    simp only [List.map_cons, List.pairwise_cons] at h
    have ih := toEntries_nodup (positions := positions) vs h.2
    unfold toEntries at ih ⊢
    rw [List.filterMap_cons]
    cases hc : colOf positions v.1 with
    | none => simpa [hc] using ih
    | some c =>
      simp only [hc, Option.map_some, List.map_cons, List.nodup_cons]
      refine ⟨?_, ih⟩
      intro hmem
      obtain ⟨e, he, hec⟩ := List.mem_map.mp hmem
      have he' : e ∈ toEntries positions vs := he
      obtain ⟨v', hv', hc', _⟩ := mem_toEntries.mp he'
      obtain ⟨_, e1⟩ := colOf_some hc
      obtain ⟨_, e2⟩ := colOf_some hc'
      have : v'.1 = v.1 := by rw [← e1, ← e2]; simp [hec]
      have hlt := h.1 v'.1 (List.mem_map.mpr ⟨v', hv', rfl⟩)
      omega

theorem errfree_of_raw {positions : List Nat} {raws : List RawRead} {recomb : List Nat} {I : Inst}
    {hapAt : Nat → Nat} {src : Nat → Bool}
    (h : mkInst positions raws 1 [] (hetGeno positions.length) recomb = some I)
    (hpos : ∀ p ∈ positions, hapAt p ≤ 1) (hraw : RawErrFree raws hapAt src) :
    ErrFree I (fun c => hapAt (positions.getD c 0)) src := by
  obtain ⟨_, _, hncols, hnind, htrios, hgeno, _⟩ := mkInst_some h
  obtain ⟨hp, hn, hconv, _⟩ := mkInst_conv h
  have hsp := mkInst_spans h
  refine ⟨hnind, htrios, ?_, ?_, ?_, ?_, ?_⟩
  · intro c hc
    rw [hncols] at hc
    simp [gcost, hgeno, hetGeno, List.getD_eq_getElem?_getD, hc]
  · intro c hc
    rw [hncols] at hc
    apply hpos
    rw [List.getD_eq_getElem?_getD, List.getElem?_eq_getElem hc]
    exact List.getElem_mem hc
  · intro r hr
    rw [hn] at hr
    rw [(hconv r hr).ind]
    exact (hraw r hr).1
  · intro r hr
    rw [hn] at hr
    rw [(hconv r hr).entries]
    apply toEntries_nodup
    rw [List.pairwise_map]
    exact variantsSorted_pairwise _ (hconv r hr).sorted
  · intro r hr e he
    have hr' : r < raws.length := by rw [← hn]; exact hr
    obtain ⟨h1, h2⟩ := hsp.entries_in r hr e he
    have h3 := hsp.last_lt r hr
    rw [(hconv r hr').entries] at he
    obtain ⟨v, hv, hc, hev⟩ := mem_toEntries.mp he
    obtain ⟨hw, ha⟩ := (hraw r hr').2 v hv
    obtain ⟨hcl, hpc⟩ := colOf_some hc
    have hget : positions.getD e.1 0 = v.1 := by
      rw [List.getD_eq_getElem?_getD, List.getElem?_eq_getElem hcl]; exact hpc
    refine ⟨h1, h2, by omega, ?_, ?_⟩
    · rw [hev]; exact hw
    · simp only [hget]; rw [hev]; exact ha

theorem rawPreconditionB_sound {positions raws nind trios geno recomb hapAt src}
    (h : rawPreconditionB positions raws nind trios geno recomb hapAt src = true) :
    ∃ I, mkInst positions raws nind trios geno recomb = some I ∧
      ErrFree I (fun c => hapAt (positions.getD c 0)) src ∧ WF I := by
  unfold rawPreconditionB at h
  simp only [Bool.and_eq_true, beq_iff_eq, List.all_eq_true, decide_eq_true_eq, List.isEmpty_iff] at h
  obtain ⟨⟨⟨⟨⟨h1, h2⟩, h3⟩, h4⟩, h5⟩, h6⟩ := h
  cases hI : mkInst positions raws nind trios geno recomb with
  | none => rw [hI] at h1; cases h1
  | some I =>
    subst h2 h3 h4
    exact ⟨I, rfl, errfree_of_raw hI h5 ((rawErrFreeB_iff _ _ _).mp h6), mkInst_wf hI⟩

end WhVerif.C02

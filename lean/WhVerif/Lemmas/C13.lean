import WhVerif.Model.C13
import WhVerif.Spec.C13
/-! Helper lemmas for C13: sorting facts (from core's `mergeSort` library), `mapM` over `Except`. -/
namespace WhVerif.Lemmas.C13
open WhVerif.C13

theorem sortNat_perm (l : List Nat) : (sortNat l).Perm l := List.mergeSort_perm _ _

theorem sortNat_pairwise (l : List Nat) : (sortNat l).Pairwise (fun a b => decide (a ≤ b) = true) :=
  List.pairwise_mergeSort (le := fun a b => decide (a ≤ b))
    (by intro a b c h1 h2; simp at *; omega) (by intro a b; simp; omega) l

theorem sortNat_idem (l : List Nat) : sortNat (sortNat l) = sortNat l :=
  List.mergeSort_of_pairwise (sortNat_pairwise l)

theorem sortNat_eq_of_perm {l₁ l₂ : List Nat} (h : l₁.Perm l₂) : sortNat l₁ = sortNat l₂ := by
  apply List.Perm.eq_of_pairwise (le := fun a b => decide (a ≤ b) = true)
  · intro a b _ _ h1 h2; simp at *; omega
  · exact sortNat_pairwise l₁
  · exact sortNat_pairwise l₂
  · exact (sortNat_perm l₁).trans (h.trans (sortNat_perm l₂).symm)

theorem sortNat_short {l : List Nat} (h : l.length ≤ 1) : sortNat l = l := by
  match l, h with
  | [], _ => simp [sortNat]
  | [a], _ => simp [sortNat]

theorem allPresent_map_some (l : List Nat) : allPresent (l.map some) = true := by
  simp [allPresent]

theorem filterMap_id_map_some (l : List Nat) : (l.map some).filterMap id = l := by
  induction l with
  | nil => rfl
  | cons a t ih => simp

/-- a fully present allele list is `map some` of its values -/
theorem eq_map_some_of_allPresent {l : List (Option Nat)} (h : allPresent l = true) :
    l = (l.filterMap id).map some := by
  induction l with
  | nil => rfl
  | cons a t ih =>
    cases a with
    | none => simp [allPresent] at h
    | some a =>
      have ht : allPresent t = true := by simpa [allPresent] using h
      have := ih ht
      simp only [List.filterMap_cons, id, List.map_cons]
      exact congrArg _ this

theorem sortAlleles_of_not {l : List (Option Nat)} (h : allPresent l = false) : sortAlleles l = l := by
  simp [sortAlleles, h]

theorem sortAlleles_of_all {l : List (Option Nat)} (h : allPresent l = true) :
    sortAlleles l = (sortNat (l.filterMap id)).map some := by
  simp [sortAlleles, h]

theorem sortAlleles_perm (l : List (Option Nat)) : (sortAlleles l).Perm l := by
  cases h : allPresent l with
  | false => rw [sortAlleles_of_not h]
  | true =>
    rw [sortAlleles_of_all h]
    have h2 := eq_map_some_of_allPresent h
    exact ((sortNat_perm _).map some).trans (by rw [← h2])

theorem allPresent_sortAlleles (l : List (Option Nat)) : allPresent (sortAlleles l) = allPresent l := by
  cases h : allPresent l with
  | false => rw [sortAlleles_of_not h, h]
  | true => rw [sortAlleles_of_all h, allPresent_map_some]

theorem sortAlleles_idem (l : List (Option Nat)) : sortAlleles (sortAlleles l) = sortAlleles l := by
  cases h : allPresent l with
  | false => rw [sortAlleles_of_not h, sortAlleles_of_not h]
  | true =>
    rw [sortAlleles_of_all h, sortAlleles_of_all (allPresent_map_some _), filterMap_id_map_some, sortNat_idem]

theorem allPresent_perm {l₁ l₂ : List (Option Nat)} (h : l₁.Perm l₂) : allPresent l₁ = allPresent l₂ := by
  simp only [allPresent]
  rw [Bool.eq_iff_iff]
  simp only [List.all_eq_true]
  exact ⟨fun H x hx => H x (h.mem_iff.mpr hx), fun H x hx => H x (h.mem_iff.mp hx)⟩

theorem sortAlleles_eq_of_perm {l₁ l₂ : List (Option Nat)} (h : l₁.Perm l₂) (ha : allPresent l₂ = true) :
    sortAlleles l₁ = sortAlleles l₂ := by
  have ha1 : allPresent l₁ = true := by rw [allPresent_perm h]; exact ha
  rw [sortAlleles_of_all ha1, sortAlleles_of_all ha]
  exact congrArg _ (sortNat_eq_of_perm (h.filterMap id))

theorem stripTags_idem (fs : List (String × String)) : stripTags (stripTags fs) = stripTags fs := by
  simp [stripTags, List.filter_filter]

theorem stripTags_no_tag (fs : List (String × String)) : ∀ kv ∈ stripTags fs, isPhaseTag kv.1 = false := by
  intro kv h
  simp [stripTags] at h
  exact h.2

/-- `pySorted` cannot fail on a fully present list and then equals `sortAlleles` -/
theorem pySorted_of_all {l : List (Option Nat)} (h : allPresent l = true) : pySorted l = .ok (sortAlleles l) := by
  unfold pySorted
  split
  · rename_i hl
    rw [sortAlleles_of_all h, sortNat_short (by
      have := List.length_filterMap_le id l; omega)]
    exact congrArg _ (eq_map_some_of_allPresent h)
  · simp [h, sortAlleles]

theorem mapM_ok {α β : Type} (f : α → Except Err β) (g : α → β) (h : ∀ x, f x = .ok (g x)) (l : List α) :
    l.mapM f = .ok (l.map g) := by
  induction l with
  | nil => rfl
  | cons a t ih => simp [List.mapM_cons, h, ih]; rfl

theorem mapM_ok_mem {α β : Type} (f : α → Except Err β) (g : α → β) (l : List α) (h : ∀ x ∈ l, f x = .ok (g x)) :
    l.mapM f = .ok (l.map g) := by
  induction l with
  | nil => rfl
  | cons a t ih =>
    have ha := h a (List.mem_cons_self ..)
    have ht := ih (fun x hx => h x (List.mem_cons_of_mem _ hx))
    simp [List.mapM_cons, ha, ht]; rfl

/-- if `mapM` succeeds and every success of `f` is `g`, the result is `map g` -/
theorem mapM_ok_imp {α β : Type} (f : α → Except Err β) (g : α → β) (h : ∀ x y, f x = .ok y → y = g x) :
    ∀ (l : List α) (w : List β), l.mapM f = .ok w → w = l.map g := by
  intro l
  induction l with
  | nil => intro w hw; simp [List.mapM_nil, pure, Except.pure] at hw; simp [hw]
  | cons a t ih =>
    intro w hw
    rw [List.mapM_cons] at hw
    cases hfa : f a with
    | error e => rw [hfa] at hw; simp [bind, Except.bind] at hw
    | ok y =>
      rw [hfa] at hw
      cases hft : t.mapM f with
      | error e => rw [hft] at hw; simp [bind, Except.bind] at hw
      | ok ys =>
        rw [hft] at hw
        simp [bind, Except.bind, pure, Except.pure] at hw
        rw [← hw, h a y hfa, ih ys hft]; rfl

/-- `mapM` raises as soon as one element raises -/
theorem mapM_error_of_mem {α β : Type} (f : α → Except Err β) :
    ∀ (l : List α) (x : α), x ∈ l → (∃ e, f x = .error e) → ∃ e, l.mapM f = .error e := by
  intro l
  induction l with
  | nil => intro x hx; cases hx
  | cons a t ih =>
    intro x hx hfx
    rw [List.mapM_cons]
    cases hfa : f a with
    | error e => exact ⟨e, rfl⟩
    | ok y =>
      have hx' : x ∈ t := by
        rcases List.mem_cons.mp hx with rfl | h
        · obtain ⟨e, he⟩ := hfx; rw [he] at hfa; cases hfa
        · exact h
      obtain ⟨e, he⟩ := ih x hx' hfx
      exact ⟨e, by simp [he, bind, Except.bind]⟩

theorem callAt_unphase (v : List Record) (i j : Nat) :
    callAt (unphase v) i j = (callAt v i j).map unphaseCall := by
  unfold callAt unphase
  rw [List.getElem?_map]
  cases v[i]? with
  | none => rfl
  | some r => simp [unphaseRecord, List.getElem?_map]

theorem unphaseCallFix_eq (c : Call) : unphaseCallFix c = .ok (unphaseCall c) := by
  unfold unphaseCallFix unphaseCall
  cases hg : c.gt with
  | none => rfl
  | some g =>
    simp only [Option.map_some, unphaseGT]
    cases h : allPresent g.alleles with
    | true => simp [pySorted_of_all h, bind, Except.bind, pure, Except.pure]
    | false => simp [sortAlleles_of_not h, bind, Except.bind, pure, Except.pure]

theorem unphaseCall_idem (c : Call) : unphaseCall (unphaseCall c) = unphaseCall c := by
  cases c with
  | mk gt fields =>
    cases gt with
    | none => simp [unphaseCall, stripTags_idem]
    | some g => simp [unphaseCall, unphaseGT, stripTags_idem, sortAlleles_idem]

theorem unphaseCall_of_edit {c c' : Call} (h : PhaseOnlyEditCall c c') : unphaseCall c' = unphaseCall c := by
  obtain ⟨hf, hg⟩ := h
  cases c with
  | mk gt fields =>
  cases c' with
  | mk gt' fields' =>
    simp only at hf hg
    cases gt with
    | none => cases gt' with
      | none => simp [unphaseCall, hf]
      | some g' => simp at hg
    | some g => cases gt' with
      | none => simp at hg
      | some g' =>
        simp only [unphaseCall, Option.map_some, hf, unphaseGT]
        rcases hg with he | ⟨ha, hp⟩
        · rw [he]
        · rw [sortAlleles_eq_of_perm hp ha]

theorem unphaseCalls_of_edit : ∀ {cs cs' : List Call}, PhaseOnlyEditCalls cs cs' →
    cs'.map unphaseCall = cs.map unphaseCall
  | [], [], _ => rfl
  | c :: cs, c' :: cs', h => by
    simp only [List.map_cons]
    rw [unphaseCall_of_edit h.1, unphaseCalls_of_edit h.2]
  | [], _ :: _, h => by simp [PhaseOnlyEditCalls] at h
  | _ :: _, [], h => by simp [PhaseOnlyEditCalls] at h

theorem unphaseCallCur_of_safe {c : Call} (h : curSafe c = true) : unphaseCallCur c = .ok (unphaseCall c) := by
  cases c with
  | mk gt fields =>
  cases gt with
  | none => simp [curSafe] at h
  | some g =>
    cases g with
    | mk alleles phased =>
    match alleles, h with
    | [], h => simp [curSafe] at h
    | [none], _ => simp [unphaseCallCur, pyGetGT, pyIndex, unphaseCall, unphaseGT, sortAlleles, allPresent, bind, Except.bind, pure, Except.pure]
    | [some a], h => simp [curSafe] at h
    | none :: b :: rest, _ =>
      simp [unphaseCallCur, pyGetGT, pyIndex, unphaseCall, unphaseGT, sortAlleles, allPresent, bind, Except.bind, pure, Except.pure]
    | some a :: none :: rest, _ =>
      simp [unphaseCallCur, pyGetGT, pyIndex, unphaseCall, unphaseGT, sortAlleles, allPresent, bind, Except.bind, pure, Except.pure]
    | some a :: some b :: rest, h =>
      have hr : allPresent rest = true := by simpa [curSafe] using h
      have hall : allPresent (some a :: some b :: rest) = true := by simpa [allPresent] using hr
      simp [unphaseCallCur, pyGetGT, pyIndex, unphaseCall, unphaseGT, pySorted_of_all hall, bind, Except.bind, pure, Except.pure]

theorem unphaseCallCur_of_unsafe {c : Call} (h : curSafe c = false) : ∃ e, unphaseCallCur c = .error e := by
  cases c with
  | mk gt fields =>
  cases gt with
  | none => exact ⟨.keyError, rfl⟩
  | some g =>
    cases g with
    | mk alleles phased =>
    match alleles, h with
    | [], _ => exact ⟨.indexError, rfl⟩
    | [none], h => simp [curSafe] at h
    | [some a], _ => exact ⟨.indexError, rfl⟩
    | none :: b :: rest, h => simp [curSafe] at h
    | some a :: none :: rest, h => simp [curSafe] at h
    | some a :: some b :: rest, h =>
      have hr : allPresent rest = false := by simpa [curSafe] using h
      have hall : allPresent (some a :: some b :: rest) = false := by simpa [allPresent] using hr
      refine ⟨.typeError, ?_⟩
      simp [unphaseCallCur, pyGetGT, pyIndex, pySorted, hall, bind, Except.bind]

end WhVerif.Lemmas.C13

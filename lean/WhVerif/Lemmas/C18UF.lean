import WhVerif.Spec.C18
/-! C18 helper lemmas: union-find (`ComponentFinder`). -/
namespace WhVerif.C18

/-! ### parent map as a function -/

theorem parentOf_setParent (u : UF) (v : Nat) (p : Option Nat) (w : Nat) :
    (u.setParent v p).parentOf w = if w = v then (u.parentOf v).map (fun _ => p) else u.parentOf w := by
  obtain ⟨nodes⟩ := u
  simp only [UF.parentOf, UF.setParent]
  induction nodes with
  | nil => simp
  | cons e es ih =>
    obtain ⟨k, x⟩ := e
    simp only [List.map_cons, List.find?_cons]
    by_cases hk : k = v
    · subst hk
      by_cases hw : w = k
      · subst hw; simp
      · have : (k == w) = false := by simp; omega
        simp only [beq_self_eq_true, if_true, this, hw, if_false]
        simpa [hw] using ih
    · have hkv : (k == v) = false := by simpa using hk
      simp only [hkv, Bool.false_eq_true, if_false]
      by_cases hkw : k = w
      · subst hkw; simp [hk]
      · have hkw' : (k == w) = false := by simpa using hkw
        simp only [hkw']
        exact ih

theorem setParent_length (u : UF) (v : Nat) (p : Option Nat) :
    (u.setParent v p).nodes.length = u.nodes.length := by simp [UF.setParent]

theorem parentOf_init (values : List Nat) (v : Nat) :
    (UF.init values).parentOf v = if v ∈ values then some none else none := by
  simp only [UF.parentOf, UF.init, List.find?_map]
  by_cases hv : v ∈ values
  · have : v ∈ values.eraseDups := List.mem_eraseDups.mpr hv
    simp only [hv, if_true]
    cases hf : List.find? ((fun p : Nat × Option Nat => p.1 == v) ∘ fun v => (v, none)) values.eraseDups with
    | none =>
      rw [List.find?_eq_none] at hf
      exact absurd (hf v this) (by simp)
    | some x => simp
  · simp only [hv, if_false]
    have : List.find? ((fun p : Nat × Option Nat => p.1 == v) ∘ fun v => (v, none)) values.eraseDups = none := by
      rw [List.find?_eq_none]
      intro x hx
      have := List.mem_eraseDups.mp hx
      simp only [Function.comp, beq_iff_eq]
      intro e; subst e; exact hv this
    simp [this]

theorem mem_nodes_of_parentOf {u : UF} {v : Nat} {x : Option Nat} (h : u.parentOf v = some x) :
    (v, x) ∈ u.nodes := by
  simp only [UF.parentOf, Option.map_eq_some_iff] at h
  obtain ⟨e, he, rfl⟩ := h
  have := List.find?_some he
  have h2 := List.mem_of_find?_eq_some he
  simp only [beq_iff_eq] at this
  rw [← this]; exact h2

/-! ### counting argument: the fuel `nodes.length` suffices -/

def UF.cnt (u : UF) (v : Nat) : Nat := u.nodes.countP (fun e => e.1 < v)

theorem countP_lt_of_witness {α} (P Q : α → Bool) (l : List α) (himp : ∀ x, P x = true → Q x = true)
    (x : α) (hx : x ∈ l) (h1 : P x = false) (h2 : Q x = true) : l.countP P < l.countP Q := by
  induction l with
  | nil => simp at hx
  | cons a l ih =>
    rcases List.mem_cons.mp hx with e | hm
    · subst e
      have := List.countP_mono_left (l := l) (p := P) (q := Q) (fun x _ => himp x)
      simp [h1, h2]; omega
    · have := ih hm
      simp only [List.countP_cons]
      by_cases hp : P a = true
      · simp [hp, himp a hp]; omega
      · by_cases hq : Q a = true <;> simp [hp, hq] <;> omega

theorem cnt_lt_cnt {u : UF} {v p : Nat} (hlt : p < v) (hk : u.parentOf p ≠ none) : u.cnt p < u.cnt v := by
  obtain ⟨x, hx⟩ := Option.ne_none_iff_exists'.mp hk
  exact countP_lt_of_witness _ _ _ (fun e he => by simp at he ⊢; omega) (p, x) (mem_nodes_of_parentOf hx)
    (by simp) (by simpa using hlt)

theorem cnt_lt_length {u : UF} {v : Nat} (hk : u.parentOf v ≠ none) : u.cnt v < u.nodes.length := by
  obtain ⟨x, hx⟩ := Option.ne_none_iff_exists'.mp hk
  have := countP_lt_of_witness (fun e : Nat × Option Nat => decide (e.1 < v)) (fun _ => true) u.nodes
    (fun _ _ => rfl) (v, x) (mem_nodes_of_parentOf hx) (by simp) rfl
  simpa [UF.cnt] using this

/-! ### RootOf -/

theorem rootOf_det {u : UF} {v r r' : Nat} (h : u.RootOf v r) (h' : u.RootOf v r') : r = r' := by
  induction h with
  | root hr =>
    cases h' with
    | root _ => rfl
    | step hs _ => rw [hr] at hs; cases hs
  | step hs _ ih =>
    cases h' with
    | root hr => rw [hr] at hs; cases hs
    | step hs' h2 =>
      rw [hs] at hs'; cases hs'
      exact ih h2

theorem rootOf_isRoot {u : UF} {v r : Nat} (h : u.RootOf v r) : u.parentOf r = some none := by
  induction h with
  | root hr => exact hr
  | step _ _ ih => exact ih

theorem rootOf_isKey {u : UF} {v r : Nat} (h : u.RootOf v r) : u.parentOf v ≠ none := by
  cases h with
  | root hr => simp [hr]
  | step hs _ => simp [hs]

theorem rootOf_le {u : UF} (hpl : u.ParentLt) {v r : Nat} (h : u.RootOf v r) : r ≤ v := by
  induction h with
  | root _ => exact Nat.le_refl _
  | step hs _ ih => have := (hpl _ _ hs).1; omega

theorem rootFuel_spec {u : UF} (hpl : u.ParentLt) (fuel v : Nat) (hk : u.parentOf v ≠ none)
    (hf : u.cnt v < fuel) : u.RootOf v (u.rootFuel fuel v) := by
  induction fuel generalizing v with
  | zero => omega
  | succ fuel ih =>
    simp only [UF.rootFuel]
    cases hp : u.parentOf v with
    | none => exact absurd hp hk
    | some x =>
      cases x with
      | none => exact .root hp
      | some p =>
        have ⟨hlt, hkp⟩ := hpl v p hp
        have := cnt_lt_cnt hlt hkp
        exact .step hp (ih p hkp (by omega))

theorem root_spec {u : UF} (hpl : u.ParentLt) {v : Nat} (hk : u.parentOf v ≠ none) :
    u.RootOf v (u.root v) := rootFuel_spec hpl _ v hk (cnt_lt_length hk)

theorem root_eq_of_rootOf {u : UF} (hpl : u.ParentLt) {v r : Nat} (h : u.RootOf v r) : u.root v = r :=
  rootOf_det (root_spec hpl (rootOf_isKey h)) h

theorem root_nonkey {u : UF} {v : Nat} (hk : u.parentOf v = none) : u.root v = v := by
  unfold UF.root
  cases u.nodes.length with
  | zero => rfl
  | succ n => simp [UF.rootFuel, hk]


/-! ### linking a root under a smaller root -/

theorem link_keys {u : UF} {a : Nat} {b : Option Nat} (w : Nat) :
    (u.setParent a b).parentOf w ≠ none ↔ u.parentOf w ≠ none := by
  rw [parentOf_setParent]
  by_cases h : w = a
  · subst h; cases u.parentOf w <;> simp
  · simp [h]

theorem link_parentLt {u : UF} (hpl : u.ParentLt) {yr xr : Nat} (hy : u.parentOf yr ≠ none)
    (hx : u.parentOf xr ≠ none) (hlt : xr < yr) : (u.setParent yr (some xr)).ParentLt := by
  intro v p hp
  rw [link_keys]
  rw [parentOf_setParent] at hp
  by_cases h : v = yr
  · subst h
    obtain ⟨z, hz⟩ := Option.ne_none_iff_exists'.mp hy
    simp only [if_true, hz, Option.map_some, Option.some.injEq] at hp
    subst hp; exact ⟨hlt, hx⟩
  · simp only [h, if_false] at hp
    exact hpl v p hp

theorem link_rootOf {u : UF} {yr xr : Nat} (hy : u.parentOf yr = some none)
    (hx : u.parentOf xr = some none) (hne : xr ≠ yr) {v r : Nat} (h : u.RootOf v r) :
    (u.setParent yr (some xr)).RootOf v (if r = yr then xr else r) := by
  have hxr : (u.setParent yr (some xr)).parentOf xr = some none := by
    rw [parentOf_setParent, if_neg hne]; exact hx
  have hyr : (u.setParent yr (some xr)).parentOf yr = some (some xr) := by
    rw [parentOf_setParent, if_pos rfl, hy]; rfl
  induction h with
  | @root v hr =>
    by_cases hv : v = yr
    · subst hv; rw [if_pos rfl]
      exact .step hyr (.root hxr)
    · rw [if_neg hv]
      exact .root (by rw [parentOf_setParent, if_neg hv]; exact hr)
  | @step v p r hs _ ih =>
    have hv : v ≠ yr := by intro e; subst e; rw [hy] at hs; cases hs
    exact .step (by rw [parentOf_setParent, if_neg hv]; exact hs) ih

/-! ### path compression -/

/-- one compression step: re-hang a non-root `v` directly under its root `r` -/
theorem hang_rootOf {u : UF} {v r : Nat} (hv : u.RootOf v r) (hnr : v ≠ r) {w x : Nat}
    (h : u.RootOf w x) : (u.setParent v (some r)).RootOf w x := by
  have hr := rootOf_isRoot hv
  have hr' : (u.setParent v (some r)).parentOf r = some none := by
    rw [parentOf_setParent, if_neg (Ne.symm hnr)]; exact hr
  induction h with
  | @root w hw =>
    have : w ≠ v := by
      intro e; subst e
      cases hv with
      | root _ => exact hnr rfl
      | step hs _ => rw [hw] at hs; cases hs
    exact .root (by rw [parentOf_setParent, if_neg this]; exact hw)
  | @step w p x hs hpx ih =>
    by_cases hwv : w = v
    · subst hwv
      have : x = r := rootOf_det (.step hs hpx) hv
      subst this
      exact .step (by rw [parentOf_setParent, if_pos rfl, hs]; rfl) (.root hr')
    · exact .step (by rw [parentOf_setParent, if_neg hwv]; exact hs) ih

theorem hang_parentLt {u : UF} (hpl : u.ParentLt) {v r : Nat} (hv : u.RootOf v r) (hnr : v ≠ r) :
    (u.setParent v (some r)).ParentLt := by
  intro a p hp
  rw [link_keys]
  rw [parentOf_setParent] at hp
  by_cases h : a = v
  · subst h
    obtain ⟨z, hz⟩ := Option.ne_none_iff_exists'.mp (rootOf_isKey hv)
    simp only [if_true, hz, Option.map_some, Option.some.injEq] at hp
    subst hp
    have := rootOf_le hpl hv
    exact ⟨by omega, by simp [rootOf_isRoot hv]⟩
  · simp only [h, if_false] at hp
    exact hpl a p hp

/-- the state after compressing the path from `v` (whose root is `r`): same keys, `ParentLt`, every node
keeps its root, and every parent link is an old link or a link to the node's root -/
theorem compress_spec {u : UF} (hpl : u.ParentLt) {r : Nat} (fuel : Nat) {v : Nat} (hv : u.RootOf v r) :
    let u' := u.compressFuel r fuel v
    (∀ w, u'.parentOf w ≠ none ↔ u.parentOf w ≠ none) ∧ u'.ParentLt ∧
    (∀ w x, u.RootOf w x → u'.RootOf w x) ∧
    (∀ w p, u'.parentOf w = some (some p) → u.parentOf w = some (some p) ∨ u.RootOf w p) ∧
    u'.nodes.length = u.nodes.length := by
  induction fuel generalizing u v with
  | zero => exact ⟨fun _ => Iff.rfl, hpl, fun _ _ h => h, fun _ _ h => Or.inl h, rfl⟩
  | succ fuel ih =>
    simp only [UF.compressFuel]
    cases hp : u.parentOf v with
    | none => exact ⟨fun _ => Iff.rfl, hpl, fun _ _ h => h, fun _ _ h => Or.inl h, rfl⟩
    | some z =>
      cases z with
      | none => exact ⟨fun _ => Iff.rfl, hpl, fun _ _ h => h, fun _ _ h => Or.inl h, rfl⟩
      | some p =>
        have hnr : v ≠ r := by
          intro e; subst e
          rw [rootOf_isRoot hv] at hp; cases hp
        have hpr : u.RootOf p r := by
          cases hv with
          | root h => rw [h] at hp; cases hp
          | step hs h => rw [hs] at hp; cases hp; exact h
        have hpl1 := hang_parentLt hpl hv hnr
        have hroot1 : ∀ w x, u.RootOf w x → (u.setParent v (some r)).RootOf w x :=
          fun w x h => hang_rootOf hv hnr h
        obtain ⟨k2, pl2, r2, l2, n2⟩ := ih hpl1 (hroot1 _ _ hpr)
        refine ⟨fun w => (k2 w).trans (link_keys w), pl2, fun w x h => r2 w x (hroot1 w x h), ?_,
          by rw [n2, setParent_length]⟩
        intro w q hq
        rcases l2 w q hq with h | h
        · rw [parentOf_setParent] at h
          by_cases hw : w = v
          · subst hw
            simp only [if_true, hp, Option.map_some, Option.some.injEq] at h
            subst h; exact Or.inr hv
          · simp only [hw, if_false] at h; exact Or.inl h
        · -- `h : RootOf (setParent ..) w q`; transfer back through determinism
          have hk : u.parentOf w ≠ none := (link_keys w).mp (rootOf_isKey h)
          have h0 := root_spec hpl hk
          have := rootOf_det (hroot1 _ _ h0) h
          subst this; exact Or.inr h0

theorem findNode_spec {u u' : UF} {v r : Nat} (hpl : u.ParentLt) (h : u.findNode v = some (u', r)) :
    u.parentOf v ≠ none ∧ r = u.root v ∧ u.RootOf v r ∧
    (∀ w, u'.parentOf w ≠ none ↔ u.parentOf w ≠ none) ∧ u'.ParentLt ∧
    (∀ w x, u.RootOf w x → u'.RootOf w x) ∧
    (∀ w p, u'.parentOf w = some (some p) → u.parentOf w = some (some p) ∨ u.RootOf w p) ∧
    (∀ w, u'.root w = u.root w) := by
  unfold UF.findNode at h
  split at h
  · simp at h
  · rename_i x hx
    simp only [Option.some.injEq, Prod.mk.injEq] at h
    obtain ⟨rfl, rfl⟩ := h
    have hk : u.parentOf v ≠ none := by simp [hx]
    have hv := root_spec hpl hk
    obtain ⟨k, pl, rr, l, n⟩ := compress_spec hpl u.nodes.length hv
    refine ⟨hk, rfl, hv, k, pl, rr, l, ?_⟩
    intro w
    by_cases hw : u.parentOf w = none
    · rw [root_nonkey hw, root_nonkey]
      cases hc : (u.compressFuel (u.root v) u.nodes.length v).parentOf w with
      | none => rfl
      | some z => exact absurd hw ((k w).mp (by simp [hc]))
    · exact root_eq_of_rootOf pl (rr _ _ (root_spec hpl hw))


/-! ### the invariant through `find` and `merge` -/

theorem conn_mono {P Q : List (Nat × Nat)} (hsub : ∀ e, e ∈ P → e ∈ Q) {a b : Nat} (h : Conn P a b) :
    Conn Q a b := by
  induction h with
  | edge h => exact .edge (hsub _ h)
  | refl a => exact .refl a
  | symm _ ih => exact .symm ih
  | trans _ _ ih1 ih2 => exact .trans ih1 ih2

theorem conn_rootOf {pairs : List (Nat × Nat)} {u : UF}
    (hs : ∀ v p, u.parentOf v = some (some p) → Conn pairs v p) {v r : Nat} (h : u.RootOf v r) :
    Conn pairs v r := by
  induction h with
  | root _ => exact .refl _
  | step hp _ ih => exact .trans (hs _ _ hp) ih

theorem root_eq_of_conn {pairs : List (Nat × Nat)} {u : UF}
    (hc : ∀ a b, (a, b) ∈ pairs → u.root a = u.root b) {a b : Nat} (h : Conn pairs a b) :
    u.root a = u.root b := by
  induction h with
  | edge h => exact hc _ _ h
  | refl a => rfl
  | symm _ ih => exact ih.symm
  | trans _ _ ih1 ih2 => exact ih1.trans ih2

theorem uinv_init (values : List Nat) : UInv values [] (UF.init values) := by
  refine ⟨?_, ?_, ?_, ?_, ?_⟩
  · intro v; rw [parentOf_init]; by_cases h : v ∈ values <;> simp [h]
  · intro v p h; rw [parentOf_init] at h; split at h <;> cases h
  · intro v p h; rw [parentOf_init] at h; split at h <;> cases h
  · intro a b h; cases h
  · intro a b h; cases h

theorem uinv_findNode {values : List Nat} {pairs : List (Nat × Nat)} {u u' : UF} {v r : Nat}
    (hi : UInv values pairs u) (h : u.findNode v = some (u', r)) : UInv values pairs u' := by
  obtain ⟨_, _, _, k, pl, _, l, rt⟩ := findNode_spec hi.parentLt h
  refine ⟨fun w => (k w).trans (hi.keys w), pl, ?_, ?_, hi.pairKeys⟩
  · intro w p hp
    rcases l w p hp with h | h
    · exact hi.sound w p h
    · exact conn_rootOf hi.sound h
  · intro a b hab; rw [rt, rt]; exact hi.complete a b hab

theorem conn_iff_root {values : List Nat} {pairs : List (Nat × Nat)} {u : UF} (hi : UInv values pairs u)
    {x y : Nat} (hx : x ∈ values) (hy : y ∈ values) : Conn pairs x y ↔ u.root x = u.root y := by
  constructor
  · exact root_eq_of_conn hi.complete
  · intro h
    have h1 := conn_rootOf hi.sound (root_spec hi.parentLt ((hi.keys x).mpr hx))
    have h2 := conn_rootOf hi.sound (root_spec hi.parentLt ((hi.keys y).mpr hy))
    rw [h] at h1
    exact .trans h1 (.symm h2)

theorem link_root {u : UF} (hpl : u.ParentLt) {yr xr : Nat} (hy : u.parentOf yr = some none)
    (hx : u.parentOf xr = some none) (hlt : xr < yr) {w : Nat} (hw : u.parentOf w ≠ none) :
    (u.setParent yr (some xr)).root w = if u.root w = yr then xr else u.root w :=
  root_eq_of_rootOf (link_parentLt hpl (by simp [hy]) (by simp [hx]) hlt)
    (link_rootOf hy hx (by omega) (root_spec hpl hw))

/-- linking root `b` under the smaller root `a`, where `a`,`b` are the roots of the merged `x`,`y` -/
theorem uinv_link {values : List Nat} {pairs : List (Nat × Nat)} {u : UF} {x y a b : Nat}
    (hi : UInv values pairs u) (hx : x ∈ values) (hy : y ∈ values)
    (ha : u.root x = a ∨ u.root y = a) (hb : u.root x = b ∨ u.root y = b)
    (hab : u.root x = a ∧ u.root y = b ∨ u.root x = b ∧ u.root y = a) (hlt : a < b) :
    UInv values (pairs ++ [(x, y)]) (u.setParent b (some a)) := by
  have kx := (hi.keys x).mpr hx
  have ky := (hi.keys y).mpr hy
  have rx := root_spec hi.parentLt kx
  have ry := root_spec hi.parentLt ky
  have hra : u.parentOf a = some none := by
    rcases ha with e | e <;> rw [← e]
    · exact rootOf_isRoot rx
    · exact rootOf_isRoot ry
  have hrb : u.parentOf b = some none := by
    rcases hb with e | e <;> rw [← e]
    · exact rootOf_isRoot rx
    · exact rootOf_isRoot ry
  have hsub : ∀ e, e ∈ pairs → e ∈ pairs ++ [(x, y)] := fun e he => List.mem_append_left _ he
  have hedge : Conn (pairs ++ [(x, y)]) x y := .edge (by simp)
  have cx : Conn (pairs ++ [(x, y)]) x (u.root x) := conn_mono hsub (conn_rootOf hi.sound rx)
  have cy : Conn (pairs ++ [(x, y)]) y (u.root y) := conn_mono hsub (conn_rootOf hi.sound ry)
  have hpk : ∀ a' b', (a', b') ∈ pairs ++ [(x, y)] → a' ∈ values ∧ b' ∈ values := by
    intro a' b' h
    rcases List.mem_append.mp h with h | h
    · exact hi.pairKeys _ _ h
    · simp only [List.mem_singleton, Prod.mk.injEq] at h
      obtain ⟨rfl, rfl⟩ := h; exact ⟨hx, hy⟩
  refine ⟨fun w => (link_keys w).trans (hi.keys w),
    link_parentLt hi.parentLt (by simp [hrb]) (by simp [hra]) hlt, ?_, ?_, hpk⟩
  · intro v p hp
    rw [parentOf_setParent] at hp
    by_cases hv : v = b
    · subst hv
      simp only [if_true, hrb, Option.map_some, Option.some.injEq] at hp
      subst hp
      rcases hab with ⟨e1, e2⟩ | ⟨e1, e2⟩
      · rw [e1] at cx; rw [e2] at cy
        exact .trans (.symm cy) (.trans (.symm hedge) cx)
      · rw [e1] at cx; rw [e2] at cy
        exact .trans (.symm cx) (.trans hedge cy)
    · simp only [hv, if_false] at hp
      exact conn_mono hsub (hi.sound v p hp)
  · intro a' b' h
    obtain ⟨ha', hb'⟩ := hpk a' b' h
    rw [link_root hi.parentLt hrb hra hlt ((hi.keys a').mpr ha'),
      link_root hi.parentLt hrb hra hlt ((hi.keys b').mpr hb')]
    rcases List.mem_append.mp h with h | h
    · rw [hi.complete _ _ h]
    · simp only [List.mem_singleton, Prod.mk.injEq] at h
      obtain ⟨rfl, rfl⟩ := h
      rcases hab with ⟨e1, e2⟩ | ⟨e1, e2⟩
      · rw [e1, e2]; simp
      · rw [e1, e2]; simp

theorem uinv_merge {values : List Nat} {pairs : List (Nat × Nat)} {u u' : UF} {x y : Nat}
    (hi : UInv values pairs u) (h : u.merge x y = some u') : UInv values (pairs ++ [(x, y)]) u' := by
  unfold UF.merge at h
  split at h
  · cases h
  · split at h
    · cases h
    · rename_i u1 xr h1
      split at h
      · cases h
      · rename_i u2 yr h2
        have i1 := uinv_findNode hi h1
        have i2 := uinv_findNode i1 h2
        obtain ⟨kx, ex, _, _, _, _, _, rt1⟩ := findNode_spec hi.parentLt h1
        obtain ⟨ky, ey, _, _, _, _, _, rt2⟩ := findNode_spec i1.parentLt h2
        have hx : x ∈ values := (hi.keys x).mp kx
        have hy : y ∈ values := (i1.keys y).mp ky
        have e1 : u2.root x = xr := by rw [rt2, rt1, ex]
        have e2 : u2.root y = yr := by rw [rt2, ey]
        split at h
        · rename_i heq
          cases h
          refine ⟨i2.keys, i2.parentLt, ?_, ?_, ?_⟩
          · intro v p hp
            exact conn_mono (fun e he => List.mem_append_left _ he) (i2.sound v p hp)
          · intro a b hab
            rcases List.mem_append.mp hab with hab | hab
            · exact i2.complete _ _ hab
            · simp only [List.mem_singleton, Prod.mk.injEq] at hab
              obtain ⟨rfl, rfl⟩ := hab
              rw [e1, e2, heq]
          · intro a b hab
            rcases List.mem_append.mp hab with hab | hab
            · exact i2.pairKeys _ _ hab
            · simp only [List.mem_singleton, Prod.mk.injEq] at hab
              obtain ⟨rfl, rfl⟩ := hab; exact ⟨hx, hy⟩
        · rename_i hne
          split at h
          · rename_i hlt
            cases h
            exact uinv_link i2 hx hy (Or.inl e1) (Or.inr e2) (Or.inl ⟨e1, e2⟩) hlt
          · rename_i hnlt
            cases h
            exact uinv_link i2 hx hy (Or.inr e2) (Or.inl e1) (Or.inr ⟨e1, e2⟩) (by omega)

/-! ### histories -/

theorem uinv_step {values : List Nat} {pairs : List (Nat × Nat)} {u : UF} (hi : UInv values pairs u)
    (op : UOp) : UInv values (pairs ++ UF.mergedPairs u [op]) (u.step op).1 := by
  cases op with
  | merge x y =>
    simp only [UF.step, UF.mergedPairs]
    cases h : u.merge x y with
    | none => simpa using hi
    | some u' => exact uinv_merge hi h
  | find x =>
    simp only [UF.step, UF.mergedPairs, UF.find, List.append_nil]
    cases h : u.findNode x with
    | none => exact hi
    | some r => obtain ⟨u', r⟩ := r; exact uinv_findNode hi h

theorem uinv_exec {values : List Nat} {pairs : List (Nat × Nat)} {u : UF} (hi : UInv values pairs u)
    (ops : List UOp) : UInv values (pairs ++ UF.mergedPairs u ops) (UF.exec u ops) := by
  induction ops generalizing u pairs with
  | nil => simpa [UF.mergedPairs, UF.exec] using hi
  | cons op ops ih =>
    have h1 := uinv_step hi op
    have h2 := ih h1
    cases op with
    | merge x y =>
      simp only [UF.step, UF.mergedPairs, UF.exec] at h1 h2 ⊢
      cases h : u.merge x y with
      | none => simpa [h] using h2
      | some u' => simpa [h, List.append_assoc] using h2
    | find x =>
      simpa [UF.mergedPairs, UF.exec] using h2

/-- the answer of `find` under the invariant -/
theorem find_spec {values : List Nat} {pairs : List (Nat × Nat)} {u u' : UF} {x r : Nat}
    (hi : UInv values pairs u) (h : u.find x = some (u', r)) :
    x ∈ values ∧ r ∈ values ∧ r = u.root x ∧ Conn pairs x r ∧ (∀ y, y ∈ values → Conn pairs x y → r ≤ y) ∧
      UInv values pairs u' := by
  have hi' := uinv_findNode hi h
  obtain ⟨kx, ex, hr, _, _, _, _, _⟩ := findNode_spec hi.parentLt h
  have hx := (hi.keys x).mp kx
  have hrk : r ∈ values := (hi.keys r).mp (by simp [rootOf_isRoot hr])
  refine ⟨hx, hrk, ex, conn_rootOf hi.sound hr, ?_, hi'⟩
  intro y hy hc
  have := (conn_iff_root hi hx hy).mp hc
  rw [ex, this]
  exact rootOf_le hi.parentLt (root_spec hi.parentLt ((hi.keys y).mpr hy))

theorem find_none_iff {values : List Nat} {pairs : List (Nat × Nat)} {u : UF} {x : Nat}
    (hi : UInv values pairs u) : u.find x = none ↔ x ∉ values := by
  rw [← hi.keys x]
  unfold UF.find UF.findNode
  cases u.parentOf x <;> simp

/-! ### the fuel bound never cuts a loop short -/

theorem cnt_setParent (u : UF) (v : Nat) (p : Option Nat) (w : Nat) : (u.setParent v p).cnt w = u.cnt w := by
  obtain ⟨nodes⟩ := u
  simp only [UF.cnt, UF.setParent, List.countP_map]
  congr 1
  funext e
  simp only [Function.comp]
  by_cases h : e.1 = v
  · simp [h]
  · have : (e.1 == v) = false := by simpa using h
    simp [this]

theorem rootFuel_stable {u : UF} (hpl : u.ParentLt) {v : Nat} (hk : u.parentOf v ≠ none) (fuel : Nat)
    (hf : u.cnt v < fuel) : u.rootFuel fuel v = u.root v :=
  rootOf_det (rootFuel_spec hpl fuel v hk hf) (root_spec hpl hk)

theorem compressFuel_stable {u : UF} (hpl : u.ParentLt) {r v : Nat} (hv : u.RootOf v r) (fuel : Nat)
    (hf : u.cnt v < fuel) : u.compressFuel r (fuel + 1) v = u.compressFuel r fuel v := by
  induction fuel generalizing u v with
  | zero => omega
  | succ fuel ih =>
    rw [UF.compressFuel]
    conv => rhs; rw [UF.compressFuel]
    cases hp : u.parentOf v with
    | none => rfl
    | some z =>
      cases z with
      | none => rfl
      | some p =>
        have hnr : v ≠ r := by
          intro e; subst e
          rw [rootOf_isRoot hv] at hp; cases hp
        have hpr : u.RootOf p r := by
          cases hv with
          | root h => rw [h] at hp; cases hp
          | step hs h => rw [hs] at hp; cases hp; exact h
        have ⟨hlt, hkp⟩ := hpl v p hp
        have := cnt_lt_cnt hlt hkp
        exact ih (hang_parentLt hpl hv hnr) (hang_rootOf hv hnr hpr) (by rw [cnt_setParent]; omega)

theorem compressFuel_stable' {u : UF} (hpl : u.ParentLt) {r v : Nat} (hv : u.RootOf v r) (k : Nat) :
    u.compressFuel r (u.nodes.length + k) v = u.compressFuel r u.nodes.length v := by
  induction k with
  | zero => rfl
  | succ k ih =>
    rw [← ih, ← Nat.add_assoc]
    exact compressFuel_stable hpl hv _ (by have := cnt_lt_length (rootOf_isKey hv); omega)

theorem merge_parentLt {u u' : UF} {x y : Nat} (hpl : u.ParentLt) (h : u.merge x y = some u') :
    u'.ParentLt := by
  unfold UF.merge at h
  split at h
  · cases h
  · split at h
    · cases h
    · rename_i u1 xr h1
      split at h
      · cases h
      · rename_i u2 yr h2
        obtain ⟨_, _, rx, _, pl1, rr1, _, _⟩ := findNode_spec hpl h1
        obtain ⟨_, _, ry, _, pl2, rr2, _, _⟩ := findNode_spec pl1 h2
        have kx : u2.parentOf xr = some none := rootOf_isRoot (rr2 _ _ (rr1 _ _ rx))
        have ky : u2.parentOf yr = some none := rootOf_isRoot (rr2 _ _ ry)
        split at h
        · cases h; exact pl2
        · split at h
          · rename_i hlt; cases h
            exact link_parentLt pl2 (by simp [ky]) (by simp [kx]) hlt
          · cases h
            exact link_parentLt pl2 (by simp [kx]) (by simp [ky]) (by omega)

theorem findNode_none_iff {u : UF} {x : Nat} : u.findNode x = none ↔ u.parentOf x = none := by
  unfold UF.findNode
  cases u.parentOf x <;> simp

/-- `merge` raises exactly on `x = y` (assertion) or an unknown value (KeyError) -/
theorem merge_none_iff {values : List Nat} {pairs : List (Nat × Nat)} {u : UF} {x y : Nat}
    (hi : UInv values pairs u) : u.merge x y = none ↔ (x = y ∨ x ∉ values ∨ y ∉ values) := by
  unfold UF.merge
  by_cases hxy : x = y
  · simp [hxy]
  · rw [if_neg hxy]
    cases h1 : u.findNode x with
    | none =>
      have : x ∉ values := fun hx => (hi.keys x).mpr hx (findNode_none_iff.mp h1)
      simp [this]
    | some p1 =>
      obtain ⟨u1, xr⟩ := p1
      have i1 := uinv_findNode hi h1
      have hx : x ∈ values := (hi.keys x).mp (findNode_spec hi.parentLt h1).1
      cases h2 : u1.findNode y with
      | none =>
        have : y ∉ values := fun hy => (i1.keys y).mpr hy (findNode_none_iff.mp h2)
        simp [this, h2]
      | some p2 =>
        obtain ⟨u2, yr⟩ := p2
        have hy : y ∈ values := (i1.keys y).mp (findNode_spec i1.parentLt h2).1
        simp only [hxy, hx, hy, not_true_eq_false, or_self, iff_false]
        by_cases e : xr = yr
        · simp [e, h2]
        · by_cases l : xr < yr <;> simp [e, l, h2]

theorem ufrun_length (u : UF) (ops : List UOp) : (UF.run u ops).length = ops.length := by
  induction ops generalizing u with
  | nil => rfl
  | cons op ops ih => simp [UF.run, ih]

theorem ufrun_getElem (u : UF) (ops : List UOp) (k : Nat) (hk : k < ops.length) :
    (UF.run u ops)[k]'(by rw [ufrun_length]; exact hk) = ((UF.exec u (ops.take k)).step ops[k]).2 := by
  induction ops generalizing u k with
  | nil => simp at hk
  | cons op ops ih =>
    cases k with
    | zero => simp [UF.run, UF.exec]
    | succ k =>
      simp only [UF.run, List.getElem_cons_succ, List.take_succ_cons, UF.exec]
      exact ih _ k (by simpa using hk)

end WhVerif.C18

import WhVerif.Model.C06
import WhVerif.Lemmas.C06Locate
/-! Lemmas for the window lemma: slices, prefix lengths of the two halves of a split inside an M block. -/
namespace WhVerif.C06

/-- `l[a : a+n]` -/
def slice {α} (l : List α) (a n : Nat) : List α := (l.drop a).take n

theorem slice_slice {α} (l : List α) (a m u n : Nat) (h : u + n ≤ m) :
    slice (slice l a m) u n = slice l (a + u) n := by
  unfold slice
  rw [List.drop_take, List.take_take, List.drop_drop]
  congr 1; omega

theorem pySlice_nat {α} (l : List α) (a b : Nat) : pySlice l (a : Int) (b : Int) = slice l a (b - a) := by
  unfold pySlice slice
  have ha : ¬ ((a : Int) < 0) := by omega
  have hb : ¬ ((b : Int) < 0) := by omega
  simp only [ha, hb, if_false]
  by_cases h1 : a ≤ l.length
  · have e1 : (min (a : Int) (l.length : Int)).toNat = a := by omega
    by_cases h2 : b ≤ l.length
    · have e2 : (min (b : Int) (l.length : Int) - min (a : Int) (l.length : Int)).toNat = b - a := by omega
      rw [e1, e2]
    · have e2 : (min (b : Int) (l.length : Int) - min (a : Int) (l.length : Int)).toNat = l.length - a := by omega
      rw [e1, e2, List.take_of_length_le (by simp), List.take_of_length_le (by simp; omega)]
  · have e1 : (min (a : Int) (l.length : Int)).toNat = l.length := by omega
    rw [e1, List.drop_of_length_le (Nat.le_refl _), List.drop_of_length_le (by omega)]
    simp

def isClip (p : Nat × Nat) : Bool := p.1 == 4 || p.1 == 5

/-- only clips left: the walk runs to the end of the list -/
theorem prefixGo_clips (f : Bool) (k rp qp : Nat) (c : Cigar) (hc : c.all isClip = true) :
    prefixGo f k rp qp c = if rp < k then .ok (rp, qp) else .error .assertion := by
  induction c with
  | nil => simp [prefixGo]
  | cons x rest ih =>
    obtain ⟨op, len⟩ := x
    simp only [List.all_cons, Bool.and_eq_true] at hc
    have h45 : (op == 4 || op == 5) = true := hc.1
    have hm : isMatch op = false := by
      simp only [Bool.or_eq_true, beq_iff_eq] at h45
      rcases h45 with rfl | rfl <;> decide
    have h1 : (op == 1) = false := by
      simp only [Bool.or_eq_true, beq_iff_eq] at h45
      rcases h45 with rfl | rfl <;> decide
    have h2 : (op == 2) = false := by
      simp only [Bool.or_eq_true, beq_iff_eq] at h45
      rcases h45 with rfl | rfl <;> decide
    simp [prefixGo, hm, h1, h2, h45, ih hc.2]

theorem all_reverse {α} (p : α → Bool) (l : List α) : l.reverse.all p = l.all p := by
  simp [List.all_eq_true]

/-- prefix length of (rest of an M block of length `d`) followed by `X`, where either the block is long enough or `X`
is only clips: `min k d` reference and query bases -/
theorem prefix_block (f : Bool) (mop d k : Nat) (X : Cigar) (hm : isMatch mop = true) (hk : 0 < k)
    (hreach : k ≤ d ∨ X.all isClip = true) :
    cigarPrefixLength f ((if d > 0 then [(mop, d)] else []) ++ X) k = .ok (min k d, min k d) := by
  unfold cigarPrefixLength
  by_cases hd : d > 0
  · simp only [hd, if_true, List.singleton_append, prefixGo, hm]
    by_cases hge : k ≤ d
    · have : 0 + d ≥ k := by omega
      simp only [this, if_true]
      congr 2 <;> omega
    · have : ¬ (0 + d ≥ k) := by omega
      have hX : X.all isClip = true := by rcases hreach with h | h; exact absurd h hge; exact h
      simp only [this, if_false, prefixGo_clips f k (0 + d) (0 + d) X hX]
      have : 0 + d < k := by omega
      simp only [this, if_true]
      congr 2 <;> omega
  · have hd0 : d = 0 := by omega
    have hX : X.all isClip = true := by rcases hreach with h | h; omega; exact h
    subst hd0
    simp [prefixGo_clips f k 0 0 X hX, hk]

theorem getElem?_append_length {α} (A B : List α) (x : α) : (A ++ x :: B)[A.length]? = some x := by
  simp

theorem take_append_length {α} (A B : List α) : (A ++ B).take A.length = A := by simp
theorem drop_append_length_succ {α} (A B : List α) (x : α) : (A ++ x :: B).drop (A.length + 1) = B := by
  have : A ++ x :: B = (A ++ [x]) ++ B := by simp
  rw [this]
  have e : A.length + 1 = (A ++ [x]).length := by simp
  rw [e, List.drop_left]

/-- a position strictly inside (not at the first base of) an M block is located in that block -/
theorem locate_in_block (A B : Cigar) (mop m p i rp qp : Nat) (hm : isMatch mop = true)
    (hin : rp + refLen A < p ∧ p < rp + refLen A + m) :
    locate p i rp qp (A ++ (mop, m) :: B) = some (i + A.length, p - (rp + refLen A), qp + qLen A + (p - (rp + refLen A))) := by
  induction A generalizing i rp qp with
  | nil =>
    simp only [refLen, Nat.add_zero] at hin
    have : rp ≤ p ∧ p < rp + m := by omega
    simp [locate, hm, this, refLen, qLen]
  | cons x rest ih =>
    obtain ⟨op, l⟩ := x
    simp only [refLen] at hin
    simp only [List.cons_append]
    have hstep : locate p i rp qp ((op, l) :: (rest ++ (mop, m) :: B)) =
        locate p (i + 1) (rp + (if consumesRef op then l else 0)) (qp + (if consumesQuery op then l else 0))
          (rest ++ (mop, m) :: B) := by
      by_cases hr : consumesRef op = true
      · simp only [hr, if_true] at hin
        exact locate_step p i rp qp op l _ (by omega) (by omega) (by omega) (by omega)
      · have hr' : consumesRef op = false := by simpa using hr
        have hmm : ¬ isMatch op = true := by intro hm; simp [consumesRef, hm] at hr'
        have h2 : op ≠ 2 := by intro e; subst e; simp [consumesRef] at hr'
        have h3 : op ≠ 3 := by intro e; subst e; simp [consumesRef] at hr'
        simp only [hr', Bool.false_eq_true, if_false, Nat.zero_add] at hin
        exact locate_step p i rp qp op l _ (fun h => hmm h.1) (by omega) (fun h => h2 h.1) (fun h => h3 h.1)
    rw [hstep]
    rw [ih (i + 1) _ _ (by omega)]
    simp only [refLen, qLen, List.length_cons]
    congr 2
    · omega
    · congr 1
      · omega
      · omega

/-- a slice of a haplotype (reference with allele `a` substituted for the `L` bases at `pos`) that starts left of the
variant and ends right of it -/
theorem slice_hap {α} (R a : List α) (pos L x rw : Nat) (hx : x ≤ pos) (hpos : pos ≤ R.length) (ha : a.length ≤ rw) :
    slice (R.take pos ++ a ++ R.drop (pos + L)) x ((pos - x) + rw) =
      slice R x (pos - x) ++ a ++ slice R (pos + L) (rw - a.length) := by
  unfold slice
  have hlen : (R.take pos).length = pos := by simp; omega
  rw [List.append_assoc, List.drop_append_of_le_length (by omega)]
  have hU : (List.drop x (List.take pos R)).length = pos - x := by simp; omega
  rw [List.take_append, hU]
  have e1 : pos - x + rw - (pos - x) = rw := by omega
  rw [e1, List.take_of_length_le (by omega), List.drop_take]
  rw [List.take_append, List.take_of_length_le ha, List.append_assoc]

theorem ref_decomp {α} (R ref : List α) (pos : Nat) (hR : slice R pos ref.length = ref) :
    R = R.take pos ++ ref ++ R.drop (pos + ref.length) := by
  unfold slice at hR
  conv => lhs; rw [← List.take_append_drop pos R, ← List.take_append_drop ref.length (List.drop pos R), hR, List.drop_drop]
  simp [List.append_assoc]

end WhVerif.C06

import WhVerif.Model.C19Edit
import WhVerif.Lemmas.C19Lev
/-!
# The row DP of `edit_distance` against `lev`

`D sv tv i j = lev (sv.take i) (tv.take j)`.  `inner_spec` turns the inner loop into cell recurrences;
`colB_inv` shows one banded column preserves the band invariant

  in-band cells are upper bounds of `D` and exact where `D ≤ e`; cells above the band still hold `i`

(the cell below the band is the stale value of the previous column and is handled inside the proof);
`outerB_post` adds the early exit (a column whose in-band cells all exceed `e` forces `lev > e`);
the unbanded loop is the banded one with `e = m + n`.
-/
namespace WhVerif.C19
open WhVerif.C19.Spec

/-! ## list plumbing -/

theorem getD_set (l : List Nat) (i x v : Nat) :
    (l.set i v).getD x 0 = if x = i ∧ i < l.length then v else l.getD x 0 := by
  simp only [List.getD_eq_getElem?_getD, List.getElem?_set]
  by_cases h : i = x
  · subst h
    by_cases h2 : i < l.length
    · simp [h2]
    · simp [h2]
  · have : ¬ x = i := fun h' => h h'.symm
    simp [h, this]

theorem getD_range (n i : Nat) (h : i < n) : (List.range n).getD i 0 = i := by
  simp [List.getD_eq_getElem?_getD, h]

theorem take_succ_getD (l : List Nat) (i : Nat) (h : i < l.length) :
    l.take (i + 1) = l.take i ++ [l.getD i 0] := by
  rw [List.take_succ_eq_append_getElem h]
  simp [List.getD_eq_getElem?_getD, h]

/-! ## the table `D` -/

def D (sv tv : List Nat) (i j : Nat) : Nat := lev (sv.take i) (tv.take j)

def mism (sv tv : List Nat) (i j : Nat) : Nat := if sv.getD (i - 1) 0 = tv.getD (j - 1) 0 then 0 else 1

theorem mism_le (sv tv : List Nat) (i j : Nat) : mism sv tv i j ≤ 1 := by
  unfold mism; split <;> omega

theorem D_zero_left (sv tv : List Nat) (j : Nat) (hj : j ≤ tv.length) : D sv tv 0 j = j := by
  simp [D, Nat.min_eq_left hj]

theorem D_zero_right (sv tv : List Nat) (i : Nat) (hi : i ≤ sv.length) : D sv tv i 0 = i := by
  simp [D, Nat.min_eq_left hi]

theorem D_cell (sv tv : List Nat) (i j : Nat) (hi1 : 1 ≤ i) (hi : i ≤ sv.length) (hj1 : 1 ≤ j) (hj : j ≤ tv.length) :
    D sv tv i j = min (D sv tv (i - 1) (j - 1) + mism sv tv i j)
      (min (D sv tv (i - 1) j + 1) (D sv tv i (j - 1) + 1)) := by
  obtain ⟨i', rfl⟩ : ∃ i', i = i' + 1 := ⟨i - 1, by omega⟩
  obtain ⟨j', rfl⟩ : ∃ j', j = j' + 1 := ⟨j - 1, by omega⟩
  have hs := take_succ_getD sv i' (by omega)
  have ht := take_succ_getD tv j' (by omega)
  simp only [D, mism, Nat.add_sub_cancel, hs, ht]
  exact lev_snoc_snoc _ _ _ _

theorem D_ge_left (sv tv : List Nat) (i j : Nat) (hi : i ≤ sv.length) (hj : j ≤ tv.length) :
    i ≤ D sv tv i j + j := by
  have := lev_ge_left (sv.take i) (tv.take j)
  simp only [List.length_take] at this
  unfold D; omega

theorem D_ge_right (sv tv : List Nat) (i j : Nat) (hi : i ≤ sv.length) (hj : j ≤ tv.length) :
    j ≤ D sv tv i j + i := by
  have := lev_ge_right (sv.take i) (tv.take j)
  simp only [List.length_take] at this
  unfold D; omega

theorem D_le_max (sv tv : List Nat) (i j : Nat) (hi : i ≤ sv.length) (hj : j ≤ tv.length) :
    D sv tv i j ≤ max i j := by
  have := lev_le_max (sv.take i) (tv.take j)
  simp only [List.length_take] at this
  unfold D; omega

/-- a column all of whose cells exceed `e` forces the next column to exceed `e` -/
theorem D_col_mono (sv tv : List Nat) (m e j : Nat) (hm : m ≤ sv.length) (hj : j + 1 ≤ tv.length)
    (h : ∀ i, i ≤ m → e < D sv tv i j) : ∀ i, i ≤ m → e < D sv tv i (j + 1) := by
  intro i
  induction i with
  | zero =>
    intro _
    have h0 := h 0 (by omega)
    rw [D_zero_left _ _ _ (by omega)] at h0
    rw [D_zero_left _ _ _ hj]; omega
  | succ i ih =>
    intro hi
    have c := D_cell sv tv (i + 1) (j + 1) (by omega) (by omega) (by omega) hj
    simp only [Nat.add_sub_cancel] at c
    have h1 := h i (by omega)
    have h2 := h (i + 1) hi
    have h3 := ih (by omega)
    omega

theorem D_col_mono' (sv tv : List Nat) (m e j : Nat) (hm : m ≤ sv.length)
    (h : ∀ i, i ≤ m → e < D sv tv i j) : ∀ k, j + k ≤ tv.length → ∀ i, i ≤ m → e < D sv tv i (j + k) := by
  intro k
  induction k with
  | zero => intro _; simpa using h
  | succ k ih =>
    intro hk
    have := D_col_mono sv tv m e (j + k) hm (by omega) (ih (by omega))
    simpa [Nat.add_assoc] using this

/-! ## the inner loop as cell recurrences -/

theorem inner_spec (sv tv : List Nat) (j : Nat) :
    ∀ (cnt i : Nat) (costs : List Nat) (prev smallest : Nat), 1 ≤ i → i + cnt ≤ costs.length →
      (inner sv tv j cnt i costs prev smallest).1.length = costs.length ∧
      (∀ x, x < i ∨ i + cnt ≤ x → (inner sv tv j cnt i costs prev smallest).1.getD x 0 = costs.getD x 0) ∧
      (∀ x, i ≤ x → x < i + cnt →
        (inner sv tv j cnt i costs prev smallest).1.getD x 0 =
          min ((if x = i then prev else costs.getD (x - 1) 0) + mism sv tv x j)
            (min (costs.getD x 0 + 1) ((inner sv tv j cnt i costs prev smallest).1.getD (x - 1) 0 + 1))) ∧
      (inner sv tv j cnt i costs prev smallest).2 ≤ smallest ∧
      (∀ x, i ≤ x → x < i + cnt →
        (inner sv tv j cnt i costs prev smallest).2 ≤ (inner sv tv j cnt i costs prev smallest).1.getD x 0) := by
  intro cnt
  induction cnt with
  | zero =>
    intro i costs prev smallest _ _
    refine ⟨rfl, fun _ _ => rfl, ?_, Nat.le_refl _, ?_⟩ <;> (intro x h1 h2; omega)
  | succ cnt ih =>
    intro i costs prev smallest hi hlen
    simp only [inner]
    generalize hc : min (prev + (if sv.getD (i - 1) 0 = tv.getD (j - 1) 0 then 0 else 1))
      (min (costs.getD i 0 + 1) (costs.getD (i - 1) 0 + 1)) = c
    have hlen' : i + 1 + cnt ≤ (costs.set i c).length := by simp; omega
    obtain ⟨h1, h2, h3, h4, h5⟩ := ih (i + 1) (costs.set i c) (costs.getD i 0) (min smallest c) (by omega) hlen'
    have hset : ∀ x, (costs.set i c).getD x 0 = if x = i then c else costs.getD x 0 := by
      intro x; rw [getD_set]
      by_cases hx : x = i
      · simp [hx]; omega
      · simp [hx]
    refine ⟨by simpa using h1, ?_, ?_, by omega, ?_⟩
    · intro x hx
      rw [h2 x (by omega), hset]
      have : ¬ x = i := by omega
      simp [this]
    · intro x hx1 hx2
      by_cases hxi : x = i
      · subst hxi
        rw [h2 x (by omega), h2 (x - 1) (by omega), hset, hset]
        have : ¬ x - 1 = x := by omega
        simp only [if_true, this, if_false]
        rw [← hc]; rfl
      · rw [h3 x (by omega) (by omega), hset, hset]
        have e1 : ¬ x - 1 = i ∨ x = i + 1 := by omega
        simp only [hxi, if_false]
        by_cases hx1' : x = i + 1
        · subst hx1'; simp
        · have : ¬ x - 1 = i := by omega
          simp [hx1', this]
    · intro x hx1 hx2
      by_cases hxi : x = i
      · subst hxi
        rw [h2 x (by omega), hset]
        simp only [if_true]
        omega
      · exact h5 x (by omega) (by omega)

theorem inner_fst_indep (sv tv : List Nat) (j : Nat) :
    ∀ (cnt i : Nat) (costs : List Nat) (prev s1 s2 : Nat),
      (inner sv tv j cnt i costs prev s1).1 = (inner sv tv j cnt i costs prev s2).1 := by
  intro cnt
  induction cnt with
  | zero => intros; rfl
  | succ cnt ih => intro i costs prev s1 s2; simp only [inner]; exact ih _ _ _ _ _

/-! ## the band invariant -/

/-- `v` approximates the true value `d`: never below, exact when `d ≤ e` -/
def Ok (e v d : Nat) : Prop := d ≤ v ∧ (d ≤ e → v = d)

structure Inv (sv tv : List Nat) (m e j : Nat) (costs : List Nat) : Prop where
  len : costs.length = m + 1
  band : ∀ i, i ≤ m → i ≤ j + e → j ≤ i + e → Ok e (costs.getD i 0) (D sv tv i j)
  above : ∀ i, i ≤ m → j + e < i → costs.getD i 0 = i

theorem inv_init (sv tv : List Nat) (m e : Nat) (hm : m ≤ sv.length) :
    Inv sv tv m e 0 (List.range (m + 1)) where
  len := by simp
  band := by
    intro i hi _ _
    rw [getD_range _ _ (by omega), D_zero_right _ _ _ (by omega)]
    exact ⟨Nat.le_refl _, fun _ => rfl⟩
  above := by intro i hi _; exact getD_range _ _ (by omega)

/-- arithmetic core of one cell -/
theorem cell_ok (e d A B C δ p u l : Nat)
    (hd : d = min (A + δ) (min (C + 1) (B + 1)))
    (hp : A ≤ p) (hp' : A ≤ e → p = A)
    (hu : d ≤ u + 1) (hu' : B + 1 ≤ e → u = B)
    (hl : d ≤ l + 1) (hl' : C + 1 ≤ e → l = C) :
    Ok e (min (p + δ) (min (u + 1) (l + 1))) d := by
  unfold Ok
  omega

/-- one banded column -/
theorem colB_inv (sv tv : List Nat) (m n e j : Nat) (costs : List Nat)
    (hm : m ≤ sv.length) (hn : n ≤ tv.length) (hj1 : 1 ≤ j) (hjn : j ≤ n) (hjm : j ≤ m + e)
    (inv : Inv sv tv m e (j - 1) costs) :
    Inv sv tv m e j (colB sv tv m e j costs).1 ∧
    (∀ i, i ≤ m → i ≤ j + e → j ≤ i + e → (colB sv tv m e j costs).2 ≤ (colB sv tv m e j costs).1.getD i 0) := by
  have hlen := inv.len
  -- facts about the previous column used for every cell
  have hP : ∀ x, 1 ≤ x → x ≤ m → x ≤ j + e → j ≤ x + e →
      Ok e (costs.getD (x - 1) 0) (D sv tv (x - 1) (j - 1)) := by
    intro x h1 h2 h3 h4
    exact inv.band (x - 1) (by omega) (by omega) (by omega)
  have hU : ∀ x, 1 ≤ x → x ≤ m → x ≤ j + e → j ≤ x + e →
      D sv tv x j ≤ costs.getD x 0 + 1 ∧ (D sv tv x (j - 1) + 1 ≤ e → costs.getD x 0 = D sv tv x (j - 1)) := by
    intro x h1 h2 h3 h4
    have c := D_cell sv tv x j h1 (by omega) hj1 (by omega)
    by_cases hb : x ≤ j - 1 + e
    · have ok := inv.band x h2 hb (by omega)
      unfold Ok at ok
      constructor
      · omega
      · intro h; exact ok.2 (by omega)
    · have hs := inv.above x h2 (by omega)
      have g := D_ge_left sv tv x (j - 1) (by omega) (by omega)
      have mx := D_le_max sv tv x j (by omega) (by omega)
      constructor
      · omega
      · intro h; omega
  unfold colB
  by_cases hje : j ≤ e
  · -- cell 0 is updated, start = 1
    simp only [hje, if_true]
    have h00 := inv.band 0 (by omega) (by omega) (by omega)
    rw [D_zero_left _ _ _ (by omega)] at h00
    have hc0 : costs.getD 0 0 = j - 1 := h00.2 (by omega)
    generalize hstop : min (j + e + 1) (m + 1) = stop
    generalize hc1 : costs.set 0 (costs.getD 0 0 + 1) = costs1
    have hset : ∀ x, costs1.getD x 0 = if x = 0 then j else costs.getD x 0 := by
      intro x; rw [← hc1, getD_set]
      by_cases hx : x = 0
      · have h0 : 0 < costs.length := by omega
        subst hx
        simp only [h0, and_self, if_true]; omega
      · simp [hx]
    have hlen1 : costs1.length = m + 1 := by rw [← hc1]; simpa using hlen
    obtain ⟨s1, s2, s3, s4, s5⟩ :=
      inner_spec sv tv j (stop - 1) 1 costs1 (costs.getD 0 0) (costs1.getD 0 0) (by omega) (by omega)
    generalize hr : inner sv tv j (stop - 1) 1 costs1 (costs.getD 0 0) (costs1.getD 0 0) = r at s1 s2 s3 s4 s5
    have hr0 : r.1.getD 0 0 = j := by rw [s2 0 (by omega), hset]; simp
    have key : ∀ x, x ≤ m → x ≤ j + e → Ok e (r.1.getD x 0) (D sv tv x j) := by
      intro x
      induction x with
      | zero =>
        intro _ _
        rw [hr0, D_zero_left _ _ _ (by omega)]
        exact ⟨Nat.le_refl _, fun _ => rfl⟩
      | succ x ih =>
        intro h2 h3
        have ihx := ih (by omega) (by omega)
        rw [s3 (x + 1) (by omega) (by omega)]
        have c := D_cell sv tv (x + 1) j (by omega) (by omega) hj1 (by omega)
        have p := hP (x + 1) (by omega) h2 h3 (by omega)
        have u := hU (x + 1) (by omega) h2 h3 (by omega)
        have hold : (if x + 1 = 1 then costs.getD 0 0 else costs1.getD (x + 1 - 1) 0) = costs.getD (x + 1 - 1) 0 := by
          by_cases hx0 : x = 0
          · subst hx0; simp
          · rw [hset]; simp [hx0]
        have hnew : costs1.getD (x + 1) 0 = costs.getD (x + 1) 0 := by rw [hset]; simp
        rw [hold, hnew]
        simp only [Nat.add_sub_cancel] at *
        unfold Ok at ihx p
        exact cell_ok e _ _ _ _ _ _ _ _ c p.1 p.2 u.1 u.2 (by omega) (by intro h; exact ihx.2 (by omega))
    refine ⟨⟨by rw [s1, hlen1], fun i h1 h2 _ => key i h1 h2, ?_⟩, ?_⟩
    · intro i h1 h2
      rw [s2 i (by omega), hset]
      have : ¬ i = 0 := by omega
      simp only [this, if_false]
      exact inv.above i h1 (by omega)
    · intro i h1 h2 _
      by_cases hi0 : i = 0
      · subst hi0; rw [hr0]; rw [hset] at s4; simpa using s4
      · exact s5 i (by omega) (by omega)
  · -- start = j - e, cell start-1 is stale
    simp only [hje, if_false]
    generalize hstop : min (j + e + 1) (m + 1) = stop
    obtain ⟨s1, s2, s3, s4, s5⟩ :=
      inner_spec sv tv j (stop - (j - e)) (j - e) costs (costs.getD (j - e - 1) 0) (e + 1) (by omega) (by omega)
    generalize hr : inner sv tv j (stop - (j - e)) (j - e) costs (costs.getD (j - e - 1) 0) (e + 1) = r at s1 s2 s3 s4 s5
    have key : ∀ k, j - e + k ≤ m → k ≤ 2 * e → Ok e (r.1.getD (j - e + k) 0) (D sv tv (j - e + k) j) := by
      intro k
      induction k with
      | zero =>
        intro h2 _
        simp only [Nat.add_zero] at *
        rw [s3 (j - e) (by omega) (by omega)]
        simp only [if_true]
        rw [s2 (j - e - 1) (by omega)]
        have c := D_cell sv tv (j - e) j (by omega) (by omega) hj1 (by omega)
        have p := hP (j - e) (by omega) h2 (by omega) (by omega)
        have u := hU (j - e) (by omega) h2 (by omega) (by omega)
        have g := D_ge_right sv tv (j - e - 1) j (by omega) (by omega)
        have ml := mism_le sv tv (j - e) j
        unfold Ok at p
        exact cell_ok e _ _ _ _ _ _ _ _ c p.1 p.2 u.1 u.2 (by omega) (by intro h; omega)
      | succ k ih =>
        intro h2 h3
        have ihx := ih (by omega) (by omega)
        have hx : j - e + (k + 1) = (j - e + k) + 1 := by omega
        rw [hx] at h2 ⊢
        rw [s3 (j - e + k + 1) (by omega) (by omega)]
        have c := D_cell sv tv (j - e + k + 1) j (by omega) (by omega) hj1 (by omega)
        have p := hP (j - e + k + 1) (by omega) h2 (by omega) (by omega)
        have u := hU (j - e + k + 1) (by omega) h2 (by omega) (by omega)
        have hne : ¬ j - e + k + 1 = j - e := by omega
        simp only [hne, if_false, Nat.add_sub_cancel] at *
        unfold Ok at ihx p
        exact cell_ok e _ _ _ _ _ _ _ _ c p.1 p.2 u.1 u.2 (by omega) (by intro h; exact ihx.2 (by omega))
    refine ⟨⟨by rw [s1, hlen], ?_, ?_⟩, ?_⟩
    · intro i h1 h2 h3
      have := key (i - (j - e)) (by omega) (by omega)
      have hi : j - e + (i - (j - e)) = i := by omega
      rwa [hi] at this
    · intro i h1 h2
      rw [s2 i (by omega)]
      exact inv.above i h1 (by omega)
    · intro i h1 h2 h3
      exact s5 i (by omega) (by omega)

/-! ## the banded outer loop with its early exit -/

theorem col_exceeds (sv tv : List Nat) (m n e j : Nat) (costs : List Nat) (smallest : Nat)
    (hm : m ≤ sv.length) (hn : n ≤ tv.length) (hjn : j ≤ n)
    (inv : Inv sv tv m e j costs)
    (hs : ∀ i, i ≤ m → i ≤ j + e → j ≤ i + e → smallest ≤ costs.getD i 0)
    (hbig : e < smallest) : e < D sv tv m n := by
  have hcol : ∀ i, i ≤ m → e < D sv tv i j := by
    intro i hi
    by_cases hb : i ≤ j + e ∧ j ≤ i + e
    · have ok := inv.band i hi hb.1 hb.2
      have := hs i hi hb.1 hb.2
      unfold Ok at ok
      by_cases hd : D sv tv i j ≤ e
      · have := ok.2 hd; omega
      · omega
    · have g1 := D_ge_left sv tv i j (by omega) (by omega)
      have g2 := D_ge_right sv tv i j (by omega) (by omega)
      omega
  have := D_col_mono' sv tv m e j hm hcol (n - j) (by omega) m (Nat.le_refl _)
  have hj : j + (n - j) = n := by omega
  rwa [hj] at this

theorem outerB_post (sv tv : List Nat) (m n e : Nat) (hm : m ≤ sv.length) (hn : n ≤ tv.length)
    (hnm : n ≤ m + e) :
    ∀ (cnt j : Nat) (costs : List Nat) (smallest : Nat), 1 ≤ j → j + cnt = n + 1 → smallest ≤ e →
      Inv sv tv m e (j - 1) costs →
      (e < (outerB sv tv m e cnt j costs smallest).2 → e < D sv tv m n) ∧
      ((outerB sv tv m e cnt j costs smallest).2 ≤ e → Inv sv tv m e n (outerB sv tv m e cnt j costs smallest).1) := by
  intro cnt
  induction cnt with
  | zero =>
    intro j costs smallest hj1 hj hs inv
    simp only [outerB]
    have : j - 1 = n := by omega
    rw [this] at inv
    exact ⟨fun h => by omega, fun _ => inv⟩
  | succ cnt ih =>
    intro j costs smallest hj1 hj hs inv
    simp only [outerB]
    obtain ⟨inv', hsm⟩ := colB_inv sv tv m n e j costs hm hn hj1 (by omega) (by omega) inv
    by_cases hbig : (colB sv tv m e j costs).2 > e
    · simp only [hbig, if_true]
      exact ⟨fun _ => col_exceeds sv tv m n e j _ _ hm hn (by omega) inv' hsm hbig, fun h => by omega⟩
    · simp only [hbig, if_false]
      exact ih (j + 1) _ _ (by omega) (by omega) (by omega) (by simpa using inv')

/-- the banded DP: exact when the distance is within the band, larger than the band otherwise -/
theorem dpB_spec (sv tv : List Nat) (m n e : Nat) (hm : m ≤ sv.length) (hn : n ≤ tv.length)
    (hnm : n ≤ m + e) (hmn : m ≤ n + e) :
    (D sv tv m n ≤ e → dpB sv tv m n e = D sv tv m n) ∧ (e < D sv tv m n → e < dpB sv tv m n e) := by
  obtain ⟨p1, p2⟩ := outerB_post sv tv m n e hm hn hnm n 1 (List.range (m + 1)) 0 (by omega) (by omega) (by omega)
    (inv_init sv tv m e hm)
  unfold dpB
  simp only
  by_cases hbig : (outerB sv tv m e n 1 (List.range (m + 1)) 0).2 > e
  · rw [if_pos hbig]
    have := p1 hbig
    exact ⟨fun h => by omega, fun _ => hbig⟩
  · rw [if_neg hbig]
    have inv := p2 (by omega)
    have ok := inv.band m (Nat.le_refl _) hmn hnm
    unfold Ok at ok
    exact ⟨fun h => ok.2 h, fun h => by omega⟩

/-! ## the unbanded loop = banded loop with `e = m + n` -/

theorem colU_eq_colB (sv tv : List Nat) (m e j : Nat) (costs : List Nat) (hj : j ≤ e) (hme : m ≤ e) :
    colU sv tv m j costs = (colB sv tv m e j costs).1 := by
  unfold colU colB
  have h1 : min (j + e + 1) (m + 1) = m + 1 := by omega
  simp only [hj, if_true, h1, Nat.add_sub_cancel]
  exact inner_fst_indep _ _ _ _ _ _ _ _ _

theorem outerU_inv (sv tv : List Nat) (m n : Nat) (hm : m ≤ sv.length) (hn : n ≤ tv.length) :
    ∀ (cnt j : Nat) (costs : List Nat), 1 ≤ j → j + cnt = n + 1 →
      Inv sv tv m (m + n) (j - 1) costs → Inv sv tv m (m + n) n (outerU sv tv m cnt j costs) := by
  intro cnt
  induction cnt with
  | zero =>
    intro j costs hj1 hj inv
    simp only [outerU]
    have : j - 1 = n := by omega
    rwa [this] at inv
  | succ cnt ih =>
    intro j costs hj1 hj inv
    simp only [outerU]
    rw [colU_eq_colB sv tv m (m + n) j costs (by omega) (by omega)]
    have := (colB_inv sv tv m n (m + n) j costs hm hn hj1 (by omega) (by omega) inv).1
    exact ih (j + 1) _ (by omega) (by omega) (by simpa using this)

theorem dpU_spec (sv tv : List Nat) (m n : Nat) (hm : m ≤ sv.length) (hn : n ≤ tv.length) :
    dpU sv tv m n = D sv tv m n := by
  have inv := outerU_inv sv tv m n hm hn n 1 (List.range (m + 1)) (by omega) (by omega) (inv_init sv tv m (m + n) hm)
  have ok := inv.band m (Nat.le_refl _) (by omega) (by omega)
  have mx := D_le_max sv tv m n hm hn
  unfold Ok at ok
  unfold dpU
  exact ok.2 (by omega)

/-! ## trimming -/

theorem trimPrefix_lev (s t : List Nat) : lev (trimPrefix s t).1 (trimPrefix s t).2 = lev s t := by
  induction s generalizing t with
  | nil => simp [trimPrefix]
  | cons a s ih =>
    cases t with
    | nil => simp [trimPrefix]
    | cons b t =>
      simp only [trimPrefix]
      by_cases hab : a = b
      · subst hab; simp only [if_true]; rw [ih, lev_cons_same]
      · simp [hab]

theorem trimPrefix_len (s t : List Nat) :
    (trimPrefix s t).1.length + t.length = (trimPrefix s t).2.length + s.length := by
  induction s generalizing t with
  | nil => simp [trimPrefix]
  | cons a s ih =>
    cases t with
    | nil => simp [trimPrefix]
    | cons b t =>
      simp only [trimPrefix]
      by_cases hab : a = b
      · subst hab; simp only [if_true, List.length_cons]; have := ih t; omega
      · simp [hab]; omega

theorem trimSuffix_spec (sv tv : List Nat) :
    ∀ (m n : Nat), m ≤ sv.length → n ≤ tv.length →
      (trimSuffix sv tv m n).1 ≤ m ∧ (trimSuffix sv tv m n).2 ≤ n ∧
      (trimSuffix sv tv m n).1 + n = (trimSuffix sv tv m n).2 + m ∧
      D sv tv (trimSuffix sv tv m n).1 (trimSuffix sv tv m n).2 = D sv tv m n := by
  intro m
  induction m with
  | zero => intro n _ _; simp [trimSuffix]
  | succ m ih =>
    intro n hm hn
    cases n with
    | zero => simp [trimSuffix]
    | succ n =>
      simp only [trimSuffix]
      by_cases h : sv.getD m 0 = tv.getD n 0
      · simp only [h, if_true]
        obtain ⟨a1, a2, a3, a4⟩ := ih n (by omega) (by omega)
        refine ⟨by omega, by omega, by omega, ?_⟩
        rw [a4]
        unfold D
        rw [take_succ_getD sv m (by omega), take_succ_getD tv n (by omega), h, lev_snoc_same]
      · rw [if_neg h]; simp; omega

theorem absDiff_le_lev (s t : List Nat) : absDiff s.length t.length ≤ lev s t := by
  have := lev_ge_left s t
  have := lev_ge_right s t
  unfold absDiff; split <;> omega

/-- what is left after both trimming loops -/
theorem trimmed_spec (s t : List Nat) :
    let p := trimPrefix s t
    let mn := trimSuffix p.1 p.2 p.1.length p.2.length
    mn.1 ≤ p.1.length ∧ mn.2 ≤ p.2.length ∧ mn.1 + t.length = mn.2 + s.length ∧
      D p.1 p.2 mn.1 mn.2 = lev s t := by
  intro p mn
  obtain ⟨a1, a2, a3, a4⟩ := trimSuffix_spec p.1 p.2 p.1.length p.2.length (Nat.le_refl _) (Nat.le_refl _)
  have hl := trimPrefix_len s t
  refine ⟨a1, a2, ?_, ?_⟩
  · show (trimSuffix p.1 p.2 p.1.length p.2.length).1 + t.length = (trimSuffix p.1 p.2 p.1.length p.2.length).2 + s.length
    have : p.1.length + t.length = p.2.length + s.length := hl
    omega
  · show D p.1 p.2 (trimSuffix p.1 p.2 p.1.length p.2.length).1 (trimSuffix p.1 p.2 p.1.length p.2.length).2 = lev s t
    rw [a4]
    unfold D
    rw [List.take_length, List.take_length]
    exact trimPrefix_lev s t

end WhVerif.C19

import WhVerif.Lemmas.C10Acc
/-! C10: exchanging two haplotypes of a phase set -/
namespace WhVerif.C10

theorem swapIdx_invol (i j k : Nat) : swapIdx i j (swapIdx i j k) = k := by
  unfold swapIdx; split <;> split <;> (try split) <;> omega

theorem swapIdx_lt {i j k n : Nat} (hi : i < n) (hj : j < n) (hk : k < n) : swapIdx i j k < n := by
  unfold swapIdx; split <;> (try split) <;> omega

theorem length_swapAt (l : List Nat) (i j : Nat) : (swapAt l i j).length = l.length := by simp [swapAt]

theorem getElem_swapAt (l : List Nat) {i j k : Nat} (hi : i < l.length) (hj : j < l.length)
    (hk : k < (swapAt l i j).length) :
    (swapAt l i j)[k] = l[swapIdx i j k]'(swapIdx_lt hi hj (by simpa [swapAt] using hk)) := by
  simp only [swapAt, List.getElem_mapIdx, swapIdx]
  split
  · simp [hj]
  · split
    · simp [hi]
    · rfl

theorem getElem?_swapAt (l : List Nat) {i j : Nat} (hi : i < l.length) (hj : j < l.length) (k : Nat) :
    (swapAt l i j)[k]? = l[swapIdx i j k]? := by
  by_cases hk : k < l.length
  · have hk' : k < (swapAt l i j).length := by simpa [swapAt] using hk
    rw [List.getElem?_eq_getElem hk', getElem_swapAt l hi hj hk',
      List.getElem?_eq_getElem (swapIdx_lt hi hj hk)]
  · have h1 : (swapAt l i j)[k]? = none := by simp [swapAt]; omega
    have h2 : swapIdx i j k = k := by unfold swapIdx; split <;> (try split) <;> omega
    rw [h1, h2]; simp; omega

theorem mem_swapAt (l : List Nat) {i j : Nat} (hi : i < l.length) (hj : j < l.length) (x : Nat) :
    x ∈ swapAt l i j ↔ x ∈ l := by
  constructor
  · intro h
    obtain ⟨k, hk, he⟩ := List.mem_iff_getElem.1 h
    rw [getElem_swapAt l hi hj hk] at he
    exact he ▸ List.getElem_mem _
  · intro h
    obtain ⟨k, hk, he⟩ := List.mem_iff_getElem.1 h
    have hk' : swapIdx i j k < (swapAt l i j).length := by
      rw [length_swapAt]; exact swapIdx_lt hi hj hk
    have := getElem_swapAt l hi hj hk'
    simp only [swapIdx_invol] at this
    rw [he] at this
    exact this ▸ List.getElem_mem _

theorem listMax_swapAt (l : List Nat) {i j : Nat} (hi : i < l.length) (hj : j < l.length) :
    listMax (swapAt l i j) = listMax l := listMax_eq_of_mem_iff (mem_swapAt l hi hj)

theorem contains_swapAt (l : List Nat) {i j : Nat} (hi : i < l.length) (hj : j < l.length) (a : Nat) :
    (swapAt l i j).contains a = l.contains a := by
  have := mem_swapAt l hi hj a
  by_cases h : a ∈ l <;> simp [h, this]

theorem swapAt_replicate (n i j : Nat) : swapAt (List.replicate n 0) i j = List.replicate n 0 := by
  have h0 : ∀ m : Nat, (List.replicate n 0)[m]?.getD 0 = 0 := by
    intro m; simp only [List.getElem?_replicate]; split <;> rfl
  apply List.ext_getElem (by simp [swapAt])
  intro k h1 h2
  simp only [swapAt, List.getElem_mapIdx, List.getElem_replicate, h0]
  split
  · rfl
  · split <;> rfl

theorem bump_swapAt (s ph : List Nat) (a q : Nat) {i j : Nat} (hl : s.length = ph.length)
    (hi : i < s.length) (hj : j < s.length) :
    bump (swapAt s i j) (swapAt ph i j) a q = swapAt (bump s ph a q) i j := by
  apply List.ext_getElem (by simp [length_bump, length_swapAt])
  intro k h1 h2
  have hk : k < s.length := by simpa [length_bump, length_swapAt] using h1
  rw [getElem_bump, getElem_swapAt s hi hj, getElem?_swapAt ph (hl ▸ hi) (hl ▸ hj),
    getElem_swapAt (bump s ph a q) (by simpa [length_bump] using hi) (by simpa [length_bump] using hj), getElem_bump]

/-- exchange within one entry of the score table / phase information -/
def swapEntry (P : Int) (i j : Nat) (e : Int × List Nat) : Int × List Nat :=
  if e.1 = P then (e.1, swapAt e.2 i j) else e

def swapScores (P : Int) (i j : Nat) (sc : Scores) : Scores := sc.map (swapEntry P i j)

theorem swapEntry_fst (P : Int) (i j : Nat) (e : Int × List Nat) : (swapEntry P i j e).1 = e.1 := by
  unfold swapEntry; split <;> rfl

theorem lookup_swapPhase (P : Int) (i j : Nat) (info : PhaseInfo) (pos : Nat) :
    (swapPhase P i j info).lookup pos = (info.lookup pos).map (swapEntry P i j) := by
  induction info with
  | nil => simp [swapPhase, List.lookup]
  | cons e rest ih =>
    obtain ⟨p, ps, ph⟩ := e
    have ih' : List.lookup pos (List.map (fun e => if e.2.1 = P then (e.1, e.2.1, swapAt e.2.2 i j) else e) rest)
        = (rest.lookup pos).map (swapEntry P i j) := ih
    by_cases hps : ps = P
    · cases hb : (pos == p) <;> simp [swapPhase, List.lookup, hps, hb, swapEntry, ih']
    · cases hb : (pos == p) <;> simp [swapPhase, List.lookup, hps, hb, swapEntry, ih']

theorem touch_swap (ploidy : Nat) (P ps : Int) (ph : List Nat) (a q : Nat) {i j : Nat} (sc : Scores)
    (hi : i < ploidy) (hj : j < ploidy) (hph : ph.length = ploidy) (hlen : ∀ e ∈ sc, e.2.length = ploidy) :
    touch ploidy ps (swapEntry P i j (ps, ph)).2 a q (swapScores P i j sc) =
      swapScores P i j (touch ploidy ps ph a q sc) := by
  induction sc with
  | nil =>
    by_cases hps : ps = P
    · have h := bump_swapAt (List.replicate ploidy 0) ph a q (i := i) (j := j) (by simp [hph]) (by simpa using hi)
        (by simpa using hj)
      rw [swapAt_replicate] at h
      simp [touch, swapScores, swapEntry, hps, h]
    · simp [touch, swapScores, swapEntry, hps]
  | cons x rest ih =>
    obtain ⟨p, s⟩ := x
    have hs : s.length = ploidy := hlen (p, s) List.mem_cons_self
    have ih' := ih (fun e he => hlen e (List.mem_cons_of_mem _ he))
    by_cases hp : p = ps
    · subst hp
      by_cases hps : p = P
      · have h := bump_swapAt s ph a q (i := i) (j := j) (by omega) (by omega) (by omega)
        simp [touch, swapScores, swapEntry, hps, h]
      · simp [touch, swapScores, swapEntry, hps]
    · have e1 : (swapEntry P i j (p, s)).1 = p := swapEntry_fst _ _ _ _
      simp only [swapScores, List.map_cons] at ih' ⊢
      simp only [touch, hp, if_false, List.map_cons]
      rcases hx : swapEntry P i j (p, s) with ⟨p', s'⟩
      have : p' = p := by simpa [hx] using e1
      subst this
      simp only [hp, if_false]
      rw [ih']

theorem step_swap (ploidy : Nat) (P : Int) {i j : Nat} (info : PhaseInfo) (sc : Scores) (v : RV)
    (hi : i < ploidy) (hj : j < ploidy) (hinfo : ∀ e ∈ info, e.2.2.length = ploidy)
    (hlen : ∀ e ∈ sc, e.2.length = ploidy) :
    step ploidy (swapPhase P i j info) (swapScores P i j sc) v =
      (step ploidy info sc v).map (swapScores P i j) := by
  unfold step
  by_cases ha : 2 ≤ v.allele
  · simp [ha, Except.map]
  simp only [ha, if_false, lookup_swapPhase]
  cases hl : info.lookup v.pos with
  | none => simp [Except.map]
  | some e =>
    obtain ⟨ps, ph⟩ := e
    have hmem : (v.pos, (ps, ph)) ∈ info := by
      clear hinfo
      induction info with
      | nil => simp [List.lookup] at hl
      | cons x rest ih =>
        obtain ⟨p, y⟩ := x
        simp only [List.lookup_cons] at hl
        cases hb : (v.pos == p) with
        | true => rw [hb] at hl; simp at hl hb; subst hl hb; exact List.mem_cons_self
        | false => rw [hb] at hl; exact List.mem_cons_of_mem _ (ih hl)
    have hph : ph.length = ploidy := hinfo _ hmem
    have hts := touch_swap ploidy P ps ph v.allele v.qual sc hi hj hph hlen
    have hc : (swapEntry P i j (ps, ph)).2.contains v.allele = ph.contains v.allele := by
      unfold swapEntry
      split
      · exact contains_swapAt ph (by omega) (by omega) _
      · rfl
    have e1 : (swapEntry P i j (ps, ph)).1 = ps := swapEntry_fst _ _ _ _
    simp only [Option.map_some, Except.map]
    rcases hx : swapEntry P i j (ps, ph) with ⟨ps', ph'⟩
    simp only [hx] at hc hts e1
    subst e1
    simp only [hc]
    split
    · rw [hts]
    · rfl

theorem accumulate_swap (ploidy : Nat) (P : Int) {i j : Nat} (info : PhaseInfo) (sc : Scores) (rvs : List RV)
    (hi : i < ploidy) (hj : j < ploidy) (hinfo : ∀ e ∈ info, e.2.2.length = ploidy)
    (hlen : ∀ e ∈ sc, e.2.length = ploidy) :
    accumulate ploidy (swapPhase P i j info) (swapScores P i j sc) rvs =
      (accumulate ploidy info sc rvs).map (swapScores P i j) := by
  induction rvs generalizing sc with
  | nil => simp [accumulate, Except.map]
  | cons v vs ih =>
    simp only [accumulate, step_swap ploidy P info sc v hi hj hinfo hlen]
    cases hs : step ploidy info sc v with
    | error e => simp [Except.map]
    | ok sc1 =>
      simp only [Except.map]
      apply ih
      unfold step at hs
      by_cases ha : 2 ≤ v.allele
      · simp [ha] at hs
      simp only [ha, if_false] at hs
      cases hl : info.lookup v.pos with
      | none => simp [hl] at hs
      | some e =>
        simp only [hl] at hs
        injection hs with hs
        subst hs
        split
        · exact length_touch _ _ _ _ _ _ hlen
        · exact hlen

theorem pickSet_swap (P : Int) {i j ploidy : Nat} (sc : Scores) (hi : i < ploidy) (hj : j < ploidy)
    (hlen : ∀ e ∈ sc, e.2.length = ploidy) :
    pickSet (swapScores P i j sc) = (pickSet sc).map (swapEntry P i j) := by
  have hmax : ∀ e : Int × List Nat, e.2.length = ploidy → listMax (swapEntry P i j e).2 = listMax e.2 := by
    intro e he
    unfold swapEntry
    split
    · exact listMax_swapAt e.2 (by omega) (by omega)
    · rfl
  induction sc with
  | nil => simp [swapScores, pickSet]
  | cons x rest ih =>
    have ih' := ih (fun e he => hlen e (List.mem_cons_of_mem _ he))
    simp only [swapScores, List.map_cons, pickSet] at ih' ⊢
    rw [ih']
    cases hr : pickSet rest with
    | none => simp
    | some b =>
      have hb : b.2.length = ploidy := hlen b (List.mem_cons_of_mem _ (pickSet_spec hr).1)
      simp only [Option.map_some, hmax x (hlen x List.mem_cons_self), hmax b hb]
      split <;> rfl

theorem strictBest_swap {s : List Nat} {h q i j : Nat} (hi : i < s.length) (hj : j < s.length)
    (hb : StrictBest s h q) : StrictBest (swapAt s i j) (swapIdx i j h) q := by
  obtain ⟨hq, hh, ha, k, hk, hkne, hke⟩ := hb
  have hlen := length_swapAt s i j
  refine ⟨hq, by rw [hlen]; exact swapIdx_lt hi hj hh, ?_, swapIdx i j k, by rw [hlen]; exact swapIdx_lt hi hj hk, ?_, ?_⟩
  · intro m hm hmne
    rw [getElem_swapAt s hi hj hm, getElem_swapAt s hi hj]
    simp only [swapIdx_invol]
    apply ha
    intro e
    apply hmne
    rw [← e, swapIdx_invol]
  · intro e
    apply hkne
    have := congrArg (swapIdx i j) e
    simpa [swapIdx_invol] using this
  · rw [getElem_swapAt s hi hj, getElem_swapAt s hi hj]
    simpa [swapIdx_invol] using hke

theorem tie_swap {s : List Nat} {i j : Nat} (hi : i < s.length) (hj : j < s.length) (ht : Tie s) :
    Tie (swapAt s i j) := by
  obtain ⟨h, k, hh, hk, hne, heq, hall⟩ := ht
  have hlen := length_swapAt s i j
  refine ⟨swapIdx i j h, swapIdx i j k, by rw [hlen]; exact swapIdx_lt hi hj hh,
    by rw [hlen]; exact swapIdx_lt hi hj hk, ?_, ?_, ?_⟩
  · intro e
    apply hne
    have := congrArg (swapIdx i j) e
    simpa [swapIdx_invol] using this
  · rw [getElem_swapAt s hi hj, getElem_swapAt s hi hj]
    simpa [swapIdx_invol] using heq
  · intro m hm
    rw [getElem_swapAt s hi hj hm, getElem_swapAt s hi hj]
    simp only [swapIdx_invol]
    exact hall _ _

theorem decideScores_swap (ps : Int) {s : List Nat} {i j : Nat} (hi : i < s.length) (hj : j < s.length) :
    decideScores ps (swapAt s i j) =
      match decideScores ps s with
      | .tagged h q p => .tagged (swapIdx i j h) q p
      | d => d := by
  cases hd : decideScores ps s with
  | tagged h q p =>
    obtain ⟨hp, hb⟩ := decideScores_tagged hd
    subst hp
    exact decideScores_of_strictBest (strictBest_swap hi hj hb)
  | untagged =>
    exact decideScores_untagged_iff.2 (tie_swap hi hj (decideScores_untagged_iff.1 hd))
  | error e =>
    obtain ⟨h1, h2⟩ := decideScores_error_iff.1 hd
    exact decideScores_error_iff.2 ⟨by rw [length_swapAt]; exact h1, h2⟩

end WhVerif.C10

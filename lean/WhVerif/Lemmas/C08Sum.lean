import WhVerif.Model.C08
import WhVerif.Spec.C08
import Mathlib.Algebra.BigOperators.Group.Finset.Basic
import Mathlib.Algebra.BigOperators.Ring.Finset
import Mathlib.Algebra.BigOperators.Group.List.Basic
import Mathlib.Algebra.BigOperators.Intervals
import Mathlib.Algebra.Field.Basic
import Mathlib.Tactic.Ring
import Mathlib.Tactic.FieldSimp
/-!
# C08 lemmas, part 1: the executable sums of the model/spec as `Finset`/`List` sums; tables.
-/
namespace WhVerif.C08
open Finset

section
variable {K : Type} [AddCommMonoid K]

theorem sumN_eq_sum (n : Nat) (f : Nat → K) : sumN n f = ∑ i ∈ range n, f i := by
  unfold sumN
  induction n with
  | zero => simp
  | succ n ih => rw [Nat.fold_succ, sum_range_succ, ← ih]

theorem foldl_add_eq {α : Type} (l : List α) (f : α → K) (x : K) :
    l.foldl (fun acc y => acc + f y) x = x + (l.map f).sum := by
  induction l generalizing x with
  | nil => simp
  | cons a l ih => simp [ih, add_assoc]

theorem sumL_eq_sum {α : Type} (l : List α) (f : α → K) : sumL l f = (l.map f).sum := by
  unfold sumL; rw [foldl_add_eq]; simp

theorem tblAt_mkTbl (n : Nat) (f : Nat → K) (i : Nat) : tblAt (mkTbl n f) i = if i < n then f i else 0 := by
  unfold tblAt mkTbl
  by_cases h : i < n <;> simp [Array.getD, h]

theorem tblAt_mkTbl_lt {n : Nat} (f : Nat → K) {i : Nat} (h : i < n) : tblAt (mkTbl n f) i = f i := by
  rw [tblAt_mkTbl, if_pos h]

theorem tblAt_empty (i : Nat) : tblAt (#[] : Array K) i = 0 := by
  simp [tblAt, Array.getD]

end

end WhVerif.C08

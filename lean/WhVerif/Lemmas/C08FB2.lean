import WhVerif.Lemmas.C08FB1
/-!
# C08 lemmas, part 7: the forward invariant.  Summing the per-bipartition forward quantities over all
bipartitions of the reads that have started equals summing the model's cells over the column indices.
-/
namespace WhVerif.C08
open Finset

variable {K : Type} [Field K] (F : Frame) (W : Weights K)

/-- emission × assignment prior of one cell -/
def EA (c idx : Nat) (s : Nat × Nat) : K :=
  W.emit c (bitsOf (F.col c).nAct idx) s.1 s.2 * W.asg c s.1 s.2

/-- the model's forward cell (unscaled) -/
def cellP (c idx : Nat) (s : Nat × Nat) : K :=
  cell W Scal.one c (F.col c) (prevTbl F W Scal.one c) idx s.1 s.2

/-- entry `(p, j)` of the forward projection column written by column `c` -/
def fwdV (c p j : Nat) : K := tblAt (fwdTbl F W Scal.one c) (p * W.nT + j)

theorem fwdTbl_eq (S : Scal K) (c : Nat) : fwdTbl F W S c = fwdStep F W S c (prevTbl F W S c) := by
  cases c <;> rfl

theorem stepI_none (c idx : Nat) (s : Nat × Nat) : stepI F W c none idx s = EA F W c idx s := by
  simp [stepI, EA, mul_assoc]

theorem stepI_some (c : Nat) (q : Nat × Nat) (idx : Nat) (s : Nat × Nat) :
    stepI F W c (some q) idx s = W.trans c q.1 s.1 * EA F W c idx s := by
  simp [stepI, EA, mul_assoc]

theorem cellP_zero (idx : Nat) (s : Nat × Nat) : cellP F W 0 idx s = EA F W 0 idx s := by
  simp [cellP, cell, sumPrev, EA, Scal.one, mul_assoc]

theorem cellP_succ (c idx : Nat) (s : Nat × Nat) :
    cellP F W (c + 1) idx s =
      (∑ j ∈ range W.nT, fwdV F W c (idx % 2 ^ (F.col (c + 1)).bwdW) j * W.trans (c + 1) j s.1) * EA F W (c + 1) idx s := by
  simp [cellP, cell, sumPrev_eq, prevTbl, EA, Scal.one, mul_assoc, fwdV]

theorem fwdV_eq (c : Nat) {p j : Nat} (hp : p < 2 ^ (F.shared c).length) (hj : j < W.nT) :
    fwdV F W c p j = ∑ idx ∈ range (2 ^ (F.col c).nAct),
      if gather (F.col c).fwdPos idx = p then ∑ a ∈ range W.nA, cellP F W c idx (j, a) else 0 := by
  unfold fwdV
  rw [fwdTbl_eq, fwdStep_at F W Scal.one c _ (by rw [Frame.col_fwdPos_length]; exact hp) hj]
  rfl

/-- sum over the states as a double sum -/
theorem sum_stF (f : Nat × Nat → K) : ∑ s ∈ W.stF, f s = ∑ t ∈ range W.nT, ∑ a ∈ range W.nA, f (t, a) := by
  unfold Weights.stF; rw [sum_product]

theorem mem_stF {s : Nat × Nat} : s ∈ W.stF ↔ s.1 < W.nT ∧ s.2 < W.nA := by
  simp [Weights.stF]

/-- pure rearrangement used in the forward step -/
theorem fwd_rearr (I : Finset Nat) (g : Nat → Nat) (p : Nat) (C : Nat → Nat × Nat → K) (T : Nat → Nat → K) (X : Nat × Nat → K) :
    ∑ s ∈ W.stF, (∑ j ∈ range W.nT, (∑ idx ∈ I, if g idx = p then ∑ a ∈ range W.nA, C idx (j, a) else 0) * T j s.1) * X s
      = ∑ idx ∈ I, if g idx = p then ∑ s' ∈ W.stF, C idx s' * ∑ s ∈ W.stF, T s'.1 s.1 * X s else 0 := by
  have h1 : ∀ s ∈ W.stF, (∑ j ∈ range W.nT, (∑ idx ∈ I, if g idx = p then ∑ a ∈ range W.nA, C idx (j, a) else 0) * T j s.1) * X s
      = ∑ idx ∈ I, if g idx = p then ∑ j ∈ range W.nT, (∑ a ∈ range W.nA, C idx (j, a)) * T j s.1 * X s else 0 := by
    intro s _
    rw [sum_mul]
    have : ∀ j ∈ range W.nT, (∑ idx ∈ I, if g idx = p then ∑ a ∈ range W.nA, C idx (j, a) else 0) * T j s.1 * X s
        = ∑ idx ∈ I, if g idx = p then (∑ a ∈ range W.nA, C idx (j, a)) * T j s.1 * X s else 0 := by
      intro j _
      rw [sum_mul, sum_mul]
      apply sum_congr rfl; intro idx _
      split <;> simp
    rw [sum_congr rfl this, sum_comm]
    apply sum_congr rfl; intro idx _
    split <;> simp
  rw [sum_congr rfl h1, sum_comm]
  apply sum_congr rfl; intro idx _
  by_cases h : g idx = p
  · simp only [h, if_true]
    rw [sum_stF (f := fun s' => C idx s' * ∑ s ∈ W.stF, T s'.1 s.1 * X s), sum_comm]
    apply sum_congr rfl; intro j _
    dsimp only
    rw [← sum_mul, mul_sum]
    apply sum_congr rfl; intro s _
    ring
  · simp [h]

/-- **forward invariant** -/
theorem fwd_invariant (hWF : F.WF) (c : Nat) (Φ : Nat → Nat × Nat → K) :
    ∑ lo ∈ range (2 ^ F.m c), ∑ s ∈ W.stF, fwP F W lo c s * Φ (gather (F.active c) lo) s
      = ∑ idx ∈ range (2 ^ (F.col c).nAct), ∑ s ∈ W.stF, cellP F W c idx s * Φ idx s := by
  induction c generalizing Φ with
  | zero =>
    rw [nAct_zero F hWF]
    apply sum_congr rfl; intro lo hlo; rw [mem_range] at hlo
    have hg : gather (F.active 0) lo = lo := by rw [Frame.active_zero hWF]; exact gather_range _ _ hlo
    apply sum_congr rfl; intro s _
    rw [hg]; simp only [fwP]; rw [stepW_eq_stepI, hg, cellP_zero, stepI_none]
  | succ c ih =>
    have hm := Frame.m_mono hWF c
    have hmk : F.m (c + 1) = F.m c + (F.m (c + 1) - F.m c) := by omega
    -- left side: split the bipartition into the old reads and the reads starting in column c+1
    have hL : ∑ lo ∈ range (2 ^ F.m (c + 1)), ∑ s ∈ W.stF, fwP F W lo (c + 1) s * Φ (gather (F.active (c + 1)) lo) s
        = ∑ new ∈ range (2 ^ (F.m (c + 1) - F.m c)), ∑ lo ∈ range (2 ^ F.m c), ∑ s' ∈ W.stF,
            fwP F W lo c s' * (∑ s ∈ W.stF, stepI F W (c + 1) (some s')
                (gather (F.col c).fwdPos (gather (F.active c) lo) + 2 ^ (F.shared c).length * new) s
              * Φ (gather (F.col c).fwdPos (gather (F.active c) lo) + 2 ^ (F.shared c).length * new) s) := by
      conv_lhs => rw [hmk]
      rw [sum_pow_split, sum_comm]
      apply sum_congr rfl; intro new hnew; rw [mem_range] at hnew
      apply sum_congr rfl; intro lo hlo; rw [mem_range] at hlo
      rw [Frame.fwdProj_colIdx, ← colIdx_succ F hWF c hlo hnew]
      have : ∀ s ∈ W.stF, fwP F W (lo + 2 ^ F.m c * new) (c + 1) s * Φ (gather (F.active (c + 1)) (lo + 2 ^ F.m c * new)) s
          = ∑ s' ∈ W.stF, fwP F W lo c s' * (stepI F W (c + 1) (some s') (gather (F.active (c + 1)) (lo + 2 ^ F.m c * new)) s
              * Φ (gather (F.active (c + 1)) (lo + 2 ^ F.m c * new)) s) := by
        intro s _
        simp only [fwP]
        rw [sum_mul]
        apply sum_congr rfl; intro s' _
        rw [fwP_lo F W hWF c hlo, stepW_eq_stepI]; ring
      rw [sum_congr rfl this, sum_comm]
      apply sum_congr rfl; intro s' _
      rw [mul_sum]
    rw [hL]
    -- induction hypothesis for every choice of the new reads' sides
    have hI : ∀ new ∈ range (2 ^ (F.m (c + 1) - F.m c)),
        ∑ lo ∈ range (2 ^ F.m c), ∑ s' ∈ W.stF,
            fwP F W lo c s' * (∑ s ∈ W.stF, stepI F W (c + 1) (some s')
                (gather (F.col c).fwdPos (gather (F.active c) lo) + 2 ^ (F.shared c).length * new) s
              * Φ (gather (F.col c).fwdPos (gather (F.active c) lo) + 2 ^ (F.shared c).length * new) s)
        = ∑ idx ∈ range (2 ^ (F.col c).nAct), ∑ s' ∈ W.stF,
            cellP F W c idx s' * (∑ s ∈ W.stF, stepI F W (c + 1) (some s')
                (gather (F.col c).fwdPos idx + 2 ^ (F.shared c).length * new) s
              * Φ (gather (F.col c).fwdPos idx + 2 ^ (F.shared c).length * new) s) := by
      intro new _
      exact ih (fun idx s' => ∑ s ∈ W.stF, stepI F W (c + 1) (some s')
                (gather (F.col c).fwdPos idx + 2 ^ (F.shared c).length * new) s
              * Φ (gather (F.col c).fwdPos idx + 2 ^ (F.shared c).length * new) s)
    rw [sum_congr rfl hI]
    -- right side
    rw [nAct_succ F hWF c, sum_pow_split]
    conv_rhs => rw [sum_comm]
    apply sum_congr rfl; intro new _
    -- regroup the left side by the forward projection of idx
    have hfib := sum_fiber (range (2 ^ (F.col c).nAct)) (2 ^ (F.shared c).length) (fun idx => gather (F.col c).fwdPos idx)
      (by intro idx _; have := gather_lt (F.col c).fwdPos idx; rwa [Frame.col_fwdPos_length] at this)
      (fun p idx => ∑ s' ∈ W.stF, cellP F W c idx s' * (∑ s ∈ W.stF, stepI F W (c + 1) (some s')
                (p + 2 ^ (F.shared c).length * new) s * Φ (p + 2 ^ (F.shared c).length * new) s))
    rw [← hfib]
    apply sum_congr rfl; intro p hp; rw [mem_range] at hp
    have hR : ∀ s ∈ W.stF, cellP F W (c + 1) (p + 2 ^ (F.shared c).length * new) s * Φ (p + 2 ^ (F.shared c).length * new) s
        = (∑ j ∈ range W.nT, (∑ idx ∈ range (2 ^ (F.col c).nAct),
              if gather (F.col c).fwdPos idx = p then ∑ a ∈ range W.nA, cellP F W c idx (j, a) else 0) * W.trans (c + 1) j s.1)
            * (EA F W (c + 1) (p + 2 ^ (F.shared c).length * new) s * Φ (p + 2 ^ (F.shared c).length * new) s) := by
      intro s _
      rw [cellP_succ, Frame.col_bwdW_succ, add_mul_mod_pow hp, mul_assoc]
      congr 1
      apply sum_congr rfl; intro j hj; rw [mem_range] at hj
      rw [fwdV_eq F W c hp hj]
    rw [sum_congr rfl hR, fwd_rearr]
    apply sum_congr rfl; intro idx _
    split
    · apply sum_congr rfl; intro s' _
      congr 1
      apply sum_congr rfl; intro s _
      rw [stepI_some]; ring
    · rfl

end WhVerif.C08

import WhVerif.Spec.C02
import WhVerif.Lemmas.C01Sys
/-!
# C02 lemmas, part 1: the column cost of an error-free instance

Under `ErrFree` the partition map is `[some (0,1)]`, the admissible assignments of every column are
`α = 1` (partition 0 carries ALT) and `α = 2` (partition 0 carries REF), both of genotype cost 0, and the
mismatch weight of `α` under a bipartition `β` is zero iff every covering read sits on the side
`src r != flipOf α (hap c)`.
-/
namespace WhVerif.C02
open WhVerif.C01 WhVerif.Cost

/-! ### cost algebra -/

theorem cadd_eq_zero {a b : Option Nat} (h : cadd a b = some 0) : a = some 0 ∧ b = some 0 := by
  cases a <;> cases b <;> simp [cadd] at h ⊢; omega

theorem popcount_zero : popcount 0 = 0 := by unfold popcount; simp

theorem costUpTo_zero_iff (I : Inst) (β : List Bool) (τ : List Nat) (n : Nat) :
    costUpTo I β τ n = some 0 ↔ ∀ c, c ≤ n → colTotal I β τ c = some 0 := by
  induction n with
  | zero =>
    simp only [costUpTo]
    constructor
    · intro h c hc; have : c = 0 := by omega
      subst this; exact h
    · intro h; exact h 0 (Nat.le_refl 0)
  | succ n ih =>
    simp only [costUpTo]
    constructor
    · intro h c hc
      have := cadd_eq_zero h
      by_cases hcn : c = n + 1
      · subst hcn; exact this.2
      · exact ih.mp this.1 c (by omega)
    · intro h
      rw [ih.mpr (fun c hc => h c (by omega)), h (n + 1) (Nat.le_refl _)]; rfl

theorem totalCost_zero_iff (I : Inst) (β : List Bool) (τ : List Nat) :
    totalCost I β τ = some 0 ↔ ∀ c, c < I.ncols → colTotal I β τ c = some 0 := by
  unfold totalCost
  by_cases h0 : I.ncols = 0
  · simp [h0]
  · simp only [h0, if_false, costUpTo_zero_iff]
    constructor
    · intro h c hc; exact h c (by omega)
    · intro h c hc; exact h c (by omega)

theorem sum_map_eq_zero {α} (l : List α) (f : α → Nat) : (l.map f).sum = 0 ↔ ∀ x ∈ l, f x = 0 := by
  induction l with
  | nil => simp
  | cons a l ih => simp [ih]

theorem zip_map_self {α β γ} (l : List α) (f : α → β) (g : α × β → γ) :
    ((l.zip (l.map f)).map g) = l.map (fun x => g (x, f x)) := by
  induction l with
  | nil => rfl
  | cons a l ih => simp [ih]

/-! ### the single-individual partition map and the heterozygous assignments -/

variable {I : Inst} {hap : Nat → Nat} {src : Nat → Bool}

theorem h2pMap_single (h : ErrFree I hap src) (t : Nat) : h2pMap I t = [some (0, 1)] := by
  simp [h2pMap, h2pRoots, h2pPass, iter, h.nind, h.trios, isChild, List.range_succ]

theorem assignments_het (h : ErrFree I hap src) (c t : Nat) (hc : c < I.ncols) :
    assignments I c t = [(1, 0), (2, 0)] := by
  have hr : List.range 4 = [0, 1, 2, 3] := by decide
  obtain ⟨g1, g0, g2⟩ := h.het c hc
  have b10 : bitOf 1 0 = 1 := by decide
  have b11 : bitOf 1 1 = 0 := by decide
  have b20 : bitOf 2 0 = 0 := by decide
  have b21 : bitOf 2 1 = 1 := by decide
  have b00 : bitOf 0 0 = 0 := by decide
  have b01 : bitOf 0 1 = 0 := by decide
  have b30 : bitOf 3 0 = 1 := by decide
  have b31 : bitOf 3 1 = 1 := by decide
  simp [assignments, assignCost, Inst.npart, h.nind, h.trios, h2pMap_single h, hr, h2pOf, List.range_succ,
    b10, b11, b20, b21, b00, b01, b30, b31, g0, g1, g2, cadd]

theorem colCost_het (h : ErrFree I hap src) (c t : Nat) (hc : c < I.ncols) (bs : List Bool) :
    colCost I c bs t = some (min (viewCost I c t 1 bs) (viewCost I c t 2 bs)) := by
  simp [colCost, assignments_het h c t hc, cmin]

/-- view cost of a restricted global bipartition, read by read -/
theorem viewCost_restrict (I : Inst) (c t α : Nat) (β : List Bool) :
    viewCost I c t α (restrict β (I.activeAt c))
      = ((I.activeAt c).map (fun r => readCost I c (h2pMap I t) α r (β.getD r false))).sum := by
  simp only [viewCost, restrict]
  rw [zip_map_self]

/-! ### entries of error-free reads -/

theorem entryAt_some (h : ErrFree I hap src) {r c al w : Nat} (hr : r < I.nreads)
    (he : (I.read r).entryAt c = some (al, w)) :
    (I.read r).first ≤ c ∧ c ≤ (I.read r).last ∧ c < I.ncols ∧ 0 < w ∧
      al = (if src r then 1 - hap c else hap c) := by
  unfold Read.entryAt at he
  cases hf : (I.read r).entries.find? (fun e => e.1 == c) with
  | none => rw [hf] at he; simp at he
  | some e =>
    rw [hf] at he
    have hm := List.mem_of_find?_eq_some hf
    have hp := List.find?_some hf
    simp only [beq_iff_eq] at hp
    simp only [Option.map_some, Option.some.injEq, Prod.mk.injEq] at he
    have := h.entries r hr e hm
    rw [hp, he.1, he.2] at this
    exact this

theorem covers_lt {r c : Nat} (hcov : covers I r c) : r < I.nreads := by
  apply Classical.byContradiction
  intro hn
  apply hcov
  have : I.read r = default := by
    simp only [Inst.read, Inst.nreads] at *
    rw [List.getD_eq_getElem?_getD, List.getElem?_eq_none (by omega)]; rfl
  rw [this]; rfl

theorem covers_active (h : ErrFree I hap src) {r c : Nat} (hcov : covers I r c) :
    r ∈ I.activeAt c ∧ c < I.ncols := by
  have hr := covers_lt hcov
  unfold covers at hcov
  cases he : (I.read r).entryAt c with
  | none => exact absurd he hcov
  | some e =>
    obtain ⟨al, w⟩ := e
    have := entryAt_some h hr he
    exact ⟨(mem_activeAt I c r).mpr ⟨hr, this.1, this.2.1⟩, this.2.2.1⟩

/-! ### zero mismatch weight -/

/-- `true` iff assignment `α` gives partition 0 the allele opposite to `x` -/
def flipOf (α x : Nat) : Bool := decide (bitOf α 0 ≠ x)

theorem bit_match (α x : Nat) (hα : α = 1 ∨ α = 2) (hx : x ≤ 1) (b s : Bool) :
    bitOf α (if b then 1 else 0) = (if s then 1 - x else x) ↔ b = (s != flipOf α x) := by
  have hx' : x = 0 ∨ x = 1 := by omega
  rcases hα with rfl | rfl <;> rcases hx' with rfl | rfl <;> cases b <;> cases s <;> decide

theorem readCost_zero_iff (h : ErrFree I hap src) {r c : Nat} (t α : Nat) (hα : α = 1 ∨ α = 2)
    (hcov : covers I r c) (b : Bool) :
    readCost I c (h2pMap I t) α r b = 0 ↔ b = (src r != flipOf α (hap c)) := by
  have hr := covers_lt hcov
  unfold covers at hcov
  cases he : (I.read r).entryAt c with
  | none => exact absurd he hcov
  | some e =>
    obtain ⟨al, w⟩ := e
    obtain ⟨_, _, hc, hw, hal⟩ := entryAt_some h hr he
    have hp : h2pOf [some (0, 1)] 0 (if b then 1 else 0) = (if b then 1 else 0) := by
      cases b <;> simp [h2pOf]
    simp only [readCost, he, h2pMap_single h, h.ind0 r hr, hp]
    rw [← bit_match α (hap c) hα (h.hap01 c hc) b (src r), ← hal]
    constructor
    · intro hz
      apply Classical.byContradiction
      intro hne
      simp [hne] at hz
      omega
    · intro heq; simp [heq]

theorem readCost_not_covers {r c : Nat} (hm : List (Option (Nat × Nat))) (α : Nat) (b : Bool)
    (hcov : ¬ covers I r c) : readCost I c hm α r b = 0 := by
  unfold covers at hcov
  simp only [ne_eq, Decidable.not_not] at hcov
  simp [readCost, hcov]

/-- the mismatch weight of a heterozygous assignment is zero iff every covering read sits on the side the
assignment dictates -/
theorem viewCost_zero_iff (h : ErrFree I hap src) (c t α : Nat) (hα : α = 1 ∨ α = 2) (β : List Bool) :
    viewCost I c t α (restrict β (I.activeAt c)) = 0 ↔
      ∀ r, covers I r c → β.getD r false = (src r != flipOf α (hap c)) := by
  rw [viewCost_restrict, sum_map_eq_zero]
  constructor
  · intro hz r hcov
    exact (readCost_zero_iff h t α hα hcov _).mp (hz r (covers_active h hcov).1)
  · intro hall r _
    by_cases hcov : covers I r c
    · exact (readCost_zero_iff h t α hα hcov _).mpr (hall r hcov)
    · exact readCost_not_covers _ α _ hcov

theorem flipOf_one_two (x : Nat) (hx : x ≤ 1) : flipOf 1 x = !flipOf 2 x := by
  have hx' : x = 0 ∨ x = 1 := by omega
  rcases hx' with rfl | rfl <;> decide

/-- zero column cost: one of the two heterozygous assignments has zero mismatch weight -/
theorem colCost_zero (h : ErrFree I hap src) (c t : Nat) (hc : c < I.ncols) (β : List Bool)
    (hz : colCost I c (restrict β (I.activeAt c)) t = some 0) :
    ∃ α, (α = 1 ∨ α = 2) ∧ viewCost I c t α (restrict β (I.activeAt c)) = 0 := by
  rw [colCost_het h c t hc] at hz
  simp only [Option.some.injEq] at hz
  by_cases h1 : viewCost I c t 1 (restrict β (I.activeAt c)) = 0
  · exact ⟨1, Or.inl rfl, h1⟩
  · refine ⟨2, Or.inr rfl, ?_⟩
    omega

theorem colTotal_zero_colCost {β : List Bool} {τ : List Nat} {c : Nat}
    (hz : colTotal I β τ c = some 0) : colCost I c (restrict β (I.activeAt c)) (τ.getD c 0) = some 0 :=
  (cadd_eq_zero hz).1

end WhVerif.C02

import WhVerif.Lemmas.C02PipelineComp
import WhVerif.Props.C09
/-!
# C02 pipeline, part 3: writer (C04, repaired) + reader (C09) on the output of solver + component stage

* `written_target`: the phase statement `C09.written` of the writer for the target built from super reads
  `(pos[c], a c)` and a component map: present iff the column's alleles are a heterozygous 0/1 pair and the
  position has a component;
* `readChrom_writeChrom`: reading back what `writeChrom` wrote (single sample, strictly increasing record positions)
  gives, per biallelic record, exactly `C09.written` at its position — for tag PS and tag HP.
-/
namespace WhVerif.C02P
open WhVerif.C04

/-! ### association lists -/

theorem alookup_eq_lookup {β} (l : List (Nat × β)) (p : Nat) : alookup l p = l.lookup p := by
  induction l with
  | nil => rfl
  | cons kv t ih =>
    obtain ⟨k, v⟩ := kv
    by_cases hk : k = p
    · subst hk; simp [alookup, List.lookup]
    · have : (p == k) = false := by simp; exact fun e => hk e.symm
      simp [alookup, List.lookup, hk, this, ih]

theorem alookup_of_mem {β} : ∀ (l : List (Nat × β)) (k : Nat) (v : β), (l.map (·.1)).Nodup → (k, v) ∈ l →
    alookup l k = some v
  | [], _, _, _, h => by cases h
  | (k', v') :: t, k, v, hnd, hmem => by
    simp only [List.map_cons, List.nodup_cons] at hnd
    by_cases hk : k' = k
    · subst hk
      rcases List.mem_cons.mp hmem with e | e
      · cases e; simp [alookup]
      · exact absurd (List.mem_map.mpr ⟨(k', v), e, rfl⟩) hnd.1
    · rcases List.mem_cons.mp hmem with e | e
      · cases e; exact absurd rfl hk
      · simp only [alookup, hk, if_false]; exact alookup_of_mem t k v hnd.2 e

theorem keys_sublist {α β} (f : α → Option (Nat × β)) (k : α → Nat) (hf : ∀ x y, f x = some y → y.1 = k x) :
    ∀ l : List α, ((l.filterMap f).map (·.1)).Sublist (l.map k)
  | [] => by simp
  | x :: t => by
    cases hx : f x with
    | none =>
      simp only [List.filterMap_cons, hx, List.map_cons]
      exact (keys_sublist f k hf t).cons _
    | some y =>
      simp only [List.filterMap_cons, hx, List.map_cons]
      rw [hf x y hx]
      exact (keys_sublist f k hf t).cons_cons _

/-! ### the writer's phase statement for the stage target -/

/-- super reads of the form `(pos[c], a c)` for the columns `0..n-1` -/
def srOf (pos : List Nat) (n : Nat) (a : Nat → Nat × Nat) : List (Nat × Nat × Nat) :=
  (List.range n).map fun c => (posAt pos c, (a c).1, (a c).2)

def phaseEntry (pos : List Nat) (a : Nat → Nat × Nat) (c : Nat) : Option (Nat × List Nat) :=
  if allowed false ((a c).1 : Int) && allowed false ((a c).2 : Int) then some (posAt pos c, [(a c).1, (a c).2]) else none

theorem phasesOf_target (s : String) (pos : List Nat) (n : Nat) (a : Nat → Nat × Nat) (comps : List (Nat × Nat)) :
    phasesOf false (target s (srOf pos n a) comps) = (List.range n).filterMap (phaseEntry pos a) := by
  simp only [phasesOf, target, srOf, List.map_map]
  rw [List.zip_map', List.filterMap_map]
  apply filterMap_congr'
  intro c _
  simp [phaseEntry, Function.comp]

theorem lookupPhase_target (s : String) {pos : List Nat} (hpos : pos.Pairwise (· < ·)) (a : Nat → Nat × Nat)
    (comps : List (Nat × Nat)) {c : Nat} (hc : c < pos.length) :
    lookupPhase false (target s (srOf pos pos.length a) comps) (posAt pos c) =
      (phaseEntry pos a c).map (·.2) := by
  unfold lookupPhase alookupLast
  rw [phasesOf_target]
  have hsub := keys_sublist (phaseEntry pos a) (posAt pos)
    (fun x y hy => by unfold phaseEntry at hy; split at hy <;> cases hy; rfl) (List.range pos.length)
  rw [range_map_posAt] at hsub
  have hnd : (((List.range pos.length).filterMap (phaseEntry pos a)).reverse.map (·.1)).Nodup := by
    rw [List.map_reverse, List.Nodup, List.pairwise_reverse]
    exact (hpos.imp (fun h => Nat.ne_of_gt h)).sublist hsub
  cases he : phaseEntry pos a c with
  | some e =>
    have hk : e.1 = posAt pos c := by unfold phaseEntry at he; split at he <;> cases he; rfl
    rw [← hk]
    exact alookup_of_mem _ _ _ hnd (List.mem_reverse.mpr (List.mem_filterMap.mpr ⟨c, List.mem_range.mpr hc, he⟩))
  | none =>
    cases hl : alookup ((List.range pos.length).filterMap (phaseEntry pos a)).reverse (posAt pos c) with
    | none => rfl
    | some v =>
      have hm := List.mem_reverse.mp (alookup_mem hl)
      obtain ⟨c', hc', he'⟩ := List.mem_filterMap.mp hm
      have hk : posAt pos c = posAt pos c' := by
        unfold phaseEntry at he'; split at he'
        · simp only [Option.some.injEq, Prod.mk.injEq] at he'; exact he'.1.symm
        · cases he'
      have := posAt_inj hpos hc (List.mem_range.mp hc') hk
      subst this
      rw [he] at he'; cases he'

/-- the phase statement for a column whose super-read alleles are a heterozygous 0/1 pair -/
theorem written_het (s : String) {pos : List Nat} (hpos : pos.Pairwise (· < ·)) (a : Nat → Nat × Nat)
    (comps : List (Nat × Nat)) {c : Nat} (hc : c < pos.length) (ha : a c = (0, 1) ∨ a c = (1, 0)) {m : Nat}
    (hm : C03.compOf comps (posAt pos c) = some m) :
    C09.written false (target s (srOf pos pos.length a) comps) (posAt pos c) =
      some ⟨some ((m : Int) + 1), [some (a c).1, some (a c).2]⟩ := by
  unfold C09.written
  rw [lookupPhase_target s hpos a comps hc]
  have hm' : alookup (target s (srOf pos pos.length a) comps).comps (posAt pos c) = some m := by
    rw [alookup_eq_lookup]; exact hm
  rw [hm']
  rcases ha with e | e <;> simp [phaseEntry, e, allowed, sortNat, insertNat, isHom]

/-- no phase statement for a tie column -/
theorem written_tie (s : String) {pos : List Nat} (hpos : pos.Pairwise (· < ·)) (a : Nat → Nat × Nat)
    (comps : List (Nat × Nat)) {c : Nat} (hc : c < pos.length) (ha : a c = (3, 3)) :
    C09.written false (target s (srOf pos pos.length a) comps) (posAt pos c) = none := by
  unfold C09.written
  rw [lookupPhase_target s hpos a comps hc]
  have : phaseEntry pos a c = none := by simp [phaseEntry, ha, allowed]
  rw [this]
  cases alookup (target s (srOf pos pos.length a) comps).comps (posAt pos c) <;> rfl

/-- no phase statement without a component -/
theorem written_nocomp (t : Target) {p : Nat} (h : C03.compOf t.comps p = none) : C09.written false t p = none := by
  unfold C09.written
  rw [alookup_eq_lookup]
  unfold C03.compOf at h
  rw [h]

/-! ### reading back what was written -/

def encOf : Tag → C09.Enc
  | .PS => .GTPS
  | .HP => .HP

/-- the reader's `phase_detected` state is empty or the encoding of this run's tag -/
def StOk (tag : Tag) (st : Option C09.Enc) : Prop := st = none ∨ st = some (encOf tag)

/-- an input record of the single-sample run: one call, as pysam presents it -/
def RecOk (sample : String) (r : Record) : Prop := ∃ c, r.calls = [(sample, c)] ∧ C09.WfCall r.format c

/-- the records neither writer nor reader skip (exactly one ALT allele) -/
def biallelic (r : Record) : Bool := !(r.alts.isEmpty || decide (r.alts.length > 1))

theorem readCall_written (cfg : Cfg) (hr : cfg.repaired = true) (hm : cfg.mav = false) (prev : Option Nat) (r : Record)
    (n : String) (t : Target) (hft : findTarget cfg n = some t) (c : Call) (hwf : C09.WfCall r.format c)
    (st : Option C09.Enc) (hst : StOk cfg.tag st) :
    ∃ st', StOk cfg.tag st' ∧
      C09.readCall st (writeRecord cfg prev r).record.format (finalCall cfg prev r n c) =
        .ok (st', if reaches cfg prev r then C09.written false t r.pos else none) := by
  have hd := WhVerif.Props.C09.decode_written cfg hr hm prev r n t hft c hwf
  unfold C09.readCall
  rw [hd]
  rcases hst with rfl | rfl <;> cases htag : cfg.tag <;> cases hre : reaches cfg prev r <;>
    cases hw : C09.written false t r.pos <;>
    simp [C09.detect, encOf, StOk, bind, Except.bind, pure, Except.pure]

theorem writeRecord_prev (cfg : Cfg) (prev : Option Nat) (r : Record) :
    (writeRecord cfg prev r).prev = some r.pos ∨ (writeRecord cfg prev r).prev = prev := by
  unfold writeRecord; split <;> simp

section chrom
variable (cfg : Cfg) (hr : cfg.repaired = true) (hm : cfg.mav = false) (hs : cfg.onlySnvs = false)
  (n : String) (t : Target) (hsam : cfg.samples = [n]) (htar : cfg.targets = [t]) (hname : t.name = n)
include hr hm hs hsam htar hname

omit hr hm hs hsam in
theorem findTarget_single : findTarget cfg n = some t := by
  simp [findTarget, htar, hname]

omit hr in
/-- for a biallelic record at a new position, `reaches` only depends on whether there is something to write -/
theorem phase_of_reaches (prev : Option Nat) (r : Record) (hb : biallelic r = true)
    (hprev : ∀ p, prev = some p → p < r.pos) :
    (if reaches cfg prev r then C09.written false t r.pos else none) = C09.written false t r.pos := by
  have hft := findTarget_single cfg n t htar hname
  have hp : (prev == some r.pos) = false := by
    cases prev with
    | none => rfl
    | some p => have := hprev p rfl; simp; omega
  have hre : reaches cfg prev r = ((alookup t.comps r.pos).isSome && (lookupPhase false t r.pos).isSome) := by
    simp only [biallelic, Bool.not_eq_true', Bool.or_eq_false_iff] at hb
    simp [reaches, hb.1, hb.2, hp, hs, hm, anyPhased, hsam, hft]
  rw [hre]
  unfold C09.written
  cases alookup t.comps r.pos <;> cases lookupPhase false t r.pos <;> simp

theorem readChrom_writeChrom : ∀ (rs : List Record) (prevW prevR : Option Nat) (st : Option C09.Enc),
    StOk cfg.tag st → (∀ r ∈ rs, RecOk n r) → rs.Pairwise (fun a b => a.pos < b.pos) →
    (∀ p, prevW = some p → ∀ r ∈ rs, p < r.pos) → (∀ p, prevR = some p → ∀ r ∈ rs, p < r.pos) →
    ∃ st' rows, C09.readChrom false st prevR (outRecords (writeChrom cfg prevW rs)) = .ok (st', rows) ∧
      rows.map rowPhase = (rs.filter biallelic).map (fun r => (r.pos, C09.written false t r.pos))
  | [], _, _, st, _, _, _, _, _ => ⟨st, [], rfl, rfl⟩
  | r :: rs, prevW, prevR, st, hst, hok, hpw, hW, hR => by
    have hft := findTarget_single cfg n t htar hname
    obtain ⟨c, hcalls, hwf⟩ := hok r List.mem_cons_self
    rw [List.pairwise_cons] at hpw
    have hok' : ∀ r' ∈ rs, RecOk n r' := fun r' h' => hok r' (List.mem_cons_of_mem _ h')
    have hW' : ∀ p, (writeRecord cfg prevW r).prev = some p → ∀ r' ∈ rs, p < r'.pos := by
      intro p hp r' h'
      rcases writeRecord_prev cfg prevW r with e | e
      · rw [e] at hp; cases hp; exact hpw.1 r' h'
      · rw [e] at hp; exact hW p hp r' (List.mem_cons_of_mem _ h')
    obtain ⟨_, hpos, href, halts⟩ := writeRecord_site cfg prevW r
    have hcalls' : (writeRecord cfg prevW r).record.calls = [(n, finalCall cfg prevW r n c)] := by
      rw [writeRecord_calls, hcalls]; rfl
    simp only [writeChrom, outRecords, List.map_cons]
    unfold C09.readChrom
    rw [halts, hpos, href, hcalls']
    cases hb : biallelic r with
    | false =>
      have hb' : (r.alts.isEmpty || decide (r.alts.length > 1)) = true := by
        unfold biallelic at hb; revert hb; cases (r.alts.isEmpty || decide (r.alts.length > 1)) <;> simp
      rw [if_pos hb']
      have hR' : ∀ p, prevR = some p → ∀ r' ∈ rs, p < r'.pos :=
        fun p hp r' h' => hR p hp r' (List.mem_cons_of_mem _ h')
      obtain ⟨st', rows, h1, h2⟩ := readChrom_writeChrom rs _ prevR st hst hok' hpw.2 hW' hR'
      refine ⟨st', rows, h1, ?_⟩
      rw [h2, List.filter_cons, hb]; rfl
    | true =>
      have hb' : (r.alts.isEmpty || decide (r.alts.length > 1)) = false := by
        unfold biallelic at hb; revert hb; cases (r.alts.isEmpty || decide (r.alts.length > 1)) <;> simp
      obtain ⟨st1, hst1, hrc⟩ := readCall_written cfg hr hm prevW r n t hft c hwf st hst
      rw [phase_of_reaches cfg hm hs n t hsam htar hname prevW r hb
        (fun p hp => hW p hp r List.mem_cons_self)] at hrc
      have hR' : ∀ p, some r.pos = some p → ∀ r' ∈ rs, p < r'.pos := by
        intro p hp r' h'; cases hp; exact hpw.1 r' h'
      obtain ⟨st', rows, h1, h2⟩ := readChrom_writeChrom rs _ (some r.pos) st1 hst1 hok' hpw.2 hW' hR'
      refine ⟨st', ⟨r.pos, r.ref, r.alts.headD "",
        [(gcode (finalCall cfg prevW r n c).gt, C09.written false t r.pos)]⟩ :: rows, ?_, ?_⟩
      · have hlt : ∀ p, prevR = some p → p < r.pos := fun p hp => hR p hp r List.mem_cons_self
        simp only [outRecords] at h1
        cases prevR with
        | none => simp [hb', C09.readCalls, hrc, bind, Except.bind, pure, Except.pure, h1]
        | some p =>
          have h5 := hlt p rfl
          have h6 : ¬ r.pos < p := by omega
          have h7 : ¬ p = r.pos := by omega
          simp [hb', C09.readCalls, hrc, bind, Except.bind, pure, Except.pure, h1, h6, h7]
      · rw [List.filter_cons, hb]
        simp [rowPhase, h2]
end chrom

end WhVerif.C02P

import WhVerif.Model.C12
import WhVerif.Model.C12Run
import WhVerif.Spec.C12
import WhVerif.Spec.C12Run
import WhVerif.Lemmas.C12
/-! Helper lemmas for the end-to-end part of C12: N50, sizes of the non-overlapping pieces, the chromosome loop, the
reader, the GTF writer. -/
namespace WhVerif.Lemmas.C12
open WhVerif.C12

/-! ### N50 -/

theorem n50Loop_small (target : Nat) : ∀ (l : List Nat) (total : Nat), 2 * (total + l.sum) < target →
    n50Loop target total l = 0 := by
  intro l
  induction l with
  | nil => intro total _; rfl
  | cons x xs ih =>
    intro total h
    simp only [List.sum_cons] at h
    unfold n50Loop
    rw [if_neg (by omega)]
    exact ih (total + x) (by omega)

theorem n50Loop_reach (target : Nat) : ∀ (l : List Nat) (total : Nat), l ≠ [] → target ≤ 2 * (total + l.sum) →
    ∃ a b r, l = a ++ r :: b ∧ n50Loop target total l = r ∧ target ≤ 2 * (total + a.sum + r) ∧
      (a = [] ∨ 2 * (total + a.sum) < target) := by
  intro l
  induction l with
  | nil => intro _ h; exact absurd rfl h
  | cons x xs ih =>
    intro total _ h
    simp only [List.sum_cons] at h
    unfold n50Loop
    by_cases hx : 2 * (total + x) ≥ target
    · rw [if_pos hx]
      exact ⟨[], xs, x, rfl, rfl, by simpa using hx, Or.inl rfl⟩
    · rw [if_neg hx]
      have hne : xs ≠ [] := by
        intro he; subst he; simp at h; omega
      obtain ⟨a, b, r, hl, hr, h1, h2⟩ := ih (total + x) hne (by omega)
      refine ⟨x :: a, b, r, by rw [hl]; rfl, hr, by simp only [List.sum_cons]; omega, Or.inr ?_⟩
      simp only [List.sum_cons]
      rcases h2 with rfl | h2
      · simp; omega
      · omega

theorem sortNat_perm (l : List Nat) : (sortNat l).Perm l := List.mergeSort_perm _ _

theorem sortNat_sorted (l : List Nat) : (sortNat l).Pairwise (fun a b => a ≤ b) := by
  have := List.pairwise_mergeSort (le := fun (a b : Nat) => decide (a ≤ b))
    (by intro a b c h1 h2; simp only [decide_eq_true_eq] at h1 h2 ⊢; omega)
    (by intro a b; simp only [Bool.or_eq_true, decide_eq_true_eq]; omega) l
  exact this.imp (by intro a b h; exact of_decide_eq_true h)

theorem sumGe_perm {l l' : List Nat} (h : l.Perm l') (r : Nat) : sumGe l r = sumGe l' r :=
  (h.filter _).sum_nat
theorem sumGt_perm {l l' : List Nat} (h : l.Perm l') (r : Nat) : sumGt l r = sumGt l' r :=
  (h.filter _).sum_nat

theorem filter_sum_le (l : List Nat) (p : Nat → Bool) : (l.filter p).sum ≤ l.sum := by
  induction l with
  | nil => simp
  | cons x xs ih =>
    simp only [List.filter_cons, List.sum_cons]
    split
    · simp only [List.sum_cons]; omega
    · omega

/-- the defining property on a list sorted largest first -/
theorem n50Loop_isN50 (target : Nat) (l : List Nat) (hs : l.Pairwise (fun a b => b ≤ a)) :
    IsN50 l target (n50Loop target 0 l) := by
  unfold IsN50
  split
  · rename_i h
    rcases h with rfl | h
    · rfl
    · exact n50Loop_small target l 0 (by omega)
  · rename_i h
    have hne : l ≠ [] := fun he => h (Or.inl he)
    have hge : target ≤ 2 * l.sum := by
      have : ¬ 2 * l.sum < target := fun hh => h (Or.inr hh)
      omega
    obtain ⟨a, b, r, hl, hr, h1, h2⟩ := n50Loop_reach target l 0 hne (by omega)
    rw [hr]
    subst hl
    have hs' := List.pairwise_append.mp hs
    have hrb : ∀ y ∈ b, y ≤ r := (List.pairwise_cons.mp hs'.2.1).1
    have har : ∀ x ∈ a, r ≤ x := fun x hx => hs'.2.2 x hx r (List.mem_cons_self ..)
    refine ⟨by simp, ?_, ?_⟩
    · -- every element of `a` and `r` itself count
      have : a.sum + r ≤ sumGe (a ++ r :: b) r := by
        unfold sumGe
        rw [List.filter_append, List.sum_append, List.filter_cons]
        have ha : a.filter (fun x => decide (r ≤ x)) = a := by
          apply List.filter_eq_self.mpr
          intro x hx; simpa using har x hx
        rw [ha]
        simp
      omega
    · -- only elements of `a` are longer
      have hgt : sumGt (a ++ r :: b) r ≤ a.sum := by
        unfold sumGt
        rw [List.filter_append, List.sum_append, List.filter_cons]
        have hb : b.filter (fun x => decide (r < x)) = [] := by
          apply List.filter_eq_nil_iff.mpr
          intro x hx; have := hrb x hx; simp; omega
        rw [hb]
        have := filter_sum_le a (fun x => decide (r < x))
        simp
        omega
      rcases h2 with rfl | h2
      · right
        have : ([] : List Nat).sum = 0 := rfl
        omega
      · left; omega

theorem isN50_perm {l l' : List Nat} (h : l.Perm l') (target r : Nat) (hr : IsN50 l target r) : IsN50 l' target r := by
  unfold IsN50 at *
  have hs : l.sum = l'.sum := h.sum_nat
  have he : l = [] ↔ l' = [] := by
    constructor
    · intro e; subst e; exact h.symm.eq_nil
    · intro e; subst e; exact h.eq_nil
  by_cases hc : l = [] ∨ 2 * l.sum < target
  · rw [if_pos hc] at hr
    rw [if_pos (by rcases hc with hc | hc; exact Or.inl (he.mp hc); exact Or.inr (by omega))]
    exact hr
  · rw [if_neg hc] at hr
    rw [if_neg (by intro hc'; apply hc; rcases hc' with hc' | hc'; exact Or.inl (he.mpr hc'); exact Or.inr (by omega))]
    rw [← sumGe_perm h, ← sumGt_perm h]
    exact ⟨h.mem_iff.mp hr.1, hr.2⟩

theorem n50_isN50 (lengths : List Nat) (target : Nat) : IsN50 lengths target (n50 lengths target) := by
  unfold n50
  have hs : ((sortNat lengths).reverse).Pairwise (fun a b => b ≤ a) := List.pairwise_reverse.mpr (sortNat_sorted lengths)
  have hp : ((sortNat lengths).reverse).Perm lengths := (List.reverse_perm _).trans (sortNat_perm lengths)
  exact isN50_perm hp target _ (n50Loop_isN50 target _ hs)

/-! ### every non-overlapping piece has at least two variants -/

def QBig (q : List Block) : Prop := ∀ b ∈ q, b.length > 1

theorem loop_big : ∀ (n : Nat) (q out : List Block), QBig q → nonoverlapLoop n q = some out → QBig out := by
  intro n
  induction n with
  | zero => intro q out _ h; simp [nonoverlapLoop] at h
  | succ n ih =>
    intro q out hq h
    match q, hq, h with
    | [], _, h => simp [nonoverlapLoop] at h; subst h; intro b hb; cases hb
    | [b], hq, h => simp [nonoverlapLoop] at h; subst h; exact hq
    | b :: nxt :: rest, hq, h =>
      rw [loop_step] at h
      have htail : QBig (nxt :: rest) := fun x hx => hq x (List.mem_cons_of_mem _ hx)
      have hnext : QBig (nextQueue b nxt rest) := by
        intro x hx
        rcases mem_nextQueue hx with h1 | ⟨_, h1⟩
        · exact htail x h1
        · exact h1
      by_cases hov : hi b > lo nxt
      · simp only [hov, if_true] at h
        by_cases hleft : (splitBlock b (lo nxt) (hi nxt)).1.length < 2
        · simp only [hleft, if_true] at h
          exact ih _ out hnext h
        · simp only [hleft, if_false] at h
          cases hrec : nonoverlapLoop n (nextQueue b nxt rest) with
          | none => simp only [nextQueue] at hrec; rw [hrec] at h; simp at h
          | some out' =>
            have hrec' := hrec
            simp only [nextQueue] at hrec; rw [hrec] at h
            simp only [Option.map_some, Option.some.injEq] at h
            subst h
            intro x hx
            rcases List.mem_cons.mp hx with rfl | hx
            · omega
            · exact ih _ out' hnext hrec' x hx
      · simp only [hov, if_false] at h
        cases hrec : nonoverlapLoop n (nxt :: rest) with
        | none => rw [hrec] at h; simp at h
        | some out' =>
          rw [hrec] at h
          simp only [Option.map_some, Option.some.injEq] at h
          subst h
          intro x hx
          rcases List.mem_cons.mp hx with rfl | hx
          · exact hq x (List.mem_cons_self ..)
          · exact ih _ out' htail hrec x hx

theorem nonoverlap_big (blocks out : List Block) (h : nonoverlap blocks = some out) : QBig out := by
  apply loop_big _ _ out ?_ h
  intro b hb
  have := (sortBlocks_perm _).mem_iff.mp hb
  simpa [bigOf] using (List.mem_filter.mp this).2

theorem bigOf_of_QBig {q : List Block} (h : QBig q) : bigOf q = q := by
  unfold bigOf
  apply List.filter_eq_self.mpr
  intro b hb
  simpa using h b hb


/-! ### the chromosome loop of `run_stats` -/

theorem mem_addSeen (seen : List String) (c x : String) : x ∈ addSeen seen c ↔ x ∈ seen ∨ x = c := by
  unfold addSeen
  split
  · rename_i h
    have hc : c ∈ seen := by simpa using h
    constructor
    · exact Or.inl
    · rintro (h | rfl)
      · exact h
      · exact hc
  · simp

/-- what one successful iteration looks like -/
theorem runLoop_cons_cases (f : Flags) (wb : Bool) (given seen : List String) (t : Table) (rest : List Table)
    (sn : List String) (ps : List Part) (h : runLoop f wb given seen (t :: rest) = .ok (sn, ps)) :
    ∃ vars, t.2 = .ok vars ∧
      ((skipped given t.1 = true ∧ runLoop f wb given (addSeen seen t.1) rest = .ok (sn, ps)) ∨
       (skipped given t.1 = false ∧ ∃ s, chromStats f vars = some s ∧
          ((allGivenSeen given (addSeen seen t.1) = true ∧ sn = addSeen seen t.1 ∧ ps = [⟨t.1, vars, s⟩]) ∨
           (allGivenSeen given (addSeen seen t.1) = false ∧ ∃ ps', runLoop f wb given (addSeen seen t.1) rest = .ok (sn, ps') ∧
              ps = ⟨t.1, vars, s⟩ :: ps')))) := by
  obtain ⟨c, r⟩ := t
  cases r with
  | error e => rw [runLoop] at h; cases h
  | ok vars =>
    refine ⟨vars, rfl, ?_⟩
    rw [runLoop] at h
    by_cases hsk : skipped given c
    · rw [if_pos hsk] at h
      exact Or.inl ⟨hsk, h⟩
    · rw [if_neg hsk] at h
      right
      refine ⟨by simpa using hsk, ?_⟩
      cases hcs : chromStats f vars with
      | none => rw [hcs] at h; cases h
      | some s =>
        rw [hcs] at h
        refine ⟨s, rfl, ?_⟩
        simp only at h
        split at h
        · cases h
        · by_cases hall : allGivenSeen given (addSeen seen c)
          · rw [if_pos hall] at h
            simp only [Except.ok.injEq, Prod.mk.injEq] at h
            exact Or.inl ⟨hall, h.1.symm, h.2.symm⟩
          · rw [if_neg hall] at h
            right
            refine ⟨by simpa using hall, ?_⟩
            split at h
            · cases h
            · rename_i sn' ps' hrec
              simp only [Except.ok.injEq, Prod.mk.injEq] at h
              obtain ⟨rfl, rfl⟩ := h
              exact ⟨ps', hrec, rfl⟩
/-- every processed chromosome carries the statistics of its own variants, was delivered by the reader and was asked for -/
theorem runLoop_parts (f : Flags) (wb : Bool) (given : List String) : ∀ (ts : List Table) (seen sn : List String)
    (ps : List Part), runLoop f wb given seen ts = .ok (sn, ps) →
    ∀ p ∈ ps, chromStats f p.vars = some p.stats ∧ (p.name, Except.ok p.vars) ∈ ts ∧ skipped given p.name = false := by
  intro ts
  induction ts with
  | nil => intro seen sn ps h; rw [runLoop] at h; cases h; intro p hp; cases hp
  | cons t rest ih =>
    intro seen sn ps h p hp
    obtain ⟨vars, ht, hc⟩ := runLoop_cons_cases f wb given seen t rest sn ps h
    have hmem : (t.1, Except.ok vars) ∈ t :: rest := by
      rw [← ht]; exact List.mem_cons_self ..
    rcases hc with ⟨_, hrec⟩ | ⟨hsk, s, hs, hc⟩
    · obtain ⟨h1, h2, h3⟩ := ih _ _ _ hrec p hp
      exact ⟨h1, List.mem_cons_of_mem _ h2, h3⟩
    · rcases hc with ⟨_, _, rfl⟩ | ⟨_, ps', hrec, rfl⟩
      · simp only [List.mem_singleton] at hp; subst hp
        exact ⟨hs, hmem, hsk⟩
      · rcases List.mem_cons.mp hp with rfl | hp
        · exact ⟨hs, hmem, hsk⟩
        · obtain ⟨h1, h2, h3⟩ := ih _ _ _ hrec p hp
          exact ⟨h1, List.mem_cons_of_mem _ h2, h3⟩

/-- **the early exit loses nothing**: when the tables have distinct names none of which was seen before, the processed
chromosomes are exactly the tables that are not filtered out, in order -/
theorem runLoop_names (f : Flags) (wb : Bool) (given : List String) : ∀ (ts : List Table) (seen sn : List String)
    (ps : List Part), (ts.map (·.1)).Nodup → (∀ c ∈ ts.map (·.1), c ∉ seen) → runLoop f wb given seen ts = .ok (sn, ps) →
    ps.map (·.name) = (ts.map (·.1)).filter (fun c => !skipped given c) := by
  intro ts
  induction ts with
  | nil => intro seen sn ps _ _ h; rw [runLoop] at h; cases h; rfl
  | cons t rest ih =>
    intro seen sn ps hnd hns h
    obtain ⟨vars, ht, hc⟩ := runLoop_cons_cases f wb given seen t rest sn ps h
    simp only [List.map_cons, List.nodup_cons] at hnd
    have hns' : ∀ c ∈ rest.map (·.1), c ∉ addSeen seen t.1 := by
      intro c hc hmem
      rcases (mem_addSeen seen t.1 c).mp hmem with h1 | h1
      · exact hns c (by simp only [List.map_cons]; exact List.mem_cons_of_mem _ hc) h1
      · subst h1; exact hnd.1 hc
    simp only [List.map_cons, List.filter_cons]
    rcases hc with ⟨hsk, hrec⟩ | ⟨hsk, s, hs, hc⟩
    · rw [hsk]; simp only [Bool.not_true, Bool.false_eq_true, if_false]
      exact ih _ _ _ hnd.2 hns' hrec
    · rw [hsk]; simp only [Bool.not_false, if_true]
      rcases hc with ⟨hall, _, rfl⟩ | ⟨_, ps', hrec, rfl⟩
      · -- the loop stops: nothing that follows is wanted
        have : (rest.map (·.1)).filter (fun c => !skipped given c) = [] := by
          apply List.filter_eq_nil_iff.mpr
          intro c hc
          unfold allGivenSeen at hall
          simp only [Bool.and_eq_true, Bool.not_eq_true', List.all_eq_true] at hall
          unfold skipped
          by_cases hg : given.contains c
          · have := hall.2 c (by simpa using hg)
            exact absurd (by simpa using this) (hns' c hc)
          · have hg' : c ∉ given := by simpa using hg
            simp [hall.1, hg']
        rw [this]; rfl
      · simp only [List.map_cons]
        rw [ih _ _ _ hnd.2 hns' hrec]

/-- without `--chromosome` every chromosome of the file is seen -/
theorem runLoop_seen_all (f : Flags) (wb : Bool) : ∀ (ts : List Table) (seen sn : List String) (ps : List Part),
    runLoop f wb [] seen ts = .ok (sn, ps) → sn = (ts.map (·.1)).foldl addSeen seen := by
  intro ts
  induction ts with
  | nil => intro seen sn ps h; rw [runLoop] at h; cases h; rfl
  | cons t rest ih =>
    intro seen sn ps h
    obtain ⟨vars, ht, hc⟩ := runLoop_cons_cases f wb [] seen t rest sn ps h
    simp only [List.map_cons, List.foldl_cons]
    rcases hc with ⟨_, hrec⟩ | ⟨_, s, _, hc⟩
    · exact ih _ _ _ hrec
    · rcases hc with ⟨hall, _, _⟩ | ⟨_, ps', hrec, _⟩
      · simp [allGivenSeen] at hall
      · exact ih _ _ _ hrec

theorem foldl_addSeen_nodup : ∀ (names seen : List String), names.Nodup → (∀ c ∈ names, c ∉ seen) →
    names.foldl addSeen seen = seen ++ names := by
  intro names
  induction names with
  | nil => intro seen _ _; simp
  | cons c cs ih =>
    intro seen hnd hns
    simp only [List.nodup_cons] at hnd
    simp only [List.foldl_cons]
    have hc : addSeen seen c = seen ++ [c] := by
      unfold addSeen
      rw [if_neg]
      simpa using hns c (List.mem_cons_self ..)
    rw [hc, ih (seen ++ [c]) hnd.2]
    · simp
    · intro x hx hmem
      rcases List.mem_append.mp hmem with h1 | h1
      · exact hns x (List.mem_cons_of_mem _ hx) h1
      · simp only [List.mem_singleton] at h1; subst h1; exact hnd.1 hx


/-! ### the reader -/

theorem bne_some_comm (a b : Nat) : (some a != some b) = (b != a) := by
  by_cases h : a = b
  · subst h; simp
  · have h' : ¬ b = a := fun e => h e.symm
    have e1 : (some a != some b) = true := by simpa using h
    have e2 : (b != a) = true := by simpa using h'
    rw [e1, e2]

theorem readLoop_skip (f : Flags) (o : Bool) (prev : Option Nat) (r : Rec) (rs : List Rec) (h : eligible o r = false) :
    readLoop f o prev (r :: rs) = readLoop f o prev rs := by
  simp only [readLoop]
  unfold eligible at h
  by_cases h0 : r.alts.isEmpty
  · rw [if_pos h0]
  · rw [if_neg h0]
    by_cases h1 : r.alts.length > 1
    · rw [if_pos h1]
    · rw [if_neg h1]
      have hl : r.alts.length = 1 := by
        have : r.alts.length ≠ 0 := by
          intro he; exact h0 (by simpa using List.length_eq_zero_iff.mp he)
        omega
      have h2 : (o && !snvLike r) = true := by
        simpa [hl] using h
      rw [if_pos h2]

theorem eligible_conds {o : Bool} {r : Rec} (h : eligible o r = true) :
    r.alts.isEmpty = false ∧ ¬ r.alts.length > 1 ∧ ¬ (o && !snvLike r) = true := by
  unfold eligible at h
  simp only [Bool.and_eq_true, beq_iff_eq, Bool.not_eq_true'] at h
  refine ⟨?_, by omega, by simp [h.2]⟩
  cases hr : r.alts with
  | nil => rw [hr] at h; simp at h
  | cons _ _ => rfl

theorem readLoop_keep_none (f : Flags) (o : Bool) (r : Rec) (rs : List Rec) (h : eligible o r = true) :
    readLoop f o none (r :: rs) = (readLoop f o (some r.pos) rs).map (toVar f r :: ·) := by
  obtain ⟨h0, h1, h2⟩ := eligible_conds h
  simp only [readLoop]
  rw [if_neg (by simp [h0]), if_neg h1, if_neg h2]
  rfl

theorem readLoop_keep_some (f : Flags) (o : Bool) (p : Nat) (r : Rec) (rs : List Rec) (h : eligible o r = true) :
    readLoop f o (some p) (r :: rs) =
      if p > r.pos then .error .notSorted
      else if p == r.pos then readLoop f o (some p) rs
      else (readLoop f o (some r.pos) rs).map (toVar f r :: ·) := by
  obtain ⟨h0, h1, h2⟩ := eligible_conds h
  simp only [readLoop]
  rw [if_neg (by simp [h0]), if_neg h1, if_neg h2]
  rfl

theorem except_map_ok {ε α β : Type} {x : Except ε α} {g : α → β} {y : β} (h : x.map g = .ok y) :
    ∃ a, x = .ok a ∧ y = g a := by
  cases x with
  | error e => cases h
  | ok a => exact ⟨a, rfl, by cases h; rfl⟩

/-- **the reader**: what `_process_single_chromosome` delivers is the first eligible record of every position, in order;
positions are strictly increasing (and beyond the last position already taken) -/
theorem readLoop_spec (f : Flags) (o : Bool) : ∀ (recs : List Rec) (prev : Option Nat) (vars : List Var),
    readLoop f o prev recs = .ok vars →
    vars = ((dedupPos (recs.filter (eligible o))).filter (fun x => prev != some x.pos)).map (toVar f) ∧
    (∀ v ∈ vars, ∀ p, prev = some p → p < v.pos) ∧ (vars.map (·.pos)).Pairwise (· < ·) := by
  intro recs
  induction recs with
  | nil =>
    intro prev vars h
    simp only [readLoop] at h
    cases h
    refine ⟨rfl, ?_, ?_⟩
    · intro v hv; cases hv
    · simp
  | cons r rs ih =>
    intro prev vars h
    by_cases he : eligible o r = true
    · rw [List.filter_cons, if_pos he]
      simp only [dedupPos]
      -- the step that emits `r` and continues behind its position
      have emit : ∀ vs, readLoop f o (some r.pos) rs = .ok vs → vars = toVar f r :: vs →
          (∀ q, prev = some q → q < r.pos) →
          vars = ((r :: (dedupPos (rs.filter (eligible o))).filter (fun x => x.pos != r.pos)).filter
              (fun x => prev != some x.pos)).map (toVar f) ∧
          (∀ v ∈ vars, ∀ p, prev = some p → p < v.pos) ∧ (vars.map (·.pos)).Pairwise (· < ·) := by
        intro vs hvs hv hq
        obtain ⟨h1, h2, h3⟩ := ih (some r.pos) vs hvs
        have hgt : ∀ v ∈ vs, r.pos < v.pos := fun v hv => h2 v hv r.pos rfl
        subst hv
        have hkeep : (prev != some r.pos) = true := by
          cases prev with
          | none => rfl
          | some q => have := hq q rfl; simp; omega
        have hY : (dedupPos (rs.filter (eligible o))).filter (fun x => some r.pos != some x.pos)
            = (dedupPos (rs.filter (eligible o))).filter (fun x => x.pos != r.pos) := by
          apply List.filter_congr
          intro x _
          exact bne_some_comm _ _
        rw [hY] at h1
        refine ⟨?_, ?_, ?_⟩
        · rw [List.filter_cons, if_pos hkeep, List.map_cons]
          congr 1
          rw [h1]
          congr 1
          symm
          apply List.filter_eq_self.mpr
          intro x hx
          have hxv : toVar f x ∈ vs := by rw [h1]; exact List.mem_map_of_mem hx
          have := hgt _ hxv
          cases prev with
          | none => rfl
          | some q =>
            have := hq q rfl
            simp only [toVar] at *
            simp; omega
        · intro v hv p hp
          rcases List.mem_cons.mp hv with rfl | hv
          · exact hq p hp
          · have := hgt v hv; have := hq p hp; omega
        · simp only [List.map_cons]
          refine List.pairwise_cons.mpr ⟨?_, h3⟩
          intro y hy
          obtain ⟨v, hv, rfl⟩ := List.mem_map.mp hy
          exact hgt v hv
      cases prev with
      | none =>
        rw [readLoop_keep_none f o r rs he] at h
        obtain ⟨vs, hvs, hv⟩ := except_map_ok h
        exact emit vs hvs hv (by intro q hq; cases hq)
      | some p =>
        rw [readLoop_keep_some f o p r rs he] at h
        by_cases h1 : p > r.pos
        · rw [if_pos h1] at h; cases h
        · rw [if_neg h1] at h
          by_cases h2 : (p == r.pos) = true
          · rw [if_pos h2] at h
            have hp : p = r.pos := by simpa using h2
            obtain ⟨e1, e2, e3⟩ := ih (some p) vars h
            refine ⟨?_, e2, e3⟩
            rw [e1, List.filter_cons]
            have : (some p != some r.pos) = false := by simp [hp]
            rw [if_neg (by simp [this]), List.filter_filter]
            congr 1
            apply List.filter_congr
            intro x _
            subst hp
            rw [bne_some_comm]
            simp
          · rw [if_neg h2] at h
            obtain ⟨vs, hvs, hv⟩ := except_map_ok h
            have hne : p ≠ r.pos := by simpa using h2
            exact emit vs hvs hv (by intro q hq; cases hq; omega)
    · have he' : eligible o r = false := by simpa using he
      rw [readLoop_skip f o prev r rs he'] at h
      rw [List.filter_cons, if_neg he]
      exact ih prev vars h

/-! ### the GTF writer -/

/-- rows of the runs when the first run continues a block `(s, k)` that is already open and currently ends at `e` -/
def rowsOpen (s : Nat) (e : Nat) (k : Nat) (rest : List (BlockId × Member)) : List (Nat × Nat × Nat) :=
  match runsOf rest with
  | (y :: r) :: rs =>
    if some k == y.1 then (s + 1, ((y :: r).getLast?.getD y).2.1 + 1, k) :: rs.filterMap runRow
    else (s + 1, e, k) :: ((y :: r) :: rs).filterMap runRow
  | _ => [(s + 1, e, k)]

theorem getLast_cons_cons {α} (x y : α) (r : List α) : ((x :: y :: r).getLast?.getD x) = ((y :: r).getLast?.getD y) := by
  rw [List.getLast?_cons_cons]
  cases h : (y :: r).getLast? with
  | none => simp at h
  | some z => rfl

/-- the rows of a list that starts with a call of phase set `j` at `pos` -/
theorem rowsOpen_start (j pos : Nat) (snv : Bool) (rest : List (BlockId × Member)) :
    rowsOpen pos (pos + 1) j rest = (runsOf ((some j, (pos, snv)) :: rest)).filterMap runRow := by
  unfold rowsOpen
  rw [runsOf]
  cases hr : runsOf rest with
  | nil => simp [runRow]
  | cons run rs =>
    cases run with
    | nil => simp [runRow]
    | cons y r =>
      simp only
      by_cases hy : (some j == y.1) = true
      · rw [if_pos hy, if_pos hy]
        simp only [List.filterMap_cons, runRow]
        rw [getLast_cons_cons]
      · rw [if_neg hy, if_neg hy]
        simp [runRow]

theorem gtfLoop_open : ∀ (rest : List (BlockId × Member)) (s e k : Nat), (∀ x ∈ rest, x.1.isSome) →
    gtfLoop (some (s, e, some k)) rest = rowsOpen s e k rest := by
  intro rest
  induction rest with
  | nil => intro s e k _; simp [gtfLoop, rowsOpen, runsOf]
  | cons x rest ih =>
    intro s e k hall
    obtain ⟨id, pos, snv⟩ := x
    have hid : id.isSome := hall _ (List.mem_cons_self ..)
    obtain ⟨j, rfl⟩ := Option.isSome_iff_exists.mp hid
    have hall' : ∀ x ∈ rest, x.1.isSome := fun x hx => hall x (List.mem_cons_of_mem _ hx)
    rw [gtfLoop]
    by_cases hkj : k = j
    · subst hkj
      rw [if_neg (by simp), ih s (pos + 1) k hall']
      unfold rowsOpen
      rw [runsOf]
      cases hr : runsOf rest with
      | nil => simp
      | cons run rs =>
        cases run with
        | nil => simp
        | cons y r =>
          simp only
          by_cases hy : (some k == y.1) = true
          · rw [if_pos hy, if_pos hy]
            simp only
            rw [if_pos (by simp), getLast_cons_cons]
          · rw [if_neg hy, if_neg hy]
            simp
    · rw [if_pos (by simpa using hkj), ih pos (pos + 1) j hall', rowsOpen_start j pos snv rest]
      unfold rowsOpen
      -- the first run of what follows starts with a call of set `j`, not `k`
      generalize hrr : runsOf ((some j, (pos, snv)) :: rest) = rr
      rw [runsOf] at hrr
      have hk : ¬ (some k == (some j : BlockId)) = true := by simpa using hkj
      cases hr : runsOf rest with
      | nil => rw [hr] at hrr; subst hrr; simp only; rw [if_neg hk]
      | cons run rs =>
        rw [hr] at hrr
        cases run with
        | nil => subst hrr; simp only; rw [if_neg hk]
        | cons y r =>
          simp only at hrr
          split at hrr <;> (subst hrr; simp only; rw [if_neg hk])
/-- **GTF**: with integer phase-set ids the features written are exactly the rows of the maximal runs -/
theorem gtf_eq_runs (ph : List (BlockId × Member)) (hall : ∀ x ∈ ph, x.1.isSome) :
    gtf ph = (runsOf ph).filterMap runRow := by
  unfold gtf
  cases ph with
  | nil => simp [gtfLoop, runsOf]
  | cons x rest =>
    obtain ⟨id, pos, snv⟩ := x
    have hid : id.isSome := hall _ (List.mem_cons_self ..)
    obtain ⟨j, rfl⟩ := Option.isSome_iff_exists.mp hid
    simp only [gtfLoop]
    rw [gtfLoop_open rest pos (pos + 1) j (fun x hx => hall x (List.mem_cons_of_mem _ hx)),
      rowsOpen_start j pos snv rest]

theorem runsOf_nonempty : ∀ (ph : List (BlockId × Member)), ∀ r ∈ runsOf ph, r ≠ [] := by
  intro ph
  induction ph with
  | nil => intro r hr; simp [runsOf] at hr
  | cons x rest ih =>
    intro r hr
    rw [runsOf] at hr
    split at hr
    · rename_i y r' rs hrest
      split at hr
      · rcases List.mem_cons.mp hr with rfl | h
        · simp
        · exact ih r (by rw [hrest]; exact List.mem_cons_of_mem _ h)
      · rcases List.mem_cons.mp hr with rfl | h
        · simp
        · exact ih r (by rw [hrest]; exact h)
    · simp only [List.mem_singleton] at hr; subst hr; simp

/-- the shape of `runsOf (x :: rest)` -/
theorem runsOf_cons (x : BlockId × Member) (rest : List (BlockId × Member)) :
    (rest = [] ∧ runsOf (x :: rest) = [[x]]) ∨
    (∃ y r rs, runsOf rest = (y :: r) :: rs ∧
      ((x.1 = y.1 ∧ runsOf (x :: rest) = (x :: y :: r) :: rs) ∨ (x.1 ≠ y.1 ∧ runsOf (x :: rest) = [x] :: (y :: r) :: rs))) := by
  rw [runsOf]
  cases hr : runsOf rest with
  | nil =>
    left
    cases rest with
    | nil => exact ⟨rfl, rfl⟩
    | cons z zs =>
      -- a non-empty list has at least one run
      exfalso
      rw [runsOf] at hr
      split at hr
      · split at hr <;> cases hr
      · cases hr
  | cons run rs =>
    cases run with
    | nil => exact absurd rfl (runsOf_nonempty rest [] (by rw [hr]; exact List.mem_cons_self ..))
    | cons y r =>
      right
      refine ⟨y, r, rs, rfl, ?_⟩
      simp only
      by_cases h : x.1 = y.1
      · left; exact ⟨h, by rw [if_pos (by simpa using h)]⟩
      · right; exact ⟨h, by rw [if_neg (by simpa using h)]⟩

theorem runsOf_flatten : ∀ (ph : List (BlockId × Member)), (runsOf ph).flatten = ph := by
  intro ph
  induction ph with
  | nil => simp [runsOf]
  | cons x rest ih =>
    rcases runsOf_cons x rest with ⟨rfl, h⟩ | ⟨y, r, rs, hr, ⟨_, h⟩ | ⟨_, h⟩⟩
    · rw [h]; rfl
    · rw [h]; rw [hr] at ih; simp [← ih]
    · rw [h]; rw [hr] at ih; simp [← ih]

theorem runsOf_same_id : ∀ (ph : List (BlockId × Member)), ∀ r ∈ runsOf ph, ∀ a ∈ r, ∀ b ∈ r, a.1 = b.1 := by
  intro ph
  induction ph with
  | nil => intro r hr; simp [runsOf] at hr
  | cons x rest ih =>
    intro run hrun
    rcases runsOf_cons x rest with ⟨rfl, h⟩ | ⟨y, r, rs, hr, ⟨hxy, h⟩ | ⟨_, h⟩⟩
    · rw [h] at hrun; simp only [List.mem_singleton] at hrun; subst hrun
      intro a ha b hb; simp only [List.mem_singleton] at ha hb; rw [ha, hb]
    · rw [h] at hrun
      rcases List.mem_cons.mp hrun with rfl | hm
      · have hy := ih (y :: r) (by rw [hr]; exact List.mem_cons_self ..)
        have key : ∀ a ∈ x :: y :: r, a.1 = y.1 := by
          intro a ha
          rcases List.mem_cons.mp ha with rfl | ha
          · exact hxy
          · exact hy a ha y (List.mem_cons_self ..)
        intro a ha b hb; rw [key a ha, key b hb]
      · exact ih run (by rw [hr]; exact List.mem_cons_of_mem _ hm)
    · rw [h] at hrun
      rcases List.mem_cons.mp hrun with rfl | hm
      · intro a ha b hb; simp only [List.mem_singleton] at ha hb; rw [ha, hb]
      · exact ih run (by rw [hr]; exact hm)


theorem runsOf_adjacent : ∀ (ph : List (BlockId × Member)), AdjDiff (runsOf ph) := by
  intro ph
  induction ph with
  | nil => simp [runsOf, AdjDiff]
  | cons x rest ih =>
    rcases runsOf_cons x rest with ⟨rfl, h⟩ | ⟨y, r, rs, hr, ⟨hxy, h⟩ | ⟨hxy, h⟩⟩
    · rw [h]; simp [AdjDiff]
    · rw [h]; rw [hr] at ih
      have hy := runsOf_same_id rest (y :: r) (by rw [hr]; exact List.mem_cons_self ..)
      cases rs with
      | nil => simp [AdjDiff]
      | cons b rs' =>
        simp only [AdjDiff] at ih ⊢
        refine ⟨?_, ih.2⟩
        intro a ha c hc
        rcases List.mem_cons.mp ha with rfl | ha
        · rw [hxy]; exact ih.1 y (List.mem_cons_self ..) c hc
        · exact ih.1 a ha c hc
    · rw [h]; rw [hr] at ih
      have hy := runsOf_same_id rest (y :: r) (by rw [hr]; exact List.mem_cons_self ..)
      simp only [AdjDiff]
      refine ⟨?_, ih⟩
      intro a ha c hc
      simp only [List.mem_singleton] at ha; subst ha
      rw [hy c hc y (List.mem_cons_self ..)]
      exact hxy

/-- every run of integer ids gives a row -/
theorem runRow_isSome (r : List (BlockId × Member)) (hne : r ≠ []) (hall : ∀ x ∈ r, x.1.isSome) : (runRow r).isSome := by
  cases r with
  | nil => exact absurd rfl hne
  | cons x t =>
    obtain ⟨k, hk⟩ := Option.isSome_iff_exists.mp (hall x (List.mem_cons_self ..))
    simp [runRow, hk]

/-! ### gluing: reader → loop → rows -/

theorem readChrom_spec (f : Flags) (o : Bool) (recs : List Rec) (vars : List Var) (h : readChrom f o recs = .ok vars) :
    vars = specVars f o recs ∧ (vars.map (·.pos)).Pairwise (· < ·) := by
  obtain ⟨h1, _, h3⟩ := readLoop_spec f o recs none vars h
  refine ⟨?_, h3⟩
  rw [h1]
  unfold specVars
  congr 1
  apply List.filter_eq_self.mpr
  intro x _
  rfl

/-- a table that was read successfully comes from records of the file under that name -/
theorem tables_mem (i : RunIn) (given : List String) (c : String) (vars : List Var)
    (h : (c, Except.ok vars) ∈ tables i given) :
    ∃ recs, readChrom i.flags i.onlySnvs recs = .ok vars ∧ ((c, recs) ∈ i.file ∨ recs = recsOf i.file c) := by
  unfold tables at h
  split at h
  · obtain ⟨c', _, hc'⟩ := List.mem_map.mp h
    split at hc'
    · simp only [Prod.mk.injEq] at hc'
      obtain ⟨rfl, hr⟩ := hc'
      refine ⟨recsOf i.file c', ?_, Or.inr rfl⟩
      split at hr
      · rename_i v hv; cases hr; exact hv
      · cases hr
    · simp only [Prod.mk.injEq] at hc'
      cases hc'.2
  · obtain ⟨g, hg, hc'⟩ := List.mem_map.mp h
    simp only [Prod.mk.injEq] at hc'
    obtain ⟨rfl, hr⟩ := hc'
    refine ⟨g.2, ?_, Or.inl hg⟩
    split at hr
    · rename_i v hv; cases hr; exact hv
    · cases hr

theorem foldl_addStats_split (ss : List Stats) : ∀ (acc : Stats),
    (ss.foldl addStats acc).splitBlocks = acc.splitBlocks ++ ss.flatMap (·.splitBlocks) := by
  induction ss with
  | nil => intro acc; simp
  | cons s t ih => intro acc; simp [ih, addStats]

theorem phaseOf_isSome (f : Flags) (hf : f.fixPs = true) (r : Rec) (b : BlockId) (h : phaseOf f r = some b) : b.isSome := by
  unfold phaseOf at h
  simp only [hf, if_true] at h
  repeat' split at h
  all_goals first | (cases h; rfl) | cases h

/-- after `fixes/F5b.patch` every phased call of a chromosome the reader delivered has an integer phase-set id -/
theorem phasedOf_ids_some (f : Flags) (hf : f.fixPs = true) (o : Bool) (recs : List Rec) :
    ∀ x ∈ phasedOf f (specVars f o recs), x.1.isSome := by
  intro x hx
  unfold phasedOf at hx
  obtain ⟨v, hv, hvx⟩ := List.mem_filterMap.mp hx
  have hv' := (List.mem_filter.mp hv).1
  unfold specVars at hv'
  obtain ⟨r, _, rfl⟩ := List.mem_map.mp hv'
  cases hp : (toVar f r).phase with
  | none => rw [hp] at hvx; cases hvx
  | some b =>
    rw [hp] at hvx
    simp only [Option.map_some, Option.some.injEq] at hvx
    subst hvx
    exact phaseOf_isSome f hf r b hp

theorem blockList_ok (bl : List (BlockId × Block)) (h : ∀ p ∈ bl, p.1.isSome) : ∃ rows, blockList bl = .ok rows := by
  unfold blockList
  rw [if_neg]
  · exact ⟨_, rfl⟩
  · intro hc
    simp only [Bool.and_eq_true, List.any_eq_true] at hc
    obtain ⟨⟨p, hp, hn⟩, _⟩ := hc
    have := h p hp
    cases hp1 : p.1 <;> simp_all

theorem strDedup_const (c : String) : ∀ (l : List String), l ≠ [] → (∀ x ∈ l, x = c) → strDedup l = [c] := by
  intro l
  induction l with
  | nil => intro h; exact absurd rfl h
  | cons x xs ih =>
    intro _ hall
    have hx : x = c := hall x (List.mem_cons_self ..)
    subst hx
    simp only [strDedup]
    congr 1
    apply List.filter_eq_nil_iff.mpr
    intro y hy
    have hsub : ∀ l : List String, ∀ y ∈ strDedup l, y ∈ l := by
      intro l
      induction l with
      | nil => intro y hy; cases hy
      | cons a t iht =>
        intro y hy
        simp only [strDedup] at hy
        rcases List.mem_cons.mp hy with rfl | hy
        · exact List.mem_cons_self ..
        · exact List.mem_cons_of_mem _ (iht y (List.mem_filter.mp hy).1)
    have := hall y (List.mem_cons_of_mem _ (hsub xs y hy))
    simp [this]

theorem run_ok (i : RunIn) (o : RunOut) (h : run i = .ok o) :
    runLoop i.flags i.wantBl (unpackChromosomes i.given) [] (tables i (unpackChromosomes i.given)) = .ok (o.seen, o.parts) ∧
    o.all = if o.seen.length > 1 then some (totalStats o.parts) else none := by
  unfold run at h
  simp only at h
  split at h
  · cases h
  · rename_i seen ps hl
    cases h
    exact ⟨hl, rfl⟩

theorem mapM_parts (f : Flags) : ∀ (ps : List Part), (∀ p ∈ ps, chromStats f p.vars = some p.stats) →
    (ps.map (·.vars)).mapM (chromStats f) = some (ps.map (·.stats)) := by
  intro ps
  induction ps with
  | nil => intro _; rfl
  | cons p t ih =>
    intro h
    simp only [List.map_cons, List.mapM_cons]
    rw [h p (List.mem_cons_self ..), ih (fun x hx => h x (List.mem_cons_of_mem _ hx))]
    rfl

theorem mem_strDedup (l : List String) (x : String) : x ∈ strDedup l ↔ x ∈ l := by
  induction l with
  | nil => simp [strDedup]
  | cons a t ih =>
    simp only [strDedup, List.mem_cons, List.mem_filter, ih]
    constructor
    · rintro (h | ⟨h, _⟩)
      · exact Or.inl h
      · exact Or.inr h
    · rintro (h | h)
      · exact Or.inl h
      · by_cases hx : x = a
        · exact Or.inl hx
        · exact Or.inr ⟨h, by simpa using hx⟩

theorem nodup_strDedup (l : List String) : (strDedup l).Nodup := by
  induction l with
  | nil => simp [strDedup]
  | cons a t ih =>
    simp only [strDedup, List.nodup_cons, List.mem_filter]
    refine ⟨?_, ih.filter _⟩
    rintro ⟨_, h⟩
    simp at h

theorem tables_names_plain (i : RunIn) (given : List String) (h : i.indexed = false ∨ given = []) :
    (tables i given).map (·.1) = i.file.map (·.1) := by
  unfold tables
  rw [if_neg]
  · simp [List.map_map, Function.comp_def]
  · rcases h with h | h
    · simp [h]
    · simp [h]

theorem tables_names_indexed (i : RunIn) (given : List String) (hi : i.indexed = true) (hg : given ≠ []) :
    (tables i given).map (·.1) = if i.dedupGiven then strDedup given else given := by
  unfold tables
  rw [if_pos]
  · rw [List.map_map]
    generalize (if i.dedupGiven = true then strDedup given else given) = l
    induction l with
    | nil => rfl
    | cons c t ih =>
      simp only [List.map_cons, Function.comp]
      rw [ih]
      congr 1
      split <;> rfl
  · cases given with
    | nil => exact absurd rfl hg
    | cons _ _ => simp [hi]

/-! ### concrete runs (witnesses for the non-vacuity examples and for F75) -/

def exRec (pos ps : Nat) : Rec := ⟨pos, "A", ["C"], [some 0, some 1], true, true, some ps, none⟩
def exVars : List Var := [⟨10, true, .het, some (some 7)⟩, ⟨20, true, .het, some (some 7)⟩]
def exStats : Stats :=
  { blocks := [[(10, true), (20, true)]], splitBlocks := [[(10, true), (20, true)]], unphased := 0, variants := 2, het := 2,
    hetSnvs := 2 }
/-- two chromosomes, the first with one phase set of two variants; `given` as typed on the command line -/
def exRun (indexed dedup : Bool) (given : List String) : RunIn :=
  { flags := ⟨true, true⟩, dedupGiven := dedup, onlySnvs := false, wantBl := true, indexed := indexed,
    contigs := ["c1", "c2"], lens := [("c1", 100)], given := given,
    file := [("c1", [exRec 10 7, exRec 20 7]), ("c2", [])] }

theorem ex_read : readChrom ⟨true, true⟩ false [exRec 10 7, exRec 20 7] = .ok exVars := by rfl
theorem ex_read_nil : readChrom ⟨true, true⟩ false [] = .ok [] := by rfl
theorem ex_stats : chromStats ⟨true, true⟩ exVars = some exStats := by
  simp [chromStats, exVars, exStats, considered, phasedOf, blocksOf, dedupIds, nonoverlap, bigOf, sortBlocks, nonoverlapLoop,
    totalLen]
theorem ex_stats_nil : chromStats ⟨true, true⟩ [] = some {} := by
  simp [chromStats, considered, phasedOf, blocksOf, dedupIds, nonoverlap, bigOf, sortBlocks, nonoverlapLoop, totalLen]
theorem ex_unpack : unpackChromosomes ["c1", "c1,c2"] = ["c1", "c1", "c2"] := by decide

/-- plain file, no `--chromosome`: both chromosomes and the ALL row -/
theorem exRun_plain : ∃ o, run (exRun false false []) = .ok o ∧ o.parts.map (·.name) = ["c1", "c2"] ∧ o.all.isSome ∧
    o.parts.map (fun p => p.stats.variants) = [2, 0] := by
  refine ⟨⟨[⟨"c1", exVars, exStats⟩, ⟨"c2", [], {}⟩], ["c1", "c2"], some (addStats (addStats {} exStats) {})⟩, ?_, rfl, rfl, rfl⟩
  simp [run, exRun, unpackChromosomes, tables, ex_read, ex_read_nil, runLoop, skipped, allGivenSeen, addSeen,
    ex_stats, ex_stats_nil, totalStats]
  simp [exVars, phasedOf, considered, blocksOf, dedupIds, blockList, idLe]

/-- indexed file, `--chromosome c1 --chromosome c1,c2`: HEAD (`dedup = false`) fetches and counts c1 twice,
the repaired code once -/
theorem exRun_indexed (dedup : Bool) : ∃ o, run (exRun true dedup ["c1", "c1,c2"]) = .ok o ∧
    o.parts.map (·.name) = (if dedup then ["c1", "c2"] else ["c1", "c1", "c2"]) ∧
    o.all.map (fun a => (detailed a).variants) = some (if dedup then 2 else 4) := by
  cases dedup
  · refine ⟨⟨[⟨"c1", exVars, exStats⟩, ⟨"c1", exVars, exStats⟩, ⟨"c2", [], {}⟩], ["c1", "c2"],
      some (addStats (addStats (addStats {} exStats) exStats) {})⟩, ?_, rfl, rfl⟩
    simp [run, exRun, ex_unpack, tables, recsOf, ex_read, ex_read_nil, runLoop, skipped, allGivenSeen, addSeen,
      ex_stats, ex_stats_nil, totalStats]
    simp [exVars, phasedOf, considered, blocksOf, dedupIds, blockList, idLe]
  · refine ⟨⟨[⟨"c1", exVars, exStats⟩, ⟨"c2", [], {}⟩], ["c1", "c2"], some (addStats (addStats {} exStats) {})⟩, ?_, rfl, rfl⟩
    simp [run, exRun, ex_unpack, tables, strDedup, recsOf, ex_read, ex_read_nil, runLoop, skipped, allGivenSeen, addSeen,
      ex_stats, ex_stats_nil, totalStats]
    simp [exVars, phasedOf, considered, blocksOf, dedupIds, blockList, idLe]

/-! ### the order of the queue does not depend on the sorting routine -/

/-- the blocks of the queue are pairwise disjoint as sets of positions -/
def QDisj (q : List Block) : Prop := q.Pairwise (fun a b => ∀ m ∈ a, ∀ n ∈ b, m.1 ≠ n.1)

theorem qdisj_perm {q q' : List Block} (h : q.Perm q') (hd : QDisj q) : QDisj q' :=
  hd.perm h (by intro a b hab m hm n hn e; exact hab n hn m hm e.symm)

/-- in a queue of non-empty, pairwise disjoint blocks the leftmost position identifies the block -/
theorem loInj_of_disj : ∀ (q : List Block), QNonempty q → QDisj q → ∀ a ∈ q, ∀ b ∈ q, lo a = lo b → a = b := by
  intro q
  induction q with
  | nil => intro _ _ a ha; cases ha
  | cons x xs ih =>
    intro hne hd a ha b hb hab
    have hd' := List.pairwise_cons.mp hd
    have hne' : QNonempty xs := fun y hy => hne y (List.mem_cons_of_mem _ hy)
    have clash : ∀ y ∈ xs, lo x ≠ lo y := by
      intro y hy e
      obtain ⟨m, hm, hme⟩ := lo_mem x (hne x (List.mem_cons_self ..))
      obtain ⟨n, hn, hne2⟩ := lo_mem y (hne y (List.mem_cons_of_mem _ hy))
      exact hd'.1 y hy m hm n hn (by omega)
    rcases List.mem_cons.mp ha with rfl | ha' <;> rcases List.mem_cons.mp hb with rfl | hb'
    · rfl
    · exact absurd hab (clash b hb')
    · exact absurd hab.symm (clash a ha')
    · exact ih hne' hd'.2 a ha' b hb' hab

/-- with distinct leftmost positions there is only one sorted arrangement -/
theorem sort_unique {q l : List Block} (hp : l.Perm q) (hs : QSorted l) (hne : QNonempty q) (hd : QDisj q) :
    l = sortBlocks q := by
  have hinj := loInj_of_disj q hne hd
  apply List.Perm.eq_of_pairwise (le := fun a b => lo a ≤ lo b) ?_ hs (sortBlocks_sorted q)
    (hp.trans (sortBlocks_perm q).symm)
  intro a b ha hb h1 h2
  exact hinj a (hp.mem_iff.mp ha) b ((sortBlocks_perm q).mem_iff.mp hb) (by omega)

theorem nextQueue_disj {b nxt : Block} {rest : List Block} (hd : QDisj (b :: nxt :: rest)) :
    QDisj (nextQueue b nxt rest) ∧ QDisj ((splitBlock b (lo nxt) (hi nxt)).2 :: nxt :: rest) := by
  have h1 := List.pairwise_cons.mp hd
  have hright : QDisj ((splitBlock b (lo nxt) (hi nxt)).2 :: nxt :: rest) := by
    refine List.pairwise_cons.mpr ⟨?_, h1.2⟩
    intro y hy m hm n hn
    exact h1.1 y hy m (List.mem_filter.mp hm).1 n hn
  refine ⟨?_, hright⟩
  unfold nextQueue
  split
  · exact qdisj_perm (sortBlocks_perm _).symm hright
  · exact h1.2

theorem loopG_eq (sort : List Block → List Block) (hsort : IsSort sort) : ∀ (n : Nat) (q : List Block),
    QSorted q → QNonempty q → QDisj q → nonoverlapLoopG sort n q = nonoverlapLoop n q := by
  intro n
  induction n with
  | zero => intro q _ _ _; rfl
  | succ n ih =>
    intro q hs hne hd
    match q, hs, hne, hd with
    | [], _, _, _ => rfl
    | [b], _, _, _ => rfl
    | b :: nxt :: rest, hs, hne, hd =>
      have htail_s : QSorted (nxt :: rest) := (List.pairwise_cons.mp hs).2
      have htail_n : QNonempty (nxt :: rest) := fun x hx => hne x (List.mem_cons_of_mem _ hx)
      have htail_d : QDisj (nxt :: rest) := (List.pairwise_cons.mp hd).2
      obtain ⟨hnq_d, hright_d⟩ := nextQueue_disj hd
      -- the routine and `sortBlocks` agree on the queue with the right piece
      have hsame : (splitBlock b (lo nxt) (hi nxt)).2.length > 1 →
          sort ((splitBlock b (lo nxt) (hi nxt)).2 :: nxt :: rest) = sortBlocks ((splitBlock b (lo nxt) (hi nxt)).2 :: nxt :: rest) := by
        intro hlen
        apply sort_unique (hsort _).1 (hsort _).2 ?_ hright_d
        intro x hx
        rcases List.mem_cons.mp hx with rfl | hx
        · intro he; rw [he] at hlen; simp at hlen
        · exact htail_n x hx
      have hq' : (if (splitBlock b (lo nxt) (hi nxt)).2.length > 1 then sort ((splitBlock b (lo nxt) (hi nxt)).2 :: nxt :: rest)
          else nxt :: rest) = nextQueue b nxt rest := by
        unfold nextQueue
        split
        · rename_i hlen; exact hsame hlen
        · rfl
      have ihq := ih (nextQueue b nxt rest) (nextQueue_sorted hs) (nextQueue_nonempty hne) hnq_d
      have iht := ih (nxt :: rest) htail_s htail_n htail_d
      rw [loop_step]
      simp only [nonoverlapLoopG]
      rw [hq', iht, ihq]
      simp only [nextQueue]

theorem nodup_map_inj {α β : Type} (f : α → β) : ∀ (l : List α), (l.map f).Nodup → ∀ x ∈ l, ∀ y ∈ l, f x = f y → x = y := by
  intro l
  induction l with
  | nil => intro _ x hx; cases hx
  | cons a t ih =>
    intro hnd x hx y hy e
    simp only [List.map_cons, List.nodup_cons, List.mem_map, not_exists, not_and] at hnd
    rcases List.mem_cons.mp hx with rfl | hx' <;> rcases List.mem_cons.mp hy with rfl | hy'
    · rfl
    · exact absurd e.symm (hnd.1 y hy')
    · exact absurd e (hnd.1 x hx')
    · exact ih hnd.2 x hx' y hy' e

/-- positions of the phased calls distinct ⇒ the blocks are pairwise disjoint -/
theorem blocksOf_disj (ph : List (BlockId × Member)) (hnd : (ph.map (·.2.1)).Nodup) :
    QDisj ((blocksOf ph).map (·.2)) := by
  unfold QDisj blocksOf
  rw [List.map_map, List.pairwise_map]
  have hids := nodup_dedupIds (ph.map (·.1))
  apply List.Pairwise.imp _ hids
  intro id id' hne m hm n hn e
  simp only [Function.comp, List.mem_map, List.mem_filter, beq_iff_eq] at hm hn
  obtain ⟨x, ⟨hx, hxi⟩, rfl⟩ := hm
  obtain ⟨y, ⟨hy, hyi⟩, rfl⟩ := hn
  have : x = y := nodup_map_inj (fun (p : BlockId × Member) => p.2.1) ph hnd x hx y hy e
  subst this
  exact hne (hxi.symm.trans hyi)


theorem positions_sublist (f : Flags) : ∀ (vars : List Var), ((phasedOf f vars).map (·.2.1)).Sublist (vars.map (·.pos)) := by
  intro vars
  unfold phasedOf considered
  induction vars with
  | nil => exact List.Sublist.slnil
  | cons v t ih =>
    simp only [List.filter_cons, List.map_cons]
    split
    · simp only [List.filterMap_cons]
      cases hp : v.phase with
      | none => simp only [Option.map_none]; exact ih.cons _
      | some id => simp only [Option.map_some, List.map_cons]; exact ih.cons₂ _
    · exact ih.cons _

/-- the splitting loop gives the same pieces whatever sorting routine is used (in particular Python's stable
`sorted(..., reverse=True)` read from the end): the blocks of a chromosome the reader delivered are pairwise disjoint, so no
two blocks ever share a leftmost position -/
theorem nonoverlapG_eq (sort : List Block → List Block) (hsort : IsSort sort) (blocks : List Block) (hd : QDisj blocks) :
    nonoverlapG sort blocks = nonoverlap blocks := by
  have hbd : QDisj (bigOf blocks) := List.Pairwise.filter _ hd
  have hbn : QNonempty (bigOf blocks) := by
    intro b hb he
    have := (List.mem_filter.mp hb).2
    rw [he] at this; simp at this
  have hs : sort (bigOf blocks) = sortBlocks (bigOf blocks) := sort_unique (hsort _).1 (hsort _).2 hbn hbd
  unfold nonoverlapG nonoverlap
  rw [hs]
  obtain ⟨h1, h2⟩ := bigOf_sorted_nonempty blocks
  exact loopG_eq sort hsort _ _ h1 h2 (qdisj_perm (sortBlocks_perm _).symm hbd)

end WhVerif.Lemmas.C12

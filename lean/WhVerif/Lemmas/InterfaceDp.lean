import WhVerif.Model.Cost
/-!
# Abstract "interface DP" correctness (DESIGN Appendix A, generalised). Core Lean only.

A system of `n` columns over global assignments `X`: column `c` sees the view `v c x : A`, neighbouring columns
`c`, `c+1` communicate through the interface `i c x : I`, which is a function of either neighbouring view.
If pasts and futures can be glued whenever the interfaces agree, the column-by-column DP over views computes,
cell by cell, the minimum over all global assignments of the cost of the columns so far.
-/
namespace WhVerif.InterfaceDp
open WhVerif.Cost

variable {X A I : Type}

structure Sys (X A I : Type) where
  n : Nat                                  -- number of columns
  univ : List X                            -- all global assignments
  v : Nat → X → A                          -- what column c sees
  i : Nat → X → I                          -- interface between c and c+1
  p : Nat → A → I                          -- i c = p c ∘ v c
  q : Nat → A → I                          -- i c = q c ∘ v (c+1)
  g : Nat → A → Option Nat                 -- local cost
  views : Nat → List A                     -- all views of column c
  hp : ∀ c x, i c x = p c (v c x)
  hq : ∀ c x, i c x = q c (v (c+1) x)
  hviews : ∀ c, c < n → ∀ a, a ∈ views c ↔ ∃ x ∈ univ, v c x = a
  /-- gluing: past of y (columns ≤ c) with future of x (columns > c) when interfaces agree -/
  glue : ∀ c x y, x ∈ univ → y ∈ univ → i c x = i c y →
          ∃ z ∈ univ, (∀ c', c' ≤ c → v c' z = v c' y) ∧ (∀ c', c < c' → v c' z = v c' x)

/-- cost of columns 0..c of a global assignment -/
def past (S : Sys X A I) : Nat → X → Option Nat
  | 0, x => S.g 0 (S.v 0 x)
  | c+1, x => cadd (past S c x) (S.g (c+1) (S.v (c+1) x))

theorem past_congr (S : Sys X A I) (c : Nat) (x y : X)
    (h : ∀ c', c' ≤ c → S.v c' x = S.v c' y) : past S c x = past S c y := by
  induction c with
  | zero => simp [past, h 0 (Nat.le_refl 0)]
  | succ c ih =>
    simp only [past]
    rw [ih (fun c' hc' => h c' (by omega)), h (c+1) (Nat.le_refl _)]

mutual
/-- value of the DP cell of view `a` in column `c` -/
def cell [DecidableEq I] (S : Sys X A I) : Nat → A → Option Nat
  | 0, a => S.g 0 a
  | c+1, a => cadd (dp S c (S.q c a)) (S.g (c+1) a)
/-- the projection of column `c` onto the interface: minimum over all views with that interface -/
def dp [DecidableEq I] (S : Sys X A I) : Nat → I → Option Nat
  | c, ι => minOver ((S.views c).filter (fun a => S.p c a = ι)) (fun a => cell S c a)
end

/-- Main lemma: for any decidable restriction `P` on the views of column `c`, the minimum of the cells over
the views satisfying `P` is the minimum over all global assignments whose view satisfies `P` of the cost of
columns `0..c`. -/
theorem cell_spec [DecidableEq I] (S : Sys X A I) (c : Nat) (hc : c < S.n) (P : A → Bool) :
    IsMinOf (fun x => x ∈ S.univ ∧ P (S.v c x) = true) (past S c)
      (minOver ((S.views c).filter P) (fun a => cell S c a)) := by
  induction c generalizing P with
  | zero =>
    have hm := minOver_isMin ((S.views 0).filter P) (fun a => cell S 0 a)
    constructor
    · intro x ⟨hx, hP⟩
      simp only [past]
      have := hm.lb (S.v 0 x) (by
        simp only [List.mem_filter]
        exact ⟨(S.hviews 0 hc _).mpr ⟨x, hx, rfl⟩, hP⟩)
      simpa [cell] using this
    · rcases hm.att with e | ⟨a, ha, e⟩
      · left; exact e
      · right
        simp only [List.mem_filter] at ha
        obtain ⟨x, hx, rfl⟩ := (S.hviews 0 hc a).mp ha.1
        exact ⟨x, ⟨hx, ha.2⟩, by simpa [cell, past] using e⟩
  | succ c ih =>
    have hc' : c < S.n := by omega
    have hm := minOver_isMin ((S.views (c+1)).filter P) (fun a => cell S (c+1) a)
    -- the projection entries of column c are minima over assignments with that interface
    have hproj : ∀ ι, IsMinOf (fun x => x ∈ S.univ ∧ S.i c x = ι) (past S c) (dp S c ι) := by
      intro ι
      have := ih hc' (fun a => decide (S.p c a = ι))
      rw [dp]
      refine ⟨fun x hx => this.lb x ⟨hx.1, by simpa [← S.hp] using hx.2⟩, ?_⟩
      rcases this.att with e | ⟨x, hx, e⟩
      · left; exact e
      · right; exact ⟨x, ⟨hx.1, by simpa [← S.hp] using hx.2⟩, e⟩
    constructor
    · intro x ⟨hx, hP⟩
      simp only [past]
      have hmem : S.v (c+1) x ∈ (S.views (c+1)).filter P := by
        simp only [List.mem_filter]
        exact ⟨(S.hviews (c+1) hc _).mpr ⟨x, hx, rfl⟩, hP⟩
      refine cle_trans (hm.lb _ hmem) ?_
      simp only [cell]
      apply cadd_mono _ (cle_refl _)
      exact (hproj (S.q c (S.v (c+1) x))).lb x ⟨hx, S.hq c x⟩
    · rcases hm.att with e | ⟨a, ha, e⟩
      · left; exact e
      · simp only [List.mem_filter] at ha
        obtain ⟨x0, hx0, hv0⟩ := (S.hviews (c+1) hc a).mp ha.1
        have e : cadd (dp S c (S.q c a)) (S.g (c+1) a)
            = minOver ((S.views (c+1)).filter P) (fun a => cell S (c+1) a) := by
          rw [← e, cell]
        rcases (hproj (S.q c a)).att with e' | ⟨y, ⟨hy, hiy⟩, e'⟩
        · left
          rw [← e, e']; simp [cadd]
        · right
          have hi0 : S.i c x0 = S.i c y := by rw [S.hq c x0, hv0, hiy]
          obtain ⟨z, hz, hzp, hzf⟩ := S.glue c x0 y hx0 hy hi0
          refine ⟨z, ⟨hz, ?_⟩, ?_⟩
          · rw [hzf (c+1) (by omega), hv0]; exact ha.2
          · simp only [past]
            rw [past_congr S c z y hzp, hzf (c+1) (by omega), hv0, e']
            exact e

/-- DP projection entry = min over all global assignments with that interface of the cost of columns ≤ c -/
theorem dp_spec [DecidableEq I] (S : Sys X A I) (c : Nat) (hc : c < S.n) (ι : I) :
    IsMinOf (fun x => x ∈ S.univ ∧ S.i c x = ι) (past S c) (dp S c ι) := by
  have := cell_spec S c hc (fun a => decide (S.p c a = ι))
  rw [dp]
  refine ⟨fun x hx => this.lb x ⟨hx.1, by simpa [← S.hp] using hx.2⟩, ?_⟩
  rcases this.att with e | ⟨x, hx, e⟩
  · left; exact e
  · right; exact ⟨x, ⟨hx.1, by simpa [← S.hp] using hx.2⟩, e⟩

/-- the minimum of the cells of column `c` over ALL its views is the optimum of columns `0..c` -/
theorem all_spec [DecidableEq I] (S : Sys X A I) (c : Nat) (hc : c < S.n) :
    IsMinOf (fun x => x ∈ S.univ) (past S c) (minOver (S.views c) (fun a => cell S c a)) := by
  have := cell_spec S c hc (fun _ => true)
  have hf : (S.views c).filter (fun _ => true) = S.views c := List.filter_eq_self.mpr (by simp)
  rw [hf] at this
  simpa using this

end WhVerif.InterfaceDp

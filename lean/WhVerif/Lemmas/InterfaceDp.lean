import WhVerif.Model.Cost
/-! Abstract "interface DP" correctness (DESIGN Appendix A). Core Lean only. -/
namespace WhVerif.InterfaceDp
open WhVerif.Cost

/-! ### the abstract interface DP -/

variable {X A I : Type}

structure Sys (X A I : Type) where
  n : Nat                                  -- number of columns
  univ : List X                            -- all global assignments
  v : Nat → X → A                          -- what column c sees
  i : Nat → X → I                          -- interface between c and c+1
  p : Nat → A → I                          -- i c = p c ∘ v c
  q : Nat → A → I                          -- i c = q c ∘ v (c+1)
  g : Nat → A → Option Nat                 -- local cost
  views : Nat → List A                     -- all views of column c
  hp : ∀ c x, i c x = p c (v c x)
  hq : ∀ c x, i c x = q c (v (c+1) x)
  hviews : ∀ c a, a ∈ views c ↔ ∃ x ∈ univ, v c x = a
  /-- gluing: past of y (columns ≤ c) with future of x (columns > c) when interfaces agree -/
  glue : ∀ c x y, x ∈ univ → y ∈ univ → i c x = i c y →
          ∃ z ∈ univ, (∀ c', c' ≤ c → v c' z = v c' y) ∧ (∀ c', c < c' → v c' z = v c' x)

/-- cost of columns 0..c of a global assignment -/
def past (S : Sys X A I) : Nat → X → Option Nat
  | 0, x => S.g 0 (S.v 0 x)
  | c+1, x => cadd (past S c x) (S.g (c+1) (S.v (c+1) x))

theorem past_congr (S : Sys X A I) (c : Nat) (x y : X)
    (h : ∀ c', c' ≤ c → S.v c' x = S.v c' y) : past S c x = past S c y := by
  induction c with
  | zero => simp [past, h 0 (Nat.le_refl 0)]
  | succ c ih =>
    simp only [past]
    rw [ih (fun c' hc' => h c' (by omega)), h (c+1) (Nat.le_refl _)]

/-- the DP over views only (what the implementation computes) -/
def dp [DecidableEq I] (S : Sys X A I) : Nat → I → Option Nat
  | 0, ι => minOver ((S.views 0).filter (fun a => S.p 0 a = ι)) (fun a => S.g 0 a)
  | c+1, ι => minOver ((S.views (c+1)).filter (fun a => S.p (c+1) a = ι))
                (fun a => cadd (dp S c (S.q c a)) (S.g (c+1) a))

/-- DP cell = min over all global assignments with that interface of the cost of columns ≤ c -/
theorem dp_spec [DecidableEq I] (S : Sys X A I) (c : Nat) (ι : I) :
    IsMinOf (fun x => x ∈ S.univ ∧ S.i c x = ι) (past S c) (dp S c ι) := by
  induction c generalizing ι with
  | zero =>
    have hm := minOver_isMin ((S.views 0).filter (fun a => S.p 0 a = ι)) (fun a => S.g 0 a)
    constructor
    · intro x ⟨hx, hi⟩
      simp only [dp, past]
      apply hm.lb
      simp only [List.mem_filter, decide_eq_true_eq]
      exact ⟨(S.hviews 0 _).mpr ⟨x, hx, rfl⟩, by rw [← S.hp]; exact hi⟩
    · rcases hm.att with e | ⟨a, ha, e⟩
      · left; simpa [dp] using e
      · right
        simp only [List.mem_filter, decide_eq_true_eq] at ha
        obtain ⟨x, hx, rfl⟩ := (S.hviews 0 a).mp ha.1
        exact ⟨x, ⟨hx, by rw [S.hp]; exact ha.2⟩, by simpa [dp, past] using e⟩
  | succ c ih =>
    have hm := minOver_isMin ((S.views (c+1)).filter (fun a => S.p (c+1) a = ι))
                (fun a => cadd (dp S c (S.q c a)) (S.g (c+1) a))
    constructor
    · intro x ⟨hx, hi⟩
      simp only [dp, past]
      have hmem : S.v (c+1) x ∈ (S.views (c+1)).filter (fun a => S.p (c+1) a = ι) := by
        simp only [List.mem_filter, decide_eq_true_eq]
        exact ⟨(S.hviews (c+1) _).mpr ⟨x, hx, rfl⟩, by rw [← S.hp]; exact hi⟩
      refine cle_trans (hm.lb _ hmem) ?_
      apply cadd_mono _ (cle_refl _)
      exact (ih (S.q c (S.v (c+1) x))).lb x ⟨hx, S.hq c x⟩
    · rcases hm.att with e | ⟨a, ha, e⟩
      · left; simpa [dp] using e
      · simp only [List.mem_filter, decide_eq_true_eq] at ha
        obtain ⟨x0, hx0, hv0⟩ := (S.hviews (c+1) a).mp ha.1
        rcases (ih (S.q c a)).att with e' | ⟨y, ⟨hy, hiy⟩, e'⟩
        · left
          have : dp S (c+1) ι = cadd (dp S c (S.q c a)) (S.g (c+1) a) := by simpa [dp] using e.symm
          rw [this, e']; simp [cadd]
        · right
          have hi0 : S.i c x0 = S.i c y := by rw [S.hq c x0, hv0, hiy]
          obtain ⟨z, hz, hzp, hzf⟩ := S.glue c x0 y hx0 hy hi0
          refine ⟨z, ⟨hz, ?_⟩, ?_⟩
          · rw [S.hp, hzf (c+1) (by omega), hv0]; exact ha.2
          · simp only [past]
            rw [past_congr S c z y hzp, hzf (c+1) (by omega), hv0, e']
            simpa [dp] using e

end WhVerif.InterfaceDp


import WhVerif.Lemmas.C03
/-!
# The executable oracle `connectedB` (breadth-first closure, no union-find) decides `Connected`
-/
namespace WhVerif.C03.BFS
open WhVerif.C03 WhVerif.C03.L

variable (link : Nat → Nat → Bool) (nodes : List Nat)

/-- `S` is a filter of the node list -/
def IsSub (S : List Nat) : Prop := ∃ P : Nat → Bool, S = nodes.filter P

theorem length_filter_le_of_imp (l : List Nat) (P Q : Nat → Bool) (h : ∀ x ∈ l, P x = true → Q x = true) :
    (l.filter P).length ≤ (l.filter Q).length := by
  induction l with
  | nil => simp
  | cons a as ih =>
    have ih' := ih (fun x hx => h x (List.mem_cons_of_mem _ hx))
    simp only [List.filter_cons]
    by_cases hp : P a = true
    · have hq := h a (List.mem_cons_self ..) hp
      simp [hp, hq]; exact ih'
    · by_cases hq : Q a = true
      · simp [hp, hq]; omega
      · simp [hp, hq]; exact ih'

theorem filter_eq_of_length_eq (l : List Nat) (P Q : Nat → Bool) (h : ∀ x ∈ l, P x = true → Q x = true)
    (hlen : (l.filter P).length = (l.filter Q).length) : ∀ x ∈ l, Q x = true → P x = true := by
  induction l with
  | nil => intro x hx; cases hx
  | cons a as ih =>
    have hmono := length_filter_le_of_imp as P Q (fun x hx => h x (List.mem_cons_of_mem _ hx))
    simp only [List.filter_cons] at hlen
    intro x hx hqx
    by_cases hp : P a = true
    · have hq := h a (List.mem_cons_self ..) hp
      simp only [hp, hq, if_true, List.length_cons] at hlen
      rcases List.mem_cons.mp hx with rfl | hx'
      · exact hp
      · exact ih (fun y hy => h y (List.mem_cons_of_mem _ hy)) (by omega) x hx' hqx
    · by_cases hq : Q a = true
      · simp only [hp, hq, if_true, List.length_cons] at hlen
        simp at hlen
        omega
      · simp only [hp, hq] at hlen
        rcases List.mem_cons.mp hx with rfl | hx'
        · exact absurd hqx hq
        · exact ih (fun y hy => h y (List.mem_cons_of_mem _ hy)) (by simpa using hlen) x hx' hqx

theorem mem_expand (S : List Nat) (b : Nat) :
    b ∈ expand link nodes S ↔ b ∈ nodes ∧ (b ∈ S ∨ ∃ a ∈ S, link a b = true) := by
  unfold expand
  simp [List.mem_filter]

theorem expand_isSub (S : List Nat) : IsSub nodes (expand link nodes S) := ⟨_, rfl⟩

/-- for a filter `S` of the nodes: `S ⊆ expand S`, lengths grow, and equal length means fixpoint -/
theorem expand_mono {S : List Nat} (hS : IsSub nodes S) : ∀ x ∈ S, x ∈ expand link nodes S := by
  obtain ⟨P, rfl⟩ := hS
  intro x hx
  exact (mem_expand link nodes _ x).mpr ⟨(List.mem_filter.mp hx).1, Or.inl hx⟩

theorem expand_length {S : List Nat} (hS : IsSub nodes S) :
    S.length ≤ (expand link nodes S).length ∧
    ((expand link nodes S).length = S.length → ∀ x, x ∈ expand link nodes S → x ∈ S) := by
  obtain ⟨P, rfl⟩ := hS
  have himp : ∀ x ∈ nodes, P x = true →
      ((nodes.filter P).contains x || (nodes.filter P).any (fun a => link a x)) = true := by
    intro x hx hp
    have : x ∈ nodes.filter P := List.mem_filter.mpr ⟨hx, hp⟩
    simp [this]
  constructor
  · exact length_filter_le_of_imp nodes P _ himp
  · intro hlen x hx
    unfold expand at hx hlen
    have := filter_eq_of_length_eq nodes P _ himp hlen.symm x (List.mem_filter.mp hx).1 (List.mem_filter.mp hx).2
    exact List.mem_filter.mpr ⟨(List.mem_filter.mp hx).1, this⟩

def Closed (S : List Nat) : Prop := ∀ a ∈ S, ∀ b, link a b = true → b ∈ S

/-- the closure computation returns a set that contains the start set and is closed under `link` -/
theorem closure_closed (hl : ∀ a b, link a b = true → b ∈ nodes) :
    ∀ (fuel : Nat) (S : List Nat), IsSub nodes S → nodes.length - S.length ≤ fuel →
      (∀ x ∈ S, x ∈ closure link nodes fuel S) ∧ Closed link (closure link nodes fuel S) := by
  intro fuel
  induction fuel with
  | zero =>
    intro S hS hf
    simp only [closure]
    refine ⟨fun x hx => hx, ?_⟩
    -- S has as many elements as `nodes`, so it is all of `nodes`
    obtain ⟨P, rfl⟩ := hS
    have hle := List.length_filter_le P nodes
    have hall : ∀ x ∈ nodes, P x = true := by
      have h1 : (nodes.filter P).length = (nodes.filter (fun _ => true)).length := by
        have : nodes.filter (fun _ => true) = nodes := List.filter_eq_self.mpr (fun _ _ => rfl)
        rw [this]; omega
      exact filter_eq_of_length_eq nodes P (fun _ => true) (fun _ _ _ => rfl) h1 |> fun h x hx => h x hx rfl
    intro a _ b hab
    exact List.mem_filter.mpr ⟨hl a b hab, hall b (hl a b hab)⟩
  | succ n ih =>
    intro S hS hf
    simp only [closure]
    obtain ⟨hle, hfix⟩ := expand_length link nodes hS
    by_cases hlen : (expand link nodes S).length = S.length
    · simp only [hlen, beq_self_eq_true, if_true]
      refine ⟨expand_mono link nodes hS, ?_⟩
      intro a ha b hab
      have haS := hfix hlen a ha
      exact (mem_expand link nodes S b).mpr ⟨hl a b hab, Or.inr ⟨a, haS, hab⟩⟩
    · have hne : ((expand link nodes S).length == S.length) = false := by simpa using hlen
      simp only [hne, Bool.false_eq_true, if_false]
      have hbound : (expand link nodes S).length ≤ nodes.length := List.length_filter_le _ _
      obtain ⟨h1, h2⟩ := ih (expand link nodes S) (expand_isSub link nodes S) (by omega)
      exact ⟨fun x hx => h1 x (expand_mono link nodes hS x hx), h2⟩

/-- everything found is reachable -/
theorem closure_sound : ∀ (fuel : Nat) (S : List Nat) (x : Nat), x ∈ closure link nodes fuel S →
    ∃ s ∈ S, Chain (fun a b => link a b = true) s x := by
  intro fuel
  induction fuel with
  | zero => intro S x hx; exact ⟨x, hx, .refl x⟩
  | succ n ih =>
    intro S x hx
    simp only [closure] at hx
    have hstep : ∀ y, y ∈ expand link nodes S → ∃ s ∈ S, Chain (fun a b => link a b = true) s y := by
      intro y hy
      rcases ((mem_expand link nodes S y).mp hy).2 with h | ⟨a, ha, hab⟩
      · exact ⟨y, h, .refl y⟩
      · exact ⟨a, ha, Chain.single hab⟩
    split at hx
    · exact hstep x hx
    · obtain ⟨s', hs', hc⟩ := ih _ x hx
      obtain ⟨s, hs, hc'⟩ := hstep s' hs'
      exact ⟨s, hs, Chain.trans hc' hc⟩

theorem connectedWith_iff (hl : ∀ a b, link a b = true → a ∈ nodes ∧ b ∈ nodes) (a b : Nat) :
    connectedWith link nodes a b = true ↔ Chain (fun x y => link x y = true) a b := by
  unfold connectedWith
  constructor
  · intro h
    rcases Bool.or_eq_true _ _ |>.mp h with h | h
    · have : a = b := by simpa using h
      subst this; exact .refl a
    · obtain ⟨s, hs, hc⟩ := closure_sound link nodes _ _ b (by simpa using h)
      have : s = a := by
        have := (List.mem_filter.mp hs).2
        simpa using this
      subst this; exact hc
  · intro h
    by_cases hab : a = b
    · simp [hab]
    · -- a has an outgoing link, hence is a node
      have ha : a ∈ nodes := by
        cases h with
        | refl => exact absurd rfl hab
        | step hl1 _ => exact (hl _ _ hl1).1
      have hsub : IsSub nodes (startSet nodes a) := ⟨_, rfl⟩
      obtain ⟨h1, h2⟩ := closure_closed link nodes (fun x y hxy => (hl x y hxy).2) nodes.length (startSet nodes a) hsub (by omega)
      have hstart : a ∈ closure link nodes nodes.length (startSet nodes a) :=
        h1 a (List.mem_filter.mpr ⟨ha, by simp⟩)
      have hreach : ∀ x y, Chain (fun x y => link x y = true) x y →
          x ∈ closure link nodes nodes.length (startSet nodes a) → y ∈ closure link nodes nodes.length (startSet nodes a) := by
        intro x y hc
        induction hc with
        | refl => exact fun h => h
        | step hxy _ ih => exact fun hx => ih (h2 _ hx _ hxy)
      have := hreach a b h hstart
      simp [this]

/-! ### `linkedB` reflects `Linked` -/

theorem hetOkB_iff (het : Option HetMap) (r : Read) (p : Nat) : hetOkB het r p = true ↔ hetOk het r p := by
  unfold hetOkB hetOk
  cases het with
  | none => simp
  | some h =>
    simp only
    cases hlk : h.lookup r.sample with
    | none => simp
    | some hs => simp

theorem linkedB_iff (phased : List Nat) (reads : List Read) (master : Option (List Nat)) (het : Option HetMap)
    (a b : Nat) : linkedB phased reads master het a b = true ↔ Linked phased reads master het a b := by
  unfold linkedB Linked
  rw [Bool.or_eq_true]
  constructor
  · rintro (h | h)
    · left
      obtain ⟨r, hr, hp⟩ := List.any_eq_true.mp h
      simp only [Bool.and_eq_true, List.contains_iff_mem] at hp
      obtain ⟨⟨⟨⟨⟨h1, h2⟩, h3⟩, h4⟩, h5⟩, h6⟩ := hp
      exact ⟨r, hr, h1, h2, h3, h4, (hetOkB_iff het r a).mp h5, (hetOkB_iff het r b).mp h6⟩
    · right
      cases master with
      | none => simp at h
      | some m =>
        simp only [Bool.and_eq_true, List.contains_iff_mem] at h
        exact ⟨m, rfl, h.1, h.2⟩
  · rintro (⟨r, hr, h1, h2, h3, h4, h5, h6⟩ | ⟨m, hm, h1, h2⟩)
    · left
      apply List.any_eq_true.mpr
      refine ⟨r, hr, ?_⟩
      simp only [Bool.and_eq_true, List.contains_iff_mem]
      exact ⟨⟨⟨⟨⟨h1, h2⟩, h3⟩, h4⟩, (hetOkB_iff het r a).mpr h5⟩, (hetOkB_iff het r b).mpr h6⟩
    · right
      subst hm
      simp only [Bool.and_eq_true, List.contains_iff_mem]
      exact ⟨h1, h2⟩

theorem linked_nodes {phased reads master het} {a b : Nat} (h : Linked phased reads master het a b) :
    a ∈ allNodes phased reads master ∧ b ∈ allNodes phased reads master := by
  unfold allNodes
  simp only [List.mem_eraseDups, List.mem_append, List.mem_flatMap]
  rcases h with ⟨r, hr, h1, h2, _⟩ | ⟨m, hm, h1, h2⟩
  · exact ⟨Or.inl (Or.inr ⟨r, hr, h1⟩), Or.inl (Or.inr ⟨r, hr, h2⟩)⟩
  · subst hm
    exact ⟨Or.inr (by simpa using h1), Or.inr (by simpa using h2)⟩

theorem chain_congr {L1 L2 : Nat → Nat → Prop} (h : ∀ a b, L1 a b ↔ L2 a b) {a b : Nat} :
    Chain L1 a b ↔ Chain L2 a b := by
  constructor
  · intro c; induction c with
    | refl a => exact .refl a
    | step hl _ ih => exact .step ((h _ _).mp hl) ih
  · intro c; induction c with
    | refl a => exact .refl a
    | step hl _ ih => exact .step ((h _ _).mpr hl) ih

/-- the harness's oracle is the specification -/
theorem connectedB_iff (phased : List Nat) (reads : List Read) (master : Option (List Nat)) (het : Option HetMap)
    (a b : Nat) : connectedB phased reads master het a b = true ↔ Connected phased reads master het a b := by
  unfold connectedB Connected
  rw [connectedWith_iff]
  · exact chain_congr (fun x y => linkedB_iff phased reads master het x y)
  · intro x y hxy
    exact linked_nodes ((linkedB_iff phased reads master het x y).mp hxy)

end WhVerif.C03.BFS

import WhVerif.Model.C11
import WhVerif.Spec.C11
/-! Helper lemmas for the C11 theorems (diploid functions of `compare.py`). Core Lean only. -/
namespace WhVerif.C11

/-! ### binary strings and `complement` -/

def IsBinary (s : Hap) : Prop := ∀ x ∈ s, x = 0 ∨ x = 1

def flipBits (s : Hap) : Hap := s.map (fun x => 1 - x)

instance (s : Hap) : Decidable (IsBinary s) := by unfold IsBinary; infer_instance

@[simp] theorem flipBits_length (s : Hap) : (flipBits s).length = s.length := by simp [flipBits]

theorem isBinary_cons {x : Nat} {s : Hap} : IsBinary (x :: s) ↔ (x = 0 ∨ x = 1) ∧ IsBinary s := by
  simp [IsBinary]

theorem isBinary_flipBits (s : Hap) : IsBinary (flipBits s) := by
  intro x hx
  simp [flipBits] at hx
  obtain ⟨y, _, rfl⟩ := hx
  omega

theorem complement_eq_some_iff (s c : Hap) : complement s = some c ↔ IsBinary s ∧ c = flipBits s := by
  induction s generalizing c with
  | nil => simp [complement, IsBinary, flipBits]
  | cons x t ih =>
    simp only [complement, isBinary_cons]
    by_cases h0 : x = 0
    · subst h0
      cases hc : complement t with
      | none =>
        simp
        intro hb hcc
        have := (ih (flipBits t)).2 ⟨hb, rfl⟩
        simp [hc] at this
      | some c' =>
        have := (ih c').1 hc
        simp [flipBits] at this ⊢
        constructor
        · rintro rfl; exact ⟨this.1, by simp [this.2]⟩
        · rintro ⟨_, rfl⟩; simp [this.2]
    · by_cases h1 : x = 1
      · subst h1
        cases hc : complement t with
        | none =>
          simp
          intro hb hcc
          have := (ih (flipBits t)).2 ⟨hb, rfl⟩
          simp [hc] at this
        | some c' =>
          have := (ih c').1 hc
          simp [flipBits] at this ⊢
          constructor
          · rintro rfl; exact ⟨this.1, by simp [this.2]⟩
          · rintro ⟨_, rfl⟩; simp [this.2]
      · simp [h0, h1]

theorem complement_of_binary {s : Hap} (h : IsBinary s) : complement s = some (flipBits s) :=
  (complement_eq_some_iff s _).2 ⟨h, rfl⟩

/-! ### `hamming` -/

@[simp] theorem hamming_nil_left {α} [DecidableEq α] (t : List α) : hamming ([] : List α) t = 0 := by
  simp [hamming]

@[simp] theorem hamming_nil_right {α} [DecidableEq α] (s : List α) : hamming s ([] : List α) = 0 := by
  cases s <;> simp [hamming]

@[simp] theorem hamming_cons {α} [DecidableEq α] (a b : α) (s t : List α) :
    hamming (a :: s) (b :: t) = (if a = b then 0 else 1) + hamming s t := by
  simp [hamming]

@[simp] theorem hamming_self {α} [DecidableEq α] (s : List α) : hamming s s = 0 := by
  induction s with
  | nil => simp
  | cons a t ih => simp [ih]

theorem hamming_comm {α} [DecidableEq α] (s t : List α) : hamming s t = hamming t s := by
  induction s generalizing t with
  | nil => simp
  | cons a s ih =>
    cases t with
    | nil => simp
    | cons b t => simp [ih t, eq_comm]

theorem hamming_le_length {α} [DecidableEq α] (s t : List α) : hamming s t ≤ s.length := by
  induction s generalizing t with
  | nil => simp
  | cons a s ih =>
    cases t with
    | nil => simp
    | cons b t => have := ih t; simp; split <;> omega

/-- for binary strings of equal length, the distance to the complement is `n - d` -/
theorem hamming_flip_right {a b : Hap} (ha : IsBinary a) (hb : IsBinary b) (hl : a.length = b.length) :
    hamming a (flipBits b) + hamming a b = a.length := by
  induction a generalizing b with
  | nil => simp
  | cons x a ih =>
    cases b with
    | nil => simp at hl
    | cons y b =>
      rw [isBinary_cons] at ha hb
      have := ih ha.2 hb.2 (by simpa using hl)
      simp [flipBits] at this ⊢
      rcases ha.1 with rfl | rfl <;> rcases hb.1 with rfl | rfl <;> simp <;> omega

theorem hamming_flip_flip {a b : Hap} (ha : IsBinary a) (hb : IsBinary b) :
    hamming (flipBits a) (flipBits b) = hamming a b := by
  induction a generalizing b with
  | nil => simp [flipBits]
  | cons x a ih =>
    cases b with
    | nil => simp [flipBits]
    | cons y b =>
      rw [isBinary_cons] at ha hb
      have := ih ha.2 hb.2
      simp [flipBits] at this ⊢
      rcases ha.1 with rfl | rfl <;> rcases hb.1 with rfl | rfl <;> simp [this]

/-! ### `switchEncoding` -/

@[simp] theorem switchEncoding_cons_cons (a b : Nat) (t : Hap) :
    switchEncoding (a :: b :: t) = (if a = b then 0 else 1) :: switchEncoding (b :: t) := by
  simp [switchEncoding]

theorem switchEncoding_flipBits {s : Hap} (h : IsBinary s) : switchEncoding (flipBits s) = switchEncoding s := by
  induction s with
  | nil => simp [flipBits, switchEncoding]
  | cons x t ih =>
    cases t with
    | nil => simp [flipBits, switchEncoding]
    | cons y t =>
      rw [isBinary_cons] at h
      have ih' := ih h.2
      have hy := (isBinary_cons.1 h.2).1
      simp [flipBits] at ih' ⊢
      refine ⟨?_, ih'⟩
      rcases h.1 with rfl | rfl <;> rcases hy with rfl | rfl <;> simp

theorem switchEncoding_length (s : Hap) : (switchEncoding s).length = s.length - 1 := by
  induction s with
  | nil => simp [switchEncoding]
  | cons x t ih =>
    cases t with
    | nil => simp [switchEncoding]
    | cons y t => simp at ih ⊢; omega

/-! ### the run-length loop -/

def diffCount (l : List (Nat × Nat)) : Nat := (l.filter (fun p => p.1 ≠ p.2)).length

theorem hamming_eq_diffCount (a b : Hap) : hamming a b = diffCount (a.zip b) := by
  induction a generalizing b with
  | nil => simp [diffCount]
  | cons x a ih =>
    cases b with
    | nil => simp [diffCount]
    | cons y b =>
      simp [diffCount, List.filter_cons] at ih ⊢
      rw [ih b]
      split <;> simp_all <;> omega

theorem sfLoop_inv (l : List (Nat × Nat)) (run : Nat) (r : SwitchFlips) (h : l ≠ [] ∨ run = 0) :
    (sfLoop l run r).switches + 2 * (sfLoop l run r).flips
      = r.switches + 2 * r.flips + run + diffCount l := by
  induction l generalizing run r with
  | nil =>
    rcases h with h | h
    · exact absurd rfl h
    · simp [sfLoop, diffCount, h]
  | cons pq rest ih =>
    obtain ⟨p0, p1⟩ := pq
    simp only [sfLoop]
    by_cases hflush : (rest.isEmpty || decide (p0 = p1)) = true
    · rw [if_pos hflush]
      rw [ih 0 _ (Or.inr rfl)]
      by_cases hp : p0 = p1
      · simp [hp, diffCount]; omega
      · simp [hp, diffCount]; omega
    · rw [if_neg hflush]
      simp at hflush
      have hne : rest ≠ [] := by
        intro h0; simp [h0] at hflush
      rw [ih _ r (Or.inl hne)]
      simp [hflush.2, diffCount]; omega

theorem sfLoop_diag (s : Hap) (r : SwitchFlips) : sfLoop (s.zip s) 0 r = r := by
  induction s generalizing r with
  | nil => simp [sfLoop]
  | cons x t ih => simp [sfLoop, ih]

/-! ### `agreeEq` / `agreeNe` -/

theorem zerosOf_agreeEq (a b : Hap) : zerosOf (agreeEq a b) = hamming a b := by
  induction a generalizing b with
  | nil => simp [agreeEq, zerosOf]
  | cons x a ih =>
    cases b with
    | nil => simp [agreeEq, zerosOf]
    | cons y b =>
      have := ih b
      simp [agreeEq, zerosOf, List.filter_cons] at this ⊢
      split <;> simp_all <;> omega

theorem zerosOf_agreeNe (a b : Hap) (hl : a.length = b.length) :
    zerosOf (agreeNe a b) + hamming a b = a.length := by
  induction a generalizing b with
  | nil => simp [agreeNe, zerosOf]
  | cons x a ih =>
    cases b with
    | nil => simp at hl
    | cons y b =>
      have := ih b (by simpa using hl)
      simp [agreeNe, zerosOf, List.filter_cons] at this ⊢
      split <;> simp_all <;> omega

/-! ### two-element columns, `perms 2`, `bijections 2` -/

theorem perms_two : perms 2 = [[0, 1], [1, 0]] := by decide

theorem bijections_two : Spec.bijections 2 = [[0, 1], [1, 0]] := by decide

theorem sortNat_pair_comm (x y : Nat) : sortNat [x, y] = sortNat [y, x] := by
  simp [sortNat, insertSorted]
  split <;> split <;> simp_all <;> omega

theorem minHammingNum_two (a0 a1 b0 b1 : Hap) :
    minHammingNum [a0, a1] [b0, b1] = min (hamming b0 a0 + hamming b1 a1) (hamming b0 a1 + hamming b1 a0) := by
  simp [minHammingNum, perms_two, permHamming, listMin]

theorem spec_minHammingNum_two (a0 a1 b0 b1 : Hap) :
    Spec.minHammingNum [a0, a1] [b0, b1] = min (hamming b0 a0 + hamming b1 a1) (hamming b0 a1 + hamming b1 a0) := by
  have h2 : List.range 2 = [0, 1] := by decide
  simp [Spec.minHammingNum, bijections_two, Spec.corrDist, listMin, h2]

/-! ### diploid heterozygous phasings -/

/-- a diploid phasing of heterozygous biallelic variants: a binary string and its complement -/
def dipl (a : Hap) : List Hap := [a, flipBits a]

/-- `compareBlock` on two-haplotype input, all branches resolved -/
theorem compareBlock_two (fixA fixB : Bool) (a0 a1 b0 b1 : Hap) :
    compareBlock fixA fixB [a0, a1] [b0, b1] =
      if a1.length = a0.length ∧ b0.length = a0.length ∧ b1.length = a0.length then
        some { switches := hamming (switchEncoding a0) (switchEncoding b0)
               hamming := min (hamming b0 a0 + hamming b1 a1) (hamming b0 a1 + hamming b1 a0) / 2
               sf := computeSwitchFlips a0 b0
               diffGenotypes := a0.length - (matchingPos [a0, a1] [b0, b1] a0.length).length
               den := 1 }
      else none := by
  unfold compareBlock
  simp only [wellFormed, List.length_cons, List.length_nil, List.headD_cons, minHammingNum_two]
  by_cases h : a1.length = a0.length ∧ b0.length = a0.length ∧ b1.length = a0.length
  · simp [h]
  · simp [h]

theorem agreementFixed_dipl (a b : Hap) (hb : IsBinary b) :
    agreementFixed (dipl a) (dipl b)
      = some (if hamming a b < hamming a (flipBits b) then agreeEq a b else agreeNe a b) := by
  show (match complement b with
        | none => none
        | some cb => some (if hamming a b < hamming a cb then agreeEq a b else agreeNe a b)) = _
  rw [complement_of_binary hb]

theorem matchingPos_swap_left (a0 a1 b0 b1 : Hap) (n : Nat) :
    matchingPos [a1, a0] [b0, b1] n = matchingPos [a0, a1] [b0, b1] n := by
  simp only [matchingPos, column, List.map_cons, List.map_nil]
  congr 1; funext i
  rw [sortNat_pair_comm]

theorem matchingPos_swap_right (a0 a1 b0 b1 : Hap) (n : Nat) :
    matchingPos [a0, a1] [b1, b0] n = matchingPos [a0, a1] [b0, b1] n := by
  simp only [matchingPos, column, List.map_cons, List.map_nil]
  congr 1; funext i
  rw [sortNat_pair_comm (b1.getD i 0)]

theorem matchingPos_self (ph : List Hap) (n : Nat) : (matchingPos ph ph n).length = n := by
  simp [matchingPos, List.filter_eq_self.2]

end WhVerif.C11

import WhVerif.Lemmas.C05SolverPart
import WhVerif.Lemmas.C01WitnessAlleles
import WhVerif.Lemmas.C01WitnessMain
/-!
# C05 / solver: the child's super-read entry in a column where it is heterozygous and a parent is homozygous

On the C01 model (`assignments`, `getAlleles`, `witness`): every admissible allele assignment of such a column gives
the child the same two (different) alleles, so neither haplotype can be flagged `EQUAL_SCORES` (`nontie_forced`),
whatever the read costs are; every column of the back-traced witness is feasible; lookup of a column in the
super-read list.
-/
namespace WhVerif.C05.Solver
open WhVerif.C01 WhVerif.Cost

/-! ### admissible assignments -/

theorem foldl_cadd_none {α} (f : α → Option Nat) : ∀ (l : List α),
    l.foldl (fun acc x => cadd acc (f x)) none = none := by
  intro l
  induction l with
  | nil => rfl
  | cons y l ih => rw [List.foldl_cons, cadd_none_left]; exact ih

theorem foldl_cadd_some {α} (f : α → Option Nat) : ∀ (l : List α) (a : Option Nat) (g : Nat),
    l.foldl (fun acc x => cadd acc (f x)) a = some g → ∀ x ∈ l, f x ≠ none := by
  intro l
  induction l with
  | nil => intro a g _ x hx; cases hx
  | cons y l ih =>
    intro a g h x hx
    rw [List.foldl_cons] at h
    rcases List.mem_cons.mp hx with rfl | hx'
    · intro hn
      rw [hn, cadd_none_right, foldl_cadd_none] at h
      cases h
    · exact ih _ g h x hx'

theorem assignCost_some (I : Inst) (c t α g : Nat) (h : assignCost I c t α = some g) (ind : Nat)
    (hind : ind < I.nind) :
    gcost I ind c (bitOf α (h2p I t ind 0) + bitOf α (h2p I t ind 1)) ≠ none := by
  unfold assignCost at h
  exact foldl_cadd_some (fun ind => gcost I ind c (bitOf α (h2pOf (h2pMap I t) ind 0) +
    bitOf α (h2pOf (h2pMap I t) ind 1))) _ _ _ h ind (List.mem_range.mpr hind)

theorem mem_assignments (I : Inst) (c t : Nat) (ag : Nat × Nat) (h : ag ∈ assignments I c t) :
    assignCost I c t ag.1 = some ag.2 := by
  unfold assignments at h
  obtain ⟨α, _, hα⟩ := List.mem_filterMap.mp h
  cases hc : assignCost I c t α with
  | none => rw [hc] at hα; cases hα
  | some g =>
    rw [hc] at hα
    simp only [Option.map_some, Option.some.injEq] at hα
    subst hα
    exact hc

/-- in a column where the child is 0/1, every admissible assignment gives the child two different alleles, the
first an allele of the father's genotype (the one on the haplotype selected by the transmission value), the second
an allele of the mother's; a homozygous parent determines both -/
theorem child_bits (I : Inst) (hok : PedOK I) (c t k f mo ch : Nat) (htr : I.trios[k]? = some (f, mo, ch))
    (hhet : HetAt I ch c) (ag : Nat × Nat) (hag : ag ∈ assignments I c t) :
    bitOf ag.1 (h2p I t ch 0) + bitOf ag.1 (h2p I t ch 1) = 1 ∧
    (∀ x, HomAt I f c x → bitOf ag.1 (h2p I t ch 0) = x) ∧
    (∀ y, HomAt I mo c y → bitOf ag.1 (h2p I t ch 1) = y) ∧
    HasAllele I f c (bitOf ag.1 (h2p I t ch 0)) ∧ HasAllele I mo c (bitOf ag.1 (h2p I t ch 1)) := by
  have hcost := mem_assignments I c t ag hag
  have hmem := hok.members _ (List.mem_of_getElem? htr)
  simp only at hmem
  have hC := assignCost_some I c t ag.1 ag.2 hcost ch hmem.2.2
  have hF := assignCost_some I c t ag.1 ag.2 hcost f hmem.1
  have hM := assignCost_some I c t ag.1 ag.2 hcost mo hmem.2.1
  obtain ⟨p0, p1⟩ := trio_partitions I hok t k f mo ch htr
  have e0 : bitOf ag.1 (h2p I t ch 0) =
      if bitOf t (2 * k) = 1 then bitOf ag.1 (h2p I t f 0) else bitOf ag.1 (h2p I t f 1) := by
    rw [p0]; split <;> rfl
  have e1 : bitOf ag.1 (h2p I t ch 1) =
      if bitOf t (2 * k + 1) = 1 then bitOf ag.1 (h2p I t mo 0) else bitOf ag.1 (h2p I t mo 1) := by
    rw [p1]; split <;> rfl
  have hb0 := bitOf_lt ag.1 (h2p I t f 0)
  have hb1 := bitOf_lt ag.1 (h2p I t f 1)
  have hm0 := bitOf_lt ag.1 (h2p I t mo 0)
  have hm1 := bitOf_lt ag.1 (h2p I t mo 1)
  have hc0 := bitOf_lt ag.1 (h2p I t ch 0)
  have hc1 := bitOf_lt ag.1 (h2p I t ch 1)
  generalize bitOf ag.1 (h2p I t f 0) = b0 at *
  generalize bitOf ag.1 (h2p I t f 1) = b1 at *
  generalize bitOf ag.1 (h2p I t mo 0) = m0 at *
  generalize bitOf ag.1 (h2p I t mo 1) = m1 at *
  generalize bitOf ag.1 (h2p I t ch 0) = c0 at *
  generalize bitOf ag.1 (h2p I t ch 1) = c1 at *
  have hsum : c0 + c1 = 1 := by
    rcases hc0 with h0 | h0 <;> rcases hc1 with h1 | h1 <;> subst h0 <;> subst h1
    · exact absurd hhet.1 hC
    · rfl
    · rfl
    · exact absurd hhet.2 hC
  have hc0b : c0 = b0 ∨ c0 = b1 := by rw [e0]; split <;> simp
  have hc1m : c1 = m0 ∨ c1 = m1 := by rw [e1]; split <;> simp
  refine ⟨hsum, ?_, ?_, ?_, ?_⟩
  · rintro x ⟨hx, hall⟩
    have : b0 + b1 = 2 * x := by
      apply Classical.byContradiction
      intro hne; exact hF (hall _ hne)
    omega
  · rintro y ⟨hy, hall⟩
    have : m0 + m1 = 2 * y := by
      apply Classical.byContradiction
      intro hne; exact hM (hall _ hne)
    omega
  · unfold HasAllele
    by_cases hbb : b0 = b1
    · right
      have : b0 + b1 = 2 * c0 := by omega
      rw [← this]; exact hF
    · left
      have : b0 + b1 = 1 := by omega
      rw [← this]; exact hF
  · unfold HasAllele
    by_cases hbb : m0 = m1
    · right
      have : m0 + m1 = 2 * c1 := by omega
      rw [← this]; exact hM
    · left
      have : m0 + m1 = 1 := by omega
      rw [← this]; exact hM

/-- **the child's `get_alleles` entry**: two definite alleles (no tie flag), different, the first from the father,
the second from the mother — for ANY bipartition `bs` of the active reads (in particular no reads at all) -/
theorem child_entry (I : Inst) (hok : PedOK I) (c : Nat) (bs : List Bool) (t k f mo ch : Nat)
    (htr : I.trios[k]? = some (f, mo, ch)) (hhet : HetAt I ch c)
    (hhom : (∃ x, HomAt I f c x) ∨ (∃ y, HomAt I mo c y))
    (L : List (Nat × Nat)) (hL : getAlleles I c bs t = some L) :
    reported L ch 0 ≤ 1 ∧ reported L ch 1 ≤ 1 ∧ reported L ch 0 ≠ reported L ch 1 ∧
    HasAllele I f c (reported L ch 0) ∧ HasAllele I mo c (reported L ch 1) ∧
    (∀ x, HomAt I f c x → reported L ch 0 = x) ∧ (∀ y, HomAt I mo c y → reported L ch 1 = y) ∧
    (∀ ag, IsOptAssign I c bs t ag →
      bitOf ag.1 (h2p I t ch 0) = reported L ch 0 ∧ bitOf ag.1 (h2p I t ch 1) = reported L ch 1) := by
  have hne : assignments I c t ≠ [] := by
    intro h; rw [(getAlleles_none_iff I c bs t).mpr h] at hL; cases hL
  have hch : ch < I.nind := (hok.members _ (List.mem_of_getElem? htr)).2.2
  obtain ⟨ag0, hopt0⟩ := opt_assign_exists I c bs t hne
  -- all admissible assignments agree with `ag0` on the child's two partitions
  have hsame : ∀ ag ∈ assignments I c t,
      bitOf ag.1 (h2p I t ch 0) = bitOf ag0.1 (h2p I t ch 0) ∧
      bitOf ag.1 (h2p I t ch 1) = bitOf ag0.1 (h2p I t ch 1) := by
    intro ag hag
    obtain ⟨s, hf, hm, _, _⟩ := child_bits I hok c t k f mo ch htr hhet ag hag
    obtain ⟨s0, hf0, hm0, _, _⟩ := child_bits I hok c t k f mo ch htr hhet ag0 hopt0.1
    rcases hhom with ⟨x, hx⟩ | ⟨y, hy⟩
    · have := hf x hx; have := hf0 x hx; omega
    · have := hm y hy; have := hm0 y hy; omega
  have hrep : ∀ h, h = 0 ∨ h = 1 → reported L ch h = bitOf ag0.1 (h2p I t ch h) := by
    intro h hh
    obtain ⟨_, h2, h3⟩ := nontie_forced I c bs t L hL ch h hch hh
    by_cases h3' : reported L ch h = 3
    · obtain ⟨⟨a, ha, ha0⟩, ⟨b, hb, hb1⟩⟩ := h3 h3'
      have e1 := hsame a ha.1
      have e2 := hsame b hb.1
      rcases hh with rfl | rfl
      · rw [ha0] at e1; rw [hb1] at e2; omega
      · rw [ha0] at e1; rw [hb1] at e2; omega
    · exact (h2 h3' ag0 hopt0).symm
  obtain ⟨s0, hf0, hm0, ha0, ha1⟩ := child_bits I hok c t k f mo ch htr hhet ag0 hopt0.1
  have r0 := hrep 0 (Or.inl rfl)
  have r1 := hrep 1 (Or.inr rfl)
  have hb0 := bitOf_lt ag0.1 (h2p I t ch 0)
  have hb1 := bitOf_lt ag0.1 (h2p I t ch 1)
  refine ⟨by omega, by omega, by omega, by rw [r0]; exact ha0, by rw [r1]; exact ha1,
    fun x hx => by rw [r0]; exact hf0 x hx, fun y hy => by rw [r1]; exact hm0 y hy, fun ag hag => ?_⟩
  rw [r0, r1]
  exact hsame ag hag.1

/-! ### every column of the witness is feasible -/

theorem costUpTo_some (I : Inst) (β : List Bool) (τ : List Nat) : ∀ (n v : Nat),
    costUpTo I β τ n = some v → ∀ c, c ≤ n → colTotal I β τ c ≠ none := by
  intro n
  induction n with
  | zero =>
    intro v h c hc
    have : c = 0 := by omega
    subst this
    rw [costUpTo] at h; rw [h]; simp
  | succ n ih =>
    intro v h c hc
    rw [costUpTo] at h
    cases h1 : costUpTo I β τ n with
    | none => rw [h1, cadd_none_left] at h; cases h
    | some v1 =>
      cases h2 : colTotal I β τ (n + 1) with
      | none => rw [h2, cadd_none_right] at h; cases h
      | some v2 =>
        by_cases hcn : c = n + 1
        · subst hcn; rw [h2]; simp
        · exact ih v1 h1 c (by omega)

theorem witness_feasible (I : Inst) (hwf : WF I) (β : List Bool) (τ : List Nat) (hw : witness I = some (β, τ))
    (c : Nat) (hc : c < I.ncols) : assignments I c (τ.getD c 0) ≠ [] := by
  obtain ⟨_, _, _, htot⟩ := dp_witness I hwf β τ hw
  have hdp : dpCost I ≠ none := by
    intro h; rw [(witness_none_iff I).mpr h] at hw; cases hw
  cases hv : totalCost I β τ with
  | none => rw [hv] at htot; exact absurd htot.symm hdp
  | some v =>
    unfold totalCost at hv
    rw [if_neg (by omega)] at hv
    have hcol := costUpTo_some I β τ _ v hv c (by omega)
    intro hnil
    apply hcol
    unfold colTotal colCost
    rw [hnil]
    simp

theorem superReadColumn_some (I : Inst) (hwf : WF I) (β : List Bool) (τ : List Nat)
    (hw : witness I = some (β, τ)) (c : Nat) (hc : c < I.ncols) : ∃ L, superReadColumn I β τ c = some L := by
  cases h : superReadColumn I β τ c with
  | some L => exact ⟨L, rfl⟩
  | none =>
    unfold superReadColumn at h
    exact absurd ((getAlleles_none_iff I c _ _).mp h) (witness_feasible I hwf β τ hw c hc)

theorem solverColumns_some (I : Inst) (hwf : WF I) (β : List Bool) (τ : List Nat) (hw : witness I = some (β, τ)) :
    ∃ cols, solverColumns I = some cols ∧ cols.length = I.ncols ∧
      ∀ c, c < I.ncols → ∃ L, superReadColumn I β τ c = some L ∧ cols[c]? = some L := by
  have hall : ((List.range I.ncols).map (superReadColumn I β τ)).all Option.isSome = true := by
    rw [List.all_eq_true]
    intro o ho
    obtain ⟨c, hc, rfl⟩ := List.mem_map.mp ho
    obtain ⟨L, hL⟩ := superReadColumn_some I hwf β τ hw c (List.mem_range.mp hc)
    rw [hL]; rfl
  refine ⟨((List.range I.ncols).map (superReadColumn I β τ)).map (·.getD []), ?_, by simp, ?_⟩
  · unfold solverColumns
    rw [hw]
    simp only [hall, if_true]
  · intro c hc
    obtain ⟨L, hL⟩ := superReadColumn_some I hwf β τ hw c hc
    refine ⟨L, hL, ?_⟩
    simp [hc, hL]

/-! ### lookup of a column in the super-read list -/

theorem lookup_zip_map {β γ} (g : β → γ) : ∀ (ks : List Nat) (vs : List β) (c : Nat) (k : Nat) (v : β),
    ks.Nodup → ks[c]? = some k → vs[c]? = some v →
    ((ks.zip vs).map (fun pc => (pc.1, g pc.2))).lookup k = some (g v) := by
  intro ks
  induction ks with
  | nil => intro vs c k v _ h; simp at h
  | cons k0 ks ih =>
    intro vs c k v hnd hk hv
    cases vs with
    | nil => simp at hv
    | cons v0 vs =>
      cases c with
      | zero =>
        simp only [List.getElem?_cons_zero, Option.some.injEq] at hk hv
        subst hk; subst hv
        simp
      | succ c =>
        simp only [List.getElem?_cons_succ] at hk hv
        have hne : k ≠ k0 := by
          intro e; subst e
          exact (List.nodup_cons.mp hnd).1 (List.mem_of_getElem? hk)
        have hb : (k == k0) = false := by simpa using hne
        simp only [List.zip_cons_cons, List.map_cons, List.lookup_cons, hb]
        exact ih vs c k v (List.nodup_cons.mp hnd).2 hk hv

/-- the writer's view: the entry of column `c` in the super-read list of individual `ind` is `get_alleles` of
that column under the witness -/
theorem solverSuperReads_lookup (I : Inst) (hwf : WF I) (β : List Bool) (τ : List Nat)
    (hw : witness I = some (β, τ)) (positions : List Nat) (hlen : positions.length = I.ncols)
    (hnd : positions.Nodup) (ind c : Nat) (hc : c < I.ncols) :
    ∃ sr L, solverSuperReads I positions ind = some sr ∧ superReadColumn I β τ c = some L ∧
      sr.lookup (positions.getD c 0) = some (L.getD ind (0, 0)) := by
  obtain ⟨cols, hcols, _, hcol⟩ := solverColumns_some I hwf β τ hw
  obtain ⟨L, hL, hLc⟩ := hcol c hc
  refine ⟨_, L, by unfold solverSuperReads; rw [hcols]; rfl, hL, ?_⟩
  have hk : positions[c]? = some (positions.getD c 0) := by
    rw [List.getD_eq_getElem?_getD, List.getElem?_eq_getElem (by omega)]; rfl
  exact lookup_zip_map (fun l : List (Nat × Nat) => l.getD ind (0, 0)) positions cols c _ L hnd hk hLc

theorem reported_zero (L : List (Nat × Nat)) (ind : Nat) : reported L ind 0 = (L.getD ind (0, 0)).1 := rfl
theorem reported_one (L : List (Nat × Nat)) (ind : Nat) : reported L ind 1 = (L.getD ind (0, 0)).2 := rfl

end WhVerif.C05.Solver

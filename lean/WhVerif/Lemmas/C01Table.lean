import WhVerif.Model.C01
import WhVerif.Lemmas.C01Gray
/-!
# C01: the incremental cost table of `PedigreeColumnCostComputer`

* `colCostTab_eq_colCost`: `get_cost()` computed through the table `cost_partition[p][allele]` filled by
  `set_partitioning` equals the direct per-read definition `colCost`, under `TabWF` (every non-BLANK entry of
  the column has allele 0/1 and both partitions of its individual are `< npart`).
* `flipTable` mirrors `update_partitioning(bit_to_flip)`; `flip_eq_set`: flipping bit `i` of a table produced by
  `set_partitioning(bs)` gives exactly the table of `set_partitioning(bs with bit i negated)`.  No range or
  allele side condition is needed and the truncated `Nat` subtraction never truncates (`flip_no_underflow`).

* `walk_in_sync`: along the Gray-code loop of `compute_column` (first `set_partitioning`, then
  `update_partitioning(changed bit)`), the table always equals `set_partitioning(current code)`.

Core Lean only.
-/
namespace WhVerif.C01
open WhVerif.Cost

/-! ## one table update -/

/-- `cost_partition[p][al == REF ? 1 : 0] += w` on the entry of partition `p` -/
def addW (al w : Nat) (e : Nat × Nat) : Nat × Nat := if al = 0 then (e.1, e.2 + w) else (e.1 + w, e.2)
/-- `cost_partition[p][al == REF ? 1 : 0] -= w` (truncated subtraction; see `flip_no_underflow`) -/
def subW (al w : Nat) (e : Nat × Nat) : Nat × Nat := if al = 0 then (e.1, e.2 - w) else (e.1 - w, e.2)

/-- the body of the loop of `set_partitioning` for one (read, bit) -/
def tabStep (I : Inst) (c : Nat) (hm : List (Option (Nat × Nat))) (tab : List (Nat × Nat)) (rb : Nat × Bool) :
    List (Nat × Nat) :=
  match (I.read rb.1).entryAt c with
  | none => tab
  | some (al, w) => tab.modify (h2pOf hm (I.read rb.1).ind (if rb.2 then 1 else 0)) (addW al w)

theorem costTable_eq_foldl (I : Inst) (c t : Nat) (bs : List Bool) :
    costTable I c t bs =
      ((I.activeAt c).zip bs).foldl (tabStep I c (h2pMap I t)) (List.replicate I.npart (0, 0)) := by
  rfl

theorem subW_addW (al w : Nat) (e : Nat × Nat) : subW al w (addW al w e) = e := by
  unfold subW addW; split <;> simp

theorem addW_comm (al w al' w' : Nat) (e : Nat × Nat) :
    addW al w (addW al' w' e) = addW al' w' (addW al w e) := by
  unfold addW; split <;> split <;> simp <;> omega

/-! ## (a) table cost = per-read cost -/

def pick (α : Nat) (ep : (Nat × Nat) × Nat) : Nat := if bitOf α ep.2 = 0 then ep.1.1 else ep.1.2

theorem tableCost_eq_pick (tab : List (Nat × Nat)) (α : Nat) :
    tableCost tab α = ((tab.zipIdx 0).map (pick α)).sum := rfl

theorem bitOf_lt_two (x i : Nat) : bitOf x i < 2 := by unfold bitOf; omega

theorem sum_modify_addW (tab : List (Nat × Nat)) (k p α al w : Nat) (hp : p < tab.length) (hal : al ≤ 1) :
    (((tab.modify p (addW al w)).zipIdx k).map (pick α)).sum =
      ((tab.zipIdx k).map (pick α)).sum + (if bitOf α (k + p) = al then 0 else w) := by
  induction tab generalizing k p with
  | nil => simp at hp
  | cons e tab ih =>
    cases p with
    | zero =>
      have := bitOf_lt_two α k
      simp only [List.modify_zero_cons, List.zipIdx_cons, List.map_cons, List.sum_cons, Nat.add_zero]
      unfold pick addW
      simp only
      split <;> split <;> split <;> simp_all <;> omega
    | succ p =>
      simp only [List.modify_succ_cons, List.zipIdx_cons, List.map_cons, List.sum_cons]
      rw [ih (k + 1) p (by simpa using hp)]
      have : k + 1 + p = k + (p + 1) := by omega
      rw [this]; omega

theorem sum_replicate_zero (n k α : Nat) :
    (((List.replicate n ((0, 0) : Nat × Nat)).zipIdx k).map (pick α)).sum = 0 := by
  induction n generalizing k with
  | zero => simp
  | succ n ih =>
    simp only [List.replicate_succ, List.zipIdx_cons, List.map_cons, List.sum_cons, ih]
    unfold pick; simp

/-- the condition under which the table faithfully represents the per-read costs of column `c` under
transmission value `t`: every non-BLANK entry has allele 0 (REF) or 1 (ALT), and both partitions of the
read's individual are valid indices into `cost_partition` -/
def TabWF (I : Inst) (c t : Nat) : Prop :=
  ∀ r ∈ I.activeAt c, ∀ al w, (I.read r).entryAt c = some (al, w) →
    al ≤ 1 ∧ ∀ h, h2pOf (h2pMap I t) (I.read r).ind h < I.npart

/-- the side condition as stated in the task (+ alleles are 0/1) is sufficient -/
theorem TabWF_of_range (I : Inst) (c t : Nat)
    (hpart : ∀ r ∈ I.activeAt c, ∀ h, h2pOf (h2pMap I t) (I.read r).ind h < I.npart)
    (hal : ∀ r ∈ I.activeAt c, ∀ e ∈ (I.read r).entries, e.2.1 ≤ 1) : TabWF I c t := by
  intro r hr al w he
  refine ⟨?_, hpart r hr⟩
  unfold Read.entryAt at he
  cases hf : (I.read r).entries.find? (fun e => e.1 == c) with
  | none => simp [hf] at he
  | some e =>
    simp [hf] at he
    have := hal r hr e (List.mem_of_find?_eq_some hf)
    omega

/-- decidable form of the side condition (only haplotypes 0 and 1 matter) -/
theorem TabWF_of_check (I : Inst) (c t : Nat)
    (h : ∀ r ∈ I.activeAt c, (h2pOf (h2pMap I t) (I.read r).ind 0 < I.npart ∧
        h2pOf (h2pMap I t) (I.read r).ind 1 < I.npart) ∧ ∀ e ∈ (I.read r).entries, e.2.1 ≤ 1) : TabWF I c t := by
  apply TabWF_of_range
  · intro r hr hh
    have := (h r hr).1
    unfold h2pOf at this ⊢
    split <;> simp_all
    split <;> simp_all
  · intro r hr; exact (h r hr).2

/-- non-vacuity: a trio (father 0, mother 1, child 2), one read per individual, transmission value 2 -/
def exTrio : Inst :=
  { ncols := 1, nind := 3, trios := [(0, 1, 2)], geno := [], recomb := [0],
    reads := [⟨0, 0, 0, [(0, 1, 5)]⟩, ⟨1, 0, 0, [(0, 0, 7)]⟩, ⟨2, 0, 0, [(0, 1, 3)]⟩] }

example : TabWF exTrio 0 2 := by
  apply TabWF_of_check; decide

theorem tabStep_length (I : Inst) (c : Nat) (hm) (tab : List (Nat × Nat)) (rb : Nat × Bool) :
    (tabStep I c hm tab rb).length = tab.length := by
  unfold tabStep; split <;> simp

theorem foldl_tabStep_length (I : Inst) (c : Nat) (hm) (L : List (Nat × Bool)) (tab : List (Nat × Nat)) :
    (L.foldl (tabStep I c hm) tab).length = tab.length := by
  induction L generalizing tab with
  | nil => rfl
  | cons x L ih => simp [ih, tabStep_length]

theorem tableCost_foldl (I : Inst) (c t α : Nat) (L : List (Nat × Bool)) (tab : List (Nat × Nat))
    (hlen : tab.length = I.npart)
    (hL : ∀ rb ∈ L, ∀ al w, (I.read rb.1).entryAt c = some (al, w) →
      al ≤ 1 ∧ ∀ h, h2pOf (h2pMap I t) (I.read rb.1).ind h < I.npart) :
    tableCost (L.foldl (tabStep I c (h2pMap I t)) tab) α =
      tableCost tab α + (L.map (fun rb => readCost I c (h2pMap I t) α rb.1 rb.2)).sum := by
  induction L generalizing tab with
  | nil => simp
  | cons x L ih =>
    simp only [List.foldl_cons, List.map_cons, List.sum_cons]
    rw [ih _ (by rw [tabStep_length, hlen]) (fun rb h => hL rb (List.mem_cons_of_mem _ h))]
    have hx := hL x List.mem_cons_self
    rw [← Nat.add_assoc]; congr 1
    unfold tabStep readCost
    cases he : (I.read x.1).entryAt c with
    | none => simp
    | some aw =>
      obtain ⟨al, w⟩ := aw
      obtain ⟨h1, h2⟩ := hx al w he
      simp only [tableCost_eq_pick]
      rw [sum_modify_addW _ _ _ _ _ _ (by rw [hlen]; exact h2 _) h1]
      simp

/-- summing per-partition (cost-if-REF, cost-if-ALT) entries = summing per-read mismatch weights -/
theorem tableCost_costTable (I : Inst) (c t : Nat) (bs : List Bool) (α : Nat) (h : TabWF I c t) :
    tableCost (costTable I c t bs) α = viewCost I c t α bs := by
  rw [costTable_eq_foldl, tableCost_foldl I c t α _ _ (by simp)]
  · simp [tableCost_eq_pick, sum_replicate_zero, viewCost]
  · intro rb hrb
    exact h rb.1 (List.of_mem_zip hrb).1

/-- `get_cost()` through the incremental table = `get_cost()` by definition -/
theorem colCostTab_eq_colCost (I : Inst) (c : Nat) (bs : List Bool) (t : Nat) (h : TabWF I c t) :
    colCostTab I c bs t = colCost I c bs t := by
  unfold colCostTab colCost
  simp only [tableCost_costTable I c t bs _ h]

/-! ## (b) `update_partitioning` -/

/-- `update_partitioning(i)` on table `tab`, where `bs` is the bipartition *before* the flip (the code keeps it
in the member `partitioning`): with `b'` the new value of bit `i`, the entry's weight is subtracted from the
partition of haplotype `1 - b'` (which it leaves) and added to the partition of haplotype `b'` (which it joins);
a BLANK entry changes nothing. -/
def flipTable (I : Inst) (c t : Nat) (bs : List Bool) (tab : List (Nat × Nat)) (i : Nat) : List (Nat × Nat) :=
  let hm := h2pMap I t
  let r := (I.activeAt c).getD i 0
  let b' := !(bs.getD i false)
  match (I.read r).entryAt c with
  | none => tab
  | some (al, w) =>
    (tab.modify (h2pOf hm (I.read r).ind (if b' then 0 else 1)) (subW al w)).modify
      (h2pOf hm (I.read r).ind (if b' then 1 else 0)) (addW al w)

theorem modify_comm {α} (l : List α) (p q : Nat) (f g : α → α) (h : ∀ x, f (g x) = g (f x)) :
    (l.modify p f).modify q g = (l.modify q g).modify p f := by
  apply List.ext_getElem
  · simp
  · intro n h1 h2
    simp only [List.getElem_modify]
    by_cases hp : p = n <;> by_cases hq : q = n <;> simp [hp, hq, h]

theorem modify_fun_id {α} (l : List α) (p : Nat) : l.modify p (fun x => x) = l := List.modify_id p l

theorem tabStep_comm (I : Inst) (c : Nat) (hm) (tab : List (Nat × Nat)) (x y : Nat × Bool) :
    tabStep I c hm (tabStep I c hm tab x) y = tabStep I c hm (tabStep I c hm tab y) x := by
  unfold tabStep
  split <;> split <;> try rfl
  exact modify_comm _ _ _ _ _ (fun e => (addW_comm _ _ _ _ e).symm)

/-- a commuting fold can process any one element last -/
theorem foldl_comm_move {α β} (f : β → α → β) (hf : ∀ b x y, f (f b x) y = f (f b y) x)
    (L1 L2 : List α) (x : α) (b : β) :
    (L1 ++ x :: L2).foldl f b = f ((L1 ++ L2).foldl f b) x := by
  induction L2 generalizing b L1 with
  | nil => simp [List.foldl_append]
  | cons y L2 ih =>
    have h1 : L1 ++ x :: y :: L2 = (L1 ++ [x]) ++ y :: L2 := by simp
    have h2 : L1 ++ y :: L2 = (L1 ++ [y]) ++ L2 := by simp
    rw [h2, ← ih (L1 ++ [y]) b]
    simp only [List.foldl_append, List.foldl_cons, List.foldl_nil]
    rw [hf]

theorem zip_split (l : List Nat) (bs : List Bool) (i : Nat) (hi : i < bs.length) (hl : bs.length = l.length) :
    l.zip bs = (l.take i).zip (bs.take i) ++ (l.getD i 0, bs.getD i false) :: (l.drop (i + 1)).zip (bs.drop (i + 1)) := by
  have h1 : l = l.take i ++ l.getD i 0 :: l.drop (i + 1) := by
    have : l.getD i 0 = l[i]'(by omega) := by
      have : i < l.length := by omega
      simp [List.getD_eq_getElem?_getD, this]
    rw [this]; simp
  have h2 : bs = bs.take i ++ bs.getD i false :: bs.drop (i + 1) := by
    have : bs.getD i false = bs[i] := by simp [List.getD_eq_getElem?_getD, hi]
    rw [this]; simp
  conv => lhs; rw [h1, h2]
  rw [List.zip_append (by simp; omega)]
  simp

theorem set_split (bs : List Bool) (i : Nat) (b : Bool) (hi : i < bs.length) :
    bs.set i b = bs.take i ++ b :: bs.drop (i + 1) := by
  rw [List.set_eq_take_append_cons_drop]; simp [hi]

/-- both tables are one `tabStep` for read `i` on top of the same table `X` of all other reads -/
theorem costTable_split (I : Inst) (c t : Nat) (bs : List Bool) (i : Nat)
    (hi : i < bs.length) (hl : bs.length = (I.activeAt c).length) :
    ∃ X : List (Nat × Nat), X.length = I.npart ∧
      costTable I c t bs = tabStep I c (h2pMap I t) X ((I.activeAt c).getD i 0, bs.getD i false) ∧
      costTable I c t (bs.set i (!(bs.getD i false))) =
        tabStep I c (h2pMap I t) X ((I.activeAt c).getD i 0, !(bs.getD i false)) := by
  have hz1 := zip_split (I.activeAt c) bs i hi hl
  have hz2 := zip_split (I.activeAt c) (bs.set i (!(bs.getD i false))) i (by simpa using hi) (by simpa using hl)
  have e1 : (bs.set i (!(bs.getD i false))).take i = bs.take i := by simp [List.take_set_of_le]
  have e2 : (bs.set i (!(bs.getD i false))).drop (i + 1) = bs.drop (i + 1) := by simp [List.drop_set_of_lt]
  have e3 : (bs.set i (!(bs.getD i false))).getD i false = !(bs.getD i false) := by
    simp [List.getD_eq_getElem?_getD, hi]
  rw [e1, e2, e3] at hz2
  refine ⟨((List.take i (I.activeAt c)).zip (List.take i bs) ++
      (List.drop (i + 1) (I.activeAt c)).zip (List.drop (i + 1) bs)).foldl (tabStep I c (h2pMap I t))
      (List.replicate I.npart (0, 0)), ?_, ?_, ?_⟩
  rotate_left
  · rw [costTable_eq_foldl, hz1, foldl_comm_move _ (tabStep_comm I c _)]
  · rw [costTable_eq_foldl, hz2, foldl_comm_move _ (tabStep_comm I c _)]
  · simp [foldl_tabStep_length]

/-- `update_partitioning(i)` after `set_partitioning(bs)` = `set_partitioning(bs with bit i negated)` -/
theorem flip_eq_set (I : Inst) (c t : Nat) (bs : List Bool) (i : Nat)
    (hi : i < bs.length) (hl : bs.length = (I.activeAt c).length) :
    flipTable I c t bs (costTable I c t bs) i = costTable I c t (bs.set i (!(bs.getD i false))) := by
  obtain ⟨X, -, h1, h2⟩ := costTable_split I c t bs i hi hl
  rw [h1, h2]
  unfold flipTable tabStep
  simp only
  cases he : (I.read ((I.activeAt c).getD i 0)).entryAt c with
  | none => simp
  | some aw =>
    obtain ⟨al, w⟩ := aw
    simp only
    cases hb : bs.getD i false <;> simp [List.modify_modify_eq, Function.comp_def, subW_addW, modify_fun_id]

/-- the invariant that justifies the (unsigned) subtraction in `update_partitioning`: the table entry the weight
is subtracted from is at least that weight (when the partition is in range; otherwise nothing is touched) -/
theorem flip_no_underflow (I : Inst) (c t : Nat) (bs : List Bool) (i : Nat)
    (hi : i < bs.length) (hl : bs.length = (I.activeAt c).length) (al w : Nat)
    (he : (I.read ((I.activeAt c).getD i 0)).entryAt c = some (al, w)) :
    let pOld := h2pOf (h2pMap I t) (I.read ((I.activeAt c).getD i 0)).ind (if bs.getD i false then 1 else 0)
    let e := (costTable I c t bs).getD pOld (0, 0)
    pOld < I.npart → w ≤ (if al = 0 then e.2 else e.1) := by
  obtain ⟨X, hX, h1, -⟩ := costTable_split I c t bs i hi hl
  intro pOld e hp
  have : e = addW al w (X.getD pOld (0, 0)) := by
    show (costTable I c t bs).getD pOld (0, 0) = _
    rw [h1]
    unfold tabStep
    simp only [he]
    have hp' : pOld < X.length := by omega
    show (X.modify pOld (addW al w)).getD pOld (0, 0) = _
    clear_value pOld
    simp [List.getD_eq_getElem?_getD, List.getElem?_eq_getElem hp']
  rw [this]; unfold addW; split <;> simp

/-! ## (c) the Gray-code walk of `compute_column` keeps the table in sync -/

theorem bitsOf_flip (k x b : Nat) (hb : b < k) :
    bitsOf k (x ^^^ (1 <<< b)) = (bitsOf k x).set b (!(bitsOf k x).getD b false) := by
  apply List.ext_getElem
  · simp [bitsOf]
  · intro i h1 h2
    have hi : i < k := by simpa [bitsOf] using h1
    simp only [bitsOf, List.getElem_map, List.getElem_range, List.getElem_set, Nat.testBit_xor,
      one_shiftLeft_testBit, List.getD_eq_getElem?_getD, List.getElem?_map, List.getElem?_range hb]
    by_cases h : b = i
    · subst h; simp
    · simp [h]

/-- one iteration of the bipartition loop of `compute_column` as far as one cost computer is concerned:
state = (member `partitioning` as bits, `cost_partition`).  `changed ≥ 0`: `update_partitioning(changed)`;
otherwise `set_partitioning(code)` — which, as coded (`partitioning = partitioning;` assigns the parameter to
itself), does NOT store `code` in the member. -/
def walkStep (I : Inst) (c t n : Nat) (st : List Bool × List (Nat × Nat)) (x : Nat × Int) :
    List Bool × List (Nat × Nat) :=
  if 0 ≤ x.2 then (st.1.set x.2.toNat (!(st.1.getD x.2.toNat false)), flipTable I c t st.1 st.2 x.2.toNat)
  else (st.1, costTable I c t (bitsOf n x.1))

/-- state after the constructor: member `partitioning = 0`, table all zero -/
def walkInit (I : Inst) (n : Nat) : List Bool × List (Nat × Nat) := (bitsOf n 0, List.replicate I.npart (0, 0))

/-- After processing the first `k+1` Gray codes, the member `partitioning` is the current code and the
incrementally maintained table is exactly `set_partitioning(current code)`.  (The self-assignment quirk of
`set_partitioning` is harmless only because the first code is 0 = the constructor's value.) -/
theorem walk_in_sync (I : Inst) (c t k : Nat) (hk : k < 2 ^ (I.activeAt c).length) :
    ((grayList (I.activeAt c).length).take (k + 1)).foldl (walkStep I c t (I.activeAt c).length)
        (walkInit I (I.activeAt c).length) =
      (bitsOf (I.activeAt c).length (gray k), costTable I c t (bitsOf (I.activeAt c).length (gray k))) := by
  generalize hn : (I.activeAt c).length = n at *
  have hpos := Nat.two_pow_pos n
  induction k with
  | zero =>
    obtain ⟨m, hm⟩ : ∃ m, 2 ^ n = m + 1 := ⟨2 ^ n - 1, by omega⟩
    rw [grayList_eq, hm, List.range_succ_eq_map]
    simp [walkStep, walkInit, gray_zero]
  | succ k ih =>
    have hlen : k + 1 < (grayList n).length := by simpa [grayList_eq] using hk
    rw [List.take_succ_eq_append_getElem hlen, List.foldl_append, ih (by omega)]
    have hx : (grayList n)[k + 1] = (gray (k + 1), ((tones k : Nat) : Int)) := by
      simp [grayList_eq]
    have ht := tones_lt n k hk
    simp only [List.foldl_cons, List.foldl_nil, hx, walkStep, Int.toNat_natCast]
    rw [if_pos (by omega), gray_succ, bitsOf_flip n _ _ ht]
    rw [flip_eq_set I c t _ _ (by simpa [bitsOf] using ht) (by simp [bitsOf, hn])]

end WhVerif.C01

import WhVerif.Spec.C10
/-! helper lemmas for C10 -/
namespace WhVerif.C10

/-! ### listMax / argmaxFirst -/

theorem le_listMax {l : List Nat} {x : Nat} (h : x ∈ l) : x ≤ listMax l := by
  induction l with
  | nil => cases h
  | cons y ys ih =>
    simp only [listMax]
    rcases List.mem_cons.1 h with rfl | h
    · omega
    · have := ih h; omega

theorem listMax_mem {l : List Nat} (h : l ≠ []) : listMax l ∈ l := by
  induction l with
  | nil => exact absurd rfl h
  | cons y ys ih =>
    simp only [listMax]
    by_cases hy : ys = []
    · subst hy; simp [listMax]
    · have := ih hy
      by_cases hle : listMax ys ≤ y
      · rw [Nat.max_eq_left hle]; exact List.mem_cons_self
      · rw [Nat.max_eq_right (by omega)]; exact List.mem_cons_of_mem _ this

theorem listMax_le {l : List Nat} {m : Nat} (h : ∀ x ∈ l, x ≤ m) : listMax l ≤ m := by
  by_cases hl : l = []
  · subst hl; simp [listMax]
  · exact h _ (listMax_mem hl)

theorem getElem_le_listMax {l : List Nat} {k : Nat} (hk : k < l.length) : l[k] ≤ listMax l :=
  le_listMax (List.getElem_mem hk)

theorem listMax_eq_of_mem_iff {l l' : List Nat} (h : ∀ x, x ∈ l ↔ x ∈ l') : listMax l = listMax l' := by
  apply Nat.le_antisymm
  · exact listMax_le fun x hx => le_listMax ((h x).1 hx)
  · exact listMax_le fun x hx => le_listMax ((h x).2 hx)

theorem argmaxFirst_spec (l : List Nat) (hl : l ≠ []) :
    ∃ h : argmaxFirst l < l.length, l[argmaxFirst l] = listMax l ∧
      ∀ j (hj : j < l.length), j < argmaxFirst l → l[j] < listMax l := by
  induction l with
  | nil => exact absurd rfl hl
  | cons x xs ih =>
    by_cases hx : x < listMax xs
    · have hne : xs ≠ [] := by
        intro h; subst h; simp [listMax] at hx
      obtain ⟨h1, h2, h3⟩ := ih hne
      have hm : listMax (x :: xs) = listMax xs := by simp only [listMax]; omega
      simp only [argmaxFirst, hx, if_true, hm]
      refine ⟨by simp; omega, by simpa using h2, ?_⟩
      intro j hj hlt
      cases j with
      | zero => simpa using hx
      | succ j => simp at hj ⊢; exact h3 j hj (by omega)
    · have hm : listMax (x :: xs) = x := by simp only [listMax]; omega
      simp only [argmaxFirst, hx, if_false, hm]
      exact ⟨by simp, by simp, fun j _ h => absurd h (by omega)⟩

/-! ### the decision on one score vector -/

theorem strictBest_unique {s : List Nat} {h q h' q' : Nat} (a : StrictBest s h q) (b : StrictBest s h' q') :
    h = h' ∧ q = q' := by
  obtain ⟨hq, hh, ha, j, hj, hjne, hje⟩ := a
  obtain ⟨hq', hh', hb, j', hj', hjne', hje'⟩ := b
  have heq : h = h' := by
    by_cases e : h = h'
    · exact e
    · have := ha h' hh' (Ne.symm e); have := hb h hh e; omega
  subst heq
  refine ⟨rfl, ?_⟩
  have := ha j' hj' hjne'; have := hb j hj hjne; omega

theorem decideScores_tagged {ps : Int} {s : List Nat} {h q : Nat} {ps' : Int}
    (hd : decideScores ps s = .tagged h q ps') : ps' = ps ∧ StrictBest s h q := by
  unfold decideScores at hd
  by_cases hlen : s.length < 2
  · simp [hlen] at hd
  · simp only [hlen, if_false] at hd
    have hne : s ≠ [] := by intro e; subst e; simp at hlen
    obtain ⟨hlt, hmax, _⟩ := argmaxFirst_spec s hne
    by_cases hq0 : listMax s - listMax (s.eraseIdx (argmaxFirst s)) = 0
    · simp [hq0] at hd
    · simp only [hq0, if_false] at hd
      injection hd with e1 e2 e3
      subst e1 e2 e3
      refine ⟨rfl, by omega, hlt, ?_, ?_⟩
      · intro j hj hjne
        have : s[j] ∈ s.eraseIdx (argmaxFirst s) := List.mem_eraseIdx_iff_getElem.2 ⟨j, hj, hjne, rfl⟩
        have := le_listMax this
        rw [hmax]; omega
      · have hne2 : s.eraseIdx (argmaxFirst s) ≠ [] := by
          intro e
          have := congrArg List.length e
          rw [List.length_eraseIdx] at this
          simp [hlt] at this; omega
        obtain ⟨j, hj, hjne, hje⟩ := List.mem_eraseIdx_iff_getElem.1 (listMax_mem hne2)
        refine ⟨j, hj, hjne, ?_⟩
        rw [hmax, hje]; omega

theorem decideScores_of_strictBest {ps : Int} {s : List Nat} {h q : Nat} (hb : StrictBest s h q) :
    decideScores ps s = .tagged h q ps := by
  obtain ⟨hq, hh, ha, j, hj, hjne, hje⟩ := hb
  have hlen : ¬ s.length < 2 := by
    intro hl
    have : j = h := by omega
    exact hjne this
  have hne : s ≠ [] := by intro e; subst e; simp at hh
  obtain ⟨hlt, hmax, _⟩ := argmaxFirst_spec s hne
  have ham : argmaxFirst s = h := by
    by_cases e : argmaxFirst s = h
    · exact e
    · have h1 := ha _ hlt e
      have h2 : s[h] ≤ listMax s := getElem_le_listMax hh
      omega
  have hM : listMax s = s[h] := by rw [← hmax]; simp [ham]
  have hsec : listMax (s.eraseIdx h) = s[j] := by
    apply Nat.le_antisymm
    · apply listMax_le
      intro x hx
      obtain ⟨k, hk, hkne, hke⟩ := List.mem_eraseIdx_iff_getElem.1 hx
      have := ha k hk hkne
      omega
    · exact le_listMax (List.mem_eraseIdx_iff_getElem.2 ⟨j, hj, hjne, rfl⟩)
  unfold decideScores
  simp only [hlen, if_false, ham, hM, hsec]
  have : s[h] - s[j] = q := by omega
  simp [this]; omega

theorem decideScores_untagged_iff {ps : Int} {s : List Nat} :
    decideScores ps s = .untagged ↔ Tie s := by
  constructor
  · intro hd
    unfold decideScores at hd
    by_cases hlen : s.length < 2
    · simp [hlen] at hd
    · simp only [hlen, if_false] at hd
      have hne : s ≠ [] := by intro e; subst e; simp at hlen
      obtain ⟨hlt, hmax, _⟩ := argmaxFirst_spec s hne
      by_cases hq0 : listMax s - listMax (s.eraseIdx (argmaxFirst s)) = 0
      · have hne2 : s.eraseIdx (argmaxFirst s) ≠ [] := by
          intro e
          have := congrArg List.length e
          rw [List.length_eraseIdx] at this
          simp [hlt] at this; omega
        obtain ⟨j, hj, hjne, hje⟩ := List.mem_eraseIdx_iff_getElem.1 (listMax_mem hne2)
        refine ⟨argmaxFirst s, j, hlt, hj, Ne.symm hjne, ?_, ?_⟩
        · have : s[j] ≤ listMax s := getElem_le_listMax hj
          rw [hmax, hje]; omega
        · intro k hk; rw [hmax]; exact getElem_le_listMax hk
      · simp [hq0] at hd
  · rintro ⟨h, j, hh, hj, hne, heq, hall⟩
    cases hd : decideScores ps s with
    | untagged => rfl
    | error e =>
      unfold decideScores at hd
      by_cases hlen : s.length < 2
      · omega
      · simp only [hlen, if_false] at hd
        split at hd <;> cases hd
    | tagged h' q ps' =>
      obtain ⟨_, hq, hh', ha, _⟩ := decideScores_tagged hd
      by_cases e : h = h'
      · subst e
        have := ha j hj (Ne.symm hne); omega
      · have := ha h hh e
        have := hall h' hh'
        omega

theorem decideScores_error_iff {ps : Int} {s : List Nat} {e : Err} :
    decideScores ps s = .error e ↔ s.length < 2 ∧ e = .indexError := by
  unfold decideScores
  by_cases hlen : s.length < 2
  · simp [hlen]; exact eq_comm
  · simp only [hlen, if_false, false_and, iff_false]
    split <;> simp

/-! ### choice of the phase set -/

theorem pickSet_none {sc : Scores} : pickSet sc = none ↔ sc = [] := by
  cases sc with
  | nil => simp [pickSet]
  | cons e rest =>
    simp only [pickSet]
    cases pickSet rest with
    | none => simp
    | some b => simp only [reduceCtorEq, iff_false]; split <;> simp

theorem pickSet_spec {sc : Scores} {e : Int × List Nat} (h : pickSet sc = some e) :
    e ∈ sc ∧ ∀ e' ∈ sc, listMax e'.2 ≤ listMax e.2 := by
  induction sc generalizing e with
  | nil => simp [pickSet] at h
  | cons x rest ih =>
    simp only [pickSet] at h
    cases hr : pickSet rest with
    | none =>
      rw [hr] at h
      have : rest = [] := pickSet_none.1 hr
      subst this
      simp at h; subst h; simp
    | some b =>
      rw [hr] at h
      obtain ⟨hb1, hb2⟩ := ih hr
      by_cases hlt : listMax x.2 < listMax b.2
      · simp [hlt] at h; subst h
        refine ⟨List.mem_cons_of_mem _ hb1, ?_⟩
        intro e' he'
        rcases List.mem_cons.1 he' with rfl | he'
        · omega
        · exact hb2 _ he'
      · simp [hlt] at h; subst h
        refine ⟨List.mem_cons_self, ?_⟩
        intro e' he'
        rcases List.mem_cons.1 he' with rfl | he'
        · omega
        · have := hb2 _ he'; omega

end WhVerif.C10

import WhVerif.Model.C14Text
import WhVerif.Spec.C14
import WhVerif.Lemmas.C14
/-! Helper lemmas for the text level of C14: `split`/`strip`/line splitting read a well-formed rendering back. -/
namespace WhVerif.Lemmas.C14
open WhVerif.C14

theorem splitOn_noSep (sep : Char) (f : List Char) (h : ∀ c ∈ f, c ≠ sep) : splitOn sep f = [f] := by
  induction f with
  | nil => rfl
  | cons c cs ih =>
    have hc : (c == sep) = false := by simpa using h c (List.mem_cons_self ..)
    have := ih (fun d hd => h d (List.mem_cons_of_mem _ hd))
    simp [splitOn, hc, this]

theorem splitOn_append_sep (sep : Char) (f rest : List Char) (h : ∀ c ∈ f, c ≠ sep) :
    splitOn sep (f ++ sep :: rest) = f :: splitOn sep rest := by
  induction f with
  | nil => simp [splitOn]
  | cons c cs ih =>
    have hc : (c == sep) = false := by simpa using h c (List.mem_cons_self ..)
    have := ih (fun d hd => h d (List.mem_cons_of_mem _ hd))
    simp [splitOn, hc, this]

theorem intercalate_cons_cons (sep : Char) (f g : List Char) (t : List (List Char)) :
    List.intercalate [sep] (f :: g :: t) = f ++ sep :: List.intercalate [sep] (g :: t) := by
  simp [List.intercalate, List.intersperse]

theorem splitOn_intercalate (sep : Char) (r : List (List Char)) (hne : r ≠ []) (h : ∀ f ∈ r, ∀ c ∈ f, c ≠ sep) :
    splitOn sep (List.intercalate [sep] r) = r := by
  induction r with
  | nil => exact absurd rfl hne
  | cons f t ih =>
    cases t with
    | nil => simp [List.intercalate, splitOn_noSep sep f (h f (List.mem_cons_self ..))]
    | cons g t' =>
      have ih' := ih (by simp) (fun f' hf' => h f' (List.mem_cons_of_mem _ hf'))
      rw [intercalate_cons_cons, splitOn_append_sep sep f _ (h f (List.mem_cons_self ..)), ih']

theorem mem_intercalate (sep : Char) (r : List (List Char)) (c : Char) (hc : c ∈ List.intercalate [sep] r) :
    c = sep ∨ ∃ f ∈ r, c ∈ f := by
  induction r with
  | nil => simp [List.intercalate] at hc
  | cons f t ih =>
    cases t with
    | nil =>
      have : c ∈ f := by simpa [List.intercalate] using hc
      exact Or.inr ⟨f, List.mem_cons_self .., this⟩
    | cons g t' =>
      rw [intercalate_cons_cons] at hc
      rcases List.mem_append.mp hc with h1 | h1
      · exact Or.inr ⟨f, List.mem_cons_self .., h1⟩
      · rcases List.mem_cons.mp h1 with h2 | h2
        · exact Or.inl h2
        · rcases ih h2 with h3 | ⟨f', hf', hcf'⟩
          · exact Or.inl h3
          · exact Or.inr ⟨f', List.mem_cons_of_mem _ hf', hcf'⟩

theorem splitLines_append_nl (l rest : List Char) (h : ∀ c ∈ l, c ≠ '\n' ∧ c ≠ '\r') :
    splitLines (l ++ '\n' :: rest) = l :: splitLines rest := by
  unfold splitLines
  induction l with
  | nil => simp [splitLinesAux]
  | cons c cs ih =>
    have hc := h c (List.mem_cons_self ..)
    have h1 : (c == '\n') = false := by simpa using hc.1
    have h2 : (c == '\r') = false := by simpa using hc.2
    have := ih (fun d hd => h d (List.mem_cons_of_mem _ hd))
    simp [splitLinesAux, h1, h2, this]

theorem lstrip_id (l : List Char) (h : ∀ c, l.head? = some c → isSpace c = false) : lstrip l = l := by
  cases l with
  | nil => rfl
  | cons c cs => simp [lstrip, List.dropWhile, h c rfl]

theorem strip_id (l : List Char) (h1 : ∀ c, l.head? = some c → isSpace c = false)
    (h2 : ∀ c, l.getLast? = some c → isSpace c = false) : strip l = l := by
  unfold strip rstrip
  rw [lstrip_id l h1, lstrip_id l.reverse (by simpa using h2)]
  simp

theorem renderLine_noNewline (r : List (List Char)) (hr : RowOK r) :
    ∀ c ∈ renderLine r, c ≠ '\n' ∧ c ≠ '\r' := by
  intro c hc
  rcases mem_intercalate '\t' r c hc with h | ⟨f, hf, hcf⟩
  · subst h; decide
  · exact (hr.nosep f hf c hcf).2

theorem splitLines_render (rows : List (List (List Char))) (h : ∀ r ∈ rows, RowOK r) :
    splitLines (renderText rows) = rows.map renderLine := by
  induction rows with
  | nil => rfl
  | cons r t ih =>
    have hr := h r (List.mem_cons_self ..)
    simp only [renderText, List.flatMap_cons, List.append_assoc, List.singleton_append, List.map_cons]
    rw [splitLines_append_nl _ _ (renderLine_noNewline r hr)]
    congr 1
    exact ih (fun r' hr' => h r' (List.mem_cons_of_mem _ hr'))

theorem colsOf_render (r : List (List Char)) (hr : RowOK r) : colsOf (renderLine r) = strRow r := by
  unfold colsOf strRow
  rw [strip_id _ hr.head hr.last]
  unfold renderLine
  rw [splitOn_intercalate '\t' r hr.ne (fun f hf c hc => (hr.nosep f hf c hc).1)]

theorem mapM_map_congr {α β γ ε : Type} (g : α → β) (f : β → Except ε γ) (f' : α → Except ε γ) :
    ∀ (l : List α), (∀ x ∈ l, f (g x) = f' x) → (l.map g).mapM f = l.mapM f' := by
  intro l
  induction l with
  | nil => intro _; rfl
  | cons a t ih =>
    intro h
    rw [List.map_cons, List.mapM_cons, List.mapM_cons, h a (List.mem_cons_self ..),
      ih (fun x hx => h x (List.mem_cons_of_mem _ hx))]

theorem mapM_ok_mem {α β ε : Type} (f : α → Except ε β) :
    ∀ (l : List α) (ys : List β), l.mapM f = .ok ys → ∀ x ∈ l, ∃ y ∈ ys, f x = .ok y := by
  intro l
  induction l with
  | nil => intro ys _ x hx; cases hx
  | cons a t ih =>
    intro ys h x hx
    rw [List.mapM_cons] at h
    cases hfa : f a with
    | error e => rw [hfa] at h; cases h
    | ok y0 =>
      rw [hfa] at h
      cases ht : t.mapM f with
      | error e => rw [ht] at h; cases h
      | ok ys0 =>
        rw [ht] at h
        have hys : ys = y0 :: ys0 := by
          injection h with h
          exact h.symm
        subst hys
        rcases List.mem_cons.mp hx with rfl | hx
        · exact ⟨y0, List.mem_cons_self .., hfa⟩
        · obtain ⟨y, hy, hf⟩ := ih ys0 ht x hx
          exact ⟨y, List.mem_cons_of_mem _ hy, hf⟩

theorem parseText_render (o : Opts) (first : List (List Char)) (rest : List (List (List Char)))
    (h : ∀ r ∈ first :: rest, RowOK r) :
    parseText o (renderText (first :: rest)) =
      if first.length < 2 then .error .valueError
      else if o.onlyLargest && !fourColOf (strRow first) then .error .valueError
      else (if rawHeader (renderLine first) then rest else first :: rest).mapM
        (fun r => parseLine (fourColOf (strRow first)) o.ploidy (strRow r)) := by
  unfold parseText
  rw [splitLines_render _ h]
  simp only [List.map_cons]
  rw [colsOf_render first (h first (List.mem_cons_self ..))]
  have hlen : (strRow first).length = first.length := by simp [strRow]
  rw [hlen]
  split
  · rfl
  · split
    · rfl
    · by_cases hh : rawHeader (renderLine first) = true
      · simp only [hh, if_true]
        exact mapM_map_congr _ _ _ _ (fun r hr => by rw [colsOf_render r (h r (List.mem_cons_of_mem _ hr))])
      · simp only [hh, Bool.false_eq_true, if_false]
        rw [← List.map_cons]
        exact mapM_map_congr _ _ _ _ (fun r hr => by rw [colsOf_render r (h r hr)])

/-! ### `dedup`, unique names -/

theorem mem_dedup (l : List String) (x : String) : x ∈ dedup l ↔ x ∈ l := by
  induction l with
  | nil => simp [dedup]
  | cons a t ih =>
    simp only [dedup, List.mem_cons, List.mem_filter, ih]
    constructor
    · rintro (h | ⟨h, _⟩)
      · exact Or.inl h
      · exact Or.inr h
    · rintro (h | h)
      · exact Or.inl h
      · by_cases hxa : x = a
        · exact Or.inl hxa
        · exact Or.inr ⟨h, by simpa using hxa⟩

theorem length_dedup_le (l : List String) : (dedup l).length ≤ l.length := by
  induction l with
  | nil => simp [dedup]
  | cons a t ih =>
    simp only [dedup, List.length_cons]
    have := List.length_filter_le (fun y => y != a) (dedup t)
    omega

theorem nodup_of_length_dedup (l : List String) (h : (dedup l).length = l.length) : l.Nodup := by
  induction l with
  | nil => exact List.nodup_nil
  | cons a t ih =>
    simp only [dedup, List.length_cons] at h
    have h1 := List.length_filter_le (fun y => y != a) (dedup t)
    have h2 := length_dedup_le t
    have h3 : ((dedup t).filter (fun y => y != a)).length = (dedup t).length := by omega
    have h4 : (dedup t).length = t.length := by omega
    refine List.nodup_cons.mpr ⟨?_, ih h4⟩
    intro ha
    have := (List.length_filter_eq_length_iff.mp h3) a ((mem_dedup t a).mpr ha)
    simp at this

theorem nodup_map_inj {α β : Type} (f : α → β) : ∀ (l : List α), (l.map f).Nodup → ∀ a ∈ l, ∀ b ∈ l, f a = f b → a = b := by
  intro l
  induction l with
  | nil => intro _ a ha; cases ha
  | cons x t ih =>
    intro hn a ha b hb hab
    rw [List.map_cons, List.nodup_cons] at hn
    rcases List.mem_cons.mp ha with rfl | ha' <;> rcases List.mem_cons.mp hb with rfl | hb'
    · rfl
    · exact absurd (List.mem_map.mpr ⟨b, hb', hab.symm⟩) hn.1
    · exact absurd (List.mem_map.mpr ⟨a, ha', hab⟩) hn.1
    · exact ih hn.2 a ha' b hb' hab

theorem find?_of_unique {α : Type} (P : α → Bool) (q : α) : ∀ (L : List α), q ∈ L → P q = true →
    (∀ x ∈ L, P x = true → x = q) → L.find? P = some q := by
  intro L
  induction L with
  | nil => intro h; cases h
  | cons a t ih =>
    intro hq hP hu
    by_cases hPa : P a = true
    · have := hu a (List.mem_cons_self ..) hPa
      subst this
      simp [List.find?, hPa]
    · have hPa' : P a = false := by simpa using hPa
      rcases List.mem_cons.mp hq with rfl | hq'
      · exact absurd hP hPa
      · simp only [List.find?, hPa']
        exact ih hq' hP (fun x hx => hu x (List.mem_cons_of_mem _ hx))


/-! ### table = list -/

/-- the names of the tagged lines in selected blocks -/
def selNames (lines : List Line) : List String :=
  ((taggedOf lines).filter (fun l => (selectedBlocks (taggedOf lines)).contains (l.chrom, l.ps))).map (·.name)

theorem mem_assignOf (o : Opts) (lines : List Line) (p : String × Nat) :
    p ∈ assignOf o lines ↔
      (∃ l ∈ lines, l.hap ≠ 0 ∧ p = (l.name, l.hap)) ∧ (o.onlyLargest = true → p.1 ∈ selNames lines) := by
  have hbase : p ∈ (taggedOf lines).map (fun l => (l.name, l.hap)) ↔ ∃ l ∈ lines, l.hap ≠ 0 ∧ p = (l.name, l.hap) := by
    simp only [taggedOf, List.mem_map, List.mem_filter, bne_iff_ne]
    constructor
    · rintro ⟨l, ⟨h1, h2⟩, h3⟩; exact ⟨l, h1, h2, h3.symm⟩
    · rintro ⟨l, h1, h2, h3⟩; exact ⟨l, ⟨h1, h2⟩, h3.symm⟩
  unfold assignOf
  by_cases hl : o.onlyLargest = true
  · simp only [hl, if_true, List.mem_filter, hbase, List.contains_iff_mem, selNames, forall_const]
  · simp only [hl, Bool.false_eq_true, if_false, hbase, false_implies, and_true]

theorem hapOf_none (t : Table) (name : String) (h : ∀ p ∈ t.assign, p.1 ≠ name) : t.hapOf name = 0 := by
  unfold Table.hapOf
  have : t.assign.reverse.find? (fun p => p.1 == name) = none := by
    apply List.find?_eq_none.mpr
    intro p hp
    simpa using h p (List.mem_reverse.mp hp)
  rw [this]

theorem hapOf_unique (t : Table) (q : String × Nat) (hq : q ∈ t.assign) (hu : ∀ p ∈ t.assign, p.1 = q.1 → p = q) :
    t.hapOf q.1 = q.2 := by
  unfold Table.hapOf
  rw [find?_of_unique (fun p => p.1 == q.1) q _ (List.mem_reverse.mpr hq) (by simp)
    (fun x hx hx' => hu x (List.mem_reverse.mp hx) (by simpa using hx'))]

/-- with unique names in the list, the table's answer for a name is the list's entry -/
theorem hapOf_assignOf (o : Opts) (lines : List Line) (kn : List String) (hn : (lines.map (·.name)).Nodup)
    (name : String) : Table.hapOf ⟨assignOf o lines, kn⟩ name = (entryOf o lines name).getD 0 := by
  have inj := nodup_map_inj (fun l : Line => l.name) lines hn
  unfold entryOf
  cases hf : lines.find? (fun l => l.name == name) with
  | none =>
    simp only [Option.getD_none]
    apply hapOf_none
    intro p hp
    obtain ⟨⟨l, hl, _, rfl⟩, _⟩ := (mem_assignOf o lines p).mp hp
    have := List.find?_eq_none.mp hf l hl
    simpa using this
  | some l =>
    have hl : l ∈ lines := List.mem_of_find?_eq_some hf
    have hname : l.name = name := by simpa using List.find?_some hf
    subst hname
    simp only
    by_cases hc : (l.hap != 0 && (!o.onlyLargest || (selectedBlocks (taggedOf lines)).contains (l.chrom, l.ps))) = true
    · simp only [hc, if_true, Option.getD_some]
      simp only [Bool.and_eq_true, bne_iff_ne, Bool.or_eq_true, Bool.not_eq_true', List.contains_iff_mem] at hc
      have hmem : (l.name, l.hap) ∈ assignOf o lines := by
        refine (mem_assignOf o lines _).mpr ⟨⟨l, hl, hc.1, rfl⟩, ?_⟩
        intro hlg
        rcases hc.2 with h | h
        · rw [hlg] at h; cases h
        · simp only [selNames, List.mem_map, List.mem_filter, taggedOf, bne_iff_ne, List.contains_iff_mem]
          exact ⟨l, ⟨⟨hl, hc.1⟩, h⟩, rfl⟩
      refine hapOf_unique ⟨assignOf o lines, kn⟩ (l.name, l.hap) hmem ?_
      intro p hp hpn
      obtain ⟨⟨l', hl', _, rfl⟩, _⟩ := (mem_assignOf o lines p).mp hp
      have := inj l' hl' l hl hpn
      subst this; rfl
    · simp only [hc, Bool.false_eq_true, if_false, Option.getD_some]
      apply hapOf_none
      intro p hp hpn
      apply hc
      obtain ⟨⟨l', hl', hne, rfl⟩, hsel⟩ := (mem_assignOf o lines p).mp hp
      have e := inj l' hl' l hl hpn
      subst e
      simp only [Bool.and_eq_true, bne_iff_ne, Bool.or_eq_true, Bool.not_eq_true', List.contains_iff_mem]
      refine ⟨hne, ?_⟩
      by_cases hlg : o.onlyLargest = true
      · right
        have := hsel hlg
        simp only [selNames, List.mem_map, List.mem_filter, taggedOf, bne_iff_ne, List.contains_iff_mem] at this
        obtain ⟨l'', ⟨⟨hl'', _⟩, hs⟩, hn''⟩ := this
        have e := inj l'' hl'' l' hl' hn''
        subst e; exact hs
      · left; simpa using hlg


theorem buildTable_ok (o : Opts) (lines : List Line) (t : Table) (h : buildTable o lines = .ok t) :
    t = ⟨assignOf o lines, knownOf o lines⟩ ∧
    (o.discardUnknown = true → (lines.map (·.name)).Nodup ∧ lines ≠ []) := by
  unfold buildTable at h
  by_cases h1 : (o.discardUnknown && lines.length != (knownOf o lines).length) = true
  · simp only [h1, ↓reduceIte] at h; cases h
  · simp only [h1] at h
    by_cases h2 : (o.discardUnknown && (knownOf o lines).isEmpty) = true
    · simp only [h2, ↓reduceIte] at h; cases h
    · simp only [h2] at h
      cases h
      refine ⟨rfl, fun hd => ?_⟩
      simp only [hd, Bool.true_and, bne_iff_ne, ne_eq, Decidable.not_not, knownOf, if_true] at h1 h2
      constructor
      · apply nodup_of_length_dedup
        rw [← h1]; simp
      · intro hnil; subst hnil; simp [dedup] at h2

theorem known_contains (o : Opts) (lines : List Line) (name : String) (hd : o.discardUnknown = true) :
    (knownOf o lines).contains name = lines.any (fun l => l.name == name) := by
  simp only [knownOf, hd, if_true]
  rw [Bool.eq_iff_iff]
  simp only [List.contains_iff_mem, mem_dedup, List.mem_map, List.any_eq_true, beq_iff_eq]

theorem find?_none_iff_any {α : Type} (P : α → Bool) (l : List α) : l.find? P = none ↔ l.any P = false := by
  simp [List.find?_eq_none, List.any_eq_false]

/-- **the table realises the list**: for a list that names no read twice, the option table computed from the table
`buildTable` returns is the option table read off the list -/
theorem prescribed_eq_byList (o : Opts) (lines : List Line) (t : Table) (h : buildTable o lines = .ok t)
    (hn : (lines.map (·.name)).Nodup) (r : Read) : prescribed o t r = prescribedByList o lines r := by
  obtain ⟨rfl, _⟩ := buildTable_ok o lines t h
  unfold prescribed prescribedByList droppedAsUnknown
  rw [hapOf_assignOf o lines _ hn r.name]
  cases he : entryOf o lines r.name with
  | none =>
    have hany : lines.any (fun l => l.name == r.name) = false := by
      unfold entryOf at he
      cases hf : lines.find? (fun l => l.name == r.name) with
      | none => exact (find?_none_iff_any _ _).mp hf
      | some l => rw [hf] at he; simp only at he; split at he <;> cases he
    by_cases hd : o.discardUnknown = true
    · have hk := known_contains o lines r.name hd
      rw [hany] at hk
      have hk' : ¬ r.name ∈ knownOf o lines := by simpa using hk
      simp [hd, hk']
    · simp [hd]
  | some hh =>
    have hany : lines.any (fun l => l.name == r.name) = true := by
      unfold entryOf at he
      cases hf : lines.find? (fun l => l.name == r.name) with
      | none => rw [hf] at he; cases he
      | some l =>
        exact List.any_eq_true.mpr ⟨l, List.mem_of_find?_eq_some hf, List.find?_some (p := fun l : Line => l.name == r.name) hf⟩
    by_cases hd : o.discardUnknown = true
    · have hk := known_contains o lines r.name hd
      rw [hany] at hk
      have hk' : r.name ∈ knownOf o lines := by simpa using hk
      simp [hd, hk']
    · simp [hd]


/-! ### `--only-largest-block` -/

abbrev BC := List ((String × String) × Nat)

def bcStep (acc : BC) (l : Line) : BC :=
  if acc.any (fun p => p.1 == (l.chrom, l.ps)) then
    acc.map (fun p => if p.1 == (l.chrom, l.ps) then (p.1, p.2 + 1) else p)
  else acc ++ [((l.chrom, l.ps), 1)]

theorem blockCounts_eq (tagged : List Line) : blockCounts tagged = tagged.foldl bcStep [] := rfl

def BCInv (acc : BC) (pre : List Line) : Prop :=
  ∀ key, acc.filter (fun p => p.1 == key) = if blockSize pre key = 0 then [] else [(key, blockSize pre key)]

theorem blockSize_snoc (pre : List Line) (l : Line) (key : String × String) :
    blockSize (pre ++ [l]) key = blockSize pre key + (if (l.chrom, l.ps) == key then 1 else 0) := by
  obtain ⟨c, ps⟩ := key
  simp only [blockSize, List.countP_append, List.countP_cons, List.countP_nil, Nat.zero_add]
  rfl

theorem bcStep_inv (acc : BC) (pre : List Line) (l : Line) (h : BCInv acc pre) : BCInv (bcStep acc l) (pre ++ [l]) := by
  intro key
  rw [blockSize_snoc]
  have hk := h key
  have h0 := h (l.chrom, l.ps)
  unfold bcStep
  by_cases hany : acc.any (fun p => p.1 == (l.chrom, l.ps)) = true
  · simp only [hany, if_true]
    -- the key of `l` is present: its size is positive
    have hpos : blockSize pre (l.chrom, l.ps) ≠ 0 := by
      intro hz
      rw [hz] at h0
      simp only [if_true] at h0
      obtain ⟨p, hp, hpk⟩ := List.any_eq_true.mp hany
      have : p ∈ acc.filter (fun p => p.1 == (l.chrom, l.ps)) := List.mem_filter.mpr ⟨hp, hpk⟩
      rw [h0] at this; cases this
    have hmap : (acc.map (fun p => if p.1 == (l.chrom, l.ps) then (p.1, p.2 + 1) else p)).filter (fun p => p.1 == key)
        = (acc.filter (fun p => p.1 == key)).map (fun p => if p.1 == (l.chrom, l.ps) then (p.1, p.2 + 1) else p) := by
      rw [List.filter_map]
      congr 1
      apply List.filter_congr
      intro p _
      simp only [Function.comp]
      split <;> rfl
    rw [hmap, hk]
    by_cases hkey : ((l.chrom, l.ps) == key) = true
    · have e : key = (l.chrom, l.ps) := (by simpa using hkey : (l.chrom, l.ps) = key).symm
      subst e
      simp [hpos]
    · simp only [hkey, Bool.false_eq_true, if_false, Nat.add_zero]
      by_cases hz : blockSize pre key = 0
      · simp [hz]
      · have hne : ¬ key = (l.chrom, l.ps) := by
          have : ¬ (l.chrom, l.ps) = key := by simpa using hkey
          exact fun e => this e.symm
        simp [hz, hne]
  · have hany' : acc.any (fun p => p.1 == (l.chrom, l.ps)) = false := (Bool.not_eq_true _).mp hany
    simp only [hany', Bool.false_eq_true, if_false, List.filter_append, hk]
    have hz : blockSize pre (l.chrom, l.ps) = 0 := by
      by_cases hne : blockSize pre (l.chrom, l.ps) = 0
      · exact hne
      exfalso
      rw [if_neg hne] at h0
      have : ((l.chrom, l.ps), blockSize pre (l.chrom, l.ps)) ∈ acc.filter (fun p => p.1 == (l.chrom, l.ps)) := by
        rw [h0]; exact List.mem_singleton.mpr rfl
      have hm := List.mem_filter.mp this
      have := List.any_eq_false.mp hany' _ hm.1
      simp at this
    by_cases hkey : ((l.chrom, l.ps) == key) = true
    · have e : key = (l.chrom, l.ps) := (by simpa using hkey : (l.chrom, l.ps) = key).symm
      subst e
      simp [hz]
    · have hkey' : ((l.chrom, l.ps) == key) = false := (Bool.not_eq_true _).mp hkey
      simp only [hkey', Bool.false_eq_true, if_false, Nat.add_zero, List.filter_cons, List.filter_nil, List.append_nil]

theorem foldl_inv (ls : List Line) : ∀ (acc : BC) (pre : List Line), BCInv acc pre →
    BCInv (ls.foldl bcStep acc) (pre ++ ls) := by
  induction ls with
  | nil => intro acc pre h; simpa using h
  | cons l t ih =>
    intro acc pre h
    have := ih (bcStep acc l) (pre ++ [l]) (bcStep_inv acc pre l h)
    simpa [List.foldl, List.append_assoc] using this

theorem blockCounts_inv (tagged : List Line) : BCInv (blockCounts tagged) tagged := by
  have := foldl_inv tagged [] [] (by intro key; simp [blockSize])
  simpa [blockCounts_eq] using this


theorem mem_blockCounts (tagged : List Line) (key : String × String) (n : Nat) :
    (key, n) ∈ blockCounts tagged ↔ n = blockSize tagged key ∧ 0 < n := by
  have h := blockCounts_inv tagged key
  constructor
  · intro hm
    have : (key, n) ∈ (blockCounts tagged).filter (fun p => p.1 == key) := List.mem_filter.mpr ⟨hm, by simp⟩
    rw [h] at this
    by_cases hz : blockSize tagged key = 0
    · rw [if_pos hz] at this; cases this
    · rw [if_neg hz] at this
      have e := List.mem_singleton.mp this
      have : n = blockSize tagged key := congrArg Prod.snd e
      exact ⟨this, by omega⟩
  · rintro ⟨rfl, hpos⟩
    have hz : ¬ blockSize tagged key = 0 := by omega
    rw [if_neg hz] at h
    have : (key, blockSize tagged key) ∈ (blockCounts tagged).filter (fun p => p.1 == key) := by
      rw [h]; exact List.mem_singleton.mpr rfl
    exact (List.mem_filter.mp this).1

theorem firstMax_some (L : BC) (x : (String × String) × Nat) (h : firstMax L = some x) :
    x ∈ L ∧ ∀ y ∈ L, y.2 ≤ x.2 := by
  induction L generalizing x with
  | nil => cases h
  | cons a t ih =>
    simp only [firstMax] at h
    cases hft : firstMax t with
    | none =>
      rw [hft] at h
      cases h
      have : t = [] := by
        cases t with
        | nil => rfl
        | cons b t' =>
          simp only [firstMax] at hft
          split at hft
          · cases hft
          · split at hft <;> cases hft
      subst this
      exact ⟨List.mem_cons_self .., fun y hy => by rcases List.mem_cons.mp hy with rfl | hy' ; exact Nat.le_refl _; cases hy'⟩
    | some y =>
      rw [hft] at h
      obtain ⟨hy1, hy2⟩ := ih y hft
      simp only at h
      split at h
      · cases h
        rename_i hge
        refine ⟨List.mem_cons_self .., fun z hz => ?_⟩
        rcases List.mem_cons.mp hz with rfl | hz'
        · exact Nat.le_refl _
        · exact Nat.le_trans (hy2 z hz') hge
      · cases h
        rename_i hlt
        refine ⟨List.mem_cons_of_mem _ hy1, fun z hz => ?_⟩
        rcases List.mem_cons.mp hz with rfl | hz'
        · omega
        · exact hy2 z hz'

theorem firstMax_ne_none (L : BC) (h : L ≠ []) : ∃ x, firstMax L = some x := by
  cases L with
  | nil => exact absurd rfl h
  | cons a t =>
    simp only [firstMax]
    cases firstMax t with
    | none => exact ⟨a, rfl⟩
    | some y => by_cases hc : a.2 ≥ y.2 <;> simp [hc]

theorem mem_selectedBlocks (tagged : List Line) (b : String × String) (h : b ∈ selectedBlocks tagged) :
    ∃ n, firstMax ((blockCounts tagged).filter (fun p => p.1.1 == b.1)) = some (b, n) := by
  unfold selectedBlocks at h
  simp only [List.mem_filterMap, Option.map_eq_some_iff] at h
  obtain ⟨c, _, x, hx, rfl⟩ := h
  have hm := (firstMax_some _ x hx).1
  have hc : x.1.1 = c := by simpa using (List.mem_filter.mp hm).2
  subst hc
  exact ⟨x.2, hx⟩

theorem selected_isLargest (tagged : List Line) (b : String × String) (h : b ∈ selectedBlocks tagged) :
    IsLargest tagged b := by
  obtain ⟨n, hx⟩ := mem_selectedBlocks tagged b h
  obtain ⟨hm, hmax⟩ := firstMax_some _ _ hx
  have hb := (mem_blockCounts tagged b n).mp (List.mem_filter.mp hm).1
  refine ⟨by omega, fun ps => ?_⟩
  by_cases hz : blockSize tagged (b.1, ps) = 0
  · omega
  · have hin : ((b.1, ps), blockSize tagged (b.1, ps)) ∈ blockCounts tagged :=
      (mem_blockCounts tagged _ _).mpr ⟨rfl, by omega⟩
    have := hmax _ (List.mem_filter.mpr ⟨hin, by simp⟩)
    simp only at this
    omega

theorem selected_unique (tagged : List Line) (b b' : String × String) (h : b ∈ selectedBlocks tagged)
    (h' : b' ∈ selectedBlocks tagged) (hc : b.1 = b'.1) : b = b' := by
  obtain ⟨n, hx⟩ := mem_selectedBlocks tagged b h
  obtain ⟨n', hx'⟩ := mem_selectedBlocks tagged b' h'
  rw [hc, hx'] at hx
  exact (congrArg Prod.fst (Option.some.inj hx)).symm

theorem selected_exists (tagged : List Line) (l : Line) (hl : l ∈ tagged) :
    ∃ b ∈ selectedBlocks tagged, b.1 = l.chrom := by
  have hpos : 0 < blockSize tagged (l.chrom, l.ps) := by
    unfold blockSize
    exact List.countP_pos_iff.mpr ⟨l, hl, by simp⟩
  have hin : ((l.chrom, l.ps), blockSize tagged (l.chrom, l.ps)) ∈ blockCounts tagged :=
    (mem_blockCounts tagged _ _).mpr ⟨rfl, hpos⟩
  have hne : (blockCounts tagged).filter (fun p => p.1.1 == l.chrom) ≠ [] := by
    intro he
    have : ((l.chrom, l.ps), blockSize tagged (l.chrom, l.ps)) ∈ (blockCounts tagged).filter (fun p => p.1.1 == l.chrom) :=
      List.mem_filter.mpr ⟨hin, by simp⟩
    rw [he] at this; cases this
  obtain ⟨x, hx⟩ := firstMax_ne_none _ hne
  have hxm := (firstMax_some _ x hx).1
  have hxc : x.1.1 = l.chrom := by simpa using (List.mem_filter.mp hxm).2
  refine ⟨x.1, ?_, hxc⟩
  unfold selectedBlocks
  simp only [List.mem_filterMap, Option.map_eq_some_iff]
  refine ⟨l.chrom, ?_, x, hx, rfl⟩
  rw [mem_dedup]
  exact List.mem_map.mpr ⟨_, hin, rfl⟩


/-! ### histogram column sums -/

theorem sum_map_add' {α : Type} (f g : α → Nat) (l : List α) :
    (l.map (fun x => f x + g x)).sum = (l.map f).sum + (l.map g).sum := by
  induction l with
  | nil => rfl
  | cons a t ih => simp only [List.map_cons, List.sum_cons, ih]; omega

def ind (v len : Nat) : Nat := if v = len then 1 else 0

theorem sum_ind_zero (v : Nat) : ∀ (lens : List Nat), v ∉ lens → (lens.map (ind v)).sum = 0 := by
  intro lens
  induction lens with
  | nil => intro _; rfl
  | cons a t ih =>
    intro h
    have h1 : ¬ v = a := fun e => h (e ▸ List.mem_cons_self ..)
    have h2 : v ∉ t := fun e => h (List.mem_cons_of_mem _ e)
    simp only [List.map_cons, List.sum_cons, ih h2, ind, h1, if_false]

theorem sum_indicator (v : Nat) : ∀ (lens : List Nat), lens.Nodup → v ∈ lens → (lens.map (ind v)).sum = 1 := by
  intro lens
  induction lens with
  | nil => intro _ h; cases h
  | cons a t ih =>
    intro hn hv
    obtain ⟨hat, hnt⟩ := List.nodup_cons.mp hn
    simp only [List.map_cons, List.sum_cons]
    by_cases hva : v = a
    · subst hva
      rw [sum_ind_zero v t hat]; simp [ind]
    · have hvt : v ∈ t := by
        rcases List.mem_cons.mp hv with h | h
        · exact absurd h hva
        · exact h
      rw [ih hnt hvt]; simp [ind, hva]

theorem sum_count_nodup (lens : List Nat) (hn : lens.Nodup) : ∀ (vals : List Nat), (∀ v ∈ vals, v ∈ lens) →
    (lens.map (fun len => (vals.filter (fun v => v == len)).length)).sum = vals.length := by
  intro vals
  induction vals with
  | nil =>
    intro _
    induction lens with
    | nil => rfl
    | cons a t ih => simpa using ih (List.nodup_cons.mp hn).2
  | cons v t ih =>
    intro h
    have hsplit : (lens.map (fun len => ((v :: t).filter (fun v => v == len)).length)) =
        (lens.map (fun len => ind v len + (t.filter (fun v => v == len)).length)) := by
      apply List.map_congr_left
      intro len _
      simp only [List.filter_cons, ind]
      by_cases e : v = len
      · simp [e]; omega
      · simp [e]
    rw [hsplit, sum_map_add', sum_indicator v lens hn (h v (List.mem_cons_self ..)),
      ih (fun x hx => h x (List.mem_cons_of_mem _ hx))]
    simp; omega

/-- total of histogram column `k` -/
def histTotal (p : Pass) (k : Nat) : Nat := (p.hist.filter (fun e => e.1 == k)).length

theorem histCount_as_filter (p : Pass) (k len : Nat) :
    histCount p k len = (((p.hist.filter (fun e => e.1 == k)).map (·.2)).filter (fun v => v == len)).length := by
  unfold histCount
  rw [List.filter_map, List.length_map, List.filter_filter]
  congr 1
  apply List.filter_congr
  intro e _
  simp [Bool.and_comm]

theorem rowCount_histRow (o : Opts) (p : Pass) (len k : Nat) (hk : k ≤ o.ploidy) :
    rowCount (histRow o p len) k = histCount p k len := by
  unfold rowCount histRow
  simp only [List.getD_eq_getElem?_getD, List.getElem?_cons_succ]
  rw [List.getElem?_map, List.getElem?_range (by omega)]
  rfl

theorem colSum_histRowsFix (o : Opts) (p : Pass) (k : Nat) (hk : k ≤ o.ploidy) :
    colSum (histRowsFix o p) k = histTotal p k := by
  unfold colSum histRowsFix histTotal
  rw [List.map_map]
  have hc : ((fun r => rowCount r k) ∘ histRow o p) = fun len => histCount p k len := by
    funext len; exact rowCount_histRow o p len k hk
  rw [hc]
  have hperm := sortNat_perm (dedupNat ((List.range (o.ploidy + 1)).flatMap (histKeys p)))
  have hnd : (sortNat (dedupNat ((List.range (o.ploidy + 1)).flatMap (histKeys p)))).Nodup :=
    hperm.nodup_iff.mpr (nodup_dedupNat _)
  have hfun : (fun len => histCount p k len) =
      fun len => ((((p.hist.filter (fun e => e.1 == k)).map (·.2))).filter (fun v => v == len)).length := by
    funext len; exact histCount_as_filter p k len
  rw [hfun, sum_count_nodup _ hnd, List.length_map]
  intro v hv
  rw [hperm.mem_iff, mem_dedupNat, List.mem_flatMap]
  refine ⟨k, List.mem_range.mpr (by omega), ?_⟩
  unfold histKeys
  rw [mem_dedupNat]
  exact hv


end WhVerif.Lemmas.C14

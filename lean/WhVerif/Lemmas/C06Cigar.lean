import WhVerif.Model.C06
/-! Lemmas on CIGAR arithmetic: `cigar_prefix_length` against the column-wise prefix spec. -/
namespace WhVerif.C06

/-- the operators `cigar_prefix_length` accepts -/
def prefixOp (op : Nat) : Bool := isMatch op || op == 1 || op == 2 || op == 3 || op == 4 || op == 5

theorem countRef_append (a b : List Nat) : countRef (a ++ b) = countRef a + countRef b := by
  simp [countRef, List.filter_append]
theorem countQuery_append (a b : List Nat) : countQuery (a ++ b) = countQuery a + countQuery b := by
  simp [countQuery, List.filter_append]
theorem countRef_replicate (n op : Nat) : countRef (List.replicate n op) = if isRefCol op then n else 0 := by
  unfold countRef; rw [List.filter_replicate]; split <;> simp
theorem countQuery_replicate (n op : Nat) : countQuery (List.replicate n op) = if isQueryCol op then n else 0 := by
  unfold countQuery; rw [List.filter_replicate]; split <;> simp

theorem takeRef_zero (l : List Nat) : takeRef 0 l = [] := by cases l <;> rfl

/-- a run of reference-consuming columns: taken up to the `k`-th -/
theorem takeRef_replicate_ref (op : Nat) (h3 : (op == 3) = false) (hr : isRefCol op = true) (n k : Nat) (rest : List Nat) :
    takeRef k (List.replicate n op ++ rest) =
      if k ≤ n then List.replicate k op else List.replicate n op ++ takeRef (k - n) rest := by
  induction n generalizing k with
  | zero =>
    cases k with
    | zero => simp [takeRef_zero]
    | succ k => simp
  | succ n ih =>
    cases k with
    | zero => simp [takeRef_zero]
    | succ k =>
      simp only [List.replicate_succ, List.cons_append, takeRef, h3, hr, if_true, ih k]
      by_cases hk : k ≤ n
      · simp [hk, List.replicate_succ]
      · simp [hk, List.replicate_succ]

/-- a run of columns that consume no reference and are not N: passed through -/
theorem takeRef_replicate_other (op : Nat) (h3 : (op == 3) = false) (hr : isRefCol op = false) (n k : Nat) (rest : List Nat) :
    takeRef (k + 1) (List.replicate n op ++ rest) = List.replicate n op ++ takeRef (k + 1) rest := by
  induction n with
  | zero => simp
  | succ n ih => simp [List.replicate_succ, takeRef, h3, hr, ih]

theorem takeRef_replicate_N (n k : Nat) (rest : List Nat) :
    takeRef (k + 1) (List.replicate (n + 1) 3 ++ rest) = [] := by
  simp [List.replicate_succ, takeRef]

/-- core of `prefixLength_spec`: with `k' > 0` reference bases still wanted -/
theorem prefixGo_spec (c : Cigar) (hops : ∀ p ∈ c, prefixOp p.1 = true) (hlen : ∀ p ∈ c, 0 < p.2)
    (rp qp k' : Nat) (hk : 0 < k') :
    prefixGo true (rp + k') rp qp c =
      .ok (rp + countRef (takeRef k' (expand c)), qp + countQuery (takeRef k' (expand c))) := by
  induction c generalizing rp qp k' with
  | nil => simp [prefixGo, expand, hk, countRef, countQuery, takeRef]; cases k' <;> simp [takeRef] at *
  | cons p rest ih =>
    obtain ⟨op, len⟩ := p
    have hop := hops (op, len) (by simp)
    have hl : 0 < len := hlen (op, len) (by simp)
    have ih' := fun rp qp k' hk => ih (fun p hp => hops p (by simp [hp])) (fun p hp => hlen p (by simp [hp])) rp qp k' hk
    simp only [prefixGo, expand]
    by_cases hm : isMatch op = true
    · have h3 : (op == 3) = false := by
        simp only [isMatch, Bool.or_eq_true, beq_iff_eq] at hm; simp; omega
      have hr : isRefCol op = true := by simp [isRefCol, hm]
      have hq : isQueryCol op = true := by simp [isQueryCol, hm]
      simp only [hm, if_true]
      rw [takeRef_replicate_ref op h3 hr]
      by_cases hge : k' ≤ len
      · have : rp + len ≥ rp + k' := by omega
        simp only [this, if_true, hge, countRef_replicate, countQuery_replicate, hr, hq]
        congr 2; omega
      · have : ¬ (rp + len ≥ rp + k') := by omega
        simp only [this, if_false, hge, countRef_append, countQuery_append, countRef_replicate, countQuery_replicate, hr, hq, if_true]
        have e : rp + k' = (rp + len) + (k' - len) := by omega
        rw [e, ih' (rp + len) (qp + len) (k' - len) (by omega)]
        congr 2 <;> omega
    · simp only [hm, if_false]
      have hm' : isMatch op = false := by simpa using hm
      by_cases h2 : op = 2
      · subst h2
        have hr : isRefCol 2 = true := by decide
        have hq : isQueryCol 2 = false := by decide
        simp only [beq_self_eq_true, if_true]
        rw [takeRef_replicate_ref 2 (by decide) hr]
        by_cases hge : k' ≤ len
        · have : rp + len ≥ rp + k' := by omega
          simp [this, hge, countRef_replicate, countQuery_replicate, hr, hq]
        · have : ¬ (rp + len ≥ rp + k') := by omega
          simp only [this, if_false, hge, countRef_append, countQuery_append, countRef_replicate, countQuery_replicate, hr, hq, if_true]
          have e : rp + k' = (rp + len) + (k' - len) := by omega
          rw [e, ih' (rp + len) qp (k' - len) (by omega)]
          congr 2 <;> simp <;> omega
      · have h2' : (op == 2) = false := by simpa using h2
        simp only [h2', if_false]
        obtain ⟨k, rfl⟩ : ∃ k, k' = k + 1 := ⟨k' - 1, by omega⟩
        by_cases h1 : op = 1
        · subst h1
          simp only [beq_self_eq_true, if_true]
          rw [takeRef_replicate_other 1 (by decide) (by decide), ih' rp (qp + len) (k + 1) (by omega)]
          simp [countRef_append, countQuery_append, countRef_replicate, countQuery_replicate, isRefCol, isQueryCol, isMatch]
          omega
        · have h1' : (op == 1) = false := by simpa using h1
          simp only [h1', if_false]
          by_cases h45 : (op == 4 || op == 5) = true
          · have hr : isRefCol op = false := by simp [isRefCol, hm', h2']
            have hq : isQueryCol op = false := by simp [isQueryCol, hm', h1']
            have h3 : (op == 3) = false := by
              simp only [Bool.or_eq_true, beq_iff_eq] at h45; simp; omega
            simp only [h45, if_true]
            rw [takeRef_replicate_other op h3 hr, ih' rp qp (k + 1) (by omega)]
            simp [countRef_append, countQuery_append, countRef_replicate, countQuery_replicate, hr, hq]
          · have h3 : op = 3 := by
              simp only [prefixOp, hm', h1', h2', Bool.false_or, Bool.or_eq_true, beq_iff_eq] at hop
              simp only [Bool.or_eq_true, beq_iff_eq, not_or] at h45
              omega
            subst h3
            obtain ⟨n, rfl⟩ : ∃ n, len = n + 1 := ⟨len - 1, by omega⟩
            simp [takeRef_replicate_N, countRef, countQuery]

/-- without an N the as-is and the repaired `cigar_prefix_length` agree -/
theorem prefixGo_noN (c : Cigar) (hN : ∀ p ∈ c, p.1 ≠ 3) (k rp qp : Nat) :
    prefixGo false k rp qp c = prefixGo true k rp qp c := by
  induction c generalizing rp qp with
  | nil => simp [prefixGo]
  | cons p rest ih =>
    obtain ⟨op, len⟩ := p
    have h3 : (op == 3) = false := by simpa using hN (op, len) (by simp)
    have ih' := fun rp qp => ih (fun p hp => hN p (by simp [hp])) rp qp
    simp only [prefixGo, ih', h3]
    simp

end WhVerif.C06

import WhVerif.Spec.C05Pipeline
import WhVerif.Lemmas.C05SolverCol
/-!
# C05 pipeline, part 1 (solver level): every non-tie child allele of the witness' super reads is Mendelian

For ANY reads and recombination costs: in a column of the back-traced witness, an allele of the child that carries no
`EQUAL_SCORES` flag agrees with EVERY cost-optimal admissible assignment (`nontie_forced`); one exists
(`witness_feasible` + `opt_assign_exists`); admissibility makes the child's partitions carry the trusted genotypes of
all trio members, and `trio_partitions` identifies the child's partitions with the transmitted parental ones.
-/
namespace WhVerif.C05P
open WhVerif.C01 WhVerif.Cost WhVerif.C05.Solver

theorem trustedGeno_spec {I : Inst} {ind c g : Nat} (h : trustedGeno I ind c = some g) (j : Nat) (hj : j ≤ 2)
    (hne : gcost I ind c j ≠ none) : j = g := by
  unfold trustedGeno at h
  have hj' : j = 0 ∨ j = 1 ∨ j = 2 := by omega
  have hs : (gcost I ind c j).isSome = true := by
    cases hg : gcost I ind c j with
    | none => exact absurd hg hne
    | some _ => rfl
  cases h0 : (gcost I ind c 0).isSome <;> cases h1 : (gcost I ind c 1).isSome <;>
    cases h2 : (gcost I ind c 2).isSome <;> simp [List.filter, h0, h1, h2] at h <;>
    rcases hj' with rfl | rfl | rfl <;> simp_all

theorem trustedGeno_le {I : Inst} {ind c g : Nat} (h : trustedGeno I ind c = some g) : g ≤ 2 := by
  unfold trustedGeno at h
  cases h0 : (gcost I ind c 0).isSome <;> cases h1 : (gcost I ind c 1).isSome <;>
    cases h2 : (gcost I ind c 2).isSome <;> simp [List.filter, h0, h1, h2] at h <;> omega

theorem mem_genoAlleles_of_sum {a b g : Nat} (ha : a ≤ 1) (hb : b ≤ 1) (h : a + b = g) :
    a ∈ genoAlleles g ∧ b ∈ genoAlleles g := by
  have : a = 0 ∨ a = 1 := by omega
  have : b = 0 ∨ b = 1 := by omega
  subst h
  rcases ‹a = 0 ∨ a = 1› with rfl | rfl <;> rcases ‹b = 0 ∨ b = 1› with rfl | rfl <;> simp [genoAlleles]

theorem ite_h2p (I : Inst) (t ind : Nat) (b : Prop) [Decidable b] :
    (if b then h2p I t ind 0 else h2p I t ind 1) = h2p I t ind (if b then 0 else 1) := by
  split <;> rfl

/-- **solver level**: the statement about one column of the witness' super reads, per haplotype of the child -/
theorem column_mendelian (I : Inst) (hwf : WF I) (hok : PedOK I) (β : List Bool) (τ : List Nat)
    (hw : witness I = some (β, τ)) (k f m ch : Nat) (htr : I.trios[k]? = some (f, m, ch))
    (c : Nat) (hc : c < I.ncols) (gf gm gc : Nat)
    (hgf : trustedGeno I f c = some gf) (hgm : trustedGeno I m c = some gm) (hgc : trustedGeno I ch c = some gc) :
    ∃ L, superReadColumn I β τ c = some L ∧ L.length = I.nind ∧
      (reported L ch 0 ≠ 3 → reported L ch 0 ≤ 1 ∧ reported L ch 0 ∈ genoAlleles gf ∧
        (reported L f (selHap (τ.getD c 0) (2 * k)) ≠ 3 →
          reported L f (selHap (τ.getD c 0) (2 * k)) = reported L ch 0)) ∧
      (reported L ch 1 ≠ 3 → reported L ch 1 ≤ 1 ∧ reported L ch 1 ∈ genoAlleles gm ∧
        (reported L m (selHap (τ.getD c 0) (2 * k + 1)) ≠ 3 →
          reported L m (selHap (τ.getD c 0) (2 * k + 1)) = reported L ch 1)) ∧
      (reported L ch 0 ≠ 3 → reported L ch 1 ≠ 3 → reported L ch 0 + reported L ch 1 = gc) := by
  obtain ⟨L, hL⟩ := superReadColumn_some I hwf β τ hw c hc
  have hL' : getAlleles I c (restrict β (I.activeAt c)) (τ.getD c 0) = some L := hL
  generalize τ.getD c 0 = t at hL'
  generalize restrict β (I.activeAt c) = bs at hL'
  have hne : assignments I c t ≠ [] := by
    intro h; rw [(getAlleles_none_iff I c bs t).mpr h] at hL'; cases hL'
  obtain ⟨ag, hopt⟩ := opt_assign_exists I c bs t hne
  have hmem := hok.members _ (List.mem_of_getElem? htr)
  simp only at hmem
  obtain ⟨hfi, hmi, hci⟩ := hmem
  have hcost := mem_assignments I c t ag hopt.1
  have hC := assignCost_some I c t ag.1 ag.2 hcost ch hci
  have hF := assignCost_some I c t ag.1 ag.2 hcost f hfi
  have hM := assignCost_some I c t ag.1 ag.2 hcost m hmi
  obtain ⟨p0, p1⟩ := trio_partitions I hok t k f m ch htr
  rw [ite_h2p] at p0 p1
  have hsf : selHap t (2 * k) = 0 ∨ selHap t (2 * k) = 1 := by unfold selHap; split <;> simp
  have hsm : selHap t (2 * k + 1) = 0 ∨ selHap t (2 * k + 1) = 1 := by unfold selHap; split <;> simp
  change h2p I t ch 0 = h2p I t f (selHap t (2 * k)) at p0
  change h2p I t ch 1 = h2p I t m (selHap t (2 * k + 1)) at p1
  obtain ⟨c0r, c0f, _⟩ := nontie_forced I c bs t L hL' ch 0 hci (Or.inl rfl)
  obtain ⟨c1r, c1f, _⟩ := nontie_forced I c bs t L hL' ch 1 hci (Or.inr rfl)
  obtain ⟨_, ff, _⟩ := nontie_forced I c bs t L hL' f (selHap t (2 * k)) hfi hsf
  obtain ⟨_, mf, _⟩ := nontie_forced I c bs t L hL' m (selHap t (2 * k + 1)) hmi hsm
  -- the parents' two partitions carry their trusted genotypes, the child's likewise
  have eF := trustedGeno_spec hgf _ (by
    have := bitOf_lt ag.1 (h2p I t f 0); have := bitOf_lt ag.1 (h2p I t f 1); omega) hF
  have eM := trustedGeno_spec hgm _ (by
    have := bitOf_lt ag.1 (h2p I t m 0); have := bitOf_lt ag.1 (h2p I t m 1); omega) hM
  have eC := trustedGeno_spec hgc _ (by
    have := bitOf_lt ag.1 (h2p I t ch 0); have := bitOf_lt ag.1 (h2p I t ch 1); omega) hC
  have hbf0 := bitOf_lt ag.1 (h2p I t f 0)
  have hbf1 := bitOf_lt ag.1 (h2p I t f 1)
  have hbm0 := bitOf_lt ag.1 (h2p I t m 0)
  have hbm1 := bitOf_lt ag.1 (h2p I t m 1)
  -- the transmitted allele is one of the parent's two
  have inF : bitOf ag.1 (h2p I t f (selHap t (2 * k))) ∈ genoAlleles gf := by
    rcases hsf with e | e <;> rw [e]
    · exact (mem_genoAlleles_of_sum (by omega) (by omega) eF).1
    · exact (mem_genoAlleles_of_sum (by omega) (by omega) eF).2
  have inM : bitOf ag.1 (h2p I t m (selHap t (2 * k + 1))) ∈ genoAlleles gm := by
    rcases hsm with e | e <;> rw [e]
    · exact (mem_genoAlleles_of_sum (by omega) (by omega) eM).1
    · exact (mem_genoAlleles_of_sum (by omega) (by omega) eM).2
  refine ⟨L, hL, getAlleles_length I c bs t L hL', ?_, ?_, ?_⟩
  · intro h3
    have e := c0f h3 ag hopt
    refine ⟨by rcases c0r with h | h | h <;> omega, ?_, fun hf3 => ?_⟩
    · rw [← e, p0]; exact inF
    · rw [← ff hf3 ag hopt, ← e, p0]
  · intro h3
    have e := c1f h3 ag hopt
    refine ⟨by rcases c1r with h | h | h <;> omega, ?_, fun hm3 => ?_⟩
    · rw [← e, p1]; exact inM
    · rw [← mf hm3 ag hopt, ← e, p1]
  · intro h0 h1
    rw [← c0f h0 ag hopt, ← c1f h1 ag hopt]; exact eC

end WhVerif.C05P

import WhVerif.Model.C17
/-! helper lemmas for C17: the vote table at one position -/
namespace WhVerif.C17
open WhVerif.C10 (RV)

/-- the inner dictionary of a position all of whose votes went to key `k0` of phase set `ps0` -/
def shape (ps0 : Int) (k0 S : Nat) : Inner :=
  [((ps0, 0), if k0 = 0 then S else 0), ((ps0, 1), if k0 = 0 then 0 else S)]

theorem voteInner_nil (ps0 : Int) {k0 : Nat} (hk : k0 ≤ 1) (q : Nat) :
    voteInner ps0 k0 q [] = some (shape ps0 k0 q) := by
  have : k0 = 0 ∨ k0 = 1 := by omega
  rcases this with rfl | rfl <;> simp [voteInner, bumpKey, shape]

theorem voteInner_shape (ps0 : Int) {k0 : Nat} (hk : k0 ≤ 1) (S q : Nat) :
    voteInner ps0 k0 q (shape ps0 k0 S) = some (shape ps0 k0 (S + q)) := by
  have : k0 = 0 ∨ k0 = 1 := by omega
  rcases this with rfl | rfl <;> simp [voteInner, bumpKey, shape]

theorem lookup_voteAt_self {pos : Nat} {ps : Int} {key q : Nat} {votes votes' : Votes}
    (h : voteAt pos ps key q votes = some votes') :
    voteInner ps key q ((votes.lookup pos).getD []) = votes'.lookup pos := by
  induction votes generalizing votes' with
  | nil =>
    simp only [voteAt, Option.map_eq_some_iff] at h
    obtain ⟨i, hi, rfl⟩ := h
    simp [List.lookup, hi]
  | cons e rest ih =>
    obtain ⟨p, inner⟩ := e
    by_cases hp : p = pos
    · subst hp
      simp only [voteAt, if_true, Option.map_eq_some_iff] at h
      obtain ⟨i, hi, rfl⟩ := h
      simp [List.lookup, hi]
    · simp only [voteAt, hp, if_false, Option.map_eq_some_iff] at h
      obtain ⟨r, hr, rfl⟩ := h
      have : (pos == p) = false := by simpa using fun e : pos = p => hp e.symm
      simp [List.lookup, this, ih hr]

theorem lookup_voteAt_other {pos p : Nat} (hne : p ≠ pos) {ps : Int} {key q : Nat} {votes votes' : Votes}
    (h : voteAt pos ps key q votes = some votes') : votes'.lookup p = votes.lookup p := by
  induction votes generalizing votes' with
  | nil =>
    simp only [voteAt, Option.map_eq_some_iff] at h
    obtain ⟨i, _, rfl⟩ := h
    have : (p == pos) = false := by simpa using hne
    simp [List.lookup, this]
  | cons e rest ih =>
    obtain ⟨p', inner⟩ := e
    by_cases hp : p' = pos
    · subst hp
      simp only [voteAt, if_true, Option.map_eq_some_iff] at h
      obtain ⟨i, _, rfl⟩ := h
      have : (p == p') = false := by simpa using hne
      simp [List.lookup, this]
    · simp only [voteAt, hp, if_false, Option.map_eq_some_iff] at h
      obtain ⟨r, hr, rfl⟩ := h
      cases hb : (p == p') <;> simp [List.lookup, hb, ih hr]

/-- state of the table at `pos` after votes of total quality `S`, all for key `k0` of `ps0` -/
def PosInv (pos : Nat) (ps0 : Int) (k0 S : Nat) (votes : Votes) : Prop :=
  (votes.lookup pos = none → S = 0) ∧ ∀ inner, votes.lookup pos = some inner → inner = shape ps0 k0 S

theorem posInv_vote_self {pos : Nat} {ps0 : Int} {k0 S q : Nat} (hk : k0 ≤ 1) {votes votes' : Votes}
    (hi : PosInv pos ps0 k0 S votes) (h : voteAt pos ps0 k0 q votes = some votes') :
    PosInv pos ps0 k0 (S + q) votes' := by
  have hl := lookup_voteAt_self h
  cases ho : votes.lookup pos with
  | none =>
    have hS := hi.1 ho
    subst hS
    rw [ho] at hl
    simp only [Option.getD_none, voteInner_nil ps0 hk] at hl
    constructor
    · intro hn; rw [hn] at hl; cases hl
    · intro inner hin; rw [hin] at hl; simpa using hl.symm
  | some inner0 =>
    have := hi.2 inner0 ho
    subst this
    rw [ho] at hl
    simp only [Option.getD_some, voteInner_shape ps0 hk] at hl
    constructor
    · intro hn; rw [hn] at hl; cases hl
    · intro inner hin; rw [hin] at hl; simpa using hl.symm

theorem posInv_vote_other {pos p : Nat} (hne : pos ≠ p) {ps0 ps : Int} {k0 S key q : Nat} {votes votes' : Votes}
    (hi : PosInv pos ps0 k0 S votes) (h : voteAt p ps key q votes = some votes') :
    PosInv pos ps0 k0 S votes' := by
  have := lookup_voteAt_other hne h
  unfold PosInv
  rw [this]
  exact hi

end WhVerif.C17

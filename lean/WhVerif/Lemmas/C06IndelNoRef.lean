import WhVerif.Lemmas.C06NoRef
import WhVerif.Lemmas.C06Window
import WhVerif.Spec.C06Indel
/-! Lemmas for `noref_unshiftable_indel_correct`: the no-reference state machine on one isolated indel variant. -/
namespace WhVerif.C06

theorem op_cases (op : Nat) (hop : op ≤ 8) (h3 : op ≠ 3) (h4 : op ≠ 4) (h5 : op ≠ 5) (h6 : op ≠ 6) :
    isMatch op = true ∨ op = 1 ∨ op = 2 := by
  have : op = 0 ∨ op = 1 ∨ op = 2 ∨ op = 7 ∨ op = 8 := by omega
  rcases this with rfl | rfl | rfl | rfl | rfl <;> simp [isMatch]

theorem isMatch_le8 (op : Nat) (h : isMatch op = true) : op ≤ 8 := by
  simp only [isMatch, Bool.or_eq_true, beq_iff_eq] at h
  omega

/-- nothing left to visit, nothing queued: no call, no error -/
theorem noRefGo_empty (fx : Fixes) (query : Seq) (quals : Option (List Nat)) (C : Cigar) (hC : ∀ p ∈ C, p.1 ≤ 8)
    (anch : Bool) (rp qp : Nat) : noRefGo fx query quals anch rp qp [] [] C = ([], none) := by
  induction C generalizing anch rp qp with
  | nil => simp [noRefGo, flushQueue]
  | cons x rest ih =>
    obtain ⟨op, len⟩ := x
    have hop : op ≤ 8 := hC (op, len) (by simp)
    have ih' := fun anch rp qp => ih (fun p hp => hC p (by simp [hp])) anch rp qp
    simp only [noRefGo, List.dropWhile_nil]
    by_cases h3 : op = 3
    · subst h3; simp [ih']
    · by_cases h4 : op = 4
      · subst h4; simp [ih']
      · by_cases h5 : op = 5
        · subst h5; simp [ih']
        · by_cases h6 : op = 6
          · subst h6; simp [ih']
          · have hv := op_cases op hop h3 h4 h5 h6
            have hv' : (isMatch op || op == 1 || op == 2) = true := by
              rcases hv with h | rfl | rfl <;> simp [*]
            simp [h3, h4, h5, h6, queueLoop, hv', mapM', popResolved, ih']

/-- one operation that ends before the (only) variant: nothing is queued -/
theorem noRefGo_step_skip (fx : Fixes) (h16 : fx.f16 = true) (query : Seq) (quals : Option (List Nat)) (anch : Bool)
    (rp qp id : Nat) (v : Variant) (op len : Nat) (C : Cigar) (hop : op ≤ 8)
    (hpos : rp + (if consumesRef op then len else 0) ≤ v.pos) (hI : op = 1 → rp < v.pos) :
    ∃ anch', noRefGo fx query quals anch rp qp [(id, v)] [] ((op, len) :: C) =
      noRefGo fx query quals anch' (rp + (if consumesRef op then len else 0)) (qp + (if consumesQuery op then len else 0))
        [(id, v)] [] C := by
  have hrp : rp ≤ v.pos := by omega
  have hdw : List.dropWhile (fun p : VP => decide (p.2.pos < rp)) [(id, v)] = [(id, v)] := by
    have : ¬ v.pos < rp := by omega
    simp [List.dropWhile, this]
  simp only [noRefGo, hdw]
  by_cases h3 : op = 3
  · subst h3; exact ⟨false, by simp [consumesRef, consumesQuery, isMatch]⟩
  · by_cases h4 : op = 4
    · subst h4; exact ⟨anch, by simp [consumesRef, consumesQuery, isMatch]⟩
    · by_cases h5 : op = 5
      · subst h5; exact ⟨anch, by simp [consumesRef, consumesQuery, isMatch]⟩
      · by_cases h6 : op = 6
        · subst h6; exact ⟨anch, by simp [consumesRef, consumesQuery, isMatch]⟩
        · have hv := op_cases op hop h3 h4 h5 h6
          have hv' : (isMatch op || op == 1 || op == 2) = true := by
            rcases hv with h | rfl | rfl <;> simp [*]
          refine ⟨true, ?_⟩
          have hq : ∀ sk e, v.pos ≥ e → queueLoop sk op rp qp e [(id, v)] = ([], [(id, v)]) := by
            intro sk e he
            simp only [queueLoop, he, if_true]
          have hge : v.pos ≥ (if (fx.f16 && op == 1) = true then rp + 1 else rp + len) := by
            rcases hv with h | rfl | rfl
            · have h1 : (op == 1) = false := by
                cases h' : (op == 1) with
                | false => rfl
                | true => have := eq_of_beq h'; subst this; simp [isMatch] at h
              have : consumesRef op = true := by simp [consumesRef, h]
              simp only [this, if_true] at hpos
              simp [h1]; omega
            · have := hI rfl
              simp [h16]; omega
            · have : consumesRef 2 = true := by decide
              simp only [this, if_true] at hpos
              simp; omega
          have h3' : (op == 3) = false := by simpa using h3
          have h4' : (op == 4) = false := by simpa using h4
          have h56' : (op == 5 || op == 6) = false := by simp [h5, h6]
          simp only [h3', h4', h56', hq _ _ hge, hv', Bool.false_eq_true, if_false, List.append_nil, mapM',
            popResolved, List.nil_append, Bool.not_true]
          rcases hv with h | rfl | rfl
          · simp [consumesRef, consumesQuery, h]
          · simp [consumesRef, consumesQuery, isMatch]
          · simp [consumesRef, consumesQuery, isMatch]

/-- a whole prefix that ends strictly before the variant -/
theorem noRefGo_skip (fx : Fixes) (h16 : fx.f16 = true) (query : Seq) (quals : Option (List Nat)) (id : Nat) (v : Variant)
    (A C : Cigar) (hA : ∀ p ∈ A, p.1 ≤ 8) (anch : Bool) (rp qp : Nat) (h : rp + refLen A < v.pos) :
    ∃ anch', noRefGo fx query quals anch rp qp [(id, v)] [] (A ++ C) =
      noRefGo fx query quals anch' (rp + refLen A) (qp + qLen A) [(id, v)] [] C := by
  induction A generalizing anch rp qp with
  | nil => exact ⟨anch, by simp [refLen, qLen]⟩
  | cons x rest ih =>
    obtain ⟨op, len⟩ := x
    simp only [refLen] at h
    obtain ⟨a1, h1⟩ := noRefGo_step_skip fx h16 query quals anch rp qp id v op len (rest ++ C) (hA (op, len) (by simp))
      (by omega) (by intro _; omega)
    obtain ⟨a2, h2⟩ := ih (fun p hp => hA p (by simp [hp])) a1 (rp + (if consumesRef op then len else 0))
      (qp + (if consumesQuery op then len else 0)) (by omega)
    refine ⟨a2, ?_⟩
    simp only [List.cons_append, h1, h2, refLen, qLen, Nat.add_assoc]

/-! ### the entry of a deletion / insertion variant through the three handlers -/

theorem dropWhile_single (id : Nat) (v : Variant) (rp : Nat) (h : rp ≤ v.pos) :
    List.dropWhile (fun p : VP => decide (p.2.pos < rp)) [(id, v)] = [(id, v)] := by
  have : ¬ v.pos < rp := by omega
  simp [List.dropWhile, this]

theorem bvp_del (pos : Nat) (ref : Seq) :
    buildVarProgress ⟨pos, ref, [[]]⟩ = [AP.mk' ref.length 0 0, AP.mk' 0 0 ref.length] := by
  simp [buildVarProgress]

theorem bvp_ins (pos : Nat) (ins : Seq) :
    buildVarProgress ⟨pos, [], [ins]⟩ = [AP.mk' 0 0 0, AP.mk' 0 ins.length 0] := by
  simp [buildVarProgress]

/-- an allele that has failed / is resolved -/
def apFailed (len m i d : Nat) : AP := ⟨-1, len, 0, 0, m, 0, i, 0, d⟩

theorem handleDelete_ref (L : Nat) (hL : 0 < L) : handleDelete L (AP.mk' L 0 0) = apFailed L L 0 0 := by
  simp [handleDelete, AP.mk', hL, apFailed]

theorem handleDelete_alt (L : Nat) : handleDelete L (AP.mk' 0 0 L) = ⟨L, L, 30 * L, 0, 0, 0, 0, L, L⟩ := by
  simp [handleDelete, AP.mk']

theorem neg_one_ne_nat (n : Nat) : ((-1 : Int) == (n : Int)) = false := by
  simp only [beq_eq_false_iff_ne, ne_eq]; omega

/-- pop loop: REF failed, ALT resolved with length `L > 0` -/
theorem popResolved_alt (id : Nat) (v : Variant) (qs : Int) (lr mr ir dr : Nat) (L m i d dd : Nat) (hL : 0 < L) :
    popResolved [⟨id, v, qs, [apFailed lr mr ir dr, ⟨(L : Int), L, 30 * L, 0, m, i, i, dd, d⟩]⟩] = ([(id, 1, 30)], []) := by
  have h2 : ¬ ((L : Int) < (L : Int)) := by omega
  have hd : 30 * L / L = 30 := Nat.mul_div_cancel 30 hL
  simp [popResolved, resolvedIdx, pendingIdx, enumFrom, yieldOf, pickLongest, apFailed, neg_one_ne_nat, hL, hd]

/-- the deletion of the variant itself: ALT -/
theorem noRefGo_del_alt (fx : Fixes) (query : Seq) (quals : Option (List Nat)) (anch : Bool) (qp id pos : Nat) (ref : Seq)
    (C : Cigar) (hL : 0 < ref.length) (hC : ∀ p ∈ C, p.1 ≤ 8) :
    noRefGo fx query quals anch pos qp [(id, ⟨pos, ref, [[]]⟩)] [] ((2, ref.length) :: C) = ([(id, 1, 30)], none) := by
  have hm : isMatch 2 = false := by decide
  have hlt : ¬ (pos ≥ pos + ref.length) := by omega
  have hl0 : ¬ (ref.length = 0) := by omega
  have hql : ∀ sk, queueLoop sk 2 pos qp (pos + ref.length) [(id, ⟨pos, ref, [[]]⟩)] =
      ([⟨id, ⟨pos, ref, [[]]⟩, (qp : Int), [AP.mk' ref.length 0 0, AP.mk' 0 0 ref.length]⟩], []) := by
    intro sk
    simp [queueLoop, hlt, hl0, bvp_del]
  have hend : (if (fx.f16 && (2 : Nat) == 1) = true then pos + 1 else pos + ref.length) = pos + ref.length := by
    simp
  have hdw := dropWhile_single id ⟨pos, ref, [[]]⟩ pos (Nat.le_refl _)
  have hpop := popResolved_alt id ⟨pos, ref, [[]]⟩ (qp : Int) ref.length ref.length 0 0 ref.length 0 0 ref.length
    ref.length hL
  have hh : handleEntry fx.f13 2 query quals qp ref.length
      ⟨id, ⟨pos, ref, [[]]⟩, (qp : Int), [AP.mk' ref.length 0 0, AP.mk' 0 0 ref.length]⟩ =
      .ok ⟨id, ⟨pos, ref, [[]]⟩, (qp : Int), [apFailed ref.length ref.length 0 0,
        ⟨(ref.length : Int), ref.length, 30 * ref.length, 0, 0, 0, 0, ref.length, ref.length⟩]⟩ := by
    simp only [handleEntry, hm, Bool.false_eq_true, if_false, Nat.reduceBEq, List.map_cons, List.map_nil,
      handleDelete_ref _ hL, handleDelete_alt]
    rfl
  simp only [noRefGo, hdw, hend, hql, List.nil_append, mapM', hh]
  simp [bind, Except.bind, pure, Except.pure, hpop, noRefGo_empty fx query quals C hC, hm]

/-! ### insertion carried by the read -/

theorem slice_getElem? {α} (l : List α) (a n t : Nat) (h : t < n) : (slice l a n)[t]? = l[a + t]? := by
  simp [slice, List.getElem?_take, h, List.getElem?_drop]

/-- pointwise form of "the `n` query bases from `q` on are `s`" -/
theorem slice_pointwise (query s : Seq) (q : Nat) (h : slice query q s.length = s) :
    ∀ t, t < s.length → ∃ c, query[q + t]? = some c ∧ s[t]? = some c := by
  intro t ht
  refine ⟨s[t], ?_, List.getElem?_eq_getElem ht⟩
  rw [← slice_getElem? query q s.length t ht, h]
  exact List.getElem?_eq_getElem ht

/-- the ALT allele of an insertion after `j` inserted bases -/
def insAP (n j : Nat) : AP := ⟨(j : Int), n, 30 * j, 0, 0, j, n, 0, 0⟩

theorem insertLoop_all (query ins : Seq) (qp n : Nat)
    (hins : ∀ t, t < n → ∃ c, query[qp + t]? = some c ∧ ins[t]? = some c) (fuel j : Nat) (hj : j + fuel = n) :
    insertLoop query ins (qp : Int) n fuel (insAP n j) j = .ok (insAP n n, n) := by
  induction fuel generalizing j with
  | zero => have : j = n := by omega
            subst this; rfl
  | succ f ih =>
    have hjn : j < n := by omega
    obtain ⟨c, hc1, hc2⟩ := hins j hjn
    have hcast : (qp : Int) + (((0 : Nat) : Int)) + ((j : Nat) : Int) = ((qp + j : Nat) : Int) := by omega
    have hnext : AP.mk ((j : Int) + 1) n (30 * j + 30) 0 0 (j + 1) n 0 0 = insAP n (j + 1) := by
      simp only [insAP, AP.mk.injEq]
      refine ⟨by omega, trivial, by omega, trivial, trivial, trivial, trivial, trivial, trivial⟩
    simp only [insertLoop, insAP, hjn, and_self, if_true, hcast, pyGet_nat, hc1, Nat.zero_add, hc2, beq_self_eq_true, hnext]
    exact ih (j + 1) (by omega)

theorem handleInsert_alt (query ins : Seq) (id pos qp : Nat) (alts : List AP) (h0 : 0 < ins.length)
    (hins : slice query qp ins.length = ins) :
    handleInsert query ⟨id, ⟨pos, [], [ins]⟩, (qp : Int), alts⟩ ins.length 1 (AP.mk' 0 ins.length 0)
      = .ok (insAP ins.length ins.length) := by
  have hal : getAllele ⟨pos, [], [ins]⟩ 1 = some ins := by simp [getAllele]
  have hmk : AP.mk' 0 ins.length 0 = insAP ins.length 0 := by simp [AP.mk', insAP]
  have hp : ¬ ((insAP ins.length 0).progress < 0) := by simp [insAP]
  rw [hmk]
  simp only [handleInsert, hp, if_false, hal,
    insertLoop_all query ins qp ins.length (slice_pointwise query ins qp hins) ins.length 0 (by omega)]
  simp [insAP]

theorem handleInsert_ref (query ins : Seq) (id pos : Nat) (qs : Int) (alts : List AP) (n : Nat) (h0 : 0 < n) :
    handleInsert query ⟨id, ⟨pos, [], [ins]⟩, qs, alts⟩ n 0 (AP.mk' 0 0 0) = .ok (AP.mk' 0 0 0) := by
  have hal : getAllele ⟨pos, [], [ins]⟩ 0 = some [] := by simp [getAllele]
  obtain ⟨k, rfl⟩ : ∃ k, n = k + 1 := ⟨n - 1, by omega⟩
  simp [handleInsert, AP.mk', hal, insertLoop]

/-- pop loop: REF (length 0) and ALT (length `n > 0`) both resolved: the longest is yielded -/
theorem popResolved_ins_alt (id : Nat) (v : Variant) (qs : Int) (n : Nat) (hn : 0 < n) :
    popResolved [⟨id, v, qs, [AP.mk' 0 0 0, insAP n n]⟩] = ([(id, 1, 30)], []) := by
  have h2 : ¬ ((n : Int) < (n : Int)) := by omega
  have hd : 30 * n / n = 30 := Nat.mul_div_cancel 30 hn
  simp [popResolved, resolvedIdx, pendingIdx, enumFrom, yieldOf, pickLongest, AP.mk', insAP, hn, hd]

/-- the insertion of the variant itself with the right bases: ALT -/
theorem noRefGo_ins_alt (fx : Fixes) (h16 : fx.f16 = true) (query : Seq) (quals : Option (List Nat)) (anch : Bool)
    (qp id pos : Nat) (ins : Seq) (C : Cigar) (h0 : 0 < ins.length) (hins : slice query qp ins.length = ins)
    (hC : ∀ p ∈ C, p.1 ≤ 8) :
    noRefGo fx query quals anch pos qp [(id, ⟨pos, [], [ins]⟩)] [] ((1, ins.length) :: C) = ([(id, 1, 30)], none) := by
  have hm : isMatch 1 = false := by decide
  have hlt : ¬ (pos ≥ pos + 1) := by omega
  have hqs : (qp : Int) + (pos : Int) - (pos : Int) = (qp : Int) := by omega
  have hql : queueLoop false 1 pos qp (pos + 1) [(id, ⟨pos, [], [ins]⟩)] =
      ([⟨id, ⟨pos, [], [ins]⟩, (qp : Int), [AP.mk' 0 0 0, AP.mk' 0 ins.length 0]⟩], []) := by
    simp [queueLoop, bvp_ins, hqs]
  have hsk : (fx.f15 && !anch && isMatch 1) = false := by simp [hm]
  have hend : (if (fx.f16 && (1 : Nat) == 1) = true then pos + 1 else pos + ins.length) = pos + 1 := by
    simp [h16]
  have hdw := dropWhile_single id ⟨pos, [], [ins]⟩ pos (Nat.le_refl _)
  have hpop := popResolved_ins_alt id ⟨pos, [], [ins]⟩ (qp : Int) ins.length h0
  have hh : handleEntry fx.f13 1 query quals qp ins.length
      ⟨id, ⟨pos, [], [ins]⟩, (qp : Int), [AP.mk' 0 0 0, AP.mk' 0 ins.length 0]⟩ =
      .ok ⟨id, ⟨pos, [], [ins]⟩, (qp : Int), [AP.mk' 0 0 0, insAP ins.length ins.length]⟩ := by
    simp only [handleEntry, hm, Bool.false_eq_true, if_false, beq_self_eq_true, if_true, mapIdxM,
      handleInsert_ref query ins id pos _ _ ins.length h0, handleInsert_alt query ins id pos qp _ h0 hins]
    rfl
  simp only [noRefGo, hdw, hend, hsk, hql, List.nil_append, mapM', hh]
  simp [bind, Except.bind, pure, Except.pure, hpop, noRefGo_empty fx query quals C hC, hm]

/-! ### REF carried by the read: the variant position lies inside an M/=/X block -/

/-- the REF allele of a deletion after `j` matched bases with accumulated quality `q` -/
def matAP (L j q : Nat) : AP := ⟨(j : Int), L, q, j, L, 0, 0, 0, 0⟩

theorem qualSum_succ' (quals : Option (List Nat)) (q n : Nat) (h : 0 < n) :
    qualSum quals q n = qualAt quals q + qualSum quals (q + 1) (n - 1) := by
  obtain ⟨k, rfl⟩ : ∃ k, n = k + 1 := ⟨n - 1, by omega⟩
  simp [qualSum]

theorem matchLoop_all (query : Seq) (quals : Option (List Nat)) (ref : Seq) (q0 m d L : Nat)
    (href : ∀ t, t < L → ∃ c, query[q0 + t]? = some c ∧ ref[t]? = some c)
    (hq : ∀ l, quals = some l → q0 + L ≤ l.length) (hfit : d + L ≤ m)
    (fuel j acc : Nat) (hj : j ≤ L) (hfuel : L - j ≤ fuel) :
    matchLoop true query quals ref ((q0 + j : Nat) : Int) m fuel (matAP L j acc) (d + j) =
      .ok (matAP L L (acc + qualSum quals (q0 + j) (L - j)), d + L) := by
  induction fuel generalizing j acc with
  | zero =>
    have : j = L := by omega
    subst this
    simp [matchLoop, qualSum]
  | succ f ih =>
    by_cases hjL : j < L
    · obtain ⟨c, hc1, hc2⟩ := href j hjL
      have hcond : j < L ∧ d + j < m := ⟨hjL, by omega⟩
      have hnext : ∀ qual, AP.mk ((j : Int) + 1) L (acc + qual) (j + 1) L 0 0 0 0 = matAP L (j + 1) (acc + qual) := by
        intro qual
        simp only [matAP, AP.mk.injEq]
        refine ⟨by omega, trivial, trivial, trivial, trivial, trivial, trivial, trivial, trivial⟩
      have hqp : ((q0 + j : Nat) : Int) + 1 = ((q0 + (j + 1) : Nat) : Int) := by omega
      have hops : d + j + 1 = d + (j + 1) := by omega
      have hgoal : ∀ qual, qual = qualAt quals (q0 + j) →
          matchLoop true query quals ref ((q0 + (j + 1) : Nat) : Int) m f
            (AP.mk ((j : Int) + 1) L (acc + qual) (j + 1) L 0 0 0 0) (d + (j + 1)) =
          .ok (matAP L L (acc + qualSum quals (q0 + j) (L - j)), d + L) := by
        intro qual hq'
        subst hq'
        rw [hnext, ih (j + 1) _ (by omega) (by omega), qualSum_succ' quals (q0 + j) (L - j) (by omega)]
        have e1 : q0 + j + 1 = q0 + (j + 1) := by omega
        have e2 : L - j - 1 = L - (j + 1) := by omega
        rw [e1, e2, Nat.add_assoc]
      simp only [matchLoop, matAP, hcond, and_self, if_true, pyGet_nat, hc1, Nat.add_zero, hc2, beq_self_eq_true,
        hqp, hops]
      cases quals with
      | none => exact hgoal 30 rfl
      | some l =>
        have hl := hq l rfl
        have hlt : q0 + j < l.length := by omega
        simp only [List.getElem?_eq_getElem hlt]
        exact hgoal _ (by simp [qualAt, List.getD, List.getElem?_eq_getElem hlt])
    · have : j = L := by omega
      subst this
      rw [matchLoop_done _ _ _ _ _ _ _ _ _ (by simp [matAP])]
      simp [qualSum]

/-- the match handler on an allele with no (more) base to match: it fails iff it is not complete and the operation is
not used up -/
theorem handleMatch_nomatch (adv : Bool) (query : Seq) (quals : Option (List Nat)) (e : Entry) (qp m i : Nat) (a : AP)
    (al : Seq) (hp : ¬ a.progress < 0) (hal : getAllele e.v i = some al) (hmt : ¬ a.matched < a.matchTarget) :
    handleMatch adv query quals e qp m i a =
      .ok (if (e.queryStart - (qp : Int)).toNat < m ∧ a.progress < a.length then { a with progress := -1 } else a) := by
  simp only [handleMatch, hp, if_false, hal, matchLoop_done _ _ _ _ _ _ _ _ _ hmt]

/-- pop loop: REF resolved (length `L > 0`), ALT failed -/
theorem popResolved_del_ref (id : Nat) (v : Variant) (qs : Int) (L q la ma ia da : Nat) (hL : 0 < L) :
    popResolved [⟨id, v, qs, [matAP L L q, apFailed la ma ia da]⟩] = ([(id, 0, q / L)], []) := by
  have h2 : ¬ ((L : Int) < (L : Int)) := by omega
  simp [popResolved, resolvedIdx, pendingIdx, enumFrom, yieldOf, pickLongest, apFailed, matAP, neg_one_ne_nat, hL]

/-- pop loop: REF of length 0 resolved, ALT failed -/
theorem popResolved_ins_ref (id : Nat) (v : Variant) (qs : Int) (la ma ia da : Nat) :
    popResolved [⟨id, v, qs, [AP.mk' 0 0 0, apFailed la ma ia da]⟩] = ([(id, 0, 30)], []) := by
  simp [popResolved, resolvedIdx, pendingIdx, enumFrom, yieldOf, pickLongest, apFailed, AP.mk', neg_one_ne_nat]

/-- a read matching REF of a deletion variant through (repaired match handler): REF, with the mean base quality -/
theorem noRefGo_del_ref (fx : Fixes) (h13 : fx.f13 = true) (query : Seq) (quals : Option (List Nat)) (anch : Bool)
    (rp qp id pos : Nat) (ref : Seq) (mop m : Nat) (C : Cigar) (hm : isMatch mop = true) (hL : 0 < ref.length)
    (hlo : rp ≤ pos) (hhi : pos + ref.length ≤ rp + m)
    (href : slice query (qp + (pos - rp)) ref.length = ref)
    (hquals : ∀ l, quals = some l → l.length = query.length) (hC : ∀ p ∈ C, p.1 ≤ 8) :
    noRefGo fx query quals anch rp qp [(id, ⟨pos, ref, [[]]⟩)] [] ((mop, m) :: C) =
      ([(id, 0, qualSum quals (qp + (pos - rp)) ref.length / ref.length)], none) := by
  generalize hd : pos - rp = d at *
  have h1 : (mop == 1) = false := by
    cases h' : (mop == 1) with
    | false => rfl
    | true => have := eq_of_beq h'; subst this; simp [isMatch] at hm
  have h2 : (mop == 2) = false := by
    cases h' : (mop == 2) with
    | false => rfl
    | true => have := eq_of_beq h'; subst this; simp [isMatch] at hm
  have h3 : (mop == 3) = false := by
    cases h' : (mop == 3) with
    | false => rfl
    | true => have := eq_of_beq h'; subst this; simp [isMatch] at hm
  have h4 : (mop == 4) = false := by
    cases h' : (mop == 4) with
    | false => rfl
    | true => have := eq_of_beq h'; subst this; simp [isMatch] at hm
  have h56 : (mop == 5 || mop == 6) = false := by
    cases h' : (mop == 5 || mop == 6) with
    | false => rfl
    | true =>
      simp only [Bool.or_eq_true, beq_iff_eq] at h'
      rcases h' with rfl | rfl <;> simp [isMatch] at hm
  have hlt : ¬ (pos ≥ rp + m) := by omega
  have hl0 : ¬ (ref.length = 0) := by omega
  have hqs : (qp : Int) + (pos : Int) - (rp : Int) = ((qp + d : Nat) : Int) := by omega
  have hql : ∀ sk, queueLoop sk mop rp qp (rp + m) [(id, ⟨pos, ref, [[]]⟩)] =
      ([⟨id, ⟨pos, ref, [[]]⟩, ((qp + d : Nat) : Int), [AP.mk' ref.length 0 0, AP.mk' 0 0 ref.length]⟩], []) := by
    intro sk
    have hne2 : (mop != 2) = true := by simp [bne, h2]
    simp [queueLoop, hlt, hl0, h1, h2, hne2, bvp_del, hqs]
  have hend : (if (fx.f16 && mop == 1) = true then rp + 1 else rp + m) = rp + m := by simp [h1]
  have hdw := dropWhile_single id ⟨pos, ref, [[]]⟩ rp hlo
  -- the length of the query slice
  have hlen : qp + d + ref.length ≤ query.length := by
    have := congrArg List.length href
    simp only [slice, List.length_take, List.length_drop] at this
    omega
  have hst : (((qp + d : Nat) : Int) - (qp : Int)).toNat = d := by omega
  have hfuel : m - d = (m - d - 1) + 1 := by omega
  have hREF : handleMatch fx.f13 query quals ⟨id, ⟨pos, ref, [[]]⟩, ((qp + d : Nat) : Int),
        [AP.mk' ref.length 0 0, AP.mk' 0 0 ref.length]⟩ qp m 0 (AP.mk' ref.length 0 0)
      = .ok (matAP ref.length ref.length (qualSum quals (qp + d) ref.length)) := by
    have hmk : AP.mk' ref.length 0 0 = matAP ref.length 0 0 := by simp [AP.mk', matAP]
    have hp : ¬ ((matAP ref.length 0 0).progress < 0) := by simp [matAP]
    have hal : getAllele ⟨pos, ref, [[]]⟩ 0 = some ref := by simp [getAllele]
    have hcast : ((qp + d : Nat) : Int) + (((matAP ref.length 0 0).matched : Nat) : Int)
        + (((matAP ref.length 0 0).inserted : Nat) : Int) = ((qp + d : Nat) : Int) := by simp [matAP]
    have hml := matchLoop_all query quals ref (qp + d) m d ref.length (slice_pointwise query ref (qp + d) href)
      (fun l hl => by have := hquals l hl; omega) (by omega) (m - d) 0 0 (Nat.zero_le _) (by omega)
    rw [hmk]
    simp only [handleMatch, hp, if_false, hal, hst, hcast, h13]
    simp only [Nat.add_zero, Nat.sub_zero, Nat.zero_add] at hml
    rw [hml]
    simp [matAP]
  have hALT : handleMatch fx.f13 query quals ⟨id, ⟨pos, ref, [[]]⟩, ((qp + d : Nat) : Int),
        [AP.mk' ref.length 0 0, AP.mk' 0 0 ref.length]⟩ qp m 1 (AP.mk' 0 0 ref.length)
      = .ok (apFailed ref.length 0 0 ref.length) := by
    rw [handleMatch_nomatch _ _ _ _ _ _ _ _ [] (by simp [AP.mk']) (by simp [getAllele]) (by simp [AP.mk'])]
    have : d < m := by omega
    simp only [hst, this, true_and]
    simp [AP.mk', hL, apFailed]
  have hh : handleEntry fx.f13 mop query quals qp m
      ⟨id, ⟨pos, ref, [[]]⟩, ((qp + d : Nat) : Int), [AP.mk' ref.length 0 0, AP.mk' 0 0 ref.length]⟩ =
      .ok ⟨id, ⟨pos, ref, [[]]⟩, ((qp + d : Nat) : Int),
        [matAP ref.length ref.length (qualSum quals (qp + d) ref.length), apFailed ref.length 0 0 ref.length]⟩ := by
    simp only [handleEntry, hm, if_true, mapIdxM, hREF, hALT]
    rfl
  generalize ((qp + d : Nat) : Int) = qs at hql hh
  have hpop := popResolved_del_ref id ⟨pos, ref, [[]]⟩ qs ref.length
    (qualSum quals (qp + d) ref.length) ref.length 0 0 ref.length hL
  simp only [noRefGo, hdw, hend, hql, List.nil_append, mapM', hh, h3, h4, h56]
  simp [bind, Except.bind, pure, Except.pure, hpop, noRefGo_empty fx query quals C hC, hm]

/-- a read matching through the position of an insertion variant (anchor and next base in the same block): REF -/
theorem noRefGo_ins_ref (fx : Fixes) (query : Seq) (quals : Option (List Nat)) (anch : Bool)
    (rp qp id pos : Nat) (ins : Seq) (mop m : Nat) (C : Cigar) (hm : isMatch mop = true) (h0 : 0 < ins.length)
    (hlo : rp < pos) (hhi : pos < rp + m) (hC : ∀ p ∈ C, p.1 ≤ 8) :
    noRefGo fx query quals anch rp qp [(id, ⟨pos, [], [ins]⟩)] [] ((mop, m) :: C) = ([(id, 0, 30)], none) := by
  generalize hd : pos - rp = d at *
  have h1 : (mop == 1) = false := by
    cases h' : (mop == 1) with
    | false => rfl
    | true => have := eq_of_beq h'; subst this; simp [isMatch] at hm
  have h2 : (mop == 2) = false := by
    cases h' : (mop == 2) with
    | false => rfl
    | true => have := eq_of_beq h'; subst this; simp [isMatch] at hm
  have h3 : (mop == 3) = false := by
    cases h' : (mop == 3) with
    | false => rfl
    | true => have := eq_of_beq h'; subst this; simp [isMatch] at hm
  have h4 : (mop == 4) = false := by
    cases h' : (mop == 4) with
    | false => rfl
    | true => have := eq_of_beq h'; subst this; simp [isMatch] at hm
  have h56 : (mop == 5 || mop == 6) = false := by
    cases h' : (mop == 5 || mop == 6) with
    | false => rfl
    | true =>
      simp only [Bool.or_eq_true, beq_iff_eq] at h'
      rcases h' with rfl | rfl <;> simp [isMatch] at hm
  have hlt : ¬ (pos ≥ rp + m) := by omega
  have hne : ¬ (pos = rp) := by omega
  have hqs : (qp : Int) + (pos : Int) - (rp : Int) = ((qp + d : Nat) : Int) := by omega
  have hql : ∀ sk, queueLoop sk mop rp qp (rp + m) [(id, ⟨pos, [], [ins]⟩)] =
      ([⟨id, ⟨pos, [], [ins]⟩, ((qp + d : Nat) : Int), [AP.mk' 0 0 0, AP.mk' 0 ins.length 0]⟩], []) := by
    intro sk
    have hne2 : (mop != 2) = true := by simp [bne, h2]
    simp [queueLoop, hlt, hne, h1, h2, hne2, bvp_ins, hqs]
  have hend : (if (fx.f16 && mop == 1) = true then rp + 1 else rp + m) = rp + m := by simp [h1]
  have hdw := dropWhile_single id ⟨pos, [], [ins]⟩ rp (Nat.le_of_lt hlo)
  have hst : (((qp + d : Nat) : Int) - (qp : Int)).toNat = d := by omega
  have hREF : handleMatch fx.f13 query quals ⟨id, ⟨pos, [], [ins]⟩, ((qp + d : Nat) : Int),
        [AP.mk' 0 0 0, AP.mk' 0 ins.length 0]⟩ qp m 0 (AP.mk' 0 0 0) = .ok (AP.mk' 0 0 0) := by
    rw [handleMatch_nomatch _ _ _ _ _ _ _ _ [] (by simp [AP.mk']) (by simp [getAllele]) (by simp [AP.mk'])]
    simp [AP.mk']
  have hALT : handleMatch fx.f13 query quals ⟨id, ⟨pos, [], [ins]⟩, ((qp + d : Nat) : Int),
        [AP.mk' 0 0 0, AP.mk' 0 ins.length 0]⟩ qp m 1 (AP.mk' 0 ins.length 0)
      = .ok (apFailed ins.length 0 ins.length 0) := by
    rw [handleMatch_nomatch _ _ _ _ _ _ _ _ ins (by simp [AP.mk']) (by simp [getAllele]) (by simp [AP.mk'])]
    have : d < m := by omega
    simp only [hst, this, true_and]
    simp [AP.mk', h0, apFailed]
  have hh : handleEntry fx.f13 mop query quals qp m
      ⟨id, ⟨pos, [], [ins]⟩, ((qp + d : Nat) : Int), [AP.mk' 0 0 0, AP.mk' 0 ins.length 0]⟩ =
      .ok ⟨id, ⟨pos, [], [ins]⟩, ((qp + d : Nat) : Int), [AP.mk' 0 0 0, apFailed ins.length 0 ins.length 0]⟩ := by
    simp only [handleEntry, hm, if_true, mapIdxM, hREF, hALT]
    rfl
  generalize ((qp + d : Nat) : Int) = qs at hql hh
  have hpop := popResolved_ins_ref id ⟨pos, [], [ins]⟩ qs ins.length 0 ins.length 0
  simp only [noRefGo, hdw, hend, hql, List.nil_append, mapM', hh, h3, h4, h56]
  simp [bind, Except.bind, pure, Except.pure, hpop, noRefGo_empty fx query quals C hC, hm]

/-! ### one isolated variant through `detectNoRef`; normalisation of an unshiftable indel -/

theorem detectNoRef_single (fx : Fixes) (v nv : Variant) (hnorm : normalize v = nv) (start : Nat) (hstart : start ≤ nv.pos)
    (cigar : Cigar) (query : Seq) (quals : Option (List Nat)) :
    detectNoRef fx [v] 0 start cigar query quals = noRefGo fx query quals false start 0 [(0, nv)] [] cigar := by
  have hno : nonOverlapping [nv] = [0] := by
    unfold nonOverlapping
    rw [nonOverlapGo]
    simp [nonOverlapGo]
  unfold detectNoRef
  simp only [List.map_cons, List.map_nil, hnorm, hno, List.filterMap_cons, List.filterMap_nil, List.getElem?_cons_zero,
    Option.map_some, List.drop_zero, dropWhile_single 0 nv start hstart]

/-- a VCF deletion `a·del > a` whose last deleted base differs from the anchor `a` (it cannot be shifted to the left)
is normalised to the position right after the anchor -/
theorem normalize_vcf_deletion (p : Nat) (a : Char) (del : Seq) (hne : del ≠ []) (hun : del.getLast? ≠ some a) :
    normalize ⟨p, a :: del, [[a]]⟩ = ⟨p + 1, del, [[]]⟩ := by
  obtain ⟨b, del', rfl⟩ : ∃ b del', del = b :: del' := by
    cases del with
    | nil => exact absurd rfl hne
    | cons b t => exact ⟨b, t, rfl⟩
  cases hl : (b :: del').getLast? with
  | none => simp at hl
  | some c =>
    have hca : (a == c) = false := by
      cases h' : (a == c) with
      | false => rfl
      | true => have := eq_of_beq h'; subst this; exact absurd hl hun
    simp [normalize, stripSuffix, stripPrefix, List.getLast?_cons_cons, hl, hca]

/-- a VCF insertion `a > a·ins` whose last inserted base differs from the anchor is normalised to the position right
after the anchor, REF empty -/
theorem normalize_vcf_insertion (p : Nat) (a : Char) (ins : Seq) (hne : ins ≠ []) (hun : ins.getLast? ≠ some a) :
    normalize ⟨p, [a], [a :: ins]⟩ = ⟨p + 1, [], [ins]⟩ := by
  obtain ⟨b, ins', rfl⟩ : ∃ b ins', ins = b :: ins' := by
    cases ins with
    | nil => exact absurd rfl hne
    | cons b t => exact ⟨b, t, rfl⟩
  cases hl : (b :: ins').getLast? with
  | none => simp at hl
  | some c =>
    have hca : (c == a) = false := by
      cases h' : (c == a) with
      | false => rfl
      | true => have := eq_of_beq h'; subst this; exact absurd hl hun
    simp [normalize, stripSuffix, stripPrefix, List.getLast?_cons_cons, hl, hca]

end WhVerif.C06

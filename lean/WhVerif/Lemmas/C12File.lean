import WhVerif.Model.C12File
import WhVerif.Lemmas.C12Run
/-!
# C12: `fileRun` (run_stats on a multi-sample file) — what its tables are and what its rows carry
-/
namespace WhVerif.Lemmas.C12File
open WhVerif.C12 WhVerif.C12File

/-- every processed chromosome carries the statistics of its own variants and was delivered by the reader -/
theorem fileLoop_parts (f : Flags) (wb : Bool) (given : List String) (seen : List String) (ts : List FTable) :
    ∀ (sn : List String) (ps : List Part), fileLoop f wb given seen ts = .ok (sn, ps) →
    ∀ p ∈ ps, chromStats f p.vars = some p.stats ∧ (p.name, Except.ok p.vars) ∈ ts := by
  fun_induction fileLoop f wb given seen ts with
  | case1 seen => intro sn ps h; cases h; intro p hp; cases hp
  | case2 => intro sn ps h; cases h
  | case3 seen c vars rest hsk ih =>
    intro sn ps h p hp
    obtain ⟨h1, h2⟩ := ih sn ps h p hp
    exact ⟨h1, List.mem_cons_of_mem _ h2⟩
  | case4 => intro sn ps h; cases h
  | case5 => intro sn ps h; cases h
  | case6 seen c vars rest hsk s hs hbl hall =>
    intro sn ps h p hp
    cases h
    simp only [List.mem_singleton] at hp
    subst hp
    exact ⟨hs, List.mem_cons_self ..⟩
  | case7 seen c vars rest hsk s hs hall e he hbl ih =>
    intro sn ps h; rw [he] at h; cases h
  | case8 seen c vars rest hsk s hs hall sn' ps' he hbl ih =>
    intro sn ps h p hp
    rw [he] at h
    cases h
    rcases List.mem_cons.mp hp with rfl | hp
    · exact ⟨hs, List.mem_cons_self ..⟩
    · obtain ⟨h1, h2⟩ := ih sn' ps' he p hp
      exact ⟨h1, List.mem_cons_of_mem _ h2⟩

/-- a reader error of the loop is the error of a table -/
theorem fileLoop_reader_err (f : Flags) (wb : Bool) (given : List String) (seen : List String) (ts : List FTable)
    (e : WhVerif.C09.Err) : fileLoop f wb given seen ts = .error (.reader e) → ∃ c, (c, Except.error (FileErr.reader e)) ∈ ts := by
  fun_induction fileLoop f wb given seen ts with
  | case1 seen => intro h; cases h
  | case2 seen c e' rest => intro h; cases h; exact ⟨c, List.mem_cons_self ..⟩
  | case3 seen c vars rest hsk ih =>
    intro h; obtain ⟨c', h'⟩ := ih h; exact ⟨c', List.mem_cons_of_mem _ h'⟩
  | case4 => intro h; cases h
  | case5 => intro h; cases h
  | case6 => intro h; cases h
  | case7 seen c vars rest hsk s hs hall e' he hbl ih =>
    intro h; rw [he] at h; cases h
    obtain ⟨c', h'⟩ := ih he; exact ⟨c', List.mem_cons_of_mem _ h'⟩
  | case8 seen c vars rest hsk s hs hall sn' ps' he hbl ih =>
    intro h; rw [he] at h; cases h

/-- every table the loop gets was produced by the reader from a planned fetch / group, with the ploidy carried so far -/
theorem fileTables_mem (f : Flags) (os : Bool) (si : Nat) (pl : Option Nat) (plan : List (String × Option (List WhVerif.C04.Record))) :
    ∀ c vars, (c, Except.ok vars) ∈ fileTables f os si pl plan →
    ∃ recs pl0 st1 pl1 rows, (c, some recs) ∈ plan ∧ WhVerif.C09.readChromP os none pl0 none recs = .ok (st1, pl1, rows) ∧
      vars = rows.map (varOfRow f si) := by
  fun_induction fileTables f os si pl plan with
  | case1 => intro c vars h; cases h
  | case2 pl c rest => intro c' vars h; simp at h
  | case3 pl c rs rest e he => intro c' vars h; simp at h
  | case4 pl c rs rest st pl1 rows he ih =>
    intro c' vars h
    rcases List.mem_cons.mp h with h | h
    · cases h
      exact ⟨rs, pl, st, pl1, rows, List.mem_cons_self .., he, rfl⟩
    · obtain ⟨recs, pl0, st1, pl1', rows', h1, h2, h3⟩ := ih c' vars h
      exact ⟨recs, pl0, st1, pl1', rows', List.mem_cons_of_mem _ h1, h2, h3⟩

/-- the plan of an iterated file: its groups -/
def plainPlan (groups : List (String × List WhVerif.C04.Record)) : List (String × Option (List WhVerif.C04.Record)) :=
  groups.map fun g => (g.1, some g.2)

/-- iterated file: the tables of the run are the tables of `C09.readFile`, reduced to the selected sample; if `readFile`
raises, the only error among the tables is that error -/
theorem fileTables_readFile (f : Flags) (os : Bool) (si : Nat) : ∀ (groups : List (String × List WhVerif.C04.Record)) (pl : Option Nat),
    (∀ pl' tabs, WhVerif.C09.readFile os pl groups = .ok (pl', tabs) →
      fileTables f os si pl (plainPlan groups) = tabs.map (fun t => (t.1, Except.ok (t.2.map (varOfRow f si))))) ∧
    (∀ e, WhVerif.C09.readFile os pl groups = .error e →
      (∃ c, (c, Except.error (FileErr.reader e)) ∈ fileTables f os si pl (plainPlan groups)) ∧
      ∀ t ∈ fileTables f os si pl (plainPlan groups), ∀ e', t.2 = Except.error e' → e' = FileErr.reader e) := by
  intro groups
  induction groups with
  | nil =>
    intro pl
    refine ⟨?_, ?_⟩
    · intro pl' tabs h; simp [WhVerif.C09.readFile] at h; obtain ⟨_, rfl⟩ := h; rfl
    · intro e h; simp [WhVerif.C09.readFile] at h
  | cons g rest ih =>
    intro pl
    obtain ⟨c, rs⟩ := g
    cases hr : WhVerif.C09.readChromP os none pl none rs with
    | error e0 =>
      refine ⟨?_, ?_⟩
      · intro pl' tabs h; simp [WhVerif.C09.readFile, hr, bind, Except.bind] at h
      · intro e h
        simp [WhVerif.C09.readFile, hr, bind, Except.bind] at h
        subst h
        simp [plainPlan, fileTables, hr]
    | ok v =>
      obtain ⟨st, pl1, rows⟩ := v
      obtain ⟨ih1, ih2⟩ := ih pl1
      cases hf : WhVerif.C09.readFile os pl1 rest with
      | error e1 =>
        refine ⟨?_, ?_⟩
        · intro pl' tabs h; simp [WhVerif.C09.readFile, hr, hf, bind, Except.bind] at h
        · intro e h
          simp [WhVerif.C09.readFile, hr, hf, bind, Except.bind] at h
          subst h
          obtain ⟨⟨c', hc'⟩, hall⟩ := ih2 e1 hf
          refine ⟨⟨c', ?_⟩, ?_⟩
          · simp only [plainPlan, List.map_cons, fileTables, hr]
            exact List.mem_cons_of_mem _ hc'
          · intro t ht e' he'
            simp only [plainPlan, List.map_cons, fileTables, hr] at ht
            rcases List.mem_cons.mp ht with rfl | ht
            · cases he'
            · exact hall t ht e' he'
      | ok w =>
        obtain ⟨pl2, tabs0⟩ := w
        refine ⟨?_, ?_⟩
        · intro pl' tabs h
          simp [WhVerif.C09.readFile, hr, hf, bind, Except.bind, pure, Except.pure] at h
          obtain ⟨_, rfl⟩ := h
          simp only [plainPlan, List.map_cons, fileTables, hr]
          rw [← ih1 pl2 tabs0 hf]; rfl
        · intro e h; simp [WhVerif.C09.readFile, hr, hf, bind, Except.bind, pure, Except.pure] at h

theorem fileRun_ok (i : FileIn) (o : RunOut) (h : fileRun i = .ok o) :
    ∃ si, selectSample i.samples i.sample = .ok si ∧
      fileLoop i.flags i.wantBl (unpackChromosomes i.given) []
        (fileTables i.flags i.onlySnvs si none (fetchPlan i (unpackChromosomes i.given))) = .ok (o.seen, o.parts) ∧
      o.all = if o.seen.length > 1 then some (totalStats o.parts) else none := by
  unfold fileRun at h
  split at h
  · cases h
  · rename_i si hs
    simp only at h
    split at h
    · cases h
    · rename_i seen ps hl
      cases h
      exact ⟨si, hs, hl, rfl⟩

theorem fileRun_reader_err (i : FileIn) (e : WhVerif.C09.Err) (h : fileRun i = .error (.reader e)) :
    ∃ si c, selectSample i.samples i.sample = .ok si ∧
      (c, Except.error (FileErr.reader e)) ∈ fileTables i.flags i.onlySnvs si none (fetchPlan i (unpackChromosomes i.given)) := by
  unfold fileRun at h
  split at h
  · rename_i e' hs
    cases h
    unfold selectSample at hs
    split at hs
    · cases hs
    · split at hs
      · cases hs
      · split at hs
        · cases hs
        · split at hs <;> cases hs
  · rename_i si hs
    simp only at h
    split at h
    · rename_i e' hl
      cases h
      obtain ⟨c, hc⟩ := fileLoop_reader_err _ _ _ _ _ _ hl
      exact ⟨si, c, hs, hc⟩
    · cases h

theorem fetchPlan_plain (i : FileIn) (given : List String) (h : i.indexed = false ∨ given = []) :
    fetchPlan i given = plainPlan i.groups := by
  unfold fetchPlan plainPlan
  rcases h with h | h
  · simp [h]
  · simp [h]

/-! ### witnesses: one record, two samples (S1 unphased; S2 phased with PS 7, or with PS and HP at once) -/
section Witness
def fxRec (c2 : WhVerif.C04.Call) : WhVerif.C04.Record := ⟨"", 10, "A", ["C"], ["GT", "PS", "HP"], [("S1", ⟨some [some 0, some 1], false, []⟩), ("S2", c2)]⟩
def fxIn (c2 : WhVerif.C04.Call) (sample : Option String) : FileIn :=
  { flags := ⟨true, true⟩, dedupGiven := true, onlySnvs := false, wantBl := true, indexed := false, contigs := ["c1"], lens := [],
    given := [], samples := ["S1", "S2"], sample := sample, groups := [("c1", [fxRec c2])] }
def c2ps : WhVerif.C04.Call := ⟨some [some 0, some 1], true, [("PS", .int 7)]⟩
def c2mixed : WhVerif.C04.Call := ⟨some [some 0, some 1], true, [("PS", .int 7), ("HP", .hp [(7, 1), (7, 2)])]⟩

theorem fx_err : fileRun (fxIn c2mixed none) = .error (.reader .mixed) := by rfl
theorem fx_nf : fileRun (fxIn c2ps (some "S9")) = .error .sampleNotFound := by rfl
theorem fx_read : WhVerif.C09.readChromP false none none none [fxRec c2ps] =
    .ok (some .GTPS, some 2, [⟨10, "A", "C", [([0, 1], none), ([0, 1], some ⟨some 7, [some 0, some 1]⟩)]⟩]) := by rfl
def fxVars : List Var := [⟨10, true, .het, some (some 7)⟩]
def fxStats : Stats := { blocks := [[(10, true)]], splitBlocks := [], unphased := 0, variants := 1, het := 1, hetSnvs := 1 }
theorem fx_stats : chromStats ⟨true, true⟩ fxVars = some fxStats := by
  simp [chromStats, fxVars, fxStats, considered, phasedOf, blocksOf, dedupIds, nonoverlap, bigOf, sortBlocks, nonoverlapLoop, totalLen]
theorem fx_tables : fileTables ⟨true, true⟩ false 1 none [("c1", some [fxRec c2ps])] = [("c1", .ok fxVars)] := by rfl
theorem fx_sel : selectSample ["S1", "S2"] (some "S2") = .ok 1 := by rfl
theorem fx_ok : fileRun (fxIn c2ps (some "S2")) = .ok ⟨[⟨"c1", fxVars, fxStats⟩], ["c1"], none⟩ := by
  simp [fileRun, fxIn, fx_sel, unpackChromosomes, fetchPlan, fx_tables, fileLoop, skipped, allGivenSeen, addSeen, fx_stats]
  simp [fxVars, phasedOf, considered, blocksOf, dedupIds, blockList, idLe]
end Witness

end WhVerif.Lemmas.C12File

import WhVerif.Model.C08Impl
import WhVerif.Lemmas.C08Sum
import WhVerif.Lemmas.C01Gray
/-!
# C08 impl lemmas, part 1: the incremental cost computer along the Gray walk = the direct product

`cpSpec col bits p al` = the product of the factors of the non-blank entries that sit in partition `p`
(what `set_partitioning` would compute for the bipartition `bits`).  Invariant along the walk: every
`cost_partition[p][al]` equals `cpSpec` of the current Gray code; `getCost` regroups to `emitCol`.
-/
namespace WhVerif.C08.Impl
open WhVerif.C08 Finset

section
variable {K : Type} [Field K]

def fac (em : Nat → K) (alt : Bool) (q : Nat) (al : Bool) : K := if al = alt then 1 - em q else em q

/-- per-partition product of the emission factors under the bipartition `bits` -/
def cpSpec (em : Nat → K) (parts : Nat → Nat × Nat) : List Ent → List Bool → Nat → Bool → K
  | some (ind, alt, q) :: es, b :: bs, p, al =>
    (if h2p parts ind (!b) = p then fac em alt q al else 1) * cpSpec em parts es bs p al
  | none :: es, _ :: bs, p, al => cpSpec em parts es bs p al
  | _, _, _, _ => 1

theorem cpAt_cpMul (cp : CP K) (p0 : Nat) (alt : Bool) (x y : K) (p : Nat) (al : Bool) :
    cpAt (cpMul cp p0 alt x y) p al =
      if p = p0 ∧ p < cp.size then cpAt cp p al * (if al = alt then x else y) else cpAt cp p al := by
  unfold cpAt cpMul
  simp only [Array.getD_eq_getD_getElem?, Array.getElem?_modify]
  by_cases hp : p < cp.size
  · by_cases h : p0 = p
    · subst h; cases al <;> cases alt <;> simp [hp]
    · have h' : ¬ p = p0 := fun e => h e.symm
      simp [hp, h, h']
  · have : ¬ (p = p0 ∧ p < cp.size) := fun h => hp h.2
    simp [hp, this]

theorem cpAt_cpDiv (cp : CP K) (p0 : Nat) (alt : Bool) (x y : K) (p : Nat) (al : Bool) :
    cpAt (cpDiv cp p0 alt x y) p al =
      if p = p0 ∧ p < cp.size then cpAt cp p al / (if al = alt then x else y) else cpAt cp p al := by
  unfold cpAt cpDiv
  simp only [Array.getD_eq_getD_getElem?, Array.getElem?_modify]
  by_cases hp : p < cp.size
  · by_cases h : p0 = p
    · subst h; cases al <;> cases alt <;> simp [hp]
    · have h' : ¬ p = p0 := fun e => h e.symm
      simp [hp, h, h']
  · have : ¬ (p = p0 ∧ p < cp.size) := fun h => hp h.2
    simp [hp, this]

@[simp] theorem size_cpMul (cp : CP K) (p0 : Nat) (alt : Bool) (x y : K) : (cpMul cp p0 alt x y).size = cp.size := by
  simp [cpMul]

@[simp] theorem size_cpDiv (cp : CP K) (p0 : Nat) (alt : Bool) (x y : K) : (cpDiv cp p0 alt x y).size = cp.size := by
  simp [cpDiv]

theorem fac_eq (em : Nat → K) (alt : Bool) (q : Nat) (al : Bool) :
    (if al = alt then 1 - em q else em q) = fac em alt q al := rfl

/-- `set_partitioning(0)`: all reads on side 0 -/
theorem setLoop_zero (em : Nat → K) (parts : Nat → Nat × Nat) (es : List Ent) (cp : CP K) :
    (setLoop em parts es 0 cp).size = cp.size ∧
    ∀ p al, p < cp.size → cpAt (setLoop em parts es 0 cp) p al =
      cpAt cp p al * cpSpec em parts es (List.replicate es.length false) p al := by
  induction es generalizing cp with
  | nil => simp [setLoop, cpSpec]
  | cons e es ih =>
    cases e with
    | none =>
      simp only [setLoop, List.length_cons, List.replicate_succ, cpSpec]
      exact ih cp
    | some v =>
      obtain ⟨ind, alt, q⟩ := v
      simp only [setLoop, List.length_cons, List.replicate_succ, cpSpec]
      have := ih (cpMul cp (h2p parts ind (0 % 2 == 0)) alt (1 - em q) (em q))
      refine ⟨by simpa using this.1, ?_⟩
      intro p al hp
      have h2 := this.2 p al (by simpa using hp)
      simp only [Nat.zero_div] at h2 ⊢
      rw [h2, cpAt_cpMul, fac_eq]
      have e1 : (0 % 2 == 0) = true := by decide
      simp only [e1, Bool.not_false]
      by_cases h : p = h2p parts ind true
      · subst h
        simp [hp, mul_assoc]
      · have h' : ¬ h2p parts ind true = p := fun e => h e.symm
        simp [h, h']

/-- flipping the side of a non-blank read multiplies its factor into the new partition and divides it out of the old one -/
theorem cpSpec_set (em : Nat → K) (parts : Nat → Nat × Nat) (es : List Ent) (bs : List Bool) (i : Nat)
    (ind : Nat) (alt : Bool) (q : Nat) (b : Bool) (he : es[i]? = some (some (ind, alt, q))) (hb : bs[i]? = some b)
    (h0 : em q ≠ 0) (h1 : 1 - em q ≠ 0) (p : Nat) (al : Bool) :
    cpSpec em parts es (bs.set i (!b)) p al =
      cpSpec em parts es bs p al * (if h2p parts ind b = p then fac em alt q al else 1)
        / (if h2p parts ind (!b) = p then fac em alt q al else 1) := by
  have hf : fac em alt q al ≠ 0 := by unfold fac; split <;> assumption
  induction es generalizing bs i with
  | nil => simp at he
  | cons e es ih =>
    cases bs with
    | nil => simp at hb
    | cons b0 bs =>
      cases i with
      | zero =>
        simp only [List.getElem?_cons_zero, Option.some.injEq] at he hb
        subst he; subst hb
        simp only [List.set_cons_zero, cpSpec, Bool.not_not]
        by_cases ha : h2p parts ind b0 = p <;> by_cases hb' : h2p parts ind (!b0) = p <;> simp [ha, hb'] <;> field_simp
      | succ i =>
        simp only [List.getElem?_cons_succ] at he hb
        have := ih bs i he hb
        cases e with
        | none => simp only [List.set_cons_succ, cpSpec]; exact this
        | some v =>
          obtain ⟨ind', alt', q'⟩ := v
          simp only [List.set_cons_succ, cpSpec, this]
          ring

/-- a blank entry's side does not matter -/
theorem cpSpec_set_blank (em : Nat → K) (parts : Nat → Nat × Nat) (es : List Ent) (bs : List Bool) (i : Nat) (b : Bool)
    (he : es[i]? = some none) (p : Nat) (al : Bool) :
    cpSpec em parts es (bs.set i b) p al = cpSpec em parts es bs p al := by
  induction es generalizing bs i with
  | nil => simp at he
  | cons e es ih =>
    cases bs with
    | nil => simp
    | cons b0 bs =>
      cases i with
      | zero =>
        simp only [List.getElem?_cons_zero, Option.some.injEq] at he
        subst he; simp [cpSpec]
      | succ i =>
        simp only [List.getElem?_cons_succ] at he
        cases e with
        | none => simp only [List.set_cons_succ, cpSpec]; exact ih bs i he
        | some v =>
          obtain ⟨ind', alt', q'⟩ := v
          simp only [List.set_cons_succ, cpSpec, ih bs i he]

theorem natFold_mul_eq_prod (n : Nat) (f : Nat → K) :
    Nat.fold n (fun p _ acc => acc * f p) 1 = ∏ p ∈ range n, f p := by
  induction n with
  | zero => simp
  | succ n ih => rw [Nat.fold_succ, prod_range_succ, ← ih]

/-- regrouping: the product over the partitions of the per-partition products is the product over the reads -/
theorem prod_cpSpec (em : Nat → K) (parts : Nat → Nat × Nat) (nP a : Nat) (es : List Ent) (bs : List Bool)
    (hP : ∀ e ∈ es, ∀ ind alt q, e = some (ind, alt, q) → (parts ind).1 < nP ∧ (parts ind).2 < nP) :
    ∏ p ∈ range nP, cpSpec em parts es bs p (a.testBit p) = emitCol em parts a es bs := by
  induction es generalizing bs with
  | nil => simp [cpSpec, emitCol]
  | cons e es ih =>
    have ih' := fun bs => ih bs (fun e he => hP e (List.mem_cons_of_mem _ he))
    cases bs with
    | nil => cases e <;> simp [cpSpec, emitCol]
    | cons b bs =>
      cases e with
      | none => simp only [cpSpec, emitCol]; exact ih' bs
      | some v =>
        obtain ⟨ind, alt, q⟩ := v
        simp only [cpSpec, emitCol, prod_mul_distrib, ih' bs]
        congr 1
        have hlt : h2p parts ind (!b) < nP := by
          have := hP _ List.mem_cons_self ind alt q rfl
          unfold h2p; split <;> simp [this.1, this.2]
        rw [prod_ite_eq (range nP) (h2p parts ind (!b)) (fun p => fac em alt q (a.testBit p))]
        simp only [mem_range, hlt, if_true]
        unfold fac h2p
        cases b <;> simp

end

end WhVerif.C08.Impl

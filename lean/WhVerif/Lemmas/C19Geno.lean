import WhVerif.Lemmas.C19Pack
import WhVerif.Lemmas.C19Index
/-!
# The `Genotype` constructor: what the packed word holds
-/
namespace WhVerif.C19

theorem xor_eq_zero_iff (a b : Nat) : (a ^^^ b) = 0 ↔ a = b := by
  constructor
  · intro h
    apply Nat.eq_of_testBit_eq
    intro i
    have : (a ^^^ b).testBit i = false := by rw [h]; simp
    rw [Nat.testBit_xor] at this
    cases ha : a.testBit i <;> cases hb : b.testBit i <;> simp_all
  · intro h; subst h; exact Nat.xor_self a

/-! ## sorting -/

theorem insertAsc_length (x : Nat) (l : List Nat) : (insertAsc x l).length = l.length + 1 := by
  induction l with
  | nil => rfl
  | cons y ys ih => simp only [insertAsc]; split <;> simp [ih]

theorem sortAsc_length (l : List Nat) : (sortAsc l).length = l.length := by
  induction l with
  | nil => rfl
  | cons x xs ih => simp [sortAsc, insertAsc_length, ih]

theorem insertAsc_perm (x : Nat) (l : List Nat) : (insertAsc x l).Perm (x :: l) := by
  induction l with
  | nil => exact List.Perm.refl _
  | cons y ys ih =>
    simp only [insertAsc]
    split
    · exact List.Perm.refl _
    · exact List.Perm.trans ((List.perm_cons y).mpr ih) (List.Perm.swap x y ys)

theorem sortAsc_perm (l : List Nat) : (sortAsc l).Perm l := by
  induction l with
  | nil => exact List.Perm.refl _
  | cons x xs ih =>
    simp only [sortAsc]
    exact List.Perm.trans (insertAsc_perm x _) ((List.perm_cons x).mpr ih)

theorem mem_sortAsc (l : List Nat) (y : Nat) : y ∈ sortAsc l ↔ y ∈ l := (sortAsc_perm l).mem_iff

theorem insertAsc_asc (x : Nat) (l : List Nat) (h : Asc l) : Asc (insertAsc x l) := by
  induction l with
  | nil => simp [insertAsc, Asc]
  | cons y ys ih =>
    simp only [insertAsc]
    unfold Asc at h ih ⊢
    rw [List.pairwise_cons] at h
    split
    · rename_i hxy
      rw [List.pairwise_cons, List.pairwise_cons]
      refine ⟨?_, h⟩
      intro z hz
      rcases List.mem_cons.mp hz with rfl | hz
      · exact hxy
      · exact Nat.le_trans hxy (h.1 z hz)
    · rename_i hxy
      rw [List.pairwise_cons]
      refine ⟨?_, ih h.2⟩
      intro z hz
      rcases List.mem_cons.mp ((insertAsc_perm x ys).mem_iff.mp hz) with rfl | hz
      · omega
      · exact h.1 z hz

theorem sortAsc_asc (l : List Nat) : Asc (sortAsc l) := by
  induction l with
  | nil => simp [sortAsc, Asc]
  | cons x xs ih => exact insertAsc_asc x _ ih

theorem insertAsc_of_le (x : Nat) (l : List Nat) (h : ∀ y ∈ l, x ≤ y) : insertAsc x l = x :: l := by
  cases l with
  | nil => rfl
  | cons y ys => simp [insertAsc, h y (by simp)]

theorem sortAsc_of_asc (l : List Nat) (h : Asc l) : sortAsc l = l := by
  induction l with
  | nil => rfl
  | cons x xs ih =>
    unfold Asc at h
    rw [List.pairwise_cons] at h
    simp only [sortAsc]
    rw [ih h.2, insertAsc_of_le x xs h.1]

theorem getD_of_lt (s : List Nat) (k : Nat) (h : k < s.length) : s.getD k 0 = s[k] := by
  simp [List.getD_eq_getElem?_getD, h]

theorem asc_getD (s : List Nat) (h : Asc s) (i j : Nat) (hij : i ≤ j) (hj : j < s.length) :
    s.getD i 0 ≤ s.getD j 0 := by
  by_cases e : i = j
  · subst e; exact Nat.le_refl _
  · have := List.pairwise_iff_getElem.mp h i j (by omega) hj (by omega)
    simpa [List.getD_eq_getElem?_getD, List.getElem?_eq_getElem, hj, (by omega : i < s.length)] using this

/-! ## packing -/

theorem getPosition_zero (q : Nat) : (⟨0⟩ : Genotype).getPosition q = 0 := by
  simp [Genotype.getPosition]

theorem packLoop_spec (p : Nat) (hp : p ≤ 15) :
    ∀ (rest : List Nat) (i : Nat) (g : Genotype), (∀ a ∈ rest, a < 16) → i + rest.length = p →
      ∃ g', packLoop p i rest g = .ok g' ∧
        ∀ q, q ≤ 15 → g'.getPosition q = if q < p - i then rest.getD (p - i - 1 - q) 0 else g.getPosition q := by
  intro rest
  induction rest with
  | nil =>
    intro i g _ hl
    refine ⟨g, rfl, ?_⟩
    intro q _
    have : ¬ q < p - i := by simp at hl; omega
    simp [this]
  | cons a as ih =>
    intro i g hlt hl
    have ha : a < 16 := hlt a (by simp)
    simp only [List.length_cons] at hl
    obtain ⟨g', h1, h2⟩ := ih (i + 1) (g.setPosition (p - i - 1) a) (fun x hx => hlt x (by simp [hx])) (by omega)
    refine ⟨g', ?_, ?_⟩
    · have hna : ¬ a ≥ MAX_ALLELES := by unfold MAX_ALLELES; omega
      simp only [packLoop]
      rw [if_neg hna]; exact h1
    · intro q hq
      rw [h2 q hq, getPosition_setPosition _ _ _ _ (by omega) hq ha]
      by_cases c1 : q < p - (i + 1)
      · have c2 : q < p - i := by omega
        simp only [c1, c2, if_true]
        have e : p - i - 1 - q = (p - (i + 1) - 1 - q) + 1 := by omega
        rw [e]; rfl
      · simp only [c1, if_false]
        by_cases c3 : q = p - i - 1
        · have c2 : q < p - i := by omega
          have e : p - i - 1 - q = 0 := by omega
          simp [c3]
          omega
        · have c2 : ¬ q < p - i := by omega
          simp [c3, c2]

/-- the constructor succeeds within the limits and stores exactly the sorted alleles -/
theorem ofAlleles_ok (l : List Nat) (hp : l.length < 15) (ha : ∀ a ∈ l, a < 16) :
    ∃ g, Genotype.ofAlleles l = .ok g ∧ g.getPloidy = l.length ∧ g.allelesAsc = sortAsc l ∧
      g.asVector = (sortAsc l).reverse := by
  have hsl := sortAsc_length l
  have hsa := sortAsc_asc l
  obtain ⟨g0, h1, h2⟩ := packLoop_spec l.length (by omega) (sortAsc l) 0 ⟨0⟩
    (fun a h => ha a ((mem_sortAsc l a).mp h)) (by omega)
  simp only [Nat.sub_zero, getPosition_zero] at h2
  have hpl : (g0.setPosition MAX_PLOIDY l.length).getPloidy = l.length := by
    unfold Genotype.getPloidy MAX_PLOIDY
    rw [getPosition_setPosition _ _ _ _ (by omega) (by omega) (by omega)]; simp
  have hpos : ∀ q, q < l.length → (g0.setPosition MAX_PLOIDY l.length).getPosition q = (sortAsc l).getD (l.length - 1 - q) 0 := by
    intro q hq
    unfold MAX_PLOIDY
    rw [getPosition_setPosition _ _ _ _ (by omega) (by omega) (by omega), if_neg (by omega), h2 q (by omega), if_pos hq]
  have hdesc : (g0.setPosition MAX_PLOIDY l.length).descending = true := by
    unfold Genotype.descending
    rw [hpl, List.all_eq_true]
    intro i hi
    have hi' : i < l.length - 1 := by simpa using hi
    rw [hpos i (by omega), hpos (i + 1) (by omega)]
    have := asc_getD (sortAsc l) hsa (l.length - 1 - (i + 1)) (l.length - 1 - i) (by omega) (by omega)
    simp only [Bool.not_eq_eq_eq_not, Bool.not_true, decide_eq_false_iff_not]
    omega
  refine ⟨g0.setPosition MAX_PLOIDY l.length, ?_, hpl, ?_, ?_⟩
  · have hnp : ¬ l.length ≥ MAX_PLOIDY := by unfold MAX_PLOIDY; omega
    unfold Genotype.ofAlleles
    simp only []
    rw [if_neg hnp, h1]
    simp only [hdesc]
    simp
  · unfold Genotype.allelesAsc
    rw [hpl]
    apply List.ext_getElem
    · simp [hsl]
    · intro i hi1 hi2
      simp only [List.length_map, List.length_range] at hi1
      simp only [List.getElem_map, List.getElem_range]
      rw [hpos _ (by omega)]
      have e : l.length - 1 - (l.length - i - 1) = i := by omega
      rw [e, getD_of_lt]
  · unfold Genotype.asVector
    rw [hpl]
    apply List.ext_getElem
    · simp [hsl]
    · intro i hi1 hi2
      simp only [List.length_map, List.length_range] at hi1
      simp only [List.getElem_map, List.getElem_range, List.getElem_reverse]
      rw [hpos _ (by omega), ← getD_of_lt]
      congr 1; omega

end WhVerif.C19

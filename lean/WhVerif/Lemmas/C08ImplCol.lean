import WhVerif.Lemmas.C08ImplLoop
import WhVerif.Lemmas.C08Unfold
/-!
# C08 impl lemmas, part 4: the loop of `compute_backward_column` (Gray order, scatter-adds, `scaling_sum`)
computes the gather sums of the clean model's `bwdStep`, divided by the code's `scaling_sum`
-/
namespace WhVerif.C08.Impl
open WhVerif.C08 WhVerif.C01 Finset

section
variable {K : Type} [Field K]

theorem natFold_additive {σ M : Type} [AddCommMonoid M] (I : σ → Prop) (val : σ → M) (n : Nat) (F : Nat → σ → σ) (g : Nat → M)
    (hF : ∀ i s, i < n → I s → I (F i s) ∧ val (F i s) = val s + g i) (s : σ) (hs : I s) :
    I (Nat.fold n (fun i _ s => F i s) s) ∧ val (Nat.fold n (fun i _ s => F i s) s) = val s + ∑ i ∈ range n, g i := by
  induction n with
  | zero => simp [hs]
  | succ n ih =>
    have ih' := ih (fun i s hi => hF i s (by omega))
    rw [Nat.fold_succ, sum_range_succ]
    have := hF n _ (by omega) ih'.1
    refine ⟨this.1, ?_⟩
    rw [this.2, ih'.2, add_assoc]

theorem tblAt_addAt (t : Array K) (i : Nat) (v : K) (x : Nat) :
    tblAt (addAt t i v) x = if i = x ∧ i < t.size then tblAt t x + v else tblAt t x := by
  unfold tblAt addAt
  simp only [Array.getD_eq_getD_getElem?, Array.getElem?_modify]
  by_cases hx : x < t.size
  · by_cases h : i = x
    · subst h; simp [hx]
    · simp [hx, h]
  · have : ¬ (i = x ∧ i < t.size) := fun h => hx (h.1 ▸ h.2)
    by_cases h : i = x <;> simp [hx, this, h]

@[simp] theorem size_addAt (t : Array K) (i : Nat) (v : K) : (addAt t i v).size = t.size := by simp [addAt]

theorem tblAt_divAll (t : Array K) (s : K) (x : Nat) : tblAt (divAll t s) x = tblAt t x / s := by
  unfold tblAt divAll
  simp only [Array.getD_eq_getD_getElem?, Array.getElem?_map]
  cases t[x]? <;> simp

/-- the innermost scatter loop -/
theorem jloop (cur : Array K) (nT base : Nat) (v : Nat → K) (x : Nat) (hb : base + nT ≤ cur.size) :
    (Nat.fold nT (fun j _ cur => addAt cur (base + j) (v j)) cur).size = cur.size ∧
    tblAt (Nat.fold nT (fun j _ cur => addAt cur (base + j) (v j)) cur) x =
      tblAt cur x + ∑ j ∈ range nT, if base + j = x then v j else 0 := by
  apply natFold_additive (I := fun (a : Array K) => a.size = cur.size) (val := fun a => tblAt a x)
    (F := fun j cur => addAt cur (base + j) (v j)) (g := fun j => if base + j = x then v j else 0)
  · intro j s hj hs
    refine ⟨by simpa using hs, ?_⟩
    rw [tblAt_addAt]
    by_cases h : base + j = x
    · have : base + j < s.size := by omega
      rw [if_pos ⟨h, this⟩, if_pos h]
    · rw [if_neg (fun hh => h hh.1), if_neg h, add_zero]
  · rfl

/-- contribution of one bipartition to (entry `x` of the new column, `scaling_sum`) -/
def bG (X : ColCtx K) (prev : Array K) (x : Nat) (fp : Nat) (cost : Nat → Nat → K) (idx : Nat) : K × K :=
  ∑ i ∈ range X.nT, ∑ a ∈ range (2 ^ X.nP),
    ((if X.c > 0 then ∑ j ∈ range X.nT, if bwdProj X.co.bwdW idx * X.nT + j = x then
        (if X.c + 1 < X.nCols then tblAt prev (fp * X.nT + i) else 1) * cost i a * (X.trans j i * X.asg i a) else 0 else 0),
     (if X.c + 1 < X.nCols then tblAt prev (fp * X.nT + i) else 1))

theorem bwdBody_eq (X : ColCtx K) (prev : Array K) (w : Walk K) (idx x N : Nat) (acc : BAcc K)
    (hN : X.c > 0 → bwdProj X.co.bwdW idx * X.nT + X.nT ≤ N) (hs : acc.cur.size = N) :
    (bwdBody X prev w idx acc).cur.size = N ∧
    (tblAt (bwdBody X prev w idx acc).cur x, (bwdBody X prev w idx acc).ssum) =
      (tblAt acc.cur x, acc.ssum) + bG X prev x w.fp (Walk.cost X w) idx := by
  unfold bwdBody bG
  apply natFold_additive (I := fun (a : BAcc K) => a.cur.size = N) (val := fun a => (tblAt a.cur x, a.ssum))
    (s := acc) (hs := hs)
  intro i s hi hs
  apply natFold_additive (I := fun (a : BAcc K) => a.cur.size = N) (val := fun a => (tblAt a.cur x, a.ssum))
    (s := s) (hs := hs)
  intro a s ha hs
  by_cases hc : X.c > 0
  · simp only [hc, if_true]
    have := jloop s.cur X.nT (bwdProj X.co.bwdW idx * X.nT)
      (fun j => (if X.c + 1 < X.nCols then tblAt prev (w.fp * X.nT + i) else 1) * Walk.cost X w i a * (X.trans j i * X.asg i a)) x
      (by rw [hs]; exact hN hc)
    refine ⟨by rw [this.1, hs], ?_⟩
    rw [this.2]
    rfl
  · simp only [hc, if_false]
    refine ⟨hs, ?_⟩
    simp

end

end WhVerif.C08.Impl

namespace WhVerif.C08.Impl
open WhVerif.C08 WhVerif.C01 Finset

section
variable {K : Type} [Field K]

/-- the loop of `compute_backward_column` after the first `k+1` Gray codes -/
def bLoop (X : ColCtx K) (prev : Array K) (acc0 : BAcc K) (k : Nat) : Walk K × BAcc K :=
  ((grayList X.co.nAct).take (k + 1)).foldl
    (fun (s : Walk K × BAcc K) g => let w := Walk.step X s.1 g; (w, bwdBody X prev w g.1 s.2)) (Walk.init X.nT, acc0)

theorem bwdProj_bound (w idx nT : Nat) : bwdProj w idx * nT + nT ≤ 2 ^ w * nT := by
  have : bwdProj w idx < 2 ^ w := by
    unfold bwdProj; rw [Nat.one_shiftLeft, Nat.and_two_pow_sub_one_eq_mod]; exact Nat.mod_lt _ (Nat.two_pow_pos w)
  calc bwdProj w idx * nT + nT = (bwdProj w idx + 1) * nT := by rw [Nat.add_mul, Nat.one_mul]
    _ ≤ 2 ^ w * nT := Nat.mul_le_mul_right _ this

theorem bLoop_eq (X : ColCtx K) (prev : Array K) (x : Nat) (acc0 : BAcc K) (h0 : acc0.cur.size = 2 ^ X.co.bwdW * X.nT)
    (k : Nat) (hk : k < 2 ^ X.co.nAct) :
    (bLoop X prev acc0 k).1 = walkAfter X k ∧ (bLoop X prev acc0 k).2.cur.size = 2 ^ X.co.bwdW * X.nT ∧
    (tblAt (bLoop X prev acc0 k).2.cur x, (bLoop X prev acc0 k).2.ssum) =
      (tblAt acc0.cur x, acc0.ssum) +
        ∑ k' ∈ range (k + 1), bG X prev x (walkAfter X k').fp (Walk.cost X (walkAfter X k')) (gray k') := by
  induction k with
  | zero =>
    have hw : walkAfter X 0 = Walk.step X (Walk.init X.nT) (0, -1) := by
      unfold walkAfter; rw [foldl_take_gray_zero]
    unfold bLoop
    rw [foldl_take_gray_zero]
    simp only [← hw]
    have := bwdBody_eq X prev (walkAfter X 0) 0 x _ acc0 (fun _ => bwdProj_bound _ _ _) h0
    refine ⟨trivial, this.1, ?_⟩
    rw [this.2]; simp [gray_zero]
  | succ k ih =>
    obtain ⟨i1, i2, i3⟩ := ih (by omega)
    have hw : walkAfter X (k + 1) = Walk.step X (walkAfter X k) (gray (k + 1), ((tones k : Nat) : Int)) := by
      unfold walkAfter; rw [foldl_take_gray _ _ hk]
    unfold bLoop at i1 i2 i3 ⊢
    rw [foldl_take_gray _ _ hk]
    simp only [i1, ← hw]
    have := bwdBody_eq X prev (walkAfter X (k + 1)) (gray (k + 1)) x _ _ (fun _ => bwdProj_bound _ _ _) i2
    refine ⟨trivial, this.1, ?_⟩
    rw [this.2, i3, sum_range_succ _ (k + 1), add_assoc]

/-- the Gray codes are a permutation of the column indices -/
theorem sum_gray {M : Type} [AddCommMonoid M] (n : Nat) (H : Nat → M) :
    ∑ k ∈ range (2 ^ n), H (gray k) = ∑ idx ∈ range (2 ^ n), H idx := by
  apply sum_nbij gray
  · intro k hk; exact mem_range.mpr (gray_lt n k (mem_range.mp hk))
  · intro a _ b _ h; exact gray_inj _ _ h
  · intro idx hidx
    have := gray_complete n idx (mem_range.mp (by simpa using hidx))
    rw [grayList_codes] at this
    obtain ⟨k, hk, rfl⟩ := List.mem_map.mp this
    exact ⟨k, by simpa using hk, rfl⟩
  · intro _ _; rfl

end
end WhVerif.C08.Impl

namespace WhVerif.C08.Impl
open WhVerif.C08 WhVerif.C01 Finset

section
variable {K : Type} [Field K]

theorem bG_congr (X : ColCtx K) (prev : Array K) (x fp idx : Nat) (cost cost' : Nat → Nat → K)
    (h : ∀ i a, i < X.nT → cost i a = cost' i a) : bG X prev x fp cost idx = bG X prev x fp cost' idx := by
  unfold bG
  apply sum_congr rfl; intro i hi
  apply sum_congr rfl; intro a _
  rw [h i a (mem_range.mp hi)]

theorem tblAt_replicate_zero (n x : Nat) : tblAt (Array.replicate n (0 : K)) x = 0 := by
  unfold tblAt
  rw [Array.getD_eq_getD_getElem?, Array.getElem?_replicate]
  split <;> rfl

/-- the clean (gather) form of what one bipartition contributes -/
def bH (X : ColCtx K) (prev : Array K) (x idx : Nat) : K × K :=
  bG X prev x (gather X.co.fwdPos idx) (fun t a => emitCol X.em (X.parts t) a X.col (bitsOf X.co.nAct idx)) idx

/-- **the backward column loop**: entry `x` of the column written by `compute_backward_column(c)` (`c > 0`) and the
`scaling_sum`, as sums over all column indices in natural order -/
theorem bwdColumn_eq (X : ColCtx K) (prev : Array K) (hc : X.c > 0)
    (hlen : X.col.length = X.co.nAct) (hnd : X.co.fwdPos.Nodup)
    (hne : ∀ e ∈ X.col, ∀ ind alt q, e = some (ind, alt, q) → X.em q ≠ 0 ∧ 1 - X.em q ≠ 0)
    (hP : ∀ t, t < X.nT → ∀ e ∈ X.col, ∀ ind alt q, e = some (ind, alt, q) → (X.parts t ind).1 < X.nP ∧ (X.parts t ind).2 < X.nP)
    (x : Nat) :
    (bwdColumn X prev X.co.bwdW).2 = (∑ idx ∈ range (2 ^ X.co.nAct), bH X prev x idx).2 ∧
    tblAt (bwdColumn X prev X.co.bwdW).1 x =
      (∑ idx ∈ range (2 ^ X.co.nAct), bH X prev x idx).1 / (∑ idx ∈ range (2 ^ X.co.nAct), bH X prev x idx).2 := by
  obtain ⟨m, hm⟩ : ∃ m, 2 ^ X.co.nAct = m + 1 := ⟨2 ^ X.co.nAct - 1, by have := Nat.two_pow_pos X.co.nAct; omega⟩
  have hfull : (grayList X.co.nAct).take (m + 1) = grayList X.co.nAct :=
    List.take_of_length_le (by rw [grayList_length, hm])
  have key := bLoop_eq X prev x ⟨Array.replicate (if X.c > 0 then 2 ^ X.co.bwdW * X.nT else 0) 0, 0⟩
    (by simp [hc]) m (by omega)
  unfold bLoop at key
  rw [hfull] at key
  have hsum : ∑ k' ∈ range (m + 1), bG X prev x (walkAfter X k').fp (Walk.cost X (walkAfter X k')) (gray k') =
      ∑ idx ∈ range (2 ^ X.co.nAct), bH X prev x idx := by
    rw [← hm, ← sum_gray X.co.nAct (bH X prev x)]
    apply sum_congr rfl
    intro k hk
    have hk' : k < 2 ^ X.co.nAct := mem_range.mp hk
    unfold bH
    rw [walkAfter_fp, fpWalk_eq _ _ hnd k hk']
    apply bG_congr
    intro t a ht
    rw [walkAfter_cost X hlen k t a ht, ← hlen]
    exact getCost_of_inv _ _ _ _ _ _ a (hP t ht) (ccWalk_inv _ _ _ _ hne k (by rw [hlen]; exact hk'))
  rw [hsum, tblAt_replicate_zero] at key
  have k3 := key.2.2
  rw [Prod.mk_zero_zero, zero_add] at k3
  have e1 := congrArg Prod.fst k3
  have e2 := congrArg Prod.snd k3
  simp only at e1 e2
  unfold bwdColumn
  simp only []
  refine ⟨e2, ?_⟩
  rw [tblAt_divAll, e1, e2]

end
end WhVerif.C08.Impl

namespace WhVerif.C08.Impl
open WhVerif.C08 WhVerif.C01 Finset

section
variable {K : Type} [Field K]

/-- the column context reads the same numbers as the clean model's `Weights` in column `c` of frame `F` -/
structure ColCtx.Matches (X : ColCtx K) (F : Frame) (W : Weights K) (c : Nat) : Prop where
  c_eq : X.c = c
  nCols_eq : X.nCols = F.nCols
  co_eq : X.co = F.col c
  nT_eq : X.nT = W.nT
  nA_eq : 2 ^ X.nP = W.nA
  trans_eq : ∀ j t, X.trans j t = W.trans c j t
  asg_eq : ∀ t a, X.asg t a = W.asg c t a
  emit_eq : ∀ bits t a, t < W.nT → emitCol X.em (X.parts t) a X.col bits = W.emit c bits t a

theorem fst_sum' {ι M N : Type} [AddCommMonoid M] [AddCommMonoid N] (s : Finset ι) (f : ι → M × N) :
    (∑ i ∈ s, f i).1 = ∑ i ∈ s, (f i).1 := map_sum (AddMonoidHom.fst M N) f s

theorem sum_scatter_idx (nT bp p j : Nat) (hj : j < nT) (v : Nat → K) :
    (∑ j' ∈ range nT, if bp * nT + j' = p * nT + j then v j' else 0) = if bp = p then v j else 0 := by
  by_cases h : bp = p
  · subst h
    rw [if_pos rfl, sum_eq_single j (fun j' _ hne => if_neg (fun e => hne (Nat.add_left_cancel e)))
      (fun hn => absurd (mem_range.mpr hj) hn), if_pos rfl]
  · rw [if_neg h]
    apply sum_eq_zero
    intro j' hj'
    rw [if_neg]
    intro e
    have hj'' := mem_range.mp hj'
    apply h
    have h1 : (bp * nT + j') / nT = (p * nT + j) / nT := by rw [e]
    rwa [idx2_div bp hj'', idx2_div p hj] at h1

/-- **`compute_backward_column(c)` = `bwdStep` of the clean model with the code's `scaling_sum` as the divisor** -/
theorem bwdColumn_eq_bwdStep (X : ColCtx K) (F : Frame) (W : Weights K) (S : Scal K) (c : Nat) (next : Array K)
    (hM : X.Matches F W c) (hc : c > 0)
    (hlen : X.col.length = X.co.nAct)
    (hne : ∀ e ∈ X.col, ∀ ind alt q, e = some (ind, alt, q) → X.em q ≠ 0 ∧ 1 - X.em q ≠ 0)
    (hP : ∀ t, t < X.nT → ∀ e ∈ X.col, ∀ ind alt q, e = some (ind, alt, q) → (X.parts t ind).1 < X.nP ∧ (X.parts t ind).2 < X.nP)
    (hS : S.bw c = (bwdColumn X next X.co.bwdW).2)
    (p j : Nat) (hp : p < 2 ^ (F.col c).bwdW) (hj : j < W.nT) :
    tblAt (bwdColumn X next X.co.bwdW).1 (p * W.nT + j) = tblAt (bwdStep F W S c next) (p * W.nT + j) := by
  have hnd : X.co.fwdPos.Nodup := by rw [hM.co_eq]; exact Frame.col_fwdPos_nodup F c
  have hc' : X.c > 0 := by rw [hM.c_eq]; exact hc
  have key := bwdColumn_eq X next hc' hlen hnd hne hP (p * W.nT + j)
  rw [bwdStep_at F W S c next hp hj, hS, key.2, ← key.1]
  congr 1
  rw [fst_sum', hM.co_eq]
  apply sum_congr rfl
  intro idx _
  unfold bH bG
  rw [fst_sum']
  have hbp : bwdProj (F.col c).bwdW idx = idx % 2 ^ (F.col c).bwdW := by
    unfold bwdProj; rw [Nat.one_shiftLeft, Nat.and_two_pow_sub_one_eq_mod]
  simp only [fst_sum', hM.nT_eq, hM.nA_eq, hM.co_eq, hbp, hM.c_eq, hM.nCols_eq, hc, if_true]
  by_cases hpp : idx % 2 ^ (F.col c).bwdW = p
  · rw [if_pos hpp]
    apply sum_congr rfl
    intro t ht
    rw [mul_sum, sum_mul]
    apply sum_congr rfl
    intro a _
    rw [sum_scatter_idx W.nT _ p j hj, if_pos hpp, hM.trans_eq, hM.asg_eq, hM.emit_eq _ _ _ (mem_range.mp ht)]
    unfold bRaw
    have e1 : (1 + c < F.nCols) = (c + 1 < F.nCols) := by rw [Nat.add_comm]
    try simp only [e1]
    split <;> ring
  · rw [if_neg hpp]
    apply sum_eq_zero; intro t _
    apply sum_eq_zero; intro a _
    rw [sum_scatter_idx W.nT _ p j hj, if_neg hpp]

end
end WhVerif.C08.Impl

import WhVerif.Model.C02Bam
namespace WhVerif.C02Bam

theorem mem_groupIds {f : BamFile} {s : String} {x : String} :
    x ∈ groupIds f s ↔ ∃ g ∈ f.rgs, g.sm = some s ∧ g.id = x := by
  simp [groupIds, and_assoc]

theorem mem_fetchFile {src : Nat} {f : BamFile} {s : String} {j : Nat} {a : Aln} :
    (j, a) ∈ fetchFile src f s ↔ j = src ∧ a ∈ f.alns ∧ OwnedBy f a s := by
  simp only [fetchFile, List.mem_map, List.mem_filter, List.contains_iff_mem, mem_groupIds, OwnedBy]
  constructor
  · rintro ⟨b, ⟨hb, ho⟩, heq⟩
    cases heq
    exact ⟨rfl, hb, ho⟩
  · rintro ⟨rfl, hb, ho⟩
    exact ⟨a, ⟨hb, ho⟩, rfl⟩

theorem mem_fetchFrom {fs : List BamFile} {s : String} {i j : Nat} {a : Aln} :
    (j, a) ∈ fetchFrom i fs s ↔ ∃ k f, fs[k]? = some f ∧ j = i + k ∧ a ∈ f.alns ∧ OwnedBy f a s := by
  induction fs generalizing i with
  | nil => simp [fetchFrom]
  | cons f fs ih =>
    simp only [fetchFrom, List.mem_append, mem_fetchFile, ih]
    constructor
    · rintro (⟨rfl, h⟩ | ⟨k, f', hk, rfl, h⟩)
      · exact ⟨0, f, by simp, by simp, h⟩
      · exact ⟨k + 1, f', by simpa using hk, by omega, h⟩
    · rintro ⟨k, f', hk, rfl, h⟩
      cases k with
      | zero =>
        simp at hk
        subst hk
        exact Or.inl ⟨by simp, h⟩
      | succ k => exact Or.inr ⟨k, f', by simpa using hk, by omega, h⟩

end WhVerif.C02Bam

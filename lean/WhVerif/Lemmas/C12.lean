import WhVerif.Model.C12
import WhVerif.Spec.C12
/-! Helper lemmas for C12: extremes of a block, the splitting loop, grouping sums, additivity. -/
namespace WhVerif.Lemmas.C12
open WhVerif.C12

/-! ### leftmost / rightmost as `PhasedBlock.add` maintains them -/

theorem foldl_min_spec (rest : List Member) (init : Nat) :
    rest.foldl (fun acc x => if x.1 < acc then x.1 else acc) init ≤ init ∧
    (∀ x ∈ rest, rest.foldl (fun acc x => if x.1 < acc then x.1 else acc) init ≤ x.1) ∧
    (rest.foldl (fun acc x => if x.1 < acc then x.1 else acc) init = init ∨
      ∃ x ∈ rest, x.1 = rest.foldl (fun acc x => if x.1 < acc then x.1 else acc) init) := by
  induction rest generalizing init with
  | nil => simp
  | cons a t ih =>
    simp only [List.foldl_cons]
    have ih' := ih (if a.1 < init then a.1 else init)
    by_cases hlt : a.1 < init
    · simp only [hlt, ↓reduceIte] at ih' ⊢
      obtain ⟨h1, h2, h3⟩ := ih'
      refine ⟨by omega, ?_, ?_⟩
      · intro x hx
        rcases List.mem_cons.mp hx with rfl | hx
        · exact h1
        · exact h2 x hx
      · rcases h3 with h3 | ⟨x, hx, hxe⟩
        · exact Or.inr ⟨a, List.mem_cons_self .., h3.symm⟩
        · exact Or.inr ⟨x, List.mem_cons_of_mem _ hx, hxe⟩
    · simp only [hlt, ↓reduceIte] at ih' ⊢
      obtain ⟨h1, h2, h3⟩ := ih'
      refine ⟨h1, ?_, ?_⟩
      · intro x hx
        rcases List.mem_cons.mp hx with rfl | hx
        · omega
        · exact h2 x hx
      · rcases h3 with h3 | ⟨x, hx, hxe⟩
        · exact Or.inl h3
        · exact Or.inr ⟨x, List.mem_cons_of_mem _ hx, hxe⟩

theorem foldl_max_spec (rest : List Member) (init : Nat) :
    init ≤ rest.foldl (fun acc x => if acc < x.1 then x.1 else acc) init ∧
    (∀ x ∈ rest, x.1 ≤ rest.foldl (fun acc x => if acc < x.1 then x.1 else acc) init) ∧
    (rest.foldl (fun acc x => if acc < x.1 then x.1 else acc) init = init ∨
      ∃ x ∈ rest, x.1 = rest.foldl (fun acc x => if acc < x.1 then x.1 else acc) init) := by
  induction rest generalizing init with
  | nil => simp
  | cons a t ih =>
    simp only [List.foldl_cons]
    have ih' := ih (if init < a.1 then a.1 else init)
    by_cases hlt : init < a.1
    · simp only [hlt, ↓reduceIte] at ih' ⊢
      obtain ⟨h1, h2, h3⟩ := ih'
      refine ⟨by omega, ?_, ?_⟩
      · intro x hx
        rcases List.mem_cons.mp hx with rfl | hx
        · exact h1
        · exact h2 x hx
      · rcases h3 with h3 | ⟨x, hx, hxe⟩
        · exact Or.inr ⟨a, List.mem_cons_self .., h3.symm⟩
        · exact Or.inr ⟨x, List.mem_cons_of_mem _ hx, hxe⟩
    · simp only [hlt, ↓reduceIte] at ih' ⊢
      obtain ⟨h1, h2, h3⟩ := ih'
      refine ⟨h1, ?_, ?_⟩
      · intro x hx
        rcases List.mem_cons.mp hx with rfl | hx
        · omega
        · exact h2 x hx
      · rcases h3 with h3 | ⟨x, hx, hxe⟩
        · exact Or.inl h3
        · exact Or.inr ⟨x, List.mem_cons_of_mem _ hx, hxe⟩

theorem lo_le (b : Block) : ∀ m ∈ b, lo b ≤ m.1 := by
  intro m hm
  match b, hm with
  | a :: t, hm =>
    obtain ⟨h1, h2, _⟩ := foldl_min_spec t a.1
    rcases List.mem_cons.mp hm with rfl | hm
    · exact h1
    · exact h2 m hm

theorem lo_mem (b : Block) (hb : b ≠ []) : ∃ m ∈ b, m.1 = lo b := by
  match b, hb with
  | a :: t, _ =>
    obtain ⟨_, _, h3⟩ := foldl_min_spec t a.1
    rcases h3 with h3 | ⟨x, hx, hxe⟩
    · exact ⟨a, List.mem_cons_self .., h3.symm⟩
    · exact ⟨x, List.mem_cons_of_mem _ hx, hxe⟩

theorem le_hi (b : Block) : ∀ m ∈ b, m.1 ≤ hi b := by
  intro m hm
  match b, hm with
  | a :: t, hm =>
    obtain ⟨h1, h2, _⟩ := foldl_max_spec t a.1
    rcases List.mem_cons.mp hm with rfl | hm
    · exact h1
    · exact h2 m hm

theorem hi_mem (b : Block) (hb : b ≠ []) : ∃ m ∈ b, m.1 = hi b := by
  match b, hb with
  | a :: t, _ =>
    obtain ⟨_, _, h3⟩ := foldl_max_spec t a.1
    rcases h3 with h3 | ⟨x, hx, hxe⟩
    · exact ⟨a, List.mem_cons_self .., h3.symm⟩
    · exact ⟨x, List.mem_cons_of_mem _ hx, hxe⟩

theorem lo_le_hi (b : Block) (hb : b ≠ []) : lo b ≤ hi b := by
  obtain ⟨m, hm, he⟩ := lo_mem b hb
  have := le_hi b m hm
  omega

/-! ### sorting the queue -/

theorem sortBlocks_perm (q : List Block) : (sortBlocks q).Perm q := List.mergeSort_perm _ _

theorem sortBlocks_sorted (q : List Block) : QSorted (sortBlocks q) := by
  have := List.pairwise_mergeSort (le := fun (a b : Block) => decide (lo a ≤ lo b))
    (by intro a b c h1 h2; simp at *; omega) (by intro a b; simp; omega) q
  exact this.imp (by intro a b h; simpa using h)

theorem totalLen_perm {q q' : List Block} (h : q.Perm q') : totalLen q = totalLen q' := by
  unfold totalLen
  exact (h.map List.length).sum_nat

theorem totalLen_cons (b : Block) (q : List Block) : totalLen (b :: q) = b.length + totalLen q := by
  simp [totalLen]

/-! ### the splitting loop -/

/-- unfolding of one iteration with at least two blocks in the queue -/
theorem loop_step (n : Nat) (b nxt : Block) (rest : List Block) :
    nonoverlapLoop (n + 1) (b :: nxt :: rest) =
      if hi b > lo nxt then
        if (splitBlock b (lo nxt) (hi nxt)).1.length < 2 then
          nonoverlapLoop n (if (splitBlock b (lo nxt) (hi nxt)).2.length > 1
            then sortBlocks ((splitBlock b (lo nxt) (hi nxt)).2 :: nxt :: rest) else nxt :: rest)
        else (nonoverlapLoop n (if (splitBlock b (lo nxt) (hi nxt)).2.length > 1
            then sortBlocks ((splitBlock b (lo nxt) (hi nxt)).2 :: nxt :: rest) else nxt :: rest)).map
              ((splitBlock b (lo nxt) (hi nxt)).1 :: ·)
      else (nonoverlapLoop n (nxt :: rest)).map (b :: ·) := by
  simp only [nonoverlapLoop]

/-- the queue after a split -/
def nextQueue (b nxt : Block) (rest : List Block) : List Block :=
  if (splitBlock b (lo nxt) (hi nxt)).2.length > 1
  then sortBlocks ((splitBlock b (lo nxt) (hi nxt)).2 :: nxt :: rest) else nxt :: rest

theorem mem_nextQueue {b nxt : Block} {rest : List Block} {x : Block} (hx : x ∈ nextQueue b nxt rest) :
    x ∈ nxt :: rest ∨ (x = (splitBlock b (lo nxt) (hi nxt)).2 ∧ x.length > 1) := by
  unfold nextQueue at hx
  by_cases hr : (splitBlock b (lo nxt) (hi nxt)).2.length > 1
  · simp only [hr, if_true] at hx
    rcases List.mem_cons.mp ((sortBlocks_perm _).mem_iff.mp hx) with rfl | h
    · exact Or.inr ⟨rfl, hr⟩
    · exact Or.inl h
  · simp only [hr, if_false] at hx
    exact Or.inl hx

theorem nextQueue_sorted {b nxt : Block} {rest : List Block} (hs : QSorted (b :: nxt :: rest)) :
    QSorted (nextQueue b nxt rest) := by
  unfold nextQueue
  split
  · exact sortBlocks_sorted _
  · exact (List.pairwise_cons.mp hs).2

theorem nextQueue_nonempty {b nxt : Block} {rest : List Block} (hne : QNonempty (b :: nxt :: rest)) :
    QNonempty (nextQueue b nxt rest) := by
  intro x hx
  rcases mem_nextQueue hx with h | ⟨_, h⟩
  · exact hne x (List.mem_cons_of_mem _ h)
  · intro he; rw [he] at h; simp at h

theorem totalLen_nextQueue {b nxt : Block} {rest : List Block} (hs : QSorted (b :: nxt :: rest))
    (hne : QNonempty (b :: nxt :: rest)) : totalLen (nextQueue b nxt rest) < totalLen (b :: nxt :: rest) := by
  have hb : b ≠ [] := hne b (List.mem_cons_self ..)
  have hn : nxt ≠ [] := hne nxt (List.mem_cons_of_mem _ (List.mem_cons_self ..))
  have hblen : 0 < b.length := List.length_pos_iff.mpr hb
  unfold nextQueue
  split
  · rw [totalLen_perm (sortBlocks_perm _), totalLen_cons, totalLen_cons b]
    -- the leftmost member of `b` is not to the right of `nxt`
    obtain ⟨m, hm, hme⟩ := lo_mem b hb
    have h1 : lo b ≤ lo nxt := (List.pairwise_cons.mp hs).1 nxt (List.mem_cons_self ..)
    have h2 := lo_le_hi nxt hn
    have : (b.filter (fun x => decide (x.1 > hi nxt))).length < b.length :=
      List.length_filter_lt_length_iff_exists.mpr ⟨m, hm, by simp; omega⟩
    simp only [splitBlock] at *
    omega
  · rw [totalLen_cons b]; omega

/-- every position of the blocks of `q'` is at least `bound` -/
def AllGe (bound : Nat) (q : List Block) : Prop := ∀ b ∈ q, ∀ m ∈ b, bound ≤ m.1

/-- **invariant of the loop**: on a sorted queue of non-empty blocks the pieces it returns are non-empty, consist of
positions of queue blocks, and are chained: each piece ends before the next one starts. -/
theorem loop_inv : ∀ (n : Nat) (q out : List Block), QSorted q → QNonempty q → nonoverlapLoop n q = some out →
    (∀ p ∈ out, p ≠ [] ∧ ∀ m ∈ p, ∃ b ∈ q, m ∈ b) ∧ out.Pairwise (fun a b => hi a ≤ lo b) := by
  intro n
  induction n with
  | zero => intro q out _ _ h; simp [nonoverlapLoop] at h
  | succ n ih =>
    intro q out hs hne h
    match q, hs, hne, h with
    | [], _, _, h =>
      simp [nonoverlapLoop] at h; subst h; simp
    | [b], _, hne, h =>
      simp [nonoverlapLoop] at h; subst h
      refine ⟨?_, by simp⟩
      intro p hp
      simp at hp; subst hp
      exact ⟨hne p (List.mem_cons_self ..), fun m hm => ⟨p, List.mem_cons_self .., hm⟩⟩
    | b :: nxt :: rest, hs, hne, h =>
      rw [loop_step] at h
      have hb : b ≠ [] := hne b (List.mem_cons_self ..)
      have hn : nxt ≠ [] := hne nxt (List.mem_cons_of_mem _ (List.mem_cons_self ..))
      have hsort_tail : QSorted (nxt :: rest) := (List.pairwise_cons.mp hs).2
      have hne_tail : QNonempty (nxt :: rest) := fun x hx => hne x (List.mem_cons_of_mem _ hx)
      -- every block of the tail starts at or after `lo nxt`
      have htail_ge : AllGe (lo nxt) (nxt :: rest) := by
        intro x hx m hm
        have h1 : lo nxt ≤ lo x := by
          rcases List.mem_cons.mp hx with rfl | hx'
          · exact Nat.le_refl _
          · exact (List.pairwise_cons.mp hsort_tail).1 x hx'
        have := lo_le x m hm
        omega
      -- a chained result whose pieces come from a queue above `bound` lies above `bound`
      have lift : ∀ (bound : Nat) (q' out' : List Block), AllGe bound q' →
          (∀ p ∈ out', p ≠ [] ∧ ∀ m ∈ p, ∃ b' ∈ q', m ∈ b') → ∀ p ∈ out', bound ≤ lo p := by
        intro bound q' out' hge hfrom p hp
        obtain ⟨hpne, hpm⟩ := hfrom p hp
        obtain ⟨m, hm, hme⟩ := lo_mem p hpne
        obtain ⟨b', hb', hmb'⟩ := hpm m hm
        have := hge b' hb' m hmb'
        omega
      by_cases hov : hi b > lo nxt
      · simp only [hov, if_true] at h
        have hq's := nextQueue_sorted hs
        have hq'n := nextQueue_nonempty hne
        -- positions of the next queue come from the old queue and are >= lo nxt
        have hq'from : ∀ x ∈ nextQueue b nxt rest, ∀ m ∈ x, ∃ b' ∈ b :: nxt :: rest, m ∈ b' := by
          intro x hx m hm
          rcases mem_nextQueue hx with h1 | ⟨h1, _⟩
          · exact ⟨x, List.mem_cons_of_mem _ h1, hm⟩
          · subst h1
            exact ⟨b, List.mem_cons_self .., (List.mem_filter.mp hm).1⟩
        have hq'ge : AllGe (lo nxt) (nextQueue b nxt rest) := by
          intro x hx m hm
          rcases mem_nextQueue hx with h1 | ⟨h1, _⟩
          · exact htail_ge x h1 m hm
          · subst h1
            have := (List.mem_filter.mp hm).2
            have := lo_le_hi nxt hn
            simp at *; omega
        by_cases hleft : (splitBlock b (lo nxt) (hi nxt)).1.length < 2
        · simp only [hleft, if_true] at h
          obtain ⟨h1, h2⟩ := ih _ out hq's hq'n h
          refine ⟨?_, h2⟩
          intro p hp
          obtain ⟨hpne, hpm⟩ := h1 p hp
          refine ⟨hpne, ?_⟩
          intro m hm
          obtain ⟨x, hx, hmx⟩ := hpm m hm
          exact hq'from x hx m hmx
        · simp only [hleft, if_false] at h
          cases hrec : nonoverlapLoop n (nextQueue b nxt rest) with
          | none => simp only [nextQueue] at hrec; rw [hrec] at h; simp at h
          | some out' =>
            simp only [nextQueue] at hrec; rw [hrec] at h
            simp only [Option.map_some, Option.some.injEq] at h
            subst h
            obtain ⟨h1, h2⟩ := ih _ out' hq's hq'n (by simpa [nextQueue] using hrec)
            have hlne : (splitBlock b (lo nxt) (hi nxt)).1 ≠ [] := by
              intro he; rw [he] at hleft; simp at hleft
            have hhi : hi (splitBlock b (lo nxt) (hi nxt)).1 < lo nxt := by
              obtain ⟨m, hm, hme⟩ := hi_mem _ hlne
              have := (List.mem_filter.mp hm).2
              simp at this; omega
            refine ⟨?_, List.pairwise_cons.mpr ⟨?_, h2⟩⟩
            · intro p hp
              rcases List.mem_cons.mp hp with rfl | hp
              · exact ⟨hlne, fun m hm => ⟨b, List.mem_cons_self .., (List.mem_filter.mp hm).1⟩⟩
              · obtain ⟨hpne, hpm⟩ := h1 p hp
                refine ⟨hpne, ?_⟩
                intro m hm
                obtain ⟨x, hx, hmx⟩ := hpm m hm
                exact hq'from x hx m hmx
            · intro p hp
              have := lift (lo nxt) _ out' hq'ge h1 p hp
              omega
      · simp only [hov, if_false] at h
        cases hrec : nonoverlapLoop n (nxt :: rest) with
        | none => rw [hrec] at h; simp at h
        | some out' =>
          rw [hrec] at h
          simp only [Option.map_some, Option.some.injEq] at h
          subst h
          obtain ⟨h1, h2⟩ := ih _ out' hsort_tail hne_tail hrec
          refine ⟨?_, List.pairwise_cons.mpr ⟨?_, h2⟩⟩
          · intro p hp
            rcases List.mem_cons.mp hp with rfl | hp
            · exact ⟨hb, fun m hm => ⟨p, List.mem_cons_self .., hm⟩⟩
            · obtain ⟨hpne, hpm⟩ := h1 p hp
              refine ⟨hpne, ?_⟩
              intro m hm
              obtain ⟨x, hx, hmx⟩ := hpm m hm
              exact ⟨x, List.mem_cons_of_mem _ hx, hmx⟩
          · intro p hp
            have := lift (lo nxt) _ out' htail_ge h1 p hp
            omega

/-- **termination**: on a sorted queue of non-empty blocks the loop finishes within `totalLen q + 1` iterations
(each iteration removes a block and puts back at most a strictly shorter piece of it) -/
theorem loop_terminates : ∀ (n : Nat) (q : List Block), QSorted q → QNonempty q → totalLen q < n →
    (nonoverlapLoop n q).isSome = true := by
  intro n
  induction n with
  | zero => intro q _ _ h; omega
  | succ n ih =>
    intro q hs hne hlt
    match q, hs, hne, hlt with
    | [], _, _, _ => simp [nonoverlapLoop]
    | [b], _, _, _ => simp [nonoverlapLoop]
    | b :: nxt :: rest, hs, hne, hlt =>
      rw [loop_step]
      have hb : b ≠ [] := hne b (List.mem_cons_self ..)
      have hblen : 0 < b.length := List.length_pos_iff.mpr hb
      have hsort_tail : QSorted (nxt :: rest) := (List.pairwise_cons.mp hs).2
      have hne_tail : QNonempty (nxt :: rest) := fun x hx => hne x (List.mem_cons_of_mem _ hx)
      have hq' := ih (nextQueue b nxt rest) (nextQueue_sorted hs) (nextQueue_nonempty hne)
        (by have := totalLen_nextQueue hs hne; omega)
      have htail := ih (nxt :: rest) hsort_tail hne_tail (by rw [totalLen_cons] at hlt; omega)
      simp only [nextQueue] at hq'
      split
      · split
        · exact hq'
        · simpa using hq'
      · simpa using htail

/-! ### chained pieces inside `[L, H]` have total span at most `H - L` -/

theorem chain_sum_le (H : Nat) : ∀ (out : List Block) (L : Nat), L ≤ H → out.Pairwise (fun a b => hi a ≤ lo b) →
    (∀ p ∈ out, p ≠ [] ∧ ∀ m ∈ p, L ≤ m.1 ∧ m.1 ≤ H) → (out.map span).sum + L ≤ H := by
  intro out
  induction out with
  | nil => intro L hLH _ _; simpa using hLH
  | cons p out' ih =>
    intro L _ hc hin
    obtain ⟨hp, hc'⟩ := List.pairwise_cons.mp hc
    obtain ⟨hpne, hpm⟩ := hin p (List.mem_cons_self ..)
    obtain ⟨ml, hml, hmle⟩ := lo_mem p hpne
    obtain ⟨mh, hmh, hmhe⟩ := hi_mem p hpne
    have hlh := lo_le_hi p hpne
    have h1 := (hpm ml hml).1
    have h2 := (hpm mh hmh).2
    -- the rest lies in [hi p, H]
    have hrest := ih (hi p) (by omega) hc' (by
      intro q hq
      obtain ⟨hqne, hqm⟩ := hin q (List.mem_cons_of_mem _ hq)
      refine ⟨hqne, fun m hm => ⟨?_, (hqm m hm).2⟩⟩
      have := hp q hq
      have := lo_le q m hm
      omega)
    simp only [List.map_cons, List.sum_cons, span]
    omega

theorem sum_sortNat (l : List Nat) : (sortNat l).sum = l.sum := (List.mergeSort_perm _ _).sum_nat

theorem sortNat_isEmpty (l : List Nat) : (sortNat l).isEmpty = l.isEmpty := by
  have h := (List.mergeSort_perm l (fun a b => decide (a ≤ b))).length_eq
  unfold sortNat
  cases l with
  | nil => simp
  | cons a t =>
    cases hs : (a :: t).mergeSort (fun a b => decide (a ≤ b)) with
    | nil => rw [hs] at h; simp at h
    | cons _ _ => rfl

/-! ### sums over groups -/

theorem length_filter_or (l : List α) (p q : α → Bool) (hd : ∀ x ∈ l, ¬ (p x = true ∧ q x = true)) :
    (l.filter (fun x => p x || q x)).length = (l.filter p).length + (l.filter q).length := by
  induction l with
  | nil => rfl
  | cons a t ih =>
    have iht := ih (fun x hx => hd x (List.mem_cons_of_mem _ hx))
    have ha := hd a (List.mem_cons_self ..)
    cases hp : p a <;> cases hq : q a <;> simp [hp, hq, iht] <;> first | omega | (exact absurd ⟨hp, hq⟩ ha)

theorem mem_dedupIds (l : List BlockId) (x : BlockId) : x ∈ dedupIds l ↔ x ∈ l := by
  induction l with
  | nil => simp [dedupIds]
  | cons a t ih =>
    simp only [dedupIds, List.mem_cons, List.mem_filter, ih]
    constructor
    · rintro (h | ⟨h, _⟩)
      · exact Or.inl h
      · exact Or.inr h
    · rintro (h | h)
      · exact Or.inl h
      · by_cases hxa : x = a
        · exact Or.inl hxa
        · exact Or.inr ⟨h, by simpa using hxa⟩

theorem nodup_dedupIds (l : List BlockId) : (dedupIds l).Nodup := by
  induction l with
  | nil => simp [dedupIds]
  | cons a t ih =>
    simp only [dedupIds]
    refine List.nodup_cons.mpr ⟨?_, ih.filter _⟩
    simp [List.mem_filter]

/-- for a duplicate-free list of ids `D`: the summed sizes of the groups of `D` whose size satisfies `P` is the
number of phased calls whose id is in `D` and whose group size satisfies `P` -/
theorem sum_groups (ph : List (BlockId × Member)) (P : Nat → Bool) :
    ∀ (D : List BlockId), D.Nodup →
      ((D.filter (fun k => P (cnt ph k))).map (cnt ph)).sum
        = (ph.filter (fun x => D.contains x.1 && P (cnt ph x.1))).length := by
  intro D
  induction D with
  | nil =>
    intro _
    have : ph.filter (fun x => ([] : List BlockId).contains x.1 && P (cnt ph x.1)) = [] :=
      List.filter_eq_nil_iff.mpr (by intro x _; simp)
    rw [this]; rfl
  | cons k D' ih =>
    intro hD
    obtain ⟨hk, hD'⟩ := List.nodup_cons.mp hD
    have ih' := ih hD'
    -- split the right-hand side into the calls of group `k` and the calls of the groups in `D'`
    have hsplit : (ph.filter (fun x => (k :: D').contains x.1 && P (cnt ph x.1))).length
        = (ph.filter (fun x => (x.1 == k) && P (cnt ph x.1))).length
          + (ph.filter (fun x => D'.contains x.1 && P (cnt ph x.1))).length := by
      rw [← length_filter_or]
      · congr 1
        apply List.filter_congr
        intro x _
        simp only [List.contains_cons]
        cases (x.1 == k) <;> cases (D'.contains x.1) <;> cases P (cnt ph x.1) <;> rfl
      · intro x _ ⟨h1, h2⟩
        simp only [Bool.and_eq_true, beq_iff_eq] at h1 h2
        have : k ∈ D' := by
          have := h2.1
          rw [h1.1] at this
          simpa using this
        exact hk this
    have hk_group : (ph.filter (fun x => (x.1 == k) && P (cnt ph x.1))).length
        = if P (cnt ph k) then cnt ph k else 0 := by
      have : ph.filter (fun x => (x.1 == k) && P (cnt ph x.1)) = ph.filter (fun x => (x.1 == k) && P (cnt ph k)) := by
        apply List.filter_congr
        intro x _
        by_cases hx : x.1 = k
        · rw [hx]
        · have : (x.1 == k) = false := by simpa using hx
          simp [this]
      rw [this]
      cases hP : P (cnt ph k)
      · simp
      · simp [cnt]
    rw [hsplit, hk_group, ← ih']
    cases hP : P (cnt ph k) <;> simp [hP]

theorem mem_ids_of_mem {ph : List (BlockId × Member)} {x : BlockId × Member} (hx : x ∈ ph) :
    (dedupIds (ph.map (·.1))).contains x.1 = true := by
  exact List.contains_iff_mem.mpr ((mem_dedupIds _ _).mpr (List.mem_map.mpr ⟨x, hx, rfl⟩))

/-- the same over all groups: ids = the distinct ids of `ph` -/
theorem sum_groups_all (ph : List (BlockId × Member)) (P : Nat → Bool) :
    (((dedupIds (ph.map (·.1))).filter (fun k => P (cnt ph k))).map (cnt ph)).sum
      = (ph.filter (fun x => P (cnt ph x.1))).length := by
  rw [sum_groups ph P _ (nodup_dedupIds _)]
  congr 1
  apply List.filter_congr
  intro x hx
  rw [mem_ids_of_mem hx, Bool.true_and]

theorem cnt_pos {ph : List (BlockId × Member)} {x : BlockId × Member} (hx : x ∈ ph) : 0 < cnt ph x.1 := by
  unfold cnt
  exact List.length_pos_iff_exists_mem.mpr ⟨x, List.mem_filter.mpr ⟨hx, by simp⟩⟩

/-- the blocks of `blocksOf`, seen through their sizes -/
theorem blocksOf_sizes (ph : List (BlockId × Member)) (P : Nat → Bool) :
    ((((blocksOf ph).map (·.2)).filter (fun b => P b.length)).map List.length)
      = ((dedupIds (ph.map (·.1))).filter (fun k => P (cnt ph k))).map (cnt ph) := by
  unfold blocksOf cnt
  simp only [List.map_map, List.filter_map, Function.comp_def, List.length_map]

theorem sum_ones (l : List α) (f : α → Nat) (h : ∀ x ∈ l, f x = 1) : (l.map f).sum = l.length := by
  induction l with
  | nil => rfl
  | cons a t ih =>
    simp only [List.map_cons, List.sum_cons, List.length_cons, h a (List.mem_cons_self ..),
      ih (fun x hx => h x (List.mem_cons_of_mem _ hx))]
    omega

/-- phased (sum of sizes > 1) and singletons in terms of the phased calls -/
theorem big_sum_eq (ph : List (BlockId × Member)) :
    (((((blocksOf ph).map (·.2)).filter (fun b => decide (b.length > 1))).map List.length)).sum
      = (ph.filter (fun x => decide (cnt ph x.1 > 1))).length := by
  exact (congrArg List.sum (blocksOf_sizes ph (fun n => decide (n > 1)))).trans (sum_groups_all ph (fun n => decide (n > 1)))

theorem singletons_eq (ph : List (BlockId × Member)) :
    (((blocksOf ph).map (·.2)).filter (fun b => b.length == 1)).length
      = (ph.filter (fun x => cnt ph x.1 == 1)).length := by
  have h1 := blocksOf_sizes ph (fun n => n == 1)
  have h2 := sum_groups_all ph (fun n => n == 1)
  have h3 := sum_ones (((blocksOf ph).map (·.2)).filter (fun b => b.length == 1)) List.length (by
    intro b hb
    have := (List.mem_filter.mp hb).2
    simpa using this)
  exact h3.symm.trans ((congrArg List.sum h1).trans h2)

theorem phased_plus_singletons (ph : List (BlockId × Member)) :
    (ph.filter (fun x => decide (cnt ph x.1 > 1))).length + (ph.filter (fun x => cnt ph x.1 == 1)).length = ph.length := by
  rw [← length_filter_or]
  · congr 1
    apply List.filter_eq_self.mpr
    intro x hx
    have := cnt_pos hx
    simp only [Bool.or_eq_true, decide_eq_true_eq, beq_iff_eq]
    omega
  · intro x _ ⟨h1, h2⟩
    simp only [decide_eq_true_eq, beq_iff_eq] at h1 h2
    omega

/-! ### `get_detailed_stats`, branch-free -/

theorem detailed_fields (s : Stats) :
    (detailed s).variants = s.variants ∧ (detailed s).unphased = s.unphased ∧ (detailed s).het = s.het ∧
    (detailed s).hetSnvs = s.hetSnvs ∧
    (detailed s).singletons = (s.blocks.filter (fun b => b.length == 1)).length ∧
    (detailed s).phased = ((bigOf s.blocks).map List.length).sum ∧
    (detailed s).sizes.sum = ((bigOf s.blocks).map List.length).sum ∧
    (detailed s).blocks = (bigOf s.blocks).length ∧
    (detailed s).phasedSnvs = ((bigOf s.blocks).map countSnvs).sum ∧
    (detailed s).bpSum = (if (bigOf s.blocks).isEmpty then 0 else ((bigOf s.splitBlocks).map span).sum) := by
  by_cases he : (bigOf s.blocks).isEmpty = true
  · have hb : bigOf s.blocks = [] := by simpa using he
    rw [detailed, if_pos he]
    simp [hb]
  · rw [detailed, if_neg he]
    refine ⟨rfl, rfl, rfl, rfl, rfl, sum_sortNat _, sum_sortNat _, ?_, rfl, ?_⟩
    · have := (List.mergeSort_perm ((bigOf s.blocks).map List.length) (fun a b => decide (a ≤ b))).length_eq
      simpa [sortNat] using this
    · simp only [he, if_false, Bool.false_eq_true]
      exact sum_sortNat _

theorem length_filterMap_phase (l : List Var) (g : Var → BlockId → BlockId × Member) :
    (l.filterMap (fun v => v.phase.map (g v))).length = (l.filter (fun v => v.phase.isSome)).length := by
  induction l with
  | nil => rfl
  | cons a t ih =>
    cases h : a.phase <;> simp [h, ih]

theorem length_filter_none_some (l : List Var) :
    (l.filter (fun v => v.phase.isNone)).length + (l.filter (fun v => v.phase.isSome)).length = l.length := by
  induction l with
  | nil => rfl
  | cons a t ih =>
    cases h : a.phase <;> simp [h] <;> omega

theorem chromStats_fields (f : Flags) (vars : List Var) (s : Stats) (h : chromStats f vars = some s) :
    s.blocks = (blocksOf (phasedOf f vars)).map (·.2) ∧
    nonoverlap s.blocks = some s.splitBlocks ∧
    s.unphased = ((considered f vars).filter (fun v => v.phase.isNone)).length ∧
    s.variants = vars.length ∧ s.het = (considered f vars).length ∧
    s.hetSnvs = ((considered f vars).filter (·.snv)).length := by
  unfold chromStats at h
  simp only [] at h
  cases hn : nonoverlap ((blocksOf (phasedOf f vars)).map (·.2)) with
  | none => rw [hn] at h; simp at h
  | some sb =>
    rw [hn] at h
    simp only [Option.map_some, Option.some.injEq] at h
    subst h
    exact ⟨rfl, hn, rfl, rfl, rfl, rfl⟩

/-! ### weighted group sums (for phased SNVs) and the independent counts -/

/-- members of group `k` satisfying `w` -/
def cntW (ph : List (BlockId × Member)) (w : BlockId × Member → Bool) (k : BlockId) : Nat :=
  (ph.filter (fun x => x.1 == k && w x)).length

theorem sum_groups_w (ph : List (BlockId × Member)) (P : Nat → Bool) (w : BlockId × Member → Bool) :
    ∀ (D : List BlockId), D.Nodup →
      ((D.filter (fun k => P (cnt ph k))).map (cntW ph w)).sum
        = (ph.filter (fun x => (D.contains x.1 && P (cnt ph x.1)) && w x)).length := by
  intro D
  induction D with
  | nil =>
    intro _
    have : ph.filter (fun x => (([] : List BlockId).contains x.1 && P (cnt ph x.1)) && w x) = [] :=
      List.filter_eq_nil_iff.mpr (by intro x _; simp)
    rw [this]; rfl
  | cons k D' ih =>
    intro hD
    obtain ⟨hk, hD'⟩ := List.nodup_cons.mp hD
    have ih' := ih hD'
    have hsplit : (ph.filter (fun x => ((k :: D').contains x.1 && P (cnt ph x.1)) && w x)).length
        = (ph.filter (fun x => ((x.1 == k) && P (cnt ph x.1)) && w x)).length
          + (ph.filter (fun x => (D'.contains x.1 && P (cnt ph x.1)) && w x)).length := by
      rw [← length_filter_or]
      · congr 1
        apply List.filter_congr
        intro x _
        simp only [List.contains_cons]
        cases (x.1 == k) <;> cases (D'.contains x.1) <;> cases P (cnt ph x.1) <;> cases w x <;> rfl
      · intro x _ ⟨h1, h2⟩
        simp only [Bool.and_eq_true, beq_iff_eq] at h1 h2
        have : k ∈ D' := by
          have := h2.1.1
          rw [h1.1.1] at this
          simpa using this
        exact hk this
    have hk_group : (ph.filter (fun x => ((x.1 == k) && P (cnt ph x.1)) && w x)).length
        = if P (cnt ph k) then cntW ph w k else 0 := by
      have : ph.filter (fun x => ((x.1 == k) && P (cnt ph x.1)) && w x)
          = ph.filter (fun x => ((x.1 == k) && P (cnt ph k)) && w x) := by
        apply List.filter_congr
        intro x _
        by_cases hx : x.1 = k
        · rw [hx]
        · have : (x.1 == k) = false := by simpa using hx
          simp [this]
      rw [this]
      cases hP : P (cnt ph k)
      · simp
      · simp [cntW]
    rw [hsplit, hk_group, ← ih']
    cases hP : P (cnt ph k) <;> simp [hP]

theorem sum_groups_w_all (ph : List (BlockId × Member)) (P : Nat → Bool) (w : BlockId × Member → Bool) :
    (((dedupIds (ph.map (·.1))).filter (fun k => P (cnt ph k))).map (cntW ph w)).sum
      = (ph.filter (fun x => P (cnt ph x.1) && w x)).length := by
  rw [sum_groups_w ph P w _ (nodup_dedupIds _)]
  congr 1
  apply List.filter_congr
  intro x hx
  rw [mem_ids_of_mem hx, Bool.true_and]

/-- SNV counts of the big blocks -/
theorem blocksOf_snvs (ph : List (BlockId × Member)) :
    ((bigOf ((blocksOf ph).map (·.2))).map countSnvs).sum
      = (ph.filter (fun x => decide (cnt ph x.1 > 1) && x.2.2)).length := by
  have h : (bigOf ((blocksOf ph).map (·.2))).map countSnvs
      = ((dedupIds (ph.map (·.1))).filter (fun k => decide (cnt ph k > 1))).map (cntW ph (fun x => x.2.2)) := by
    unfold blocksOf bigOf cnt cntW countSnvs
    simp only [List.map_map, List.filter_map, Function.comp_def, List.length_map, List.filter_filter]
    apply List.map_congr_left
    intro k _
    congr 1
    apply List.filter_congr
    intro x _
    exact Bool.and_comm _ _
  rw [h]
  exact sum_groups_w_all ph (fun n => decide (n > 1)) (fun x => x.2.2)

theorem blocksOf_big_length (ph : List (BlockId × Member)) :
    (bigOf ((blocksOf ph).map (·.2))).length
      = ((dedupIds (ph.map (·.1))).filter (fun k => decide (cnt ph k > 1))).length := by
  have := congrArg List.length (blocksOf_sizes ph (fun n => decide (n > 1)))
  simpa [bigOf] using this

/-- filtering the phased calls by a predicate on the id = filtering the calls by that predicate on their phase -/
theorem filterMap_phase_filter (l : List Var) (g : Var → Member) (Q : BlockId × Member → Bool) :
    ((l.filterMap (fun v => v.phase.map (fun id => (id, g v)))).filter Q).length
      = (l.filter (fun v => match v.phase with
          | some id => Q (id, g v)
          | none => false)).length := by
  induction l with
  | nil => rfl
  | cons a t ih =>
    cases h : a.phase with
    | none => simp [h, ih]
    | some id =>
      cases hq : Q (id, g a) <;> simp [h, hq, ih]

theorem considered_fix (f : Flags) (hf : f.fixMissing = true) (vars : List Var) :
    considered f vars = vars.filter isHet := by
  unfold considered isHet
  apply List.filter_congr
  intro v _
  rw [hf]
  cases v.geno <;> rfl

theorem phasedOf_ids (f : Flags) (vars : List Var) :
    (phasedOf f vars).map (·.1) = (considered f vars).filterMap (·.phase) := by
  unfold phasedOf
  rw [List.map_filterMap]
  congr 1
  funext v
  cases v.phase <;> rfl

theorem cnt_phasedOf (f : Flags) (hf : f.fixMissing = true) (vars : List Var) (id : BlockId) :
    cnt (phasedOf f vars) id = setSize vars id := by
  unfold cnt phasedOf setSize
  rw [considered_fix f hf, filterMap_phase_filter (vars.filter isHet) (fun v => (v.pos, v.snv)) (fun p => p.1 == id),
    List.filter_filter]
  congr 1
  apply List.filter_congr
  intro v _
  cases hp : v.phase with
  | none => simp
  | some i =>
    by_cases hi : i = id
    · subst hi; simp
    · have : (i == id) = false := by simpa using hi
      simp [this]

/-! ### additivity -/

theorem bigOf_append (a b : List Block) : bigOf (a ++ b) = bigOf a ++ bigOf b := by simp [bigOf]

theorem consistent_bpSum (s : Stats) (hc : s.Consistent) :
    (detailed s).bpSum = ((bigOf s.splitBlocks).map span).sum := by
  obtain ⟨_, _, _, _, _, _, _, _, _, d10⟩ := detailed_fields s
  rw [d10]
  split
  · rename_i he
    have hb : bigOf s.blocks = [] := by simpa using he
    have := hc hb
    unfold bigOf; rw [this]; rfl
  · rfl

theorem consistent_add (a b : Stats) (ha : a.Consistent) (hb : b.Consistent) : (addStats a b).Consistent := by
  intro h
  have h' : bigOf a.blocks ++ bigOf b.blocks = [] := by
    have := h; simp only [addStats] at this
    rw [← bigOf_append]; exact this
  obtain ⟨h1, h2⟩ := List.append_eq_nil_iff.mp h'
  have := ha h1
  have := hb h2
  simp only [addStats, List.filter_append]
  simp [*]

theorem consistent_empty : ({} : Stats).Consistent := by intro _; rfl

theorem chromStats_consistent (f : Flags) (vars : List Var) (s : Stats) (h : chromStats f vars = some s) :
    s.Consistent := by
  obtain ⟨_, hn, _⟩ := chromStats_fields f vars s h
  intro hb
  have hb' : bigOf s.blocks = [] := hb
  unfold nonoverlap at hn
  rw [hb'] at hn
  have : sortBlocks [] = [] := by simp [sortBlocks]
  rw [this] at hn
  simp [nonoverlapLoop] at hn
  rw [hn]; rfl

theorem additive_add (a b : Stats) (ha : a.Consistent) (hb : b.Consistent) :
    (detailed (addStats a b)).additive = addVec (detailed a).additive (detailed b).additive := by
  have hab := consistent_add a b ha hb
  obtain ⟨a1, a2, a3, a4, a5, a6, a7, a8, a9, _⟩ := detailed_fields a
  obtain ⟨b1, b2, b3, b4, b5, b6, b7, b8, b9, _⟩ := detailed_fields b
  obtain ⟨c1, c2, c3, c4, c5, c6, c7, c8, c9, _⟩ := detailed_fields (addStats a b)
  have a10 := consistent_bpSum a ha
  have b10 := consistent_bpSum b hb
  have c10 := consistent_bpSum _ hab
  simp only [Row.additive, addVec, List.zipWith_cons_cons, List.zipWith_nil_right]
  rw [a1, a2, a3, a4, a5, a6, a7, a8, a9, a10, b1, b2, b3, b4, b5, b6, b7, b8, b9, b10,
    c1, c2, c3, c4, c5, c6, c7, c8, c9, c10]
  simp only [addStats, bigOf_append, List.filter_append, List.map_append, List.sum_append, List.length_append]

theorem bigOf_sorted_nonempty (blocks : List Block) :
    QSorted (sortBlocks (bigOf blocks)) ∧ QNonempty (sortBlocks (bigOf blocks)) := by
  refine ⟨sortBlocks_sorted _, ?_⟩
  intro b hb
  have := (sortBlocks_perm _).mem_iff.mp hb
  have := (List.mem_filter.mp this).2
  intro he; rw [he] at this; simp at this

end WhVerif.Lemmas.C12

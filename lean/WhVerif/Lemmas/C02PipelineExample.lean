import WhVerif.Lemmas.C02PipelineMain
import WhVerif.Lemmas.C02Example
/-!
# C02 pipeline: non-vacuity — the 3-read instance of `Lemmas/C02Example.lean` run through all four stages
(columns at 0-based positions 10, 20, 30; unphased `0/1` input records; tag PS and tag HP).
-/
namespace WhVerif.C02P
open WhVerif.C01 WhVerif.C02 WhVerif.C04

def exCall : Call := ⟨some [some 0, some 1], false, []⟩
def exRecords : List Record :=
  [⟨"chr1", 10, "A", ["C"], ["GT"], [("S", exCall)]⟩, ⟨"chr1", 20, "G", ["T"], ["GT"], [("S", exCall)]⟩,
   ⟨"chr1", 30, "T", ["TA"], ["GT"], [("S", exCall)]⟩]

def exStage (tag : Tag) : Stage := ⟨exInst, [10, 20, 30], "S", tag, exRecords⟩

theorem exStage_ok (tag : Tag) : PipelineOk (exStage tag) := by
  refine ⟨by simp [exStage], rfl, ?_, by simp [exStage, exRecords]⟩
  intro r hr
  simp only [exStage, exRecords, List.mem_cons, List.not_mem_nil, or_false] at hr
  rcases hr with rfl | rfl | rfl <;> exact ⟨exCall, rfl, fun k _ => rfl, fun h => by cases h⟩

/-- truth `0|1, 1|0, 0|1`: one phase set named 11 (= 1 + leftmost position 10), with either tag -/
theorem exPipeline (tag : Tag) :
    (pipeline (exStage tag)).map (·.map rowPhase) =
      some [(10, some ⟨some 11, [some 0, some 1]⟩), (20, some ⟨some 11, [some 1, some 0]⟩),
            (30, some ⟨some 11, [some 0, some 1]⟩)] := by
  cases tag <;> decide +kernel

end WhVerif.C02P

import WhVerif.Model.C09
import WhVerif.Lemmas.C04
/-! Helper lemmas for Props/C09: what the decoders return on a call written by the (repaired) writer. -/
set_option linter.unusedSimpArgs false
namespace WhVerif.C09
open WhVerif.C04

/-- a call as pysam presents it: keys outside the record's FORMAT are missing, no phased flag without GT -/
def WfCall (fmt : List String) (c : Call) : Prop :=
  (∀ k, k ∉ fmt → c.get k = .missing) ∧ (c.gt = none → c.phased = false)

/-- the phase statement `write` makes for target `t` at position `pos` (independent of the tag) -/
def written (mav : Bool) (t : Target) (pos : Nat) : Option Phase :=
  match alookup t.comps pos, lookupPhase mav t pos with
  | some comp, some p => if !isHom (sortNat p) then some ⟨some ((comp : Int) + 1), p.map some⟩ else none
  | _, _ => none

/-! ### codec level -/

theorem extractGTPS_setPS (fmt : List String) (c : Call) (comp : Nat) (a b : Nat) (h : a ≠ b) :
    extractGTPS (addKey fmt "PS") (setPS c comp [a, b]) = some ⟨some ((comp : Int) + 1), [some a, some b]⟩ := by
  have hmem : "PS" ∈ addKey fmt "PS" := by
    unfold addKey; split
    · assumption
    · simp
  have hget : (setPS c comp [a, b]).get "PS" = .int ((comp : Int) + 1) := by
    simp [setPS, Call.get, fget_fset_same]
  simp only [extractGTPS, setPS, List.map_cons, List.map_nil, Bool.not_true, Bool.false_eq_true, if_false,
    List.all_cons, List.all_nil, Bool.and_true, hmem, if_true]
  have hne : (some b == some a) = false := by simp; exact fun hh => h hh.symm
  simp only [hne, Bool.false_eq_true, if_false]
  have hget' : Call.get { gt := some [some a, some b], phased := true, fields := fset c.fields "PS" (Val.int (↑comp + 1)) } "PS"
      = .int ((comp : Int) + 1) := by simp [Call.get, fget_fset_same]
  rw [hget']

theorem extractHP_setHP (c : Call) (comp : Nat) (p : List Nat) (hgt : c.gt = some [some 0, some 1])
    (hp : p = [0, 1] ∨ p = [1, 0]) :
    extractHP (setHP c comp p) = .ok (some ⟨some ((comp : Int) + 1), p.map some⟩) := by
  have hget : (setHP c comp p).get "HP" = .hp (p.map fun a => (comp + 1, a + 1)) := by
    simp [setHP]
  have hg : (setHP c comp p).gt = some [some 0, some 1] := by simp [setHP, hgt]
  rcases hp with rfl | rfl
  · simp [extractHP, hget, hg, idxOf1, List.findIdx_cons, List.range, List.range.loop]
  · simp [extractHP, hget, hg, idxOf1, List.findIdx_cons, List.range, List.range.loop]

theorem extractHP_missing (c : Call) (h : c.get "HP" = .missing) : extractHP c = .ok none := by
  simp [extractHP, h]

theorem extractGTPS_unphased (fmt : List String) (c : Call) (h : c.phased = false) : extractGTPS fmt c = none := by
  simp [extractGTPS, h]

/-! ### the (repaired) removal of existing phasing -/

theorem clearPhasing_repaired (cfg : Cfg) (hr : cfg.repaired = true) (fmt : List String) (c : Call) :
    clearPhasing cfg fmt c = clearKey fmt "HP" (clearKey fmt "PS" (unphaseGt c)) := by
  simp [clearPhasing, hr]

theorem cleared_get_HP (cfg : Cfg) (hr : cfg.repaired = true) (fmt : List String) (c : Call) (hwf : WfCall fmt c) :
    (clearPhasing cfg fmt c).get "HP" = .missing := by
  rw [clearPhasing_repaired cfg hr]
  by_cases h : "HP" ∈ fmt
  · exact clearKey_get_same _ _ _ h
  · have h1 : clearKey fmt "HP" (clearKey fmt "PS" (unphaseGt c)) = clearKey fmt "PS" (unphaseGt c) := by
      simp [clearKey, h]
    rw [h1, clearKey_get_other fmt "PS" "HP" _ (by decide)]
    simp only [Call.get, unphaseGt_fields]
    exact hwf.1 _ h

theorem cleared_get_PS (cfg : Cfg) (hr : cfg.repaired = true) (fmt : List String) (c : Call) (hwf : WfCall fmt c) :
    (clearPhasing cfg fmt c).get "PS" = .missing := by
  rw [clearPhasing_repaired cfg hr, clearKey_get_other fmt "HP" "PS" _ (by decide)]
  by_cases h : "PS" ∈ fmt
  · exact clearKey_get_same _ _ _ h
  · simp only [clearKey, h, if_false, Call.get, unphaseGt_fields]
    exact hwf.1 _ h

theorem cleared_phased (cfg : Cfg) (hr : cfg.repaired = true) (fmt : List String) (c : Call) (hwf : WfCall fmt c) :
    (clearPhasing cfg fmt c).phased = false := by
  rw [clearPhasing_repaired cfg hr, clearKey_phased, clearKey_phased]
  cases hg : c.gt with
  | none => simp [unphaseGt, hg, hwf.2 hg]
  | some g => exact unphaseGt_phased c (by simp [hg])

theorem cleared_gt (cfg : Cfg) (hr : cfg.repaired = true) (fmt : List String) (c : Call) :
    (clearPhasing cfg fmt c).gt = (unphaseGt c).gt := by
  rw [clearPhasing_repaired cfg hr, clearKey_gt, clearKey_gt]

/-- after removal a fully called genotype is stored sorted -/
theorem unphaseGt_canonical (c : Call) (h : gcode (unphaseGt c).gt ≠ []) :
    (unphaseGt c).gt = some ((gcode (unphaseGt c).gt).map some) := by
  unfold unphaseGt at h ⊢
  split
  · rename_i hg; simp [hg, gcode] at h
  · rename_i g hg
    split
    · rename_i hall
      simp only [gcode_sortGt hall]
      simp [sortGt, gcode, hall]
    · rename_i hall
      simp [hg, gcode, hall] at h

/-! ### diploid heterozygous phases -/

theorem sortNat_pair (a b : Nat) : sortNat [a, b] = if a ≤ b then [a, b] else [b, a] := by
  simp [sortNat, insertNat]

theorem het_pair {a b : Nat} (h : isHom (sortNat [a, b]) = false) : a ≠ b := by
  rw [sortNat_pair] at h
  intro hab; subst hab
  simp [isHom] at h

theorem pair_of_length_two {p : List Nat} (h : p.length = 2) : ∃ a b, p = [a, b] := by
  match p, h with
  | [a, b], _ => exact ⟨a, b, rfl⟩

theorem het01 {p : List Nat} (hl : p.length = 2) (hal : ∀ a ∈ p, a = 0 ∨ a = 1) (hhet : isHom (sortNat p) = false) :
    (p = [0, 1] ∨ p = [1, 0]) ∧ sortNat p = [0, 1] := by
  obtain ⟨a, b, rfl⟩ := pair_of_length_two hl
  have hab := het_pair hhet
  have ha := hal a (by simp)
  have hb := hal b (by simp)
  rcases ha with rfl | rfl <;> rcases hb with rfl | rfl
  · exact absurd rfl hab
  · exact ⟨Or.inl rfl, by decide⟩
  · exact ⟨Or.inr rfl, by decide⟩
  · exact absurd rfl hab

/-- `is_het` of the per-sample loop only depends on the phase when there is one -/
theorem changeStep_isHet (cfg : Cfg) (t : Target) (r : Record) (c : Call) (p : List Nat)
    (hp : lookupPhase cfg.mav t r.pos = some p) : (changeStep cfg t r c).2.2 = !isHom (sortNat p) := by
  simp only [changeStep, hp]
  split
  · rfl
  · rename_i h; simp only [ne_eq, Decidable.not_not] at h; rw [h]

theorem changeStep_phased (cfg : Cfg) (t : Target) (r : Record) (c : Call) (h : c.phased = false) :
    (changeStep cfg t r c).1.phased = false := by
  unfold changeStep
  split
  · split
    · rfl
    · exact h
  · exact h

/-- with a heterozygous phase, the genotype after the change step is the sorted phase (repaired writer,
    input call already cleaned) -/
theorem changeStep_gt_sorted (cfg : Cfg) (hr : cfg.repaired = true) (t : Target) (r : Record) (c : Call) (p : List Nat)
    (hp : lookupPhase cfg.mav t r.pos = some p)
    (hcanon : gcode c.gt ≠ [] → c.gt = some ((gcode c.gt).map some)) :
    (changeStep cfg t r c).1.gt = some ((sortNat p).map some) := by
  simp only [changeStep, hp]
  split
  · simp [changedGt, hr]
  · rename_i h
    simp only [ne_eq, Decidable.not_not] at h
    have hne : gcode c.gt ≠ [] := by
      rw [← h]; intro h0; exact lookupPhase_ne_nil hp (sortNat_eq_nil h0)
    rw [hcanon hne, h]

theorem updateCall_fst (cfg : Cfg) (t : Target) (r : Record) (c : Call) :
    (updateCall cfg t r c).1 =
      match alookup t.comps r.pos, lookupPhase cfg.mav t r.pos with
      | some comp, some p =>
        if (changeStep cfg t r c).2.2 then setTag cfg.tag (changeStep cfg t r c).1 comp p
        else (changeStep cfg t r c).1.set cfg.tag.key .missing
      | _, _ => (changeStep cfg t r c).1.set cfg.tag.key .missing := by
  unfold updateCall
  generalize changeStep cfg t r c = cs
  obtain ⟨c1, chg, isHet⟩ := cs
  cases h1 : alookup t.comps r.pos <;> cases h2 : lookupPhase cfg.mav t r.pos <;> simp only []
  split <;> rfl


/-- the records produced for a chromosome are `writeRecord` outputs of its input records -/
theorem mem_writeChrom (cfg : Cfg) (rs : List Record) (prev : Option Nat) (o : Out) (h : o ∈ writeChrom cfg prev rs) :
    ∃ prev' r, r ∈ rs ∧ o = writeRecord cfg prev' r := by
  induction rs generalizing prev with
  | nil => simp [writeChrom] at h
  | cons r rest ih =>
    simp only [writeChrom, List.mem_cons] at h
    rcases h with rfl | h
    · exact ⟨prev, r, List.mem_cons_self, rfl⟩
    · obtain ⟨p', r', hr', ho⟩ := ih _ h
      exact ⟨p', r', List.mem_cons_of_mem _ hr', ho⟩


theorem range_two : List.range 2 = [0, 1] := by decide

theorem mem_blocksAsReads {rows : List VarPhase} {b : Option Int} {i : Nat} {rd : List (Nat × Option Nat)} :
    (b, i, rd) ∈ blocksAsReads 2 rows ↔
      b ∈ blockKeys (rows.filter (eligible 2)) ∧ (i = 0 ∨ i = 1) ∧
      rd = pseudoRead (rows.filter (eligible 2)) b i ∧ rd.length > 1 := by
  simp only [blocksAsReads, range_two, List.mem_flatMap, List.mem_filterMap, List.mem_cons, List.not_mem_nil, or_false]
  constructor
  · rintro ⟨b', hb', i', hi', h⟩
    split at h
    · rename_i hlen
      simp only [Option.some.injEq, Prod.mk.injEq] at h
      obtain ⟨rfl, rfl, rfl⟩ := h
      exact ⟨hb', hi', rfl, hlen⟩
    · cases h
  · rintro ⟨hb, hi, rfl, hlen⟩
    exact ⟨b, hb, i, hi, by simp [hlen]⟩


theorem changeStep_gcode (cfg : Cfg) (t : Target) (r : Record) (c : Call) (p : List Nat)
    (hp : lookupPhase cfg.mav t r.pos = some p) : gcode (changeStep cfg t r c).1.gt = sortNat p := by
  simp only [changeStep, hp]
  split
  · exact gcode_changedGt cfg p
  · rename_i h; simp only [ne_eq, Decidable.not_not] at h; exact h.symm

/-- the call of a target sample after `write` (repaired writer): either it carries no phase information at all,
    or the record was processed, the position is phased and heterozygous in this run, and the call's genotype
    has exactly the alleles of the written phase -/
theorem finalCall_summary (cfg : Cfg) (hr : cfg.repaired = true) (prev : Option Nat) (r : Record)
    (n : String) (t : Target) (hft : findTarget cfg n = some t) (c : Call) (hwf : WfCall r.format c) :
    ((finalCall cfg prev r n c).phased = false ∧ (finalCall cfg prev r n c).get "PS" = .missing ∧
      (finalCall cfg prev r n c).get "HP" = .missing) ∨
    (reaches cfg prev r = true ∧ ∃ comp p, alookup t.comps r.pos = some comp ∧ lookupPhase cfg.mav t r.pos = some p ∧
      isHom (sortNat p) = false ∧ gcode (finalCall cfg prev r n c).gt = sortNat p) := by
  have hHP0 := cleared_get_HP cfg hr r.format c hwf
  have hPS0 := cleared_get_PS cfg hr r.format c hwf
  have hph0 := cleared_phased cfg hr r.format c hwf
  have hfin : finalCall cfg prev r n c =
      if reaches cfg prev r then (updateCall cfg t r (clearPhasing cfg r.format c)).1 else clearPhasing cfg r.format c := by
    simp only [finalCall, hft]
  rw [hfin]
  generalize clearPhasing cfg r.format c = c0 at hHP0 hPS0 hph0
  by_cases hreach : reaches cfg prev r = true
  · simp only [hreach, if_true]
    have hf1 := changeStep_fields cfg t r c0
    have hp1 := changeStep_phased cfg t r c0 hph0
    have hHP1 : (changeStep cfg t r c0).1.get "HP" = .missing := by simpa [Call.get, hf1] using hHP0
    have hPS1 : (changeStep cfg t r c0).1.get "PS" = .missing := by simpa [Call.get, hf1] using hPS0
    have hun : (((changeStep cfg t r c0).1.set cfg.tag.key .missing).phased = false ∧
        ((changeStep cfg t r c0).1.set cfg.tag.key .missing).get "PS" = .missing ∧
        ((changeStep cfg t r c0).1.set cfg.tag.key .missing).get "HP" = .missing) := by
      refine ⟨by simpa using hp1, ?_, ?_⟩
      · cases htag : cfg.tag
        · exact Call.get_set_same _ _ _
        · rw [Call.get_set_other _ _ _ _ (by decide)]; exact hPS1
      · cases htag : cfg.tag
        · rw [Call.get_set_other _ _ _ _ (by decide)]; exact hHP1
        · exact Call.get_set_same _ _ _
    rw [updateCall_fst]
    cases hcomp : alookup t.comps r.pos with
    | none => exact Or.inl hun
    | some comp =>
      cases hp : lookupPhase cfg.mav t r.pos with
      | none => exact Or.inl hun
      | some p =>
        simp only [changeStep_isHet cfg t r c0 p hp]
        cases hh : isHom (sortNat p) with
        | true => simp only [Bool.not_true, Bool.false_eq_true, if_false]; exact Or.inl hun
        | false =>
          simp only [Bool.not_false, if_true]
          refine Or.inr ⟨trivial, comp, p, rfl, rfl, hh, ?_⟩
          cases htag : cfg.tag
          · simp [setTag, setPS]
          · simp only [setTag, setHP, Call.set_gt]; exact changeStep_gcode cfg t r c0 p hp
  · simp only [hreach, Bool.false_eq_true, if_false]
    exact Or.inl ⟨hph0, hPS0, hHP0⟩

/-- the proof of `Props.C09.decode_written` (kept here so that lemma files can use it) -/
theorem decode_written_lemma (cfg : Cfg) (hr : cfg.repaired = true) (hm : cfg.mav = false) (prev : Option Nat) (r : Record)
    (n : String) (t : Target) (hft : findTarget cfg n = some t) (c : Call) (hwf : WfCall r.format c) :
    callPhases (writeRecord cfg prev r).record.format (finalCall cfg prev r n c) =
      .ok (if reaches cfg prev r && cfg.tag == .HP then written false t r.pos else none,
           if reaches cfg prev r && cfg.tag == .PS then written false t r.pos else none) := by
  have hHP0 := cleared_get_HP cfg hr r.format c hwf
  have hph0 := cleared_phased cfg hr r.format c hwf
  have hcanon : gcode (clearPhasing cfg r.format c).gt ≠ [] →
      (clearPhasing cfg r.format c).gt = some ((gcode (clearPhasing cfg r.format c).gt).map some) := by
    rw [cleared_gt cfg hr]; exact unphaseGt_canonical c
  have hfin : finalCall cfg prev r n c =
      if reaches cfg prev r then (updateCall cfg t r (clearPhasing cfg r.format c)).1 else clearPhasing cfg r.format c := by
    simp only [finalCall, hft]
  rw [hfin, writeRecord_format]
  generalize clearPhasing cfg r.format c = c0 at hHP0 hph0 hcanon
  by_cases hreach : reaches cfg prev r = true
  · simp only [hreach, if_true, Bool.true_and]
    -- facts about the call after the change step
    have hf1 := changeStep_fields cfg t r c0
    have hp1 := changeStep_phased cfg t r c0 hph0
    have hHP1 : (changeStep cfg t r c0).1.get "HP" = .missing := by simpa [Call.get, hf1] using hHP0
    rw [updateCall_fst]
    -- the unphased outcome, common to several branches
    have hun : callPhases (addKey r.format cfg.tag.key) ((changeStep cfg t r c0).1.set cfg.tag.key .missing) = .ok (none, none) := by
      have h1 : ((changeStep cfg t r c0).1.set cfg.tag.key .missing).get "HP" = .missing := by
        cases htag : cfg.tag
        · rw [Call.get_set_other _ _ _ _ (by decide)]; exact hHP1
        · exact Call.get_set_same _ _ _
      have h2 : extractGTPS (addKey r.format cfg.tag.key) ((changeStep cfg t r c0).1.set cfg.tag.key .missing) = none :=
        extractGTPS_unphased _ _ (by simpa using hp1)
      simp [callPhases, extractHP_missing _ h1, h2]
    cases hcomp : alookup t.comps r.pos with
    | none =>
      simp only [written, hcomp]
      rw [hun]; cases cfg.tag <;> simp
    | some comp =>
      cases hp : lookupPhase cfg.mav t r.pos with
      | none =>
        have hp' : lookupPhase false t r.pos = none := by rw [← hm]; exact hp
        simp only [written, hcomp, hp']
        rw [hun]; cases cfg.tag <;> simp
      | some p =>
        have hp' : lookupPhase false t r.pos = some p := by rw [← hm]; exact hp
        have hhet := changeStep_isHet cfg t r c0 p hp
        simp only [written, hcomp, hp', hhet]
        cases hh : isHom (sortNat p) with
        | true =>
          simp only [Bool.not_true, Bool.false_eq_true, if_false]
          rw [hun]; cases cfg.tag <;> simp
        | false =>
          simp only [Bool.not_false, if_true]
          have hl := lookupPhase_length hp
          obtain ⟨h01, hs01⟩ := het01 hl (lookupPhase_alleles hp') hh
          have hgt1 := changeStep_gt_sorted cfg hr t r c0 p hp hcanon
          rw [hs01] at hgt1
          cases htag : cfg.tag with
          | PS =>
            obtain ⟨a, b, rfl⟩ := pair_of_length_two hl
            have hab := het_pair hh
            have hHPs : (setPS (changeStep cfg t r c0).1 comp [a, b]).get "HP" = .missing := by
              simp only [setPS, Call.get]
              rw [fget_fset_other _ _ _ _ (by decide)]
              exact hHP1
            simp [callPhases, setTag, Tag.key, extractHP_missing _ hHPs, extractGTPS_setPS _ _ _ _ _ hab]
          | HP =>
            have hph : (setHP (changeStep cfg t r c0).1 comp p).phased = false := by simpa [setHP] using hp1
            simp [callPhases, setTag, Tag.key, extractHP_setHP _ comp p hgt1 h01, extractGTPS_unphased _ _ hph]
  · simp only [hreach, Bool.false_eq_true, if_false, Bool.false_and]
    simp [callPhases, extractHP_missing _ hHP0, extractGTPS_unphased _ _ hph0]

end WhVerif.C09

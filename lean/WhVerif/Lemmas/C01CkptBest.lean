import WhVerif.Model.C01Ckpt
import WhVerif.Lemmas.C01WitnessPath
/-!
# C01, stored backtrace tables: "overwrite only if strictly smaller" keeps the FIRST minimum.

`strictMin l f g` (the running strict minimum of the code) is `argminOver l f` (the first element attaining
`minOver l f`) with its value and payload; bucketed version for the forward projection column. Core Lean only.
-/
set_option linter.unusedSimpArgs false
set_option linter.unusedVariables false
namespace WhVerif.C01
open WhVerif.Cost

/-! ### left-biased minimum -/

/-- left-biased minimum of two optional `(value, payload)` pairs -/
def lbMin {β} (a b : Option (Nat × β)) : Option (Nat × β) :=
  match b with
  | none => a
  | some (x, p) => updBest a (some x) p

theorem updBest_eq {β} (old : Option (Nat × β)) (v : Option Nat) (p : β) :
    updBest old v p = lbMin old (v.map (fun x => (x, p))) := by
  cases v <;> rfl

@[simp] theorem lbMin_none_left {β} (b : Option (Nat × β)) : lbMin none b = b := by
  rcases b with _ | ⟨x, p⟩ <;> rfl

@[simp] theorem lbMin_none_right {β} (a : Option (Nat × β)) : lbMin a none = a := rfl

theorem lbMin_some_some {β} (x y : Nat) (p q : β) :
    lbMin (some (x, p)) (some (y, q)) = if y < x then some (y, q) else some (x, p) := rfl

theorem lbMin_assoc {β} (a b c : Option (Nat × β)) : lbMin (lbMin a b) c = lbMin a (lbMin b c) := by
  rcases a with _ | ⟨x, p⟩
  · simp
  rcases b with _ | ⟨y, q⟩
  · simp
  rcases c with _ | ⟨z, r⟩
  · simp
  by_cases h1 : y < x <;> by_cases h2 : z < y <;> by_cases h3 : z < x <;>
    simp [lbMin_some_some, h1, h2, h3] <;> omega

theorem foldl_updBest {α β} (l : List α) (f : α → Option Nat) (g : α → β) (acc : Option (Nat × β)) :
    l.foldl (fun acc a => updBest acc (f a) (g a)) acc = lbMin acc (strictMin l f g) := by
  induction l generalizing acc with
  | nil => rfl
  | cons a l ih =>
    unfold strictMin
    simp only [List.foldl_cons]
    rw [ih, ih (updBest none (f a) (g a)), updBest_eq, updBest_eq, lbMin_none_left, lbMin_assoc]

theorem strictMin_nil {α β} (f : α → Option Nat) (g : α → β) : strictMin [] f g = none := rfl

theorem strictMin_cons {α β} (a : α) (l : List α) (f : α → Option Nat) (g : α → β) :
    strictMin (a :: l) f g = lbMin ((f a).map (fun x => (x, g a))) (strictMin l f g) := by
  unfold strictMin
  simp only [List.foldl_cons]
  rw [foldl_updBest, updBest_eq, lbMin_none_left]
  rfl

theorem strictMin_map {α γ β} (l : List γ) (h : γ → α) (f : α → Option Nat) (g : α → β) :
    strictMin (l.map h) f g = strictMin l (fun x => f (h x)) (fun x => g (h x)) := by
  unfold strictMin
  rw [List.foldl_map]

/-! ### `argminOver`, recursively -/

theorem argminOver_nil {α} (f : α → Option Nat) : argminOver [] f = none := rfl

theorem argminOver_cons {α} (a : α) (l : List α) (f : α → Option Nat) :
    argminOver (a :: l) f =
      match f a with
      | none => argminOver l f
      | some x =>
        match minOver l f with
        | none => some a
        | some y => if x ≤ y then some a else argminOver l f := by
  unfold argminOver
  simp only [List.map_cons, minOver_cons, List.find?_cons, minOver_map]
  cases hfa : f a with
  | none =>
    simp only [cmin_none_left]
    cases hm : minOver l f with
    | none => simp
    | some y => simp
  | some x =>
    cases hm : minOver l f with
    | none => simp [cmin]
    | some y =>
      by_cases hxy : x ≤ y
      · have : min x y = x := Nat.min_eq_left hxy
        simp [cmin, hxy, this]
      · have : min x y = y := Nat.min_eq_right (by omega)
        have hne : (x == y) = false := by simp; omega
        simp [cmin, hxy, this, hne, Option.map_map]

/-- the value of the first minimum is the minimum -/
theorem argminOver_bind_val {α} (l : List α) (f : α → Option Nat) : (argminOver l f).bind f = minOver l f := by
  cases h : argminOver l f with
  | none => simp [(argminOver_none l f).mp h]
  | some a => simp [(argminOver_some l f a h).2.1]

/-- **strict-minimum fold = first minimum** -/
theorem strictMin_eq_argmin {α β} (l : List α) (f : α → Option Nat) (g : α → β) :
    strictMin l f g = (argminOver l f).bind (fun a => (f a).map (fun x => (x, g a))) := by
  induction l with
  | nil => rfl
  | cons a l ih =>
    rw [strictMin_cons, argminOver_cons, ih]
    cases hfa : f a with
    | none => simp
    | some x =>
      cases hm : minOver l f with
      | none =>
        have := (argminOver_none l f).mpr hm
        simp [this, hfa]
      | some y =>
        cases ha : argminOver l f with
        | none => rw [(argminOver_none l f).mp ha] at hm; cases hm
        | some b =>
          have hb := (argminOver_some l f b ha).2.1
          rw [hm] at hb
          by_cases hxy : x ≤ y
          · have : ¬ y < x := by omega
            simp [hxy, hfa, hb, lbMin, updBest, this]
          · have : y < x := by omega
            simp [hxy, ha, hb, lbMin, updBest, this]

theorem strictMin_none_iff {α β} (l : List α) (f : α → Option Nat) (g : α → β) :
    strictMin l f g = none ↔ minOver l f = none := by
  rw [strictMin_eq_argmin]
  cases h : argminOver l f with
  | none => simp [(argminOver_none l f).mp h]
  | some a =>
    obtain ⟨_, hv, hne⟩ := argminOver_some l f a h
    cases hfa : f a with
    | none => rw [hfa] at hv; exact absurd hv.symm hne
    | some x => rw [hfa] at hv; simp [hfa, ← hv]

theorem strictMin_some {α β} (l : List α) (f : α → Option Nat) (g : α → β) (x : Nat) (p : β)
    (h : strictMin l f g = some (x, p)) : ∃ a, argminOver l f = some a ∧ f a = some x ∧ g a = p := by
  rw [strictMin_eq_argmin] at h
  cases ha : argminOver l f with
  | none => rw [ha] at h; cases h
  | some a =>
    rw [ha] at h
    simp only [Option.bind_some, Option.map_eq_some_iff, Prod.mk.injEq] at h
    obtain ⟨x', hx', rfl, rfl⟩ := h
    exact ⟨a, rfl, hx', rfl⟩

/-- the value component of the strict-minimum fold is the minimum -/
theorem strictMin_val {α β} (l : List α) (f : α → Option Nat) (g : α → β) :
    (strictMin l f g).map (·.1) = minOver l f := by
  rw [strictMin_eq_argmin, ← argminOver_bind_val]
  cases argminOver l f with
  | none => rfl
  | some a => cases h : f a <;> simp [h]

/-! ### bucketed version (the forward projection column with its backtrace tables) -/

theorem foldl_modifyBest_size {α β} (items : List α) (key : α → Nat) (f : α → Option Nat) (g : α → β)
    (arr : Array (Option (Nat × β))) :
    (items.foldl (fun arr a => arr.modify (key a) (fun old => updBest old (f a) (g a))) arr).size = arr.size := by
  induction items generalizing arr with
  | nil => rfl
  | cons a l ih => simp [ih]

theorem foldl_bucketBest {α β} (items : List α) (key : α → Nat) (f : α → Option Nat) (g : α → β)
    (arr : Array (Option (Nat × β))) (k : Nat) (hk : k < arr.size) :
    (items.foldl (fun arr a => arr.modify (key a) (fun old => updBest old (f a) (g a))) arr).getD k none
      = lbMin (arr.getD k none) (strictMin (items.filter (fun a => key a == k)) f g) := by
  induction items generalizing arr with
  | nil => simp [strictMin_nil]
  | cons a l ih =>
    simp only [List.foldl_cons]
    rw [ih _ (by simpa using hk)]
    by_cases hka : key a = k
    · subst hka
      simp only [List.filter_cons, beq_self_eq_true, if_true, strictMin_cons, ← lbMin_assoc, ← updBest_eq]
      congr 1
      simp [Array.getD_eq_getD_getElem?, hk, Array.getElem_modify_self]
    · have : (key a == k) = false := by simpa using hka
      simp [this, Array.getD_eq_getD_getElem?, Array.getElem?_modify, hka]

/-! ### the cells of one forward projection entry, in visiting order -/

theorem filter_range_eq (m j : Nat) (hj : j < m) : (List.range m).filter (fun t => t == j) = [j] := by
  induction m with
  | zero => omega
  | succ m ih =>
    rw [List.range_succ, List.filter_append]
    by_cases h : j < m
    · have : (m == j) = false := by simp; omega
      simp [ih h, this]
    · have hjm : j = m := by omega
      subst hjm
      have : (List.range j).filter (fun t => t == j) = [] := by
        simp only [List.filter_eq_nil_iff, List.mem_range, beq_iff_eq]
        intro a ha; omega
      simp [this]

theorem cells_filter (ord : Ord) (k m : Nat) (fp : Nat → Nat) (bp j : Nat) (hj : j < m) :
    (cellsOf ord k m).filter (fun it => fp it.1 * m + it.2 == bp * m + j)
      = ((ord k).filter (fun i => fp i == bp)).map (fun i => (i, j)) := by
  unfold cellsOf
  rw [List.filter_flatMap]
  induction ord k with
  | nil => rfl
  | cons i l ih =>
    simp only [List.flatMap_cons, ih, List.filter_cons]
    by_cases hi : fp i = bp
    · subst hi
      have : ((List.range m).map (fun t => (i, t))).filter (fun it => fp it.1 * m + it.2 == fp i * m + j)
          = [(i, j)] := by
        rw [List.filter_map]
        have : ((fun it : Nat × Nat => fp it.1 * m + it.2 == fp i * m + j) ∘ fun t => (i, t))
            = fun t => t == j := by
          funext t
          simp only [Function.comp]
          by_cases htj : t = j
          · subst htj; simp
          · have h2 : fp i * m + t ≠ fp i * m + j := by omega
            rw [beq_eq_false_iff_ne.mpr h2, beq_eq_false_iff_ne.mpr htj]
        rw [this, filter_range_eq m j hj]
        rfl
      simp [this]
    · have : ((List.range m).map (fun t => (i, t))).filter (fun it => fp it.1 * m + it.2 == bp * m + j) = [] := by
        simp only [List.filter_eq_nil_iff, List.mem_map, List.mem_range, beq_iff_eq]
        rintro ⟨i', t⟩ ⟨t', ht', h⟩
        simp only [Prod.mk.injEq] at h
        obtain ⟨rfl, rfl⟩ := h
        intro hkey
        exact hi (enc_inj m _ _ _ _ ht' hj hkey).1
      have hne : (fp i == bp) = false := by simpa using hi
      simp [this, hne]

/-! ### entries of `computeColumn` -/

/-- indices of column `c` whose forward projection is `bp`, in visiting order -/
def candsO (I : Inst) (ord : Ord) (c bp : Nat) : List Nat :=
  (ord (I.activeAt c).length).filter (fun i => natOfBits (fwdBits I c (bitsOf (I.activeAt c).length i)) == bp)

theorem computeColumn_size (I : Inst) (ord : Ord) (c : Nat) (prev : Array (Option Nat)) :
    (computeColumn I ord c prev).size = 2 ^ (I.sharedAt c).length * I.ntrans := by
  unfold computeColumn
  rw [foldl_modifyBest_size]
  simp

/-- **an entry of the stored column**: value, index backtrace and transmission backtrace of entry `(bp, j)` are
those of the FIRST index (in visiting order) with forward projection `bp` attaining the minimum -/
theorem computeColumn_entry (I : Inst) (ord : Ord) (c : Nat) (prev : Array (Option Nat)) (bp j : Nat)
    (hbp : bp < 2 ^ (I.sharedAt c).length) (hj : j < I.ntrans) :
    (computeColumn I ord c prev).getD (bp * I.ntrans + j) none
      = (argminOver (candsO I ord c bp) (fun i => dpCell I c prev i j)).bind (fun i =>
          (dpCell I c prev i j).map (fun x => (x, i, minRecomb I c prev i j))) := by
  unfold computeColumn
  rw [foldl_bucketBest _ _ _ _ _ _ (by simpa using enc_lt _ _ _ _ hbp hj)]
  have h0 : (Array.replicate (2 ^ (I.sharedAt c).length * I.ntrans) (none : Ent)).getD (bp * I.ntrans + j) none
      = none := by
    have := enc_lt _ _ _ _ hbp hj
    simp [Array.getD_eq_getD_getElem?, this]
  rw [h0, lbMin_none_left]
  have := cells_filter ord (I.activeAt c).length I.ntrans
    (fun i => natOfBits (fwdBits I c (bitsOf (I.activeAt c).length i))) bp j hj
  unfold fwdKey
  rw [this, strictMin_map, strictMin_eq_argmin]
  rfl

theorem projOf_getD (tab : Array Ent) (k : Nat) : (projOf tab).getD k none = (tab.getD k none).map (·.1) := by
  unfold projOf
  simp only [Array.getD_eq_getD_getElem?, Array.getElem?_map]
  cases tab[k]? <;> rfl

theorem projOf_size (tab : Array Ent) : (projOf tab).size = tab.size := by simp [projOf]

/-- the projection value of an entry is the minimum over the cells with that forward projection -/
theorem projOf_computeColumn_entry (I : Inst) (ord : Ord) (c : Nat) (prev : Array (Option Nat)) (bp j : Nat)
    (hbp : bp < 2 ^ (I.sharedAt c).length) (hj : j < I.ntrans) :
    (projOf (computeColumn I ord c prev)).getD (bp * I.ntrans + j) none
      = minOver (candsO I ord c bp) (fun i => dpCell I c prev i j) := by
  rw [projOf_getD, computeColumn_entry I ord c prev bp j hbp hj, ← argminOver_bind_val]
  cases argminOver (candsO I ord c bp) (fun i => dpCell I c prev i j) with
  | none => rfl
  | some i => cases h : dpCell I c prev i j <;> simp [h]

end WhVerif.C01

import WhVerif.Lemmas.C03Write
/-!
# C03 pipeline, part 3: `ReadList.write` (`--output-read-list`)

One row per read of the merged read set, in its order; the phase-set column is `components[read[0].position] + 1`.
-/
namespace WhVerif.C03.Pipe
open WhVerif.C03 WhVerif.C03.L

/-- what `readListRow` returns when it does not raise -/
theorem readListRow_spec {ms : List Member} {sc : List (String × List (Nat × Nat))} {r : SelRead} {h : Nat}
    {row : ReadListRow} (hrow : readListRow ms sc r h = .ok row) :
    ∃ s comps p rest c, memberName ms r.sample = some s ∧ sc.lookup s = some comps ∧ r.positions = p :: rest ∧
      compOf comps p = some c ∧
      row = ⟨r.name, r.sourceId, s, c + 1, h, r.vars.length, p + 1, (rest.getLast?.getD p) + 1⟩ := by
  unfold readListRow at hrow
  split at hrow
  · cases hrow
  · rename_i s hs
    split at hrow
    · cases hrow
    · rename_i comps hcomps
      split at hrow
      · cases hrow
      · rename_i p rest hp
        split at hrow
        · cases hrow
        · rename_i c hc
          simp only [Except.ok.injEq] at hrow
          exact ⟨s, comps, p, rest, c, hs, hcomps, hp, hc, hrow.symm⟩

/-- one row per read, in order; every row is the row of its read -/
theorem readListRows_spec {ms : List Member} {sc : List (String × List (Nat × Nat))} :
    ∀ (reads : List SelRead) (haps : List Nat) (rows : List ReadListRow), reads.length = haps.length →
      readListRows ms sc reads haps = .ok rows →
      rows.map (·.name) = reads.map (·.name) ∧
      ∀ row ∈ rows, ∃ r ∈ reads, ∃ h, readListRow ms sc r h = .ok row
  | [], _, rows, _, h => by simp only [readListRows, Except.ok.injEq] at h; subst h; simp
  | _ :: _, [], _, hl, _ => by simp at hl
  | r :: rs, h :: hs, rows, hl, hrows => by
    simp only [readListRows] at hrows
    split at hrows
    · cases hrows
    · rename_i row hrow
      split at hrows
      · cases hrows
      · rename_i rest hrest
        simp only [Except.ok.injEq] at hrows
        subst hrows
        obtain ⟨ih1, ih2⟩ := readListRows_spec rs hs rest (by simpa using hl) hrest
        obtain ⟨s, comps, p, rst, c, _, _, _, _, hre⟩ := readListRow_spec hrow
        refine ⟨by simp [ih1, hre], fun x hx => ?_⟩
        rcases List.mem_cons.mp hx with rfl | hx
        · exact ⟨r, by simp, h, hrow⟩
        · obtain ⟨r', hr', h', hrow'⟩ := ih2 x hx
          exact ⟨r', List.mem_cons_of_mem _ hr', h', hrow'⟩

theorem readList_spec {ms : List Member} {sc : List (String × List (Nat × Nat))} {reads : List SelRead}
    {bip : List Nat} {rows : List ReadListRow} (h : readList ms sc reads bip = .ok rows) :
    reads.length = bip.length ∧ rows.map (·.name) = reads.map (·.name) ∧
      ∀ row ∈ rows, ∃ r ∈ reads, ∃ hap, readListRow ms sc r hap = .ok row := by
  unfold readList at h
  split at h
  · cases h
  · rename_i hl
    have hl' : reads.length = bip.length := by simpa using hl
    exact ⟨hl', readListRows_spec reads bip rows hl' h⟩

theorem lookup_member_comps (x : List (Nat × Nat)) : ∀ (ms : List Member) (s : String),
    (∃ m ∈ ms, m.name = s) → (ms.map fun m => (m.name, x)).lookup s = some x
  | [], _, h => by obtain ⟨m, hm, _⟩ := h; cases hm
  | a :: rest, s, h => by
    simp only [List.map_cons, List.lookup_cons]
    by_cases hs : s = a.name
    · simp [hs]
    · have hb : (s == a.name) = false := by simpa using hs
      rw [hb]
      obtain ⟨m, hm, he⟩ := h
      rcases List.mem_cons.mp hm with rfl | hm'
      · exact absurd he.symm hs
      · exact lookup_member_comps x rest s ⟨m, hm', he⟩

theorem lookup_member_comps_eq (x : List (Nat × Nat)) (ms : List Member) (s : String) (comps : List (Nat × Nat))
    (h : (ms.map fun m => (m.name, x)).lookup s = some comps) : comps = x := by
  induction ms with
  | nil => cases h
  | cons a rest ih =>
    simp only [List.map_cons, List.lookup_cons] at h
    split at h
    · cases h; rfl
    · exact ih h

theorem memberName_mem {ms : List Member} {id : Nat} {s : String} (h : memberName ms id = some s) :
    ∃ m ∈ ms, m.name = s ∧ m.id = id := by
  unfold memberName at h
  cases hf : ms.find? (fun m => m.id == id) with
  | none => simp [hf] at h
  | some m =>
    simp only [hf, Option.map_some, Option.some.injEq] at h
    exact ⟨m, List.mem_of_find?_eq_some hf, h, by simpa using List.find?_some hf⟩

theorem memberName_isSome {ms : List Member} {id : Nat} (h : ∃ m ∈ ms, m.id = id) : ∃ s, memberName ms id = some s := by
  unfold memberName
  obtain ⟨m, hm, hid⟩ := h
  have : (ms.find? (fun m => m.id == id)).isSome := by
    rw [List.find?_isSome]; exact ⟨m, hm, by simp [hid]⟩
  obtain ⟨x, hx⟩ := Option.isSome_iff_exists.mp this
  exact ⟨x.name, by simp [hx]⟩

/-- totality of the read list in the pipeline: equal lengths, every read belongs to a member and has a variant -/
theorem readListRows_ok {ms : List Member} {comps : List (Nat × Nat)} :
    ∀ (reads : List SelRead) (haps : List Nat), reads.length = haps.length →
      (∀ r ∈ reads, (∃ m ∈ ms, m.id = r.sample) ∧ ∃ p rest, r.positions = p :: rest ∧ (compOf comps p).isSome = true) →
      ∃ rows, readListRows ms (ms.map fun m => (m.name, comps)) reads haps = .ok rows
  | [], _, _, _ => ⟨[], rfl⟩
  | _ :: _, [], hl, _ => by simp at hl
  | r :: rs, h :: hs, hl, hr => by
    obtain ⟨hown, p, rest, hp, hc⟩ := hr r (by simp)
    obtain ⟨s, hs'⟩ := memberName_isSome hown
    obtain ⟨m, hm, hname, _⟩ := memberName_mem hs'
    obtain ⟨c, hc'⟩ := Option.isSome_iff_exists.mp hc
    obtain ⟨rows, hrows⟩ := readListRows_ok rs hs (by simpa using hl) (fun x hx => hr x (List.mem_cons_of_mem _ hx))
    have hrow : readListRow ms (ms.map fun m => (m.name, comps)) r h =
        .ok ⟨r.name, r.sourceId, s, c + 1, h, r.vars.length, p + 1, (rest.getLast?.getD p) + 1⟩ := by
      simp only [readListRow, hs', lookup_member_comps comps ms s ⟨m, hm, hname⟩, hp, hc']
    exact ⟨⟨r.name, r.sourceId, s, c + 1, h, r.vars.length, p + 1, (rest.getLast?.getD p) + 1⟩ :: rows,
      by simp only [readListRows, hrow, hrows]⟩

end WhVerif.C03.Pipe

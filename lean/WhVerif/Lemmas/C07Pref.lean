import WhVerif.Lemmas.C07Max
/-!
# C07: preferred reads come first

`readselection_helper` never removes a read from `selected_reads`; hence what the first phase (preferred reads only,
fresh coverage monitor) selected is still selected at the end, and a preferred read rejected in that phase was blocked by
`k` selected PREFERRED reads.
-/
namespace WhVerif.C07

theorem bridgeStep_selected_mono (reads : List Read) (P : List Nat) (k : Nat) (b : BridgeSt) (e : Entry) :
    ∀ i ∈ b.selected, i ∈ (bridgeStep reads P k b e).selected := by
  intro i hi
  unfold bridgeStep
  simp only
  split
  · exact hi
  · split
    · exact hi
    · exact mem_insertNew.mpr (Or.inr hi)

theorem bridgeLoop_selected_mono (reads : List Read) (P : List Nat) (k : Nat) (S : List Nat) (n : Nat) (b : BridgeSt)
    (h : ∀ i ∈ S, i ∈ b.selected) : ∀ i ∈ S, i ∈ (bridgeLoop reads P k n b).selected := by
  apply bridgeLoop_induct reads P k (fun b => ∀ i ∈ S, i ∈ b.selected) _ n b h
  intro st c ci e pq' _ hinv i hi
  exact bridgeStep_selected_mono reads P k _ e i (hinv i hi)

theorem helperIter_selected_mono (reads : List Read) (P : List Nat) (k : Nat) (br : Bool) (S : List Nat) (st : HSt)
    (h : ∀ i ∈ S, i ∈ st.selected) : ∀ i ∈ S, i ∈ (helperIter reads P k br st).selected := by
  intro i hi
  unfold helperIter
  simp only
  have h0 : ∀ s : SliceSt, i ∈ (bridgeInit reads P st s).selected := by
    intro s
    unfold bridgeInit
    exact mem_union.mpr (Or.inr (h i hi))
  split
  · exact bridgeLoop_selected_mono reads P k [i] _ _ (by intro j hj; simp at hj; subst hj; exact h0 _) i (by simp)
  · exact h0 _

theorem helper_selected_mono (reads : List Read) (P : List Nat) (k : Nat) (br : Bool) (st : HSt) :
    ∀ i ∈ st.selected, i ∈ (helper reads P k br st).selected := by
  unfold helper
  exact helperLoop_induct reads P k br (fun s => ∀ i ∈ st.selected, i ∈ s.selected)
    (fun s _ hs => helperIter_selected_mono reads P k br st.selected s hs) _ st (fun i hi => hi)

/-- the state after the preferred phase of the repaired `readselection` -/
theorem phase1_max (reads : List Read) (k : Nat) (br : Bool) (choices : List Nat) :
    HMax reads (positions reads) k (preferredIdx reads) (phases true reads k br choices).1 := by
  unfold phases
  simp only
  split
  · rename_i he
    have : preferredIdx reads = [] := by simpa using he
    rw [this]
    exact { exact := by simp [Cov.at, countSel], disj := by simp, nodup := List.nodup_nil,
            undU := by simp, selU := by simp, dec := by simp }
  · apply helper_max
    exact { exact := by simp [Cov.at, countSel], disj := by simp,
            nodup := List.Nodup.sublist List.filter_sublist List.nodup_range,
            undU := fun i hi => hi, selU := by simp, dec := fun i hi => Or.inl hi }

theorem phase1_sub_final (reads : List Read) (k : Nat) (br : Bool) (choices : List Nat) :
    ∀ i ∈ (phases true reads k br choices).1.selected, i ∈ (phases true reads k br choices).2.selected := by
  unfold phases
  simp only
  intro i hi
  exact helper_selected_mono reads (positions reads) k br _ i hi

theorem mem_preferredIdx_iff {reads : List Read} {i : Nat} :
    i ∈ preferredIdx reads ↔ i < reads.length ∧ (getRead reads i).pref = true := by
  unfold preferredIdx
  simp [List.mem_filter]

end WhVerif.C07

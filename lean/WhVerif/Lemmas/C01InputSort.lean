import WhVerif.Lemmas.C01Input
import WhVerif.Lemmas.C16
/-! `ReadSet::sort()` (model: `C16.sortReads`, comparator `read_comparator_t`) establishes what the
`ColumnIterator` constructor checks first: reads in non-decreasing order of first position. Core Lean only. -/
namespace WhVerif.C01
open WhVerif.C16

/-- the "reads in ReadSet are not sorted" exception cannot be raised on reads in non-decreasing order of first
position -/
theorem convReads_not_unsorted (positions : List Nat) : ∀ (raws : List RawRead) (pos : Nat),
    (∀ r ∈ raws, pos ≤ r.firstPos) → raws.Pairwise (fun a b => a.firstPos ≤ b.firstPos) →
    convReads positions pos raws ≠ .error .readsUnsorted := by
  intro raws
  induction raws with
  | nil => intro pos _ _ h; simp [convReads] at h
  | cons r rs ih =>
    intro pos hpos hpw h
    obtain ⟨i, l⟩ := r
    cases l with
    | nil => simp [convReads] at h
    | cons v vs =>
      have h0 := hpos ⟨i, v :: vs⟩ (by simp)
      rw [firstPos_cons] at h0
      have hrec := ih v.1 (fun r hr => by
        have := (List.pairwise_cons.mp hpw).1 r hr
        rwa [firstPos_cons] at this) (List.pairwise_cons.mp hpw).2
      simp only [convReads] at h
      split at h
      · omega
      · split at h
        · cases h
        · split at h
          · split at h
            · cases h
            · rename_i e he
              cases h
              exact hrec he
          · cases h

/-- on two reads that both have variants, the comparator's non-strict order implies the order of first positions -/
theorem readLe_firstPos (a b : ReadKey) (ha : a.hasVariants = true) (hb : b.hasVariants = true)
    (h : readLe a b = true) : a.firstPos ≤ b.firstPos := by
  apply Nat.le_of_not_lt
  intro hlt
  have : readLt b a = true := by
    have hne : (b.firstPos != a.firstPos) = true := by simp; omega
    simp [readLt, ha, hb, hne, hlt]
  simp [readLe, this] at h

/-- **`ReadSet::sort()` discharges the sortedness check.** For reads that all have variants (reads without
variants make `firstPosition()` throw anyway) and whose comparator key carries their first position, the
instance built from the sorted ReadSet is never rejected as "not sorted". -/
theorem sorted_readset_not_rejected_as_unsorted (l : List (ReadKey × RawRead))
    (hkey : ∀ x ∈ l, x.1.hasVariants = true ∧ x.1.firstPos = x.2.firstPos)
    (positions : List Nat) (nind : Nat) (trios : List (Nat × Nat × Nat))
    (geno : List (List (List (Option Nat)))) (recomb : List Nat) :
    mkInstE positions ((sortReads l).map (fun x => x.2)) nind trios geno recomb ≠ .error .readsUnsorted := by
  have hsorted : (sortReads l).Pairwise (fun a b => readLe a.1 b.1 = true) := by
    unfold sortReads
    apply List.pairwise_mergeSort
    · intro a b c
      simp only [readLe, readLt_eq_codeLt]
      exact sto_code.le_trans (code a.1) (code b.1) (code c.1)
    · intro a b
      simp only [readLe, readLt_eq_codeLt]
      exact sto_code.le_total (code a.1) (code b.1)
  have hmem : ∀ x ∈ sortReads l, x ∈ l := fun x hx => (List.mergeSort_perm l _).subset hx
  have hpw : ((sortReads l).map (fun x => x.2)).Pairwise (fun a b => a.firstPos ≤ b.firstPos) := by
    rw [List.pairwise_map]
    apply List.Pairwise.imp_of_mem _ hsorted
    intro a b ha hb hab
    have ka := hkey a (hmem a ha)
    have kb := hkey b (hmem b hb)
    rw [← ka.2, ← kb.2]
    exact readLe_firstPos a.1 b.1 ka.1 kb.1 hab
  intro h
  unfold mkInstE at h
  split at h
  · cases h
  · split at h
    · cases h
    · rename_i e he
      cases h
      exact convReads_not_unsorted positions _ 0 (fun _ _ => Nat.zero_le _) hpw he

end WhVerif.C01

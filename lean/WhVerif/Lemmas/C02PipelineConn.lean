import WhVerif.Spec.C02Pipeline
import WhVerif.Lemmas.C02Thm
import WhVerif.Props.C03
/-!
# C02 pipeline, part 1: bridging the solver instance (C01/C02) and the component stage (C03)

* `posAt` is injective / monotone on the columns; the translated reads carry exactly the positions of the columns
  they cover;
* `conn_bridge`: two covered columns whose positions are C03-connected are covered by C02-connected reads
  (and conversely, `conn_bridge_rev`);
* `components_ok`: `find_components` does not raise on the translated instance.
-/
namespace WhVerif.C02P
open WhVerif.C01 WhVerif.C02

variable {I : Inst} {hap : Nat → Nat} {src : Nat → Bool} {pos : List Nat}

/-! ### positions -/

theorem posAt_eq (pos : List Nat) {c : Nat} (hc : c < pos.length) : posAt pos c = pos[c] := by
  simp [posAt, List.getD_eq_getElem?_getD, hc]

theorem posAt_mem (pos : List Nat) {c : Nat} (hc : c < pos.length) : posAt pos c ∈ pos := by
  rw [posAt_eq pos hc]; exact List.getElem_mem hc

theorem mem_pos {p : Nat} (hp : p ∈ pos) : ∃ c, c < pos.length ∧ posAt pos c = p := by
  obtain ⟨c, hc, e⟩ := List.getElem_of_mem hp
  exact ⟨c, hc, by rw [posAt_eq pos hc, e]⟩

theorem posAt_lt (hpos : pos.Pairwise (· < ·)) {c1 c2 : Nat} (h12 : c1 < c2) (h2 : c2 < pos.length) :
    posAt pos c1 < posAt pos c2 := by
  rw [posAt_eq pos (by omega), posAt_eq pos h2]
  exact (List.pairwise_iff_getElem.mp hpos) c1 c2 _ _ h12

theorem posAt_inj (hpos : pos.Pairwise (· < ·)) {c1 c2 : Nat} (h1 : c1 < pos.length) (h2 : c2 < pos.length)
    (e : posAt pos c1 = posAt pos c2) : c1 = c2 := by
  rcases Nat.lt_trichotomy c1 c2 with h | h | h
  · have := posAt_lt hpos h h2; omega
  · exact h
  · have := posAt_lt hpos h h1; omega

theorem isSortedB_of_pairwise : ∀ (l : List Nat), l.Pairwise (· < ·) → C03.isSortedB l = true
  | [], _ => rfl
  | [_], _ => rfl
  | a :: b :: t, h => by
    rw [List.pairwise_cons] at h
    simp only [C03.isSortedB, Bool.and_eq_true, decide_eq_true_eq]
    exact ⟨Nat.le_of_lt (h.1 b (by simp)), isSortedB_of_pairwise (b :: t) h.2⟩

/-! ### reads -/

theorem covers_iff (I : Inst) (r c : Nat) : covers I r c ↔ ∃ e ∈ (I.read r).entries, e.1 = c := by
  unfold covers Read.entryAt
  cases hf : (I.read r).entries.find? (fun e => e.1 == c) with
  | none =>
    simp only [Option.map_none, ne_eq, not_true_eq_false, false_iff]
    rintro ⟨e, he, rfl⟩
    have := List.find?_eq_none.mp hf e he
    simp at this
  | some e =>
    simp only [Option.map_some, ne_eq, reduceCtorEq, not_false_eq_true, true_iff]
    exact ⟨e, List.mem_of_find?_eq_some hf, by simpa using List.find?_some hf⟩

theorem read_mem {r : Nat} (hr : r < I.nreads) : I.read r ∈ I.reads := by
  unfold Inst.read; unfold Inst.nreads at hr
  rw [List.getD_eq_getElem?_getD, List.getElem?_eq_getElem hr]
  exact List.getElem_mem hr

theorem mem_reads {rd : C01.Read} (h : rd ∈ I.reads) : ∃ r, r < I.nreads ∧ I.read r = rd := by
  obtain ⟨r, hr, e⟩ := List.getElem_of_mem h
  refine ⟨r, hr, ?_⟩
  unfold Inst.read
  rw [List.getD_eq_getElem?_getD, List.getElem?_eq_getElem hr]; exact e

/-- the translated read carries the position of column `c` iff the read covers column `c` -/
theorem mem_positions (h : ErrFree I hap src) (hpos : pos.Pairwise (· < ·)) (hlen : pos.length = I.ncols)
    {r c : Nat} (hr : r < I.nreads) (hc : c < I.ncols) :
    posAt pos c ∈ (toC03Read pos (I.read r)).positions ↔ covers I r c := by
  rw [covers_iff]
  simp only [toC03Read, List.mem_map]
  constructor
  · rintro ⟨e, he, hp⟩
    have hlt := (h.entries r hr e he).2.2.1
    exact ⟨e, he, posAt_inj hpos (by omega) (by omega) hp⟩
  · rintro ⟨e, he, rfl⟩
    exact ⟨e, he, rfl⟩

/-- every position of a translated read is the position of a covered column -/
theorem positions_mem (h : ErrFree I hap src) {r p : Nat} (hr : r < I.nreads)
    (hp : p ∈ (toC03Read pos (I.read r)).positions) : ∃ c, c < I.ncols ∧ covers I r c ∧ posAt pos c = p := by
  simp only [toC03Read, List.mem_map] at hp
  obtain ⟨e, he, rfl⟩ := hp
  exact ⟨e.1, (h.entries r hr e he).2.2.1, (covers_iff I r e.1).mpr ⟨e, he, rfl⟩, rfl⟩

theorem mem_c03Reads {rd : C03.Read} (h : rd ∈ c03Reads I pos) :
    ∃ r, r < I.nreads ∧ rd = toC03Read pos (I.read r) := by
  simp only [c03Reads, List.mem_map] at h
  obtain ⟨x, hx, rfl⟩ := h
  obtain ⟨r, hr, rfl⟩ := mem_reads hx
  exact ⟨r, hr, rfl⟩

theorem c03Reads_mem {r : Nat} (hr : r < I.nreads) : toC03Read pos (I.read r) ∈ c03Reads I pos :=
  List.mem_map.mpr ⟨_, read_mem hr, rfl⟩

/-! ### connectivity of reads (C02) vs connectivity of positions (C03) -/

theorem conn_trans {a b c : Nat} (h1 : C02.Connected I a b) (h2 : C02.Connected I b c) : C02.Connected I a c := by
  induction h2 with
  | refl _ => exact h1
  | step _ h3 hl ih => exact .step ih h3 hl

theorem conn_of_linked {a b : Nat} (ha : a < I.nreads) (hb : b < I.nreads) (hl : C02.Linked I a b) :
    C02.Connected I a b := .step (.refl a ha) hb hl

/-- **bridge**: if the positions of two covered columns are connected in the sense of C03 (chain of reads in
which consecutive variants are covered by a common read), the covering reads are connected in the sense of C02 -/
theorem conn_bridge (h : ErrFree I hap src) (hpos : pos.Pairwise (· < ·)) (hlen : pos.length = I.ncols)
    {p q : Nat} (hc : C03.Connected pos (c03Reads I pos) none none p q) :
    ∀ c1 r1 c2 r2, p = posAt pos c1 → c1 < I.ncols → covers I r1 c1 → q = posAt pos c2 → c2 < I.ncols →
      covers I r2 c2 → C02.Connected I r1 r2 := by
  induction hc with
  | refl a =>
    intro c1 r1 c2 r2 e1 h1 cov1 e2 h2 cov2
    have : c1 = c2 := posAt_inj hpos (by omega) (by omega) (e1.symm.trans e2)
    subst this
    exact conn_of_linked (covers_lt cov1) (covers_lt cov2) ⟨c1, cov1, cov2⟩
  | @step a b c hl _ ih =>
    intro c1 r1 c2 r2 e1 h1 cov1 e2 h2 cov2
    rcases hl with ⟨rd, hrd, ha, hb, _, _, _, _⟩ | ⟨m, hm, _⟩
    · obtain ⟨k, hk, rfl⟩ := mem_c03Reads hrd
      obtain ⟨cb, hcb, covb, eb⟩ := positions_mem h hk hb
      rw [e1] at ha
      have cova := (mem_positions h hpos hlen hk h1).mp ha
      exact conn_trans (conn_of_linked (covers_lt cov1) hk ⟨c1, cov1, cova⟩)
        (ih cb k c2 r2 eb.symm hcb covb e2 h2 cov2)
    · cases hm

/-- conversely: columns covered by C02-connected reads have C03-connected positions -/
theorem conn_bridge_rev (h : ErrFree I hap src) (hpos : pos.Pairwise (· < ·)) (hlen : pos.length = I.ncols)
    {r1 r2 : Nat} (hc : C02.Connected I r1 r2) :
    ∀ c1 c2, covers I r1 c1 → covers I r2 c2 →
      C03.Connected pos (c03Reads I pos) none none (posAt pos c1) (posAt pos c2) := by
  have link : ∀ r ca cb, covers I r ca → covers I r cb →
      C03.Linked pos (c03Reads I pos) none none (posAt pos ca) (posAt pos cb) := by
    intro r ca cb cova covb
    have hr := covers_lt cova
    have ha := (covers_active h cova).2
    have hb := (covers_active h covb).2
    exact Or.inl ⟨_, c03Reads_mem hr, (mem_positions h hpos hlen hr ha).mpr cova,
      (mem_positions h hpos hlen hr hb).mpr covb, posAt_mem pos (by omega), posAt_mem pos (by omega), trivial, trivial⟩
  induction hc with
  | refl _ => intro c1 c2 cov1 cov2; exact C03.L.Chain.single (link _ c1 c2 cov1 cov2)
  | step _ _ hl ih =>
    intro c1 c2 cov1 cov2
    obtain ⟨c, hca, hcb⟩ := hl
    exact C03.L.Chain.trans (ih c1 c cov1 hca) (C03.L.Chain.single (link _ c c2 hcb cov2))

/-! ### the component stage does not raise -/

theorem positions_nodup (h : ErrFree I hap src) (hpos : pos.Pairwise (· < ·)) (hlen : pos.length = I.ncols)
    {r : Nat} (hr : r < I.nreads) : (toC03Read pos (I.read r)).positions.Nodup := by
  have hnd := h.nodup r hr
  have hent := h.entries r hr
  simp only [toC03Read]
  generalize (I.read r).entries = es at hnd hent
  induction es with
  | nil => simp
  | cons e t ih =>
    simp only [List.map_cons, List.nodup_cons, List.mem_map, not_exists, not_and] at hnd ⊢
    refine ⟨fun x hx e' => hnd.1 x hx ?_, ih hnd.2 (fun x hx => hent x (List.mem_cons_of_mem _ hx))⟩
    exact posAt_inj hpos (by have := (hent x (List.mem_cons_of_mem _ hx)).2.2.1; omega)
      (by have := (hent e List.mem_cons_self).2.2.1; omega) e'

theorem components_ok (h : ErrFree I hap src) (hpos : pos.Pairwise (· < ·)) (hlen : pos.length = I.ncols) :
    ∃ comps, components I pos = .ok comps := by
  unfold components
  apply WhVerif.Props.C03.find_components_total _ _ _ _ (isSortedB_of_pairwise pos hpos)
  · intro rd hrd
    obtain ⟨r, hr, rfl⟩ := mem_c03Reads hrd
    exact positions_nodup h hpos hlen hr
  · intro rd _; trivial
  · trivial

end WhVerif.C02P

import WhVerif.Model.C10Regions
/-! C10: the repaired `--regions` loop keeps the order of a coordinate-sorted input -/
namespace WhVerif.C10

/-! ### two filters of a sorted list, the first selecting a prefix-side part -/

theorem filter_append_filter_of_pairwise {β} {R : β → β → Prop} (P Q : β → Bool) :
    ∀ {l : List β}, l.Pairwise R → (∀ x y, R x y → Q x = true → P y = true → False) →
      (∀ x, P x = true → Q x = true → False) →
      l.filter P ++ l.filter Q = l.filter (fun x => P x || Q x)
  | [], _, _, _ => rfl
  | a :: t, h, hPQ, hd => by
    have ih := filter_append_filter_of_pairwise P Q (List.pairwise_cons.1 h).2 hPQ hd
    have hR := (List.pairwise_cons.1 h).1
    cases hp : P a <;> cases hq : Q a
    · simp [hp, hq, ih]
    · have hnil : t.filter P = [] := by
        rw [List.filter_eq_nil_iff]
        intro y hy hpy
        exact hPQ a y (hR y hy) hq hpy
      rw [hnil] at ih
      simp only [List.nil_append] at ih
      simp [hp, hq, hnil, ih]
    · simp [hp, hq, ih]
    · exact (hd a hp hq).elim

/-! ### `overlaps` -/

/-- exclusive end of the reference span as `fetch` sees it (an alignment without aligned bases counts as one base) -/
def aEnd {α} (a : Aln α) : Int := max a.refEnd (a.refStart + 1)

theorem start_lt_aEnd {α} (a : Aln α) : a.refStart < aEnd a := by unfold aEnd; omega

theorem overlaps_some {α} (s e : Int) (a : Aln α) :
    overlaps (s, some e) a = true ↔ s < aEnd a ∧ a.refStart < e := by simp [overlaps, aEnd]

theorem overlaps_none {α} (s : Int) (a : Aln α) : overlaps (s, none) a = true ↔ s < aEnd a := by
  simp [overlaps, aEnd]

theorem overlaps_start {α} {r : Region} {a : Aln α} (h : overlaps r a = true) : r.1 < aEnd a := by
  obtain ⟨s, e⟩ := r
  cases e with
  | none => exact (overlaps_none s a).1 h
  | some e => exact ((overlaps_some s e a).1 h).1

/-! ### normalised region lists -/

/-- `r` is not inverted (`Region.parse` even guarantees `start < end`) -/
def ValidRegion (r : Region) : Prop := ∀ e, r.2 = some e → r.1 ≤ e

/-- sorted, pairwise disjoint (not even adjacent), none inverted, an open end only last; `p` = end of the region before -/
def Chain : Option Int → List Region → Prop
  | _, [] => True
  | p, (s, e) :: rest =>
    (∀ pe, p = some pe → pe < s) ∧ (∀ e', e = some e' → s ≤ e') ∧ (e = none → rest = []) ∧ Chain e rest

theorem Chain.lt_start : ∀ {rs : List Region} {p : Option Int}, Chain p rs →
    ∀ r ∈ rs, ∀ pe, p = some pe → pe < r.1
  | [], _, _, r, hr, _, _ => by cases hr
  | (s, e) :: rest, p, h, r, hr, pe, hp => by
    obtain ⟨h1, h2, h3, h4⟩ := h
    rcases List.mem_cons.1 hr with rfl | hr'
    · exact h1 pe hp
    · cases e with
      | none => rw [h3 rfl] at hr'; cases hr'
      | some e' =>
        have := Chain.lt_start h4 r hr' e' rfl
        have := h1 pe hp
        have := h2 e' rfl
        omega

/-- in a chain an alignment that overlaps a later region reaches beyond the end of the first one -/
theorem Chain.any_rest {α} {s : Int} {e : Option Int} {rest : List Region} {p : Option Int}
    (h : Chain p ((s, e) :: rest)) {a : Aln α} (ha : rest.any (overlaps · a) = true) :
    ∃ e', e = some e' ∧ s ≤ e' ∧ e' < aEnd a := by
  obtain ⟨_, h2, h3, h4⟩ := h
  obtain ⟨r, hr, hov⟩ := List.any_eq_true.1 ha
  cases e with
  | none => rw [h3 rfl] at hr; cases hr
  | some e' =>
    have := Chain.lt_start h4 r hr e' rfl
    have := overlaps_start hov
    exact ⟨e', rfl, h2 e' rfl, by omega⟩

/-! ### the write loop over a chain -/

theorem fetchSkip_eq_filter {α} {alns : List (Aln α)}
    (hs : alns.Pairwise fun a b => a.refStart ≤ b.refStart) :
    ∀ (rs : List Region) (p : Option Int), Chain p rs →
      fetchSkip alns p rs = alns.filter fun a => rs.any (overlaps · a) && !startsBefore p a
  | [], p, _ => by simp [fetchSkip]
  | (s, e) :: rest, p, h => by
    have ih := fetchSkip_eq_filter hs rest e h.2.2.2
    simp only [fetchSkip]
    rw [ih, filter_append_filter_of_pairwise _ _ hs]
    · apply List.filter_congr
      intro a _
      simp only [List.any_cons]
      cases hr : rest.any (overlaps · a) with
      | false => simp
      | true =>
        obtain ⟨e', rfl, hse, hea⟩ := Chain.any_rest h hr
        have hov : overlaps (s, some e') a = startsBefore (some e') a := by
          rw [Bool.eq_iff_iff, overlaps_some]; simp only [startsBefore, decide_eq_true_eq]; omega
        have hpb : startsBefore p a = true → startsBefore (some e') a = true := by
          cases p with
          | none => simp [startsBefore]
          | some pe =>
            have := h.1 pe rfl
            simp only [startsBefore, decide_eq_true_eq]; omega
        rw [hov]
        revert hpb
        cases startsBefore p a <;> cases startsBefore (some e') a <;> simp
    · intro x y hxy hq hp
      simp only [Bool.and_eq_true, Bool.not_eq_eq_eq_not, Bool.not_true] at hq hp
      obtain ⟨e', rfl, _, _⟩ := Chain.any_rest h hq.1
      have := ((overlaps_some s e' y).1 hp.1).2
      have := hq.2
      simp only [startsBefore, decide_eq_false_iff_not] at this
      omega
    · intro x hp hq
      simp only [Bool.and_eq_true, Bool.not_eq_eq_eq_not, Bool.not_true] at hq hp
      obtain ⟨e', rfl, _, _⟩ := Chain.any_rest h hq.1
      have := ((overlaps_some s e' x).1 hp.1).2
      have := hq.2
      simp only [startsBefore, decide_eq_false_iff_not] at this
      omega

/-- the abstract loop of `Model/C10.lean` (written with the first region overlapped) over a chain -/
theorem fetchOnce_eq_filter {α} {alns : List (Aln α)}
    (hs : alns.Pairwise fun a b => a.refStart ≤ b.refStart) :
    ∀ (rs : List Region) (earlier : List Region) (p : Option Int), Chain p rs →
      fetchOnce alns earlier rs = alns.filter fun a => rs.any (overlaps · a) && !earlier.any (overlaps · a)
  | [], _, _, _ => by simp [fetchOnce]
  | (s, e) :: rest, earlier, p, h => by
    have ih := fetchOnce_eq_filter hs rest (earlier ++ [(s, e)]) e h.2.2.2
    simp only [fetchOnce]
    rw [ih, filter_append_filter_of_pairwise _ _ hs]
    · apply List.filter_congr
      intro a _
      simp only [List.any_cons, List.any_append, List.any_nil, Bool.or_false]
      cases overlaps (s, e) a <;> cases rest.any (overlaps · a) <;> cases earlier.any (overlaps · a) <;> rfl
    · intro x y hxy hq hp
      simp only [Bool.and_eq_true, Bool.not_eq_eq_eq_not, Bool.not_true, List.any_append, List.any_cons,
        List.any_nil, Bool.or_false, Bool.or_eq_false_iff] at hq hp
      obtain ⟨e', rfl, _, _⟩ := Chain.any_rest h hq.1
      have := ((overlaps_some s e' y).1 hp.1).2
      have hn : ¬ (overlaps (s, some e') x = true) := by simp [hq.2.2]
      rw [overlaps_some] at hn
      omega
    · intro x hp hq
      simp only [Bool.and_eq_true, Bool.not_eq_eq_eq_not, Bool.not_true, List.any_append, List.any_cons,
        List.any_nil, Bool.or_false, Bool.or_eq_false_iff] at hq hp
      rw [hp.1] at hq
      exact Bool.noConfusion hq.2.2

/-! ### `normalize_user_regions`: sorted + merged = a chain covering the same alignments -/

theorem any_mergeFrom {α} (a : Aln α) : ∀ (rest : List Region) (cur : Region),
    (∀ r ∈ rest, cur.1 ≤ r.1) → rest.Pairwise (fun x y => x.1 ≤ y.1) →
    (mergeFrom cur rest).any (overlaps · a) = (cur :: rest).any (overlaps · a)
  | [], cur, _, _ => by simp [mergeFrom]
  | (s, e) :: rest, (ps, none), hle, hp => by
    have hps : ps ≤ s := hle (s, e) (by simp)
    have hle' : ∀ r ∈ rest, ps ≤ r.1 := fun r hr => hle r (by simp [hr])
    rw [mergeFrom, any_mergeFrom a rest (ps, none) hle' (List.pairwise_cons.1 hp).2]
    simp only [List.any_cons]
    have : overlaps (s, e) a = true → overlaps (ps, none) a = true := by
      intro h; have := overlaps_start h; rw [overlaps_none]; simp only at this; omega
    revert this
    cases overlaps (s, e) a <;> cases overlaps (ps, none) a <;> simp
  | (s, e) :: rest, (ps, some pe), hle, hp => by
    have hps : ps ≤ s := hle (s, e) (by simp)
    have hle' : ∀ r ∈ rest, ps ≤ r.1 := fun r hr => hle r (by simp [hr])
    have hp' := (List.pairwise_cons.1 hp).2
    have hst := start_lt_aEnd a
    simp only [mergeFrom]
    split
    · rename_i hspe
      cases e with
      | none =>
        simp only
        rw [any_mergeFrom a rest (ps, none) hle' hp']
        simp only [List.any_cons, ← Bool.or_assoc]
        congr 1
        rw [Bool.eq_iff_iff]
        simp only [Bool.or_eq_true, overlaps_none, overlaps_some]
        omega
      | some e' =>
        simp only
        split
        · rw [any_mergeFrom a rest (ps, some e') hle' hp']
          simp only [List.any_cons, ← Bool.or_assoc]
          congr 1
          rw [Bool.eq_iff_iff]
          simp only [Bool.or_eq_true, overlaps_some]
          omega
        · rw [any_mergeFrom a rest (ps, some pe) hle' hp']
          simp only [List.any_cons, ← Bool.or_assoc]
          congr 1
          rw [Bool.eq_iff_iff]
          simp only [Bool.or_eq_true, overlaps_some]
          omega
    · rw [List.any_cons, any_mergeFrom a rest (s, e) (List.pairwise_cons.1 hp).1 hp']
      simp only [List.any_cons]

theorem chain_mergeFrom : ∀ (rest : List Region) (cur : Region) (p : Option Int),
    (∀ pe, p = some pe → pe < cur.1) → ValidRegion cur → (∀ r ∈ rest, ValidRegion r) →
    (∀ r ∈ rest, cur.1 ≤ r.1) → rest.Pairwise (fun x y => x.1 ≤ y.1) → Chain p (mergeFrom cur rest)
  | [], (s, e), p, hpc, hv, _, _, _ => by
    simp only [mergeFrom]
    exact ⟨hpc, hv, fun _ => rfl, trivial⟩
  | (s, e) :: rest, (ps, none), p, hpc, hv, hvr, hle, hp => by
    rw [mergeFrom]
    exact chain_mergeFrom rest (ps, none) p hpc hv (fun r hr => hvr r (by simp [hr]))
      (fun r hr => hle r (by simp [hr])) (List.pairwise_cons.1 hp).2
  | (s, e) :: rest, (ps, some pe), p, hpc, hv, hvr, hle, hp => by
    have hps : ps ≤ s := hle (s, e) (by simp)
    have hpe : ps ≤ pe := hv pe rfl
    have hvr' : ∀ r ∈ rest, ValidRegion r := fun r hr => hvr r (by simp [hr])
    have hle' : ∀ r ∈ rest, ps ≤ r.1 := fun r hr => hle r (by simp [hr])
    have hp' := (List.pairwise_cons.1 hp).2
    simp only [mergeFrom]
    split
    · cases e with
      | none =>
        exact chain_mergeFrom rest (ps, none) p hpc (fun e h => by cases h) hvr' hle' hp'
      | some e' =>
        simp only
        split
        · exact chain_mergeFrom rest (ps, some e') p hpc
            (fun e h => by cases h; simp only; omega) hvr' hle' hp'
        · exact chain_mergeFrom rest (ps, some pe) p hpc hv hvr' hle' hp'
    · rename_i hspe
      refine ⟨hpc, fun e' h => ?_, fun h => ?_, ?_⟩
      · cases h; exact hpe
      · cases h
      exact chain_mergeFrom rest (s, e) (some pe) (fun q hq => by cases hq; simp only; omega)
        (hvr (s, e) (by simp)) hvr' (List.pairwise_cons.1 hp).1 hp'

theorem insertByStart_perm (r : Region) : ∀ l : List Region, (insertByStart r l).Perm (r :: l)
  | [] => List.Perm.refl _
  | x :: xs => by
    simp only [insertByStart]
    split
    · exact List.Perm.refl _
    · exact ((insertByStart_perm r xs).cons x).trans (List.Perm.swap r x xs)

theorem sortByStart_perm : ∀ l : List Region, (sortByStart l).Perm l
  | [] => List.Perm.refl _
  | r :: rs => (insertByStart_perm r _).trans ((sortByStart_perm rs).cons r)

theorem insertByStart_sorted (r : Region) : ∀ l : List Region, l.Pairwise (fun x y => x.1 ≤ y.1) →
    (insertByStart r l).Pairwise (fun x y => x.1 ≤ y.1)
  | [], _ => by simp [insertByStart]
  | x :: xs, h => by
    simp only [insertByStart]
    split
    · rename_i hrx
      refine List.pairwise_cons.2 ⟨fun y hy => ?_, h⟩
      rcases List.mem_cons.1 hy with rfl | hy
      · exact hrx
      · have := (List.pairwise_cons.1 h).1 y hy
        omega
    · rename_i hrx
      refine List.pairwise_cons.2 ⟨fun y hy => ?_, insertByStart_sorted r xs (List.pairwise_cons.1 h).2⟩
      rcases List.mem_cons.1 ((insertByStart_perm r xs).mem_iff.1 hy) with rfl | hy
      · omega
      · exact (List.pairwise_cons.1 h).1 y hy

theorem sorted_by_start : ∀ rq : List Region, (sortByStart rq).Pairwise (fun x y => x.1 ≤ y.1)
  | [] => List.Pairwise.nil
  | r :: rs => insertByStart_sorted r _ (sorted_by_start rs)

theorem any_normalizeRegions {α} (rq : List Region) (a : Aln α) :
    (normalizeRegions rq).any (overlaps · a) = rq.any (overlaps · a) := by
  have hperm := sortByStart_perm rq
  have hsort := sorted_by_start rq
  rw [← hperm.any_eq]
  unfold normalizeRegions
  generalize sortByStart rq = l at hsort ⊢
  cases l with
  | nil => rfl
  | cons r rest =>
    exact any_mergeFrom a rest r (List.pairwise_cons.1 hsort).1 (List.pairwise_cons.1 hsort).2

theorem chain_normalizeRegions (rq : List Region) (hv : ∀ r ∈ rq, ValidRegion r) :
    Chain none (normalizeRegions rq) := by
  have hperm := sortByStart_perm rq
  have hsort := sorted_by_start rq
  have hv' : ∀ r ∈ sortByStart rq, ValidRegion r :=
    fun r hr => hv r (hperm.mem_iff.1 hr)
  unfold normalizeRegions
  generalize sortByStart rq = l at hsort hv' ⊢
  cases l with
  | nil => trivial
  | cons r rest =>
    exact chain_mergeFrom rest r none (fun _ h => by cases h) (hv' r (by simp))
      (fun x hx => hv' x (by simp [hx])) (List.pairwise_cons.1 hsort).1 (List.pairwise_cons.1 hsort).2

/-! ### one contig -/

theorem fetchSkip_normalizeRegions {α} {alns : List (Aln α)}
    (hs : alns.Pairwise fun a b => a.refStart ≤ b.refStart) (rq : List Region)
    (hv : ∀ r ∈ rq, ValidRegion r) :
    fetchSkip alns none (normalizeRegions rq) = alns.filter fun a => rq.any (overlaps · a) := by
  rw [fetchSkip_eq_filter hs _ none (chain_normalizeRegions rq hv)]
  apply List.filter_congr
  intro a _
  simp [startsBefore, any_normalizeRegions]

theorem fetchOnce_normalizeRegions {α} {alns : List (Aln α)}
    (hs : alns.Pairwise fun a b => a.refStart ≤ b.refStart) (rq : List Region)
    (hv : ∀ r ∈ rq, ValidRegion r) :
    fetchOnce alns [] (normalizeRegions rq) = alns.filter fun a => rq.any (overlaps · a) := by
  rw [fetchOnce_eq_filter hs _ [] none (chain_normalizeRegions rq hv)]
  apply List.filter_congr
  intro a _
  simp [any_normalizeRegions]

/-! ### all contigs -/

theorem requestedAln_eq {α} (user : List (Nat × Region)) (i : Nat) (a : Aln α) :
    requestedAln user (i, a) = (requestedFor user i).any (overlaps · a) := by
  simp [requestedAln, requestedFor, List.any_map, List.any_filter, Function.comp_def]

theorem mem_requestedFor {user : List (Nat × Region)} {i : Nat} {r : Region} (h : r ∈ requestedFor user i) :
    (i, r) ∈ user := by
  simp only [requestedFor, List.mem_map, List.mem_filter, beq_iff_eq] at h
  obtain ⟨u, ⟨hu, rfl⟩, rfl⟩ := h
  exact hu

/-- a loop `F` that writes nothing for an empty region list, run over `normalizeSel`, is the loop run
over every contig of the header with that contig's normalised regions -/
theorem flatMap_normalizeSel {α} (F : List (Aln α) → List Region → List (Aln α)) (hF : ∀ alns, F alns [] = [])
    (user : List (Nat × Region)) (l : List (Chrom α × Nat)) :
    ((l.filterMap fun (c, i) =>
        let rq := requestedFor user i
        if rq.isEmpty then none else some (c, normalizeRegions rq)).flatMap
      fun (c, regions) => (F c.alns regions).map (tagAln c.ctx))
    = l.flatMap fun (c, i) => (F c.alns (normalizeRegions (requestedFor user i))).map (tagAln c.ctx) := by
  induction l with
  | nil => rfl
  | cons ci t ih =>
    obtain ⟨c, i⟩ := ci
    rw [List.filterMap_cons, List.flatMap_cons]
    by_cases hrq : (requestedFor user i).isEmpty
    · have : requestedFor user i = [] := List.isEmpty_iff.1 hrq
      simp only [hrq, if_true, ih]
      rw [this]
      simp [normalizeRegions, mergeRegions, sortByStart, hF]
    · simp only [hrq, Bool.false_eq_true, if_false, List.flatMap_cons, ih]

theorem erase_comp_tagAln {α} (c : ChromCtx) : (Aln.erase ∘ tagAln (α := α) c) = Aln.erase := by
  funext a
  simp only [Function.comp, tagAln, Aln.erase]
  split <;> rfl

/-- the BAM is coordinate-sorted: within every contig `reference_start` never decreases -/
def CoordinateSorted {α} (chroms : List (Chrom α)) : Prop :=
  ∀ c ∈ chroms, c.alns.Pairwise fun a b => a.refStart ≤ b.refStart

/-- no requested region is inverted (`Region.parse` rejects `end <= start`) -/
def ValidRegions (user : List (Nat × Region)) : Prop := ∀ u ∈ user, ValidRegion u.2

theorem fst_mem_of_mem_zipIdx {β} {l : List β} {x : β × Nat} (h : x ∈ l.zipIdx) : x.1 ∈ l := by
  obtain ⟨c, i⟩ := x
  obtain ⟨_, _, hc⟩ := List.mem_zipIdx h
  show c ∈ l
  rw [hc]
  exact List.getElem_mem _

/-- any per-contig loop `F` that, over normalised regions, yields the overlapping alignments in file order -/
theorem flatMap_contigs_eq {α} (F : List (Aln α) → List Region → List (Aln α)) (user : List (Nat × Region))
    (hvalid : ValidRegions user)
    (hF : ∀ alns : List (Aln α), (alns.Pairwise fun a b => a.refStart ≤ b.refStart) → ∀ rq : List Region,
      (∀ r ∈ rq, ValidRegion r) → F alns (normalizeRegions rq) = alns.filter fun a => rq.any (overlaps · a))
    (l : List (Chrom α × Nat)) (hl : ∀ ci ∈ l, ci.1.alns.Pairwise fun a b => a.refStart ≤ b.refStart) :
    (l.flatMap fun (c, i) => (F c.alns (normalizeRegions (requestedFor user i))).map (tagAln c.ctx))
    = l.flatMap fun (c, i) => (c.alns.filter fun a => requestedAln user (i, a)).map (tagAln c.ctx) := by
  induction l with
  | nil => rfl
  | cons ci t ih =>
    obtain ⟨c, i⟩ := ci
    simp only [List.flatMap_cons]
    rw [ih (fun x hx => hl x (by simp [hx])),
      hF c.alns (hl (c, i) (by simp)) _ (fun r hr => hvalid (i, r) (mem_requestedFor hr))]
    congr 2
    apply List.filter_congr
    intro a _
    exact (requestedAln_eq user i a).symm

theorem erase_flatMap_eq_stream {α} (user : List (Nat × Region)) (l : List (Chrom α × Nat)) :
    (l.flatMap fun (c, i) => (c.alns.filter fun a => requestedAln user (i, a)).map (tagAln c.ctx)).map Aln.erase
    = ((l.flatMap fun (c, i) => c.alns.map fun a => (i, a)).filter (requestedAln user)).map fun ia => ia.2.erase := by
  induction l with
  | nil => rfl
  | cons ci t ih =>
    obtain ⟨c, i⟩ := ci
    simp only [List.flatMap_cons, List.map_append, List.filter_append, ih]
    congr 1
    rw [List.map_map, erase_comp_tagAln, List.filter_map, List.map_map]
    rfl

theorem erase_run_eq_stream {α} (chroms : List (Chrom α)) :
    (run chroms []).map Aln.erase = (stream chroms).map fun ia => ia.2.erase := by
  simp only [run, stream, List.append_nil]
  suffices h : ∀ (l : List (Chrom α)) (k : Nat),
      (l.flatMap fun c => c.alns.map (tagAln c.ctx)).map Aln.erase
        = ((l.zipIdx k).flatMap fun (c, i) => c.alns.map fun a => (i, a)).map fun ia => ia.2.erase from h chroms 0
  intro l
  induction l with
  | nil => intro k; rfl
  | cons c t ih =>
    intro k
    simp only [List.zipIdx_cons, List.flatMap_cons, List.map_append, ih (k + 1)]
    congr 1
    rw [List.map_map, erase_comp_tagAln, List.map_map]
    rfl

end WhVerif.C10

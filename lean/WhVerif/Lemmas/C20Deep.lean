import WhVerif.Model.C20Deep
import WhVerif.Lemmas.C20
import WhVerif.Lemmas.C20Files
/-! Helper lemmas for the round-10 part of C20: `PedReader` at text level, `samples()`, the assertions of
`find_recombination`, completeness and order of the recombination rows. -/
set_option linter.unusedSimpArgs false
set_option linter.unusedVariables false
namespace WhVerif.C20
open WhVerif.C04 WhVerif.Lemmas.C20Files

/-! ### `_sanity_check` -/

theorem mostCommonFrom_spec (l : List String) : ∀ (ks : List String) (best : Option (String × Nat)),
    (∀ b cb, best = some (b, cb) → cb = l.count b) → (ks ≠ [] ∨ best.isSome) →
    ∃ id c, mostCommonFrom l ks best = some (id, c) ∧ c = l.count id ∧ (∀ x ∈ ks, l.count x ≤ c) ∧
      (∀ b cb, best = some (b, cb) → cb ≤ c) := by
  intro ks
  induction ks with
  | nil =>
    intro best hb hne
    rcases hne with h | h
    · exact absurd rfl h
    · match best, h with
      | some (b, cb), _ =>
        exact ⟨b, cb, rfl, hb b cb rfl, by simp, fun b' cb' h' => by cases h'; exact Nat.le_refl _⟩
  | cons k ks ih =>
    intro best hb _
    match best, hb with
    | none, _ =>
      obtain ⟨id, c, h1, h2, h3, h4⟩ := ih (some (k, l.count k)) (fun b cb h => by cases h; rfl) (Or.inr rfl)
      refine ⟨id, c, by simpa [mostCommonFrom] using h1, h2, ?_, fun b cb h => by cases h⟩
      intro x hx
      rcases List.mem_cons.mp hx with rfl | hx
      · exact h4 _ _ rfl
      · exact h3 x hx
    | some (b, cb), hb =>
      by_cases hlt : cb < l.count k
      · obtain ⟨id, c, h1, h2, h3, h4⟩ := ih (some (k, l.count k)) (fun b cb h => by cases h; rfl) (Or.inr rfl)
        have hk := h4 _ _ rfl
        refine ⟨id, c, by simpa [mostCommonFrom, hlt] using h1, h2, ?_, fun b' cb' h => by cases h; omega⟩
        intro x hx
        rcases List.mem_cons.mp hx with rfl | hx
        · exact hk
        · exact h3 x hx
      · obtain ⟨id, c, h1, h2, h3, h4⟩ := ih (some (b, cb)) hb (Or.inr rfl)
        have hk := h4 _ _ rfl
        refine ⟨id, c, by simpa [mostCommonFrom, hlt] using h1, h2, ?_, fun b' cb' h => by cases h; omega⟩
        intro x hx
        rcases List.mem_cons.mp hx with rfl | hx
        · omega
        · exact h3 x hx

theorem mostCommon_spec (l : List String) (hne : l ≠ []) :
    ∃ id c, mostCommon l = some (id, c) ∧ c = l.count id ∧ ∀ x, l.count x ≤ c := by
  obtain ⟨id, c, h1, h2, h3, _⟩ := mostCommonFrom_spec l l none (fun b cb h => by cases h) (Or.inl hne)
  refine ⟨id, c, h1, h2, fun x => ?_⟩
  by_cases hx : x ∈ l
  · exact h3 x hx
  · rw [List.count_eq_zero_of_not_mem hx]; exact Nat.zero_le _

theorem mostCommon_nil : mostCommon [] = none := rfl

/-- `_sanity_check` passes exactly when no individual is listed twice -/
theorem sanityCheck_ok_iff (trios : List PedLine) :
    sanityCheck trios = .ok () ↔ (trios.map (·.child)).Nodup := by
  unfold sanityCheck
  by_cases hne : trios.map (·.child) = []
  · rw [hne, mostCommon_nil]; simp
  · obtain ⟨id, c, h1, h2, h3⟩ := mostCommon_spec _ hne
    rw [h1]
    simp only
    constructor
    · intro h
      split at h
      · cases h
      · rename_i hc
        rw [List.nodup_iff_count]
        intro a
        have := h3 a
        omega
    · intro h
      rw [List.nodup_iff_count] at h
      have := h id
      have hc : ¬ 1 < c := by omega
      simp [hc]

/-- … and when it fails it names an individual that is listed at least twice -/
theorem sanityCheck_error (trios : List PedLine) (e : PedErr) (h : sanityCheck trios = .error e) :
    ∃ id, e = .duplicate id ∧ 2 ≤ (trios.map (·.child)).count id := by
  unfold sanityCheck at h
  by_cases hne : trios.map (·.child) = []
  · rw [hne, mostCommon_nil] at h; cases h
  · obtain ⟨id, c, h1, h2, h3⟩ := mostCommon_spec _ hne
    rw [h1] at h
    simp only at h
    split at h
    · rename_i hc
      cases h
      exact ⟨id, rfl, by omega⟩
    · cases h

/-! ### `_parse` -/

theorem parseAll_ok {ls : List (List Char)} {ts : List PedLine} (h : parseAll ls = .ok ts) :
    ls.map parseRecord = ts.map Except.ok := by
  induction ls generalizing ts with
  | nil => simp [parseAll] at h; subst h; rfl
  | cons l r ih =>
    unfold parseAll at h
    cases hp : parseRecord l with
    | error e => simp [hp] at h
    | ok t =>
      cases hr : parseAll r with
      | error e => simp [hp, hr] at h
      | ok ts' =>
        simp [hp, hr] at h
        subst h
        simp [hp, ih hr]

theorem parseAll_error {ls : List (List Char)} {e : PedErr} (h : parseAll ls = .error e) :
    ∃ l ∈ ls, parseRecord l = .error e := by
  induction ls with
  | nil => simp [parseAll] at h
  | cons l r ih =>
    unfold parseAll at h
    cases hp : parseRecord l with
    | error e' => simp [hp] at h; subst h; exact ⟨l, List.mem_cons_self, hp⟩
    | ok t =>
      cases hr : parseAll r with
      | error e' =>
        simp [hp, hr] at h; subst h
        obtain ⟨l', hl', h'⟩ := ih hr
        exact ⟨l', List.mem_cons_of_mem _ hl', h'⟩
      | ok ts' => simp [hp, hr] at h

theorem parseAll_of_all_ok {ls : List (List Char)} (h : ∀ l ∈ ls, ∃ t, parseRecord l = .ok t) :
    ∃ ts, parseAll ls = .ok ts := by
  cases hp : parseAll ls with
  | ok ts => exact ⟨ts, rfl⟩
  | error e =>
    obtain ⟨l, hl, he⟩ := parseAll_error hp
    obtain ⟨t, ht⟩ := h l hl
    rw [ht] at he; cases he

theorem parseRecord_ok {line : List Char} {t : PedLine} (h : parseRecord line = .ok t) :
    ∃ f0 ind pat mat f4 f5 rest, splitWs line = f0 :: ind :: pat :: mat :: f4 :: f5 :: rest ∧
      t = ⟨String.ofList ind, parentOf pat, parentOf mat⟩ := by
  unfold parseRecord at h
  split at h
  · rename_i f0 ind pat mat f4 f5 rest heq
    cases h
    exact ⟨f0, ind, pat, mat, f4, f5, rest, heq, rfl⟩
  · cases h

theorem parseRecord_error {line : List Char} {e : PedErr} (h : parseRecord line = .error e) :
    e = .fewFields ∧ (splitWs line).length < 6 := by
  unfold parseRecord at h
  split at h
  · cases h
  · rename_i hno
    cases h
    refine ⟨rfl, ?_⟩
    match hs : splitWs line with
    | [] | [_] | [_, _] | [_, _, _] | [_, _, _, _] | [_, _, _, _, _] => simp
    | f0 :: ind :: pat :: mat :: f4 :: f5 :: rest => exact absurd hs (hno f0 ind pat mat f4 f5 rest)

theorem parsePedChars_ok {text : List Char} {lines : List PedLine} (h : parsePedChars text = .ok lines) :
    parseAll (dataLines text) = .ok lines ∧ sanityCheck lines = .ok () := by
  unfold parsePedChars at h
  cases hp : parseAll (dataLines text) with
  | error e => simp [hp] at h
  | ok ts =>
    cases hs : sanityCheck ts with
    | error e => simp [hp, hs] at h
    | ok u => simp [hp, hs] at h; subst h; exact ⟨rfl, hs⟩

/-! ### `setup_pedigree` -/

theorem mem_keptTrios {samples : List String} {ped : List PedLine} {t : Trio} :
    t ∈ keptTrios samples ped ↔
      (⟨t.child, some t.father, some t.mother⟩ : PedLine) ∈ ped ∧ t.father ∈ samples ∧ t.mother ∈ samples ∧
        t.child ∈ samples := by
  simp only [keptTrios, List.mem_filterMap]
  constructor
  · rintro ⟨l, hl, h⟩
    cases l with
    | mk c f m =>
      cases f with
      | none => simp at h
      | some f =>
        cases m with
        | none => simp at h
        | some m =>
          simp only at h
          split at h
          · rename_i hc
            cases h
            simp only [Bool.and_eq_true, List.contains_iff_mem] at hc
            exact ⟨hl, hc.1.1, hc.1.2, hc.2⟩
          · cases h
  · rintro ⟨hl, hf, hm, hc⟩
    refine ⟨_, hl, ?_⟩
    simp [hf, hm, hc]

theorem keptTrios_children_sublist (samples : List String) (ped : List PedLine) :
    ((keptTrios samples ped).map (·.child)).Sublist (ped.map (·.child)) := by
  induction ped with
  | nil => simp [keptTrios]
  | cons l r ih =>
    simp only [keptTrios, List.filterMap_cons, List.map_cons] at ih ⊢
    split
    · exact List.Sublist.cons _ ih
    · rename_i t ht
      have : t.child = l.child := by
        cases l with
        | mk c f m =>
          cases f <;> cases m <;> simp at ht
          rw [← ht.2]
      simp only [List.map_cons, this]
      exact List.Sublist.cons₂ _ ih

/-! ### `samples()` -/

theorem dedupStr_filter (p : String → Bool) (l : List String) : dedupStr (l.filter p) = (dedupStr l).filter p := by
  induction l with
  | nil => rfl
  | cons x xs ih =>
    by_cases hp : p x = true
    · simp only [List.filter_cons, hp, if_true, dedupStr, ih, List.filter_filter]
      congr 1
      apply List.filter_congr
      intro y _
      exact Bool.and_comm _ _
    · simp only [List.filter_cons, hp, dedupStr, ih, List.filter_filter]
      simp only [Bool.false_eq_true, if_false, ih]
      apply List.filter_congr
      intro y _
      by_cases hy : p y = true
      · have : y ≠ x := by rintro rfl; exact hp hy
        simp [hy, this]
      · simp [hy]

theorem foldl_dictAdd (xs : List String) : ∀ acc : List String,
    xs.foldl dictAdd acc = acc ++ dedupStr (xs.filter (fun x => !acc.contains x)) := by
  induction xs with
  | nil => intro acc; simp [dedupStr]
  | cons x xs ih =>
    intro acc
    rw [List.foldl_cons, ih]
    by_cases hx : x ∈ acc
    · have hc : acc.contains x = true := by simpa using hx
      simp [dictAdd, hx, List.filter_cons]
    · have hc : acc.contains x = false := by simpa using hx
      simp only [dictAdd, hc, Bool.false_eq_true, if_false, List.filter_cons, Bool.not_false, if_true, dedupStr,
        List.append_assoc, List.singleton_append]
      congr 2
      rw [← dedupStr_filter, List.filter_filter]
      congr 1
      apply List.filter_congr
      intro y _
      by_cases hy : y = x
      · subst hy; simp
      · simp [hy, hc]

theorem pedSamples_eq (trios : List PedLine) : pedSamples trios = dedupStr (mentions trios) := by
  unfold pedSamples
  rw [foldl_dictAdd]
  have : (mentions trios).filter (fun x => !([] : List String).contains x) = mentions trios :=
    List.filter_eq_self.mpr (fun a _ => by simp)
  rw [this]; rfl

theorem dedupStr_sublist (l : List String) : (dedupStr l).Sublist l := by
  induction l with
  | nil => exact List.Sublist.slnil
  | cons x xs ih => exact List.Sublist.cons₂ _ (List.filter_sublist.trans ih)

/-! ### the per-child dict of `write_recombination_list` -/

theorem zipIdx_filterMap_nil (child : String) (g : Nat → Nat) : ∀ (cs : List String) (n : Nat), child ∉ cs →
    (cs.zipIdx n).filterMap (fun ck => if ck.1 == child then some (g ck.2) else none) = []
  | [], _, _ => rfl
  | c :: cs, n, h => by
    have hc : (c == child) = false := by
      have : c ≠ child := fun e => h (e ▸ List.mem_cons_self)
      simpa using this
    have ht : child ∉ cs := fun e => h (List.mem_cons_of_mem _ e)
    simp only [List.zipIdx_cons, List.filterMap_cons, hc, Bool.false_eq_true, if_false]
    exact zipIdx_filterMap_nil child g cs (n + 1) ht

theorem zipIdx_filterMap_single (child : String) (g : Nat → Nat) : ∀ (cs : List String) (n j : Nat), cs.Nodup →
    cs[j]? = some child →
    (cs.zipIdx n).filterMap (fun ck => if ck.1 == child then some (g ck.2) else none) = [g (n + j)]
  | [], _, _, _, h => by simp at h
  | c :: cs, n, 0, hnd, h => by
    have hcc : c = child := by simpa using h
    subst hcc
    have := zipIdx_filterMap_nil c g cs (n + 1) (List.nodup_cons.mp hnd).1
    simp only [List.zipIdx_cons, List.filterMap_cons, beq_self_eq_true, if_true, this, Nat.add_zero]
  | c :: cs, n, j + 1, hnd, h => by
    have h' : cs[j]? = some child := by simpa using h
    have hmem : child ∈ cs := List.mem_of_getElem? h'
    have hc : (c == child) = false := by
      have : c ≠ child := fun e => (List.nodup_cons.mp hnd).1 (e ▸ hmem)
      simpa using this
    have := zipIdx_filterMap_single child g cs (n + 1) j (List.nodup_cons.mp hnd).2 h'
    simp only [List.zipIdx_cons, List.filterMap_cons, hc, Bool.false_eq_true, if_false, this]
    rw [show n + 1 + j = n + (j + 1) by omega]

/-- with distinct child names (what `_sanity_check` guarantees) the dict entry of the `k`-th trio is its own vector -/
theorem tvDict_eq (tv : List Nat) (children : List String) (hnd : children.Nodup) (k : Nat) (child : String)
    (h : children[k]? = some child) : tvDict tv children child = tvOfTrio tv k := by
  unfold tvDict tvOfTrio
  induction tv with
  | nil => rfl
  | cons v r ih =>
    have h0 := zipIdx_filterMap_single child (fun k => (v / 4 ^ k) % 4) children 0 k hnd h
    simp only [Nat.zero_add] at h0
    have h1 : (children.zipIdx.filterMap fun ck => if ck.1 == child then some ((v / 4 ^ ck.2) % 4) else none)
        = [(v / 4 ^ k) % 4] := h0
    simp only [List.flatMap_cons, List.map_cons, ih, h1, List.singleton_append]

theorem assertsHold_of (tv : List Nat) (comps : List (Nat × Nat)) (positions recomb : List Nat)
    (h1 : tv.length = positions.length) (h2 : recomb.length = max 1 positions.length)
    (h3 : ∀ pc ∈ comps, pc.1 ∈ positions) : assertsHold true tv comps positions recomb = true := by
  simp only [assertsHold, h1, h2, if_true, beq_self_eq_true, Bool.true_and, List.all_eq_true]
  intro pc hpc
  simpa using h3 pc hpc

theorem recombRowsALoop_eq (i : Inst) (hnd : i.children.Nodup) (h1 : i.tv.length = i.positions.length)
    (h2 : i.recomb.length = max 1 i.positions.length) (h3 : ∀ pc ∈ i.comps, pc.1 ∈ i.positions) :
    ∀ (rest : List String) (k : Nat), i.children.drop k = rest →
      recombRowsALoop true i rest = some (recombRowsFrom i k rest)
  | [], _, _ => rfl
  | child :: rest, k, hd => by
    have hk : i.children[k]? = some child := by
      have := congrArg List.head? hd
      simpa [List.head?_drop] using this
    have hd' : i.children.drop (k + 1) = rest := by
      have := congrArg List.tail hd
      simpa [List.tail_drop] using this
    have ha : assertsHold true (tvOfTrio i.tv k) i.comps i.positions i.recomb = true :=
      assertsHold_of _ _ _ _ (by simp [tvOfTrio, h1]) h2 h3
    simp only [recombRowsALoop, tvDict_eq i.tv i.children hnd k child hk, findRecombinationA, ha, if_true,
      recombRowsALoop_eq i hnd h1 h2 h3 rest (k + 1) hd', Option.map_some, recombRowsFrom]
    rfl

/-! ### completeness and order of the events -/

theorem scanBlock_complete {positions tv recomb : List Nat} : ∀ (pre l : List Nat) (a c : Nat) (suf : List Nat),
    l = pre ++ a :: c :: suf → atPos positions tv a ≠ atPos positions tv c →
    mkEvent positions tv recomb a c ∈ scanBlock positions tv recomb l
  | [], l, a, c, suf, hl, hne => by
    subst hl
    simp [scanBlock, hne]
  | [x], l, a, c, suf, hl, hne => by
    subst hl
    have := scanBlock_complete (positions := positions) (tv := tv) (recomb := recomb) [] (a :: c :: suf) a c suf rfl hne
    show _ ∈ scanBlock positions tv recomb (x :: a :: c :: suf)
    rw [scanBlock]
    exact List.mem_append_right _ this
  | x :: y :: pre, l, a, c, suf, hl, hne => by
    subst hl
    have := scanBlock_complete (positions := positions) (tv := tv) (recomb := recomb) (y :: pre) _ a c suf rfl hne
    show _ ∈ scanBlock positions tv recomb (x :: y :: (pre ++ a :: c :: suf))
    rw [scanBlock]
    exact List.mem_append_right _ this

theorem scanBlock_p1_sublist (P tv R : List Nat) : ∀ l : List Nat, ((scanBlock P tv R l).map (·.p1)).Sublist l
  | [] => by simp [scanBlock]
  | [a] => by simp [scanBlock]
  | a :: b :: rest => by
    have ih := scanBlock_p1_sublist P tv R (b :: rest)
    simp only [scanBlock]
    split
    · simp only [List.singleton_append, List.map_cons, mkEvent]
      exact List.Sublist.cons₂ a ih
    · simp only [List.nil_append]
      exact List.Sublist.cons a ih

theorem keys_functional : ∀ (comps : List (Nat × Nat)), (comps.map (·.1)).Nodup → ∀ p b b', (p, b) ∈ comps →
    (p, b') ∈ comps → b = b'
  | [], _, _, _, _, h, _ => by cases h
  | (q, c) :: rest, hnd, p, b, b', h1, h2 => by
    simp only [List.map_cons, List.nodup_cons, List.mem_map, not_exists, not_and] at hnd
    rcases List.mem_cons.mp h1 with e1 | m1 <;> rcases List.mem_cons.mp h2 with e2 | m2
    · cases e1; cases e2; rfl
    · cases e1; exact absurd rfl (hnd.1 _ m2)
    · cases e2; exact absurd rfl (hnd.1 _ m1)
    · exact keys_functional rest hnd.2 p b b' m1 m2

theorem mem_blockOf {comps : List (Nat × Nat)} {b p : Nat} : p ∈ blockOf comps b ↔ (p, b) ∈ comps := by
  unfold blockOf
  rw [(sortNat_perm _).mem_iff]
  simp only [List.mem_map, List.mem_filter, beq_iff_eq]
  constructor
  · rintro ⟨⟨p', b'⟩, ⟨hm, hb'⟩, hpp⟩
    simp only at hb' hpp
    subst hb' hpp
    exact hm
  · intro h
    exact ⟨(p, b), ⟨h, rfl⟩, rfl⟩

theorem blockOf_nodup {comps : List (Nat × Nat)} (hk : (comps.map (·.1)).Nodup) (b : Nat) : (blockOf comps b).Nodup := by
  unfold blockOf
  rw [(sortNat_perm _).nodup_iff]
  exact List.Nodup.sublist (List.Sublist.map _ List.filter_sublist) hk

theorem nodup_eraseDupsNat : ∀ (n : Nat) (l : List Nat), l.length ≤ n → l.eraseDups.Nodup
  | _, [], _ => by simp
  | 0, _ :: _, h => by simp at h
  | n + 1, a :: as, h => by
    rw [List.eraseDups_cons, List.nodup_cons]
    refine ⟨fun hm => ?_, nodup_eraseDupsNat n _ ?_⟩
    · have := (List.mem_filter.mp (List.mem_eraseDups.mp hm)).2
      simp at this
    · have := List.length_filter_le (fun b => !b == a) as
      simp only [List.length_cons] at h
      omega

theorem insertEv_perm (e : RecEvent) (l : List RecEvent) : (insertEv e l).Perm (e :: l) := by
  induction l with
  | nil => simp [insertEv]
  | cons x r ih =>
    unfold insertEv
    split
    · exact List.Perm.refl _
    · exact ((List.Perm.cons x ih).trans (List.Perm.swap e x r))

theorem sortEv_perm (l : List RecEvent) : (sortEv l).Perm l := by
  induction l with
  | nil => exact List.Perm.refl _
  | cons e r ih => exact (insertEv_perm e _).trans (List.Perm.cons e ih)

theorem evLe_total (a b : RecEvent) : evLe a b = true ∨ evLe b a = true := by
  simp only [evLe, Bool.or_eq_true, decide_eq_true_eq, Bool.and_eq_true, beq_iff_eq]
  omega

theorem evLe_trans {a b c : RecEvent} (h1 : evLe a b = true) (h2 : evLe b c = true) : evLe a c = true := by
  simp only [evLe, Bool.or_eq_true, decide_eq_true_eq, Bool.and_eq_true, beq_iff_eq] at *
  omega

theorem insertEv_sorted (e : RecEvent) (l : List RecEvent) (h : l.Pairwise (fun a b => evLe a b = true)) :
    (insertEv e l).Pairwise (fun a b => evLe a b = true) := by
  induction l with
  | nil => simp [insertEv]
  | cons x r ih =>
    unfold insertEv
    rw [List.pairwise_cons] at h
    split
    · rename_i hex
      rw [List.pairwise_cons]
      refine ⟨?_, List.pairwise_cons.mpr h⟩
      intro y hy
      rcases List.mem_cons.mp hy with rfl | hy
      · exact hex
      · exact evLe_trans hex (h.1 y hy)
    · rename_i hex
      have hxe : evLe x e = true := by
        rcases evLe_total e x with h' | h'
        · exact absurd h' hex
        · exact h'
      rw [List.pairwise_cons]
      refine ⟨?_, ih h.2⟩
      intro y hy
      rcases (mem_insertEv.mp hy) with rfl | hy
      · exact hxe
      · exact h.1 y hy

theorem sortEv_sorted (l : List RecEvent) : (sortEv l).Pairwise (fun a b => evLe a b = true) := by
  induction l with
  | nil => simp [sortEv]
  | cons e r ih => exact insertEv_sorted e _ ih

/-- with dict keys (distinct positions) no two events of one call start at the same position -/
theorem findRecombination_p1_nodup (tv : List Nat) (comps : List (Nat × Nat)) (positions recomb : List Nat)
    (hk : (comps.map (·.1)).Nodup) : ((findRecombination tv comps positions recomb).map (·.p1)).Nodup := by
  unfold findRecombination
  rw [((sortEv_perm _).map _).nodup_iff, List.map_flatMap]
  unfold List.Nodup
  rw [List.pairwise_flatMap]
  constructor
  · intro b _
    have hs := (scanBlock_p1_sublist positions tv recomb (blockOf comps b).tail).trans (List.tail_sublist _)
    exact List.Nodup.sublist hs (blockOf_nodup hk b)
  · have hb : (blockIds comps).Nodup := nodup_eraseDupsNat _ _ (Nat.le_refl _)
    refine List.Pairwise.imp ?_ hb
    intro b b' hne x hx y hy hxy
    subst hxy
    have hx' := ((scanBlock_p1_sublist positions tv recomb (blockOf comps b).tail).trans (List.tail_sublist _)).subset hx
    have hy' := ((scanBlock_p1_sublist positions tv recomb (blockOf comps b').tail).trans (List.tail_sublist _)).subset hy
    exact hne (keys_functional comps hk x b b' (mem_blockOf.mp hx') (mem_blockOf.mp hy'))

/-- … so the sorted events are strictly increasing in their first position -/
theorem findRecombination_strict (tv : List Nat) (comps : List (Nat × Nat)) (positions recomb : List Nat)
    (hk : (comps.map (·.1)).Nodup) :
    (findRecombination tv comps positions recomb).Pairwise (fun a b => a.p1 < b.p1) := by
  have h1 : (findRecombination tv comps positions recomb).Pairwise (fun a b => evLe a b = true) := sortEv_sorted _
  have h2 : (findRecombination tv comps positions recomb).Pairwise (fun a b => a.p1 ≠ b.p1) := by
    have := findRecombination_p1_nodup tv comps positions recomb hk
    unfold List.Nodup at this
    rwa [List.pairwise_map] at this
  refine (h1.and h2).imp ?_
  intro a b ⟨hle, hne⟩
  simp only [evLe, Bool.or_eq_true, decide_eq_true_eq, Bool.and_eq_true, beq_iff_eq] at hle
  omega

theorem pairwise_lt_unique {α} (f : α → Nat) : ∀ (l : List α), l.Pairwise (fun a b => f a < f b) →
    ∀ x ∈ l, ∀ y ∈ l, f x = f y → x = y
  | [], _, _, hx, _, _, _ => by cases hx
  | a :: r, h, x, hx, y, hy, hxy => by
    rw [List.pairwise_cons] at h
    rcases List.mem_cons.mp hx with hx' | hx' <;> rcases List.mem_cons.mp hy with hy' | hy'
    · rw [hx', hy']
    · have := h.1 y hy'; rw [hx'] at hxy; omega
    · have := h.1 x hx'; rw [hy'] at hxy; omega
    · exact pairwise_lt_unique f r h.2 x hx' y hy' hxy

/-- the rows of the `k`-th trio -/
def trioRows (i : Inst) (k : Nat) (child : String) : List RecRow :=
  (findRecombination (tvOfTrio i.tv k) i.comps i.positions i.recomb).map (toRecRow child i.chrom)

theorem recombRowsFrom_eq (i : Inst) : ∀ (cs : List String) (k : Nat),
    recombRowsFrom i k cs = (cs.zipIdx k).flatMap (fun ck => trioRows i ck.2 ck.1)
  | [], _ => rfl
  | c :: cs, k => by
    simp only [recombRowsFrom, List.zipIdx_cons, List.flatMap_cons, recombRowsFrom_eq i cs (k + 1)]
    rfl

theorem atPos_tvOfTrio_lt (positions tv : List Nat) (k p : Nat) : atPos positions (tvOfTrio tv k) p < 4 := by
  unfold atPos tvOfTrio
  rw [List.getD_eq_getElem?_getD, List.getElem?_map]
  cases tv[indexOf positions p]? with
  | none => simp
  | some v => simp; omega

end WhVerif.C20

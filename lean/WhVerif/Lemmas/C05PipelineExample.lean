import WhVerif.Lemmas.C05PipelineThm
import WhVerif.Lemmas.C05SolverPed
/-!
# C05 pipeline: non-vacuity — a concrete trio with a NOISY read through all four stages

Father = individual 0 (`dad`), mother = 1 (`mom`), child = 2 (`kid`); header order `kid, dad, mom, other` (one
unrelated sample).  Two variants at 0-based positions 100 and 200:
`dad 0/1, mom 0/0, kid 0/1` and `dad 0/1, mom 0/1, kid 0/1` (the second is phaseable from reads only).
Reads: a child read `1,1` (weight 10), a contradicting NOISY child read `1,0` (weight 3), a father read `0` at column 1.
Optimal cost 3 (the noisy read is paid for), transmission values `[0, 0]`.
-/
namespace WhVerif.C05P
open WhVerif.C01 WhVerif.C04 WhVerif.C05.Solver

def exPed : Inst :=
  { ncols := 2
    reads := [ { ind := 2, first := 0, last := 1, entries := [(0, 1, 10), (1, 1, 10)] },
               { ind := 2, first := 0, last := 1, entries := [(0, 1, 3), (1, 0, 3)] },
               { ind := 0, first := 1, last := 1, entries := [(1, 0, 4)] } ]
    nind := 3
    trios := [(0, 1, 2)]
    geno := [ [[none, some 0, none], [none, some 0, none]],
              [[some 0, none, none], [none, some 0, none]],
              [[none, some 0, none], [none, some 0, none]] ]
    recomb := [0, 5] }

def exGt (a b : Nat) : Call := ⟨some [some a, some b], false, []⟩
def exRecords : List Record :=
  [⟨"chr1", 100, "A", ["C"], ["GT"],
      [("kid", exGt 0 1), ("dad", exGt 0 1), ("mom", exGt 0 0), ("other", exGt 1 1)]⟩,
   ⟨"chr1", 200, "G", ["T"], ["GT"],
      [("kid", exGt 0 1), ("dad", exGt 0 1), ("mom", exGt 0 1), ("other", exGt 0 1)]⟩]

def exStage (tag : Tag) : Stage :=
  ⟨exPed, [100, 200], ["dad", "mom", "kid"], ["kid", "dad", "mom", "other"], tag, exRecords, [100, 200], none, none⟩

theorem exPed_wf : WF exPed := by
  constructor
  intro r1 r2 h1 h2
  have hall : ∀ r2, r2 < 3 → ∀ r1, r1 ≤ r2 → (exPed.read r1).first ≤ (exPed.read r2).first := by decide
  exact hall r2 h2 r1 h1

theorem exPed_pedOK : PedOK exPed :=
  pedOK_trio exPed 0 1 2 rfl (by decide) (by decide) (by decide) (by decide) (by decide)

theorem exPed_trusted : Trusted exPed := by
  have hall : ∀ ind, ind < 3 → ∀ c, c < 2 → (trustedGeno exPed ind c).isSome = true := by decide
  exact hall

theorem exPed_witness : witness exPed = some ([false, false, false], [0, 0]) := by decide +kernel

theorem exPed_cost : dpCost exPed = some 3 := by decide +kernel

theorem exStage_comps (tag : Tag) : components (exStage tag) = .ok [(100, 100), (200, 100)] := by
  have h : (components (exStage tag)).toOption = some [(100, 100), (200, 100)] := by cases tag <;> decide +kernel
  cases hc : components (exStage tag) with
  | error e => rw [hc] at h; cases h
  | ok c => rw [hc] at h; simp only [Except.toOption, Option.some.injEq] at h; rw [h]

theorem exStage_ok (tag : Tag) : PedPipelineOk (exStage tag) := by
  refine ⟨by simp [exStage], rfl, rfl, by simp [exStage], by simp [exStage], ?_, ?_, ?_, by simp [exStage, exRecords]⟩
  · intro r hr
    simp only [exStage, exRecords, List.mem_cons, List.not_mem_nil, or_false] at hr
    rcases hr with rfl | rfl <;> rfl
  · intro r hr nc hnc
    simp only [exStage, exRecords, List.mem_cons, List.not_mem_nil, or_false] at hr
    rcases hr with rfl | rfl <;> simp only [List.mem_cons, List.not_mem_nil, or_false] at hnc <;>
      rcases hnc with rfl | rfl | rfl | rfl <;> exact ⟨fun k _ => rfl, fun h => by cases h⟩
  · intro r hr nc hnc _
    simp only [exStage, exRecords, List.mem_cons, List.not_mem_nil, or_false] at hr
    rcases hr with rfl | rfl <;> simp only [List.mem_cons, List.not_mem_nil, or_false] at hnc <;>
      rcases hnc with rfl | rfl | rfl | rfl <;> exact ⟨rfl, rfl⟩

/-- decoded rows, per header sample `kid, dad, mom, other`: the child is `1|0` at both variants (ALT from the father,
REF from the mother), father `0|1`, mother unphased where homozygous, the unrelated sample untouched — with either tag -/
theorem exPipeline (tag : Tag) :
    (pipeline (exStage tag)).map (·.map rowPhases) =
      some [(100, [some ⟨some 101, [some 1, some 0]⟩, some ⟨some 101, [some 0, some 1]⟩, none, none]),
            (200, [some ⟨some 101, [some 1, some 0]⟩, some ⟨some 101, [some 0, some 1]⟩,
                   some ⟨some 101, [some 1, some 0]⟩, none])] := by
  cases tag <;> decide +kernel

/-- the solver's super-read columns of the example: no tie flag anywhere -/
theorem exColumns : solverColumns exPed = some [[(0, 1), (0, 0), (1, 0)], [(0, 1), (1, 0), (1, 0)]] := by
  decide +kernel

end WhVerif.C05P

namespace WhVerif.C05P
open WhVerif.C01 WhVerif.C04 WhVerif.C05.Solver

def exLinkOk (r : Record) (c ind : Nat) : Bool :=
  match clookup r.calls (["dad", "mom", "kid"].getD ind ""), trustedGeno exPed ind c with
  | some call, some g => gcode call.gt == genoAlleles g
  | _, _ => true

/-- the constraint table of `exPed` is the one built from the input genotypes of `exRecords` -/
theorem exStage_link (tag : Tag) : ∀ r ∈ (exStage tag).records, ∀ c, c < (exStage tag).I.ncols →
    r.pos = C02P.posAt (exStage tag).pos c → ∀ ind, ind < (exStage tag).I.nind → ∀ call g,
    clookup r.calls ((exStage tag).names.getD ind "") = some call → trustedGeno (exStage tag).I ind c = some g →
    gcode call.gt = genoAlleles g := by
  have hall : ∀ r ∈ exRecords, ∀ c, c < 2 → r.pos = C02P.posAt [100, 200] c → ∀ ind, ind < 3 →
      exLinkOk r c ind = true := by decide +kernel
  intro r hr c hc hp ind hi call g h1 h2
  have := hall r hr c hc hp ind hi
  have h1' : clookup r.calls (["dad", "mom", "kid"].getD ind "") = some call := h1
  have h2' : trustedGeno exPed ind c = some g := h2
  unfold exLinkOk at this
  rw [h1', h2'] at this
  exact beq_iff_eq.mp this

end WhVerif.C05P

import WhVerif.Spec.C06NoRef
/-! Lemmas for `noref_snv_correct`: one SNV entry through the match / deletion handler and the pop loop. -/
namespace WhVerif.C06

theorem pyGet_nat {α} (l : List α) (n : Nat) : pyGet l (n : Int) = l[n]? := by
  unfold pyGet
  have : ¬ ((n : Int) < 0) := by omega
  simp [this]

/-- the state of an SNV allele after the match handler: resolved with the base's quality, or failed -/
def outcomeAP (hit : Bool) (q : Nat) : AP :=
  if hit then ⟨1, 1, q, 1, 1, 0, 0, 0, 0⟩ else ⟨-1, 1, 0, 0, 1, 0, 0, 0, 0⟩

theorem buildVarProgress_snv (v : Variant) (r a : Char) (hr : v.ref = [r]) (ha : v.alts = [[a]]) :
    buildVarProgress v = [AP.mk' 1 0 0, AP.mk' 1 0 0] := by
  simp [buildVarProgress, hr, ha]

theorem matchLoop_done (adv : Bool) (query : Seq) (quals : Option (List Nat)) (al : Seq) (qp : Int) (len fuel : Nat)
    (a : AP) (ops : Nat) (h : ¬ a.matched < a.matchTarget) : matchLoop adv query quals al qp len fuel a ops = .ok (a, ops) := by
  cases fuel with
  | zero => rfl
  | succ f => simp [matchLoop, h]

/-- the match handler on a fresh SNV allele whose base is `x`, query base `b` at offset `off` of the operation -/
theorem handleMatch_snv (adv : Bool) (query : Seq) (quals : Option (List Nat)) (e : Entry) (opQp len off i : Nat)
    (x b : Char) (hqs : e.queryStart = ((opQp + off : Nat) : Int)) (hoff : off < len)
    (hal : getAllele e.v i = some [x]) (hb : query[opQp + off]? = some b)
    (hql : ∀ l, quals = some l → opQp + off < l.length) :
    handleMatch adv query quals e opQp len i (AP.mk' 1 0 0) = .ok (outcomeAP (b == x) (qualAt quals (opQp + off))) := by
  unfold handleMatch
  have h0 : ¬ ((AP.mk' 1 0 0).progress < 0) := by simp [AP.mk']
  have hst : (e.queryStart - (opQp : Int)).toNat = off := by rw [hqs]; omega
  have hfuel : len - off = (len - off - 1) + 1 := by omega
  simp only [h0, if_false, hal, hst]
  rw [hfuel]
  have hqp : e.queryStart + ((AP.mk' 1 0 0).matched : Int) + ((AP.mk' 1 0 0).inserted : Int) = ((opQp + off : Nat) : Int) := by
    rw [hqs]; simp [AP.mk']
  rw [hqp]
  simp only [matchLoop, AP.mk', Nat.lt_irrefl, Nat.zero_lt_one, hoff, and_self, if_true, pyGet_nat, hb, Nat.add_zero,
    List.getElem?_cons_zero]
  by_cases hbx : (b == x) = true
  · simp only [hbx, if_true]
    cases quals with
    | none =>
      simp only []
      rw [matchLoop_done _ _ _ _ _ _ _ _ _ (by simp)]
      simp [outcomeAP, qualAt]
    | some l =>
      have hl := hql l rfl
      have : l[opQp + off]? = some (l.getD (opQp + off) 0) := by
        simp [List.getD, List.getElem?_eq_getElem hl]
      simp only [pyGet_nat, this]
      rw [matchLoop_done _ _ _ _ _ _ _ _ _ (by simp)]
      simp [outcomeAP, qualAt]
  · have hbx' : (b == x) = false := by simpa using hbx
    simp [hbx', outcomeAP, hoff]

/-- the queued entry of an SNV -/
def snvEntry (id : Nat) (v : Variant) (qs : Int) : Entry := ⟨id, v, qs, [AP.mk' 1 0 0, AP.mk' 1 0 0]⟩

theorem handleEntry_snv_match (adv : Bool) (op : Nat) (query : Seq) (quals : Option (List Nat)) (opQp len off id : Nat)
    (v : Variant) (r a b : Char) (hop : isMatch op = true) (hr : v.ref = [r]) (ha : v.alts = [[a]]) (hoff : off < len)
    (hb : query[opQp + off]? = some b) (hql : ∀ l, quals = some l → opQp + off < l.length) :
    handleEntry adv op query quals opQp len (snvEntry id v ((opQp + off : Nat) : Int)) =
      .ok ⟨id, v, ((opQp + off : Nat) : Int),
        [outcomeAP (b == r) (qualAt quals (opQp + off)), outcomeAP (b == a) (qualAt quals (opQp + off))]⟩ := by
  unfold handleEntry
  simp only [hop, if_true, snvEntry, mapIdxM]
  rw [handleMatch_snv adv query quals _ opQp len off 0 r b rfl hoff (by simp [getAllele, hr]) hb hql]
  rw [handleMatch_snv adv query quals _ opQp len off 1 a b rfl hoff (by simp [getAllele, hr, ha]) hb hql]
  rfl

theorem handleEntry_snv_delete (adv : Bool) (query : Seq) (quals : Option (List Nat)) (opQp len id : Nat) (v : Variant)
    (qs : Int) (hlen : 0 < len) :
    handleEntry adv 2 query quals opQp len (snvEntry id v qs) =
      .ok ⟨id, v, qs, [outcomeAP false 0, outcomeAP false 0]⟩ := by
  simp [handleEntry, isMatch, snvEntry, handleDelete, AP.mk', hlen, outcomeAP]
  rfl

/-- the call the pop loop makes for a handled SNV entry -/
def callOf (id : Nat) (h0 h1 : Bool) (q : Nat) : Option (Nat × Nat × Nat) :=
  if h0 then some (id, 0, q) else if h1 then some (id, 1, q) else none

theorem popResolved_cons_snv (id : Nat) (v : Variant) (qs : Int) (h0 h1 : Bool) (q : Nat) (hex : ¬ (h0 = true ∧ h1 = true))
    (es : List Entry) :
    popResolved (⟨id, v, qs, [outcomeAP h0 q, outcomeAP h1 q]⟩ :: es) =
      ((callOf id h0 h1 q).toList ++ (popResolved es).1, (popResolved es).2) := by
  cases h0 <;> cases h1
  · simp [popResolved, resolvedIdx, pendingIdx, enumFrom, outcomeAP, callOf]
  · simp [popResolved, resolvedIdx, pendingIdx, enumFrom, outcomeAP, callOf, yieldOf, pickLongest]
  · simp [popResolved, resolvedIdx, pendingIdx, enumFrom, outcomeAP, callOf, yieldOf, pickLongest]
  · simp at hex

theorem mapM'_map_ok {α β} (f : α → Except Err β) (g : α → β) (l : List α) (h : ∀ x ∈ l, f x = .ok (g x)) :
    mapM' f l = .ok (l.map g) := by
  induction l with
  | nil => rfl
  | cons x xs ih =>
    simp only [mapM', h x (by simp), ih (fun y hy => h y (by simp [hy]))]
    rfl

/-- the queue loop on SNVs for an M/=/X or D operation: every variant starting inside the operation is queued -/
theorem queueLoop_snv (sk : Bool) (op rp qp refEnd : Nat) (vps : List VP) (hop : op ≠ 1)
    (hsnv : ∀ p ∈ vps, p.2.ref.length = 1 ∧ buildVarProgress p.2 = [AP.mk' 1 0 0, AP.mk' 1 0 0]) :
    queueLoop sk op rp qp refEnd vps =
      ((vps.takeWhile (fun p => p.2.pos < refEnd)).map (fun p =>
          snvEntry p.1 p.2 (if op != 2 then (qp : Int) + p.2.pos - rp else qp)),
        vps.dropWhile (fun p => p.2.pos < refEnd)) := by
  induction vps with
  | nil => simp [queueLoop]
  | cons p rest ih =>
    obtain ⟨id, v⟩ := p
    have hv := hsnv (id, v) (by simp)
    have ih' := ih (fun p hp => hsnv p (by simp [hp]))
    simp only [queueLoop]
    by_cases hge : v.pos ≥ refEnd
    · have : ¬ v.pos < refEnd := by omega
      simp [hge, this]
    · have hlt : v.pos < refEnd := by omega
      have h1 : ¬ (op == 1) = true := by simpa using hop
      have hl0 : ¬ (v.ref.length == 0) = true := by simp [hv.1]
      simp only [hge, if_false, h1, false_and, hl0, and_false, ih', hv.2, List.takeWhile_cons, hlt, decide_true,
        if_true, List.map_cons, List.dropWhile_cons, snvEntry]
      simp

/-- an insertion queues no SNV -/
theorem queueLoop_snv_ins (sk : Bool) (rp qp refEnd : Nat) (vps : List VP) (hsnv : ∀ p ∈ vps, p.2.ref.length = 1) :
    queueLoop sk 1 rp qp refEnd vps = ([], vps) := by
  cases vps with
  | nil => simp [queueLoop]
  | cons p rest =>
    obtain ⟨id, v⟩ := p
    have hv := hsnv (id, v) (by simp)
    simp only [queueLoop]
    by_cases hge : v.pos ≥ refEnd
    · simp [hge]
    · simp [hge, hv]

/-- what the SNV theorems assume of a variant -/
def SnvV (v : Variant) : Prop := ∃ r a, v.ref = [r] ∧ v.alts = [[a]] ∧ r ≠ a

def SortedP (vps : List VP) : Prop := vps.Pairwise (fun a b => a.2.pos ≤ b.2.pos)

theorem snv_facts (v : Variant) (h : SnvV v) :
    v.ref.length = 1 ∧ buildVarProgress v = [AP.mk' 1 0 0, AP.mk' 1 0 0] := by
  obtain ⟨r, a, hr, ha, _⟩ := h
  exact ⟨by simp [hr], buildVarProgress_snv v r a hr ha⟩

theorem dropWhile_ge_sorted (vps : List VP) (hs : SortedP vps) (b : Nat) :
    ∀ p ∈ vps.dropWhile (fun p => p.2.pos < b), b ≤ p.2.pos := by
  induction vps with
  | nil => simp
  | cons v vs ih =>
    simp only [SortedP, List.pairwise_cons] at hs
    simp only [List.dropWhile_cons]
    by_cases hb : v.2.pos < b
    · simp only [hb, decide_true, if_true]; exact ih hs.2
    · simp only [hb, decide_false]
      intro w hw
      rcases List.mem_cons.1 hw with rfl | hw
      · omega
      · have := hs.1 w hw; omega

theorem sortedP_dropWhile (vps : List VP) (hs : SortedP vps) (p : VP → Bool) : SortedP (vps.dropWhile p) :=
  List.Pairwise.sublist (List.dropWhile_sublist p) hs

theorem mem_dropWhile_mem {α} (p : α → Bool) (l : List α) (x : α) (h : x ∈ l.dropWhile p) : x ∈ l :=
  (List.dropWhile_sublist p).subset h

theorem mem_takeWhile_both {α} (p : α → Bool) (l : List α) : ∀ v ∈ l.takeWhile p, p v = true ∧ v ∈ l := by
  induction l with
  | nil => simp
  | cons x xs ih =>
    intro v hv
    simp only [List.takeWhile_cons] at hv
    by_cases hx : p x = true
    · simp only [hx, if_true] at hv
      rcases List.mem_cons.1 hv with rfl | hv
      · exact ⟨hx, by simp⟩
      · exact ⟨(ih v hv).1, by simp [(ih v hv).2]⟩
    · simp [hx] at hv

theorem dropWhile_idem {α} (p : α → Bool) (l : List α) : (l.dropWhile p).dropWhile p = l.dropWhile p := by
  induction l with
  | nil => rfl
  | cons x xs ih =>
    simp only [List.dropWhile_cons]
    by_cases hx : p x = true
    · simp [hx, ih]
    · simp [hx, List.dropWhile_cons]

theorem snvExpected_dropWhile (query : Seq) (quals : Option (List Nat)) (rp qp : Nat) (l : List VP) (c : Cigar) :
    snvExpected query quals rp qp (l.dropWhile (fun p => p.2.pos < rp)) c = snvExpected query quals rp qp l c := by
  cases c with
  | nil => simp [snvExpected]
  | cons x rest => obtain ⟨op, len⟩ := x; simp only [snvExpected, dropWhile_idem]

/-- the pop loop after an M/=/X operation over handled SNV entries -/
theorem popResolved_snv_list {α} (l : List α) (mk : α → Entry) (call : α → Option (Nat × Nat × Nat))
    (h : ∀ x ∈ l, ∃ h0 h1 q, ¬ (h0 = true ∧ h1 = true) ∧
      mk x = ⟨(mk x).variantId, (mk x).v, (mk x).queryStart, [outcomeAP h0 q, outcomeAP h1 q]⟩ ∧
      call x = callOf (mk x).variantId h0 h1 q) :
    popResolved (l.map mk) = (l.filterMap call, []) := by
  induction l with
  | nil => simp [popResolved]
  | cons x xs ih =>
    obtain ⟨h0, h1, q, hex, hmk, hcall⟩ := h x (by simp)
    have ih' := ih (fun y hy => h y (by simp [hy]))
    simp only [List.map_cons]
    rw [hmk, popResolved_cons_snv _ _ _ h0 h1 q hex, ih', List.filterMap_cons, hcall]
    cases callOf (mk x).variantId h0 h1 q <;> simp

theorem callOf_eq_snvCall (query : Seq) (quals : Option (List Nat)) (id : Nat) (v : Variant) (r a b : Char) (q : Nat)
    (hr : v.ref = [r]) (ha : v.alts = [[a]]) (hb : query[q]? = some b) :
    callOf id (b == r) (b == a) (qualAt quals q) = snvCall query quals id v q := by
  unfold callOf snvCall
  simp only [hb, hr, ha]
  by_cases h1 : b = r
  · subst h1; simp
  · have h1' : ¬ r = b := fun e => h1 e.symm
    by_cases h2 : b = a
    · subst h2; simp [h1, h1']
    · have h2' : ¬ a = b := fun e => h2 e.symm
      simp [h1, h2, h1', h2']

/-- one M/=/X operation: every queued SNV is handled and popped with the call the spec demands -/
theorem match_step (adv : Bool) (op : Nat) (query : Seq) (quals : Option (List Nat)) (rp qp len : Nat) (T : List VP)
    (hm : isMatch op = true) (hT : ∀ p ∈ T, SnvV p.2 ∧ rp ≤ p.2.pos ∧ p.2.pos < rp + len)
    (hlen : qp + len ≤ query.length) (hquals : ∀ l, quals = some l → l.length = query.length) :
    ∃ es, mapM' (handleEntry adv op query quals qp len)
        (T.map (fun p => snvEntry p.1 p.2 ((qp : Int) + p.2.pos - rp))) = .ok es
      ∧ popResolved es = (T.filterMap (fun p => snvCall query quals p.1 p.2 (qp + (p.2.pos - rp))), []) := by
  induction T with
  | nil => exact ⟨[], rfl, rfl⟩
  | cons p rest ih =>
    obtain ⟨es, h1, h2⟩ := ih (fun q hq => hT q (by simp [hq]))
    obtain ⟨⟨r, a, hr, ha, hne⟩, hge, hlt⟩ := hT p (by simp)
    have hoff : p.2.pos - rp < len := by omega
    have hin : qp + (p.2.pos - rp) < query.length := by omega
    have hb : query[qp + (p.2.pos - rp)]? = some (query[qp + (p.2.pos - rp)]'hin) := List.getElem?_eq_getElem hin
    generalize query[qp + (p.2.pos - rp)]'hin = b at hb
    have hcast : (qp : Int) + (p.2.pos : Int) - (rp : Int) = ((qp + (p.2.pos - rp) : Nat) : Int) := by omega
    have hh := handleEntry_snv_match adv op query quals qp len (p.2.pos - rp) p.1 p.2 r a b hm hr ha hoff hb
      (fun l hl => by have := hquals l hl; omega)
    refine ⟨(⟨p.1, p.2, ((qp + (p.2.pos - rp) : Nat) : Int),
      [outcomeAP (b == r) (qualAt quals (qp + (p.2.pos - rp))), outcomeAP (b == a) (qualAt quals (qp + (p.2.pos - rp)))]⟩ : Entry)
      :: es, ?_, ?_⟩
    · simp only [List.map_cons, mapM', hcast, hh, h1]; rfl
    · have hex : ¬ ((b == r) = true ∧ (b == a) = true) := by
        intro ⟨e1, e2⟩
        have e1' : b = r := eq_of_beq e1
        have e2' : b = a := eq_of_beq e2
        exact hne (e1'.symm.trans e2')
      rw [popResolved_cons_snv _ _ _ _ _ _ hex, h2, List.filterMap_cons,
        callOf_eq_snvCall query quals p.1 p.2 r a b _ hr ha hb]
      cases snvCall query quals p.1 p.2 (qp + (p.2.pos - rp)) <;> simp

/-- one D operation: every queued SNV fails and is discarded -/
theorem delete_step (adv : Bool) (query : Seq) (quals : Option (List Nat)) (qp len : Nat) (T : List VP) (hlen : T ≠ [] → 0 < len) :
    ∃ es, mapM' (handleEntry adv 2 query quals qp len) (T.map (fun p => snvEntry p.1 p.2 (qp : Int))) = .ok es
      ∧ popResolved es = ([], []) := by
  induction T with
  | nil => exact ⟨[], rfl, rfl⟩
  | cons p rest ih =>
    have hl : 0 < len := hlen (by simp)
    obtain ⟨es, h1, h2⟩ := ih (fun _ => hl)
    refine ⟨(⟨p.1, p.2, (qp : Int), [outcomeAP false 0, outcomeAP false 0]⟩ : Entry) :: es, ?_, ?_⟩
    · simp only [List.map_cons, mapM', handleEntry_snv_delete adv query quals qp len p.1 p.2 _ hl, h1]; rfl
    · rw [popResolved_cons_snv _ _ _ false false 0 (by simp), h2]; simp [callOf]

theorem isMatch_cases (op : Nat) (hop : op ≤ 8) (h1 : op ≠ 1) (h2 : op ≠ 2) (h3 : op ≠ 3) (h4 : op ≠ 4) (h5 : op ≠ 5)
    (h6 : op ≠ 6) : isMatch op = true := by
  have : op = 0 ∨ op = 7 ∨ op = 8 := by omega
  rcases this with rfl | rfl | rfl <;> decide

/-- `noref_snv_correct`, core: with an empty queue, SNV-only variants sorted by position, a query long enough for the
CIGAR, and operators 0–8, the state machine produces exactly `snvExpected` and no error -/
theorem noRefGo_snv (fx : Fixes) (query : Seq) (quals : Option (List Nat)) (c : Cigar) (hops : ∀ p ∈ c, p.1 ≤ 8)
    (hquals : ∀ l, quals = some l → l.length = query.length)
    (anch : Bool) (rp qp : Nat) (vps : List VP) (hsnv : ∀ p ∈ vps, SnvV p.2) (hs : SortedP vps)
    (hlen : qp + qLen c ≤ query.length) :
    noRefGo fx query quals anch rp qp vps [] c = (snvExpected query quals rp qp vps c, none) := by
  induction c generalizing anch rp qp vps with
  | nil => simp [noRefGo, snvExpected, flushQueue]
  | cons x rest ih =>
    obtain ⟨op, len⟩ := x
    have hop : op ≤ 8 := hops (op, len) (by simp)
    have ih' := fun anch rp qp vps h1 h2 h3 => ih (fun p hp => hops p (by simp [hp])) anch rp qp vps h1 h2 h3
    have hsnv1 : ∀ p ∈ vps.dropWhile (fun p => decide (p.2.pos < rp)), SnvV p.2 :=
      fun p hp => hsnv p (mem_dropWhile_mem _ _ _ hp)
    have hs1 := sortedP_dropWhile vps hs (fun p => decide (p.2.pos < rp))
    have hge1 := dropWhile_ge_sorted vps hs rp
    simp only [noRefGo, snvExpected]
    generalize vps.dropWhile (fun p => decide (p.2.pos < rp)) = vps1 at hsnv1 hs1 hge1 ⊢
    have hsnv2 : ∀ p ∈ vps1.dropWhile (fun p => decide (p.2.pos < rp + len)), SnvV p.2 :=
      fun p hp => hsnv1 p (mem_dropWhile_mem _ _ _ hp)
    have hs2 := sortedP_dropWhile vps1 hs1 (fun p => decide (p.2.pos < rp + len))
    simp only [qLen] at hlen
    by_cases h3 : op = 3
    · subst h3
      have hq : consumesQuery 3 = false := by decide
      have hm : isMatch 3 = false := by decide
      simp only [hq, Bool.false_eq_true, if_false, Nat.zero_add] at hlen
      simp only [beq_self_eq_true, if_true, hm, Bool.false_eq_true, if_false]
      rw [ih' false (rp + len) qp vps1 hsnv1 hs1 hlen]
      simp [snvExpected_dropWhile]
    · have h3' : (op == 3) = false := by simpa using h3
      simp only [h3', Bool.false_eq_true, if_false]
      by_cases h4 : op = 4
      · subst h4
        have hq : consumesQuery 4 = true := by decide
        have hm : isMatch 4 = false := by decide
        simp only [hq, if_true] at hlen
        simp only [beq_self_eq_true, if_true, hm, Bool.false_eq_true, if_false]
        rw [ih' anch rp (qp + len) vps1 hsnv1 hs1 (by omega)]
        simp
      · have h4' : (op == 4) = false := by simpa using h4
        simp only [h4', Bool.false_eq_true, if_false]
        by_cases h56 : op = 5 ∨ op = 6
        · have h56' : (op == 5 || op == 6) = true := by rcases h56 with rfl | rfl <;> decide
          have hm : isMatch op = false := by rcases h56 with rfl | rfl <;> decide
          have hq : consumesQuery op = false := by rcases h56 with rfl | rfl <;> decide
          have h1 : (op == 1) = false := by rcases h56 with rfl | rfl <;> decide
          have h2 : (op == 2) = false := by rcases h56 with rfl | rfl <;> decide
          simp only [hq, Bool.false_eq_true, if_false, Nat.zero_add] at hlen
          simp only [h56', if_true, hm, Bool.false_eq_true, if_false, h1, h2, h3', h4', Bool.or_self]
          exact ih' anch rp qp vps1 hsnv1 hs1 hlen
        · have h5 : op ≠ 5 := fun e => h56 (Or.inl e)
          have h6 : op ≠ 6 := fun e => h56 (Or.inr e)
          have h56' : (op == 5 || op == 6) = false := by simp [h5, h6]
          simp only [h56', Bool.false_eq_true, if_false]
          by_cases h1 : op = 1
          · subst h1
            have hq : consumesQuery 1 = true := by decide
            have hm : isMatch 1 = false := by decide
            simp only [hq, if_true] at hlen
            rw [queueLoop_snv_ins _ _ _ _ _ (fun p hp => (snv_facts p.2 (hsnv1 p hp)).1)]
            have e12 : ((1 : Nat) == 2) = false := by decide
            simp only [List.append_nil, hm, Bool.false_or, beq_self_eq_true, Bool.true_or, Bool.not_true,
              Bool.false_eq_true, if_false, mapM', popResolved, List.nil_append, if_true, e12]
            rw [ih' true rp (qp + len) vps1 hsnv1 hs1 (by omega)]
          · have h1' : (op == 1) = false := by simpa using h1
            have hend : (if (fx.f16 && op == 1) = true then rp + 1 else rp + len) = rp + len := by simp [h1']
            rw [hend, queueLoop_snv _ op rp qp (rp + len) vps1 h1 (fun p hp => snv_facts p.2 (hsnv1 p hp))]
            simp only [List.nil_append]
            have hT : ∀ p ∈ vps1.takeWhile (fun p => decide (p.2.pos < rp + len)),
                SnvV p.2 ∧ rp ≤ p.2.pos ∧ p.2.pos < rp + len := by
              intro p hp
              have hp' := mem_takeWhile_both _ _ p hp
              exact ⟨hsnv1 p hp'.2, hge1 p hp'.2, by simpa using hp'.1⟩
            by_cases h2 : op = 2
            · subst h2
              have hq : consumesQuery 2 = false := by decide
              have hm : isMatch 2 = false := by decide
              simp only [hq, Bool.false_eq_true, if_false, Nat.zero_add] at hlen
              have hne : ((2 : Nat) != 2) = false := by decide
              simp only [hne, Bool.false_eq_true, if_false]
              obtain ⟨es, he1, he2⟩ := delete_step fx.f13 query quals qp len
                (vps1.takeWhile (fun p => decide (p.2.pos < rp + len))) (by
                  intro hne
                  obtain ⟨p, hp⟩ := List.exists_mem_of_ne_nil _ hne
                  have := hT p hp; omega)
              simp only [he1, he2, hm, Bool.false_or, beq_self_eq_true, Bool.or_true, Bool.not_true, Bool.false_eq_true,
                if_false, if_true, List.nil_append, Nat.reduceBEq]
              rw [ih' true (rp + len) qp _ hsnv2 hs2 hlen]
              simp
            · have hm : isMatch op = true := isMatch_cases op hop h1 h2 h3 h4 h5 h6
              have hne : (op != 2) = true := by simp [h2]
              have hq : consumesQuery op = true := by simp [consumesQuery, hm]
              simp only [hq, if_true] at hlen
              simp only [hne, if_true]
              obtain ⟨es, he1, he2⟩ := match_step fx.f13 op query quals rp qp len
                (vps1.takeWhile (fun p => decide (p.2.pos < rp + len))) hm hT (by omega) hquals
              simp only [he1, he2, hm, Bool.true_or, Bool.not_true, Bool.false_eq_true, if_false, if_true]
              rw [ih' true (rp + len) (qp + len) _ hsnv2 hs2 (by omega)]

theorem normalize_snv (v : Variant) (h : SnvV v) : normalize v = v := by
  obtain ⟨r, a, hr, ha, hne⟩ := h
  obtain ⟨pos, ref, alts⟩ := v
  simp only at hr ha
  subst hr ha
  have h1 : (a == r) = false := by simpa using fun e : a = r => hne e.symm
  simp [normalize, stripSuffix, stripPrefix, h1]

theorem nonOverlapGo_snv (vs : List Variant) (seen : List Nat) (idx : Nat) (hsnv : ∀ v ∈ vs, SnvV v)
    (hseen : ∀ v ∈ vs, v.pos ∉ seen) (hd : vs.Pairwise (fun a b => a.pos < b.pos)) :
    nonOverlapGo seen idx vs = List.range' idx vs.length := by
  induction vs generalizing seen idx with
  | nil => simp [nonOverlapGo]
  | cons v rest ih =>
    obtain ⟨r, a, hr, ha, _⟩ := hsnv v (by simp)
    simp only [List.pairwise_cons] at hd
    have hc : seen.contains v.pos = false := by
      have := hseen v (by simp)
      simpa using this
    have hdel : (v.alts.any fun a => decide (a.length < v.ref.length)) = false := by simp [hr, ha]
    rw [nonOverlapGo]
    simp only [hc, Bool.false_eq_true, if_false, hdel, Bool.false_and, List.length_cons, List.range'_succ]
    congr 1
    apply ih (v.pos :: seen) (idx + 1) (fun w hw => hsnv w (by simp [hw]))
    · intro w hw
      have h1 := hd.1 w hw
      have h2 := hseen w (by simp [hw])
      simp only [List.mem_cons, not_or]
      exact ⟨by omega, h2⟩
    · exact hd.2

theorem filterMap_range'_enum {α} (pre suf : List α) :
    (List.range' pre.length suf.length).filterMap (fun id => ((pre ++ suf)[id]?).map (fun v => (id, v))) =
      enumFrom pre.length suf := by
  induction suf generalizing pre with
  | nil => simp [enumFrom]
  | cons x xs ih =>
    simp only [List.length_cons, List.range'_succ, List.filterMap_cons, enumFrom]
    have h0 : (pre ++ x :: xs)[pre.length]? = some x := by simp
    simp only [h0, Option.map_some]
    congr 1
    have := ih (pre ++ [x])
    simpa using this

end WhVerif.C06

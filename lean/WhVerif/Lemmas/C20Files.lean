import WhVerif.Model.C20Files
/-! Helper lemmas for the file-level state machine of C20 (fold invariants). -/
namespace WhVerif.Lemmas.C20Files
open WhVerif.C20 WhVerif.C04

/-! ### piecewise writing with a `started` flag -/

abbrev PW := FileC × Bool

def pwStep (header : String) (a : PW) (p : List String) : PW := (writePiece a.2 header a.1 p, true)

theorem pw_chain (header : String) : ∀ (pieces : List (List String)) (a : PW),
    pieces.foldl (pwStep header) a =
      if pieces = [] then a else (some ((if a.2 then a.1.getD [] else [header]) ++ pieces.flatten), true) := by
  intro pieces
  induction pieces with
  | nil => intro a; rfl
  | cons p rest ih =>
    intro a
    rw [List.foldl_cons, ih]
    obtain ⟨old, started⟩ := a
    by_cases hr : rest = []
    · subst hr
      cases started <;> simp [pwStep, writePiece]
    · cases started <;> simp [hr, pwStep, writePiece, List.append_assoc]

/-! ### the per-chromosome sample → components dict -/

theorem scAssign_eq (sc : SampleComps) (members : List String) (comps : List (Nat × Nat)) :
    scAssign sc members comps = (members.reverse.map (fun s => (s, comps))) ++ sc := by
  unfold scAssign
  induction members generalizing sc with
  | nil => rfl
  | cons m t ih => simp [List.foldl_cons, ih]

theorem scLookup_assign (sc : SampleComps) (members : List String) (comps : List (Nat × Nat)) (s : String)
    (h : s ∈ members) : scLookup (scAssign sc members comps) s = some comps := by
  rw [scAssign_eq]
  unfold scLookup
  rw [List.find?_append]
  have hex : ∃ p, (members.reverse.map (fun s => (s, comps))).find? (fun p => p.1 == s) = some p ∧ p.2 = comps := by
    have hm : (s, comps) ∈ members.reverse.map (fun s => (s, comps)) :=
      List.mem_map.mpr ⟨s, List.mem_reverse.mpr h, rfl⟩
    cases hf : (members.reverse.map (fun s => (s, comps))).find? (fun p => p.1 == s) with
    | none =>
      have := List.find?_eq_none.mp hf _ hm
      simp at this
    | some p =>
      refine ⟨p, rfl, ?_⟩
      obtain ⟨x, _, hx⟩ := List.mem_map.mp (List.mem_of_find?_eq_some hf)
      rw [← hx]
  obtain ⟨p, hp, hpc⟩ := hex
  rw [hp]
  simp [hpc]

theorem filterMap_congr' {α β : Type} (f g : α → Option β) : ∀ (l : List α), (∀ x ∈ l, f x = g x) →
    l.filterMap f = l.filterMap g := by
  intro l
  induction l with
  | nil => intro _; rfl
  | cons a t ih =>
    intro h
    rw [List.filterMap_cons, List.filterMap_cons, h a (List.mem_cons_self ..),
      ih (fun x hx => h x (List.mem_cons_of_mem _ hx))]

theorem readListRowsS_eq (sc : SampleComps) (f : FamRun) (h : f.ReadsOfMembers) :
    readListRowsS (scAssign sc f.members f.inst.comps) f.inst = readListRows f.inst := by
  unfold readListRowsS readListRows
  apply filterMap_congr'
  intro rh hrh
  have hr : rh.1 ∈ f.inst.reads := (List.of_mem_zip hrh).1
  unfold readRowS
  rw [scLookup_assign _ _ _ _ (h rh.1 hr)]

/-! ### the family loop -/

/-- the lines the family loop appends to the read list, with the dict state threaded through -/
def readLinesS : SampleComps → List FamRun → List String
  | _, [] => []
  | sc, f :: r =>
    let sc' := scAssign sc f.members f.inst.comps
    (readListRowsS sc' f.inst).map renderReadRow ++ readLinesS sc' r

theorem readLinesS_eq (fams : List FamRun) (h : ∀ f ∈ fams, f.ReadsOfMembers) : ∀ sc,
    readLinesS sc fams = fams.flatMap (fun f => (readListRows f.inst).map renderReadRow) := by
  induction fams with
  | nil => intro sc; rfl
  | cons f r ih =>
    intro sc
    simp only [readLinesS, List.flatMap_cons]
    rw [readListRowsS_eq sc f (h f (List.mem_cons_self ..)), ih (fun g hg => h g (List.mem_cons_of_mem _ hg))]

def recPiece (f : FamRun) : List String := (recombRows f.inst).map renderRecRow

def recStepPW (o : Opts) (a : PW) (f : FamRun) : PW := if o.recList then pwStep recHeader a (recPiece f) else a

theorem famFold (o : Opts) : ∀ (fams : List FamRun) (st : FState × SampleComps),
    let r := (fams.foldl (famStepF o) st).1
    r.gt = st.1.gt ∧ r.gtStarted = st.1.gtStarted ∧
    (r.reco, r.recStarted) = fams.foldl (recStepPW o) (st.1.reco, st.1.recStarted) ∧
    r.read = if o.readList then st.1.read.map (· ++ readLinesS st.2 fams) else st.1.read := by
  intro fams
  induction fams with
  | nil =>
    intro st
    refine ⟨rfl, rfl, rfl, ?_⟩
    cases hrl : o.readList <;> cases hr : st.1.read <;> simp [readLinesS, hr]
  | cons f rest ih =>
    intro st
    have := ih (famStepF o st f)
    simp only [List.foldl_cons] at this ⊢
    obtain ⟨h1, h2, h3, h4⟩ := this
    refine ⟨?_, ?_, ?_, ?_⟩
    · rw [h1]; unfold famStepF; cases o.recList <;> cases o.readList <;> rfl
    · rw [h2]; unfold famStepF; cases o.recList <;> cases o.readList <;> rfl
    · rw [h3]
      congr 1
      unfold famStepF recStepPW pwStep
      cases o.recList <;> cases o.readList <;> rfl
    · rw [h4]
      unfold famStepF
      cases hrl : o.readList
      · cases o.recList <;> simp
      · cases o.recList <;> cases hr : st.1.read <;> simp [readLinesS, hr, List.append_assoc]


/-! ### the chromosome loop -/

def gtPiece (c : ChromF) : List String := c.gtChanges.map (renderGtRow c.name)

def gtStepPW (o : Opts) (a : PW) (c : ChromF) : PW := if o.gtList then pwStep gtHeader a (gtPiece c) else a

def readLinesRun (chroms : List ChromF) : List String := (selectedF chroms).flatMap (fun c => readLinesS [] c.families)

theorem chromFold (o : Opts) : ∀ (chroms : List ChromF) (s : FState),
    let r := chroms.foldl (chromStepF o) s
    (r.gt, r.gtStarted) = (selectedF chroms).foldl (gtStepPW o) (s.gt, s.gtStarted) ∧
    (r.reco, r.recStarted) = (allFams chroms).foldl (recStepPW o) (s.reco, s.recStarted) ∧
    r.read = if o.readList then s.read.map (· ++ readLinesRun chroms) else s.read := by
  intro chroms
  induction chroms with
  | nil =>
    intro s
    refine ⟨rfl, rfl, ?_⟩
    cases o.readList <;> cases hr : s.read <;> simp [readLinesRun, selectedF, hr]
  | cons c rest ih =>
    intro s
    simp only [List.foldl_cons]
    obtain ⟨h1, h2, h3⟩ := ih (chromStepF o s c)
    by_cases hs : c.selected = true
    · have hsel : selectedF (c :: rest) = c :: selectedF rest := by simp [selectedF, hs]
      have hall : allFams (c :: rest) = c.families ++ allFams rest := by simp [allFams, hsel]
      obtain ⟨f1, f2, f3, f4⟩ := famFold o c.families (s, [])
      simp only at f1 f2 f3 f4
      have hgt : ((chromStepF o s c).gt, (chromStepF o s c).gtStarted) = gtStepPW o (s.gt, s.gtStarted) c := by
        unfold chromStepF gtStepPW pwStep gtPiece
        simp only [hs, if_true]
        cases o.gtList
        · simp [f1, f2]
        · simp [f1, f2]
      have hrec : ((chromStepF o s c).reco, (chromStepF o s c).recStarted) =
          c.families.foldl (recStepPW o) (s.reco, s.recStarted) := by
        rw [← f3]
        unfold chromStepF
        simp only [hs, if_true]
        cases o.gtList <;> rfl
      have hread : (chromStepF o s c).read = if o.readList then s.read.map (· ++ readLinesS [] c.families) else s.read := by
        rw [← f4]
        unfold chromStepF
        simp only [hs, if_true]
        cases o.gtList <;> rfl
      refine ⟨?_, ?_, ?_⟩
      · rw [h1, hgt, hsel, List.foldl_cons]
      · rw [h2, hrec, hall, List.foldl_append]
      · rw [h3, hread]
        cases o.readList
        · simp
        · cases hr : s.read <;> simp [readLinesRun, hsel, List.append_assoc]
    · have hs' : c.selected = false := by simpa using hs
      have hstep : chromStepF o s c = s := by simp [chromStepF, hs']
      have hsel : selectedF (c :: rest) = selectedF rest := by simp [selectedF, hs']
      have hall : allFams (c :: rest) = allFams rest := by simp [allFams, hsel]
      rw [hstep] at h1 h2 h3
      rw [hstep]
      refine ⟨by rw [h1, hsel], by rw [h2, hall], ?_⟩
      rw [h3]
      simp [readLinesRun, hsel]

theorem flatMap_congr' {α β : Type} (f g : α → List β) : ∀ (l : List α), (∀ x ∈ l, f x = g x) →
    l.flatMap f = l.flatMap g := by
  intro l
  induction l with
  | nil => intro _; rfl
  | cons a t ih =>
    intro h
    rw [List.flatMap_cons, List.flatMap_cons, h a (List.mem_cons_self ..),
      ih (fun x hx => h x (List.mem_cons_of_mem _ hx))]

theorem readLinesRun_eq (chroms : List ChromF) (h : ∀ f ∈ allFams chroms, f.ReadsOfMembers) :
    readLinesRun chroms = (allFams chroms).flatMap (fun f => (readListRows f.inst).map renderReadRow) := by
  unfold readLinesRun allFams
  rw [List.flatMap_assoc]
  apply flatMap_congr'
  intro c hc
  apply readLinesS_eq
  intro f hf
  exact h f (List.mem_flatMap.mpr ⟨c, hc, hf⟩)

theorem gtFold_closed (o : Opts) (hg : o.gtList = true) (cs : List ChromF) (a : PW) :
    cs.foldl (gtStepPW o) a =
      if cs = [] then a else (some ((if a.2 then a.1.getD [] else [gtHeader]) ++ cs.flatMap gtPiece), true) := by
  have : cs.foldl (gtStepPW o) a = (cs.map gtPiece).foldl (pwStep gtHeader) a := by
    rw [List.foldl_map]
    congr 1
    funext a c
    simp [gtStepPW, hg]
  rw [this, pw_chain]
  simp [List.flatMap]

theorem recFold_closed (o : Opts) (hg : o.recList = true) (fs : List FamRun) (a : PW) :
    fs.foldl (recStepPW o) a =
      if fs = [] then a else (some ((if a.2 then a.1.getD [] else [recHeader]) ++ fs.flatMap recPiece), true) := by
  have : fs.foldl (recStepPW o) a = (fs.map recPiece).foldl (pwStep recHeader) a := by
    rw [List.foldl_map]
    congr 1
    funext a c
    simp [recStepPW, hg]
  rw [this, pw_chain]
  simp [List.flatMap]

theorem gtFold_off (o : Opts) (hg : o.gtList = false) (cs : List ChromF) (a : PW) : cs.foldl (gtStepPW o) a = a := by
  induction cs generalizing a with
  | nil => rfl
  | cons c r ih => simp [List.foldl_cons, gtStepPW, hg, ih]

theorem recFold_off (o : Opts) (hg : o.recList = false) (fs : List FamRun) (a : PW) : fs.foldl (recStepPW o) a = a := by
  induction fs generalizing a with
  | nil => rfl
  | cons c r ih => simp [List.foldl_cons, recStepPW, hg, ih]

/-! ### `setup_families` -/

theorem mem_insertStr (x y : String) (l : List String) : y ∈ insertStr x l ↔ y = x ∨ y ∈ l := by
  induction l with
  | nil => simp [insertStr]
  | cons a t ih =>
    simp only [insertStr]
    split
    · simp
    · simp only [List.mem_cons, ih]
      constructor
      · rintro (h | h | h)
        · exact Or.inr (Or.inl h)
        · exact Or.inl h
        · exact Or.inr (Or.inr h)
      · rintro (h | h | h)
        · exact Or.inr (Or.inl h)
        · exact Or.inl h
        · exact Or.inr (Or.inr h)

theorem mem_sortStr (y : String) (l : List String) : y ∈ sortStr l ↔ y ∈ l := by
  induction l with
  | nil => simp [sortStr]
  | cons a t ih => simp [sortStr, mem_insertStr, ih]

theorem insertStr_sorted (x : String) (l : List String) (h : l.Pairwise (· ≤ ·)) : (insertStr x l).Pairwise (· ≤ ·) := by
  induction l with
  | nil => simp [insertStr]
  | cons a t ih =>
    simp only [insertStr]
    obtain ⟨h1, h2⟩ := List.pairwise_cons.mp h
    split
    · rename_i hxa
      refine List.pairwise_cons.mpr ⟨?_, h⟩
      intro z hz
      rcases List.mem_cons.mp hz with rfl | hz'
      · exact hxa
      · exact String.le_trans hxa (h1 z hz')
    · rename_i hxa
      have hax : a ≤ x := by
        rcases String.le_total a x with h | h
        · exact h
        · exact absurd h hxa
      refine List.pairwise_cons.mpr ⟨?_, ih h2⟩
      intro z hz
      rcases (mem_insertStr x z t).mp hz with rfl | hz'
      · exact hax
      · exact h1 z hz'

theorem sortStr_sorted (l : List String) : (sortStr l).Pairwise (· ≤ ·) := by
  induction l with
  | nil => simp [sortStr]
  | cons a t ih => exact insertStr_sorted a _ ih

theorem insertStr_nodup (x : String) (l : List String) (h : l.Nodup) (hx : x ∉ l) : (insertStr x l).Nodup := by
  induction l with
  | nil => simp [insertStr]
  | cons a t ih =>
    simp only [insertStr]
    obtain ⟨h1, h2⟩ := List.nodup_cons.mp h
    split
    · exact List.nodup_cons.mpr ⟨hx, h⟩
    · refine List.nodup_cons.mpr ⟨?_, ih h2 (fun hm => hx (List.mem_cons_of_mem _ hm))⟩
      intro hm
      rcases (mem_insertStr x a t).mp hm with rfl | hm'
      · exact hx (List.mem_cons_self ..)
      · exact h1 hm'

theorem sortStr_nodup (l : List String) (h : l.Nodup) : (sortStr l).Nodup := by
  induction l with
  | nil => simp [sortStr]
  | cons a t ih =>
    obtain ⟨h1, h2⟩ := List.nodup_cons.mp h
    exact insertStr_nodup a _ (ih h2) (fun hm => h1 ((mem_sortStr a t).mp hm))

theorem mem_dedupStr (l : List String) (x : String) : x ∈ dedupStr l ↔ x ∈ l := by
  induction l with
  | nil => simp [dedupStr]
  | cons a t ih =>
    simp only [dedupStr, List.mem_cons, List.mem_filter, ih]
    constructor
    · rintro (h | ⟨h, _⟩)
      · exact Or.inl h
      · exact Or.inr h
    · rintro (h | h)
      · exact Or.inl h
      · by_cases hxa : x = a
        · exact Or.inl hxa
        · exact Or.inr ⟨h, by simpa using hxa⟩

theorem nodup_dedupStr (l : List String) : (dedupStr l).Nodup := by
  induction l with
  | nil => simp [dedupStr]
  | cons a t ih =>
    simp only [dedupStr]
    refine List.nodup_cons.mpr ⟨?_, ih.filter _⟩
    simp [List.mem_filter]

/-- the representatives in processing order -/
def repsOf (samples : List String) (trios : List Trio) : List String :=
  sortStr (dedupStr (samples.map (repOf (finalClasses samples trios))))

theorem reps_strict (samples : List String) (trios : List Trio) : (repsOf samples trios).Pairwise (· < ·) := by
  have h1 := sortStr_sorted (dedupStr (samples.map (repOf (finalClasses samples trios))))
  have h2 := sortStr_nodup _ (nodup_dedupStr (samples.map (repOf (finalClasses samples trios))))
  have h3 := h1.and h2
  refine h3.imp ?_
  intro a b ⟨hle, hne⟩
  rcases Std.lt_trichotomy a b with h | h | h
  · exact h
  · exact absurd h hne
  · exact absurd hle (String.not_le.mpr h)

theorem setupFamilies_reps (samples : List String) (trios : List Trio) :
    (setupFamilies samples trios).map (·.rep) = repsOf samples trios := by
  simp [setupFamilies, repsOf, List.map_map, Function.comp_def]

theorem mem_setupFamilies (samples : List String) (trios : List Trio) (F : Family) :
    F ∈ setupFamilies samples trios ↔ F.rep ∈ repsOf samples trios ∧
      F.members = samples.filter (fun s => repOf (finalClasses samples trios) s == F.rep) ∧
      F.trios = trios.filter (fun t => repOf (finalClasses samples trios) t.child == F.rep) := by
  simp only [setupFamilies, repsOf, List.mem_map]
  constructor
  · rintro ⟨r, hr, rfl⟩
    exact ⟨hr, rfl, rfl⟩
  · rintro ⟨h1, h2, h3⟩
    refine ⟨F.rep, h1, ?_⟩
    cases F
    simp only at h2 h3
    simp [h2, h3]


/-! ### union–find invariants of `setup_families` -/

/-- the classes are pairwise disjoint (as sets; a class may be listed twice) -/
def Disj (cls : Classes) : Prop := ∀ c ∈ cls, ∀ c' ∈ cls, ∀ z, z ∈ c → z ∈ c' → c = c'

theorem classOf_of_mem (cls : Classes) (h : Disj cls) (c : List String) (hc : c ∈ cls) (x : String) (hx : x ∈ c) :
    classOf cls x = c := by
  unfold classOf
  cases hf : cls.find? (·.contains x) with
  | none =>
    have := List.find?_eq_none.mp hf c hc
    simp [hx] at this
  | some c0 =>
    have h0 : c0 ∈ cls := List.mem_of_find?_eq_some hf
    have hx0 : x ∈ c0 := by simpa using List.find?_some hf
    simp only [Option.getD_some]
    exact h c0 h0 c hc x hx0 hx

theorem self_mem_classOf (cls : Classes) (x : String) : x ∈ classOf cls x := by
  unfold classOf
  cases hf : cls.find? (·.contains x) with
  | none => simp
  | some c0 => simpa using List.find?_some hf

theorem classOf_cases (cls : Classes) (x : String) : classOf cls x ∈ cls ∨ (classOf cls x = [x] ∧ ∀ c ∈ cls, x ∉ c) := by
  unfold classOf
  cases hf : cls.find? (·.contains x) with
  | none =>
    right
    refine ⟨rfl, fun c hc hx => ?_⟩
    have := List.find?_eq_none.mp hf c hc
    simp [hx] at this
  | some c0 => left; exact List.mem_of_find?_eq_some hf

theorem classOf_eq_of_mem (cls : Classes) (h : Disj cls) (x z : String) (hz : z ∈ classOf cls x) :
    classOf cls z = classOf cls x := by
  rcases classOf_cases cls x with hc | ⟨he, _⟩
  · exact classOf_of_mem cls h _ hc z hz
  · rw [he] at hz
    have : z = x := by simpa using hz
    rw [this]

theorem mergeCls_disj (cls : Classes) (h : Disj cls) (x y : String) : Disj (mergeCls cls x y) := by
  unfold mergeCls
  split
  · exact h
  · -- a kept class contains neither x nor y, hence meets neither class
    have kept : ∀ c ∈ cls.filter (fun c => !c.contains x && !c.contains y), c ∈ cls ∧ x ∉ c ∧ y ∉ c := by
      intro c hc
      obtain ⟨h1, h2⟩ := List.mem_filter.mp hc
      simp at h2
      exact ⟨h1, h2.1, h2.2⟩
    have apart : ∀ (w : String), ∀ c ∈ cls, w ∉ c → ∀ z, z ∈ classOf cls w → z ∉ c := by
      intro w c hc hw z hz hzc
      rcases classOf_cases cls w with hcw | ⟨he, _⟩
      · have := h _ hcw c hc z hz hzc
        exact hw (this ▸ self_mem_classOf cls w)
      · rw [he] at hz
        have : z = w := by simpa using hz
        exact hw (this ▸ hzc)
    intro c hc c' hc' z hz hz'
    rcases List.mem_cons.mp hc with rfl | hck <;> rcases List.mem_cons.mp hc' with rfl | hck'
    · rfl
    · exfalso
      obtain ⟨k1, k2, k3⟩ := kept c' hck'
      rcases List.mem_append.mp hz with hzx | hzy
      · exact apart x c' k1 k2 z hzx hz'
      · exact apart y c' k1 k3 z hzy hz'
    · exfalso
      obtain ⟨k1, k2, k3⟩ := kept c hck
      rcases List.mem_append.mp hz' with hzx | hzy
      · exact apart x c k1 k2 z hzx hz
      · exact apart y c k1 k3 z hzy hz
    · exact h c (kept c hck).1 c' (kept c' hck').1 z hz hz'

theorem classOf_head (L : List String) (rest : Classes) (a : String) (h : L.contains a = true) :
    classOf (L :: rest) a = L := by
  simp only [classOf, List.find?_cons, h, Option.getD_some]

theorem mergeCls_pos (cls : Classes) (x y : String) (hc : (classOf cls x).contains y = true) : mergeCls cls x y = cls := by
  unfold mergeCls; rw [if_pos hc]

theorem mergeCls_neg (cls : Classes) (x y : String) (hc : ¬ (classOf cls x).contains y = true) :
    mergeCls cls x y = (classOf cls x ++ classOf cls y) :: cls.filter (fun c => !c.contains x && !c.contains y) := by
  unfold mergeCls; rw [if_neg hc]

theorem mergeCls_joins (cls : Classes) (x y : String) : y ∈ classOf (mergeCls cls x y) x := by
  by_cases hc : (classOf cls x).contains y = true
  · rw [mergeCls_pos cls x y hc]; simpa using hc
  · have hx : (classOf cls x ++ classOf cls y).contains x = true := by
      simp [self_mem_classOf cls x]
    rw [mergeCls_neg cls x y hc, classOf_head _ _ _ hx]
    exact List.mem_append_right _ (self_mem_classOf cls y)

theorem mergeCls_mono (cls : Classes) (h : Disj cls) (x y a b : String) (hab : b ∈ classOf cls a) :
    b ∈ classOf (mergeCls cls x y) a := by
  by_cases hc : (classOf cls x).contains y = true
  · rw [mergeCls_pos cls x y hc]; exact hab
  · have hm := mergeCls_neg cls x y hc
    by_cases ha : a ∈ classOf cls x ∨ a ∈ classOf cls y
    · -- `a` is in one of the merged classes, and so is `b`
      have hb : b ∈ classOf cls x ++ classOf cls y := by
        rcases ha with ha | ha
        · rw [classOf_eq_of_mem cls h x a ha] at hab; exact List.mem_append_left _ hab
        · rw [classOf_eq_of_mem cls h y a ha] at hab; exact List.mem_append_right _ hab
      have hhead : (classOf cls x ++ classOf cls y).contains a = true := by
        rcases ha with ha | ha <;> simp [ha]
      rw [hm, classOf_head _ _ _ hhead]
      exact hb
    · have hax : a ∉ classOf cls x := fun e => ha (Or.inl e)
      have hay : a ∉ classOf cls y := fun e => ha (Or.inr e)
      rcases classOf_cases cls a with hca | ⟨he, _⟩
      · -- the class of `a` survives the filter and is still the class of `a`
        have hxa : x ∉ classOf cls a := by
          intro e
          have := classOf_eq_of_mem cls h a x e
          exact hax (this ▸ self_mem_classOf cls a)
        have hya : y ∉ classOf cls a := by
          intro e
          have := classOf_eq_of_mem cls h a y e
          exact hay (this ▸ self_mem_classOf cls a)
        have hkept : classOf cls a ∈ cls.filter (fun c => !c.contains x && !c.contains y) :=
          List.mem_filter.mpr ⟨hca, by simp [hxa, hya]⟩
        have hin : classOf cls a ∈ mergeCls cls x y := by rw [hm]; exact List.mem_cons_of_mem _ hkept
        rw [classOf_of_mem _ (mergeCls_disj cls h x y) _ hin a (self_mem_classOf cls a)]
        exact hab
      · rw [he] at hab
        have : b = a := by simpa using hab
        rw [this]
        exact self_mem_classOf _ a

/-- the fold of `setup_families` keeps the classes disjoint and never separates what it has joined -/
theorem finalClasses_spec (samples : List String) (trios : List Trio) :
    Disj (finalClasses samples trios) ∧
    ∀ t ∈ trios, t.child ∈ classOf (finalClasses samples trios) t.father ∧
      t.child ∈ classOf (finalClasses samples trios) t.mother := by
  unfold finalClasses
  have init : Disj (samples.map ([·])) := by
    intro c hc c' hc' z hz hz'
    obtain ⟨s, _, rfl⟩ := List.mem_map.mp hc
    obtain ⟨s', _, rfl⟩ := List.mem_map.mp hc'
    have e1 : z = s := by simpa using hz
    have e2 : z = s' := by simpa using hz'
    rw [← e1, ← e2]
  generalize samples.map ([·]) = cls0 at init
  -- generalised over the starting classes and the trios already joined
  suffices H : ∀ (ts : List Trio) (cls : Classes) (done : List Trio), Disj cls →
      (∀ t ∈ done, t.child ∈ classOf cls t.father ∧ t.child ∈ classOf cls t.mother) →
      Disj (ts.foldl (fun c t => mergeCls (mergeCls c t.father t.child) t.mother t.child) cls) ∧
      ∀ t ∈ done ++ ts, t.child ∈ classOf (ts.foldl (fun c t => mergeCls (mergeCls c t.father t.child) t.mother t.child) cls) t.father ∧
        t.child ∈ classOf (ts.foldl (fun c t => mergeCls (mergeCls c t.father t.child) t.mother t.child) cls) t.mother by
    have := H trios cls0 [] init (fun t ht => by cases ht)
    simpa using this
  intro ts
  induction ts with
  | nil => intro cls done hd hdone; exact ⟨hd, by simpa using hdone⟩
  | cons t rest ih =>
    intro cls done hd hdone
    simp only [List.foldl_cons]
    have hd1 := mergeCls_disj cls hd t.father t.child
    have hd2 := mergeCls_disj _ hd1 t.mother t.child
    have hnew : ∀ u ∈ done ++ [t], u.child ∈ classOf (mergeCls (mergeCls cls t.father t.child) t.mother t.child) u.father ∧
        u.child ∈ classOf (mergeCls (mergeCls cls t.father t.child) t.mother t.child) u.mother := by
      intro u hu
      rcases List.mem_append.mp hu with hu | hu
      · obtain ⟨a, b⟩ := hdone u hu
        exact ⟨mergeCls_mono _ hd1 _ _ _ _ (mergeCls_mono _ hd _ _ _ _ a),
               mergeCls_mono _ hd1 _ _ _ _ (mergeCls_mono _ hd _ _ _ _ b)⟩
      · have : u = t := by simpa using hu
        subst this
        exact ⟨mergeCls_mono _ hd1 _ _ _ _ (mergeCls_joins cls u.father u.child), mergeCls_joins _ u.mother u.child⟩
    have := ih _ (done ++ [t]) hd2 hnew
    simpa [List.append_assoc] using this

/-! ### the representative is the minimum of the class -/

theorem minStr_cons (d a : String) (t : List String) : minStr d (a :: t) = minStr (if a < d then a else d) t := rfl

theorem minStr_spec (l : List String) : ∀ d, (minStr d l = d ∨ minStr d l ∈ l) ∧ minStr d l ≤ d ∧ ∀ z ∈ l, minStr d l ≤ z := by
  induction l with
  | nil => intro d; exact ⟨Or.inl rfl, String.le_refl _, fun z hz => by cases hz⟩
  | cons a t ih =>
    intro d
    rw [minStr_cons]
    by_cases hlt : a < d
    · rw [if_pos hlt]
      obtain ⟨h1, h2, h3⟩ := ih a
      refine ⟨?_, String.le_trans h2 (String.not_lt.mp (String.lt_asymm hlt)), ?_⟩
      · rcases h1 with h | h
        · exact Or.inr (by rw [h]; exact List.mem_cons_self ..)
        · exact Or.inr (List.mem_cons_of_mem _ h)
      · intro z hz
        rcases List.mem_cons.mp hz with rfl | hz'
        · exact h2
        · exact h3 z hz'
    · rw [if_neg hlt]
      obtain ⟨h1, h2, h3⟩ := ih d
      refine ⟨?_, h2, ?_⟩
      · rcases h1 with h | h
        · exact Or.inl h
        · exact Or.inr (List.mem_cons_of_mem _ h)
      · intro z hz
        rcases List.mem_cons.mp hz with rfl | hz'
        · exact String.le_trans h2 (String.not_lt.mp hlt)
        · exact h3 z hz'

theorem minStr_eq_of_mem (l : List String) (x y : String) (hx : x ∈ l) (hy : y ∈ l) : minStr x l = minStr y l := by
  obtain ⟨a1, a2, a3⟩ := minStr_spec l x
  obtain ⟨b1, b2, b3⟩ := minStr_spec l y
  have m1 : minStr x l ∈ l := by
    rcases a1 with h | h
    · rw [h]; exact hx
    · exact h
  have m2 : minStr y l ∈ l := by
    rcases b1 with h | h
    · rw [h]; exact hy
    · exact h
  exact String.le_antisymm (a3 _ m2) (b3 _ m1)

theorem repOf_eq_of_mem (cls : Classes) (h : Disj cls) (x z : String) (hz : z ∈ classOf cls x) : repOf cls z = repOf cls x := by
  unfold repOf
  rw [classOf_eq_of_mem cls h x z hz]
  exact minStr_eq_of_mem _ z x hz (self_mem_classOf cls x)


end WhVerif.Lemmas.C20Files

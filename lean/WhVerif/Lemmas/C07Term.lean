import WhVerif.Lemmas.C07
/-!
# C07 helper lemmas, part B: termination (the fuel the model gives its loops is sufficient).
-/
namespace WhVerif.C07

theorem sliceStep_pq_length (reads : List Read) (P : List Nat) (k : Nat) (st : SliceSt) (e : Entry) :
    (sliceStep reads P k st e).pq.length = st.pq.length := by
  have := congrArg List.length (sliceStep_pq_items reads P k st e)
  simpa using this

/-- the slice loop exits because the queue is empty, not because the fuel ran out -/
theorem sliceLoop_pq_nil (reads : List Read) (P : List Nat) (k : Nat) :
    ∀ n st, st.pq.length ≤ n → (sliceLoop reads P k n st).pq = [] := by
  intro n
  induction n with
  | zero => intro st h; simpa [sliceLoop] using h
  | succ n ih =>
    intro st h
    unfold sliceLoop
    split
    · rename_i hp; exact popChoice_none hp
    · rename_i ci e pq' hp
      apply ih
      rw [sliceStep_pq_length]
      have := popChoice_length hp
      simp only
      omega

theorem bridgeStep_pq (reads : List Read) (P : List Nat) (k : Nat) (st : BridgeSt) (e : Entry) :
    (bridgeStep reads P k st e).pq = st.pq := by
  unfold bridgeStep
  simp only
  split
  · rfl
  · split <;> rfl

theorem bridgeLoop_pq_nil (reads : List Read) (P : List Nat) (k : Nat) :
    ∀ n st, st.pq.length ≤ n → (bridgeLoop reads P k n st).pq = [] := by
  intro n
  induction n with
  | zero => intro st h; simpa [bridgeLoop] using h
  | succ n ih =>
    intro st h
    unfold bridgeLoop
    split
    · rename_i hp; exact popChoice_none hp
    · rename_i ci e pq' hp
      apply ih
      rw [bridgeStep_pq]
      have := popChoice_length hp
      simp only
      omega

theorem sliceStep_mono {reads : List Read} {P : List Nat} {k : Nat} {st : SliceSt} {e : Entry} {i : Nat}
    (h : i ∈ st.inSlice ∨ i ∈ st.violating) :
    i ∈ (sliceStep reads P k st e).inSlice ∨ i ∈ (sliceStep reads P k st e).violating := by
  unfold sliceStep
  simp only
  split
  · rcases h with h | h
    · exact Or.inl h
    · exact Or.inr (mem_insertNew.mpr (Or.inr h))
  · split
    · rcases h with h | h
      · exact Or.inl (mem_insertNew.mpr (Or.inr h))
      · exact Or.inr h
    · exact h

/-- with nothing covered yet, the popped read is decided: rejected or selected -/
theorem sliceStep_first {reads : List Read} {P : List Nat} {k : Nat} {st : SliceSt} {e : Entry}
    (hc : st.covered = []) (hpos : (getRead reads e.item).pos ≠ []) :
    e.item ∈ (sliceStep reads P k st e).inSlice ∨ e.item ∈ (sliceStep reads P k st e).violating := by
  unfold sliceStep
  simp only
  split
  · exact Or.inr (mem_insertNew.mpr (Or.inl rfl))
  · have : ((getRead reads e.item).pos.filter (fun p => !st.covered.contains p)).isEmpty = false := by
      rw [hc]
      cases hp : (getRead reads e.item).pos with
      | nil => exact absurd hp hpos
      | cons a as => simp
    simp only [this]
    exact Or.inl (mem_insertNew.mpr (Or.inl rfl))

theorem sliceLoop_mono {reads : List Read} {P : List Nat} {k : Nat} {i : Nat} (n : Nat) (st : SliceSt)
    (h : i ∈ st.inSlice ∨ i ∈ st.violating) :
    i ∈ (sliceLoop reads P k n st).inSlice ∨ i ∈ (sliceLoop reads P k n st).violating := by
  apply sliceLoop_induct reads P k (fun s => i ∈ s.inSlice ∨ i ∈ s.violating) _ n st h
  intro st c ci e pq' _ hinv
  exact sliceStep_mono (by simpa [SliceSt.popped] using hinv)

/-- a slice over a non-empty set of undecided reads decides at least one of them -/
theorem slice_progress {reads : List Read} {P : List Nat} {k : Nat} {st : HSt}
    (hne : st.undecided ≠ []) (hpos : ∀ i ∈ st.undecided, (getRead reads i).pos ≠ []) :
    ∃ i ∈ st.undecided,
      i ∈ (sliceLoop reads P k (sliceInit reads P st).pq.length (sliceInit reads P st)).inSlice ∨
      i ∈ (sliceLoop reads P k (sliceInit reads P st).pq.length (sliceInit reads P st)).violating := by
  have hlen : (sliceInit reads P st).pq.length = st.undecided.length := by simp [sliceInit, mkQueue]
  have hpos' : 0 < st.undecided.length := List.length_pos_iff.mpr hne
  obtain ⟨n, hn⟩ : ∃ n, (sliceInit reads P st).pq.length = n + 1 := ⟨st.undecided.length - 1, by omega⟩
  rw [hn]
  unfold sliceLoop
  split
  · rename_i hp
    have := popChoice_none hp
    rw [this] at hn; simp at hn
  · rename_i ci e pq' hp
    have he : e.item ∈ st.undecided := mem_mkQueue (popChoice_mem hp)
    refine ⟨e.item, he, ?_⟩
    apply sliceLoop_mono
    exact sliceStep_first (by simp [sliceInit]) (hpos _ he)

theorem bridgeStep_undecided_le (reads : List Read) (P : List Nat) (k : Nat) (st : BridgeSt) (e : Entry) :
    (bridgeStep reads P k st e).undecided.length ≤ st.undecided.length := by
  unfold bridgeStep
  simp only
  split
  · exact List.length_filter_le _ _
  · split
    · exact Nat.le_refl _
    · exact List.length_filter_le _ _

theorem bridgeLoop_undecided_le (reads : List Read) (P : List Nat) (k : Nat) (N : Nat) (n : Nat) (st : BridgeSt)
    (h : st.undecided.length ≤ N) : (bridgeLoop reads P k n st).undecided.length ≤ N := by
  apply bridgeLoop_induct reads P k (fun s => s.undecided.length ≤ N) _ n st h
  intro st c ci e pq' _ hinv
  exact Nat.le_trans (bridgeStep_undecided_le reads P k _ e) (by simpa [BridgeSt.popped] using hinv)

/-- every iteration of `while len(undecided_reads) > 0` removes at least one read -/
theorem helperIter_decreases {reads : List Read} {P : List Nat} {k : Nat} {br : Bool} {st : HSt}
    (hne : st.undecided ≠ []) (hpos : ∀ i ∈ st.undecided, (getRead reads i).pos ≠ []) :
    (helperIter reads P k br st).undecided.length < st.undecided.length := by
  obtain ⟨i, hi, hdec⟩ := slice_progress (P := P) (k := k) hne hpos
  have hlt : (bridgeInit reads P st
      (sliceLoop reads P k (sliceInit reads P st).pq.length (sliceInit reads P st))).undecided.length
      < st.undecided.length := by
    simp only [bridgeInit]
    apply List.length_filter_lt_length_iff_exists.mpr
    refine ⟨i, hi, ?_⟩
    rcases hdec with h | h
    · simp only [Bool.and_eq_true, Bool.not_eq_true', decide_eq_false_iff_not,
        List.contains_eq_mem, not_and]
      intro hn; exact absurd h hn
    · simp only [Bool.and_eq_true, Bool.not_eq_true', decide_eq_false_iff_not,
        List.contains_eq_mem, not_and]
      intro _ hn; exact hn h
  unfold helperIter
  simp only
  split
  · have := bridgeLoop_undecided_le reads P k
      (bridgeInit reads P st
        (sliceLoop reads P k (sliceInit reads P st).pq.length (sliceInit reads P st))).undecided.length
      (bridgeInit reads P st
        (sliceLoop reads P k (sliceInit reads P st).pq.length (sliceInit reads P st))).pq.length
      (bridgeInit reads P st
        (sliceLoop reads P k (sliceInit reads P st).pq.length (sliceInit reads P st))) (Nat.le_refl _)
    simp only [bridgeExit]
    omega
  · simpa [bridgeExit] using hlt

theorem helperIter_undecided_sub {reads : List Read} {P : List Nat} {k : Nat} {br : Bool} {st : HSt} :
    ∀ i ∈ (helperIter reads P k br st).undecided, i ∈ st.undecided := by
  have hb0 : ∀ s, ∀ i ∈ (bridgeInit reads P st s).undecided, i ∈ st.undecided := by
    intro s i hi
    simp only [bridgeInit] at hi
    exact (List.mem_filter.mp hi).1
  unfold helperIter
  simp only
  split
  · intro i hi
    simp only [bridgeExit] at hi
    have := bridgeLoop_induct reads P k (fun s => ∀ i ∈ s.undecided, i ∈ st.undecided)
      (by
        intro s c ci e pq' _ hinv j hj
        apply hinv
        unfold bridgeStep at hj
        simp only at hj
        split at hj
        · exact (List.mem_filter.mp hj).1
        · split at hj
          · exact hj
          · exact (List.mem_filter.mp hj).1) _ _ (hb0 _) i hi
    exact this
  · intro i hi
    simp only [bridgeExit] at hi
    exact hb0 _ i hi

/-- the outer loop with fuel ≥ the number of undecided reads ends with no undecided read -/
theorem helperLoop_terminates {reads : List Read} {P : List Nat} {k : Nat} {br : Bool} :
    ∀ n st, st.undecided.length ≤ n → (∀ i ∈ st.undecided, (getRead reads i).pos ≠ []) →
      (helperLoop reads P k br n st).undecided = [] := by
  intro n
  induction n with
  | zero =>
    intro st h _
    simpa [helperLoop] using h
  | succ n ih =>
    intro st h hpos
    unfold helperLoop
    split
    · rename_i he; simpa using he
    · rename_i hne
      have hne' : st.undecided ≠ [] := by intro h0; simp [h0] at hne
      apply ih
      · have := helperIter_decreases (P := P) (k := k) (br := br) hne' hpos
        omega
      · intro i hi
        exact hpos i (helperIter_undecided_sub i hi)

theorem helper_terminates {reads : List Read} {P : List Nat} {k : Nat} {br : Bool} {st : HSt}
    (hpos : ∀ i ∈ st.undecided, (getRead reads i).pos ≠ []) :
    (helper reads P k br st).undecided = [] :=
  helperLoop_terminates _ st (Nat.le_refl _) hpos

theorem getRead_pos_ne_nil {reads : List Read} (h : ∀ r ∈ reads, 2 ≤ r.pos.length) {i : Nat}
    (hi : i < reads.length) : (getRead reads i).pos ≠ [] := by
  have : getRead reads i = reads[i] := by simp [getRead, List.getD_eq_getElem?_getD, List.getElem?_eq_getElem hi]
  rw [this]
  intro h0
  have := h reads[i] (List.getElem_mem hi)
  rw [h0] at this
  simp at this

theorem phases_terminate (fixed : Bool) (reads : List Read) (k : Nat) (br : Bool) (choices : List Nat)
    (h2 : ∀ r ∈ reads, 2 ≤ r.pos.length) :
    (phases fixed reads k br choices).1.undecided = [] ∧ (phases fixed reads k br choices).2.undecided = [] := by
  unfold phases
  simp only
  constructor
  · split
    · rfl
    · apply helper_terminates
      intro i hi
      exact getRead_pos_ne_nil h2 (mem_preferredIdx hi)
  · apply helper_terminates
    intro i hi
    simp only at hi
    apply getRead_pos_ne_nil h2
    split at hi
    · exact List.mem_range.mp (List.mem_filter.mp hi).1
    · exact List.mem_range.mp hi

/-- unpacking a successful run -/
theorem readselection_ok {fixed : Bool} {reads : List Read} {k : Nat} {br : Bool} {cs : List Nat} {sel : List Nat}
    (h : readselection fixed reads k br cs = .ok sel) :
    (∀ r ∈ reads, 2 ≤ r.pos.length) ∧ sel = (phases fixed reads k br cs).2.selected := by
  unfold readselection at h
  split at h
  · cases h
  · rename_i h2
    split at h
    · cases h
    · simp only at h
      split at h
      · cases h
      · simp only [Outcome.ok.injEq] at h
        refine ⟨?_, h.symm⟩
        intro r hr
        simp only [List.any_eq_true, decide_eq_true_eq, not_exists, not_and, Nat.not_lt] at h2
        exact h2 r hr

end WhVerif.C07

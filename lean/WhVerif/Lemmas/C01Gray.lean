import WhVerif.Model.C01Gray
/-!
# C01: `GrayCodes` (src/graycodes.cpp) enumerates every bipartition index exactly once

About `grayList n`, the model of the `has_next`/`get_next` loop with state `(c, s, i, changed)` as coded.

* `grayList_eq`: closed form — the `k`-th output is `(k xor (k >> 1), number of trailing ones of k-1)` (`-1` for `k = 0`).
* `gray_enumerates`: length `2^n`, first element `(0,-1)`, codes pairwise distinct and `< 2^n`, and consecutive
  codes differ exactly in the reported changed bit (what `update_partitioning(bit)` relies on).
* `gray_complete` / `gray_exactly_once`: every index `< 2^n` is visited, exactly once.

Proof: with `D = c xor s` (low `n` bits) the loop is a binary down-counter: invariant after `k` calls
`c = gray k` and `D = not k`; one `scan` flips in `c` the lowest zero bit `j` of `k` and in `s` all bits below `j`,
which turns `not k` into `not (k+1)`.  Core Lean only.
-/
namespace WhVerif.C01

/-- number of trailing ones of `k` (= index of the lowest zero bit) -/
def tones (k : Nat) : Nat := if k % 2 = 0 then 0 else tones (k / 2) + 1
decreasing_by omega

/-- the reflected binary Gray code -/
def gray (k : Nat) : Nat := k ^^^ (k >>> 1)

theorem tones_spec (k : Nat) : (∀ b < tones k, k.testBit b = true) ∧ k.testBit (tones k) = false := by
  fun_induction tones k with
  | case1 k h => simp [Nat.testBit_zero, h]
  | case2 k h ih =>
    refine ⟨?_, ?_⟩
    · intro b hb
      cases b with
      | zero => simp [Nat.testBit_zero]; omega
      | succ b => rw [Nat.testBit_succ]; exact ih.1 b (by omega)
    · rw [Nat.testBit_succ]; exact ih.2

theorem tones_lt (n k : Nat) (h : k + 1 < 2 ^ n) : tones k < n := by
  induction n generalizing k with
  | zero => simp at h
  | succ n ih =>
    rw [tones]; split
    · omega
    · have := ih (k / 2) (by rw [Nat.pow_succ] at h; omega)
      omega

/-- binary increment, bitwise -/
theorem succ_testBit (k : Nat) : ∀ b, (k + 1).testBit b =
    if b < tones k then false else if b = tones k then true else k.testBit b := by
  fun_induction tones k with
  | case1 k h =>
    intro b
    cases b with
    | zero => simp [Nat.testBit_zero]; omega
    | succ b =>
      simp only [Nat.testBit_succ]
      have : (k + 1) / 2 = k / 2 := by omega
      simp [this]
  | case2 k h ih =>
    intro b
    cases b with
    | zero => simp [Nat.testBit_zero]; omega
    | succ b =>
      simp only [Nat.testBit_succ]
      have : (k + 1) / 2 = k / 2 + 1 := by omega
      rw [this, ih b]
      simp

theorem gray_testBit (k b : Nat) : (gray k).testBit b = (k.testBit b ^^ k.testBit (b + 1)) := by
  simp [gray, Nat.testBit_xor, Nat.testBit_shiftRight, Nat.add_comm]

theorem one_shiftLeft_testBit (j b : Nat) : (1 <<< j).testBit b = decide (j = b) := by
  rw [Nat.one_shiftLeft, Nat.testBit_two_pow]

theorem gray_succ (k : Nat) : gray (k + 1) = gray k ^^^ (1 <<< tones k) := by
  apply Nat.eq_of_testBit_eq
  intro b
  obtain ⟨h1, h2⟩ := tones_spec k
  simp only [Nat.testBit_xor, gray_testBit, succ_testBit, one_shiftLeft_testBit]
  rcases Nat.lt_trichotomy (b + 1) (tones k) with h | h | h
  · have := h1 b (by omega); have := h1 (b + 1) h
    have e1 : b < tones k := by omega
    have e2 : ¬ tones k = b := by omega
    simp [*]
  · have := h1 b (by omega)
    have e1 : b < tones k := by omega
    have e2 : ¬ tones k = b := by omega
    have e3 : ¬ b + 1 < tones k := by omega
    simp [*]
  · by_cases hb : b = tones k
    · subst hb
      have e3 : ¬ tones k + 1 < tones k := by omega
      simp [h2, e3]
    · have e1 : ¬ b < tones k := by omega
      have e2 : ¬ tones k = b := by omega
      have e3 : ¬ b + 1 < tones k := by omega
      have e4 : ¬ b + 1 = tones k := by omega
      simp [*]

theorem gray_zero : gray 0 = 0 := by simp [gray]

theorem gray_lt (n k : Nat) (h : k < 2 ^ n) : gray k < 2 ^ n := by
  apply Nat.xor_lt_two_pow h
  rw [Nat.shiftRight_eq_div_pow]
  exact Nat.lt_of_le_of_lt (Nat.div_le_self _ _) h

theorem testBit_of_ge (x N i : Nat) (hx : x < 2 ^ N) (hi : N ≤ i) : x.testBit i = false :=
  Nat.testBit_lt_two_pow (Nat.lt_of_lt_of_le hx (Nat.pow_le_pow_right (by omega) hi))

theorem gray_inj (a b : Nat) (h : gray a = gray b) : a = b := by
  have ha : a < 2 ^ (a + b) := Nat.lt_of_lt_of_le Nat.lt_two_pow_self (Nat.pow_le_pow_right (by omega) (by omega))
  have hb : b < 2 ^ (a + b) := Nat.lt_of_lt_of_le Nat.lt_two_pow_self (Nat.pow_le_pow_right (by omega) (by omega))
  have key : ∀ d i, a + b ≤ i + d → a.testBit i = b.testBit i := by
    intro d
    induction d with
    | zero => intro i hi; rw [testBit_of_ge a _ i ha hi, testBit_of_ge b _ i hb hi]
    | succ d ih =>
      intro i hi
      have h1 := ih (i + 1) (by omega)
      have h2 : (gray a).testBit i = (gray b).testBit i := by rw [h]
      rw [gray_testBit, gray_testBit, h1] at h2
      revert h2
      cases a.testBit i <;> cases b.testBit i <;> cases b.testBit (i + 1) <;> simp
  exact Nat.eq_of_testBit_eq (fun i => key (a + b) i (by omega))

/-! ## the machine -/

/-- bit `b` of `c xor s` -/
def Gray.diff (g : Gray) (b : Nat) : Bool := g.c.testBit b != g.s.testBit b

theorem diff_flip_s_ne (g : Gray) (i b : Nat) (h : i ≠ b) :
    Gray.diff { g with s := g.s ^^^ (1 <<< i) } b = g.diff b := by
  simp only [Gray.diff, Nat.testBit_xor, one_shiftLeft_testBit]
  simp [h]

theorem scan_found (j : Nat) (g : Gray) (i : Nat) (hij : i ≤ j) (hj : j < g.length)
    (hlow : ∀ b, i ≤ b → b < j → g.diff b = false) (hd : g.diff j = true) :
    (g.scan i).length = g.length ∧ (g.scan i).c = g.c ^^^ (1 <<< j) ∧ (g.scan i).i = (j : Int) ∧
    (g.scan i).changed = (j : Int) ∧
    ∀ b, (g.scan i).s.testBit b = (g.s.testBit b ^^ (decide (i ≤ b) && decide (b < j))) := by
  fun_induction Gray.scan g i with
  | case1 g i h hc =>
    have : i = j := by
      apply Nat.le_antisymm hij
      apply Nat.le_of_not_lt
      intro hlt
      have := hlow i (Nat.le_refl _) hlt
      simp [Gray.diff] at this
      simp [this] at hc
    subst this
    refine ⟨rfl, rfl, rfl, rfl, ?_⟩
    intro b
    by_cases hb : i ≤ b
    · have : ¬ b < i := by omega
      simp [hb, this]
    · simp [hb]
  | case2 g i h hc ih =>
    have hne : i ≠ j := by
      rintro rfl
      simp [Gray.diff] at hd
      simp [hd] at hc
    have ih' := ih (by omega) hj
      (by
        intro b hb1 hb2
        have := hlow b (by omega) hb2
        rw [diff_flip_s_ne g i b (by omega)]; exact this)
      (by rw [diff_flip_s_ne g i j hne]; exact hd)
    obtain ⟨e1, e2, e3, e4, e5⟩ := ih'
    refine ⟨e1, e2, e3, e4, ?_⟩
    intro b
    rw [e5 b]
    simp only [Nat.testBit_xor, one_shiftLeft_testBit]
    by_cases hb : i = b
    · subst hb
      have : i < j := by omega
      have h' : ¬ i + 1 ≤ i := by omega
      simp [this, h']
    · by_cases hb2 : i ≤ b
      · have : i + 1 ≤ b := by omega
        simp [hb, hb2, this]
      · have : ¬ i + 1 ≤ b := by omega
        simp [hb, hb2, this]
  | case3 g i h => omega

theorem scan_none (g : Gray) (i : Nat) (hi : i ≤ g.length)
    (h : ∀ b, i ≤ b → b < g.length → g.diff b = false) :
    (g.scan i).i = (g.length : Int) ∧ (g.scan i).length = g.length := by
  fun_induction Gray.scan g i with
  | case1 g i hlt hc =>
    have := h i (Nat.le_refl _) hlt
    simp [Gray.diff] at this
    simp [this] at hc
  | case2 g i hlt hc ih =>
    exact ih hlt (by
      intro b hb1 hb2
      have := h b (by omega) hb2
      rw [diff_flip_s_ne g i b (by omega)]; exact this)
  | case3 g i hlt =>
    have : i = g.length := by omega
    simp [this]

theorem runFuel_done (fuel : Nat) (g : Gray) (h : g.hasNext = false) : Gray.runFuel fuel g = [] := by
  cases fuel <;> simp [Gray.runFuel, h]

/-- invariant after `k` calls of `get_next` -/
structure Inv (n k : Nat) (g : Gray) : Prop where
  len : g.length = n
  c : g.c = gray k
  d : ∀ b < n, g.diff b = !k.testBit b

theorem Inv_init (n : Nat) : Inv n 0 (Gray.init n) := by
  refine ⟨rfl, by simp [Gray.init, gray_zero], ?_⟩
  intro b hb
  simp [Gray.diff, Gray.init, Nat.testBit_two_pow_sub_one, hb]

theorem run_spec (n m : Nat) : ∀ (k : Nat) (g : Gray) (fuel : Nat), k + m + 1 = 2 ^ n → Inv n k g →
    g.i < (n : Int) → m + 1 ≤ fuel →
    Gray.runFuel fuel g = (gray k, g.changed) ::
      (List.range m).map (fun d => (gray (k + 1 + d), ((tones (k + d) : Nat) : Int))) := by
  induction m with
  | zero =>
    intro k g fuel hk inv hi hf
    obtain ⟨f, rfl⟩ : ∃ f, fuel = f + 1 := ⟨fuel - 1, by omega⟩
    have hn : g.hasNext = true := by simp [Gray.hasNext, inv.len, hi]
    have hk' : k = 2 ^ n - 1 := by omega
    have hs := scan_none g 0 (Nat.zero_le _) (by
      intro b _ hb
      rw [inv.len] at hb
      rw [inv.d b hb, hk', Nat.testBit_two_pow_sub_one]
      simp [hb])
    have hdone : (g.scan 0).hasNext = false := by simp [Gray.hasNext, hs.1, hs.2]
    simp [Gray.runFuel, hn, Gray.next, runFuel_done _ _ hdone, inv.c]
  | succ m ih =>
    intro k g fuel hk inv hi hf
    obtain ⟨f, rfl⟩ : ∃ f, fuel = f + 1 := ⟨fuel - 1, by omega⟩
    have hn : g.hasNext = true := by simp [Gray.hasNext, inv.len, hi]
    have hj : tones k < n := tones_lt n k (by omega)
    obtain ⟨t1, t2⟩ := tones_spec k
    obtain ⟨s1, s2, s3, s4, s5⟩ := scan_found (tones k) g 0 (Nat.zero_le _) (by rw [inv.len]; exact hj)
      (by intro b _ hb; rw [inv.d b (by omega), t1 b hb]; rfl)
      (by rw [inv.d _ hj, t2]; rfl)
    have inv' : Inv n (k + 1) (g.scan 0) := by
      refine ⟨by rw [s1, inv.len], by rw [s2, inv.c, gray_succ], ?_⟩
      intro b hb
      have hd := inv.d b hb
      simp only [Gray.diff] at hd ⊢
      rw [s2, s5 b, succ_testBit]
      simp only [Nat.testBit_xor, one_shiftLeft_testBit, Nat.zero_le, decide_true, Bool.true_and]
      rcases Nat.lt_trichotomy b (tones k) with h | h | h
      · have e : ¬ tones k = b := by omega
        have := t1 b h
        simp [h, e, this] at hd ⊢
        simpa using hd
      · subst h
        simp [t2] at hd ⊢
        simp [hd]
      · have e1 : ¬ tones k = b := by omega
        have e2 : ¬ b < tones k := by omega
        have e3 : ¬ b = tones k := by omega
        simp [e1, e2, e3]
        exact hd
    have hrec := ih (k + 1) (g.scan 0) f (by omega) inv' (by rw [s3]; exact_mod_cast hj) (by omega)
    simp only [Gray.runFuel, hn, Gray.next, if_true, hrec, inv.c, s4, List.range_succ_eq_map, List.map_cons,
      List.map_map, Nat.add_zero]
    congr 1; congr 1
    apply List.map_congr_left
    intro d _
    simp only [Function.comp, Nat.succ_eq_add_one]
    rw [show k + 1 + 1 + d = k + 1 + (d + 1) by omega, show k + 1 + d = k + (d + 1) by omega]

/-- closed form of the enumeration -/
theorem grayList_eq (n : Nat) :
    grayList n = (List.range (2 ^ n)).map
      (fun k => (gray k, if k = 0 then (-1 : Int) else ((tones (k - 1) : Nat) : Int))) := by
  have hpos : 0 < 2 ^ n := Nat.two_pow_pos n
  obtain ⟨m, hm⟩ : ∃ m, 2 ^ n = m + 1 := ⟨2 ^ n - 1, by omega⟩
  unfold grayList
  rw [run_spec n m 0 (Gray.init n) _ (by omega) (Inv_init n) (by simp [Gray.init]; omega) (by omega)]
  rw [hm, List.range_succ_eq_map]
  simp only [List.map_cons, List.map_map, if_true]
  congr 1
  apply List.map_congr_left
  intro d _
  simp [Function.comp, Nat.add_comm]

theorem grayList_codes (n : Nat) : (grayList n).map Prod.fst = (List.range (2 ^ n)).map gray := by
  rw [grayList_eq, List.map_map]; rfl

/-- pigeonhole: a duplicate-free list of numbers `< N` has at most `N` elements -/
theorem nodup_bounded_length (N : Nat) : ∀ l : List Nat, l.Nodup → (∀ x ∈ l, x < N) → l.length ≤ N := by
  induction N with
  | zero =>
    intro l _ h
    cases l with
    | nil => simp
    | cons x l => exact absurd (h x List.mem_cons_self) (by omega)
  | succ N ih =>
    intro l hn h
    have h1 := ih (l.erase N) (hn.erase N) (by
      intro x hx
      rw [hn.mem_erase_iff] at hx
      have := h x hx.2
      omega)
    have h2 := List.length_erase (a := N) (l := l)
    split at h2 <;> omega

/-- The `GrayCodes` loop visits `2^n` codes, starting with `(0, -1)`; the codes are pairwise distinct and
`< 2^n`; and each code differs from its predecessor exactly in the reported changed bit, which is `< n`. -/
theorem gray_enumerates (n : Nat) :
    (grayList n).length = 2 ^ n ∧
    (grayList n).head? = some (0, -1) ∧
    ((grayList n).map Prod.fst).Nodup ∧
    (∀ p ∈ grayList n, p.1 < 2 ^ n) ∧
    (∀ k, (h : k + 1 < (grayList n).length) →
      0 ≤ (grayList n)[k + 1].2 ∧ (grayList n)[k + 1].2.toNat < n ∧
      (grayList n)[k + 1].1 = (grayList n)[k].1 ^^^ (1 <<< (grayList n)[k + 1].2.toNat)) := by
  refine ⟨by simp [grayList_eq], ?_, ?_, ?_, ?_⟩
  · obtain ⟨m, hm⟩ : ∃ m, 2 ^ n = m + 1 := ⟨2 ^ n - 1, by have := Nat.two_pow_pos n; omega⟩
    rw [grayList_eq, hm, List.range_succ_eq_map]
    simp [gray_zero]
  · rw [grayList_codes]
    rw [List.Nodup, List.pairwise_map]
    exact List.Pairwise.imp (fun hab hg => hab (gray_inj _ _ hg)) List.nodup_range
  · intro p hp
    rw [grayList_eq] at hp
    obtain ⟨k, hk, rfl⟩ := List.mem_map.mp hp
    exact gray_lt n k (List.mem_range.mp hk)
  · intro k h
    have hk : k + 1 < 2 ^ n := by simpa [grayList_eq] using h
    simp only [grayList_eq, List.getElem_map, List.getElem_range]
    simp only [Nat.add_sub_cancel, Nat.succ_ne_zero, if_false, Int.toNat_natCast]
    exact ⟨by omega, tones_lt n k hk, gray_succ k⟩

/-- every bipartition index of a column with `n` active reads is visited -/
theorem gray_complete (n idx : Nat) (h : idx < 2 ^ n) : idx ∈ (grayList n).map Prod.fst := by
  apply Classical.byContradiction
  intro hni
  obtain ⟨hlen, -, hnd, hlt, -⟩ := gray_enumerates n
  have := nodup_bounded_length (2 ^ n) (idx :: (grayList n).map Prod.fst)
    (List.nodup_cons.mpr ⟨hni, hnd⟩)
    (by
      intro x hx
      rcases List.mem_cons.mp hx with rfl | hx
      · exact h
      · obtain ⟨p, hp, rfl⟩ := List.mem_map.mp hx
        exact hlt p hp)
  simp [hlen] at this
  omega

/-- ... exactly once -/
theorem gray_exactly_once (n idx : Nat) (h : idx < 2 ^ n) : ((grayList n).map Prod.fst).count idx = 1 := by
  rw [(gray_enumerates n).2.2.1.count]
  simp [gray_complete n idx h]

end WhVerif.C01

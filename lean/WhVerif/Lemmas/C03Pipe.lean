import WhVerif.Model.C03Pipe
import WhVerif.Lemmas.C03
import WhVerif.Lemmas.C03Total
/-!
# C03 pipeline, part 1: `merge_readsets`, accessible positions, the family stage

* the merged read set is a permutation of the members' selected reads (nothing added, nothing lost), every read in it
  has strictly increasing positions;
* the accessible positions are exactly the positions covered by a selected read (plus the homozygous positions in
  pedigree mode with genetic haplotyping), sorted and distinct;
* under the pipeline's invariants `find_components` cannot raise (`familyStage_ok`);
* `findComponents` only looks at the SET of reads: permuting the reads (the hash tie-break of `ReadSet.sort`) changes
  neither whether it raises nor any component (`compOf_congr`).
-/
namespace WhVerif.C03.Pipe
open WhVerif.C03 WhVerif.C03.L WhVerif.C03.Total

/-! ### sorted lists -/

theorem strictSorted_tail {a : Nat} {l : List Nat} (h : strictSortedB (a :: l) = true) : strictSortedB l = true := by
  cases l with
  | nil => rfl
  | cons b t => simp only [strictSortedB, Bool.and_eq_true] at h; exact h.2

theorem strictSorted_head_lt : ∀ (l : List Nat) (a : Nat), strictSortedB (a :: l) = true → ∀ x ∈ l, a < x
  | [], _, _, x, hx => by cases hx
  | b :: t, a, h, x, hx => by
    simp only [strictSortedB, Bool.and_eq_true, decide_eq_true_eq] at h
    rcases List.mem_cons.mp hx with rfl | hx
    · exact h.1
    · exact Nat.lt_trans h.1 (strictSorted_head_lt t b h.2 x hx)

theorem strictSorted_pairwise : ∀ l : List Nat, strictSortedB l = true → l.Pairwise (· < ·)
  | [], _ => List.Pairwise.nil
  | a :: l, h => List.pairwise_cons.mpr ⟨strictSorted_head_lt l a h, strictSorted_pairwise l (strictSorted_tail h)⟩

theorem strictSorted_nodup (l : List Nat) (h : strictSortedB l = true) : l.Nodup :=
  (strictSorted_pairwise l h).imp (fun hab => Nat.ne_of_lt hab)

theorem nodup_eraseDups : ∀ (n : Nat) (l : List Nat), l.length ≤ n → l.eraseDups.Nodup
  | _, [], _ => by simp
  | 0, _ :: _, h => by simp at h
  | n + 1, a :: as, h => by
    rw [List.eraseDups_cons, List.nodup_cons]
    refine ⟨fun hm => ?_, nodup_eraseDups n _ ?_⟩
    · have := (List.mem_filter.mp (List.mem_eraseDups.mp hm)).2
      simp at this
    · have := List.length_filter_le (fun b => !b == a) as
      simp only [List.length_cons] at h
      omega

theorem insertSorted_perm (a : Nat) : ∀ l : List Nat, (insertSorted a l).Perm (a :: l)
  | [] => by simp [insertSorted]
  | b :: t => by
    simp only [insertSorted]
    split
    · exact List.Perm.refl _
    · exact ((insertSorted_perm a t).cons b).trans (List.Perm.swap a b t)

theorem foldr_insertSorted_perm : ∀ l : List Nat, (l.foldr insertSorted []).Perm l
  | [] => List.Perm.refl _
  | a :: t => by
    simp only [List.foldr_cons]
    exact (insertSorted_perm a _).trans ((foldr_insertSorted_perm t).cons a)

theorem sortDedup_nodup (l : List Nat) : (sortDedup l).Nodup :=
  (foldr_insertSorted_perm _).nodup_iff.mpr (nodup_eraseDups l.length l (Nat.le_refl _))

theorem isSorted_cons_of {a : Nat} {l : List Nat} (h : isSortedB l = true) (hle : ∀ x, l.head? = some x → a ≤ x) :
    isSortedB (a :: l) = true := by
  cases l with
  | nil => rfl
  | cons b t => simp only [isSortedB, Bool.and_eq_true, decide_eq_true_eq]; exact ⟨hle b rfl, h⟩

theorem isSorted_tail {a : Nat} {l : List Nat} (h : isSortedB (a :: l) = true) : isSortedB l = true := by
  cases l with
  | nil => rfl
  | cons b t => simp only [isSortedB, Bool.and_eq_true] at h; exact h.2

theorem insertSorted_sorted (a : Nat) : ∀ l : List Nat, isSortedB l = true → isSortedB (insertSorted a l) = true
  | [], _ => rfl
  | b :: t, h => by
    simp only [insertSorted]
    split
    · rename_i hab
      exact isSorted_cons_of h (fun x hx => by cases hx; exact hab)
    · rename_i hab
      refine isSorted_cons_of (insertSorted_sorted a t (isSorted_tail h)) (fun x hx => ?_)
      cases t with
      | nil => simp [insertSorted] at hx; omega
      | cons c u =>
        simp only [insertSorted] at hx
        have hbc : b ≤ c := by simp only [isSortedB, Bool.and_eq_true, decide_eq_true_eq] at h; exact h.1
        split at hx
        · cases hx; omega
        · cases hx; exact hbc

theorem sortDedup_sorted (l : List Nat) : isSortedB (sortDedup l) = true := by
  unfold sortDedup
  induction l.eraseDups with
  | nil => rfl
  | cons a t ih => exact insertSorted_sorted a _ ih

/-! ### `merge_readsets` -/

theorem addAll_spec : ∀ (l acc res : List SelRead), addAll acc l = .ok res →
    res = acc ++ l ∧ ∀ r ∈ l, strictSortedB r.positions = true
  | [], acc, res, h => by simp only [addAll, Except.ok.injEq] at h; subst h; simp
  | r :: rs, acc, res, h => by
    simp only [addAll] at h
    split at h
    · cases h
    · rename_i hs
      split at h
      · cases h
      · obtain ⟨h1, h2⟩ := addAll_spec rs _ res h
        refine ⟨by simp [h1], fun x hx => ?_⟩
        rcases List.mem_cons.mp hx with rfl | hx
        · simpa using hs
        · exact h2 x hx

theorem insertRead_perm (r : SelRead) : ∀ l : List SelRead, (insertRead r l).Perm (r :: l)
  | [] => by simp [insertRead]
  | b :: t => by
    simp only [insertRead]
    split
    · exact List.Perm.refl _
    · exact ((insertRead_perm r t).cons b).trans (List.Perm.swap r b t)

theorem sortReads_perm : ∀ l : List SelRead, (sortReads l).Perm l
  | [] => List.Perm.refl _
  | a :: t => by
    simp only [sortReads, List.foldr_cons]
    exact (insertRead_perm a _).trans ((sortReads_perm t).cons a)

/-- **`merge_readsets` keeps exactly the selected reads**: the read set handed to the solver is a permutation of the
concatenation of the members' selected read sets, and every read in it is strictly position-sorted -/
theorem mergeReadsets_spec (rss : List (List SelRead)) (all : List SelRead) (h : mergeReadsets rss = .ok all) :
    all.Perm rss.flatten ∧ ∀ r ∈ all, strictSortedB r.positions = true := by
  unfold mergeReadsets at h
  split at h
  · rename_i l hl
    obtain ⟨h1, h2⟩ := addAll_spec _ _ _ hl
    simp only [Except.ok.injEq] at h
    subst h
    simp only [List.nil_append] at h1
    subst h1
    exact ⟨sortReads_perm _, fun r hr => h2 r ((sortReads_perm _).mem_iff.mp hr)⟩
  · cases h

/-! ### accessible positions -/

theorem mem_accessible (all : List SelRead) (n : Nat) (g : Bool) (hom : List Nat) (p : Nat) :
    p ∈ accessiblePositions all n g hom ↔ (∃ r ∈ all, p ∈ r.positions) ∨ (n > 1 ∧ g = true ∧ p ∈ hom) := by
  unfold accessiblePositions
  by_cases hc : (decide (n > 1) && g) = true
  · simp only [hc, if_true, mem_sortDedup, List.mem_append, List.mem_flatMap]
    simp only [Bool.and_eq_true, decide_eq_true_eq] at hc
    constructor
    · rintro (h | h)
      · exact Or.inl h
      · exact Or.inr ⟨hc.1, hc.2, h⟩
    · rintro (h | h)
      · exact Or.inl h
      · exact Or.inr h.2.2
  · have hc' : (decide (n > 1) && g) = false := by simpa using hc
    simp only [hc', Bool.false_eq_true, if_false, mem_sortDedup, List.mem_flatMap]
    simp only [Bool.and_eq_true, decide_eq_true_eq] at hc
    constructor
    · intro h; exact Or.inl h
    · rintro (h | h)
      · exact h
      · exact absurd ⟨h.1, h.2.1⟩ hc

theorem accessible_sorted (all : List SelRead) (n : Nat) (g : Bool) (hom : List Nat) :
    isSortedB (accessiblePositions all n g hom) = true := by
  unfold accessiblePositions
  split <;> exact sortDedup_sorted _

theorem accessible_nodup (all : List SelRead) (n : Nat) (g : Bool) (hom : List Nat) :
    (accessiblePositions all n g hom).Nodup := by
  unfold accessiblePositions
  split <;> exact sortDedup_nodup _

/-! ### `Connected` only depends on the set of reads -/

theorem Chain.mono {L L' : Nat → Nat → Prop} (h : ∀ a b, L a b → L' a b) {a b : Nat} (hc : Chain L a b) : Chain L' a b := by
  induction hc with
  | refl a => exact .refl a
  | step hl _ ih => exact .step (h _ _ hl) ih

theorem linked_of_subset {phased : List Nat} {reads reads' : List Read} {master : Option (List Nat)} {het : Option HetMap}
    (hs : ∀ r, r ∈ reads → r ∈ reads') (a b : Nat) (h : Linked phased reads master het a b) :
    Linked phased reads' master het a b := by
  rcases h with ⟨r, hr, rest⟩ | h
  · exact Or.inl ⟨r, hs r hr, rest⟩
  · exact Or.inr h

theorem connected_congr {phased : List Nat} {reads reads' : List Read} {master : Option (List Nat)} {het : Option HetMap}
    (hs : ∀ r, r ∈ reads ↔ r ∈ reads') (a b : Nat) :
    Connected phased reads master het a b ↔ Connected phased reads' master het a b :=
  ⟨Chain.mono (linked_of_subset fun r => (hs r).mp), Chain.mono (linked_of_subset fun r => (hs r).mpr)⟩

/-- two successful runs of `find_components` on read lists with the same members (any order, any multiplicity) return
the same component for every position -/
theorem compOf_congr {phased : List Nat} {reads reads' : List Read} {master : Option (List Nat)} {het : Option HetMap}
    (hs : ∀ r, r ∈ reads ↔ r ∈ reads') {comps comps' : List (Nat × Nat)}
    (h : findComponents phased reads master het = .ok comps) (h' : findComponents phased reads' master het = .ok comps')
    (p : Nat) : compOf comps p = compOf comps' p := by
  obtain ⟨rep, hc, hk, hle, _, hconn⟩ := findComponents_rep phased reads master het comps h
  obtain ⟨rep', hc', hk', hle', _, hconn'⟩ := findComponents_rep phased reads' master het comps' h'
  rw [hc p, hc' p]
  split
  · congr 1
    apply Nat.le_antisymm
    · have : Connected phased reads master het p (rep' p) := (connected_congr hs p _).mpr (hconn' p)
      rw [(hk p (rep' p)).mpr this]; exact hle _
    · have : Connected phased reads' master het p (rep p) := (connected_congr hs p _).mp (hconn p)
      rw [(hk' p (rep p)).mpr this]; exact hle' _
  · rfl

/-- whether `find_components` raises does not depend on the order of the reads either -/
theorem findComponents_ok_congr {phased : List Nat} {reads reads' : List Read} {master : Option (List Nat)}
    {het : Option HetMap} (hs : ∀ r, r ∈ reads' → r ∈ reads)
    (hsorted : isSortedB phased = true) (hnd : ∀ r ∈ reads, r.positions.Nodup) (hk : HetKnows het reads)
    (hm : MasterOk phased master) : ∃ comps, findComponents phased reads' master het = .ok comps :=
  findComponents_ok phased reads' master het hsorted (fun r hr => hnd r (hs r hr)) (fun r hr => hk r (hs r hr)) hm

/-! ### reads that cover fewer than two phased variants link nothing -/

/-- the read covers at least two different phased positions -/
def usefulB (phased : List Nat) (r : Read) : Bool :=
  decide ((r.positions.filter (fun p => phased.contains p)).eraseDups.length ≥ 2)

theorem length_ge_two_of_mem {l : List Nat} {a b : Nat} (ha : a ∈ l) (hb : b ∈ l) (hne : a ≠ b) : l.length ≥ 2 := by
  match l, ha, hb with
  | [x], ha, hb =>
    simp only [List.mem_singleton] at ha hb
    exact absurd (ha.trans hb.symm) hne
  | _ :: _ :: _, _, _ => simp

theorem useful_of_link {phased : List Nat} {r : Read} {a b : Nat} (ha : a ∈ r.positions) (hb : b ∈ r.positions)
    (hpa : a ∈ phased) (hpb : b ∈ phased) (hne : a ≠ b) : usefulB phased r = true := by
  unfold usefulB
  simp only [decide_eq_true_eq]
  apply length_ge_two_of_mem (a := a) (b := b) _ _ hne
  · exact List.mem_eraseDups.mpr (List.mem_filter.mpr ⟨ha, by simpa using hpa⟩)
  · exact List.mem_eraseDups.mpr (List.mem_filter.mpr ⟨hb, by simpa using hpb⟩)

theorem Chain.drop_loops {L L' : Nat → Nat → Prop} (h : ∀ a b, L a b → a = b ∨ L' a b) {a b : Nat} (hc : Chain L a b) :
    Chain L' a b := by
  induction hc with
  | refl a => exact .refl a
  | step hl _ ih =>
    rcases h _ _ hl with rfl | hl'
    · exact ih
    · exact .step hl' ih

/-- dropping every read that covers fewer than two phased positions does not change connectivity -/
theorem connected_filter_useful (phased : List Nat) (reads : List Read) (master : Option (List Nat)) (het : Option HetMap)
    (a b : Nat) :
    Connected phased reads master het a b ↔ Connected phased (reads.filter (usefulB phased)) master het a b := by
  constructor
  · apply Chain.drop_loops
    intro x y hl
    by_cases hxy : x = y
    · exact Or.inl hxy
    · refine Or.inr ?_
      rcases hl with ⟨r, hr, hx, hy, hpx, hpy, rest⟩ | hm
      · exact Or.inl ⟨r, List.mem_filter.mpr ⟨hr, useful_of_link hx hy hpx hpy hxy⟩, hx, hy, hpx, hpy, rest⟩
      · exact Or.inr hm
  · exact Chain.mono (linked_of_subset fun r hr => (List.mem_filter.mp hr).1)

/-! ### the family stage -/

/-- the arguments `find_components` gets for the family -/
def famMaster (distrust genetic : Bool) (f : FamilyIn) (o : FamilyOut) : Option (List Nat) :=
  (overallParams o.accessible distrust f.members.length genetic f.homozygous f.superreads).1

def famHet (distrust genetic : Bool) (f : FamilyIn) (o : FamilyOut) : Option HetMap :=
  (overallParams o.accessible distrust f.members.length genetic f.homozygous f.superreads).2

/-- the selected reads of all family members, as `find_components` sees them -/
def famReads (f : FamilyIn) : List Read := f.selected.flatten.map SelRead.toRead

structure StageSpec (distrust genetic : Bool) (f : FamilyIn) (o : FamilyOut) : Prop where
  merged : mergeReadsets f.selected = .ok o.allReads
  acc : o.accessible = accessiblePositions o.allReads f.members.length genetic f.homozygous
  comps : findComponents o.accessible (o.allReads.map SelRead.toRead) (famMaster distrust genetic f o)
            (famHet distrust genetic f o) = .ok o.comps
  ids : ∀ x ∈ f.members.zip f.superreads, x.1.id = x.2.sampleId
  targets : o.targets = (f.members.zip f.superreads).map (fun x => toTarget x.1.name x.2 o.comps)

theorem familyStage_spec (distrust genetic : Bool) (f : FamilyIn) (o : FamilyOut)
    (h : familyStage distrust genetic f = .ok o) : StageSpec distrust genetic f o := by
  unfold familyStage at h
  split at h
  · cases h
  · rename_i all hall
    simp only at h
    split at h
    · cases h
    · rename_i comps hcomps
      split at h
      · cases h
      · rename_i hids
        simp only [Except.ok.injEq] at h
        subst h
        refine ⟨hall, rfl, hcomps, fun x hx => ?_, rfl⟩
        simp only [List.any_eq_true, not_exists, not_and, bne_iff_ne, ne_eq, Decidable.not_not] at hids
        exact hids x hx

theorem mem_allReads {distrust genetic : Bool} {f : FamilyIn} {o : FamilyOut} (hs : StageSpec distrust genetic f o)
    (r : SelRead) : r ∈ o.allReads ↔ r ∈ f.selected.flatten :=
  (mergeReadsets_spec _ _ hs.merged).1.mem_iff

theorem mem_allReads_toRead {distrust genetic : Bool} {f : FamilyIn} {o : FamilyOut}
    (hs : StageSpec distrust genetic f o) (r : Read) : r ∈ o.allReads.map SelRead.toRead ↔ r ∈ famReads f := by
  unfold famReads
  simp only [List.mem_map]
  constructor
  · rintro ⟨x, hx, rfl⟩; exact ⟨x, (mem_allReads hs x).mp hx, rfl⟩
  · rintro ⟨x, hx, rfl⟩; exact ⟨x, (mem_allReads hs x).mpr hx, rfl⟩

/-- a position is accessible iff a selected read of some family member covers it — or, in pedigree mode with genetic
haplotyping, it is one of the homozygous positions -/
theorem mem_stage_accessible {distrust genetic : Bool} {f : FamilyIn} {o : FamilyOut}
    (hs : StageSpec distrust genetic f o) (p : Nat) :
    p ∈ o.accessible ↔ (∃ rs ∈ f.selected, ∃ r ∈ rs, p ∈ r.positions) ∨
      (f.members.length > 1 ∧ genetic = true ∧ p ∈ f.homozygous) := by
  rw [hs.acc, mem_accessible]
  constructor
  · rintro (⟨r, hr, hp⟩ | h)
    · obtain ⟨rs, hrs, hr'⟩ := List.mem_flatten.mp ((mem_allReads hs r).mp hr)
      exact Or.inl ⟨rs, hrs, r, hr', hp⟩
    · exact Or.inr h
  · rintro (⟨rs, hrs, r, hr, hp⟩ | h)
    · exact Or.inl ⟨r, (mem_allReads hs r).mpr (List.mem_flatten.mpr ⟨rs, hrs, hr⟩), hp⟩
    · exact Or.inr h

/-! ### totality of the family stage -/

theorem lookup_map_isSome {β : Type} (g : SuperReads → β) (k : Nat) : ∀ (srs : List SuperReads),
    (∃ s ∈ srs, s.sampleId = k) → ((srs.map fun s => (s.sampleId, g s)).lookup k).isSome = true
  | [], h => by obtain ⟨s, hs, _⟩ := h; cases hs
  | s :: rest, h => by
    simp only [List.map_cons, List.lookup_cons]
    by_cases hk : k = s.sampleId
    · simp [hk]
    · have hb : (k == s.sampleId) = false := by simpa using hk
      rw [hb]
      obtain ⟨s', hs', he⟩ := h
      rcases List.mem_cons.mp hs' with rfl | hs''
      · exact absurd he.symm hk
      · exact lookup_map_isSome g k rest ⟨s', hs'', he⟩

/-- the invariants of the pipeline under which `find_components` cannot raise: the ids of the members agree with the
super-reads (the code asserts it), every member has super-reads, every selected read belongs to a member -/
structure FamilyOk (f : FamilyIn) : Prop where
  ids : ∀ x ∈ f.members.zip f.superreads, x.1.id = x.2.sampleId
  len : f.superreads.length = f.members.length
  owner : ∀ rs ∈ f.selected, ∀ r ∈ rs, ∃ m ∈ f.members, m.id = r.sample

theorem zip_mem_of_left {α β} : ∀ (l1 : List α) (l2 : List β), l1.length = l2.length → ∀ a ∈ l1, ∃ b, (a, b) ∈ l1.zip l2
  | [], _, _, a, ha => by cases ha
  | _ :: _, [], h, _, _ => by simp at h
  | x :: xs, y :: ys, h, a, ha => by
    rcases List.mem_cons.mp ha with rfl | ha
    · exact ⟨y, by simp⟩
    · obtain ⟨b, hb⟩ := zip_mem_of_left xs ys (by simpa using h) a ha
      exact ⟨b, by simp [hb]⟩

theorem familyStage_ok (distrust genetic : Bool) (f : FamilyIn) (all : List SelRead)
    (hm : mergeReadsets f.selected = .ok all) (hok : FamilyOk f) :
    ∃ o, familyStage distrust genetic f = .ok o := by
  obtain ⟨hperm, hsorted⟩ := mergeReadsets_spec _ _ hm
  have hcomp : ∃ comps, computeOverallComponents (accessiblePositions all f.members.length genetic f.homozygous)
      (all.map SelRead.toRead) distrust f.members.length genetic f.homozygous f.superreads = .ok comps := by
    unfold computeOverallComponents
    apply findComponents_ok
    · exact accessible_sorted _ _ _ _
    · intro r hr
      obtain ⟨x, hx, rfl⟩ := List.mem_map.mp hr
      exact strictSorted_nodup _ (hsorted x hx)
    · intro r hr
      obtain ⟨x, hx, rfl⟩ := List.mem_map.mp hr
      unfold HetKnowsRead overallParams
      cases distrust with
      | false => simp
      | true =>
        simp only [if_true]
        apply lookup_map_isSome
        obtain ⟨rs, hrs, hxr⟩ := List.mem_flatten.mp (hperm.mem_iff.mp hx)
        obtain ⟨m, hmem, hid⟩ := hok.owner rs hrs x hxr
        obtain ⟨s, hms⟩ := zip_mem_of_left f.members f.superreads hok.len.symm m hmem
        refine ⟨s, ?_, ?_⟩
        · have : f.superreads.take f.members.length = f.superreads := by
            rw [← hok.len]; exact List.take_length
          rw [this]; exact (List.of_mem_zip hms).2
        · rw [← hok.ids _ hms]; exact hid
    · unfold MasterOk overallParams
      by_cases hcnd : (decide (f.members.length > 1) && genetic) = true
      · cases distrust
        · simp only [Bool.false_eq_true, if_false, hcnd, if_true]
          refine ⟨sortDedup_nodup _, fun p hp => ?_⟩
          rw [mem_sortDedup] at hp
          simp only [List.mem_filter, List.contains_iff_mem] at hp
          exact hp.2
        · simp only [if_true, hcnd]
          refine ⟨sortDedup_nodup _, fun p hp => ?_⟩
          rw [mem_sortDedup] at hp
          simp only [List.mem_flatMap, List.mem_map, List.mem_filter, Bool.and_eq_true, List.contains_iff_mem] at hp
          obtain ⟨s, _, v, ⟨_, hacc, _⟩, rfl⟩ := hp
          exact hacc
      · have hcnd' : (decide (f.members.length > 1) && genetic) = false := by simpa using hcnd
        cases distrust <;> simp [hcnd']
  obtain ⟨comps, hc⟩ := hcomp
  unfold familyStage
  simp only [hm, hc]
  have hany : ((f.members.zip f.superreads).any fun x => x.1.id != x.2.sampleId) = false := by
    rw [List.any_eq_false]
    intro x hx
    simp [hok.ids x hx]
  simp [hany]

end WhVerif.C03.Pipe

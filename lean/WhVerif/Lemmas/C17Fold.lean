import WhVerif.Lemmas.C17
import WhVerif.Spec.C17
/-! C17: the vote loops keep the per-position invariant; consensus of a one-sided vote -/
namespace WhVerif.C17
open WhVerif.C10 (RV)

theorem infoAt_pos {vars : List VarInfo} {pos : Nat} {info : VarInfo} (h : infoAt vars pos = some info) :
    info.pos = pos := by
  have := List.find?_some h
  simpa using this

theorem xor_key (a0 a1 : Nat) (h : (a0 = 0 ∧ a1 = 1) ∨ (a0 = 1 ∧ a1 = 0)) :
    (0 ^^^ a0 = a0) ∧ (1 ^^^ a1 = a0) := by
  rcases h with ⟨rfl, rfl⟩ | ⟨rfl, rfl⟩ <;> decide

theorem qualOf_cons (pos : Nat) (v : RV) (vs : List RV) :
    qualOf pos (v :: vs) = (if v.pos = pos then v.qual else 0) + qualOf pos vs := by
  unfold qualOf
  by_cases h : v.pos = pos <;> simp [h]

theorem voteVariants_inv {vars : List VarInfo} {pos : Nat} {info : VarInfo} {ps0 : Int} {k0 : Nat} (hk : k0 ≤ 1)
    (hinfo : infoAt vars pos = some info) (hgt : info.gt = [0, 1]) {ps : Int} {ht : Nat}
    (vs : List RV) (hcons : ∀ v ∈ vs, v.pos = pos → ps = ps0 ∧ v.allele ≤ 1 ∧ ht ^^^ v.allele = k0)
    {S : Nat} {votes votes' : Votes} (hi : PosInv pos ps0 k0 S votes)
    (h : voteVariants vars ps ht votes vs = .ok votes') : PosInv pos ps0 k0 (S + qualOf pos vs) votes' := by
  induction vs generalizing S votes with
  | nil => simp [voteVariants] at h; subst h; simpa [qualOf] using hi
  | cons v rest ih =>
    simp only [voteVariants] at h
    cases hv : voteVariant vars ps ht votes v with
    | error e => simp [hv] at h
    | ok votes1 =>
      simp only [hv] at h
      have hrest : ∀ w ∈ rest, w.pos = pos → ps = ps0 ∧ w.allele ≤ 1 ∧ ht ^^^ w.allele = k0 :=
        fun w hw => hcons w (List.mem_cons_of_mem _ hw)
      rw [qualOf_cons, ← Nat.add_assoc]
      apply ih hrest _ h
      unfold voteVariant at hv
      by_cases hp : v.pos = pos
      · obtain ⟨hps, hal, hkey⟩ := hcons v List.mem_cons_self hp
        subst hps
        rw [hp, hinfo] at hv
        have hhom : info.homozygous = false := by simp [VarInfo.homozygous, hgt]
        have hid : alleleId info.gt v.allele = some v.allele := by
          rw [hgt]
          have : v.allele = 0 ∨ v.allele = 1 := by omega
          rcases this with e | e <;> rw [e] <;> decide
        simp only [hhom, hid, hkey] at hv
        simp only [Bool.false_eq_true, if_false] at hv
        cases hva : voteAt pos ps k0 v.qual votes with
        | none => simp [hva] at hv
        | some v1 =>
          simp only [hva] at hv
          injection hv with hv
          subst hv
          simpa [hp] using posInv_vote_self hk hi hva
      · simp only [hp, if_false, Nat.add_zero]
        cases hia : infoAt vars v.pos with
        | none => simp [hia] at hv
        | some info' =>
          simp only [hia] at hv
          by_cases hh : info'.homozygous = true
          · simp only [hh, if_true] at hv
            injection hv with hv; subst hv; exact hi
          · simp only [hh] at hv
            simp only [Bool.false_eq_true, if_false] at hv
            cases hid : alleleId info'.gt v.allele with
            | none => simp [hid] at hv
            | some id =>
              simp only [hid] at hv
              cases hva : voteAt v.pos ps (ht ^^^ id) v.qual votes with
              | none => simp [hva] at hv
              | some v1 =>
                simp only [hva] at hv
                injection hv with hv
                subst hv
                exact posInv_vote_other (fun e => hp e.symm) hi hva

theorem computeVotes_inv {vars : List VarInfo} {pos : Nat} {info : VarInfo} {P : Int} {a0 a1 : Nat}
    (ha : (a0 = 0 ∧ a1 = 1) ∨ (a0 = 1 ∧ a1 = 0))
    (hinfo : infoAt vars pos = some info) (hgt : info.gt = [0, 1])
    (reads : List TRead) (hcons : Consistent pos P a0 a1 reads)
    {S : Nat} {votes votes' : Votes} (hi : PosInv pos (P - 1) a0 S votes)
    (h : computeVotes vars votes reads = .ok votes') : PosInv pos (P - 1) a0 (S + qualAt pos reads) votes' := by
  have hk : a0 ≤ 1 := by omega
  induction reads generalizing S votes with
  | nil => simp [computeVotes] at h; subst h; simpa [qualAt] using hi
  | cons r rest ih =>
    simp only [computeVotes] at h
    cases hr : voteRead vars votes r with
    | error e => simp [hr] at h
    | ok votes1 =>
      simp only [hr] at h
      have hrest : Consistent pos P a0 a1 rest := fun x hx => hcons x (List.mem_cons_of_mem _ hx)
      unfold voteRead at hr
      by_cases hv : voting r = true
      · have hq : qualAt pos (r :: rest) = qualOf pos r.variants + qualAt pos rest := by
          simp [qualAt, hv]
        rw [hq, ← Nat.add_assoc]
        apply ih hrest _ h
        simp only [voting, Bool.and_eq_true, decide_eq_true_eq] at hv
        obtain ⟨⟨h1, h2⟩, h3⟩ := hv
        have c1 : ¬ (r.hp - 1 < 0 ∨ r.ps - 1 < 0) := by omega
        have c2 : ¬ (r.hp - 1 > 1) := by omega
        simp only [c1, c2, if_false] at hr
        have hvote : voting r = true := by simp [voting, h1, h2, h3]
        have hc := hcons r List.mem_cons_self hvote
        refine voteVariants_inv hk hinfo hgt r.variants ?_ hi hr
        intro v hv' hp
        obtain ⟨e1, e2⟩ := hc v hv' hp
        obtain ⟨x1, x2⟩ := xor_key a0 a1 ha
        have hhp : r.hp = 1 ∨ r.hp = 2 := by omega
        rcases hhp with e | e
        · simp only [e, if_true] at e2
          refine ⟨by omega, by omega, ?_⟩
          simp [e, e2]
        · have : ¬ r.hp = 1 := by omega
          simp only [this, if_false] at e2
          refine ⟨by omega, by omega, ?_⟩
          have : (r.hp - 1).toNat = 1 := by omega
          rw [this, e2]; exact x2
      · have hq : qualAt pos (r :: rest) = qualAt pos rest := by
          simp [qualAt, hv]
        rw [hq]
        apply ih hrest _ h
        have hv' : ¬ (decide (1 ≤ r.hp) && decide (r.hp ≤ 2) && decide (1 ≤ r.ps)) = true := hv
        simp only [Bool.and_eq_true, decide_eq_true_eq] at hv'
        by_cases c1 : r.hp - 1 < 0 ∨ r.ps - 1 < 0
        · simp only [c1, if_true] at hr
          injection hr with hr; subst hr; exact hi
        · have c2 : r.hp - 1 > 1 := by omega
          simp only [c1, c2, if_true, if_false] at hr
          injection hr with hr; subst hr; exact hi

/-! ### consensus of a one-sided vote -/

theorem homopolymerFrom_le (ref : Array Char) (start : Nat) (fwd : Bool) (threshold fuel i res : Nat)
    (h : res ≤ threshold) : homopolymerFrom ref start fwd threshold fuel i res ≤ threshold := by
  induction fuel generalizing i res with
  | zero => simpa [homopolymerFrom] using h
  | succ n ih =>
    unfold homopolymerFrom
    split
    · rename_i hc
      split
      · exact ih _ _ (by omega)
      · split
        · omega
        · exact ih _ _ (by omega)
    · exact h

theorem lengthOfHomopolymer_le (ref : Array Char) (start : Nat) (fwd : Bool) (threshold : Nat) :
    lengthOfHomopolymer ref start fwd threshold ≤ threshold :=
  homopolymerFrom_le ref start fwd threshold _ _ 0 (Nat.zero_le _)

theorem bestCandidate_shape (ps0 : Int) {k0 : Nat} (hk : k0 ≤ 1) {S : Nat} (hS : 0 < S) :
    bestCandidate (shape ps0 k0 S) = .ok ⟨k0, ps0, S, S⟩ := by
  have : k0 = 0 ∨ k0 = 1 := by omega
  rcases this with rfl | rfl
  · have : ¬ S < 0 := by omega
    have h0 : ¬ S = 0 := by omega
    simp [bestCandidate, shape, bestEntry, this, h0]
  · have h0 : ¬ S = 0 := by omega
    simp [bestCandidate, shape, bestEntry, hS, h0]

theorem consensusAt_shape (par : Params) (hgap : par.gapThreshold ≤ 100) (honly : par.onlyIndels = false)
    (ref : Array Char) (info : VarInfo) (hgt : info.gt = [0, 1]) (hph : info.phase = none)
    (ps0 : Int) {k0 : Nat} (hk : k0 ≤ 1) {S : Nat} (hS : 0 < S) (repaired : Bool) :
    consensusAt repaired par ref info (shape ps0 k0 S) = .ok ⟨info.pos, ps0, some (k0, 1 - k0)⟩ := by
  have hb := bestCandidate_shape ps0 hk hS
  have h1 := lengthOfHomopolymer_le ref (info.pos + 1) true par.cutPoly
  have h2 := lengthOfHomopolymer_le ref info.pos false par.cutPoly
  have hgapS : ¬ 100 * S < par.gapThreshold * S := by
    have := Nat.mul_le_mul_right S hgap
    omega
  have hhp : ¬ par.cutPoly < max (lengthOfHomopolymer ref (info.pos + 1) true par.cutPoly)
      (lengthOfHomopolymer ref info.pos false par.cutPoly) := by omega
  have hid : idAllele info.gt k0 = some k0 ∧ idAllele info.gt (1 - k0) = some (1 - k0) := by
    rw [hgt]
    have : k0 = 0 ∨ k0 = 1 := by omega
    rcases this with rfl | rfl <;> simp [idAllele]
  unfold consensusAt
  cases repaired <;> simp [hph, hb, hgapS, honly, hhp, hid.1, hid.2]

theorem consensusAt_pos {repaired : Bool} {par : Params} {ref : Array Char} {info : VarInfo} {inner : Inner}
    {c : Cons} (h : consensusAt repaired par ref info inner = .ok c) : c.pos = info.pos := by
  unfold consensusAt at h
  split at h
  · injection h with h; subst h; rfl
  · split at h
    · cases h
    · dsimp only at h
      split at h
      · injection h with h; subst h; rfl
      · split at h
        · injection h with h; subst h; rfl
        · cases h

theorem find_consensusVotes {repaired : Bool} {par : Params} {ref : Array Char} {vars : List VarInfo}
    {votes : Votes} {cs : List Cons} (h : consensusVotes repaired par ref vars votes = .ok cs)
    {pos : Nat} {inner : Inner} (hl : votes.lookup pos = some inner) :
    ∃ info c, infoAt vars pos = some info ∧ consensusAt repaired par ref info inner = .ok c ∧
      cs.find? (·.pos == pos) = some c := by
  induction votes generalizing cs with
  | nil => simp [List.lookup] at hl
  | cons e rest ih =>
    obtain ⟨p, i⟩ := e
    simp only [consensusVotes] at h
    cases hia : infoAt vars p with
    | none => simp [hia] at h
    | some info' =>
      simp only [hia] at h
      cases hc : consensusAt repaired par ref info' i with
      | error e => simp [hc] at h
      | ok c =>
        cases hr : consensusVotes repaired par ref vars rest with
        | error e => simp [hc, hr] at h
        | ok cs' =>
          simp only [hc, hr] at h
          injection h with h
          subst h
          have hcpos : c.pos = p := (consensusAt_pos hc).trans (infoAt_pos hia)
          simp only [List.lookup_cons] at hl
          cases hb : (pos == p) with
          | true =>
            rw [hb] at hl
            have hpp : pos = p := by simpa using hb
            subst hpp
            injection hl with hl
            subst hl
            exact ⟨info', c, hia, hc, by simp [List.find?, hcpos]⟩
          | false =>
            rw [hb] at hl
            obtain ⟨info, c', h1, h2, h3⟩ := ih hr hl
            refine ⟨info, c', h1, h2, ?_⟩
            have : (c.pos == pos) = false := by
              rw [hcpos]
              simpa using fun e : p = pos => (by simpa using hb : ¬ pos = p) e.symm
            simp [List.find?, this, h3]

end WhVerif.C17

import WhVerif.Model.C01Witness
import WhVerif.Lemmas.C01Dp
/-!
# C01, backtrace: the path found by `backtrace` has cost exactly the DP cell it starts from. Core Lean only.
-/
set_option linter.unusedSimpArgs false
set_option linter.unusedVariables false
namespace WhVerif.C01
open WhVerif.Cost

/-! ### `argminOver` -/

theorem argminOver_none {α} (l : List α) (f : α → Option Nat) :
    argminOver l f = none ↔ minOver l f = none := by
  unfold argminOver
  simp only [minOver_map]
  constructor
  · intro h
    by_cases hm : (minOver l f).isNone = true
    · simpa using hm
    · rw [if_neg hm] at h
      exfalso
      rcases (minOver_isMin l f).att with e | ⟨x, hx, e⟩
      · exact hm (by simp [e])
      · simp only [Option.map_eq_none_iff, List.find?_eq_none, List.mem_map] at h
        have := h (x, f x) ⟨x, hx, rfl⟩
        simp [e] at this
  · intro h
    simp [h]

theorem argminOver_some {α} (l : List α) (f : α → Option Nat) (a : α) (h : argminOver l f = some a) :
    a ∈ l ∧ f a = minOver l f ∧ minOver l f ≠ none := by
  unfold argminOver at h
  simp only [minOver_map] at h
  by_cases hm : (minOver l f).isNone = true
  · rw [if_pos hm] at h; cases h
  · rw [if_neg hm] at h
    obtain ⟨av, hav, rfl⟩ := Option.map_eq_some_iff.mp h
    have h1 := List.find?_some hav
    have h2 := List.mem_of_find?_eq_some hav
    obtain ⟨x, hx, rfl⟩ := List.mem_map.mp h2
    simp only [beq_iff_eq] at h1
    exact ⟨hx, h1, fun e => hm (by simp [e])⟩

/-! ### the tables handed to `backtrace` -/

/-- projection table of the previous column, as `dpCost` passes it to `dpCell` -/
def prevOf (I : Inst) (c : Nat) : Array (Option Nat) := if c = 0 then #[] else tableAt I (c - 1)

/-- the table list handed to `backtrace` at column `c` -/
def tabsFor (I : Inst) (c : Nat) : List (Array (Option Nat)) := if c = 0 then [] else tablesDown I (c - 1)

theorem tablesDown_eq (I : Inst) (c : Nat) :
    tablesDown I c = tableAt I c :: (match c with | 0 => [] | c' + 1 => tablesDown I c') := by
  induction c with
  | zero => rfl
  | succ c ih =>
    simp only [tablesDown]
    rw [ih]
    rfl

theorem tabsFor_head (I : Inst) (c : Nat) : (tabsFor I c).headD #[] = prevOf I c := by
  unfold tabsFor prevOf
  by_cases h : c = 0
  · simp [h]
  · rw [if_neg h, if_neg h, tablesDown_eq]; rfl

theorem tabsFor_tail (I : Inst) (c : Nat) : (tabsFor I (c + 1)).tail = tabsFor I c := by
  unfold tabsFor
  rw [if_neg (Nat.succ_ne_zero c), Nat.add_sub_cancel, tablesDown_eq]
  cases c with
  | zero => rfl
  | succ c => simp

theorem tableAt_eq_proj (I : Inst) (c : Nat) : tableAt I c = projTable I c (prevOf I c) := by
  cases c with
  | zero => rfl
  | succ c => simp [tableAt, prevOf]

theorem dpCost_eq (I : Inst) (h0 : I.ncols ≠ 0) :
    dpCost I = minOver (pairs (2 ^ (I.activeAt (I.ncols - 1)).length) I.ntrans)
      (fun it => dpCell I (I.ncols - 1) (prevOf I (I.ncols - 1)) it.1 it.2) := by
  unfold dpCost prevOf
  rw [if_neg h0]

/-- a projection entry is the minimum of the cells with that forward projection and transmission value -/
theorem table_entry (I : Inst) (c bp j : Nat) (hbp : bp < 2 ^ (I.sharedAt c).length) (hj : j < I.ntrans) :
    (tableAt I c).getD (bp * I.ntrans + j) none
      = minOver ((List.range (2 ^ (I.activeAt c).length)).filter
          (fun i => natOfBits (fwdBits I c (bitsOf (I.activeAt c).length i)) == bp))
        (fun i => dpCell I c (prevOf I c) i j) := by
  rw [tableAt_eq_proj]
  unfold projTable
  simp only
  rw [bucketMin_getD _ _ _ _ _ (enc_lt _ _ _ _ hbp hj)]
  rw [← minOver_map _ (fun i => (i, j)) (fun it : Nat × Nat => dpCell I c (prevOf I c) it.1 it.2)]
  apply minOver_congr_mem
  rintro ⟨i, t⟩
  simp only [List.mem_filter, mem_pairs, List.mem_map, List.mem_range, beq_iff_eq, Prod.mk.injEq]
  constructor
  · rintro ⟨⟨hi, ht⟩, hk⟩
    have := enc_inj _ _ _ _ _ ht hj hk
    exact ⟨i, ⟨hi, this.1⟩, rfl, this.2.symm⟩
  · rintro ⟨i', ⟨hi, hk⟩, rfl, rfl⟩
    exact ⟨⟨hi, hj⟩, by rw [hk]⟩

/-! ### paths -/

/-- the view (bits, previous transmission value, transmission value) of column `c` along a path -/
def pview (I : Inst) (path : List (Nat × Nat)) (c : Nat) : V :=
  (bitsOf (I.activeAt c).length (path.getD c (0, 0)).1, (path.getD (c - 1) (0, 0)).2, (path.getD c (0, 0)).2)

/-- cost of columns `0..c` along a path -/
def pathCost (I : Inst) (path : List (Nat × Nat)) : Nat → Option Nat
  | 0 => gc I 0 (pview I path 0)
  | c + 1 => cadd (pathCost I path c) (gc I (c + 1) (pview I path (c + 1)))

structure PathOk (I : Inst) (c : Nat) (path : List (Nat × Nat)) : Prop where
  len : path.length = c + 1
  bnd : ∀ c', c' ≤ c → (path.getD c' (0, 0)).1 < 2 ^ (I.activeAt c').length ∧ (path.getD c' (0, 0)).2 < I.ntrans
  chain : ∀ c', c' < c → (path.getD (c' + 1) (0, 0)).1 % 2 ^ (I.sharedAt c').length
      = natOfBits (fwdBits I c' (bitsOf (I.activeAt c').length (path.getD c' (0, 0)).1))

theorem getD_snoc_lt {α} (p : List α) (x d : α) (n : Nat) (h : n < p.length) :
    (p ++ [x]).getD n d = p.getD n d := by
  simp [List.getD_eq_getElem?_getD, List.getElem?_append_left h]

theorem getD_snoc_eq {α} (p : List α) (x d : α) (n : Nat) (h : n = p.length) :
    (p ++ [x]).getD n d = x := by
  subst h
  simp [List.getD_eq_getElem?_getD]

theorem pview_snoc (I : Inst) (p : List (Nat × Nat)) (x : Nat × Nat) (c : Nat) (h : c < p.length) :
    pview I (p ++ [x]) c = pview I p c := by
  unfold pview
  rw [getD_snoc_lt p x _ c h, getD_snoc_lt p x _ (c - 1) (by omega)]

theorem pathCost_snoc (I : Inst) (p : List (Nat × Nat)) (x : Nat × Nat) (c : Nat) (h : c < p.length) :
    pathCost I (p ++ [x]) c = pathCost I p c := by
  induction c with
  | zero => simp only [pathCost, pview_snoc I p x 0 h]
  | succ c ih => simp only [pathCost, pview_snoc I p x (c + 1) h, ih (by omega)]

theorem cadd_eq_some {a b : Option Nat} {v : Nat} (h : cadd a b = some v) :
    ∃ x y, a = some x ∧ b = some y ∧ v = x + y := by
  cases a <;> cases b <;> simp [cadd] at h
  exact ⟨_, _, rfl, rfl, h.symm⟩

theorem backtrace_succ (I : Inst) (c : Nat) (tabs : List (Array (Option Nat))) (idx t : Nat) :
    backtrace I (c + 1) tabs idx t =
      match argminOver (List.range I.ntrans) (fun j =>
          cadd ((tabs.headD #[]).getD (idx % 2 ^ (I.sharedAt c).length * I.ntrans + j) none)
            (some (popcount (t ^^^ j) * I.recombAt (c + 1)))) with
      | none => none
      | some j =>
        match argminOver ((List.range (2 ^ (I.activeAt c).length)).filter
            (fun i => natOfBits (fwdBits I c (bitsOf (I.activeAt c).length i)) == idx % 2 ^ (I.sharedAt c).length))
            (fun i => dpCell I c (tabs.tail.headD #[]) i j) with
        | none => none
        | some i => (backtrace I c tabs.tail i j).map (· ++ [(idx, t)]) := rfl

/-- **the backtrace finds a path whose cost is the value of the cell it starts from** -/
theorem bt_spec (I : Inst) (c : Nat) : ∀ (idx t v : Nat), idx < 2 ^ (I.activeAt c).length → t < I.ntrans →
    dpCell I c (prevOf I c) idx t = some v →
    ∃ path, backtrace I c (tabsFor I c) idx t = some path ∧ PathOk I c path ∧
      path.getD c (0, 0) = (idx, t) ∧ pathCost I path c = some v := by
  induction c with
  | zero =>
    intro idx t v hidx ht hv
    refine ⟨[(idx, t)], rfl, ⟨rfl, ?_, ?_⟩, rfl, ?_⟩
    · intro c' hc'
      have : c' = 0 := by omega
      subst this
      exact ⟨hidx, ht⟩
    · intro c' hc'; omega
    · rw [← hv]
      simp [pathCost, pview, dpCell, gc, Nat.xor_self, popcount]
  | succ c ih =>
    intro idx t v hidx ht hv
    have hprev : prevOf I (c + 1) = tableAt I c := by simp [prevOf]
    rw [hprev] at hv
    simp only [dpCell, Nat.add_sub_cancel, if_neg (Nat.succ_ne_zero c)] at hv
    obtain ⟨vc, vm, hcur, hmin, hvsum⟩ := cadd_eq_some hv
    have hbp : idx % 2 ^ (I.sharedAt c).length < 2 ^ (I.sharedAt c).length :=
      Nat.mod_lt _ (Nat.pow_pos (by omega))
    rw [backtrace_succ, tabsFor_head, tabsFor_tail, tabsFor_head, hprev]
    split
    · next hj =>
      rw [argminOver_none] at hj
      rw [hj] at hmin; cases hmin
    · next j hj =>
      obtain ⟨hjmem, hjval, _⟩ := argminOver_some _ _ _ hj
      have hjlt : j < I.ntrans := List.mem_range.mp hjmem
      rw [hmin] at hjval
      obtain ⟨v', pr, htab, hpr, hvm⟩ := cadd_eq_some hjval
      rw [table_entry I c _ j hbp hjlt] at htab
      split
      · next hi =>
        rw [argminOver_none] at hi
        rw [hi] at htab; cases htab
      · next i hi =>
        obtain ⟨himem, hival, _⟩ := argminOver_some _ _ _ hi
        simp only [List.mem_filter, List.mem_range, beq_iff_eq] at himem
        rw [htab] at hival
        obtain ⟨p, hbt, hok, hlast, hcost⟩ := ih i j v' himem.1 hjlt hival
        refine ⟨p ++ [(idx, t)], by rw [hbt]; rfl, ⟨?_, ?_, ?_⟩, ?_, ?_⟩
        · simp [hok.len]
        · intro c' hc'
          by_cases hlt : c' ≤ c
          · rw [getD_snoc_lt _ _ _ _ (by rw [hok.len]; omega)]
            exact hok.bnd c' hlt
          · have : c' = c + 1 := by omega
            subst this
            rw [getD_snoc_eq _ _ _ _ hok.len.symm]
            exact ⟨hidx, ht⟩
        · intro c' hc'
          by_cases hlt : c' < c
          · rw [getD_snoc_lt _ _ _ _ (by rw [hok.len]; omega), getD_snoc_lt _ _ _ _ (by rw [hok.len]; omega)]
            exact hok.chain c' hlt
          · have : c' = c := by omega
            subst this
            rw [getD_snoc_eq _ _ _ _ hok.len.symm, getD_snoc_lt _ _ _ _ (by rw [hok.len]; omega), hlast]
            exact himem.2.symm
        · exact getD_snoc_eq _ _ _ _ hok.len.symm
        · simp only [pathCost]
          rw [pathCost_snoc _ _ _ _ (by rw [hok.len]; omega), hcost]
          unfold pview
          rw [getD_snoc_eq _ _ _ _ hok.len.symm, Nat.add_sub_cancel,
            getD_snoc_lt _ _ _ _ (by rw [hok.len]; omega), hlast]
          simp only [gc, hcur]
          cases hpr
          simp only [cadd, Option.some.injEq]
          omega

end WhVerif.C01

import WhVerif.Lemmas.C11
/-! `Genotype` equality (sorted allele vectors) = equality of allele multisets; orientation changes. -/
namespace WhVerif.C11

theorem insertSorted_perm (a : Nat) (l : List Nat) : (insertSorted a l).Perm (a :: l) := by
  induction l with
  | nil => simp [insertSorted]
  | cons b t ih =>
    simp only [insertSorted]
    split
    · exact List.Perm.refl _
    · exact (List.Perm.cons b ih).trans (List.Perm.swap a b t)

theorem sortNat_perm (l : List Nat) : (sortNat l).Perm l := by
  induction l with
  | nil => simp [sortNat]
  | cons a t ih =>
    have : sortNat (a :: t) = insertSorted a (sortNat t) := rfl
    rw [this]
    exact (insertSorted_perm a _).trans (List.Perm.cons a ih)

theorem insertSorted_sorted (a : Nat) (l : List Nat) (h : l.Pairwise (· ≤ ·)) :
    (insertSorted a l).Pairwise (· ≤ ·) := by
  induction l with
  | nil => simp [insertSorted]
  | cons b t ih =>
    simp only [insertSorted]
    rw [List.pairwise_cons] at h
    split
    · rename_i hab
      refine List.pairwise_cons.2 ⟨?_, List.pairwise_cons.2 h⟩
      intro c hc
      rcases List.mem_cons.1 hc with rfl | hc
      · exact hab
      · exact Nat.le_trans hab (h.1 c hc)
    · rename_i hab
      refine List.pairwise_cons.2 ⟨?_, ih h.2⟩
      intro c hc
      have := (insertSorted_perm a t).subset hc
      rcases List.mem_cons.1 this with rfl | hc
      · omega
      · exact h.1 c hc

theorem sortNat_sorted (l : List Nat) : (sortNat l).Pairwise (· ≤ ·) := by
  induction l with
  | nil => simp [sortNat]
  | cons a t ih =>
    have : sortNat (a :: t) = insertSorted a (sortNat t) := rfl
    rw [this]
    exact insertSorted_sorted a _ ih

/-- two allele vectors have the same canonical (sorted) form iff they are the same multiset -/
theorem sortNat_eq_iff_perm (l₁ l₂ : List Nat) : sortNat l₁ = sortNat l₂ ↔ l₁.Perm l₂ := by
  constructor
  · intro h
    exact (sortNat_perm l₁).symm.trans (h ▸ sortNat_perm l₂)
  · intro h
    apply List.Perm.eq_of_pairwise (le := (· ≤ ·))
    · intro a b _ _ h1 h2; exact Nat.le_antisymm h1 h2
    · exact sortNat_sorted l₁
    · exact sortNat_sorted l₂
    · exact (sortNat_perm l₁).trans (h.trans (sortNat_perm l₂).symm)

theorem sameGenotype_iff_perm (c0 c1 : List Nat) : Spec.sameGenotype c0 c1 = true ↔ c0.Perm c1 := by
  rw [List.perm_iff_count]
  simp only [Spec.sameGenotype, Bool.and_eq_true, beq_iff_eq, List.all_eq_true, List.mem_append]
  constructor
  · rintro ⟨_, h⟩ a
    by_cases hm : a ∈ c0 ∨ a ∈ c1
    · exact h a hm
    · have h0 : a ∉ c0 := fun x => hm (Or.inl x)
      have h1 : a ∉ c1 := fun x => hm (Or.inr x)
      rw [List.count_eq_zero_of_not_mem h0, List.count_eq_zero_of_not_mem h1]
  · intro h
    exact ⟨(List.perm_iff_count.2 h).length_eq, fun a _ => h a⟩

/-- the model's genotype test (as `Genotype.__eq__`) agrees with the multiset definition -/
theorem sortNat_beq_eq_sameGenotype (c0 c1 : List Nat) :
    (sortNat c0 == sortNat c1) = Spec.sameGenotype c0 c1 := by
  rw [Bool.eq_iff_iff, beq_iff_eq, sortNat_eq_iff_perm, sameGenotype_iff_perm]

theorem filter_length_add_not {α} (p : α → Bool) (l : List α) :
    (l.filter p).length + (l.filter (fun x => !p x)).length = l.length := by
  induction l with
  | nil => simp
  | cons a t ih => simp [List.filter_cons]; cases p a <;> simp <;> omega

theorem diffGenotypes_eq_spec (ph0 ph1 : List Hap) (n : Nat) :
    n - (matchingPos ph0 ph1 n).length = Spec.diffGenotypes ph0 ph1 n := by
  have h := filter_length_add_not (fun i => Spec.sameGenotype (column ph0 i) (column ph1 i)) (List.range n)
  simp only [matchingPos, Spec.diffGenotypes, sortNat_beq_eq_sameGenotype]
  simp at h ⊢
  omega

/-! ### switch errors count the changes of the haplotype correspondence -/

theorem switches_orientation (a b : Hap) (ha : IsBinary a) (hb : IsBinary b) (hl : a.length = b.length) :
    hamming (switchEncoding a) (switchEncoding b) = (switchEncoding (agreeNe a b)).sum := by
  induction a generalizing b with
  | nil => cases b <;> simp [switchEncoding, agreeNe]
  | cons x a ih =>
    cases b with
    | nil => simp at hl
    | cons y b =>
      cases a with
      | nil =>
        cases b with
        | nil => simp [switchEncoding, agreeNe]
        | cons _ _ => simp at hl
      | cons x' a =>
        cases b with
        | nil => simp at hl
        | cons y' b =>
          rw [isBinary_cons] at ha hb
          have ih' := ih (y' :: b) ha.2 hb.2 (by simpa using hl)
          have hx' := (isBinary_cons.1 ha.2).1
          have hy' := (isBinary_cons.1 hb.2).1
          simp only [agreeNe, List.zip_cons_cons, List.map_cons, switchEncoding_cons_cons, hamming_cons,
            List.sum_cons] at ih' ⊢
          rw [ih']
          rcases ha.1 with rfl | rfl <;> rcases hb.1 with rfl | rfl <;> rcases hx' with rfl | rfl <;>
            rcases hy' with rfl | rfl <;> simp

theorem flipBits_flipBits {s : Hap} (h : IsBinary s) : flipBits (flipBits s) = s := by
  induction s with
  | nil => simp [flipBits]
  | cons x t ih =>
    rw [isBinary_cons] at h
    have := ih h.2
    simp [flipBits] at this ⊢
    refine ⟨?_, this⟩
    rcases h.1 with rfl | rfl <;> simp

end WhVerif.C11

import WhVerif.Model.C15Solve
import WhVerif.Lemmas.C15Glue
import WhVerif.Lemmas.C15Writer
/-! Lemmas for the block structure of C15: block starts, slices of the genotype list, where breakpoints come from
(`find_breakpoints`, sub-instances, sort, join) and how `aggregate_results` assembles them. -/
namespace WhVerif.C15

/-! ## block starts -/

theorem blockStartsFrom_spec : ∀ (labels : List Nat) (i : Nat),
    (blockStartsFrom i labels).Pairwise (· < ·) ∧ ∀ x ∈ blockStartsFrom i labels, i ≤ x ∧ x + 1 < i + labels.length
  | [], i => by simp [blockStartsFrom]
  | [a], i => by simp [blockStartsFrom]
  | a :: b :: rest, i => by
    obtain ⟨ih1, ih2⟩ := blockStartsFrom_spec (b :: rest) (i + 1)
    unfold blockStartsFrom
    by_cases h : (a != b) = true
    · simp only [h, if_true, List.pairwise_cons, List.mem_cons, List.length_cons]
      refine ⟨⟨?_, ih1⟩, ?_⟩
      · intro x hx; have := (ih2 x hx).1; omega
      · rintro x (rfl | hx)
        · omega
        · have := ih2 x hx; simp only [List.length_cons] at this; omega
    · simp only [h, List.length_cons]
      refine ⟨ih1, ?_⟩
      intro x hx
      have := ih2 x hx; simp only [List.length_cons] at this; omega

/-- the block starts `compute_block_starts` returns begin with 0, are strictly increasing and lie inside the
variants, whatever the cluster labels are -/
theorem blockStartsOfLabels_spec (labels : List Nat) (hne : labels ≠ []) :
    (blockStartsOfLabels labels).head? = some 0 ∧ (blockStartsOfLabels labels).Pairwise (· < ·) ∧
    ∀ x ∈ blockStartsOfLabels labels, x < labels.length := by
  have hl : 0 < labels.length := List.length_pos_iff.mpr hne
  have he : labels.isEmpty = false := by simpa using hne
  obtain ⟨h1, h2⟩ := blockStartsFrom_spec labels 1
  simp only [blockStartsOfLabels, he, Bool.false_eq_true, if_false, List.head?_cons, List.pairwise_cons,
    List.mem_cons, true_and]
  refine ⟨⟨?_, h1⟩, ?_⟩
  · intro x hx; have := (h2 x hx).1; omega
  · rintro x (rfl | hx)
    · exact hl
    · have := h2 x hx; omega

/-! ## blocks and slices -/

theorem blocks_flatten {α} (l : List α) : ∀ (starts : List Nat) (n : Nat),
    starts ≠ [] → (starts ++ [n]).Pairwise (· ≤ ·) → n ≤ l.length →
    ((blocks starts n).map (slice l)).flatten = (l.drop (starts.head?.getD 0)).take (n - starts.head?.getD 0)
  | [], _, h, _, _ => absurd rfl h
  | [s], n, _, _, _ => by simp [blocks, slice]
  | s :: e :: rest, n, _, hs, hn => by
    have ih := blocks_flatten l (e :: rest) n (by simp) (by
      simp only [List.cons_append, List.pairwise_cons] at hs ⊢; exact hs.2) hn
    simp only [List.cons_append, List.pairwise_cons, List.mem_cons, List.mem_append] at hs
    have hse : s ≤ e := hs.1 e (Or.inl rfl)
    have hen : e ≤ n := hs.2.1 n (Or.inr (by simp))
    simp only [blocks, List.map_cons, List.flatten_cons, ih, List.head?_cons, Option.getD_some, slice]
    have h1 : l.drop e = (l.drop s).drop (e - s) := by rw [List.drop_drop]; congr 1; omega
    rw [h1]
    have h2 : n - s = (e - s) + (n - e) := by omega
    rw [h2, List.take_add]

/-- the genotype slices handed to the blocks, concatenated in block order, are the genotype list -/
theorem blocks_cover {α} (l : List α) (starts : List Nat) (h0 : starts.head? = some 0)
    (hs : starts.Pairwise (· < ·)) (hr : ∀ s ∈ starts, s < l.length) :
    ((blocks starts l.length).map (slice l)).flatten = l := by
  have hne : starts ≠ [] := by intro h; simp [h] at h0
  have hp : (starts ++ [l.length]).Pairwise (· ≤ ·) := by
    rw [List.pairwise_append]
    refine ⟨hs.imp (fun h => Nat.le_of_lt h), by simp, ?_⟩
    intro a ha b hb
    simp only [List.mem_singleton] at hb
    subst hb; exact Nat.le_of_lt (hr a ha)
  rw [blocks_flatten l starts l.length hne hp (Nat.le_refl _), h0]
  simp

theorem all2_flatten {α β} {R : α → β → Prop} : ∀ (as : List (List α)) (bs : List (List β)),
    All2 (All2 R) as bs → All2 R as.flatten bs.flatten := by
  intro as bs h
  induction h with
  | nil => exact .nil
  | cons hr _ ih => simpa using hr.append ih

/-! ## find_breakpoints -/

theorem findBreakpointsFrom_spec {C} (zero : C) : ∀ (threads : List (List Nat)) (i : Nat),
    (findBreakpointsFrom zero i threads).Pairwise (fun a b => a.position < b.position) ∧
    ∀ b ∈ findBreakpointsFrom zero i threads, i ≤ b.position ∧ b.position + 1 < i + threads.length
  | [], i => by simp [findBreakpointsFrom]
  | [a], i => by simp [findBreakpointsFrom]
  | p :: q :: rest, i => by
    obtain ⟨ih1, ih2⟩ := findBreakpointsFrom_spec zero (q :: rest) (i + 1)
    unfold findBreakpointsFrom
    by_cases h : 2 ≤ (affectedHaps p q).length
    · simp only [h, if_true, List.cons_append, List.nil_append, List.pairwise_cons, List.mem_cons, List.length_cons]
      refine ⟨⟨?_, ih1⟩, ?_⟩
      · intro x hx; have := (ih2 x hx).1; show i < x.position; omega
      · rintro x (rfl | hx)
        · show i ≤ i ∧ i + 1 < _; omega
        · have := ih2 x hx; simp only [List.length_cons] at this; omega
    · simp only [h, if_false, List.nil_append, List.length_cons]
      refine ⟨ih1, ?_⟩
      intro x hx
      have := ih2 x hx; simp only [List.length_cons] at this; omega

/-! ## sort and join -/

theorem sortByPosition_sorted {C} (bps : List (Breakpoint C)) :
    (sortByPosition bps).Pairwise (fun a b => a.position ≤ b.position) := by
  have := isort_sorted (fun (a b : Breakpoint C) => decide (a.position ≤ b.position))
    (by intro a b c h1 h2; simp only [decide_eq_true_eq] at *; omega)
    (by intro a b; simp only [decide_eq_true_eq]; omega) bps
  exact this.imp (by intro a b h; simpa using h)

theorem mem_sortByPosition {C} (bps : List (Breakpoint C)) (b : Breakpoint C) : b ∈ sortByPosition bps ↔ b ∈ bps :=
  (isort_perm _ _).mem_iff

/-- invariant of the join loop on a list sorted by position: the accumulator (newest first) has strictly decreasing
positions, all of them positions of the input, and none greater than what is still to come -/
theorem joinFold_spec {C} (mul : C → C → C) : ∀ (bps acc : List (Breakpoint C)),
    acc.Pairwise (fun a b => b.position < a.position) →
    bps.Pairwise (fun a b => a.position ≤ b.position) →
    (∀ a ∈ acc, ∀ b ∈ bps, a.position ≤ b.position) →
    (bps.foldl (joinStep mul) acc).Pairwise (fun a b => b.position < a.position) ∧
    ∀ x ∈ bps.foldl (joinStep mul) acc, ∃ y ∈ acc ++ bps, y.position = x.position
  | [], acc, hacc, _, _ => by
    simp only [List.foldl_nil, List.append_nil]
    exact ⟨hacc, fun x hx => ⟨x, hx, rfl⟩⟩
  | b :: bs, acc, hacc, hbps, hle => by
    simp only [List.foldl_cons]
    rw [List.pairwise_cons] at hbps
    have hstep : (joinStep mul acc b).Pairwise (fun a b => b.position < a.position) ∧
        (∀ a ∈ joinStep mul acc b, ∀ b' ∈ bs, a.position ≤ b'.position) ∧
        (∀ x ∈ joinStep mul acc b, ∃ y ∈ acc ++ b :: bs, y.position = x.position) := by
      cases acc with
      | nil =>
        simp only [joinStep, List.pairwise_cons, List.Pairwise.nil, and_true, List.mem_singleton]
        refine ⟨by simp, ?_, ?_⟩
        · rintro a rfl b' hb'; exact hbps.1 b' hb'
        · rintro x rfl; exact ⟨x, by simp, rfl⟩
      | cons a as =>
        rw [List.pairwise_cons] at hacc
        by_cases he : a.position = b.position
        · simp only [joinStep, he, if_true]
          refine ⟨?_, ?_, ?_⟩
          · rw [List.pairwise_cons]
            refine ⟨?_, hacc.2⟩
            intro x hx; have := hacc.1 x hx; show x.position < b.position; omega
          · intro x hx b' hb'
            rcases List.mem_cons.mp hx with rfl | hx
            · exact hbps.1 b' hb'
            · exact hle x (List.mem_cons_of_mem _ hx) b' (List.mem_cons_of_mem _ hb')
          · intro x hx
            rcases List.mem_cons.mp hx with rfl | hx
            · exact ⟨b, by simp, rfl⟩
            · exact ⟨x, by simp [hx], rfl⟩
        · have hlt : a.position < b.position := by
            have := hle a (by simp) b (by simp); omega
          simp only [joinStep, he, if_false]
          refine ⟨?_, ?_, ?_⟩
          · rw [List.pairwise_cons]
            refine ⟨?_, List.pairwise_cons.mpr hacc⟩
            intro x hx
            rcases List.mem_cons.mp hx with rfl | hx
            · exact hlt
            · have := hacc.1 x hx; omega
          · intro x hx b' hb'
            rcases List.mem_cons.mp hx with rfl | hx
            · exact hbps.1 b' hb'
            · exact hle x hx b' (List.mem_cons_of_mem _ hb')
          · intro x hx
            rcases List.mem_cons.mp hx with rfl | hx
            · exact ⟨x, by simp, rfl⟩
            · exact ⟨x, by
                rcases List.mem_cons.mp hx with rfl | hx
                · simp
                · simp [hx], rfl⟩
    obtain ⟨h1, h2, h3⟩ := hstep
    obtain ⟨r1, r2⟩ := joinFold_spec mul bs (joinStep mul acc b) h1 hbps.2 h2
    refine ⟨r1, ?_⟩
    intro x hx
    obtain ⟨y, hy, hyx⟩ := r2 x hx
    rcases List.mem_append.mp hy with hy | hy
    · obtain ⟨z, hz, hzy⟩ := h3 y hy
      exact ⟨z, hz, by omega⟩
    · exact ⟨y, by simp [hy], hyx⟩

/-- after the join the positions are strictly increasing and all of them are positions of the input -/
theorem joinDuplicates_spec {C} (mul : C → C → C) (bps : List (Breakpoint C))
    (hs : bps.Pairwise (fun a b => a.position ≤ b.position)) :
    (joinDuplicates mul bps).Pairwise (fun a b => a.position < b.position) ∧
    ∀ x ∈ joinDuplicates mul bps, ∃ y ∈ bps, y.position = x.position := by
  obtain ⟨h1, h2⟩ := joinFold_spec mul bps [] (by simp) hs (by simp)
  unfold joinDuplicates
  refine ⟨List.pairwise_reverse.mpr h1, ?_⟩
  intro x hx
  simpa using h2 x (List.mem_reverse.mp hx)

/-- the breakpoints a block returns (`integrate_sub_results`; `run_reordering` only changes confidences): strictly
increasing positions inside the block, provided the sub-instances' breakpoints lie inside their sub-instances and
the sub-instances' positions (`snps`) inside the block -/
theorem integrateBreakpoints_spec {C} (zero : C) (mul : C → C → C) (threads : List (List Nat))
    (subs : List (List Nat × List Nat × List (Breakpoint C)))
    (hsnps : ∀ s ∈ subs, ∀ p ∈ s.1, p < threads.length)
    (hsub : ∀ s ∈ subs, ∀ b ∈ s.2.2, b.position < s.1.length) :
    (integrateBreakpoints zero mul threads subs).Pairwise (fun a b => a.position < b.position) ∧
    ∀ b ∈ integrateBreakpoints zero mul threads subs, b.position < threads.length := by
  unfold integrateBreakpoints
  obtain ⟨h1, h2⟩ := joinDuplicates_spec mul _ (sortByPosition_sorted
    (findBreakpoints zero threads ++ subs.flatMap (fun s => mapSubBreakpoints s.1 s.2.1 s.2.2)))
  refine ⟨h1, ?_⟩
  intro b hb
  obtain ⟨y, hy, hyb⟩ := h2 b hb
  rw [mem_sortByPosition] at hy
  rw [← hyb]
  rcases List.mem_append.mp hy with hy | hy
  · have := (findBreakpointsFrom_spec zero threads 1).2 y hy
    omega
  · obtain ⟨s, hs, hys⟩ := List.mem_flatMap.mp hy
    obtain ⟨b0, hb0, rfl⟩ := List.mem_map.mp hys
    have hlt := hsub s hs b0 hb0
    show s.1.getD b0.position 0 < threads.length
    have : s.1.getD b0.position 0 = s.1[b0.position] := by simp [List.getD_eq_getElem?_getD, hlt]
    rw [this]
    exact hsnps s hs _ (List.getElem_mem hlt)

/-! ## aggregate_results -/

theorem aggregateBps_spec {C} (zero : C) (ploidy : Nat) (borders : List Nat) :
    ∀ (rs : List (BlockBps C)) (off : Nat),
      (∀ r ∈ rs, 0 < r.ncols ∧ r.bps.Pairwise (fun a b => a.position ≤ b.position) ∧
        ∀ b ∈ r.bps, b.position < r.ncols) →
      (aggregateBps zero ploidy borders off rs).Pairwise (fun a b => a.position ≤ b.position) ∧
      ∀ b ∈ aggregateBps zero ploidy borders off rs, off ≤ b.position ∧ b.position < off + totalCols rs
  | [], off, _ => by simp [aggregateBps]
  | r :: rs, off, h => by
    obtain ⟨hpos, hsorted, hrange⟩ := h r (by simp)
    obtain ⟨ih1, ih2⟩ := aggregateBps_spec zero ploidy borders rs (off + r.ncols)
      (fun x hx => h x (List.mem_cons_of_mem _ hx))
    have htot : totalCols (r :: rs) = r.ncols + totalCols rs := by simp [totalCols]
    have hmid : (r.bps.map (fun b => (mkBreakpoint (b.position + off) b.haplotypes b.confidence : Breakpoint C))).Pairwise
        (fun a b => a.position ≤ b.position) := by
      rw [List.pairwise_map]
      exact hsorted.imp (by intro a b hab; show a.position + off ≤ b.position + off; omega)
    have hmidr : ∀ b ∈ r.bps.map (fun b => (mkBreakpoint (b.position + off) b.haplotypes b.confidence : Breakpoint C)),
        off ≤ b.position ∧ b.position < off + r.ncols := by
      intro b hb
      obtain ⟨b0, hb0, rfl⟩ := List.mem_map.mp hb
      have := hrange b0 hb0
      show off ≤ b0.position + off ∧ b0.position + off < off + r.ncols
      omega
    unfold aggregateBps
    refine ⟨?_, ?_⟩
    · rw [List.pairwise_append, List.pairwise_append]
      refine ⟨⟨?_, hmid, ?_⟩, ih1, ?_⟩
      · split <;> simp
      · intro a ha b hb
        have hb' := hmidr b hb
        split at ha
        · simp only [List.mem_singleton] at ha; subst ha; exact hb'.1
        · simp at ha
      · intro a ha b hb
        have hb' := (ih2 b hb).1
        rcases List.mem_append.mp ha with ha | ha
        · split at ha
          · simp only [List.mem_singleton] at ha; subst ha; show off ≤ b.position; omega
          · simp at ha
        · have := hmidr a ha; omega
    · intro b hb
      rw [htot]
      rcases List.mem_append.mp hb with hb | hb
      · rcases List.mem_append.mp hb with hb | hb
        · split at hb
          · simp only [List.mem_singleton] at hb; subst hb; show off ≤ off ∧ off < _; omega
          · simp at hb
        · have := hmidr b hb; omega
      · have := ih2 b hb; omega

/-- the first breakpoint of the aggregate is `(0, all haplotypes, 0.0)` -/
theorem aggregateBps_head {C} (zero : C) (ploidy : Nat) (borders : List Nat) (r : BlockBps C) (rs : List (BlockBps C)) :
    ∃ rest, aggregateBps zero ploidy borders 0 (r :: rs) = ⟨0, List.range ploidy, zero⟩ :: rest := by
  unfold aggregateBps
  simp

end WhVerif.C15

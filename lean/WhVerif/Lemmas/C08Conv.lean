import Mathlib.Algebra.Order.Ring.Nat
import Mathlib.Algebra.Order.Field.Basic
import Mathlib.Tactic.Ring
import Mathlib.Tactic.Linarith
import WhVerif.Model.C08Conv
/-!
# C08 lemmas: the integer side of GQ / threshold / GL
-/
namespace WhVerif.C08

/-- what the search returns: the least `n ≥ start` satisfying the condition, or `start + fuel` -/
theorem gqLoop_spec (A B : Nat) : ∀ (fuel n : Nat),
    n ≤ gqLoop A B fuel n ∧ gqLoop A B fuel n ≤ n + fuel ∧
    (∀ m, n ≤ m → m < gqLoop A B fuel n → ¬ A * 10 ^ (2 * m + 1) > B) ∧
    (gqLoop A B fuel n < n + fuel → A * 10 ^ (2 * gqLoop A B fuel n + 1) > B) := by
  intro fuel
  induction fuel with
  | zero => intro n; exact ⟨Nat.le_refl _, Nat.le_refl _, fun m h1 h2 => by simp [gqLoop] at h2; omega, fun h => by simp [gqLoop] at h⟩
  | succ fuel ih =>
    intro n
    simp only [gqLoop]
    by_cases c : A * 10 ^ (2 * n + 1) > B
    · rw [if_pos c]
      exact ⟨Nat.le_refl _, by omega, fun m h1 h2 => by omega, fun _ => c⟩
    · rw [if_neg c]
      obtain ⟨h1, h2, h3, h4⟩ := ih (n + 1)
      refine ⟨by omega, by omega, fun m hm1 hm2 => ?_, fun h => h4 (by omega)⟩
      by_cases e : m = n
      · subst e; exact c
      · exact h3 m (by omega) hm2

theorem gqLoop_anti (A B A' B' : Nat) (himp : ∀ m, A * 10 ^ (2 * m + 1) > B → A' * 10 ^ (2 * m + 1) > B') :
    ∀ (fuel n : Nat), gqLoop A' B' fuel n ≤ gqLoop A B fuel n := by
  intro fuel
  induction fuel with
  | zero => intro n; simp [gqLoop]
  | succ fuel ih =>
    intro n
    simp only [gqLoop]
    by_cases c : A * 10 ^ (2 * n + 1) > B
    · rw [if_pos c, if_pos (himp n c)]
    · rw [if_neg c]
      have hge : n + 1 ≤ gqLoop A B fuel (n + 1) := (gqLoop_spec A B fuel (n + 1)).1
      by_cases c' : A' * 10 ^ (2 * n + 1) > B'
      · rw [if_pos c']; omega
      · rw [if_neg c']; exact ih (n + 1)

/-- `q ≤ q'` (as `a·b' ≤ a'·b`) transfers the condition -/
theorem cond_mono (a b a' b' P : Nat) (hb : 0 < b) (hb' : 0 < b') (hq : a * b' ≤ a' * b) (h : a ^ 20 * P > b ^ 20) :
    a' ^ 20 * P > b' ^ 20 := by
  have h1 : (a * b') ^ 20 ≤ (a' * b) ^ 20 := Nat.pow_le_pow_left hq 20
  rw [Nat.mul_pow, Nat.mul_pow] at h1
  have hb20 : 0 < b ^ 20 := Nat.pow_pos hb
  have hb'20 : 0 < b' ^ 20 := Nat.pow_pos hb'
  by_contra hc
  have hc' : a' ^ 20 * P ≤ b' ^ 20 := Nat.le_of_not_gt hc
  have h3 : a ^ 20 * b' ^ 20 * P ≤ a' ^ 20 * b ^ 20 * P := Nat.mul_le_mul_right _ h1
  have h4 : a' ^ 20 * b ^ 20 * P ≤ b' ^ 20 * b ^ 20 := by
    calc a' ^ 20 * b ^ 20 * P = a' ^ 20 * P * b ^ 20 := by ring
      _ ≤ b' ^ 20 * b ^ 20 := Nat.mul_le_mul_right _ hc'
  have h5 : b ^ 20 * b' ^ 20 < a ^ 20 * P * b' ^ 20 := Nat.mul_lt_mul_of_pos_right h hb'20
  have h6 : a ^ 20 * P * b' ^ 20 = a ^ 20 * b' ^ 20 * P := by ring
  have h7 : b' ^ 20 * b ^ 20 = b ^ 20 * b' ^ 20 := by ring
  omega

end WhVerif.C08

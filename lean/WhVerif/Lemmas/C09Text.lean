import WhVerif.Lemmas.C09TextGT
import WhVerif.Lemmas.C09
/-!
# C09 text level: the HP codec (`_set_HP` ↔ `_extract_HP_phase`) and the lift of the typed decoders to text
-/
namespace WhVerif.C09.Text
open WhVerif.C04 WhVerif.C09 WhVerif.C09.Text.GT

theorem isWs_of_isDigit (c : Char) (h : isDigit c = true) : isWs c = false := by
  simp only [isDigit, Bool.and_eq_true, decide_eq_true_eq] at h
  have h32 : c ≠ ' ' := by
    intro e; subst e; revert h; decide
  simp only [isWs, Bool.or_eq_false_iff, Bool.and_eq_false_iff, decide_eq_false_iff_not, beq_eq_false_iff_ne, ne_eq]
  refine ⟨⟨h32, ?_⟩, ?_⟩ <;> omega

theorem dropWhile_digits (l : List Char) (h : ∀ c ∈ l, isDigit c = true) : l.dropWhile isWs = l := by
  cases l with
  | nil => rfl
  | cons a r => simp [List.dropWhile, isWs_of_isDigit a (h a (by simp))]

theorem strip_digits (l : List Char) (h : ∀ c ∈ l, isDigit c = true) : strip l = l := by
  unfold strip
  rw [dropWhile_digits l h, dropWhile_digits l.reverse (by intro c hc; exact h c (by simpa using hc))]
  simp

theorem pyNat_renderNat (n : Nat) : pyNat (renderNat n) = some n := by
  unfold pyNat
  simp only [strip_digits _ (renderNat_all n)]
  have hplus : ((renderNat n).head? == some '+') = false := by
    have := head?_ne_of_digits (renderNat n) (renderNat_all n) '+' (by decide)
    simpa using this
  simp only [hplus, Bool.false_eq_true, if_false]
  rw [digitsVal_all _ _ _ (renderNat_all n) (Or.inl (renderNat_ne_nil n)), renderNat_foldl]

def isComma (c : Char) : Bool := c == ','
def isDash (c : Char) : Bool := c == '-'

theorem not_comma_of_digit (c : Char) (h : isDigit c = true) : (c == ',') = false := by
  simp only [isDigit, Bool.and_eq_true, decide_eq_true_eq] at h
  simp only [beq_eq_false_iff_ne, ne_eq]; intro e; subst e; revert h; decide

theorem not_dash_of_digit (c : Char) (h : isDigit c = true) : (c == '-') = false := by
  simp only [isDigit, Bool.and_eq_true, decide_eq_true_eq] at h
  simp only [beq_eq_false_iff_ne, ne_eq]; intro e; subst e; revert h; decide

/-- the text of one pair -/
def piece (bh : Nat × Nat) : List Char := renderNat bh.1 ++ '-' :: renderNat bh.2

theorem piece_no_comma (bh : Nat × Nat) : ∀ c ∈ piece bh, (c == ',') = false := by
  intro c hc
  simp only [piece, List.mem_append, List.mem_cons] at hc
  rcases hc with h | h | h
  · exact not_comma_of_digit c (renderNat_all _ c h)
  · subst h; decide
  · exact not_comma_of_digit c (renderNat_all _ c h)

theorem piece_ne_nil (bh : Nat × Nat) : piece bh ≠ [] := by simp [piece]

theorem split_piece (bh : Nat × Nat) : splitP (· == '-') (piece bh) = [renderNat bh.1, renderNat bh.2] := by
  unfold piece
  rw [splitP_append_sep (· == '-') '-' _ (by decide) _ (fun c hc => not_dash_of_digit c (renderNat_all _ c hc)),
      splitP_none _ _ (fun c hc => not_dash_of_digit c (renderNat_all _ c hc))]

theorem intPieces_piece (bh : Nat × Nat) : intPieces (splitP (· == '-') (piece bh)) = .ok [bh.1, bh.2] := by
  rw [split_piece]; simp [intPieces, pyNat_renderNat]

theorem hpFields_pieces (l : List (Nat × Nat)) :
    hpFields (l.map fun bh => some (piece bh)) = .ok (l.map fun bh => [bh.1, bh.2]) := by
  induction l with
  | nil => rfl
  | cons a r ih => simp only [List.map_cons, hpFields, intPieces_piece, ih]

theorem renderHP_eq (l : List (Nat × Nat)) : renderHP l = joinSep ',' (l.map piece) := rfl

theorem joinSep_ne_nil (s : Char) (a : List Char) (r : List (List Char)) (h : a ≠ []) : joinSep s (a :: r) ≠ [] := by
  cases r with
  | nil => simpa [joinSep] using h
  | cons b t => simp [joinSep, h]

theorem pyTuple_renderHP (l : List (Nat × Nat)) (hne : l ≠ []) : pyTuple (renderHP l) = l.map fun bh => some (piece bh) := by
  obtain ⟨a, r, rfl⟩ := List.exists_cons_of_ne_nil hne
  unfold pyTuple
  have h0 : (renderHP (a :: r)).isEmpty = false := by
    have := joinSep_ne_nil ',' (piece a) (r.map piece) (piece_ne_nil a)
    rw [renderHP_eq, List.map_cons]
    cases hh : joinSep ',' (piece a :: r.map piece) with
    | nil => exact absurd hh this
    | cons _ _ => rfl
  simp only [h0, Bool.false_eq_true, if_false]
  rw [renderHP_eq, splitP_joinSep (· == ',') ',' (by decide) _ (by simp)
    (by intro x hx c hc
        simp only [List.mem_map] at hx
        obtain ⟨bh, _, rfl⟩ := hx
        exact piece_no_comma bh c hc)]
  simp only [List.map_map]
  apply List.map_congr_left
  intro bh _
  have := piece_ne_nil bh
  cases hp : piece bh with
  | nil => exact absurd hp this
  | cons _ _ => simp [Function.comp, hp]

theorem piece_ne_dot (bh : Nat × Nat) : piece bh ≠ ['.'] := by
  intro h
  have hl := congrArg List.length h
  simp only [piece, List.length_append, List.length_cons, List.length_nil] at hl
  have := renderNat_ne_nil bh.1
  cases hh : renderNat bh.1 with
  | nil => exact this hh
  | cons _ _ => rw [hh] at hl; simp at hl; omega

/-- fields level: whatever the pairs, the text of `_set_HP` parses back to exactly the pairs (as two-piece fields) -/
theorem fields_renderHP (l : List (Nat × Nat)) (hne : l ≠ []) :
    pyTuple (renderHP l) ≠ [some ['.']] ∧ hpFields (pyTuple (renderHP l)) = .ok (l.map fun bh => [bh.1, bh.2]) := by
  rw [pyTuple_renderHP l hne]
  refine ⟨?_, hpFields_pieces l⟩
  obtain ⟨a, r, rfl⟩ := List.exists_cons_of_ne_nil hne
  intro h
  simp only [List.map_cons, List.cons.injEq, Option.some.injEq] at h
  exact piece_ne_dot a h.1

theorem hpPairs_fields (l : List (Nat × Nat)) (hne : l ≠ []) :
    hpPairs (l.map fun bh => [bh.1, bh.2]) =
      if l.all (fun bh => bh.1 == (l.headD (0, 0)).1) then .ok l else .error .assertion := by
  obtain ⟨a, r, rfl⟩ := List.exists_cons_of_ne_nil hne
  simp only [hpPairs, List.map_cons, List.headD_cons]
  have hall : ((([a.1, a.2] : List Nat) :: r.map fun bh => [bh.1, bh.2]).all fun f => f.head? == ([a.1, a.2] : List Nat).head?) =
      (a :: r).all (fun bh => bh.1 == a.1) := by
    simp only [List.all_cons, List.head?_cons, BEq.rfl, Bool.true_and, List.all_map]
    congr 1
  rw [hall]
  by_cases hc : (a :: r).all (fun bh => bh.1 == a.1) = true
  · simp only [hc, Bool.not_true, Bool.false_eq_true, if_false, if_true]
    have : ((([a.1, a.2] : List Nat) :: r.map fun bh => [bh.1, bh.2]).mapM
        pairOfField) = some (a :: r) := by
      have hgen : ∀ (m : List (Nat × Nat)), (m.map fun bh => ([bh.1, bh.2] : List Nat)).mapM
          pairOfField = some m := by
        intro m
        induction m with
        | nil => rfl
        | cons x xs ih => simp [List.mapM_cons, ih, pairOfField]
      exact hgen (a :: r)
    simp only [this]
  · simp only [Bool.not_eq_true] at hc
    simp [hc]

/-- `hpValOfText ∘ renderHP` on arbitrary non-empty pairs -/
theorem hpValOfText_renderHP (l : List (Nat × Nat)) (hne : l ≠ []) :
    hpValOfText (renderHP l) =
      if l.all (fun bh => bh.1 == (l.headD (0, 0)).1) then .ok (some l) else .error .assertion := by
  obtain ⟨h1, h2⟩ := fields_renderHP l hne
  unfold hpValOfText
  simp only [h2, hpPairs_fields l hne]
  have : (pyTuple (renderHP l) == [some ['.']]) = false := by simpa using h1
  simp only [this, Bool.false_eq_true, if_false]
  by_cases hc : (l.all fun bh => bh.1 == (l.headD (0, 0)).1) = true
  · rw [if_pos hc, if_pos hc]
  · rw [if_neg hc, if_neg hc]

theorem toField_injective (l1 l2 : List (Nat × Nat))
    (h : (l1.map fun bh => ([bh.1, bh.2] : List Nat)) = l2.map fun bh => [bh.1, bh.2]) : l1 = l2 := by
  induction l1 generalizing l2 with
  | nil => cases l2 <;> simp_all
  | cons a r ih =>
    cases l2 with
    | nil => simp at h
    | cons b t =>
      simp only [List.map_cons, List.cons.injEq] at h
      obtain ⟨⟨h1, h2⟩, h3⟩ := h
      rw [ih t h3]
      congr 1
      exact Prod.ext h1 (by simpa using h2)

theorem renderHP_ne_nil (l : List (Nat × Nat)) (hne : l ≠ []) : renderHP l ≠ [] := by
  obtain ⟨a, r, rfl⟩ := List.exists_cons_of_ne_nil hne
  rw [renderHP_eq, List.map_cons]
  exact joinSep_ne_nil ',' (piece a) (r.map piece) (piece_ne_nil a)

theorem renderHP_injective (l1 l2 : List (Nat × Nat)) (h : renderHP l1 = renderHP l2) : l1 = l2 := by
  by_cases h1 : l1 = []
  · subst h1
    by_cases h2 : l2 = []
    · exact h2.symm
    · exact absurd h.symm (by simpa [renderHP, joinSep] using renderHP_ne_nil l2 h2)
  · by_cases h2 : l2 = []
    · subst h2; exact absurd h (by simpa [renderHP, joinSep] using renderHP_ne_nil l1 h1)
    · have a := (fields_renderHP l1 h1).2
      have b := (fields_renderHP l2 h2).2
      rw [h] at a
      rw [a] at b
      exact toField_injective l1 l2 (by injection b)

end WhVerif.C09.Text

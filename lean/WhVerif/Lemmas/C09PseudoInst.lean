import WhVerif.Lemmas.C09Pseudo
/-!
# C09: `pseudoInst` satisfies the solver precondition `WF` and the `ErrFree` contract of C02
-/
namespace WhVerif.C09
open WhVerif.C04 WhVerif.C01 WhVerif.C02

variable {rows : List VarPhase} {w : Nat → Nat} {recomb : List Nat} {tagged : List PRead}

/-- the phases of eligible rows are heterozygous biallelic (`0|1` or `1|0`) -/
def Biallelic (rows : List VarPhase) : Prop :=
  ∀ v ∈ rows, eligible 2 v = true → ∃ ph, v.phase = some ph ∧
    (ph.alleles = [some 0, some 1] ∨ ph.alleles = [some 1, some 0])

theorem alleleAt_biallelic (hbi : Biallelic rows) {v : VarPhase} (hv : v ∈ rows) (hel : eligible 2 v = true) :
    ∃ a, a ≤ 1 ∧ alleleAt 0 v = some a ∧ alleleAt 1 v = some (1 - a) := by
  obtain ⟨ph, hph, h01⟩ := hbi v hv hel
  rcases h01 with h01 | h01
  · exact ⟨0, by omega, by simp [alleleAt, hph, h01], by simp [alleleAt, hph, h01]⟩
  · exact ⟨1, by omega, by simp [alleleAt, hph, h01], by simp [alleleAt, hph, h01]⟩

theorem pseudoInst_nreads : (pseudoInst rows w recomb tagged).nreads = tagged.length := by
  simp [pseudoInst, Inst.nreads]

theorem pseudoInst_ncols : (pseudoInst rows w recomb tagged).ncols = (pseudoCols rows).length := rfl

theorem pseudoInst_read {r : Nat} (hr : r < tagged.length) :
    (pseudoInst rows w recomb tagged).read r = toRead (pseudoCols rows) w tagged[r] := by
  simp [pseudoInst, Inst.read, List.getD_eq_getElem?_getD, hr]

/-- **sortedness**: any order of the pseudo reads that is sorted by first position satisfies the solver's `WF` -/
theorem pseudoInst_wf (hs : PosSorted rows) (hmem : ∀ t ∈ tagged, t ∈ blocksAsReads 2 rows)
    (hord : tagged.Pairwise (fun x y => firstPos x ≤ firstPos y)) : WF (pseudoInst rows w recomb tagged) := by
  constructor
  intro r1 r2 h12 h2
  rw [pseudoInst_nreads] at h2
  have h1 : r1 < tagged.length := by omega
  rw [pseudoInst_read h1, pseudoInst_read h2]
  simp only [toRead]
  apply colOf_mono (pseudoCols_sorted hs) (firstPos_mem (hmem _ (List.getElem_mem _))).1
    (firstPos_mem (hmem _ (List.getElem_mem _))).1
  rcases Nat.lt_or_eq_of_le h12 with h | h
  · exact (List.pairwise_iff_getElem.mp hord) r1 r2 h1 h2 h
  · subst h; exact Nat.le_refl _

/-- the entries of a pseudo read, row by row -/
theorem mem_entries {t : PRead} (ht : t ∈ blocksAsReads 2 rows) {e : Nat × Nat × Nat}
    (he : e ∈ (toRead (pseudoCols rows) w t).entries) :
    ∃ v ∈ blockRows rows t.1, e = (colOf (pseudoCols rows) v.pos, (alleleAt t.2.1 v).getD 0, w v.pos) := by
  simp only [toRead, (mem_blocksAsReads' ht).2.1, List.map_map, List.mem_map, Function.comp] at he
  obtain ⟨v, hv, rfl⟩ := he
  exact ⟨v, hv, rfl⟩

theorem truthHap_colOf (hs : PosSorted rows) {v : VarPhase} (hv : v ∈ coveredRows rows) :
    truthHap rows (colOf (pseudoCols rows) v.pos) = (alleleAt 0 v).getD 0 := by
  simp [truthHap, coveredRows_colOf hs hv]

theorem srcOf_getElem {r : Nat} (hr : r < tagged.length) : srcOf tagged r = (tagged[r].2.1 == 1) := by
  simp [srcOf, hr]

/-- **the pseudo reads are error-free copies of the two haplotypes of the input phasing** -/
theorem pseudoInst_errfree (hs : PosSorted rows) (hbi : Biallelic rows) (hw : ∀ p, 0 < w p)
    (hmem : ∀ t ∈ tagged, t ∈ blocksAsReads 2 rows) :
    ErrFree (pseudoInst rows w recomb tagged) (truthHap rows) (srcOf tagged) where
  nind := rfl
  trios := rfl
  het := by
    intro c hc
    rw [pseudoInst_ncols] at hc
    simp [gcost, pseudoInst, List.getD_eq_getElem?_getD, hc]
  hap01 := by
    intro c _
    unfold truthHap
    cases hcv : (coveredRows rows)[c]? with
    | none => simp
    | some v =>
      have hv : v ∈ coveredRows rows := List.mem_of_getElem? hcv
      have hv' := List.mem_filter.mp (List.mem_filter.mp hv).1
      obtain ⟨a, ha, h0, _⟩ := alleleAt_biallelic hbi hv'.1 hv'.2
      simp [h0, ha]
  ind0 := by
    intro r hr
    rw [pseudoInst_nreads] at hr
    rw [pseudoInst_read hr]; rfl
  nodup := by
    intro r hr
    rw [pseudoInst_nreads] at hr
    rw [pseudoInst_read hr]
    have ht := hmem _ (List.getElem_mem hr)
    obtain ⟨_, hrd, hlen⟩ := mem_blocksAsReads' ht
    simp only [toRead, hrd, List.map_map]
    unfold List.Nodup
    rw [List.pairwise_map]
    have hps : PosSorted (blockRows rows tagged[r].1) := hs.sublist (blockRows_sublist rows _)
    refine List.Pairwise.imp_of_mem ?_ hps
    intro u v hu hv huv
    simp only [Function.comp]
    intro heq
    have := colOf_inj (pos_mem_pseudoCols (blockRows_covered hlen hu))
      (pos_mem_pseudoCols (blockRows_covered hlen hv)) heq
    omega
  entries := by
    intro r hr e he
    rw [pseudoInst_nreads] at hr
    rw [pseudoInst_read hr] at he ⊢
    have ht := hmem _ (List.getElem_mem hr)
    obtain ⟨hi, _, hlen⟩ := mem_blocksAsReads' ht
    obtain ⟨v, hv, rfl⟩ := mem_entries ht he
    have hcov := blockRows_covered hlen hv
    have hcol := pos_mem_pseudoCols hcov
    have hsorted := pseudoCols_sorted hs
    have hps : ((tagged[r]).2.2.map (·.1)).Pairwise (· < ·) := by
      rw [positions_of_mem ht]; exact (hs.sublist (blockRows_sublist rows _)).map_pos
    have hvp : v.pos ∈ (tagged[r]).2.2.map (·.1) := by
      rw [positions_of_mem ht]; exact List.mem_map.mpr ⟨v, hv, rfl⟩
    obtain ⟨hb1, hb2⟩ := sorted_bounds hps hvp
    have hel := mem_blockRows.mp hv
    obtain ⟨a, ha, h0, h1⟩ := alleleAt_biallelic hbi hel.1 hel.2.1
    refine ⟨colOf_mono hsorted (firstPos_mem ht).1 hcol hb1, colOf_mono hsorted hcol (firstPos_mem ht).2 hb2,
      colOf_lt hcol, hw _, ?_⟩
    simp only []
    rw [truthHap_colOf hs hcov, srcOf_getElem hr, h0]
    rcases hi with hi | hi <;> simp [hi, h0, h1]

/-- read `r` has an entry in the column of each row of its block -/
theorem pseudoInst_covers {r : Nat} (hr : r < tagged.length) (ht : tagged[r] ∈ blocksAsReads 2 rows)
    {v : VarPhase} (hv : v ∈ blockRows rows tagged[r].1) :
    covers (pseudoInst rows w recomb tagged) r (colOf (pseudoCols rows) v.pos) := by
  unfold covers Read.entryAt
  rw [pseudoInst_read hr]
  simp only [ne_eq, Option.map_eq_none_iff, List.find?_eq_none]
  intro hall
  refine hall (colOf (pseudoCols rows) v.pos, (alleleAt tagged[r].2.1 v).getD 0, w v.pos) ?_ (by simp)
  simp only [toRead, (mem_blocksAsReads' ht).2.1, List.map_map, List.mem_map, Function.comp]
  exact ⟨v, hv, rfl⟩

end WhVerif.C09

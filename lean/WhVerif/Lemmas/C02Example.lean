import WhVerif.Lemmas.C02Thm
/-!
# C02: non-vacuity — a concrete error-free instance (3 reads, 3 columns, one read-connected component)
and the four theorems instantiated on it, for the true bipartition and for its swap.
-/
namespace WhVerif.C02
open WhVerif.C01 WhVerif.Cost

/-- truth: haplotype 0 = 0,1,0; haplotype 1 = 1,0,1.  Read 0 copies haplotype 0 on columns 0–1, read 1 copies
haplotype 1 on columns 1–2, read 2 copies haplotype 0 on column 2. -/
def exInst : Inst :=
  { ncols := 3
    reads := [ { ind := 0, first := 0, last := 1, entries := [(0, 0, 5), (1, 1, 7)] },
               { ind := 0, first := 1, last := 2, entries := [(1, 0, 4), (2, 1, 6)] },
               { ind := 0, first := 2, last := 2, entries := [(2, 0, 9)] } ]
    nind := 1
    trios := []
    geno := [ [[none, some 0, none], [none, some 0, none], [none, some 0, none]] ]
    recomb := [0, 10, 10] }

def exHap (c : Nat) : Nat := [0, 1, 0].getD c 0
def exSrc (r : Nat) : Bool := [false, true, false].getD r false

theorem exErrFree : ErrFree exInst exHap exSrc := by
  constructor <;> decide

/-- the same instance read with the two true haplotypes exchanged -/
theorem exErrFree_swapped : ErrFree exInst (fun c => 1 - exHap c) (fun r => !exSrc r) := by
  constructor <;> decide

theorem exInst_wf : WF exInst := by
  constructor
  intro r1 r2 h1 h2
  have hall : ∀ r2, r2 < 3 → ∀ r1, r1 ≤ r2 → (exInst.read r1).first ≤ (exInst.read r2).first := by decide
  exact hall r2 h2 r1 h1

/-- all three reads are connected -/
theorem exConnected : Connected exInst 0 2 :=
  .step (r2 := 1) (.step (r2 := 0) (.refl 0 (by decide)) (by decide) ⟨1, by decide, by decide⟩) (by decide)
    ⟨2, by decide, by decide⟩

/-- the swapped truth `[true, false, true]` is a second zero-cost solution -/
theorem exSwap_zero : totalCost exInst [true, false, true] [0, 0, 0] = some 0 := by
  have h := errfree_truth_cost_zero exErrFree_swapped
  have h1 : (List.range exInst.nreads).map (fun r => !exSrc r) = [true, false, true] := by decide
  have h2 : List.replicate exInst.ncols 0 = [0, 0, 0] := by decide
  rw [h1, h2] at h; exact h

theorem exTruth_zero : totalCost exInst [false, true, false] [0, 0, 0] = some 0 := by
  have h := errfree_truth_cost_zero exErrFree
  have h1 : (List.range exInst.nreads).map exSrc = [false, true, false] := by decide
  have h2 : List.replicate exInst.ncols 0 = [0, 0, 0] := by decide
  rw [h1, h2] at h; exact h

example : totalCost exInst ((List.range exInst.nreads).map exSrc) (List.replicate exInst.ncols 0) = some 0 :=
  errfree_truth_cost_zero exErrFree
example : dpCost exInst = some 0 := errfree_dpCost_zero exErrFree exInst_wf

example : ([true, false, true].getD 0 false = [true, false, true].getD 1 false ↔ exSrc 0 = exSrc 1) :=
  zero_cost_separates exErrFree exSwap_zero 0 1 ⟨1, by decide, by decide⟩

example : (∀ r, Connected exInst 0 r → [true, false, true].getD r false = exSrc r) ∨
    (∀ r, Connected exInst 0 r → [true, false, true].getD r false = !exSrc r) :=
  zero_cost_component exErrFree exSwap_zero 0

/-- under the truth: column 1 is phased `1|0` = (hap 1, 1 - hap 1) -/
example : getAlleles exInst 1 (restrict [false, true, false] (exInst.activeAt 1)) 0 = some [(1, 0)] :=
  zero_cost_no_tie exErrFree exTruth_zero 1 (by decide) 0 0 (by decide)

/-- under the swap: column 1 is phased `0|1` = (1 - hap 1, hap 1) -/
example : getAlleles exInst 1 (restrict [true, false, true] (exInst.activeAt 1)) 0 = some [(0, 1)] :=
  zero_cost_no_tie exErrFree exSwap_zero 1 (by decide) 0 0 (by decide)

end WhVerif.C02

import WhVerif.Model.C15Glue
import WhVerif.Lemmas.C15
/-! Lemmas for the glue model of C15 (`Model/C15Glue.lean`): sorted position sets, the reader loop, the alignment
of the genotype list with the allele-matrix columns, the genotype dict. -/
namespace WhVerif.C15

/-! ## `isort` -/

theorem insertBy_perm {α} (le : α → α → Bool) (x : α) (l : List α) : (insertBy le x l).Perm (x :: l) := by
  induction l with
  | nil => simp [insertBy]
  | cons y ys ih =>
    unfold insertBy
    split
    · exact List.Perm.refl _
    · exact (List.Perm.cons y ih).trans (List.Perm.swap x y ys)

theorem isort_perm {α} (le : α → α → Bool) (l : List α) : (isort le l).Perm l := by
  induction l with
  | nil => simp [isort]
  | cons x xs ih => exact (insertBy_perm le x _).trans (List.Perm.cons x ih)

theorem insertBy_sorted {α} (le : α → α → Bool) (htrans : ∀ a b c, le a b = true → le b c = true → le a c = true)
    (htotal : ∀ a b, le a b = true ∨ le b a = true) (x : α) (l : List α)
    (h : l.Pairwise (fun a b => le a b = true)) : (insertBy le x l).Pairwise (fun a b => le a b = true) := by
  induction l with
  | nil => simp [insertBy]
  | cons y ys ih =>
    rw [List.pairwise_cons] at h
    unfold insertBy
    by_cases hxy : le x y = true
    · simp only [hxy, if_true, List.pairwise_cons]
      refine ⟨?_, h⟩
      intro a ha
      rcases List.mem_cons.mp ha with rfl | ha
      · exact hxy
      · exact htrans _ _ _ hxy (h.1 a ha)
    · have hf : le x y = false := by simpa using hxy
      simp only [hf, Bool.false_eq_true, if_false, List.pairwise_cons]
      refine ⟨?_, ih h.2⟩
      intro a ha
      rcases List.mem_cons.mp ((insertBy_perm le x ys).subset ha) with rfl | ha
      · rcases htotal a y with h' | h'
        · exact absurd h' hxy
        · exact h'
      · exact h.1 a ha

theorem isort_sorted {α} (le : α → α → Bool) (htrans : ∀ a b c, le a b = true → le b c = true → le a c = true)
    (htotal : ∀ a b, le a b = true ∨ le b a = true) (l : List α) :
    (isort le l).Pairwise (fun a b => le a b = true) := by
  induction l with
  | nil => simp [isort]
  | cons x xs ih => exact insertBy_sorted le htrans htotal x _ ih

/-! ## `insertPos` / `posSet` -/

theorem mem_insertPos (p x : Nat) (l : List Nat) : x ∈ insertPos p l ↔ x = p ∨ x ∈ l := by
  induction l with
  | nil => simp [insertPos]
  | cons q qs ih =>
    unfold insertPos
    by_cases h1 : p < q
    · simp [h1]
    · by_cases h2 : p = q
      · subst h2; simp [h1]
      · simp only [h1, h2, if_false, List.mem_cons, ih]
        constructor
        · rintro (h | h | h) <;> simp [h]
        · rintro (h | h | h) <;> simp [h]

theorem insertPos_sorted (p : Nat) (l : List Nat) (h : l.Pairwise (· < ·)) : (insertPos p l).Pairwise (· < ·) := by
  induction l with
  | nil => simp [insertPos]
  | cons q qs ih =>
    unfold insertPos
    by_cases h1 : p < q
    · simp only [h1, if_true]
      rw [List.pairwise_cons] at h ⊢
      refine ⟨?_, List.pairwise_cons.mpr h⟩
      intro a ha
      rcases List.mem_cons.mp ha with rfl | ha
      · exact h1
      · exact Nat.lt_trans h1 (h.1 a ha)
    · by_cases h2 : p = q
      · simp [h1, h2, h]
      · simp only [h1, h2, if_false]
        rw [List.pairwise_cons] at h ⊢
        refine ⟨?_, ih h.2⟩
        intro a ha
        rcases (mem_insertPos p a qs).mp ha with rfl | ha
        · omega
        · exact h.1 a ha

theorem posSet_sorted (l : List Nat) : (posSet l).Pairwise (· < ·) := by
  induction l with
  | nil => simp [posSet]
  | cons a as ih => exact insertPos_sorted a _ ih

theorem mem_posSet (x : Nat) (l : List Nat) : x ∈ posSet l ↔ x ∈ l := by
  induction l with
  | nil => simp [posSet]
  | cons a as ih =>
    show x ∈ insertPos a (posSet as) ↔ _
    rw [mem_insertPos, ih]; simp

/-- two strictly increasing lists with the same members are equal -/
theorem sorted_ext : ∀ (l1 l2 : List Nat), l1.Pairwise (· < ·) → l2.Pairwise (· < ·) →
    (∀ x, x ∈ l1 ↔ x ∈ l2) → l1 = l2
  | [], [], _, _, _ => rfl
  | [], b :: l2, _, _, h => by have := (h b).mpr (by simp); simp at this
  | a :: l1, [], _, _, h => by have := (h a).mp (by simp); simp at this
  | a :: l1, b :: l2, h1, h2, h => by
    rw [List.pairwise_cons] at h1 h2
    have hab : a = b := by
      have ha := (h a).mp (by simp)
      have hb := (h b).mpr (by simp)
      rcases List.mem_cons.mp ha with e | ha'
      · exact e
      · rcases List.mem_cons.mp hb with e | hb'
        · exact e.symm
        · have := h2.1 a ha'; have := h1.1 b hb'; omega
    subst hab
    congr 1
    apply sorted_ext l1 l2 h1.2 h2.2
    intro x
    constructor
    · intro hx
      have := (h x).mp (List.mem_cons_of_mem _ hx)
      rcases List.mem_cons.mp this with e | hx'
      · have := h1.1 x hx; omega
      · exact hx'
    · intro hx
      have := (h x).mpr (List.mem_cons_of_mem _ hx)
      rcases List.mem_cons.mp this with e | hx'
      · have := h2.1 x hx; omega
      · exact hx'

/-- `get_positions()` does not depend on the order of the reads (`ReadSet.sort()` is irrelevant for the columns) -/
theorem readPositions_perm (r1 r2 : List PRead) (h : r1.Perm r2) : readPositions r1 = readPositions r2 := by
  apply sorted_ext _ _ (posSet_sorted _) (posSet_sorted _)
  intro x
  simp only [readPositions, mem_posSet, List.mem_flatMap]
  constructor
  · rintro ⟨r, hr, hx⟩; exact ⟨r, h.subset hr, hx⟩
  · rintro ⟨r, hr, hx⟩; exact ⟨r, h.symm.subset hr, hx⟩

/-! ## the reader loop -/

/-- what `readLoop` guarantees about the table -/
theorem readLoop_spec (c : Cfg) : ∀ (recs : List VRec) (prev : Option Nat) (t : List VRec),
    readLoop c prev recs = .ok t →
    (t.map (·.pos)).Pairwise (· < ·) ∧
    (∀ r ∈ t, (∀ p, prev = some p → p < r.pos) ∧ r ∈ recs ∧ readerSkips c r = false ∧
      (r.gt = [] ∨ r.gt.length = c.ploidy))
  | [], prev, t, h => by
    simp [readLoop] at h
    cases h; simp
  | r :: rs, prev, t, h => by
    unfold readLoop at h
    by_cases hs : readerSkips c r = true
    · simp only [hs, if_true] at h
      obtain ⟨h1, h2⟩ := readLoop_spec c rs prev t h
      exact ⟨h1, fun x hx => ⟨(h2 x hx).1, List.mem_cons_of_mem _ (h2 x hx).2.1, (h2 x hx).2.2⟩⟩
    · simp only [hs] at h
      by_cases hns : outOfOrder prev r.pos = true
      · simp [hns] at h
      · simp only [hns] at h
        by_cases hd : (prev == some r.pos) = true
        · simp only [hd, if_true] at h
          obtain ⟨h1, h2⟩ := readLoop_spec c rs prev t h
          exact ⟨h1, fun x hx => ⟨(h2 x hx).1, List.mem_cons_of_mem _ (h2 x hx).2.1, (h2 x hx).2.2⟩⟩
        · simp only [hd] at h
          by_cases hp : ploidyError c r = true
          · simp [hp] at h
          · simp only [hp, Bool.false_eq_true, if_false] at h
            cases hrec : readLoop c (some r.pos) rs with
            | error e => simp [hrec, consOk] at h
            | ok t' =>
              simp only [hrec, consOk] at h
              cases h
              obtain ⟨h1, h2⟩ := readLoop_spec c rs (some r.pos) t' hrec
              have hprev : ∀ p, prev = some p → p < r.pos := by
                intro p hp'
                subst hp'
                simp [outOfOrder] at hns hd
                omega
              have hgt : r.gt = [] ∨ r.gt.length = c.ploidy := by
                cases hg : r.gt with
                | nil => left; rfl
                | cons a as =>
                  right
                  simp [ploidyError, hg] at hp
                  simpa using hp.2
              constructor
              · simp only [List.map_cons, List.pairwise_cons]
                refine ⟨?_, h1⟩
                intro p hp'
                obtain ⟨x, hx, rfl⟩ := List.mem_map.mp hp'
                exact (h2 x hx).1 r.pos rfl
              · intro x hx
                rcases List.mem_cons.mp hx with rfl | hx
                · exact ⟨hprev, by simp, by simpa using hs, hgt⟩
                · refine ⟨?_, List.mem_cons_of_mem _ (h2 x hx).2.1, (h2 x hx).2.2⟩
                  intro p hp'
                  have := hprev p hp'
                  have := (h2 x hx).1 r.pos rfl
                  omega

theorem readTable_sorted (c : Cfg) (recs t : List VRec) (h : readTable c recs = .ok t) :
    (t.map (·.pos)).Pairwise (· < ·) := (readLoop_spec c recs none t h).1

/-! ## filters keep a strictly increasing position list strictly increasing -/

theorem filter_pos_sorted (f : VRec → Bool) (t : List VRec) (h : (t.map (·.pos)).Pairwise (· < ·)) :
    ((t.filter f).map (·.pos)).Pairwise (· < ·) := by
  rw [List.pairwise_map] at h ⊢
  exact h.sublist List.filter_sublist

/-- rows of a table with strictly increasing positions are determined by their position -/
theorem row_unique (t : List VRec) (h : (t.map (·.pos)).Pairwise (· < ·)) (a b : VRec) (ha : a ∈ t) (hb : b ∈ t)
    (hp : a.pos = b.pos) : a = b := by
  induction t with
  | nil => simp at ha
  | cons x xs ih =>
    simp only [List.map_cons, List.pairwise_cons] at h
    rcases List.mem_cons.mp ha with rfl | ha' <;> rcases List.mem_cons.mp hb with rfl | hb'
    · rfl
    · have := h.1 b.pos (List.mem_map.mpr ⟨b, hb', rfl⟩); omega
    · have := h.1 a.pos (List.mem_map.mpr ⟨a, ha', rfl⟩); omega
    · exact ih h.2 ha' hb'

/-! ## alignment of the table subset with the read positions -/

/-- the table subset has exactly the read positions, in the same order, provided the reads only report positions
of the table -/
theorem subsetRows_positions (ps : List Nat) (t : List VRec) (ht : (t.map (·.pos)).Pairwise (· < ·))
    (hps : ps.Pairwise (· < ·)) (hsub : ∀ p ∈ ps, p ∈ t.map (·.pos)) :
    (subsetRows ps t).map (·.pos) = ps := by
  apply sorted_ext _ _ (filter_pos_sorted _ t ht) hps
  intro x
  simp only [subsetRows, List.mem_map, List.mem_filter, List.contains_iff_mem]
  constructor
  · rintro ⟨r, ⟨_, hr⟩, rfl⟩; exact hr
  · intro hx
    obtain ⟨r, hr, rfl⟩ := List.mem_map.mp (hsub x hx)
    exact ⟨r, ⟨hr, hx⟩, rfl⟩

/-! ## the genotype dict -/

theorem dictCount_dictIncr (d : List (Allele × Nat)) (a b : Allele) :
    dictCount (dictIncr d a) b = dictCount d b + (if a = b then 1 else 0) := by
  induction d with
  | nil => simp [dictIncr, dictCount]
  | cons e rest ih =>
    obtain ⟨x, n⟩ := e
    unfold dictIncr
    by_cases h1 : x = a
    · subst h1
      by_cases h2 : x = b
      · simp [dictCount, h2]
      · simp [dictCount, h2]
    · simp only [h1, if_false, dictCount]
      by_cases h2 : x = b
      · subst h2; simp [Ne.symm h1]
      · simp [h2, ih]

theorem dictCount_foldl (l : List Allele) (d : List (Allele × Nat)) (b : Allele) :
    dictCount (l.foldl dictIncr d) b = dictCount d b + l.count b := by
  induction l generalizing d with
  | nil => simp
  | cons a as ih =>
    simp only [List.foldl_cons, ih, dictCount_dictIncr, List.count_cons]
    by_cases h : a = b <;> simp [h] <;> omega

theorem dictCount_genotypeDict (gt : List Allele) (a : Allele) : dictCount (genotypeDict gt) a = gt.count a := by
  unfold genotypeDict asVector
  rw [dictCount_foldl]
  simp [dictCount, (isort_perm _ gt).count_eq]

/-- keys stay distinct -/
theorem dictIncr_keys (d : List (Allele × Nat)) (a : Allele) (h : (d.map (·.1)).Nodup) :
    ((dictIncr d a).map (·.1)).Nodup ∧ ∀ x, x ∈ (dictIncr d a).map (·.1) ↔ x = a ∨ x ∈ d.map (·.1) := by
  induction d with
  | nil => simp [dictIncr]
  | cons e rest ih =>
    obtain ⟨x, n⟩ := e
    simp only [List.map_cons, List.nodup_cons] at h
    unfold dictIncr
    by_cases h1 : x = a
    · subst h1
      simp only [if_true, List.map_cons, List.nodup_cons]
      refine ⟨h, ?_⟩
      intro y; simp
    · obtain ⟨ih1, ih2⟩ := ih h.2
      simp only [h1, if_false, List.map_cons, List.nodup_cons]
      refine ⟨⟨?_, ih1⟩, ?_⟩
      · intro hx
        rcases (ih2 x).mp hx with e | hx'
        · exact h1 e
        · exact h.1 hx'
      · intro y
        simp only [List.mem_cons, ih2]
        constructor
        · rintro (h | h | h) <;> simp [h]
        · rintro (h | h | h) <;> simp [h]

theorem foldl_dictIncr_keys (l : List Allele) (d : List (Allele × Nat)) (h : (d.map (·.1)).Nodup) :
    ((l.foldl dictIncr d).map (·.1)).Nodup := by
  induction l generalizing d with
  | nil => simpa using h
  | cons a as ih => exact ih _ (dictIncr_keys d a h).1

theorem count_dictExpand (d : List (Allele × Nat)) (h : (d.map (·.1)).Nodup) (a : Allele) :
    (dictExpand d).count a = dictCount d a := by
  induction d with
  | nil => simp [dictExpand, dictCount]
  | cons e rest ih =>
    obtain ⟨x, n⟩ := e
    simp only [List.map_cons, List.nodup_cons] at h
    have ih' := ih h.2
    unfold dictExpand at ih' ⊢
    simp only [List.flatMap_cons, List.count_append, dictCount, ih']
    by_cases hx : x = a
    · subst hx
      have : dictCount rest x = 0 := by
        clear ih ih'
        induction rest with
        | nil => simp [dictCount]
        | cons e' r' ih2 =>
          obtain ⟨y, m⟩ := e'
          simp only [List.map_cons, List.mem_cons, not_or, List.nodup_cons] at h
          have hne : ¬ y = x := fun e => h.1.1 e.symm
          simp only [dictCount, hne, if_false]
          exact ih2 ⟨h.1.2, h.2.2⟩
      simp [List.count_replicate, this]
    · simp [List.count_replicate, hx]

/-- the genotype dict handed to the solver, expanded to a list, has exactly the alleles of the call -/
theorem count_dictExpand_genotypeDict (gt : List Allele) (a : Allele) :
    (dictExpand (genotypeDict gt)).count a = gt.count a := by
  have hk : ((genotypeDict gt).map (·.1)).Nodup := foldl_dictIncr_keys _ [] (by simp)
  rw [count_dictExpand _ hk, dictCount_genotypeDict]

theorem length_dictExpand_genotypeDict (gt : List Allele) : (dictExpand (genotypeDict gt)).length = gt.length :=
  (List.perm_iff_count.mpr (count_dictExpand_genotypeDict gt)).length_eq

end WhVerif.C15

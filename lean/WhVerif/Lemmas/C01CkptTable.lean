import WhVerif.Lemmas.C01CkptBest
/-!
# C01, check-pointing is transparent: for every spacing `k ≥ 1` the forward pass that deletes columns and the
# backtrace that recomputes segments (`ckptPathK`) follow exactly the path read off the full stored tables
# (`fullPath`); no null pointer is ever dereferenced and no `assert` of `compute_table` can fire.

Core Lean only.  No hypothesis on the instance or on the visiting order.
-/
set_option linter.unusedSimpArgs false
set_option linter.unusedVariables false
namespace WhVerif.C01
open WhVerif.Cost

/-! ### the full table as a pure function -/

/-- stored column `c` (projection + backtrace tables) when nothing is ever deleted -/
def stored (I : Inst) (ord : Ord) : Nat → Array Ent
  | 0 => computeColumn I ord 0 #[]
  | c + 1 => computeColumn I ord (c + 1) (projOf (stored I ord c))

/-- the projection column handed to column `c` -/
def prevO (I : Inst) (ord : Ord) (c : Nat) : Array (Option Nat) :=
  if c = 0 then #[] else projOf (stored I ord (c - 1))

theorem stored_eq (I : Inst) (ord : Ord) (c : Nat) : stored I ord c = computeColumn I ord c (prevO I ord c) := by
  cases c with
  | zero => rfl
  | succ c => simp [stored, prevO]

/-- the backtrace on the full table: from index `vidx` of column `c` with pending transmission value `pt`,
the path of the columns `0 … c-1` -/
def walk (I : Inst) (ord : Ord) : Nat → Nat → Nat → Option (List (Nat × Nat))
  | 0, _, _ => some []
  | c + 1, vidx, pt =>
    match (stored I ord c).getD (vidx % 2 ^ (I.sharedAt c).length * I.ntrans + pt) none with
    | none => none
    | some (_, i, j') => (walk I ord c i j').map (· ++ [(i, pt)])

/-- `index_path` of the solver that keeps every column -/
def fullPath (I : Inst) (ord : Ord) : Option (List (Nat × Nat)) :=
  if I.ncols = 0 then some []
  else
    match lastBest I ord (I.ncols - 1) (prevO I ord (I.ncols - 1)) with
    | none => none
    | some (_, idx, t, pt) => (walk I ord (I.ncols - 1) idx pt).map (· ++ [(idx, t)])

/-! ### list slots -/

theorem getD_set' {α} (l : List α) (i j : Nat) (x d : α) :
    (l.set i x).getD j d = if i = j ∧ i < l.length then x else l.getD j d := by
  simp only [List.getD_eq_getElem?_getD, List.getElem?_set]
  by_cases h1 : i = j
  · subst h1
    by_cases h2 : i < l.length
    · simp [h2]
    · simp [h2, List.getElem?_eq_none (Nat.le_of_not_lt h2)]
  · simp [h1]

/-- slot `c` holds a column -/
def pres (T : Tabs) (c : Nat) : Prop := (T.getD c none).isSome = true

theorem pres_iff (T : Tabs) (c : Nat) : pres T c ↔ ∃ a, T.getD c none = some a := by
  unfold pres
  cases T.getD c none <;> simp

/-- every stored column is the column of the full table -/
structure TOk (I : Inst) (ord : Ord) (n : Nat) (T : Tabs) : Prop where
  len : T.length = n
  val : ∀ c a, T.getD c none = some a → a = stored I ord c

theorem pres_lt {I : Inst} {ord : Ord} {n : Nat} {T : Tabs} (h : TOk I ord n T) {c : Nat} (hp : pres T c) : c < n := by
  rw [← h.len]
  apply Classical.byContradiction
  intro hlt
  unfold pres at hp
  simp [List.getD_eq_getElem?_getD, List.getElem?_eq_none (Nat.le_of_not_lt hlt)] at hp

/-! ### `compute_column` on the table state -/

theorem computeColumnAt_ok (I : Inst) (ord : Ord) (n : Nat) (T : Tabs) (c : Nat) (h : TOk I ord n T) (hc : c < n)
    (hp : c = 0 ∨ pres T (c - 1)) :
    ∃ T', computeColumnAt I ord T c = some T' ∧ TOk I ord n T' ∧ pres T' c ∧
      ∀ c', c' ≠ c → T'.getD c' none = T.getD c' none := by
  unfold computeColumnAt
  cases hTc : T.getD c none with
  | some a =>
    exact ⟨T, rfl, h, by unfold pres; rw [hTc]; rfl, fun _ _ => rfl⟩
  | none =>
    simp only
    by_cases h0 : c = 0
    · subst h0
      rw [if_pos rfl]
      refine ⟨_, rfl, ⟨by simp [h.len], ?_⟩, ?_, ?_⟩
      · intro c' a ha
        rw [getD_set'] at ha
        by_cases hc' : 0 = c' ∧ 0 < T.length
        · rw [if_pos hc'] at ha
          cases ha
          rw [← hc'.1]; rfl
        · rw [if_neg hc'] at ha
          exact h.val c' a ha
      · simp [pres, getD_set', h.len, hc]
      · intro c' hc'
        rw [getD_set', if_neg (by omega)]
    · rw [if_neg h0]
      rcases hp with hp | hp
      · exact absurd hp h0
      · obtain ⟨p, hp'⟩ := (pres_iff T (c - 1)).mp hp
        rw [hp']
        simp only
        have hpv := h.val (c - 1) p hp'
        subst hpv
        have hst : computeColumn I ord c (projOf (stored I ord (c - 1))) = stored I ord c := by
          obtain ⟨c', rfl⟩ : ∃ c', c = c' + 1 := ⟨c - 1, by omega⟩
          simp [stored]
        rw [hst]
        refine ⟨_, rfl, ⟨by simp [h.len], ?_⟩, ?_, ?_⟩
        · intro c' a ha
          rw [getD_set'] at ha
          by_cases hc' : c = c' ∧ c < T.length
          · rw [if_pos hc'] at ha
            cases ha
            rw [← hc'.1]
          · rw [if_neg hc'] at ha
            exact h.val c' a ha
        · simp [pres, getD_set', h.len, hc]
        · intro c' hc'
          rw [getD_set', if_neg (by omega)]

/-- `for (j = j+1; j < i; ++j) compute_column(j)` never meets a null pointer and fills the slots `j … j+m` -/
theorem recompute_ok (I : Inst) (ord : Ord) (n : Nat) (T : Tabs) (j : Nat) (h : TOk I ord n T) (hj : pres T j) :
    ∀ m, j + m < n →
    ∃ T', recompute I ord T j m = some T' ∧ TOk I ord n T' ∧ (∀ c, j ≤ c → c ≤ j + m → pres T' c) ∧
      (∀ c, pres T c → pres T' c) ∧ (∀ c, pres T' c → pres T c ∨ (j < c ∧ c ≤ j + m)) := by
  intro m
  induction m with
  | zero =>
    intro _
    refine ⟨T, rfl, h, ?_, fun _ hc => hc, fun _ hc => Or.inl hc⟩
    intro c h1 h2
    have : c = j := by omega
    subst this; exact hj
  | succ m ih =>
    intro hm
    obtain ⟨T1, hr, hok, hfill, hmono, hnew⟩ := ih (by omega)
    obtain ⟨T2, hc2, hok2, hp2, hoff⟩ := computeColumnAt_ok I ord n T1 (j + 1 + m) hok (by omega)
      (Or.inr (by
        have : j + 1 + m - 1 = j + m := by omega
        rw [this]; exact hfill (j + m) (by omega) (by omega)))
    refine ⟨T2, by simp [recompute, hr, hc2], hok2, ?_, ?_, ?_⟩
    · intro c h1 h2
      by_cases hcm : c = j + 1 + m
      · subst hcm; exact hp2
      · unfold pres; rw [hoff c hcm]; exact hfill c h1 (by omega)
    · intro c hc
      by_cases hcm : c = j + 1 + m
      · subst hcm; exact hp2
      · unfold pres; rw [hoff c hcm]; exact hmono c hc
    · intro c hc
      by_cases hcm : c = j + 1 + m
      · exact Or.inr (by omega)
      · unfold pres at hc; rw [hoff c hcm] at hc
        rcases hnew c hc with h' | h'
        · exact Or.inl h'
        · exact Or.inr (by omega)

/-- the free loop: all its asserts hold, and it empties exactly the slots `i … i+m-1` -/
theorem freeLoop_ok (T : Tabs) (i : Nat) : ∀ m, (∀ m', m' < m → pres T (i + m')) →
    ∃ T', freeLoop T i m = some T' ∧ T'.length = T.length ∧
      ∀ c, T'.getD c none = if i ≤ c ∧ c < i + m then none else T.getD c none := by
  intro m
  induction m with
  | zero =>
    intro _
    refine ⟨T, rfl, rfl, ?_⟩
    intro c
    rw [if_neg (by omega)]
  | succ m ih =>
    intro hp
    obtain ⟨T1, hf, hlen, hget⟩ := ih (fun m' hm' => hp m' (by omega))
    have hpm : (T1.getD (i + m) none).isSome = true := by
      rw [hget, if_neg (by omega)]
      exact hp m (by omega)
    refine ⟨T1.set (i + m) none, by rw [freeLoop, hf, Option.bind_some, if_pos hpm], by simp [hlen], ?_⟩
    intro c
    rw [getD_set', hget]
    by_cases h1 : i + m = c
    · subst h1
      by_cases h2 : i + m < T1.length
      · simp [h2]
      · rw [if_neg (by simp [h2]), if_neg (by omega), if_pos (by omega)]
        have := hget (i + m)
        rw [if_neg (by omega)] at this
        rw [← this]
        simp [List.getD_eq_getElem?_getD, List.getElem?_eq_none (Nat.le_of_not_lt h2)]
    · rw [if_neg (by omega)]
      by_cases h3 : i ≤ c ∧ c < i + m
      · rw [if_pos h3, if_pos (by omega)]
      · rw [if_neg h3, if_neg (by omega)]

/-! ### segments -/

theorem seg_le (k i : Nat) : i / k * k ≤ i := Nat.div_mul_le_self i k

theorem seg_mod (k i : Nat) : (i / k * k) % k = 0 := Nat.mul_mod_left _ _

theorem seg_c (k i c : Nat) (hk : 1 ≤ k) (h1 : i / k * k ≤ c) (h2 : c ≤ i) : c / k * k = i / k * k := by
  have hi := Nat.div_add_mod i k
  have hr := Nat.mod_lt i hk
  have hcomm : k * (i / k) = i / k * k := Nat.mul_comm _ _
  have : c / k = i / k ∧ c % k = c - i / k * k :=
    (Nat.div_mod_unique hk).mpr ⟨by omega, by omega⟩
  rw [this.1]

theorem seg_a (k i : Nat) (hk : 1 ≤ k) (h : (i + 1) % k = 0) : i / k * k + k = i + 1 := by
  have hi := Nat.div_add_mod i k
  have hr := Nat.mod_lt i hk
  have hcomm : k * (i / k) = i / k * k := Nat.mul_comm _ _
  have hi1 := Nat.div_add_mod (i + 1) k
  rw [h] at hi1
  by_cases hlt : i % k + 1 < k
  · have : (i + 1) / k = i / k ∧ (i + 1) % k = i % k + 1 :=
      (Nat.div_mod_unique hk).mpr ⟨by omega, hlt⟩
    omega
  · omega

theorem seg_b (k i : Nat) (hk : 1 ≤ k) (h : (i + 1) % k ≠ 0) : (i + 1) / k * k = i / k * k := by
  have hi := Nat.div_add_mod i k
  have hr := Nat.mod_lt i hk
  have hcomm : k * (i / k) = i / k * k := Nat.mul_comm _ _
  by_cases hlt : i % k + 1 < k
  · have : (i + 1) / k = i / k ∧ (i + 1) % k = i % k + 1 :=
      (Nat.div_mod_unique hk).mpr ⟨by omega, hlt⟩
    rw [this.1]
  · exfalso
    apply h
    have hsucc : k * (i / k + 1) = i / k * k + k := by rw [Nat.mul_add, Nat.mul_one, hcomm]
    have : (i + 1) / k = i / k + 1 ∧ (i + 1) % k = 0 :=
      (Nat.div_mod_unique hk).mpr ⟨by omega, by omega⟩
    exact this.2

/-! ### forward pass -/

/-- after the columns `0 … m-1`: exactly the check-points and column `m-1` are stored -/
structure FInv (I : Inst) (ord : Ord) (k n m : Nat) (T : Tabs) : Prop where
  ok : TOk I ord n T
  has : ∀ c, c < m → (c % k = 0 ∨ c + 1 = m) → pres T c
  only : ∀ c, pres T c → c < m ∧ (c % k = 0 ∨ c + 1 = m)

theorem dropPrev_getD (k : Nat) (T : Tabs) (c c' : Nat) :
    (dropPrev k T c).getD c' none =
      if (1 < k ∧ 0 < c ∧ (c - 1) % k ≠ 0) ∧ c - 1 = c' ∧ c - 1 < T.length then none else T.getD c' none := by
  unfold dropPrev
  by_cases h : 1 < k ∧ 0 < c ∧ (c - 1) % k ≠ 0
  · rw [if_pos h, getD_set']
    by_cases h2 : c - 1 = c' ∧ c - 1 < T.length
    · rw [if_pos h2, if_pos ⟨h, h2⟩]
    · rw [if_neg h2, if_neg (fun hh => h2 hh.2)]
  · rw [if_neg h, if_neg (fun hh => h hh.1)]

theorem dropPrev_ok (I : Inst) (ord : Ord) (k n : Nat) (T : Tabs) (c : Nat) (h : TOk I ord n T) :
    TOk I ord n (dropPrev k T c) := by
  refine ⟨?_, ?_⟩
  · unfold dropPrev
    split <;> simp [h.len]
  · intro c' a ha
    rw [dropPrev_getD] at ha
    split at ha
    · cases ha
    · exact h.val c' a ha

theorem fwdLoop_ok (I : Inst) (ord : Ord) (k n : Nat) (hk : 1 ≤ k) : ∀ m, m + 1 ≤ n →
    ∃ T, fwdLoop I ord k n m = some T ∧ FInv I ord k n m T := by
  intro m
  induction m with
  | zero =>
    intro _
    refine ⟨_, rfl, ⟨⟨by simp, ?_⟩, ?_, ?_⟩⟩
    · intro c a ha
      simp [List.getD_eq_getElem?_getD, List.getElem?_replicate] at ha
      split at ha <;> simp at ha
    · intro c hc; omega
    · intro c hc
      unfold pres at hc
      simp [List.getD_eq_getElem?_getD, List.getElem?_replicate] at hc
      split at hc <;> simp at hc
  | succ m ih =>
    intro hm
    obtain ⟨T, hf, hinv⟩ := ih (by omega)
    obtain ⟨T1, hc1, hok1, hp1, hoff⟩ := computeColumnAt_ok I ord n T m hinv.ok (by omega)
      (by
        by_cases h0 : m = 0
        · exact Or.inl h0
        · exact Or.inr (hinv.has (m - 1) (by omega) (Or.inr (by omega))))
    refine ⟨dropPrev k T1 m, by simp [fwdLoop, hf, hc1], ⟨dropPrev_ok I ord k n T1 m hok1, ?_, ?_⟩⟩
    · intro c hc hor
      unfold pres
      rw [dropPrev_getD]
      have hnd : ¬ ((1 < k ∧ 0 < m ∧ (m - 1) % k ≠ 0) ∧ m - 1 = c ∧ m - 1 < T1.length) := by
        rintro ⟨⟨_, h0, hmod⟩, hc', _⟩
        subst hc'
        rcases hor with h' | h'
        · exact hmod h'
        · omega
      rw [if_neg hnd]
      by_cases hcm : c = m
      · subst hcm; exact hp1
      · rw [hoff c hcm]
        rcases hor with h' | h'
        · exact hinv.has c (by omega) (Or.inl h')
        · omega
    · intro c hc
      unfold pres at hc
      rw [dropPrev_getD] at hc
      split at hc
      · simp at hc
      · next hnd =>
        by_cases hcm : c = m
        · subst hcm; exact ⟨by omega, Or.inr rfl⟩
        · rw [hoff c hcm] at hc
          obtain ⟨hlt, hor⟩ := hinv.only c hc
          refine ⟨by omega, ?_⟩
          rcases hor with h' | h'
          · exact Or.inl h'
          · -- c = m - 1 was not a check-point: then it has just been deleted
            by_cases hmod : c % k = 0
            · exact Or.inl hmod
            · exfalso
              apply hnd
              have hk1 : k ≠ 1 := by
                rintro rfl
                exact hmod (Nat.mod_one c)
              have hc1 : m - 1 = c := by omega
              refine ⟨⟨by omega, by omega, by rw [hc1]; exact hmod⟩, hc1, ?_⟩
              rw [hok1.len]; omega

/-! ### backtrace -/

/-- loop invariant at the head of the backtrace loop with loop variable `i` -/
structure BInv (I : Inst) (ord : Ord) (k n i : Nat) (T : Tabs) : Prop where
  ok : TOk I ord n T
  ckpt : ∀ c, c % k = 0 → c + 1 ≤ i → pres T c
  closed : ∀ c c', c + 1 ≤ i → pres T c → c / k * k ≤ c' → c' ≤ c → pres T c'
  seg : ∀ j, i ≤ j → j < min (i / k * k + k) (n - 1) → pres T j

theorem ensureCol_ok (I : Inst) (ord : Ord) (k n i : Nat) (hk : 1 ≤ k) (T : Tabs) (hi : i + 1 < n)
    (h : BInv I ord k n (i + 1) T) :
    ∃ T1, ensureCol I ord k T i = some T1 ∧ TOk I ord n T1 ∧ pres T1 i ∧ (∀ c, pres T c → pres T1 c) ∧
      (∀ c, pres T1 c → pres T c ∨ (i / k * k < c ∧ c ≤ i ∧ ∀ c', i / k * k ≤ c' → c' ≤ i → pres T1 c')) := by
  unfold ensureCol
  cases hTi : T.getD i none with
  | some a =>
    exact ⟨T, rfl, h.ok, by unfold pres; rw [hTi]; rfl, fun _ hc => hc, fun _ hc => Or.inl hc⟩
  | none =>
    simp only
    have hj : pres T (i / k * k) := h.ckpt _ (seg_mod k i) (by have := seg_le k i; omega)
    rw [if_pos (show (List.getD T (i / k * k) none).isSome = true from hj)]
    have hle := seg_le k i
    obtain ⟨T1, hr, hok, hfill, hmono, hnew⟩ := recompute_ok I ord n T (i / k * k) h.ok hj (i - i / k * k) (by omega)
    have hsum : i / k * k + (i - i / k * k) = i := by omega
    rw [hsum] at hfill hnew
    refine ⟨T1, hr, hok, hfill i hle (Nat.le_refl _), hmono, ?_⟩
    intro c hc
    rcases hnew c hc with h' | h'
    · exact Or.inl h'
    · exact Or.inr ⟨h'.1, h'.2, hfill⟩

/-- **the check-pointed backtrace follows the full table** -/
theorem btLoop_eq (I : Inst) (ord : Ord) (k n : Nat) (hk : 1 ≤ k) : ∀ (i : Nat) (T : Tabs) (vidx pt : Nat)
    (path : List (Nat × Nat)), i + 1 ≤ n → BInv I ord k n i T →
    btLoop I ord k n i T vidx pt path = (walk I ord i vidx pt).map (· ++ path) := by
  intro i
  induction i with
  | zero =>
    intro T vidx pt path _ _
    simp [btLoop, walk]
  | succ i ih =>
    intro T vidx pt path hi h
    obtain ⟨T1, he, hok1, hp1, hmono, hnew⟩ := ensureCol_ok I ord k n i hk T (by omega) h
    obtain ⟨a, ha⟩ := (pres_iff T1 i).mp hp1
    have hav := hok1.val i a ha
    subst hav
    simp only [btLoop, he, Option.bind_some, ha, walk]
    cases hent : (stored I ord i).getD (vidx % 2 ^ (I.sharedAt i).length * I.ntrans + pt) none with
    | none => rfl
    | some e =>
      obtain ⟨v, idx', j'⟩ := e
      simp only
      by_cases hfree : (i + 1) % k = 0
      · rw [if_pos hfree]
        have hsa := seg_a k i hk hfree
        have hsegi : (i + 1) / k * k = i + 1 := by
          have := Nat.div_add_mod (i + 1) k
          rw [hfree, Nat.mul_comm] at this
          omega
        obtain ⟨T2, hfl, hlen2, hget2⟩ := freeLoop_ok T1 (i + 1) (min (i + 1 + k) (n - 1) - (i + 1)) (by
          intro m' hm'
          apply hmono
          apply h.seg (i + 1 + m') (by omega)
          rw [hsegi]
          omega)
        rw [hfl]
        simp only [Option.bind_some]
        have hT2 : ∀ c, c ≤ i → T2.getD c none = T1.getD c none := by
          intro c hc
          rw [hget2, if_neg (by omega)]
        have hsub : ∀ c, pres T2 c → pres T1 c := by
          intro c hc
          unfold pres at hc ⊢
          rw [hget2] at hc
          split at hc
          · simp at hc
          · exact hc
        rw [ih T2 idx' j' ((idx', pt) :: path) (by omega) ⟨⟨by rw [hlen2, hok1.len], ?_⟩, ?_, ?_, ?_⟩]
        · cases walk I ord i idx' j' <;> simp
        · intro c a' ha'
          rw [hget2] at ha'
          split at ha'
          · cases ha'
          · exact hok1.val c a' ha'
        · intro c hmod hc
          unfold pres
          rw [hT2 c (by omega)]
          exact hmono c (h.ckpt c hmod (by omega))
        · intro c c' hc hpc hlo hhi
          unfold pres
          rw [hT2 c' (by omega)]
          rcases hnew c (hsub c hpc) with h' | ⟨h1, h2, hall⟩
          · exact hmono c' (h.closed c c' (by omega) h' hlo hhi)
          · apply hall c' _ (by omega)
            rw [← seg_c k i c hk (by omega) h2]
            exact hlo
        · intro j hj1 hj2
          have : j = i := by omega
          subst this
          unfold pres
          rw [hT2 j (Nat.le_refl _)]
          exact hp1
      · rw [if_neg hfree]
        simp only [Option.bind_some]
        have hsb := seg_b k i hk hfree
        rw [ih T1 idx' j' ((idx', pt) :: path) (by omega) ⟨hok1, ?_, ?_, ?_⟩]
        · cases walk I ord i idx' j' <;> simp
        · intro c hmod hc
          exact hmono c (h.ckpt c hmod (by omega))
        · intro c c' hc hpc hlo hhi
          rcases hnew c hpc with h' | ⟨h1, h2, hall⟩
          · exact hmono c' (h.closed c c' (by omega) h' hlo hhi)
          · apply hall c' _ (by omega)
            rw [← seg_c k i c hk (by omega) h2]
            exact hlo
        · intro j hj1 hj2
          by_cases hji : j = i
          · subst hji; exact hp1
          · apply hmono
            apply h.seg j (by omega)
            rw [hsb]
            exact hj2

/-- **Check-pointing is transparent.**  For every instance, every visiting order and every spacing `k ≥ 1`:
the forward pass that keeps only every `k`-th projection column, followed by the backtrace that recomputes the
columns between two check-points and frees them again, returns exactly the index path read off the full
table.  In particular none of the null-pointer dereferences / `assert`s of `compute_table` (which the model
renders as `none`) can happen. -/
theorem ckptPathK_eq (I : Inst) (ord : Ord) (k : Nat) (hk : 1 ≤ k) : ckptPathK I ord k = fullPath I ord := by
  unfold ckptPathK fullPath
  by_cases h0 : I.ncols = 0
  · simp [h0]
  · simp only [if_neg h0]
    obtain ⟨T, hf, hinv⟩ := fwdLoop_ok I ord k I.ncols hk (I.ncols - 1) (by omega)
    rw [hf]
    simp only [Option.bind_some]
    have hprev : lastPrev T I.ncols = some (prevO I ord (I.ncols - 1)) := by
      unfold lastPrev prevO
      by_cases h1 : I.ncols - 1 = 0
      · simp [h1]
      · rw [if_neg h1, if_neg h1]
        have hp := hinv.has (I.ncols - 2) (by omega) (Or.inr (by omega))
        obtain ⟨a, ha⟩ := (pres_iff _ _).mp hp
        have := hinv.ok.val _ a ha
        subst this
        have h2 : I.ncols - 1 - 1 = I.ncols - 2 := by omega
        rw [ha, h2]
        rfl
    rw [hprev]
    simp only [Option.bind_some]
    cases hb : lastBest I ord (I.ncols - 1) (prevO I ord (I.ncols - 1)) with
    | none => rfl
    | some e =>
      obtain ⟨v, idx, t, pt⟩ := e
      simp only
      apply btLoop_eq I ord k I.ncols hk (I.ncols - 1) _ idx pt [(idx, t)] (by omega)
      have hok := dropPrev_ok I ord k I.ncols T (I.ncols - 1) hinv.ok
      refine ⟨hok, ?_, ?_, ?_⟩
      · intro c hmod hc
        unfold pres
        rw [dropPrev_getD, if_neg]
        · exact hinv.has c (by omega) (Or.inl hmod)
        · rintro ⟨⟨_, _, hm⟩, hc', _⟩
          subst hc'
          exact hm hmod
      · intro c c' hc hpc hlo hhi
        have hpT : pres T c := by
          unfold pres at hpc ⊢
          rw [dropPrev_getD] at hpc
          split at hpc
          · simp at hpc
          · exact hpc
        obtain ⟨hlt, hor⟩ := hinv.only c hpT
        have hmod : c % k = 0 := by
          rcases hor with h' | h'
          · exact h'
          · apply Classical.byContradiction
            intro hmod
            unfold pres at hpc
            rw [dropPrev_getD, if_pos] at hpc
            · simp at hpc
            · have hk1 : k ≠ 1 := by
                rintro rfl
                exact hmod (Nat.mod_one c)
              have hc1 : I.ncols - 1 - 1 = c := by omega
              refine ⟨⟨by omega, by omega, by rw [hc1]; exact hmod⟩, hc1, ?_⟩
              rw [hinv.ok.len]; omega
        have hseg : c / k * k = c := by
          have := Nat.div_add_mod c k
          rw [hmod, Nat.mul_comm] at this
          omega
        have : c' = c := by omega
        subst this
        exact hpc
      · intro j hj1 hj2
        omega

end WhVerif.C01

import WhVerif.Model.C18
/-!
# Union-find facts needed by C03 (about the C18 model `UF`, proved here independently)

`WF u`: every parent pointer goes to a strictly smaller value that is itself a key.
Under `WF`: `root` unfolds along the parent pointer (fuel suffices), `root v ≤ v`, path compression
does not change `root`, linking two roots redirects exactly one class.
-/
namespace WhVerif.C03.UFL
open WhVerif.C18

structure WF (u : UF) : Prop where
  lt : ∀ v p, u.parentOf v = some (some p) → p < v
  mem : ∀ v p, u.parentOf v = some (some p) → (u.parentOf p).isSome = true

/-! ### association-list facts -/

theorem find_setParent (l : List (Nat × Option Nat)) (x w : Nat) (q : Option Nat) :
    ((l.map (fun e => if e.1 == x then (x, q) else e)).find? (fun p => p.1 == w)).map (·.2)
      = if w = x then ((l.find? (fun p => p.1 == x)).map (·.2)).map (fun _ => q)
        else (l.find? (fun p => p.1 == w)).map (·.2) := by
  induction l with
  | nil => simp
  | cons e es ih =>
    simp only [List.map_cons, List.find?_cons]
    by_cases hw : w = x
    · subst hw
      simp only [if_true] at ih ⊢
      by_cases hx : e.1 = w
      · have hb : (e.1 == w) = true := by simp [hx]
        simp [hb]
      · have hb : (e.1 == w) = false := by simp [hx]
        simp only [hb, Bool.false_eq_true, if_false]
        exact ih
    · simp only [hw, if_false] at ih ⊢
      by_cases hx : e.1 = x
      · have hb : (e.1 == x) = true := by simp [hx]
        have hb2 : (x == w) = false := by simp; omega
        have hb3 : (e.1 == w) = false := by simp; omega
        simp only [hb, if_true, hb2, hb3]
        exact ih
      · have hb : (e.1 == x) = false := by simp [hx]
        simp only [hb, Bool.false_eq_true, if_false]
        cases hb3 : (e.1 == w)
        · exact ih
        · rfl

theorem parentOf_setParent (u : UF) (x : Nat) (q : Option Nat) (w : Nat) :
    (u.setParent x q).parentOf w
      = if w = x then (u.parentOf x).map (fun _ => q) else u.parentOf w := by
  unfold UF.setParent UF.parentOf
  exact find_setParent u.nodes x w q

theorem length_setParent (u : UF) (x : Nat) (q : Option Nat) :
    (u.setParent x q).nodes.length = u.nodes.length := by
  simp [UF.setParent]

/-- number of keys below `v` -/
def cnt (u : UF) (v : Nat) : Nat := (u.nodes.filter (fun e => decide (e.1 < v))).length

theorem cnt_le (u : UF) (v : Nat) : cnt u v ≤ u.nodes.length := List.length_filter_le _ _

theorem filter_lt_of_witness (l : List (Nat × Option Nat)) (p v : Nat) (hpv : p < v)
    (h : ∃ e ∈ l, e.1 = p) :
    (l.filter (fun e => decide (e.1 < p))).length < (l.filter (fun e => decide (e.1 < v))).length := by
  induction l with
  | nil => obtain ⟨e, he, _⟩ := h; cases he
  | cons a as ih =>
    have mono : (as.filter (fun e => decide (e.1 < p))).length ≤ (as.filter (fun e => decide (e.1 < v))).length := by
      clear ih h
      induction as with
      | nil => simp
      | cons b bs ihb =>
        simp only [List.filter_cons]
        by_cases h1 : b.1 < p
        · have : b.1 < v := by omega
          simp [h1, this]; exact ihb
        · by_cases h2 : b.1 < v
          · simp [h1, h2]; omega
          · simp [h1, h2]; exact ihb
    simp only [List.filter_cons]
    by_cases hap : a.1 = p
    · have h1 : ¬ a.1 < p := by omega
      have h2 : a.1 < v := by omega
      simp [h1, h2]; omega
    · have : ∃ e ∈ as, e.1 = p := by
        obtain ⟨e, he, hep⟩ := h
        rcases List.mem_cons.mp he with rfl | he'
        · exact absurd hep hap
        · exact ⟨e, he', hep⟩
      have ih' := ih this
      by_cases h1 : a.1 < p
      · have h2 : a.1 < v := by omega
        simp [h1, h2]; omega
      · by_cases h2 : a.1 < v
        · simp [h1, h2]; omega
        · simp [h1, h2]; exact ih'

theorem key_witness (u : UF) (p : Nat) (h : (u.parentOf p).isSome = true) : ∃ e ∈ u.nodes, e.1 = p := by
  unfold UF.parentOf at h
  cases hf : u.nodes.find? (fun e => e.1 == p) with
  | none => simp [hf] at h
  | some e =>
    have hm := List.mem_of_find?_eq_some hf
    have hp := List.find?_some hf
    exact ⟨e, hm, by simpa using hp⟩

theorem cnt_lt (u : UF) (p v : Nat) (hk : (u.parentOf p).isSome = true) (hpv : p < v) : cnt u p < cnt u v :=
  filter_lt_of_witness u.nodes p v hpv (key_witness u p hk)

/-! ### `root` unfolds -/

theorem rootFuel_stable (u : UF) (hw : WF u) : ∀ (f1 f2 v : Nat), cnt u v ≤ f1 → cnt u v ≤ f2 →
    u.rootFuel f1 v = u.rootFuel f2 v := by
  intro f1
  induction f1 with
  | zero =>
    intro f2 v h1 _
    have hnp : ∀ p, u.parentOf v ≠ some (some p) := by
      intro p hp
      have := cnt_lt u p v (hw.mem v p hp) (hw.lt v p hp)
      omega
    cases f2 with
    | zero => rfl
    | succ f2 =>
      cases hp : u.parentOf v with
      | none => simp [UF.rootFuel, hp]
      | some o =>
        cases o with
        | none => simp [UF.rootFuel, hp]
        | some p => exact absurd hp (hnp p)
  | succ f1 ih =>
    intro f2 v h1 h2
    cases hp : u.parentOf v with
    | none =>
      cases f2 with
      | zero => simp [UF.rootFuel, hp]
      | succ f2 => simp [UF.rootFuel, hp]
    | some o =>
      cases o with
      | none =>
        cases f2 with
        | zero => simp [UF.rootFuel, hp]
        | succ f2 => simp [UF.rootFuel, hp]
      | some p =>
        have hc := cnt_lt u p v (hw.mem v p hp) (hw.lt v p hp)
        cases f2 with
        | zero => omega
        | succ f2 =>
          simp only [UF.rootFuel, hp]
          exact ih f2 p (by omega) (by omega)

theorem root_unfold (u : UF) (hw : WF u) (v : Nat) :
    u.root v = match u.parentOf v with
      | some (some p) => u.root p
      | _ => v := by
  unfold UF.root
  cases hp : u.parentOf v with
  | none =>
    cases hn : u.nodes.length with
    | zero => simp [UF.rootFuel]
    | succ n => simp [UF.rootFuel, hp]
  | some o =>
    cases o with
    | none =>
      cases hn : u.nodes.length with
      | zero => simp [UF.rootFuel]
      | succ n => simp [UF.rootFuel, hp]
    | some p =>
      have hc := cnt_lt u p v (hw.mem v p hp) (hw.lt v p hp)
      have hl := cnt_le u v
      cases hn : u.nodes.length with
      | zero => omega
      | succ n =>
        simp only [UF.rootFuel, hp]
        exact rootFuel_stable u hw n (n + 1) p (by omega) (by omega)

theorem root_of_parent (u : UF) (hw : WF u) {v p : Nat} (h : u.parentOf v = some (some p)) :
    u.root v = u.root p := by
  rw [root_unfold u hw v, h]

theorem root_of_root (u : UF) (hw : WF u) {v : Nat} (h : u.parentOf v = some none) : u.root v = v := by
  rw [root_unfold u hw v, h]

theorem root_of_nonkey (u : UF) (hw : WF u) {v : Nat} (h : u.parentOf v = none) : u.root v = v := by
  rw [root_unfold u hw v, h]

theorem root_le (u : UF) (hw : WF u) (v : Nat) : u.root v ≤ v := by
  induction v using Nat.strongRecOn with
  | ind v ih =>
    rw [root_unfold u hw v]
    split
    · rename_i p hp
      have := ih p (hw.lt v p hp); have := hw.lt v p hp; omega
    · exact Nat.le_refl v

/-- the root of a key is a key without parent -/
theorem root_isRoot (u : UF) (hw : WF u) (v : Nat) (hk : (u.parentOf v).isSome = true) :
    u.parentOf (u.root v) = some none := by
  induction v using Nat.strongRecOn with
  | ind v ih =>
    rw [root_unfold u hw v]
    cases hp : u.parentOf v with
    | none => simp [hp] at hk
    | some o =>
      cases o with
      | none => simpa using hp
      | some p => simpa using ih p (hw.lt v p hp) (hw.mem v p hp)

theorem root_idem (u : UF) (hw : WF u) (v : Nat) : u.root (u.root v) = u.root v := by
  cases hk : u.parentOf v with
  | none => rw [root_of_nonkey u hw hk, root_of_nonkey u hw hk]
  | some o => exact root_of_root u hw (root_isRoot u hw v (by simp [hk]))

/-! ### path compression step and linking step -/

theorem isSome_parentOf_setParent (u : UF) (x : Nat) (q : Option Nat) (w : Nat) :
    ((u.setParent x q).parentOf w).isSome = (u.parentOf w).isSome := by
  rw [parentOf_setParent]
  by_cases h : w = x
  · subst h; simp
  · simp [h]

/-- general redirect: setting the parent of `x` to a smaller key `q` keeps well-formedness -/
theorem wf_setParent (u : UF) (hw : WF u) (x q : Nat) (hq : q < x) (hqk : (u.parentOf q).isSome = true) :
    WF (u.setParent x (some q)) := by
  constructor
  · intro v p h
    rw [parentOf_setParent] at h
    by_cases hv : v = x
    · subst hv
      simp only [if_true] at h
      cases hx : u.parentOf v with
      | none => simp [hx] at h
      | some o => simp [hx] at h; omega
    · simp only [hv, if_false] at h
      exact hw.lt v p h
  · intro v p h
    rw [isSome_parentOf_setParent]
    rw [parentOf_setParent] at h
    by_cases hv : v = x
    · subst hv
      simp only [if_true] at h
      cases hx : u.parentOf v with
      | none => simp [hx] at h
      | some o => simp [hx] at h; subst h; exact hqk
    · simp only [hv, if_false] at h
      exact hw.mem v p h

/-- compression step: redirecting `x` (which has a parent) to its own root changes no root -/
theorem root_setParent_same (u : UF) (hw : WF u) (x q : Nat) (hq : q < x)
    (hqk : (u.parentOf q).isSome = true) (hxk : (u.parentOf x).isSome = true)
    (hroot : u.root q = u.root x) :
    ∀ w, (u.setParent x (some q)).root w = u.root w := by
  have hw' := wf_setParent u hw x q hq hqk
  intro w
  induction w using Nat.strongRecOn with
  | ind w ih =>
    rw [root_unfold _ hw' w, parentOf_setParent]
    by_cases hwx : w = x
    · subst hwx
      cases hx : u.parentOf w with
      | none => simp [hx] at hxk
      | some o =>
        simp only [if_true, Option.map_some]
        rw [ih q hq, hroot]
    · simp only [hwx, if_false]
      rw [root_unfold u hw w]
      cases hp : u.parentOf w with
      | none => rfl
      | some o =>
        cases o with
        | none => rfl
        | some p => exact ih p (hw.lt w p hp)

/-- linking step: `yr` (a root) gets parent `xr` (a smaller root) -/
theorem root_setParent_link (u : UF) (hw : WF u) (xr yr : Nat) (hlt : xr < yr)
    (hx : u.parentOf xr = some none) (hy : u.parentOf yr = some none) :
    WF (u.setParent yr (some xr)) ∧
    ∀ w, (u.setParent yr (some xr)).root w = if u.root w = yr then xr else u.root w := by
  have hw' := wf_setParent u hw yr xr hlt (by simp [hx])
  refine ⟨hw', ?_⟩
  intro w
  induction w using Nat.strongRecOn with
  | ind w ih =>
    rw [root_unfold _ hw' w, parentOf_setParent]
    by_cases hwy : w = yr
    · subst hwy
      simp only [if_true, hy, Option.map_some]
      rw [ih xr hlt, root_of_root u hw hx, root_of_root u hw hy]
      have : xr ≠ w := by omega
      simp [this]
    · simp only [hwy, if_false]
      rw [root_unfold u hw w]
      cases hp : u.parentOf w with
      | none => simp [hwy]
      | some o =>
        cases o with
        | none => simp [hwy]
        | some p => exact ih p (hw.lt w p hp)

/-! ### `_find_node` and `merge` -/

theorem compressFuel_spec (r : Nat) : ∀ (fuel : Nat) (u : UF) (v : Nat), WF u → u.root v = r →
    (u.parentOf v).isSome = true →
    WF (u.compressFuel r fuel v) ∧ (∀ w, (u.compressFuel r fuel v).root w = u.root w) ∧
    (∀ w, ((u.compressFuel r fuel v).parentOf w).isSome = (u.parentOf w).isSome) := by
  intro fuel
  induction fuel with
  | zero => intro u v hw _ _; exact ⟨hw, fun _ => rfl, fun _ => rfl⟩
  | succ fuel ih =>
    intro u v hw hr hk
    simp only [UF.compressFuel]
    split
    · rename_i p hp
      have hpv := hw.lt v p hp
      have hrp : u.root p = r := by rw [← root_of_parent u hw hp]; exact hr
      have hrlt : r < v := by have := root_le u hw p; omega
      have hrk : (u.parentOf r).isSome = true := by
        have := root_isRoot u hw v hk; rw [hr] at this; simp [this]
      have hrr : u.root r = u.root v := by rw [← hr]; exact root_idem u hw v
      have hw1 := wf_setParent u hw v r hrlt hrk
      have hsame := root_setParent_same u hw v r hrlt hrk hk hrr
      have hkeys := isSome_parentOf_setParent u v (some r)
      have := ih (u.setParent v (some r)) p hw1 (by rw [hsame p]; exact hrp)
        (by rw [hkeys p]; exact hw.mem v p hp)
      refine ⟨this.1, fun w => ?_, fun w => ?_⟩
      · rw [this.2.1 w, hsame w]
      · rw [this.2.2 w, hkeys w]
    · exact ⟨hw, fun _ => rfl, fun _ => rfl⟩

theorem findNode_spec (u : UF) (hw : WF u) (v : Nat) (u' : UF) (r : Nat)
    (h : u.findNode v = some (u', r)) :
    r = u.root v ∧ (u.parentOf v).isSome = true ∧ WF u' ∧ (∀ w, u'.root w = u.root w) ∧
    (∀ w, (u'.parentOf w).isSome = (u.parentOf w).isSome) := by
  unfold UF.findNode at h
  split at h
  · simp at h
  · rename_i o hp
    have hk : (u.parentOf v).isSome = true := by simp [hp]
    have h' := Option.some.inj h
    have h1 : u' = u.compressFuel (u.root v) u.nodes.length v := (congrArg Prod.fst h').symm
    have h2 : r = u.root v := (congrArg Prod.snd h').symm
    have := compressFuel_spec (u.root v) u.nodes.length u v hw rfl hk
    subst h1
    exact ⟨h2, hk, this.1, this.2.1, this.2.2⟩

theorem findNode_isSome (u : UF) (v : Nat) (hk : (u.parentOf v).isSome = true) :
    ∃ u' r, u.findNode v = some (u', r) := by
  unfold UF.findNode
  cases hp : u.parentOf v with
  | none => simp [hp] at hk
  | some o => exact ⟨_, _, rfl⟩

/-- `merge x y`: the class whose root is the larger of the two roots is redirected to the smaller root -/
theorem merge_spec (u : UF) (hw : WF u) (x y : Nat) (u' : UF) (h : u.merge x y = some u') :
    x ≠ y ∧ (u.parentOf x).isSome = true ∧ (u.parentOf y).isSome = true ∧ WF u' ∧
    (∀ w, (u'.parentOf w).isSome = (u.parentOf w).isSome) ∧
    (∀ w, u'.root w = if u.root w = max (u.root x) (u.root y) then min (u.root x) (u.root y) else u.root w) := by
  unfold UF.merge at h
  by_cases hxy : x = y
  · simp [hxy] at h
  · simp only [hxy, if_false] at h
    cases h1 : u.findNode x with
    | none => simp [h1] at h
    | some r1 =>
      obtain ⟨u1, xr⟩ := r1
      simp only [h1] at h
      obtain ⟨hxr, hxk, hw1, hroot1, hkeys1⟩ := findNode_spec u hw x u1 xr h1
      cases h2 : u1.findNode y with
      | none => simp [h2] at h
      | some r2 =>
        obtain ⟨u2, yr⟩ := r2
        simp only [h2] at h
        obtain ⟨hyr, hyk, hw2, hroot2, hkeys2⟩ := findNode_spec u1 hw1 y u2 yr h2
        have hyr' : yr = u.root y := by rw [hyr, hroot1]
        have hyk' : (u.parentOf y).isSome = true := by rw [← hkeys1]; exact hyk
        have hroot : ∀ w, u2.root w = u.root w := fun w => by rw [hroot2, hroot1]
        have hkeys : ∀ w, (u2.parentOf w).isSome = (u.parentOf w).isSome := fun w => by rw [hkeys2, hkeys1]
        have hxroot : u2.parentOf xr = some none := by
          have hk2 : (u2.parentOf x).isSome = true := by rw [hkeys]; exact hxk
          have := root_isRoot u2 hw2 x hk2
          rw [hroot x, ← hxr] at this; exact this
        have hyroot : u2.parentOf yr = some none := by
          have hk2 : (u2.parentOf y).isSome = true := by rw [hkeys]; exact hyk'
          have := root_isRoot u2 hw2 y hk2
          rw [hroot y, ← hyr'] at this; exact this
        refine ⟨hxy, hxk, hyk', ?_⟩
        rw [← hxr, ← hyr']
        by_cases heq : xr = yr
        · simp only [heq, if_true] at h
          have hu : u' = u2 := (Option.some.inj h).symm
          subst hu
          refine ⟨hw2, hkeys, fun w => ?_⟩
          rw [hroot w]; subst heq
          simp only [Nat.max_self, Nat.min_self]
          split
          · rename_i h; exact h
          · rfl
        · simp only [heq, if_false] at h
          by_cases hlt : xr < yr
          · simp only [hlt, if_true] at h
            have hu : u' = u2.setParent yr (some xr) := (Option.some.inj h).symm
            subst hu
            obtain ⟨hw3, hr3⟩ := root_setParent_link u2 hw2 xr yr hlt hxroot hyroot
            refine ⟨hw3, fun w => by rw [isSome_parentOf_setParent, hkeys], fun w => ?_⟩
            rw [hr3 w, hroot w]
            have h1 : max xr yr = yr := by omega
            have h2 : min xr yr = xr := by omega
            rw [h1, h2]
          · simp only [hlt, if_false] at h
            have hu : u' = u2.setParent xr (some yr) := (Option.some.inj h).symm
            subst hu
            have hlt' : yr < xr := by omega
            obtain ⟨hw3, hr3⟩ := root_setParent_link u2 hw2 yr xr hlt' hyroot hxroot
            refine ⟨hw3, fun w => by rw [isSome_parentOf_setParent, hkeys], fun w => ?_⟩
            rw [hr3 w, hroot w]
            have h1 : max xr yr = xr := by omega
            have h2 : min xr yr = yr := by omega
            rw [h1, h2]

theorem merge_isSome (u : UF) (hw : WF u) (x y : Nat) (hxy : x ≠ y)
    (hx : (u.parentOf x).isSome = true) (hy : (u.parentOf y).isSome = true) :
    ∃ u', u.merge x y = some u' := by
  unfold UF.merge
  simp only [hxy, if_false]
  obtain ⟨u1, xr, h1⟩ := findNode_isSome u x hx
  obtain ⟨_, _, _, _, hkeys1⟩ := findNode_spec u hw x u1 xr h1
  obtain ⟨u2, yr, h2⟩ := findNode_isSome u1 y (by rw [hkeys1]; exact hy)
  simp only [h1, h2]
  by_cases heq : xr = yr
  · exact ⟨u2, by simp [heq]⟩
  · by_cases hlt : xr < yr
    · exact ⟨u2.setParent yr (some xr), by simp [heq, hlt]⟩
    · exact ⟨u2.setParent xr (some yr), by simp [heq, hlt]⟩

/-! ### `init` -/

theorem parentOf_init (values : List Nat) (v : Nat) :
    (UF.init values).parentOf v = if v ∈ values then some none else none := by
  unfold UF.init UF.parentOf
  simp only [List.find?_map]
  by_cases h : v ∈ values
  · have h' : v ∈ values.eraseDups := List.mem_eraseDups.mpr h
    simp only [h, if_true]
    cases hf : values.eraseDups.find? ((fun p : Nat × Option Nat => p.1 == v) ∘ fun v => (v, none)) with
    | none =>
      have := List.find?_eq_none.mp hf v h'
      simp at this
    | some a => simp
  · have h' : v ∉ values.eraseDups := fun hm => h (List.mem_eraseDups.mp hm)
    simp only [h, if_false]
    cases hf : values.eraseDups.find? ((fun p : Nat × Option Nat => p.1 == v) ∘ fun v => (v, none)) with
    | none => simp
    | some a =>
      have hm := List.mem_of_find?_eq_some hf
      have hp := List.find?_some hf
      simp at hp
      subst hp
      exact absurd hm h'

theorem wf_init (values : List Nat) : WF (UF.init values) := by
  constructor <;> intro v p h <;> rw [parentOf_init] at h <;> split at h <;> simp at h

theorem root_init (values : List Nat) (v : Nat) : (UF.init values).root v = v := by
  rw [root_unfold _ (wf_init values) v, parentOf_init]
  split <;> rename_i h
  · split at h <;> simp at h
  · rfl

end WhVerif.C03.UFL

import WhVerif.Spec.C06
/-! Lemmas on the Levenshtein spec: the row DP computes it; `lev s t = 0 ↔ s = t`. -/
namespace WhVerif.C06

variable {α : Type} [BEq α]

theorem lev_nil_right (s : List α) : lev s [] = s.length := by
  cases s <;> simp [lev]

/-- all suffixes, longest first -/
def sufs : List α → List (List α)
  | [] => [[]]
  | b :: t => (b :: t) :: sufs t

omit [BEq α] in
theorem sufs_map_headD (f : List α → Nat) (t : List α) : ((sufs t).map f).headD 0 = f t := by
  cases t <;> simp [sufs]

theorem levRow0_eq (t : List α) : levRow0 t = (sufs t).map (lev []) := by
  induction t with
  | nil => simp [levRow0, sufs, lev]
  | cons b t ih => simp [levRow0, sufs, lev, ih]

theorem levRow_eq (a : α) (s t : List α) :
    levRow a t ((sufs t).map (lev s)) = (sufs t).map (lev (a :: s)) := by
  induction t with
  | nil => simp [levRow, sufs, lev_nil_right]
  | cons b t ih =>
    simp only [sufs, List.map_cons, levRow, List.tail_cons, List.headD_cons, ih, sufs_map_headD]
    simp [lev]

theorem levRows_eq (s t : List α) : levRows s t = (sufs t).map (lev s) := by
  induction s with
  | nil => simp [levRows, levRow0_eq]
  | cons a s ih => simp [levRows, ih, levRow_eq]

/-- the executable row DP is the textbook recursion -/
theorem levFast_eq_lev (s t : List α) : levFast s t = lev s t := by
  rw [levFast, levRows_eq]; exact sufs_map_headD _ _

theorem lev_self [LawfulBEq α] (s : List α) : lev s s = 0 := by
  induction s with
  | nil => simp [lev]
  | cons a s ih => simp [lev, ih]

theorem eq_of_lev_eq_zero [LawfulBEq α] (s t : List α) (h : lev s t = 0) : s = t := by
  induction s generalizing t with
  | nil => cases t with
    | nil => rfl
    | cons b t => simp [lev] at h
  | cons a s ih => cases t with
    | nil => simp [lev] at h
    | cons b t =>
      simp only [lev] at h
      have h3 : lev s t + (if (a == b) = true then 0 else 1) = 0 := by omega
      by_cases hab : (a == b) = true
      · have : lev s t = 0 := by simpa [hab] using h3
        rw [ih t this, eq_of_beq hab]
      · simp [hab] at h3

theorem lev_pos_of_ne [LawfulBEq α] (s t : List α) (h : s ≠ t) : 0 < lev s t := by
  rcases Nat.eq_zero_or_pos (lev s t) with h0 | h0
  · exact absurd (eq_of_lev_eq_zero s t h0) h
  · exact h0

end WhVerif.C06

import WhVerif.Lemmas.C05PipelineMain
import WhVerif.Lemmas.C02PipelineConn
/-!
# C05 pipeline, part 4: the decoded child call of the written VCF is Mendelian and ordered paternal|maternal
-/
namespace WhVerif.C05P
open WhVerif.C01 WhVerif.C04 WhVerif.C05.Solver
open WhVerif.C02P (posAt srOf target biallelic posAt_inj)

theorem trusted_some {I : Inst} (h : Trusted I) {ind c : Nat} (hi : ind < I.nind) (hc : c < I.ncols) :
    ∃ g, trustedGeno I ind c = some g := Option.isSome_iff_exists.mp (h ind hi c hc)

theorem getElem?_pair_sel {x y : Nat} {s : Nat} (hs : s = 0 ∨ s = 1) :
    [some x, some y][s]? = some (some (if s = 0 then x else y)) := by
  rcases hs with rfl | rfl <;> rfl

theorem selHap_cases (t i : Nat) : selHap t i = 0 ∨ selHap t i = 1 := by unfold selHap; split <;> simp

theorem reported_sel (L : List (Nat × Nat)) (ind s : Nat) :
    reported L ind s = if s = 0 then (L.getD ind (0, 0)).1 else (L.getD ind (0, 0)).2 := rfl

/-- what a decoded phase of family member `ind` says: it is the tie-free heterozygous super-read entry of the column
at that position, in the component of that position -/
theorem member_phase (S : Stage) (hin : PedPipelineOk S) (β : List Bool) (τ : List Nat) (comps : List (Nat × Nat))
    (ind : Nat) (hind : ind < S.I.nind) (p : Nat) (ph : C09.Phase)
    (h : expPhase (cfg S ((List.range S.I.nind).map (memberTarget S β τ comps))) p (S.names.getD ind "") = some ph) :
    ∃ c m, c < S.I.ncols ∧ p = posAt S.pos c ∧ (colEntry S.I β τ c ind).1 ≤ 1 ∧ (colEntry S.I β τ c ind).2 ≤ 1 ∧
      (colEntry S.I β τ c ind).1 ≠ (colEntry S.I β τ c ind).2 ∧ alookup comps p = some m ∧
      ph = ⟨some ((m : Int) + 1), [some (colEntry S.I β τ c ind).1, some (colEntry S.I β τ c ind).2]⟩ := by
  unfold expPhase at h
  rw [findTarget_member S hin β τ comps ind hind] at h
  obtain ⟨c, m, hc, rest⟩ := written_srOf_some h
  exact ⟨c, m, by rw [← hin.pos_len]; exact hc, rest⟩

/-- **end to end** (see `Props/C05.lean: pedigree_vcf_mendelian` for the reading) -/
theorem ped_vcf_mendelian (S : Stage) (hwf : WF S.I) (hok : PedOK S.I) (htrust : Trusted S.I)
    (hin : PedPipelineOk S) (β : List Bool) (τ : List Nat) (hw : witness S.I = some (β, τ))
    (comps : List (Nat × Nat)) (hcomps : components S = .ok comps)
    (k f m ch : Nat) (htr : S.I.trios[k]? = some (f, m, ch)) :
    ∃ rows, pipeline S = some rows ∧
      rows.map (·.pos) = (S.records.filter biallelic).map (·.pos) ∧
      ∀ row ∈ rows, ∀ j ph, S.header[j]? = some (S.names.getD ch "") → samplePhase row j = some ph →
        ∃ c a b gf gm gc, c < S.I.ncols ∧ row.pos = posAt S.pos c ∧
          ph.alleles = [some a, some b] ∧ (a, b) = colEntry S.I β τ c ch ∧ a ≤ 1 ∧ b ≤ 1 ∧ a ≠ b ∧
          trustedGeno S.I f c = some gf ∧ trustedGeno S.I m c = some gm ∧ trustedGeno S.I ch c = some gc ∧
          a ∈ genoAlleles gf ∧ b ∈ genoAlleles gm ∧ a + b = gc ∧
          (∀ jf phf, S.header[jf]? = some (S.names.getD f "") → samplePhase row jf = some phf →
            phf.block = ph.block ∧ phf.alleles[selHap (τ.getD c 0) (2 * k)]? = some (some a)) ∧
          (∀ jm phm, S.header[jm]? = some (S.names.getD m "") → samplePhase row jm = some phm →
            phm.block = ph.block ∧ phm.alleles[selHap (τ.getD c 0) (2 * k + 1)]? = some (some b)) := by
  obtain ⟨rows, hpipe, _, hrows⟩ := ped_stage_rows S hwf hin β τ hw comps hcomps
  have hmem := hok.members _ (List.mem_of_getElem? htr)
  simp only at hmem
  obtain ⟨hfi, hmi, hci⟩ := hmem
  refine ⟨rows, hpipe, ?_, ?_⟩
  · have := congrArg (List.map Prod.fst) hrows
    rw [List.map_map, List.map_map] at this
    exact this
  intro row hrow j ph hj hph
  obtain ⟨_, hexp⟩ := row_expPhase hrows hrow
  rw [hexp j _ hj] at hph
  obtain ⟨c, mc, hc, hp, ha, hb, hab, hcomp, hphe⟩ := member_phase S hin β τ comps ch hci row.pos ph hph
  obtain ⟨gf, hgf⟩ := trusted_some htrust hfi hc
  obtain ⟨gm, hgm⟩ := trusted_some htrust hmi hc
  obtain ⟨gc, hgc⟩ := trusted_some htrust hci hc
  obtain ⟨L, hL, _, h0, h1, hsum⟩ := column_mendelian S.I hwf hok β τ hw k f m ch htr c hc gf gm gc hgf hgm hgc
  have hent : ∀ ind, colEntry S.I β τ c ind = L.getD ind (0, 0) := by
    intro ind; unfold colEntry; rw [hL]; rfl
  rw [reported_zero] at h0 hsum
  rw [reported_one] at h1 hsum
  rw [← hent ch] at h0 h1 hsum
  obtain ⟨_, hinF, htF⟩ := h0 (by omega)
  obtain ⟨_, hinM, htM⟩ := h1 (by omega)
  -- a parent's decoded phase at the same row is its entry of the same column, in the same component
  have parent : ∀ (par s : Nat), par < S.I.nind → (s = 0 ∨ s = 1) → ∀ jp php,
      S.header[jp]? = some (S.names.getD par "") → samplePhase row jp = some php →
      php.block = ph.block ∧ reported L par s ≤ 1 ∧ php.alleles[s]? = some (some (reported L par s)) := by
    intro par s hpar hs jp php hjp hphp
    rw [hexp jp _ hjp] at hphp
    obtain ⟨c', mc', hc', hp', ha', hb', _, hcomp', hphe'⟩ :=
      member_phase S hin β τ comps par hpar row.pos php hphp
    have hcc : c' = c := posAt_inj hin.pos_inc (by rw [hin.pos_len]; exact hc') (by rw [hin.pos_len]; exact hc)
      (by rw [← hp', ← hp])
    subst hcc
    rw [hcomp] at hcomp'
    cases hcomp'
    rw [hphe', hphe]
    rw [hent par] at ha' hb' ⊢
    refine ⟨rfl, ?_, ?_⟩
    · rw [reported_sel]; split <;> assumption
    · rw [getElem?_pair_sel hs, reported_sel]
  refine ⟨c, (colEntry S.I β τ c ch).1, (colEntry S.I β τ c ch).2, gf, gm, gc, hc, hp, ?_, rfl, ha, hb, hab,
    hgf, hgm, hgc, hinF, hinM, hsum (by omega) (by omega), ?_, ?_⟩
  · rw [hphe]
  · intro jf phf hjf hphf
    obtain ⟨e1, e2, e3⟩ := parent f _ hfi (selHap_cases (τ.getD c 0) (2 * k)) jf phf hjf hphf
    exact ⟨e1, by rw [e3, htF (by omega)]⟩
  · intro jm phm hjm hphm
    obtain ⟨e1, e2, e3⟩ := parent m _ hmi (selHap_cases (τ.getD c 0) (2 * k + 1)) jm phm hjm hphm
    exact ⟨e1, by rw [e3, htM (by omega)]⟩

/-- **completeness**: a column in which a family member's super-read entry is a tie-free heterozygous pair and whose
position has a component is phased in the written file, with exactly that pair, for every biallelic record there -/
theorem ped_vcf_phased (S : Stage) (hwf : WF S.I) (hin : PedPipelineOk S) (β : List Bool) (τ : List Nat)
    (hw : witness S.I = some (β, τ)) (comps : List (Nat × Nat)) (hcomps : components S = .ok comps)
    (ind : Nat) (hind : ind < S.I.nind) (c : Nat) (hc : c < S.I.ncols)
    (hent : colEntry S.I β τ c ind = (0, 1) ∨ colEntry S.I β τ c ind = (1, 0))
    (mc : Nat) (hmc : C03.compOf comps (posAt S.pos c) = some mc) :
    ∃ rows, pipeline S = some rows ∧
      ∀ row ∈ rows, row.pos = posAt S.pos c → ∀ j, S.header[j]? = some (S.names.getD ind "") →
        samplePhase row j =
          some ⟨some ((mc : Int) + 1), [some (colEntry S.I β τ c ind).1, some (colEntry S.I β τ c ind).2]⟩ := by
  obtain ⟨rows, hpipe, _, hrows⟩ := ped_stage_rows S hwf hin β τ hw comps hcomps
  refine ⟨rows, hpipe, ?_⟩
  intro row hrow hpos j hj
  obtain ⟨_, hexp⟩ := row_expPhase hrows hrow
  rw [hexp j _ hj, hpos]
  unfold expPhase
  rw [findTarget_member S hin β τ comps ind hind]
  exact C02P.written_het _ hin.pos_inc (fun c => colEntry S.I β τ c ind) comps (by rw [hin.pos_len]; exact hc)
    hent hmc

end WhVerif.C05P

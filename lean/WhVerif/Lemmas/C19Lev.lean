import WhVerif.Spec.C19
/-!
# Levenshtein distance: the facts the DP proofs need

`Ali s t c` = "there is an alignment (edit script) of `s` and `t` of cost `c`"; `lev` is the least such
cost (`lev_ali`, `ali_ge`).  From that: invariance under reversal (so the head recursion of the spec and
the prefix recursion of the DP agree), symmetry, 1-Lipschitz bounds, `|m-n| ≤ lev ≤ max m n`,
trimming of equal ends, `lev = 0 ↔ equal`.
-/
namespace WhVerif.C19.Spec
variable {α : Type} [DecidableEq α]

@[simp] theorem lev_nil_left (t : List α) : lev [] t = t.length := by
  unfold lev; rfl

@[simp] theorem lev_nil_right (s : List α) : lev s [] = s.length := by
  cases s <;> simp [lev]

theorem lev_cons_cons (a b : α) (s t : List α) :
    lev (a :: s) (b :: t) =
      min (lev s t + (if a = b then 0 else 1)) (min (lev s (b :: t) + 1) (lev (a :: s) t + 1)) := by
  rw [lev]

inductive Ali : List α → List α → Nat → Prop
  | nil : Ali [] [] 0
  | del (a : α) {s t : List α} {c : Nat} : Ali s t c → Ali (a :: s) t (c + 1)
  | ins (b : α) {s t : List α} {c : Nat} : Ali s t c → Ali s (b :: t) (c + 1)
  | sub (a b : α) {s t : List α} {c : Nat} : Ali s t c → Ali (a :: s) (b :: t) (c + (if a = b then 0 else 1))

theorem ali_nil_left (t : List α) : Ali [] t t.length := by
  induction t with
  | nil => exact .nil
  | cons b t ih => exact .ins b ih

theorem ali_nil_right (s : List α) : Ali s [] s.length := by
  induction s with
  | nil => exact .nil
  | cons a s ih => exact .del a ih

theorem lev_ali (s t : List α) : Ali s t (lev s t) := by
  induction s generalizing t with
  | nil => simpa using ali_nil_left t
  | cons a s ihs =>
    induction t with
    | nil => simpa using ali_nil_right (a :: s)
    | cons b t iht =>
      rw [lev_cons_cons]
      have h1 := Ali.sub a b (ihs t)
      have h2 := Ali.del a (ihs (b :: t))
      have h3 := Ali.ins b iht
      by_cases c1 : lev s t + (if a = b then 0 else 1) ≤ min (lev s (b :: t) + 1) (lev (a :: s) t + 1)
      · rw [Nat.min_eq_left c1]; exact h1
      · rw [Nat.min_eq_right (by omega)]
        by_cases c2 : lev s (b :: t) + 1 ≤ lev (a :: s) t + 1
        · rw [Nat.min_eq_left c2]; exact h2
        · rw [Nat.min_eq_right (by omega)]; exact h3

theorem lev_del_le (a : α) (s t : List α) : lev (a :: s) t ≤ lev s t + 1 := by
  cases t with
  | nil => simp
  | cons b t => rw [lev_cons_cons]; omega

theorem lev_ins_le (b : α) (s t : List α) : lev s (b :: t) ≤ lev s t + 1 := by
  cases s with
  | nil => simp
  | cons a s => rw [lev_cons_cons]; omega

theorem lev_sub_le (a b : α) (s t : List α) : lev (a :: s) (b :: t) ≤ lev s t + (if a = b then 0 else 1) := by
  rw [lev_cons_cons]; omega

theorem ali_ge {s t : List α} {c : Nat} (h : Ali s t c) : lev s t ≤ c := by
  induction h with
  | nil => simp
  | del a _ ih => exact Nat.le_trans (lev_del_le a _ _) (by omega)
  | ins b _ ih => exact Nat.le_trans (lev_ins_le b _ _) (by omega)
  | sub a b _ ih => exact Nat.le_trans (lev_sub_le a b _ _) (by omega)

theorem ali_append {s t s' t' : List α} {c c' : Nat} (h : Ali s t c) (h' : Ali s' t' c') :
    Ali (s ++ s') (t ++ t') (c + c') := by
  induction h with
  | nil => simpa using h'
  | del a _ ih => rw [Nat.add_right_comm]; exact .del a ih
  | ins b _ ih => rw [Nat.add_right_comm]; exact .ins b ih
  | sub a b _ ih => rw [Nat.add_right_comm]; exact .sub a b ih

theorem ali_reverse {s t : List α} {c : Nat} (h : Ali s t c) : Ali s.reverse t.reverse c := by
  induction h with
  | nil => exact .nil
  | del a _ ih =>
    have := ali_append ih (Ali.del a Ali.nil)
    simpa using this
  | ins b _ ih =>
    have := ali_append ih (Ali.ins b Ali.nil)
    simpa using this
  | sub a b _ ih =>
    have := ali_append ih (Ali.sub a b Ali.nil)
    simpa using this

theorem lev_reverse (s t : List α) : lev s.reverse t.reverse = lev s t := by
  apply Nat.le_antisymm
  · exact ali_ge (ali_reverse (lev_ali s t))
  · have := ali_ge (ali_reverse (lev_ali s.reverse t.reverse))
    simpa using this

theorem ali_symm {s t : List α} {c : Nat} (h : Ali s t c) : Ali t s c := by
  induction h with
  | nil => exact .nil
  | del a _ ih => exact .ins a ih
  | ins b _ ih => exact .del b ih
  | sub a b _ ih =>
    have := Ali.sub b a ih
    by_cases hab : a = b
    · subst hab; exact this
    · have hba : ¬ b = a := fun h => hab h.symm
      simpa [hab, hba] using this

theorem lev_symm (s t : List α) : lev s t = lev t s :=
  Nat.le_antisymm (ali_ge (ali_symm (lev_ali t s))) (ali_ge (ali_symm (lev_ali s t)))

/-- the recursion on the *last* elements: what the row DP computes -/
theorem lev_snoc_snoc (a b : α) (s t : List α) :
    lev (s ++ [a]) (t ++ [b]) =
      min (lev s t + (if a = b then 0 else 1)) (min (lev s (t ++ [b]) + 1) (lev (s ++ [a]) t + 1)) := by
  have h1 : lev (s ++ [a]) (t ++ [b]) = lev (a :: s.reverse) (b :: t.reverse) := by
    rw [← lev_reverse]; simp
  have h2 : lev s (t ++ [b]) = lev s.reverse (b :: t.reverse) := by
    rw [← lev_reverse]; simp
  have h3 : lev (s ++ [a]) t = lev (a :: s.reverse) t.reverse := by
    rw [← lev_reverse]; simp
  rw [h1, h2, h3, lev_cons_cons, lev_reverse]

theorem ali_uncons {s0 t : List α} {c : Nat} (h : Ali s0 t c) :
    ∀ (a : α) (s : List α), s0 = a :: s → ∃ c', c' ≤ c + 1 ∧ Ali s t c' := by
  induction h with
  | nil => intro a s h; cases h
  | del a' h ih =>
    intro a s hs; cases hs
    exact ⟨_, by omega, h⟩
  | ins b h ih =>
    intro a s hs
    obtain ⟨c', hc, hA⟩ := ih a s hs
    exact ⟨c' + 1, by omega, .ins b hA⟩
  | sub a' b h ih =>
    intro a s hs; cases hs
    exact ⟨_, by omega, .ins b h⟩

/-- dropping a character changes the distance by at most one -/
theorem lev_le_cons_left (a : α) (s t : List α) : lev s t ≤ lev (a :: s) t + 1 := by
  obtain ⟨c', hc, hA⟩ := ali_uncons (lev_ali (a :: s) t) a s rfl
  exact Nat.le_trans (ali_ge hA) hc

theorem lev_le_cons_right (b : α) (s t : List α) : lev s t ≤ lev s (b :: t) + 1 := by
  rw [lev_symm s t, lev_symm s (b :: t)]; exact lev_le_cons_left b t s

theorem lev_cons_same (a : α) (s t : List α) : lev (a :: s) (a :: t) = lev s t := by
  rw [lev_cons_cons]
  have h1 := lev_le_cons_left a s t
  have h2 := lev_le_cons_right a s t
  simp only [if_true]
  omega

theorem lev_snoc_same (a : α) (s t : List α) : lev (s ++ [a]) (t ++ [a]) = lev s t := by
  rw [← lev_reverse]; simp only [List.reverse_append, List.reverse_cons, List.reverse_nil, List.nil_append,
    List.singleton_append]
  rw [lev_cons_same, lev_reverse]

theorem ali_len {s t : List α} {c : Nat} (h : Ali s t c) :
    s.length ≤ c + t.length ∧ t.length ≤ c + s.length := by
  induction h with
  | nil => simp
  | del a _ ih => simp only [List.length_cons]; omega
  | ins b _ ih => simp only [List.length_cons]; omega
  | sub a b _ ih => simp only [List.length_cons]; omega

theorem lev_ge_left (s t : List α) : s.length ≤ lev s t + t.length := (ali_len (lev_ali s t)).1
theorem lev_ge_right (s t : List α) : t.length ≤ lev s t + s.length := (ali_len (lev_ali s t)).2

theorem lev_le_max (s t : List α) : lev s t ≤ max s.length t.length := by
  induction s generalizing t with
  | nil => simp
  | cons a s ih =>
    cases t with
    | nil => simp
    | cons b t =>
      have := lev_sub_le a b s t
      have := ih t
      simp only [List.length_cons]
      split at * <;> omega

theorem ali_zero {s t : List α} {c : Nat} (h : Ali s t c) : c = 0 → s = t := by
  induction h with
  | nil => intro _; rfl
  | del a _ ih => intro h; omega
  | ins b _ ih => intro h; omega
  | sub a b _ ih =>
    intro h
    by_cases hab : a = b
    · subst hab; simp at h; rw [ih h]
    · simp [hab] at h

theorem lev_self (s : List α) : lev s s = 0 := by
  induction s with
  | nil => simp
  | cons a s ih => rw [lev_cons_same, ih]

theorem lev_eq_zero_iff' (s t : List α) : lev s t = 0 ↔ s = t :=
  ⟨fun h => ali_zero (lev_ali s t) h, fun h => h ▸ lev_self s⟩

end WhVerif.C19.Spec

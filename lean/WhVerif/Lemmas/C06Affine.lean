import WhVerif.Model.C06Affine
/-!
Lemmas on the affine-gap edit distance.

1. `T gs ge u v` — the three DP values for the strings whose reverses are `u`, `v`, by the Gotoh recurrences with the
   code's border values — is what the column-by-column loops compute (`dpCols_eq`, `affineDP_eq_T`).
2. `T` against the enumeration `alisR` of all alignments: every alignment ending in a column of kind `c` costs at least
   `(T u v).at c` (`T_le_cost`), and every finite `(T u v).at c` is the cost of such an alignment (`T_attained`).
3. cost 0 ⇔ equal strings; the prefix/suffix shortcut keeps equality.
-/
namespace WhVerif.C06

/-! ## cost algebra -/

@[simp] theorem cadd_none (k : Nat) : cadd none k = none := rfl
@[simp] theorem cadd_some (x k : Nat) : cadd (some x) k = some (x + k) := rfl
@[simp] theorem cmin_none_left (b : Cost) : cmin none b = b := by cases b <;> rfl
@[simp] theorem cmin_none_right (a : Cost) : cmin a none = a := by cases a <;> rfl
@[simp] theorem cmin_some_some (x y : Nat) : cmin (some x) (some y) = some (min x y) := rfl

theorem cmin_le_left {a : Cost} {t : Nat} (b : Cost) (h : a = some t) : ∃ s, cmin a b = some s ∧ s ≤ t := by
  subst h; cases b with
  | none => exact ⟨t, by simp, Nat.le_refl _⟩
  | some y => exact ⟨min t y, by simp, Nat.min_le_left _ _⟩

theorem cmin_le_right {b : Cost} {t : Nat} (a : Cost) (h : b = some t) : ∃ s, cmin a b = some s ∧ s ≤ t := by
  subst h; cases a with
  | none => exact ⟨t, by simp, Nat.le_refl _⟩
  | some x => exact ⟨min x t, by simp, Nat.min_le_right _ _⟩

theorem cmin_some {a b : Cost} {t : Nat} (h : cmin a b = some t) :
    (a = some t ∧ ∀ s, b = some s → t ≤ s) ∨ (b = some t ∧ ∀ s, a = some s → t ≤ s) := by
  cases a with
  | none => right; simp at h; exact ⟨h, by intro s hs; cases hs⟩
  | some x => cases b with
    | none => left; simp at h; exact ⟨by rw [h], by intro s hs; cases hs⟩
    | some y =>
      simp only [cmin_some_some, Option.some.injEq] at h
      by_cases hxy : x ≤ y
      · left; refine ⟨by rw [← h, Nat.min_eq_left hxy], ?_⟩
        intro s hs; cases hs; omega
      · right; refine ⟨by rw [← h, Nat.min_eq_right (by omega)], ?_⟩
        intro s hs; cases hs; omega

theorem cmin3_le_1 {a : Cost} {t : Nat} (b c : Cost) (h : a = some t) : ∃ s, cmin3 a b c = some s ∧ s ≤ t :=
  cmin_le_left _ h

theorem cmin3_le_2 {b : Cost} {t : Nat} (a c : Cost) (h : b = some t) : ∃ s, cmin3 a b c = some s ∧ s ≤ t := by
  obtain ⟨s, hs, hle⟩ := cmin_le_left c h
  obtain ⟨s', hs', hle'⟩ := cmin_le_right a hs
  exact ⟨s', hs', Nat.le_trans hle' hle⟩

theorem cmin3_le_3 {c : Cost} {t : Nat} (a b : Cost) (h : c = some t) : ∃ s, cmin3 a b c = some s ∧ s ≤ t := by
  obtain ⟨s, hs, hle⟩ := cmin_le_right b h
  obtain ⟨s', hs', hle'⟩ := cmin_le_right a hs
  exact ⟨s', hs', Nat.le_trans hle' hle⟩

theorem cmin3_some {a b c : Cost} {t : Nat} (h : cmin3 a b c = some t) : a = some t ∨ b = some t ∨ c = some t := by
  rcases cmin_some h with ⟨h1, _⟩ | ⟨h1, _⟩
  · exact Or.inl h1
  · rcases cmin_some h1 with ⟨h2, _⟩ | ⟨h2, _⟩
    · exact Or.inr (Or.inl h2)
    · exact Or.inr (Or.inr h2)

theorem cadd_eq_some {a : Cost} {k t : Nat} (h : cadd a k = some t) : ∃ s, a = some s ∧ t = s + k := by
  cases a with
  | none => simp at h
  | some s => simp at h; exact ⟨s, rfl, h.symm⟩

def Cell.at (x : Cell) : Col → Cost
  | .sub => x.a
  | .ins => x.b
  | .del => x.c

theorem best_le_at {x : Cell} {c : Col} {t : Nat} (h : x.at c = some t) : ∃ s, x.best = some s ∧ s ≤ t := by
  cases c with
  | sub => exact cmin3_le_1 _ _ h
  | ins => exact cmin3_le_2 _ _ h
  | del => exact cmin3_le_3 _ _ h

theorem best_some {x : Cell} {t : Nat} (h : x.best = some t) : ∃ c, x.at c = some t := by
  rcases cmin3_some h with h | h | h
  · exact ⟨.sub, h⟩
  · exact ⟨.ins, h⟩
  · exact ⟨.del, h⟩

theorem gapCost_succ (gs ge l : Nat) (hl : 1 ≤ l) : gapCost gs ge (l + 1) = gapCost gs ge l + ge := by
  unfold gapCost
  have : l + 1 - 1 = (l - 1) + 1 := by omega
  rw [this, Nat.add_mul]; omega

@[simp] theorem gapCost_one (gs ge : Nat) : gapCost gs ge 1 = gs := by simp [gapCost]

/-! ## the recurrences -/

/-- the three table entries for the query prefix whose reverse is `u` and the prefix of the other sequence whose
reverse is `v` -/
def T (gs ge : Nat) : QSeq → List Char → Cell
  | [], [] => ⟨some 0, some 0, some 0⟩
  | _ :: u, [] => ⟨none, some (gapCost gs ge (u.length + 1)), none⟩
  | [], _ :: v => ⟨none, none, some (gapCost gs ge (v.length + 1))⟩
  | x :: u, y :: v =>
    ⟨cadd (T gs ge u v).best (if x.1 == y then 0 else x.2),
     cmin3 (cadd (T gs ge u (y :: v)).a gs) (cadd (T gs ge u (y :: v)).b ge) (cadd (T gs ge u (y :: v)).c gs),
     cmin3 (cadd (T gs ge (x :: u) v).a gs) (cadd (T gs ge (x :: u) v).b gs) (cadd (T gs ge (x :: u) v).c ge)⟩
termination_by u v => u.length + v.length

/-- one column of the tables: rows `|ur|, |ur|+1, …` for the query split as `ur.reverse ++ rest` -/
def colOf (gs ge : Nat) (vr : List Char) : QSeq → QSeq → List Cell
  | ur, [] => [T gs ge ur vr]
  | ur, p :: rest => T gs ge ur vr :: colOf gs ge vr (p :: ur) rest

theorem colOf_eq_cons (gs ge : Nat) (vr : List Char) (ur rest : QSeq) :
    colOf gs ge vr ur rest = T gs ge ur vr :: (colOf gs ge vr ur rest).tail := by
  cases rest <;> simp [colOf]

theorem colOf_nil_eq (gs ge : Nat) (ur rest : QSeq) (hur : ur ≠ [] ∨ True) :
    (colOf gs ge [] ur rest).tail = initGo gs ge (ur.length + 1) rest := by
  induction rest generalizing ur with
  | nil => simp [colOf, initGo]
  | cons p rest ih =>
    simp only [colOf, List.tail_cons, initGo]
    rw [colOf_eq_cons, ih (p :: ur) (Or.inr trivial)]
    simp [T]

theorem initCol_eq (gs ge : Nat) (q : QSeq) : initCol gs ge q = colOf gs ge [] [] q := by
  rw [colOf_eq_cons, colOf_nil_eq gs ge [] q (Or.inr trivial)]
  simp [initCol, T]

theorem colGo_eq (gs ge : Nat) (y : Char) (vr : List Char) (ur rest : QSeq) :
    colGo gs ge y rest (T gs ge ur vr) (T gs ge ur (y :: vr)) (colOf gs ge vr ur rest).tail
      = (colOf gs ge (y :: vr) ur rest).tail := by
  induction rest generalizing ur with
  | nil => simp [colOf, colGo]
  | cons p rest ih =>
    simp only [colOf, List.tail_cons]
    rw [colOf_eq_cons gs ge vr (p :: ur) rest, colOf_eq_cons gs ge (y :: vr) (p :: ur) rest]
    simp only [colGo]
    have hcell : (⟨cadd (T gs ge ur vr).best (if (p.1 == y) = true then 0 else p.2),
        cmin3 (cadd (T gs ge ur (y :: vr)).a gs) (cadd (T gs ge ur (y :: vr)).b ge) (cadd (T gs ge ur (y :: vr)).c gs),
        cmin3 (cadd (T gs ge (p :: ur) vr).a gs) (cadd (T gs ge (p :: ur) vr).b gs) (cadd (T gs ge (p :: ur) vr).c ge)⟩ : Cell)
        = T gs ge (p :: ur) (y :: vr) := by
      rw [T]
    rw [hcell, ih (p :: ur)]

theorem nextCol_eq (gs ge : Nat) (q : QSeq) (y : Char) (vr : List Char) :
    nextCol gs ge q (vr.length + 1) y (colOf gs ge vr [] q) = colOf gs ge (y :: vr) [] q := by
  rw [colOf_eq_cons gs ge vr [] q, colOf_eq_cons gs ge (y :: vr) [] q]
  simp only [nextCol]
  have h0 : (⟨none, none, some (gapCost gs ge (vr.length + 1))⟩ : Cell) = T gs ge [] (y :: vr) := by rw [T]
  rw [h0, colGo_eq]

theorem dpCols_eq (gs ge : Nat) (q : QSeq) (r vr : List Char) :
    dpCols gs ge q vr.length r (colOf gs ge vr [] q) = colOf gs ge (r.reverse ++ vr) [] q := by
  induction r generalizing vr with
  | nil => simp [dpCols]
  | cons y r ih =>
    simp only [dpCols, nextCol_eq]
    have := ih (y :: vr)
    simp only [List.length_cons] at this
    rw [this]; simp

theorem colOf_getLast (gs ge : Nat) (vr : List Char) (ur rest : QSeq) :
    (colOf gs ge vr ur rest).getLast? = some (T gs ge (rest.reverse ++ ur) vr) := by
  induction rest generalizing ur with
  | nil => simp [colOf]
  | cons p rest ih =>
    simp only [colOf]
    rw [colOf_eq_cons, List.getLast?_cons_cons, ← colOf_eq_cons, ih (p :: ur)]
    simp

/-- the column-by-column loops compute the recurrences -/
theorem affineDP_eq_T (gs ge : Nat) (q : QSeq) (r : List Char) :
    affineDP gs ge q r = (T gs ge q.reverse r.reverse).best.getD 0 := by
  unfold affineDP
  rw [initCol_eq]
  have := dpCols_eq gs ge q r []
  simp only [List.length_nil, List.append_nil] at this
  rw [this, colOf_getLast]
  simp

/-! ## the recurrences against the enumeration -/

theorem alisR_ne_nil {α β} (u : List α) (v : List β) : alisR u v ≠ [] := by
  fun_induction alisR u v <;> simp_all

theorem alisR_nil_nil {α β} : alisR ([] : List α) ([] : List β) = [[]] := by simp [alisR]

/-- lower bound: an alignment whose last column has kind `c` costs at least the table entry of kind `c` -/
theorem T_le_cost (gs ge : Nat) (u : QSeq) (v : List Char) :
    ∀ cs ∈ alisR u v, ∀ c rest, cs = c :: rest → ∃ t, (T gs ge u v).at c = some t ∧ t ≤ costR gs ge cs u v := by
  fun_induction alisR u v with
  | case1 => intro cs hcs c rest h; simp at hcs; subst hcs; cases h
  | case2 x u ih =>
    intro cs hcs c rest h
    simp only [List.mem_map] at hcs
    obtain ⟨cs', hcs', rfl⟩ := hcs
    obtain ⟨rfl, rfl⟩ := List.cons.inj h
    rw [T]
    cases cs' with
    | nil =>
      have hu : u = [] := by
        cases u with
        | nil => rfl
        | cons a u => simp [alisR] at hcs'
      subst hu
      exact ⟨_, rfl, by simp [costR, gapStep]⟩
    | cons c' rest' =>
      obtain ⟨t, ht, hle⟩ := ih _ hcs' c' rest' rfl
      cases u with
      | nil => simp [alisR] at hcs'
      | cons a u =>
        rw [T] at ht
        cases c' with
        | sub => simp [Cell.at] at ht
        | del => simp [Cell.at] at ht
        | ins =>
          simp only [Cell.at, Option.some.injEq] at ht
          refine ⟨_, rfl, ?_⟩
          simp only [costR, gapStep, List.head?_cons, if_true, List.length_cons] at hle ⊢
          rw [gapCost_succ _ _ _ (by omega)]
          omega
  | case3 y v ih =>
    intro cs hcs c rest h
    simp only [List.mem_map] at hcs
    obtain ⟨cs', hcs', rfl⟩ := hcs
    obtain ⟨rfl, rfl⟩ := List.cons.inj h
    rw [T]
    cases cs' with
    | nil =>
      have hv : v = [] := by
        cases v with
        | nil => rfl
        | cons a v => simp [alisR] at hcs'
      subst hv
      exact ⟨_, rfl, by simp [costR, gapStep]⟩
    | cons c' rest' =>
      obtain ⟨t, ht, hle⟩ := ih _ hcs' c' rest' rfl
      cases v with
      | nil => simp [alisR] at hcs'
      | cons a v =>
        rw [T] at ht
        cases c' with
        | sub => simp [Cell.at] at ht
        | ins => simp [Cell.at] at ht
        | del =>
          simp only [Cell.at, Option.some.injEq] at ht
          refine ⟨_, rfl, ?_⟩
          simp only [costR, gapStep, List.head?_cons, if_true, List.length_cons] at hle ⊢
          rw [gapCost_succ _ _ _ (by omega)]
          omega
  | case4 x u y v ih1 ih2 ih3 =>
    intro cs hcs c rest h
    simp only [List.mem_append, List.mem_map] at hcs
    rcases hcs with ⟨cs', hcs', rfl⟩ | ⟨cs', hcs', rfl⟩ | ⟨cs', hcs', rfl⟩
    · -- last column: sub
      obtain ⟨rfl, rfl⟩ := List.cons.inj h
      rw [T]
      simp only [Cell.at, costR]
      cases cs' with
      | nil =>
        have huv : u = [] ∧ v = [] := by
          cases u <;> cases v <;> simp [alisR] at hcs' ⊢
        obtain ⟨rfl, rfl⟩ := huv
        rw [T]
        exact ⟨_, by simp [Cell.best, cmin3]; rfl, by simp [costR]⟩
      | cons c' rest' =>
        obtain ⟨t, ht, hle⟩ := ih1 _ hcs' c' rest' rfl
        obtain ⟨s, hs, hsle⟩ := best_le_at ht
        rw [hs, cadd_some]
        exact ⟨_, rfl, by omega⟩
    · -- last column: ins
      obtain ⟨rfl, rfl⟩ := List.cons.inj h
      rw [T]
      simp only [Cell.at, costR]
      cases cs' with
      | nil => cases u <;> simp [alisR] at hcs'
      | cons c' rest' =>
        obtain ⟨t, ht, hle⟩ := ih2 _ hcs' c' rest' rfl
        cases c' with
        | sub =>
          simp only [Cell.at] at ht
          obtain ⟨s, hs, hsle⟩ := cmin3_le_1 (cadd (T gs ge u (y :: v)).b ge) (cadd (T gs ge u (y :: v)).c gs)
            (show cadd (T gs ge u (y :: v)).a gs = some (t + gs) by rw [ht]; rfl)
          exact ⟨s, hs, by simp [gapStep]; omega⟩
        | ins =>
          simp only [Cell.at] at ht
          obtain ⟨s, hs, hsle⟩ := cmin3_le_2 (cadd (T gs ge u (y :: v)).a gs) (cadd (T gs ge u (y :: v)).c gs)
            (show cadd (T gs ge u (y :: v)).b ge = some (t + ge) by rw [ht]; rfl)
          exact ⟨s, hs, by simp [gapStep]; omega⟩
        | del =>
          simp only [Cell.at] at ht
          obtain ⟨s, hs, hsle⟩ := cmin3_le_3 (cadd (T gs ge u (y :: v)).a gs) (cadd (T gs ge u (y :: v)).b ge)
            (show cadd (T gs ge u (y :: v)).c gs = some (t + gs) by rw [ht]; rfl)
          exact ⟨s, hs, by simp [gapStep]; omega⟩
    · -- last column: del
      obtain ⟨rfl, rfl⟩ := List.cons.inj h
      rw [T]
      simp only [Cell.at, costR]
      cases cs' with
      | nil => cases v <;> simp [alisR] at hcs'
      | cons c' rest' =>
        obtain ⟨t, ht, hle⟩ := ih3 _ hcs' c' rest' rfl
        cases c' with
        | sub =>
          simp only [Cell.at] at ht
          obtain ⟨s, hs, hsle⟩ := cmin3_le_1 (cadd (T gs ge (x :: u) v).b gs) (cadd (T gs ge (x :: u) v).c ge)
            (show cadd (T gs ge (x :: u) v).a gs = some (t + gs) by rw [ht]; rfl)
          exact ⟨s, hs, by simp [gapStep]; omega⟩
        | ins =>
          simp only [Cell.at] at ht
          obtain ⟨s, hs, hsle⟩ := cmin3_le_2 (cadd (T gs ge (x :: u) v).a gs) (cadd (T gs ge (x :: u) v).c ge)
            (show cadd (T gs ge (x :: u) v).b gs = some (t + gs) by rw [ht]; rfl)
          exact ⟨s, hs, by simp [gapStep]; omega⟩
        | del =>
          simp only [Cell.at] at ht
          obtain ⟨s, hs, hsle⟩ := cmin3_le_3 (cadd (T gs ge (x :: u) v).a gs) (cadd (T gs ge (x :: u) v).b gs)
            (show cadd (T gs ge (x :: u) v).c ge = some (t + ge) by rw [ht]; rfl)
          exact ⟨s, hs, by simp [gapStep]; omega⟩

/-- attainment: a finite table entry of kind `c` is the cost of an alignment whose last column has kind `c` -/
theorem T_attained (gs ge : Nat) (u : QSeq) (v : List Char) :
    ∀ c t, (T gs ge u v).at c = some t → (u ≠ [] ∨ v ≠ []) →
      ∃ cs ∈ alisR u v, cs.head? = some c ∧ costR gs ge cs u v = t := by
  fun_induction alisR u v with
  | case1 => intro c t _ h; simp at h
  | case2 x u ih =>
    intro c t ht _
    rw [T] at ht
    cases c with
    | sub => simp [Cell.at] at ht
    | del => simp [Cell.at] at ht
    | ins =>
      simp only [Cell.at, Option.some.injEq] at ht
      cases u with
      | nil =>
        refine ⟨[Col.ins], by simp [alisR], rfl, ?_⟩
        simp [costR, gapStep] at ht ⊢; exact ht
      | cons a u =>
        obtain ⟨cs', hcs', hhead, hcost⟩ := ih Col.ins (gapCost gs ge (u.length + 1)) (by rw [T]; rfl) (Or.inl (by simp))
        refine ⟨Col.ins :: cs', by simp only [List.mem_map]; exact ⟨cs', hcs', rfl⟩, rfl, ?_⟩
        simp only [List.length_cons] at ht
        rw [gapCost_succ _ _ _ (by omega)] at ht
        simp only [costR, gapStep, hhead, if_true, hcost]
        omega
  | case3 y v ih =>
    intro c t ht _
    rw [T] at ht
    cases c with
    | sub => simp [Cell.at] at ht
    | ins => simp [Cell.at] at ht
    | del =>
      simp only [Cell.at, Option.some.injEq] at ht
      cases v with
      | nil =>
        refine ⟨[Col.del], by simp [alisR], rfl, ?_⟩
        simp [costR, gapStep] at ht ⊢; exact ht
      | cons a v =>
        obtain ⟨cs', hcs', hhead, hcost⟩ := ih Col.del (gapCost gs ge (v.length + 1)) (by rw [T]; rfl) (Or.inr (by simp))
        refine ⟨Col.del :: cs', by simp only [List.mem_map]; exact ⟨cs', hcs', rfl⟩, rfl, ?_⟩
        simp only [List.length_cons] at ht
        rw [gapCost_succ _ _ _ (by omega)] at ht
        simp only [costR, gapStep, hhead, if_true, hcost]
        omega
  | case4 x u y v ih1 ih2 ih3 =>
    intro c t ht _
    rw [T] at ht
    cases c with
    | sub =>
      simp only [Cell.at] at ht
      obtain ⟨s, hs, rfl⟩ := cadd_eq_some ht
      by_cases huv : u = [] ∧ v = []
      · obtain ⟨rfl, rfl⟩ := huv
        rw [T] at hs
        have hs0 : s = 0 := by simp [Cell.best, cmin3] at hs; omega
        subst hs0
        refine ⟨[Col.sub], by simp [alisR], rfl, ?_⟩
        simp [costR]
      · obtain ⟨c', hc'⟩ := best_some hs
        obtain ⟨cs', hcs', hhead, hcost⟩ := ih1 c' s hc' (by
          by_cases hu : u = []
          · right; intro hv; exact huv ⟨hu, hv⟩
          · left; exact hu)
        refine ⟨Col.sub :: cs', by simp only [List.mem_append, List.mem_map]; exact Or.inl ⟨cs', hcs', rfl⟩, rfl, ?_⟩
        simp only [costR, hcost]; omega
    | ins =>
      simp only [Cell.at] at ht
      rcases cmin3_some ht with h | h | h
      · obtain ⟨s, hs, rfl⟩ := cadd_eq_some h
        obtain ⟨cs', hcs', hhead, hcost⟩ := ih2 Col.sub s hs (Or.inr (by simp))
        refine ⟨Col.ins :: cs', by simp only [List.mem_append, List.mem_map]; exact Or.inr (Or.inl ⟨cs', hcs', rfl⟩), rfl, ?_⟩
        simp [costR, gapStep, hhead, hcost]; omega
      · obtain ⟨s, hs, rfl⟩ := cadd_eq_some h
        obtain ⟨cs', hcs', hhead, hcost⟩ := ih2 Col.ins s hs (Or.inr (by simp))
        refine ⟨Col.ins :: cs', by simp only [List.mem_append, List.mem_map]; exact Or.inr (Or.inl ⟨cs', hcs', rfl⟩), rfl, ?_⟩
        simp [costR, gapStep, hhead, hcost]; omega
      · obtain ⟨s, hs, rfl⟩ := cadd_eq_some h
        obtain ⟨cs', hcs', hhead, hcost⟩ := ih2 Col.del s hs (Or.inr (by simp))
        refine ⟨Col.ins :: cs', by simp only [List.mem_append, List.mem_map]; exact Or.inr (Or.inl ⟨cs', hcs', rfl⟩), rfl, ?_⟩
        simp [costR, gapStep, hhead, hcost]; omega
    | del =>
      simp only [Cell.at] at ht
      rcases cmin3_some ht with h | h | h
      · obtain ⟨s, hs, rfl⟩ := cadd_eq_some h
        obtain ⟨cs', hcs', hhead, hcost⟩ := ih3 Col.sub s hs (Or.inl (by simp))
        refine ⟨Col.del :: cs', by simp only [List.mem_append, List.mem_map]; exact Or.inr (Or.inr ⟨cs', hcs', rfl⟩), rfl, ?_⟩
        simp [costR, gapStep, hhead, hcost]; omega
      · obtain ⟨s, hs, rfl⟩ := cadd_eq_some h
        obtain ⟨cs', hcs', hhead, hcost⟩ := ih3 Col.ins s hs (Or.inl (by simp))
        refine ⟨Col.del :: cs', by simp only [List.mem_append, List.mem_map]; exact Or.inr (Or.inr ⟨cs', hcs', rfl⟩), rfl, ?_⟩
        simp [costR, gapStep, hhead, hcost]; omega
      · obtain ⟨s, hs, rfl⟩ := cadd_eq_some h
        obtain ⟨cs', hcs', hhead, hcost⟩ := ih3 Col.del s hs (Or.inl (by simp))
        refine ⟨Col.del :: cs', by simp only [List.mem_append, List.mem_map]; exact Or.inr (Or.inr ⟨cs', hcs', rfl⟩), rfl, ?_⟩
        simp [costR, gapStep, hhead, hcost]; omega

/-- the best table entry is finite -/
theorem T_best_some (gs ge : Nat) (u : QSeq) (v : List Char) : ∃ t, (T gs ge u v).best = some t := by
  by_cases huv : u = [] ∧ v = []
  · obtain ⟨rfl, rfl⟩ := huv
    exact ⟨0, by rw [T]; simp [Cell.best, cmin3]⟩
  · obtain ⟨cs, hcs⟩ := List.exists_mem_of_ne_nil _ (alisR_ne_nil u v)
    cases cs with
    | nil =>
      exfalso; apply huv
      cases u <;> cases v <;> simp [alisR] at hcs ⊢
    | cons c rest =>
      obtain ⟨t, ht, _⟩ := T_le_cost gs ge u v _ hcs c rest rfl
      obtain ⟨s, hs, _⟩ := best_le_at ht
      exact ⟨s, hs⟩

/-- the best table entry is a lower bound for every alignment … -/
theorem T_best_le (gs ge : Nat) (u : QSeq) (v : List Char) (cs : List Col) (hcs : cs ∈ alisR u v) (t : Nat)
    (ht : (T gs ge u v).best = some t) : t ≤ costR gs ge cs u v := by
  cases cs with
  | nil =>
    have huv : u = [] ∧ v = [] := by cases u <;> cases v <;> simp [alisR] at hcs ⊢
    obtain ⟨rfl, rfl⟩ := huv
    rw [T] at ht; simp [Cell.best, cmin3] at ht; omega
  | cons c rest =>
    obtain ⟨t', ht', hle⟩ := T_le_cost gs ge u v _ hcs c rest rfl
    obtain ⟨s, hs, hsle⟩ := best_le_at ht'
    rw [ht] at hs; cases hs; omega

/-- … and is attained by one -/
theorem T_best_attained (gs ge : Nat) (u : QSeq) (v : List Char) (t : Nat) (ht : (T gs ge u v).best = some t) :
    ∃ cs ∈ alisR u v, costR gs ge cs u v = t := by
  by_cases huv : u = [] ∧ v = []
  · obtain ⟨rfl, rfl⟩ := huv
    rw [T] at ht
    have : t = 0 := by simp [Cell.best, cmin3] at ht; omega
    subst this
    exact ⟨[], by simp [alisR], by simp [costR]⟩
  · obtain ⟨c, hc⟩ := best_some ht
    obtain ⟨cs, hcs, _, hcost⟩ := T_attained gs ge u v c t hc (by
      by_cases hu : u = []
      · right; intro hv; exact huv ⟨hu, hv⟩
      · left; exact hu)
    exact ⟨cs, hcs, hcost⟩

theorem minList_le (l : List Nat) (x : Nat) (hx : x ∈ l) : minList l ≤ x := by
  induction l with
  | nil => cases hx
  | cons a l ih =>
    cases l with
    | nil => simp at hx; subst hx; simp [minList]
    | cons b l =>
      simp only [minList]
      rcases List.mem_cons.1 hx with rfl | h
      · exact Nat.min_le_left _ _
      · exact Nat.le_trans (Nat.min_le_right _ _) (ih h)

theorem minList_mem (l : List Nat) (h : l ≠ []) : minList l ∈ l := by
  induction l with
  | nil => exact absurd rfl h
  | cons a l ih =>
    cases l with
    | nil => simp [minList]
    | cons b l =>
      simp only [minList]
      have := ih (by simp)
      by_cases hab : a ≤ minList (b :: l)
      · rw [Nat.min_eq_left hab]; simp
      · rw [Nat.min_eq_right (by omega)]; exact List.mem_cons_of_mem _ this

/-- the three-table DP computes the minimum cost over all alignments -/
theorem affineDP_eq_affineSpec (gs ge : Nat) (q : QSeq) (r : List Char) : affineDP gs ge q r = affineSpec gs ge q r := by
  rw [affineDP_eq_T]
  obtain ⟨t, ht⟩ := T_best_some gs ge q.reverse r.reverse
  rw [ht]
  simp only [Option.getD_some, affineSpec]
  apply Nat.le_antisymm
  · have hne : (alisR q.reverse r.reverse).map (fun cs => costR gs ge cs q.reverse r.reverse) ≠ [] := by
      simp [alisR_ne_nil]
    have hm := minList_mem _ hne
    simp only [List.mem_map] at hm
    obtain ⟨cs, hcs, hc⟩ := hm
    rw [← hc]
    exact T_best_le gs ge _ _ cs hcs t ht
  · obtain ⟨cs, hcs, hc⟩ := T_best_attained gs ge _ _ t ht
    rw [← hc]
    exact minList_le _ _ (List.mem_map.2 ⟨cs, hcs, rfl⟩)

/-! ## cost 0 ⇔ equal -/

theorem costR_zero (gs ge : Nat) (hgs : 0 < gs) (u : QSeq) (v : List Char) (hmm : ∀ x ∈ u, 0 < x.2) :
    ∀ cs ∈ alisR u v, costR gs ge cs u v = 0 → u.map Prod.fst = v ∧ ∀ c ∈ cs, c = Col.sub := by
  fun_induction alisR u v with
  | case1 => intro cs hcs _; simp at hcs; subst hcs; simp
  | case2 x u ih =>
    intro cs hcs h0
    simp only [List.mem_map] at hcs
    obtain ⟨cs', hcs', rfl⟩ := hcs
    simp only [costR] at h0
    have h1 : costR gs ge cs' u [] = 0 := by omega
    have := (ih (fun x hx => hmm x (List.mem_cons_of_mem _ hx)) cs' hcs' h1).2
    have hg : gapStep gs ge Col.ins cs' = gs := by
      unfold gapStep
      cases cs' with
      | nil => simp
      | cons c rest => have := this c (by simp); subst this; simp
    omega
  | case3 y v ih =>
    intro cs hcs h0
    simp only [List.mem_map] at hcs
    obtain ⟨cs', hcs', rfl⟩ := hcs
    simp only [costR] at h0
    have h1 : costR gs ge cs' [] v = 0 := by omega
    have := (ih (by simp) cs' hcs' h1).2
    have hg : gapStep gs ge Col.del cs' = gs := by
      unfold gapStep
      cases cs' with
      | nil => simp
      | cons c rest => have := this c (by simp); subst this; simp
    omega
  | case4 x u y v ih1 ih2 ih3 =>
    intro cs hcs h0
    simp only [List.mem_append, List.mem_map] at hcs
    rcases hcs with ⟨cs', hcs', rfl⟩ | ⟨cs', hcs', rfl⟩ | ⟨cs', hcs', rfl⟩
    · simp only [costR] at h0
      have h1 : costR gs ge cs' u v = 0 := by omega
      obtain ⟨he, hall⟩ := ih1 (fun x hx => hmm x (List.mem_cons_of_mem _ hx)) cs' hcs' h1
      have hx : (x.1 == y) = true := by
        by_cases hxy : (x.1 == y) = true
        · exact hxy
        · have := hmm x (by simp); simp [hxy] at h0; omega
      refine ⟨by simp [he, eq_of_beq hx], ?_⟩
      intro c hc
      rcases List.mem_cons.1 hc with rfl | hc
      · rfl
      · exact hall c hc
    · simp only [costR] at h0
      have h1 : costR gs ge cs' u (y :: v) = 0 := by omega
      have := (ih2 (fun x hx => hmm x (List.mem_cons_of_mem _ hx)) cs' hcs' h1).2
      have hg : gapStep gs ge Col.ins cs' = gs := by
        unfold gapStep
        cases cs' with
        | nil => simp
        | cons c rest => have := this c (by simp); subst this; simp
      omega
    · simp only [costR] at h0
      have h1 : costR gs ge cs' (x :: u) v = 0 := by omega
      have := (ih3 hmm cs' hcs' h1).2
      have hg : gapStep gs ge Col.del cs' = gs := by
        unfold gapStep
        cases cs' with
        | nil => simp
        | cons c rest => have := this c (by simp); subst this; simp
      omega

theorem affineDP_eq_zero (gs ge : Nat) (hgs : 0 < gs) (q : QSeq) (r : List Char) (hmm : ∀ x ∈ q, 0 < x.2)
    (h : affineDP gs ge q r = 0) : q.map Prod.fst = r := by
  rw [affineDP_eq_T] at h
  obtain ⟨t, ht⟩ := T_best_some gs ge q.reverse r.reverse
  rw [ht] at h
  simp only [Option.getD_some] at h
  subst h
  obtain ⟨cs, hcs, hc⟩ := T_best_attained gs ge _ _ 0 ht
  have := (costR_zero gs ge hgs q.reverse r.reverse (by simpa using hmm) cs hcs hc).1
  have h2 := congrArg List.reverse this
  simpa using h2

theorem affineDP_nil (gs ge : Nat) : affineDP gs ge [] [] = 0 := by
  simp [affineDP, dpCols, initCol, initGo, Cell.best, cmin3]

/-! ## the prefix / suffix shortcut -/

theorem stripPre_self (q : QSeq) : stripPre q (q.map Prod.fst) = ([], []) := by
  induction q with
  | nil => simp [stripPre]
  | cons x q ih => simp [stripPre, ih]

theorem stripPre_spec (q : QSeq) (r : List Char) :
    ∃ pre, q.map Prod.fst = pre ++ (stripPre q r).1.map Prod.fst ∧ r = pre ++ (stripPre q r).2 := by
  fun_induction stripPre q r with
  | case1 x q y r h ih =>
    obtain ⟨pre, h1, h2⟩ := ih
    refine ⟨y :: pre, ?_, ?_⟩
    · simp only [List.map_cons, List.cons_append]; rw [← h1, eq_of_beq h]
    · simp only [List.cons_append]; rw [← h2]
  | case2 x q y r h => exact ⟨[], by simp, by simp⟩
  | case3 q r h => exact ⟨[], by simp, by simp⟩

theorem stripSuf_spec (q : QSeq) (r : List Char) :
    ∃ suf, q.map Prod.fst = (stripSuf q r).1.map Prod.fst ++ suf ∧ r = (stripSuf q r).2 ++ suf := by
  obtain ⟨pre, h1, h2⟩ := stripPre_spec q.reverse r.reverse
  refine ⟨pre.reverse, ?_, ?_⟩
  · have := congrArg List.reverse h1
    simpa [stripSuf] using this
  · have := congrArg List.reverse h2
    simpa [stripSuf] using this

/-- a query that equals the other sequence has distance 0 -/
theorem editDistanceAffine_self (gs ge : Nat) (q : QSeq) : editDistanceAffine gs ge q (q.map Prod.fst) = 0 := by
  simp [editDistanceAffine, stripPre_self, stripSuf, stripPre, affineDP_nil]

/-- distance 0 only for equal sequences (gap start and all mismatch costs positive) -/
theorem editDistanceAffine_eq_zero (gs ge : Nat) (hgs : 0 < gs) (q : QSeq) (r : List Char) (hmm : ∀ x ∈ q, 0 < x.2)
    (h : editDistanceAffine gs ge q r = 0) : q.map Prod.fst = r := by
  unfold editDistanceAffine at h
  obtain ⟨pre, hp1, hp2⟩ := stripPre_spec q r
  obtain ⟨suf, hs1, hs2⟩ := stripSuf_spec (stripPre q r).1 (stripPre q r).2
  have hsub : ∀ x ∈ (stripSuf (stripPre q r).1 (stripPre q r).2).1, 0 < x.2 := by
    intro x hx
    apply hmm x
    -- x occurs in q: its (char, cost) pair is kept by both shortcuts
    have hmem1 : ∀ (a : QSeq) (b : List Char) (z : Char × Nat), z ∈ (stripPre a b).1 → z ∈ a := by
      intro a b
      fun_induction stripPre a b with
      | case1 x q y r h ih => intro z hz; exact List.mem_cons_of_mem _ (ih z hz)
      | case2 x q y r h => intro z hz; exact hz
      | case3 q r h => intro z hz; exact hz
    have hx2 : x ∈ (stripPre q r).1 := by
      simp only [stripSuf, List.mem_reverse] at hx
      have := hmem1 _ _ x hx
      simpa using this
    exact hmem1 _ _ x hx2
  have := affineDP_eq_zero gs ge hgs _ _ hsub h
  have e1 := hs1
  rw [this, ← hs2] at e1
  rw [hp1, e1]
  exact hp2.symm

theorem affineDist_self (p : AffineCfg) (q : Seq) : affineDist p q q = 0 := by
  have := editDistanceAffine_self p.gs p.ge (q.map (fun ch => (ch, p.mm)))
  simpa [affineDist, List.map_map, Function.comp_def] using this

theorem affineDist_pos_of_ne (p : AffineCfg) (hgs : 0 < p.gs) (hmm : 0 < p.mm) (q x : Seq) (hne : q ≠ x) :
    0 < affineDist p q x := by
  rcases Nat.eq_zero_or_pos (affineDist p q x) with h0 | h0
  · exfalso; apply hne
    have := editDistanceAffine_eq_zero p.gs p.ge hgs (q.map (fun ch => (ch, p.mm))) x (by
      intro y hy; simp only [List.mem_map] at hy; obtain ⟨_, _, rfl⟩ := hy; exact hmm) h0
    simpa [List.map_map, Function.comp_def] using this
  · exact h0

end WhVerif.C06

import WhVerif.Spec.C17Run
import WhVerif.Lemmas.C17Multi
import WhVerif.Props.C10
/-! helper lemmas for C17's composition haplotag → haplotagphase and for the loops of `run_haplotagphase` -/
namespace WhVerif.C17
open WhVerif.C10 (RV PhaseInfo)

/-! ## the decision of `haplotag` on an error-free read cloud inside one phase set -/

theorem sum_map_zero {α} (f : α → Nat) (l : List α) (h : ∀ x ∈ l, f x = 0) : (l.map f).sum = 0 := by
  induction l with
  | nil => rfl
  | cons a t ih =>
    simp only [List.map_cons, List.sum_cons]
    rw [h a List.mem_cons_self, ih (fun x hx => h x (List.mem_cons_of_mem _ hx))]

/-- a cloud read without error from haplotype `τ` scores 0 on the other haplotype -/
theorem agreeScore_other_zero {info : PhaseInfo} {τ : Nat} (hτ : τ < 2) {rvs : List RV} (he : ErrorFree info τ rvs)
    (P : Int) : C10.agreeScore info rvs P (1 - τ) = 0 := by
  unfold C10.agreeScore
  apply sum_map_zero
  intro w hw
  obtain ⟨ps, x0, x1, hl, hne, hal⟩ := he w hw
  unfold C10.contrib
  rw [hl]
  have : τ = 0 ∨ τ = 1 := by omega
  rcases this with rfl | rfl
  · simp at hal
    subst hal
    simp [hne.symm]
  · simp at hal
    subst hal
    simp [hne]

/-- **the tags are the truth**: if `haplotag` tags an error-free cloud of haplotype `τ` that lies in the one phase set
`P`, it reports haplotype `τ` and phase set `P` -/
theorem decision_errorfree {info : PhaseInfo} {τ : Nat} (hτ : τ < 2) {P : Int} {rvs : List RV}
    (he : ErrorFree info τ rvs) (ho : OneSet info P rvs) {h q : Nat} {ps : Int}
    (hd : C10.tagDecision 2 info rvs = .tagged h q ps) : h = τ ∧ ps = P := by
  obtain ⟨hh, hq, hle, _, htouch, _⟩ := WhVerif.Props.C10.best_agreeing hd
  have hps : ps = P := by
    rw [List.any_eq_true] at htouch
    obtain ⟨w, hw, ht⟩ := htouch
    unfold C10.touches at ht
    cases hl : info.lookup w.pos with
    | none => simp [hl] at ht
    | some e =>
      obtain ⟨ps', ph⟩ := e
      simp only [hl, Bool.and_eq_true, beq_iff_eq] at ht
      have := ho w hw ps' ph hl
      omega
  refine ⟨?_, hps⟩
  subst hps
  by_cases hne : h = τ
  · exact hne
  · exfalso
    have h1 : h = 1 - τ := by omega
    have := hle τ hτ (fun e => hne e.symm)
    rw [h1, agreeScore_other_zero hτ he] at this
    omega

/-- reads tagged from `V` are `Consistent` with `V` at every position they cover -/
theorem consistent_of_tagged {info : PhaseInfo} {pos : Nat} {P : Int} {a0 a1 : Nat}
    (hV : info.lookup pos = some (P, [a0, a1])) {reads : List TRead}
    (ht : ∀ r ∈ reads, voting r = true → (∃ v ∈ r.variants, v.pos = pos) → TaggedFrom info r) :
    Consistent pos P a0 a1 reads := by
  intro r hr hvote v hv hvp
  obtain ⟨τ, Pc, rvs, h, q, hτ, hd, hhp, he, ho, hsub⟩ := ht r hr hvote ⟨v, hv, hvp⟩
  have hvl : info.lookup v.pos = some (P, [a0, a1]) := by rw [hvp]; exact hV
  have hmem : v ∈ rvs := hsub v hv (by rw [hvl]; rfl)
  obtain ⟨rfl, hps⟩ := decision_errorfree hτ he ho hd
  have hP : P = Pc := ho v hmem P [a0, a1] hvl
  obtain ⟨ps, x0, x1, hl, _, hal⟩ := he v hmem
  rw [hvl] at hl
  injection hl with hl
  injection hl with _ hl
  injection hl with hx0 hl
  injection hl with hx1 _
  subst hx0 hx1
  refine ⟨by omega, ?_⟩
  have : h = 0 ∨ h = 1 := by omega
  rcases this with rfl | rfl
  · simp at hal; simp [hhp, hal]
  · simp at hal; simp [hhp, hal]

/-- a read tagged by the C10 model itself (`tagRead`) from an error-free molecule inside one phase set is `TaggedFrom` -/
theorem tagRead_taggedFrom {info : PhaseInfo} {τ : Nat} (hτ : τ < 2) {P : Int} (sample : String) {full : List RV}
    (he : ErrorFree info τ (tagVariants info full)) (ho : OneSet info P (tagVariants info full))
    (hv : voting (treadOf (tagRead info sample full)) = true) : TaggedFrom info (treadOf (tagRead info sample full)) := by
  unfold treadOf tagRead at hv ⊢
  cases hd : C10.tagDecision 2 info (tagVariants info full) with
  | untagged => simp [hd, tagsOfDecision, voting] at hv
  | error e => simp [hd, tagsOfDecision, voting] at hv
  | tagged h q ps =>
    refine ⟨τ, P, tagVariants info full, h, q, hτ, ?_, ?_, he, ho, ?_⟩
    · simp [tagsOfDecision, hd]
    · simp [tagsOfDecision]
    · intro v hv' hs
      simp only [tagVariants, List.mem_filter]
      exact ⟨hv', hs⟩

/-! ## `consensusNow` -/

theorem lookup_filter_key {β} (p : Nat → Bool) (pos : Nat) (hp : p pos = true) (l : List (Nat × β)) :
    (l.filter fun e => p e.1).lookup pos = l.lookup pos := by
  induction l with
  | nil => rfl
  | cons e t ih =>
    obtain ⟨k, v⟩ := e
    simp only [List.filter_cons]
    cases hb : (pos == k) with
    | true =>
      have : pos = k := by simpa using hb
      subst this
      simp [hp]
    | false =>
      split
      · simp [List.lookup_cons, hb, ih]
      · simp [List.lookup_cons, hb, ih]

theorem lookup_filter_key_none {β} (p : Nat → Bool) (pos : Nat) (hp : p pos = false) (l : List (Nat × β)) :
    (l.filter fun e => p e.1).lookup pos = none := by
  induction l with
  | nil => rfl
  | cons e t ih =>
    obtain ⟨k, v⟩ := e
    simp only [List.filter_cons]
    split
    · rename_i hk
      have : (pos == k) = false := by
        cases hb : (pos == k) with
        | false => rfl
        | true => have : pos = k := by simpa using hb
                  subst this; simp [hp] at hk
      simp [List.lookup_cons, this, ih]
    · exact ih

/-- positions without a vote get no entry from the vote loop -/
theorem consensusVotes_no_entry {rep : Bool} {par : Params} {ref : Array Char} {vars : List VarInfo} {pos : Nat} :
    ∀ (vs : Votes) (l : List Cons), consensusVotes rep par ref vars vs = .ok l →
      vs.lookup pos = none → ∀ c ∈ l, c.pos ≠ pos := by
  intro vs
  induction vs with
  | nil => intro l hl' _ c hc'; simp [consensusVotes] at hl'; subst hl'; cases hc'
  | cons e rest ih =>
    obtain ⟨p, i⟩ := e
    intro l hl' hlk c hc'
    simp only [consensusVotes] at hl'
    cases hia : infoAt vars p with
    | none => simp [hia] at hl'
    | some info' =>
      simp only [hia] at hl'
      cases hca : consensusAt rep par ref info' i with
      | error e => simp [hca] at hl'
      | ok c1 =>
        cases hr : consensusVotes rep par ref vars rest with
        | error e => simp [hca, hr] at hl'
        | ok l' =>
          simp only [hca, hr] at hl'
          injection hl' with hl'
          subst hl'
          simp only [List.lookup_cons] at hlk
          cases hb : (pos == p) with
          | true => rw [hb] at hlk; cases hlk
          | false =>
            rw [hb] at hlk
            rcases List.mem_cons.1 hc' with rfl | hc'
            · rw [(consensusAt_pos hca).trans (infoAt_pos hia)]
              intro e; subst e; simp at hb
            · exact ih l' hr hlk c hc'

theorem find_none_of_no_entry {l : List Cons} {pos : Nat} (h : ∀ c ∈ l, c.pos ≠ pos) : l.find? (·.pos == pos) = none := by
  rw [List.find?_eq_none]
  intro c hc
  simpa using h c hc

/-- the first loop of `consensus` hands nothing to the writer for a position whose (only) call is not phased with a
truthy block id -/
theorem keptPhases_none {vars : List VarInfo} {pos : Nat} {info : VarInfo}
    (hu : ∀ w ∈ vars, w.pos = pos → w = info)
    (hno : ∀ b a0 a1, info.phase = some (b, [a0, a1]) → b = 0) :
    (keptPhases vars).find? (·.pos == pos) = none := by
  apply find_none_of_no_entry
  intro c hc
  simp only [keptPhases, List.mem_filterMap] at hc
  obtain ⟨w, hw, hc⟩ := hc
  intro hp
  split at hc
  · rename_i block a0 a1 hph
    split at hc
    · cases hc
    · rename_i hb
      injection hc with hc
      subst hc
      have := hu w hw hp
      subst this
      exact hb (hno _ _ _ hph)
  · cases hc

theorem keptPhases_some {vars : List VarInfo} {pos : Nat} {info : VarInfo}
    (hmem : info ∈ vars) (hpos : info.pos = pos) (hu : ∀ w ∈ vars, w.pos = pos → w = info)
    {b : Int} {a0 a1 : Nat} (hph : info.phase = some (b, [a0, a1])) (hb : b ≠ 0) :
    (keptPhases vars).find? (·.pos == pos) = some ⟨pos, b - 1, some (a0, a1)⟩ := by
  induction vars with
  | nil => cases hmem
  | cons w ws ih =>
    simp only [keptPhases, List.filterMap_cons]
    by_cases hwp : w.pos = pos
    · have := hu w List.mem_cons_self hwp
      subst this
      simp [hph, hb, hpos]
    · have hmem' : info ∈ ws := by
        rcases List.mem_cons.1 hmem with rfl | h
        · exact absurd hpos hwp
        · exact h
      have ih' := ih hmem' (fun x hx => hu x (List.mem_cons_of_mem _ hx))
      simp only [keptPhases] at ih'
      split
      · exact ih'
      · rename_i c hc
        have : c.pos = w.pos := by
          split at hc
          · split at hc
            · cases hc
            · injection hc with hc; subst hc; rfl
          · cases hc
        have hcp : (c.pos == pos) = false := by rw [this]; simpa using hwp
        simp [hcp, ih']

theorem isAlready_of_infoAt {vars : List VarInfo} {pos : Nat} {info : VarInfo} (h : infoAt vars pos = some info) :
    isAlready vars pos = alreadyPhased info := by simp [isAlready, h]


/-! ## positions no voting read covers -/

theorem voteVariants_lookup_other {vars : List VarInfo} {pos : Nat} {ps : Int} {ht : Nat} :
    ∀ (vs : List RV) (votes votes' : Votes), (∀ v ∈ vs, v.pos ≠ pos) →
      voteVariants vars ps ht votes vs = .ok votes' → votes'.lookup pos = votes.lookup pos := by
  intro vs
  induction vs with
  | nil => intro votes votes' _ h; simp [voteVariants] at h; subst h; rfl
  | cons v vs ih =>
    intro votes votes' hv h
    simp only [voteVariants] at h
    cases h1 : voteVariant vars ps ht votes v with
    | error e => simp [h1] at h
    | ok v1 =>
      simp only [h1] at h
      have hrest := ih v1 votes' (fun w hw => hv w (List.mem_cons_of_mem _ hw)) h
      rw [hrest]
      have hne : pos ≠ v.pos := fun e => hv v List.mem_cons_self e.symm
      unfold voteVariant at h1
      cases hi : infoAt vars v.pos with
      | none => simp [hi] at h1
      | some info =>
        simp only [hi] at h1
        split at h1
        · injection h1 with h1; subst h1; rfl
        · cases ha : alleleId info.gt v.allele with
          | none => simp [ha] at h1
          | some id =>
            simp only [ha] at h1
            cases hva : voteAt v.pos ps (ht ^^^ id) v.qual votes with
            | none => simp [hva] at h1
            | some v2 =>
              simp only [hva] at h1
              injection h1 with h1
              subst h1
              exact lookup_voteAt_other hne hva

/-- a position that no voting read covers has no entry in the vote table -/
theorem computeVotes_uncovered {vars : List VarInfo} {pos : Nat} :
    ∀ (reads : List TRead) (votes votes' : Votes), covered pos reads = false →
      computeVotes vars votes reads = .ok votes' → votes'.lookup pos = votes.lookup pos := by
  intro reads
  induction reads with
  | nil => intro votes votes' _ h; simp [computeVotes] at h; subst h; rfl
  | cons r rs ih =>
    intro votes votes' hc h
    simp only [covered, List.any_cons, Bool.or_eq_false_iff] at hc
    simp only [computeVotes] at h
    cases h1 : voteRead vars votes r with
    | error e => simp [h1] at h
    | ok v1 =>
      simp only [h1] at h
      rw [ih v1 votes' (by simpa [covered] using hc.2) h]
      unfold voteRead at h1
      simp only at h1
      split at h1
      · injection h1 with h1; subst h1; rfl
      · split at h1
        · injection h1 with h1; subst h1; rfl
        · rename_i h2 h3
          have hvote : voting r = true := by
            simp only [voting, Bool.and_eq_true, decide_eq_true_eq]
            omega
          have hnc : ∀ v ∈ r.variants, v.pos ≠ pos := by
            have := hc.1
            simp only [hvote, Bool.true_and, List.any_eq_false, beq_iff_eq] at this
            exact this
          exact voteVariants_lookup_other r.variants votes v1 hnc h1

/-! ## the loops -/

theorem samplesLoop_mem {opts : Opts} {bamSamples : List String} {c : ChromIn} {ref : Array Char} :
    ∀ (ts : List SampleTab) (r : List (String × List Cons)), samplesLoop opts bamSamples c ref ts = .ok r →
      ∀ t ∈ ts, ∃ cs, (t.name, cs) ∈ r ∧
        runSample opts.par ref t.vars (readsFor opts.ignoreRG bamSamples t.name c.alns) = .ok cs := by
  intro ts
  induction ts with
  | nil => intro r _ t ht; cases ht
  | cons t0 ts ih =>
    intro r h t ht
    simp only [samplesLoop] at h
    split at h
    · cases h
    · cases hs : runSample opts.par ref t0.vars (readsFor opts.ignoreRG bamSamples t0.name c.alns) with
      | error e => simp [hs] at h
      | ok cs =>
        simp only [hs] at h
        cases hr : samplesLoop opts bamSamples c ref ts with
        | error e => simp [hr] at h
        | ok r' =>
          simp only [hr] at h
          injection h with h
          subst h
          rcases List.mem_cons.1 ht with rfl | ht'
          · exact ⟨cs, List.mem_cons_self, hs⟩
          · obtain ⟨cs', h1, h2⟩ := ih r' hr t ht'
            exact ⟨cs', List.mem_cons_of_mem _ h1, h2⟩

theorem chromLoop_mem {opts : Opts} {samples bamSamples : List String} :
    ∀ (chroms : List ChromIn) (outs : List ChromOut), chromLoop opts samples bamSamples chroms = .ok outs →
      ∀ c ∈ chroms, ∃ o ∈ outs, runChrom opts samples bamSamples c = .ok o := by
  intro chroms
  induction chroms with
  | nil => intro outs _ c hc; cases hc
  | cons c0 cs ih =>
    intro outs h c hc
    simp only [chromLoop] at h
    cases ho : runChrom opts samples bamSamples c0 with
    | error e => simp [ho] at h
    | ok o =>
      simp only [ho] at h
      cases hr : chromLoop opts samples bamSamples cs with
      | error e => simp [hr] at h
      | ok os =>
        simp only [hr] at h
        injection h with h
        subst h
        rcases List.mem_cons.1 hc with rfl | hc'
        · exact ⟨o, List.mem_cons_self, ho⟩
        · obtain ⟨o', h1, h2⟩ := ih os hr c hc'
          exact ⟨o', List.mem_cons_of_mem _ h1, h2⟩

/-! ## decidable forms of the hypotheses (for examples) -/

def errorFreeB (info : PhaseInfo) (τ : Nat) (rvs : List RV) : Bool :=
  rvs.all fun w => match info.lookup w.pos with
    | some (_, [x0, x1]) => x0 != x1 && [x0, x1][τ]? == some w.allele
    | _ => false

theorem errorFree_of_B {info : PhaseInfo} {τ : Nat} {rvs : List RV} (h : errorFreeB info τ rvs = true) :
    ErrorFree info τ rvs := by
  intro w hw
  simp only [errorFreeB, List.all_eq_true] at h
  have := h w hw
  split at this
  · rename_i ps x0 x1 hl
    simp only [Bool.and_eq_true, bne_iff_ne, ne_eq, beq_iff_eq] at this
    exact ⟨ps, x0, x1, hl, this.1, this.2⟩
  · cases this

def oneSetB (info : PhaseInfo) (P : Int) (rvs : List RV) : Bool :=
  rvs.all fun w => match info.lookup w.pos with
    | some (ps, _) => ps == P
    | none => true

theorem oneSet_of_B {info : PhaseInfo} {P : Int} {rvs : List RV} (h : oneSetB info P rvs = true) : OneSet info P rvs := by
  intro w hw ps ph hl
  simp only [oneSetB, List.all_eq_true] at h
  have := h w hw
  rw [hl] at this
  simpa using this

end WhVerif.C17

import WhVerif.Model.C10Run
import WhVerif.Lemmas.C10Acc
import WhVerif.Lemmas.C10Regions
/-! C10: the pieces of `run_haplotag` between VCF/BAM and the write loop, and their composition -/
namespace WhVerif.C10

/-! ### `get_variant_information` -/

theorem variantInfo_fold_covers (calls : List Call) : ∀ (acc : PhaseInfo × List Nat),
    (∀ p ∈ acc.2, (acc.1.lookup p).isSome) →
    ∀ p ∈ (calls.foldl (fun (acc : PhaseInfo × List Nat) c =>
        match c.phase with
        | some (some b, ph) => ((c.pos, (b, ph)) :: acc.1, if c.hom then acc.2 else acc.2 ++ [c.pos])
        | _ => acc) acc).2,
      ((calls.foldl (fun (acc : PhaseInfo × List Nat) c =>
        match c.phase with
        | some (some b, ph) => ((c.pos, (b, ph)) :: acc.1, if c.hom then acc.2 else acc.2 ++ [c.pos])
        | _ => acc) acc).1.lookup p).isSome := by
  induction calls with
  | nil => intro acc h; exact h
  | cons c cs ih =>
    intro acc h
    simp only [List.foldl_cons]
    apply ih
    cases hp : c.phase with
    | none => simpa using h
    | some bp =>
      obtain ⟨b, ph⟩ := bp
      cases b with
      | none => simpa using h
      | some b =>
        simp only
        intro p hpm
        simp only [List.lookup_cons]
        by_cases e : p = c.pos
        · subst e; simp
        · have hne : (p == c.pos) = false := by simpa using e
          rw [hne]
          apply h
          by_cases hh : c.hom
          · simpa [hh] using hpm
          · simp only [hh, Bool.false_eq_true, if_false, List.mem_append, List.mem_singleton] at hpm
            rcases hpm with hpm | hpm
            · exact hpm
            · exact absurd hpm e

/-! ### the accumulation loop cannot fail on what the read reader delivers -/

theorem accumulate_ok {ploidy : Nat} {info : PhaseInfo} : ∀ (l : List RV) (sc : Scores),
    (∀ v ∈ l, v.allele < 2 ∧ (info.lookup v.pos).isSome) → ∃ sc', accumulate ploidy info sc l = .ok sc' := by
  intro l
  induction l with
  | nil => intro sc _; exact ⟨sc, rfl⟩
  | cons v vs ih =>
    intro sc hv
    obtain ⟨h1, h2⟩ := hv v List.mem_cons_self
    obtain ⟨e, he⟩ := Option.isSome_iff_exists.1 h2
    have : ¬ 2 ≤ v.allele := by omega
    simp only [accumulate, step, this, if_false, he]
    exact ih _ (fun w hw => hv w (List.mem_cons_of_mem _ hw))

/-! ### one step of the read loop, with everything it adds to the two dictionaries -/

theorem prepareStep_cases (ploidy : Nat) (info : PhaseInfo) (cutoff : Int) (il : Bool) (st : Prepared)
    (read : SetRead) (all : List SetRead) :
    ((prepareStep ploidy info cutoff il st read all).readToHap = st.readToHap ∧
      (prepareStep ploidy info cutoff il st read all).bxToHap = st.bxToHap) ∨
    ∃ group : List SetRead, ∃ h q ps, read ∈ group ∧
      (∀ r ∈ group, r = read ∨ (r ∈ all ∧ il = false ∧ r.bx = read.bx ∧ read.bx.isSome = true ∧
        absDiff read.refStart r.refStart ≤ cutoff)) ∧
      tagDecision ploidy info (group.flatMap (·.variants)) = .tagged h q ps ∧
      (prepareStep ploidy info cutoff il st read all).readToHap =
        st.readToHap ++ group.map (fun r => (r.name, (h, q, ps))) ∧
      ((prepareStep ploidy info cutoff il st read all).bxToHap = st.bxToHap ∨
        ∃ tag, read.bx = some tag ∧ il = false ∧
          (prepareStep ploidy info cutoff il st read all).bxToHap = st.bxToHap ++ [(tag, (read.refStart, h, ps))]) := by
  unfold prepareStep
  split
  · exact Or.inl ⟨rfl, rfl⟩
  · simp only
    generalize hg : (read :: if (!il && read.bx.isSome) = true then
        List.filter (fun r => r.bx == read.bx && r.name != read.name && !st.processed.contains r.name
          && decide (absDiff read.refStart r.refStart ≤ cutoff)) all else []) = group
    have hmem : read ∈ group := by rw [← hg]; exact List.mem_cons_self
    have hsub : ∀ r ∈ group, r = read ∨ (r ∈ all ∧ il = false ∧ r.bx = read.bx ∧ read.bx.isSome = true ∧
        absDiff read.refStart r.refStart ≤ cutoff) := by
      intro r hr
      rw [← hg] at hr
      rcases List.mem_cons.1 hr with h | h
      · exact Or.inl h
      · right
        split at h
        · rename_i hl
          simp only [List.mem_filter, Bool.and_eq_true, beq_iff_eq, decide_eq_true_eq] at h
          simp only [Bool.and_eq_true, Bool.not_eq_true'] at hl
          exact ⟨h.1, hl.1, h.2.1.1.1, hl.2, h.2.2⟩
        · cases h
    cases ha : accumulate ploidy info [] (group.flatMap (·.variants)) with
    | error e => exact Or.inl ⟨rfl, rfl⟩
    | ok sc =>
      simp only
      cases hp : pickSet sc with
      | none => exact Or.inl ⟨rfl, rfl⟩
      | some e =>
        obtain ⟨ps, s⟩ := e
        simp only
        cases hd : decideScores ps s with
        | error e => exact Or.inl ⟨rfl, rfl⟩
        | untagged => exact Or.inl ⟨rfl, rfl⟩
        | tagged h q p =>
          right
          have hps : p = ps := (decideScores_tagged hd).1
          refine ⟨group, h, q, ps, hmem, hsub, by simp [tagDecision, ha, hp, hd, hps], rfl, ?_⟩
          simp only
          cases hbx : read.bx with
          | none => exact Or.inl rfl
          | some tag =>
            cases il with
            | true => left; simp
            | false => right; exact ⟨tag, rfl, rfl, by simp⟩

/-- an entry of `read_to_haplotype` is backed by a read cloud of one of the samples: reads of that sample's read
set, one of them with the entry's name, and the decision rule on the cloud's variants gives the entry -/
def Justified (ploidy : Nat) (samples : List (PhaseInfo × List SetRead)) (n : String) (h q : Nat) (ps : Int) : Prop :=
  ∃ s ∈ samples, ∃ group : List SetRead, (∀ r ∈ group, r ∈ s.2) ∧ (∃ r ∈ group, r.name = n) ∧
    tagDecision ploidy s.1 (group.flatMap (·.variants)) = .tagged h q ps

/-- an entry of `BX_tag_to_haplotype`: a cloud whose seed read carries the barcode and starts at the recorded place;
all members carry the barcode and start within the cutoff of the seed -/
def JustifiedBx (ploidy : Nat) (cutoff : Int) (samples : List (PhaseInfo × List SetRead))
    (tag : String) (start : Int) (h : Nat) (ps : Int) : Prop :=
  ∃ s ∈ samples, ∃ group : List SetRead, (∀ r ∈ group, r ∈ s.2) ∧
    (∃ r ∈ group, r.bx = some tag ∧ r.refStart = start) ∧
    (∀ r ∈ group, r.bx = some tag ∧ absDiff start r.refStart ≤ cutoff) ∧
    ∃ q, tagDecision ploidy s.1 (group.flatMap (·.variants)) = .tagged h q ps

def Good (ploidy : Nat) (cutoff : Int) (samples : List (PhaseInfo × List SetRead)) (st : Prepared) : Prop :=
  (∀ e ∈ st.readToHap, Justified ploidy samples e.1 e.2.1 e.2.2.1 e.2.2.2) ∧
  (∀ e ∈ st.bxToHap, JustifiedBx ploidy cutoff samples e.1 e.2.1 e.2.2.1 e.2.2.2)

theorem absDiff_self (a : Int) : absDiff a a = 0 := by unfold absDiff; simp

theorem good_prepareStep {ploidy : Nat} {cutoff : Int} {il : Bool} {samples : List (PhaseInfo × List SetRead)}
    {s : PhaseInfo × List SetRead} (hs : s ∈ samples) (hc : 0 ≤ cutoff) {st : Prepared} (hg : Good ploidy cutoff samples st)
    {read : SetRead} (hr : read ∈ s.2) :
    Good ploidy cutoff samples (prepareStep ploidy s.1 cutoff il st read s.2) := by
  rcases prepareStep_cases ploidy s.1 cutoff il st read s.2 with ⟨h1, h2⟩ | ⟨group, h, q, ps, hmem, hsub, hd, h1, h2⟩
  · exact ⟨by rw [h1]; exact hg.1, by rw [h2]; exact hg.2⟩
  · have hin : ∀ r ∈ group, r ∈ s.2 := fun r hrg => by
      rcases hsub r hrg with e | e
      · rw [e]; exact hr
      · exact e.1
    constructor
    · rw [h1]
      intro e he
      rcases List.mem_append.1 he with he | he
      · exact hg.1 e he
      · obtain ⟨r, hrg, rfl⟩ := List.mem_map.1 he
        exact ⟨s, hs, group, hin, ⟨r, hrg, rfl⟩, hd⟩
    · rcases h2 with h2 | ⟨tag, hbx, _, h2⟩
      · rw [h2]; exact hg.2
      · rw [h2]
        intro e he
        rcases List.mem_append.1 he with he | he
        · exact hg.2 e he
        · simp only [List.mem_singleton] at he
          subst he
          refine ⟨s, hs, group, hin, ⟨read, hmem, hbx, rfl⟩, ?_, q, hd⟩
          intro r hrg
          rcases hsub r hrg with e | e
          · subst e; exact ⟨hbx, by rw [absDiff_self]; exact hc⟩
          · exact ⟨by rw [e.2.2.1, hbx], e.2.2.2.2⟩

theorem good_prepare_fold {ploidy : Nat} {cutoff : Int} {il : Bool} {samples : List (PhaseInfo × List SetRead)}
    {s : PhaseInfo × List SetRead} (hs : s ∈ samples) (hc : 0 ≤ cutoff) :
    ∀ (l : List SetRead) (st : Prepared), (∀ r ∈ l, r ∈ s.2) → Good ploidy cutoff samples st →
      Good ploidy cutoff samples (l.foldl (fun st r => prepareStep ploidy s.1 cutoff il st r s.2) st) := by
  intro l
  induction l with
  | nil => intro st _ hg; exact hg
  | cons r rs ih =>
    intro st hl hg
    simp only [List.foldl_cons]
    exact ih _ (fun x hx => hl x (List.mem_cons_of_mem _ hx)) (good_prepareStep hs hc hg (hl r List.mem_cons_self))

theorem good_prepareAll_fold {ploidy : Nat} {cutoff : Int} {il : Bool} {samples : List (PhaseInfo × List SetRead)}
    (hc : 0 ≤ cutoff) : ∀ (l : List (PhaseInfo × List SetRead)) (st : Prepared), (∀ s ∈ l, s ∈ samples) →
      Good ploidy cutoff samples st →
      Good ploidy cutoff samples
        (l.foldl (fun st s => prepare ploidy s.1 cutoff il { st with processed := [] } s.2) st) := by
  intro l
  induction l with
  | nil => intro st _ hg; exact hg
  | cons s ss ih =>
    intro st hl hg
    simp only [List.foldl_cons]
    apply ih _ (fun x hx => hl x (List.mem_cons_of_mem _ hx))
    unfold prepare
    exact good_prepare_fold (hl s List.mem_cons_self) hc s.2 _ (fun r hr => hr) ⟨hg.1, hg.2⟩

/-- every entry of the two dictionaries handed to the write loop is backed by a read cloud -/
theorem good_prepareAll (ploidy : Nat) {cutoff : Int} (il : Bool) (samples : List (PhaseInfo × List SetRead))
    (hc : 0 ≤ cutoff) : Good ploidy cutoff samples (prepareAll ploidy cutoff il samples) := by
  unfold prepareAll
  exact good_prepareAll_fold hc samples {} (fun s hs => hs)
    ⟨fun e he => absurd he (by simp), fun e he => absurd he (by simp)⟩

/-! ### the read loop raises nothing on covered reads -/

/-- what `ReadSetReader` delivers for the positions of `get_variant_information`: alleles 0/1 at positions with phase information -/
def Covered (info : PhaseInfo) (r : SetRead) : Prop := ∀ v ∈ r.variants, v.allele < 2 ∧ (info.lookup v.pos).isSome

theorem prepareStep_no_error {ploidy : Nat} {info : PhaseInfo} {cutoff : Int} {il : Bool} {st : Prepared}
    {read : SetRead} {all : List SetRead} (hp : 2 ≤ ploidy) (hst : st.error = none)
    (hr : Covered info read) (hall : ∀ r ∈ all, Covered info r) :
    (prepareStep ploidy info cutoff il st read all).error = none := by
  unfold prepareStep
  split
  · exact hst
  · simp only
    generalize hg : (read :: if (!il && read.bx.isSome) = true then
        List.filter (fun r => r.bx == read.bx && r.name != read.name && !st.processed.contains r.name
          && decide (absDiff read.refStart r.refStart ≤ cutoff)) all else []) = group
    have hsub : ∀ r ∈ group, Covered info r := by
      intro r hrg
      rw [← hg] at hrg
      rcases List.mem_cons.1 hrg with h | h
      · rw [h]; exact hr
      · split at h
        · exact hall r (List.mem_filter.1 h).1
        · cases h
    have hcov : ∀ v ∈ group.flatMap (·.variants), v.allele < 2 ∧ (info.lookup v.pos).isSome := by
      intro v hv
      obtain ⟨r, hrg, hvr⟩ := List.mem_flatMap.1 hv
      exact hsub r hrg v hvr
    obtain ⟨sc, ha⟩ := accumulate_ok (ploidy := ploidy) (info := info) _ [] hcov
    have inv : Inv ploidy info (group.flatMap (·.variants)) sc := by simpa using inv_accumulate (inv_nil ploidy info) ha
    rw [ha]
    simp only
    cases hps : pickSet sc with
    | none => exact hst
    | some e =>
      obtain ⟨ps, s⟩ := e
      simp only
      have hlen : s.length = ploidy := inv.len _ (pickSet_spec hps).1
      cases hd : decideScores ps s with
      | error e =>
        have := (decideScores_error_iff.1 hd).1
        omega
      | untagged => exact hst
      | tagged h q p => exact hst

theorem prepare_no_error {ploidy : Nat} {info : PhaseInfo} {cutoff : Int} {il : Bool} (hp : 2 ≤ ploidy)
    {reads : List SetRead} (hall : ∀ r ∈ reads, Covered info r) :
    ∀ (l : List SetRead) (st : Prepared), (∀ r ∈ l, r ∈ reads) → st.error = none →
      (l.foldl (fun st r => prepareStep ploidy info cutoff il st r reads) st).error = none := by
  intro l
  induction l with
  | nil => intro st _ h; exact h
  | cons r rs ih =>
    intro st hl hst
    simp only [List.foldl_cons]
    exact ih _ (fun x hx => hl x (List.mem_cons_of_mem _ hx))
      (prepareStep_no_error hp hst (hall r (hl r List.mem_cons_self)) hall)

theorem prepareAll_no_error {ploidy : Nat} {cutoff : Int} {il : Bool} (hp : 2 ≤ ploidy)
    (samples : List (PhaseInfo × List SetRead)) (hcov : ∀ s ∈ samples, ∀ r ∈ s.2, Covered s.1 r) :
    (prepareAll ploidy cutoff il samples).error = none := by
  unfold prepareAll
  suffices h : ∀ (l : List (PhaseInfo × List SetRead)) (st : Prepared), (∀ s ∈ l, s ∈ samples) → st.error = none →
      (l.foldl (fun st s => prepare ploidy s.1 cutoff il { st with processed := [] } s.2) st).error = none from
    h samples {} (fun s hs => hs) rfl
  intro l
  induction l with
  | nil => intro st _ h; exact h
  | cons s ss ih =>
    intro st hl hst
    simp only [List.foldl_cons]
    apply ih _ (fun x hx => hl x (List.mem_cons_of_mem _ hx))
    unfold prepare
    exact prepare_no_error hp (hcov s (hl s List.mem_cons_self)) s.2 _ (fun r hr => hr) hst

/-! ### one alignment -/

theorem lookupLast_mem {β} {k : String} {v : β} : ∀ {l : List (String × β)}, lookupLast k l = some v → (k, v) ∈ l := by
  intro l
  induction l with
  | nil => intro h; cases h
  | cons e rest ih =>
    obtain ⟨k', v'⟩ := e
    intro h
    simp only [lookupLast] at h
    cases hr : lookupLast k rest with
    | some w =>
      rw [hr] at h
      simp only [Option.some.injEq] at h
      subst h
      exact List.mem_cons_of_mem _ (ih hr)
    | none =>
      rw [hr] at h
      simp only at h
      split at h
      · rename_i hk
        simp only [Option.some.injEq] at h
        subst h hk
        exact List.mem_cons_self
      · cases h

/-- where the tags of a written alignment come from -/
theorem newTags_cases (c : ChromCtx) (name : String) (start : Int) (bx : Option String) :
    newTags c name start bx = {} ∨
    (∃ h q ps, (name, (h, q, ps)) ∈ c.readToHap ∧ newTags c name start bx = ⟨some (h + 1), some q, some ps⟩) ∨
    (∃ tag start' h ps, bx = some tag ∧ c.ignoreLinked = false ∧ (tag, (start', h, ps)) ∈ c.bxToHap ∧
      absDiff start' start ≤ c.cutoff ∧ newTags c name start bx = ⟨some (h + 1), none, some ps⟩) := by
  unfold newTags
  cases hl : lookupLast name c.readToHap with
  | some e =>
    obtain ⟨h, q, ps⟩ := e
    exact Or.inr (Or.inl ⟨h, q, ps, lookupLast_mem hl, rfl⟩)
  | none =>
    simp only
    by_cases hil : c.ignoreLinked = true
    · simp [hil]
    · simp only [hil, Bool.false_eq_true, if_false]
      cases bx with
      | none => exact Or.inl rfl
      | some tag =>
        simp only
        cases hf : ((c.bxToHap.filter (·.1 == tag)).map (·.2)).find?
            (fun e => decide (absDiff e.1 start ≤ c.cutoff)) with
        | none => exact Or.inl rfl
        | some e =>
          obtain ⟨s', h, ps⟩ := e
          right; right
          have hm := List.mem_of_find?_eq_some hf
          have hp := List.find?_some hf
          obtain ⟨x, hx, hxe⟩ := List.mem_map.1 hm
          simp only [List.mem_filter, beq_iff_eq] at hx
          obtain ⟨t, v⟩ := x
          simp only at hxe hx
          subst hxe
          obtain ⟨hx1, hx2⟩ := hx
          subst hx2
          exact ⟨t, s', h, ps, rfl, by simp, hx1, by simpa using hp, rfl⟩

/-- the list variables are the HP and PS written -/
theorem attemptNames_eq (c : ChromCtx) (name : String) (start : Int) (bx : Option String) :
    attemptNames c name start bx = ((newTags c name start bx).hp, (newTags c name start bx).ps) := by
  unfold attemptNames newTags
  cases lookupLast name c.readToHap with
  | some e => rfl
  | none =>
    simp only
    split
    · rfl
    · cases bx with
      | none => rfl
      | some tag =>
        simp only
        cases ((c.bxToHap.filter (·.1 == tag)).map (·.2)).find? (fun e => decide (absDiff e.1 start ≤ c.cutoff)) with
        | none => rfl
        | some e => rfl

theorem listEntry_eq {α} (c : ChromCtx) (a : Aln α) :
    listEntry c a = ((tagAln c a).tags.hp, (tagAln c a).tags.ps) := by
  unfold listEntry tagAln
  split
  · rfl
  · exact attemptNames_eq c a.name a.refStart a.bx

/-- an empty context (a contig the VCF does not know, after F70) removes the three tags from every alignment -/
theorem tagAln_emptyCtx {α} (cfg : Config) (a : Aln α) : (tagAln (emptyCtx cfg) a).tags = {} := by
  unfold tagAln emptyCtx
  split
  · rfl
  · simp only [newTags, lookupLast]
    split
    · rfl
    · cases a.bx <;> simp

end WhVerif.C10

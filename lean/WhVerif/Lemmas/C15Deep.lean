import WhVerif.Model.C15Deep
import WhVerif.Lemmas.C15Solve
import WhVerif.Lemmas.C15Bps
/-! Lemmas for `Model/C15Deep.lean`, part 1: `find_subinstances` and the haplotype write-back of
`integrate_sub_results`. -/
namespace WhVerif.C15

/-! ## thread sets -/

theorem mem_threadSet {cid : Nat} {row : List Nat} {t : Nat} :
    t ∈ threadSet cid row ↔ t < row.length ∧ row.getD t 0 = cid := by
  simp [threadSet]

theorem threadSet_nodup (cid : Nat) (row : List Nat) : (threadSet cid row).Nodup :=
  List.Nodup.sublist List.filter_sublist List.nodup_range

/-! ## the scan of one cluster -/

/-- position `p` (before `i`) belongs to a run with thread set `ts` -/
def SubOk (threads : List (List Nat)) (cols : List (List Allele)) (cid i : Nat) (ts : List Nat) (p : Nat) : Prop :=
  p < i ∧ ts = threadSet cid (threads.getD p []) ∧ ts ≠ [] ∧ isHetOn ts (cols.getD p []) = true

theorem SubOk.mono {threads cols cid i j ts p} (h : SubOk threads cols cid i ts p) (hij : i ≤ j) :
    SubOk threads cols cid j ts p := ⟨by have := h.1; omega, h.2⟩

structure ScanInv (threads : List (List Nat)) (cols : List (List Allele)) (cid i : Nat) (st : SubState) : Prop where
  out_ok : ∀ s ∈ st.out, s.cid = cid ∧ s.snps ≠ [] ∧ ∀ p ∈ s.snps, SubOk threads cols cid i s.ts p
  cur_ok : ∀ p ∈ st.cur, SubOk threads cols cid i st.last p
  sorted : (st.out.flatMap (·.snps) ++ st.cur).Pairwise (· < ·)

theorem ScanInv.allLt {threads cols cid i st} (h : ScanInv threads cols cid i st) :
    ∀ x ∈ st.out.flatMap (·.snps) ++ st.cur, x < i := by
  intro x hx
  rcases List.mem_append.mp hx with hx | hx
  · obtain ⟨s, hs, hxs⟩ := List.mem_flatMap.mp hx
    exact ((h.out_ok s hs).2.2 x hxs).1
  · exact (h.cur_ok x hx).1

theorem pairwise_snoc_lt (l : List Nat) (i : Nat) (hs : l.Pairwise (· < ·)) (hl : ∀ x ∈ l, x < i) :
    (l ++ [i]).Pairwise (· < ·) := by
  rw [List.pairwise_append]
  exact ⟨hs, by simp, fun a ha b hb => by simp at hb; subst hb; exact hl a ha⟩

theorem ScanInv.step {threads cols cid i st} (h : ScanInv threads cols cid i st) :
    ScanInv threads cols cid (i + 1) (subStep threads cols cid st i) := by
  have hmono : ScanInv threads cols cid (i + 1) st :=
    ⟨fun s hs => ⟨(h.out_ok s hs).1, (h.out_ok s hs).2.1, fun p hp => ((h.out_ok s hs).2.2 p hp).mono (by omega)⟩,
     fun p hp => (h.cur_ok p hp).mono (by omega), h.sorted⟩
  unfold subStep
  simp only
  split
  · exact hmono
  · rename_i hne
    split
    · rename_i hhet
      have hnew : SubOk threads cols cid (i + 1) (threadSet cid (threads.getD i [])) i :=
        ⟨by omega, rfl, by simpa using hne, hhet⟩
      split
      · -- the thread set changed: close the run, open a new one
        by_cases hc : st.cur.isEmpty = true
        · have hce : st.cur = [] := by simpa using hc
          refine ⟨?_, ?_, ?_⟩
          · simpa [hc] using hmono.out_ok
          · intro p hp; simp at hp; subst hp; exact hnew
          · have := pairwise_snoc_lt _ i h.sorted h.allLt
            simpa [hc, hce] using this
        · have hcne : st.cur ≠ [] := by simpa using hc
          refine ⟨?_, ?_, ?_⟩
          · intro s hs
            simp only [hc, Bool.false_eq_true, if_false, List.mem_append, List.mem_singleton] at hs
            rcases hs with hs | rfl
            · exact hmono.out_ok s hs
            · exact ⟨rfl, hcne, fun p hp => hmono.cur_ok p hp⟩
          · intro p hp; simp at hp; subst hp; exact hnew
          · have := pairwise_snoc_lt _ i h.sorted h.allLt
            simpa [hc, List.flatMap_append] using this
      · rename_i hsame
        have hl : st.last = threadSet cid (threads.getD i []) := by simpa using hsame
        refine ⟨hmono.out_ok, ?_, ?_⟩
        · intro p hp
          rcases List.mem_append.mp hp with hp | hp
          · exact hmono.cur_ok p hp
          · simp at hp; subst hp; exact hl ▸ hnew
        · have := pairwise_snoc_lt _ i h.sorted h.allLt
          simpa [List.append_assoc] using this
    · exact hmono

theorem scanCluster_inv (threads : List (List Nat)) (cols : List (List Allele)) (cid : Nat) :
    ∀ (n i : Nat) (st : SubState), ScanInv threads cols cid i st →
      ScanInv threads cols cid (i + n) (scanCluster threads cols cid st i n) := by
  intro n
  induction n with
  | zero => intro i st h; simpa [scanCluster] using h
  | succ n ih =>
    intro i st h
    have := ih (i + 1) _ h.step
    simpa [scanCluster, List.range'_succ, Nat.add_assoc, Nat.add_comm 1 n] using this

/-- every entry of `collapsed` for cluster `cid`: its positions are inside the block, at each of them the thread set
is exactly the set of threads on the cluster, non-empty and heterozygous; the positions of all entries of the
cluster, in list order, are strictly increasing (runs are disjoint intervals of the cluster's heterozygous positions) -/
theorem collapsedOf_spec (threads : List (List Nat)) (cols : List (List Allele)) (cid : Nat) :
    (∀ s ∈ collapsedOf threads cols cid, s.cid = cid ∧ s.snps ≠ [] ∧
      ∀ p ∈ s.snps, SubOk threads cols cid threads.length s.ts p) ∧
    ((collapsedOf threads cols cid).flatMap (·.snps)).Pairwise (· < ·) := by
  have h0 : ScanInv threads cols cid 0 ⟨[], [], []⟩ := ⟨by simp, by simp, by simp⟩
  have h := scanCluster_inv threads cols cid threads.length 0 _ h0
  rw [Nat.zero_add] at h
  unfold collapsedOf
  simp only
  by_cases hc : (scanCluster threads cols cid ⟨[], [], []⟩ 0 threads.length).cur.isEmpty = true
  · have hce : (scanCluster threads cols cid ⟨[], [], []⟩ 0 threads.length).cur = [] := by simpa using hc
    refine ⟨by simpa [hc] using h.out_ok, ?_⟩
    have := h.sorted
    simpa [hc, hce] using this
  · have hcne : (scanCluster threads cols cid ⟨[], [], []⟩ 0 threads.length).cur ≠ [] := by simpa using hc
    refine ⟨?_, ?_⟩
    · intro s hs
      simp only [hc, Bool.false_eq_true, if_false, List.mem_append, List.mem_singleton] at hs
      rcases hs with hs | rfl
      · exact h.out_ok s hs
      · exact ⟨rfl, hcne, fun p hp => h.cur_ok p hp⟩
    · have := h.sorted
      simpa [hc, List.flatMap_append] using this

/-! ## disjointness -/

/-- two sub-instances never write the same cell `(position, haplotype)` -/
def DisjointAt (a b : SubInst) : Prop := ∀ p, p ∈ a.snps → p ∈ b.snps → ∀ t, t ∈ a.ts → t ∉ b.ts

theorem findCollapsed_mem (threads : List (List Nat)) (cols : List (List Allele)) (s : SubInst)
    (hs : s ∈ findCollapsed threads cols) :
    s.snps ≠ [] ∧ ∀ p ∈ s.snps, SubOk threads cols s.cid threads.length s.ts p := by
  obtain ⟨cid, _, hs⟩ := List.mem_flatMap.mp hs
  obtain ⟨h1, h2, h3⟩ := (collapsedOf_spec threads cols cid).1 s hs
  exact ⟨h2, h1 ▸ h3⟩

theorem findCollapsed_pairwise (threads : List (List Nat)) (cols : List (List Allele)) :
    (findCollapsed threads cols).Pairwise DisjointAt := by
  unfold findCollapsed
  rw [List.pairwise_flatMap]
  constructor
  · intro cid _
    have h := (collapsedOf_spec threads cols cid).2
    rw [List.pairwise_flatMap] at h
    refine h.2.imp ?_
    intro a b hab p hpa hpb
    exact absurd (hab p hpa p hpb) (Nat.lt_irrefl p)
  · have hs : (clusterIds threads).Pairwise (· < ·) := posSet_sorted _
    refine hs.imp ?_
    intro c1 c2 hlt a ha b hb p hpa hpb t hta htb
    obtain ⟨ea, _, ha3⟩ := (collapsedOf_spec threads cols c1).1 a ha
    obtain ⟨eb, _, hb3⟩ := (collapsedOf_spec threads cols c2).1 b hb
    have h1 := (ha3 p hpa).2.1
    have h2 := (hb3 p hpb).2.1
    rw [h1] at hta; rw [h2] at htb
    have e1 := (mem_threadSet.mp hta).2
    have e2 := (mem_threadSet.mp htb).2
    omega

/-! ## write-back -/

theorem length_writePairs (ts : List Nat) : ∀ (pairs : List (Nat × List Allele)) (cols : List (List Allele)),
    (writePairs ts cols pairs).length = cols.length := by
  intro pairs
  induction pairs with
  | nil => intro cols; rfl
  | cons pr rest ih =>
    intro cols
    show (writePairs ts (cols.set pr.1 _) rest).length = _
    rw [ih]; simp

theorem getD_writePairs_of_not_mem (ts : List Nat) : ∀ (pairs : List (Nat × List Allele)) (cols : List (List Allele))
    (p : Nat), p ∉ pairs.map (·.1) → (writePairs ts cols pairs).getD p [] = cols.getD p [] := by
  intro pairs
  induction pairs with
  | nil => intro cols p _; rfl
  | cons pr rest ih =>
    intro cols p hp
    simp only [List.map_cons, List.mem_cons, not_or] at hp
    show (writePairs ts (cols.set pr.1 _) rest).getD p [] = _
    rw [ih _ _ hp.2]
    simp [List.getD_eq_getElem?_getD, List.getElem?_set, Ne.symm hp.1]

theorem getD_writePairs_of_mem (ts : List Nat) : ∀ (pairs : List (Nat × List Allele)) (cols : List (List Allele))
    (p : Nat) (r : List Allele), (pairs.map (·.1)).Nodup → (p, r) ∈ pairs → p < cols.length →
    (writePairs ts cols pairs).getD p [] = assign (cols.getD p []) ts r := by
  intro pairs
  induction pairs with
  | nil => intro cols p r _ h; simp at h
  | cons pr rest ih =>
    intro cols p r hnd hm hp
    simp only [List.map_cons, List.nodup_cons] at hnd
    show (writePairs ts (cols.set pr.1 _) rest).getD p [] = _
    rcases List.mem_cons.mp hm with e | hm
    · subst e
      rw [getD_writePairs_of_not_mem ts rest _ _ hnd.1]
      simp [List.getD_eq_getElem?_getD, hp]
    · have hne : pr.1 ≠ p := by
        intro e; apply hnd.1; rw [e]; exact List.mem_map.mpr ⟨(p, r), hm, rfl⟩
      rw [ih _ p r hnd.2 hm (by simpa using hp)]
      simp [List.getD_eq_getElem?_getD, List.getElem?_set, hne]

theorem exists_zip_of_mem {α β} (l1 : List α) (l2 : List β) (h : l2.length = l1.length) (x : α) (hx : x ∈ l1) :
    ∃ y, (x, y) ∈ l1.zip l2 := by
  obtain ⟨i, hi, rfl⟩ := List.mem_iff_getElem.mp hx
  refine ⟨l2[i]'(h ▸ hi), ?_⟩
  apply List.mem_iff_getElem.mpr
  exact ⟨i, by simp [h, hi], by simp⟩

/-- what `integrate_preserves_genotype_multiset` needs of one (sub-instance, sub-result) pair, relative to the
haplotype columns `orig` the sub-genotypes were taken from -/
def GoodB (B : List Allele → Prop) (gv col : List Allele) : Prop := B col ∨ col.Perm gv

/-- the two "bad column" predicates used: an undetermined allele (`Good`), or none at all (plain rearrangement) -/
structure BadOk (B : List Allele → Prop) : Prop where
  assign : ∀ (c : List Allele) (ts : List Nat) (vs : List Allele), ts.Nodup → (∀ t ∈ ts, t < c.length) →
    vs.length = ts.length → B vs → B (assign c ts vs)
  perm : ∀ x y : List Allele, x.Perm y → B y → B x

theorem badOk_undetermined : BadOk (fun c => (-1 : Allele) ∈ c) :=
  ⟨fun c ts vs h1 h2 h3 hm => mem_assign_of_mem_vs c ts vs h1 h2 h3 _ hm, fun _ _ hp hm => hp.symm.subset hm⟩

theorem badOk_false : BadOk (fun _ => False) := ⟨fun _ _ _ _ _ _ h => h, fun _ _ _ h => h⟩

def PairOk (B : List Allele → Prop) (orig : List (List Allele)) (sr : SubInst × List (List Allele)) : Prop :=
  sr.1.snps.Nodup ∧ sr.1.ts.Nodup ∧ sr.2.length = sr.1.snps.length ∧
  (∀ p ∈ sr.1.snps, p < orig.length ∧ ∀ t ∈ sr.1.ts, t < (orig.getD p []).length) ∧
  ∀ pr ∈ sr.1.snps.zip sr.2, pr.2.length = sr.1.ts.length ∧ GoodB B (extractPerm sr.1.ts (orig.getD pr.1 [])) pr.2

theorem integrateHaps_good (B : List Allele → Prop) (hB : BadOk B) (orig : List (List Allele)) :
    ∀ (pairs : List (SubInst × List (List Allele))) (c : List (List Allele)),
      (pairs.map (·.1)).Pairwise DisjointAt → (∀ sr ∈ pairs, PairOk B orig sr) →
      c.length = orig.length → (∀ p, (c.getD p []).length = (orig.getD p []).length) →
      (∀ sr ∈ pairs, ∀ p ∈ sr.1.snps, extractPerm sr.1.ts (c.getD p []) = extractPerm sr.1.ts (orig.getD p [])) →
      (∀ p, GoodB B (orig.getD p []) (c.getD p [])) →
      (integrateHaps c pairs).length = orig.length ∧ ∀ p, GoodB B (orig.getD p []) ((integrateHaps c pairs).getD p []) := by
  intro pairs
  induction pairs with
  | nil => intro c _ _ hl _ _ hg; exact ⟨hl, hg⟩
  | cons sr rest ih =>
    intro c hdis hok hl hcl hag hg
    simp only [List.map_cons, List.pairwise_cons] at hdis
    obtain ⟨hnd, htnd, hrl, hrange, hres⟩ := hok sr List.mem_cons_self
    have hfst : (sr.1.snps.zip sr.2).map (·.1) = sr.1.snps := by
      rw [List.map_fst_zip]; omega
    -- column `p` after this write-back
    have hcol : ∀ p, (p ∉ sr.1.snps ∧ (writeSub c sr.1 sr.2).getD p [] = c.getD p []) ∨
        (p ∈ sr.1.snps ∧ ∃ r, (p, r) ∈ sr.1.snps.zip sr.2 ∧
          (writeSub c sr.1 sr.2).getD p [] = assign (c.getD p []) sr.1.ts r) := by
      intro p
      by_cases hp : p ∈ sr.1.snps
      · right
        obtain ⟨r, hr⟩ := exists_zip_of_mem sr.1.snps sr.2 hrl p hp
        refine ⟨hp, r, hr, ?_⟩
        exact getD_writePairs_of_mem sr.1.ts _ c p r (by rw [hfst]; exact hnd) hr (by rw [hl]; exact (hrange p hp).1)
      · left
        exact ⟨hp, getD_writePairs_of_not_mem sr.1.ts _ c p (by rw [hfst]; exact hp)⟩
    show (integrateHaps (writeSub c sr.1 sr.2) rest).length = _ ∧ _
    apply ih (writeSub c sr.1 sr.2) hdis.2 (fun x hx => hok x (List.mem_cons_of_mem _ hx))
    · show (writePairs _ _ _).length = _
      rw [length_writePairs, hl]
    · intro p
      rcases hcol p with ⟨_, e⟩ | ⟨_, r, _, e⟩
      · rw [e]; exact hcl p
      · rw [e, length_assign]; exact hcl p
    · intro sr' hsr' p hp
      rcases hcol p with ⟨_, e⟩ | ⟨hps, r, _, e⟩
      · rw [e]; exact hag sr' (List.mem_cons_of_mem _ hsr') p hp
      · rw [e, extractPerm_assign_disjoint]
        · exact hag sr' (List.mem_cons_of_mem _ hsr') p hp
        · intro t ht hts
          exact hdis.1 sr'.1 (List.mem_map.mpr ⟨sr', hsr', rfl⟩) p hps hp t hts ht
    · intro p
      rcases hcol p with ⟨_, e⟩ | ⟨hps, r, hr, e⟩
      · rw [e]; exact hg p
      · rw [e]
        obtain ⟨hrlen, hrg⟩ := hres (p, r) hr
        have hrc : ∀ t ∈ sr.1.ts, t < (c.getD p []).length := fun t ht => by
          rw [hcl p]; exact (hrange p hps).2 t ht
        rcases hrg with hm | hperm
        · exact Or.inl (hB.assign _ _ _ htnd hrc hrlen hm)
        · have hagp := hag sr List.mem_cons_self p hps
          have hp2 : (assign (c.getD p []) sr.1.ts r).Perm (c.getD p []) :=
            assign_perm _ _ _ htnd hrc hrlen (hagp ▸ hperm)
          rcases hg p with hm | hpg
          · exact Or.inl (hB.perm _ _ hp2 hm)
          · exact Or.inr (hp2.trans hpg)

theorem findCollapsed_snps_sorted (threads : List (List Nat)) (cols : List (List Allele)) (s : SubInst)
    (hs : s ∈ findCollapsed threads cols) : s.snps.Pairwise (· < ·) := by
  obtain ⟨cid, _, hs⟩ := List.mem_flatMap.mp hs
  have h := (collapsedOf_spec threads cols cid).2
  rw [List.pairwise_flatMap] at h
  exact h.1 s hs

/-! ## the stage order with arbitrary heuristics -/

/-- whatever the likelihood (`pick`) says, `forceCol` is one of the results the relation `ForceOut` admits -/
theorem forceCol_forceOut (pick : List Allele → List Allele → List Nat → List Allele → List Allele)
    (col gv : List Allele) : ForceOut col gv (forceCol pick col gv) := by
  unfold ForceOut forceCol
  cases hfs : forceStep col gv with
  | skipUndetermined => rfl
  | nothingAbundant => rfl
  | choose aff ins =>
    simp only
    by_cases h : (pick col gv aff ins).isPerm ins = true
    · exact ⟨pick col gv aff ins, List.isPerm_iff.mp h, by simp [h]⟩
    · exact ⟨ins, List.Perm.refl _, by simp [h]⟩

theorem sanPerm_perm (k : Nat) (p : List Nat) : (sanPerm k p).Perm (List.range k) := by
  unfold sanPerm
  by_cases h : p.isPerm (List.range k) = true
  · simp only [h, if_true]; exact List.isPerm_iff.mp h
  · simp [h]

end WhVerif.C15

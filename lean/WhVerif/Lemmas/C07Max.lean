import WhVerif.Lemmas.C07
import WhVerif.Lemmas.C07Term
/-!
# C07 helper lemmas, part C: maximality of the REPAIRED selection.

Invariants (they need that an undecided read is never already selected, which is exactly what defect
F9 breaks): the monitor equals the true span counts, and every read of the universe `U` handled so far
is undecided, selected, or rejected by a coverage test that can only stay true (`blocked_mono`).
-/
namespace WhVerif.C07

/-! ## pop on a duplicate-free queue -/

theorem popChoice_nodup {pq : List Entry} {c ci : Nat} {e : Entry} {pq' : List Entry}
    (h : popChoice pq c = some (ci, e, pq')) (hnd : (pq.map (·.item)).Nodup) :
    (pq'.map (·.item)).Nodup ∧ e.item ∉ pq'.map (·.item) := by
  obtain ⟨j, hj, he, hq⟩ := popChoice_spec h
  constructor
  · rw [hq]
    exact List.Nodup.sublist (List.Sublist.map _ (List.eraseIdx_sublist pq j)) hnd
  · intro hmem
    obtain ⟨f, hf, hfe⟩ := List.mem_map.mp hmem
    rw [hq] at hf
    obtain ⟨i, hi, hij, hfi⟩ := List.mem_eraseIdx_iff_getElem.mp hf
    have h1 : (pq.map (·.item))[i]'(by simpa using hi) = (pq.map (·.item))[j]'(by simpa using hj) := by
      simp only [List.getElem_map]
      rw [hfi, hfe, he]
    exact hij ((List.getElem_inj hnd).mp h1)

theorem popChoice_items_sub {pq : List Entry} {c ci : Nat} {e : Entry} {pq' : List Entry}
    (h : popChoice pq c = some (ci, e, pq')) : ∀ i ∈ pq'.map (·.item), i ∈ pq.map (·.item) := by
  intro i hi
  obtain ⟨f, hf, hfe⟩ := List.mem_map.mp hi
  exact List.mem_map.mpr ⟨f, popChoice_sub h f hf, hfe⟩

theorem popChoice_item_mem {pq : List Entry} {c ci : Nat} {e : Entry} {pq' : List Entry}
    (h : popChoice pq c = some (ci, e, pq')) : e.item ∈ pq.map (·.item) :=
  List.mem_map.mpr ⟨e, popChoice_mem h, rfl⟩

theorem countSel_insertNew_of_not_mem (reads : List Read) {i : Nat} {sel : List Nat} (h : i ∉ sel) (p : Nat) :
    countSel reads (insertNew i sel) p = countSel reads sel p + (if (getRead reads i).spans p then 1 else 0) := by
  rw [insertNew_of_not_mem h, countSel_cons]

/-! ## slice -/

structure SMax (reads : List Read) (P : List Nat) (k : Nat) (U : List Nat) (sel0 : List Nat) (cov0 : Cov)
    (s : SliceSt) : Prop where
  exact : ∀ p, s.cov.at p = countSel reads (union s.inSlice sel0) p
  pqNodup : (s.pq.map (·.item)).Nodup
  pqDisj : ∀ i ∈ s.pq.map (·.item), i ∉ s.inSlice ∧ i ∉ sel0
  pqU : ∀ i ∈ s.pq.map (·.item), i ∈ U
  inU : ∀ i ∈ s.inSlice, i ∈ U
  viol : ∀ i ∈ s.violating, blocked P s.cov k (getRead reads i) = true
  mono : ∀ i, blocked P cov0 k (getRead reads i) = true → blocked P s.cov k (getRead reads i) = true

theorem sliceStep_max {reads : List Read} {P : List Nat} {k : Nat} {U sel0 : List Nat} {cov0 : Cov}
    {s : SliceSt} {e : Entry} (h : SMax reads P k U sel0 cov0 s)
    (he : e.item ∉ s.inSlice ∧ e.item ∉ sel0) (heU : e.item ∈ U) (hne : e.item ∉ s.pq.map (·.item)) :
    SMax reads P k U sel0 cov0 (sliceStep reads P k s e) := by
  have hitems := sliceStep_pq_items reads P k s e
  have hpqN : ((sliceStep reads P k s e).pq.map (·.item)).Nodup := by rw [hitems]; exact h.pqNodup
  have hpqU : ∀ i ∈ (sliceStep reads P k s e).pq.map (·.item), i ∈ U := by rw [hitems]; exact h.pqU
  have hpqD : ∀ i ∈ (sliceStep reads P k s e).pq.map (·.item), i ∉ insertNew e.item s.inSlice ∧ i ∉ sel0 := by
    rw [hitems]
    intro i hi
    refine ⟨?_, (h.pqDisj i hi).2⟩
    intro hm
    rcases mem_insertNew.mp hm with rfl | hm
    · exact hne hi
    · exact (h.pqDisj i hi).1 hm
  have hpqD0 : ∀ i ∈ (sliceStep reads P k s e).pq.map (·.item), i ∉ s.inSlice ∧ i ∉ sel0 := by
    rw [hitems]; exact h.pqDisj
  revert hpqN hpqU hpqD hpqD0
  unfold sliceStep
  simp only
  split
  · rename_i hb
    intro hpqN hpqU _ hpqD0
    exact { exact := h.exact, pqNodup := hpqN, pqDisj := hpqD0, pqU := hpqU, inU := h.inU,
            viol := by
              intro i hi
              rcases mem_insertNew.mp hi with rfl | hi
              · exact hb
              · exact h.viol i hi
            mono := h.mono }
  · split
    · intro hpqN hpqU hpqD _
      exact {
        exact := by
          intro p
          simp only
          have hnm : e.item ∉ union s.inSlice sel0 := by
            intro hm
            rcases mem_union.mp hm with hm | hm
            · exact he.1 hm
            · exact he.2 hm
          rw [union_insertNew, countSel_insertNew_of_not_mem reads hnm, cov_at_add, h.exact p]
        pqNodup := hpqN
        pqDisj := hpqD
        pqU := hpqU
        inU := by
          intro i hi
          rcases mem_insertNew.mp hi with rfl | hi
          · exact heU
          · exact h.inU i hi
        viol := fun i hi => blocked_mono (h.viol i hi)
        mono := fun i hi => blocked_mono (h.mono i hi) }
    · intro hpqN hpqU _ hpqD0
      exact { exact := h.exact, pqNodup := hpqN, pqDisj := hpqD0, pqU := hpqU, inU := h.inU,
              viol := h.viol, mono := h.mono }

theorem sliceLoop_max {reads : List Read} {P : List Nat} {k : Nat} {U sel0 : List Nat} {cov0 : Cov}
    (n : Nat) (s : SliceSt) (h : SMax reads P k U sel0 cov0 s) :
    SMax reads P k U sel0 cov0 (sliceLoop reads P k n s) := by
  apply sliceLoop_induct reads P k (SMax reads P k U sel0 cov0) _ n s h
  intro s c ci e pq' hp hinv
  obtain ⟨hnd', hne⟩ := popChoice_nodup hp hinv.pqNodup
  have hsub := popChoice_items_sub hp
  have hem := popChoice_item_mem hp
  apply sliceStep_max
  · exact { exact := hinv.exact, pqNodup := hnd',
            pqDisj := fun i hi => hinv.pqDisj i (hsub i hi),
            pqU := fun i hi => hinv.pqU i (hsub i hi),
            inU := hinv.inU, viol := hinv.viol, mono := hinv.mono }
  · exact hinv.pqDisj _ hem
  · exact hinv.pqU _ hem
  · exact hne

/-! ## bridging -/

structure BMax (reads : List Read) (P : List Nat) (k : Nat) (U : List Nat) (b : BridgeSt) : Prop where
  exact : ∀ p, b.cov.at p = countSel reads b.selected p
  pqNodup : (b.pq.map (·.item)).Nodup
  pqDisj : ∀ i ∈ b.pq.map (·.item), i ∉ b.selected
  pqU : ∀ i ∈ b.pq.map (·.item), i ∈ U
  disj : ∀ i ∈ b.undecided, i ∉ b.selected
  nodup : b.undecided.Nodup
  undU : ∀ i ∈ b.undecided, i ∈ U
  selU : ∀ i ∈ b.selected, i ∈ U
  dec : ∀ i ∈ U, i ∈ b.undecided ∨ i ∈ b.selected ∨ blocked P b.cov k (getRead reads i) = true

theorem mem_filter_ne {l : List Nat} {x i : Nat} : i ∈ l.filter (· != x) ↔ i ∈ l ∧ i ≠ x := by
  simp [List.mem_filter]

theorem bridgeStep_max {reads : List Read} {P : List Nat} {k : Nat} {U : List Nat}
    {b : BridgeSt} {e : Entry} (h : BMax reads P k U b)
    (he : e.item ∉ b.selected) (heU : e.item ∈ U) (hne : e.item ∉ b.pq.map (·.item)) :
    BMax reads P k U (bridgeStep reads P k b e) := by
  unfold bridgeStep
  simp only
  split
  · rename_i hb
    exact { exact := h.exact, pqNodup := h.pqNodup, pqDisj := h.pqDisj, pqU := h.pqU,
            disj := fun i hi => h.disj i (mem_filter_ne.mp hi).1,
            nodup := List.Nodup.sublist List.filter_sublist h.nodup,
            undU := fun i hi => h.undU i (mem_filter_ne.mp hi).1,
            selU := h.selU,
            dec := by
              intro i hi
              by_cases hie : i = e.item
              · subst hie; exact Or.inr (Or.inr hb)
              · rcases h.dec i hi with hu | hs | hbk
                · exact Or.inl (mem_filter_ne.mpr ⟨hu, hie⟩)
                · exact Or.inr (Or.inl hs)
                · exact Or.inr (Or.inr hbk) }
  · split
    · exact h
    · exact {
        exact := by
          intro p
          simp only
          rw [countSel_insertNew_of_not_mem reads he, cov_at_add, h.exact p]
        pqNodup := h.pqNodup
        pqDisj := by
          intro i hi hm
          rcases mem_insertNew.mp hm with rfl | hm
          · exact hne hi
          · exact h.pqDisj i hi hm
        pqU := h.pqU
        disj := by
          intro i hi hm
          obtain ⟨hiu, hie⟩ := mem_filter_ne.mp hi
          rcases mem_insertNew.mp hm with rfl | hm
          · exact hie rfl
          · exact h.disj i hiu hm
        nodup := List.Nodup.sublist List.filter_sublist h.nodup
        undU := fun i hi => h.undU i (mem_filter_ne.mp hi).1
        selU := by
          intro i hi
          rcases mem_insertNew.mp hi with rfl | hi
          · exact heU
          · exact h.selU i hi
        dec := by
          intro i hi
          by_cases hie : i = e.item
          · subst hie; exact Or.inr (Or.inl (mem_insertNew.mpr (Or.inl rfl)))
          · rcases h.dec i hi with hu | hs | hbk
            · exact Or.inl (mem_filter_ne.mpr ⟨hu, hie⟩)
            · exact Or.inr (Or.inl (mem_insertNew.mpr (Or.inr hs)))
            · exact Or.inr (Or.inr (blocked_mono hbk)) }

theorem bridgeLoop_max {reads : List Read} {P : List Nat} {k : Nat} {U : List Nat}
    (n : Nat) (b : BridgeSt) (h : BMax reads P k U b) : BMax reads P k U (bridgeLoop reads P k n b) := by
  apply bridgeLoop_induct reads P k (BMax reads P k U) _ n b h
  intro b c ci e pq' hp hinv
  obtain ⟨hnd', hne⟩ := popChoice_nodup hp hinv.pqNodup
  have hsub := popChoice_items_sub hp
  have hem := popChoice_item_mem hp
  apply bridgeStep_max
  · exact { exact := hinv.exact, pqNodup := hnd',
            pqDisj := fun i hi => hinv.pqDisj i (hsub i hi),
            pqU := fun i hi => hinv.pqU i (hsub i hi),
            disj := hinv.disj, nodup := hinv.nodup, undU := hinv.undU, selU := hinv.selU, dec := hinv.dec }
  · exact hinv.pqDisj _ hem
  · exact hinv.pqU _ hem
  · exact hne

/-! ## helper -/

structure HMax (reads : List Read) (P : List Nat) (k : Nat) (U : List Nat) (st : HSt) : Prop where
  exact : ∀ p, st.cov.at p = countSel reads st.selected p
  disj : ∀ i ∈ st.undecided, i ∉ st.selected
  nodup : st.undecided.Nodup
  undU : ∀ i ∈ st.undecided, i ∈ U
  selU : ∀ i ∈ st.selected, i ∈ U
  dec : ∀ i ∈ U, i ∈ st.undecided ∨ i ∈ st.selected ∨ blocked P st.cov k (getRead reads i) = true

theorem mem_und' {und inS vio : List Nat} {i : Nat} :
    i ∈ und.filter (fun i => !inS.contains i && !vio.contains i) ↔ i ∈ und ∧ i ∉ inS ∧ i ∉ vio := by
  simp [List.mem_filter]

theorem bridgeInit_max {reads : List Read} {P : List Nat} {k : Nat} {U : List Nat} {st : HSt} {s : SliceSt}
    (h : HMax reads P k U st) (hs : SMax reads P k U st.selected st.cov s) :
    BMax reads P k U (bridgeInit reads P st s) := by
  unfold bridgeInit
  simp only
  exact {
    exact := hs.exact
    pqNodup := by
      rw [mkQueue_items]
      exact List.Nodup.sublist List.filter_sublist h.nodup
    pqDisj := by
      rw [mkQueue_items]
      intro i hi hm
      obtain ⟨hiu, hin, -⟩ := mem_und'.mp hi
      rcases mem_union.mp hm with hm | hm
      · exact hin hm
      · exact h.disj i hiu hm
    pqU := by
      rw [mkQueue_items]
      intro i hi
      exact h.undU i (mem_und'.mp hi).1
    disj := by
      intro i hi hm
      obtain ⟨hiu, hin, -⟩ := mem_und'.mp hi
      rcases mem_union.mp hm with hm | hm
      · exact hin hm
      · exact h.disj i hiu hm
    nodup := List.Nodup.sublist List.filter_sublist h.nodup
    undU := fun i hi => h.undU i (mem_und'.mp hi).1
    selU := by
      intro i hi
      rcases mem_union.mp hi with hi | hi
      · exact hs.inU i hi
      · exact h.selU i hi
    dec := by
      intro i hi
      rcases h.dec i hi with hu | hsel | hbk
      · by_cases h1 : i ∈ s.inSlice
        · exact Or.inr (Or.inl (mem_union.mpr (Or.inl h1)))
        · by_cases h2 : i ∈ s.violating
          · exact Or.inr (Or.inr (hs.viol i h2))
          · exact Or.inl (mem_und'.mpr ⟨hu, h1, h2⟩)
      · exact Or.inr (Or.inl (mem_union.mpr (Or.inr hsel)))
      · exact Or.inr (Or.inr (hs.mono i hbk)) }

theorem sliceInit_max {reads : List Read} {P : List Nat} {k : Nat} {U : List Nat} {st : HSt}
    (h : HMax reads P k U st) : SMax reads P k U st.selected st.cov (sliceInit reads P st) := by
  unfold sliceInit
  exact {
    exact := by simpa using h.exact
    pqNodup := by simp only; rw [mkQueue_items]; exact h.nodup
    pqDisj := by
      simp only; rw [mkQueue_items]
      intro i hi
      exact ⟨by simp, h.disj i hi⟩
    pqU := by simp only; rw [mkQueue_items]; exact h.undU
    inU := by simp
    viol := by simp
    mono := fun _ hi => hi }

theorem BMax.toH {reads : List Read} {P : List Nat} {k : Nat} {U : List Nat} {b : BridgeSt}
    (h : BMax reads P k U b) : HMax reads P k U (bridgeExit b) :=
  { exact := h.exact, disj := h.disj, nodup := h.nodup, undU := h.undU, selU := h.selU, dec := h.dec }

theorem helperIter_max {reads : List Read} {P : List Nat} {k : Nat} {br : Bool} {U : List Nat} {st : HSt}
    (h : HMax reads P k U st) : HMax reads P k U (helperIter reads P k br st) := by
  have hs := sliceLoop_max (sliceInit reads P st).pq.length _ (sliceInit_max (k := k) h)
  have hb0 := bridgeInit_max h hs
  unfold helperIter
  simp only
  split
  · exact (bridgeLoop_max _ _ hb0).toH
  · exact { exact := hb0.exact, disj := hb0.disj, nodup := hb0.nodup, undU := hb0.undU, selU := hb0.selU,
            dec := hb0.dec }

theorem helper_max {reads : List Read} {P : List Nat} {k : Nat} {br : Bool} {U : List Nat} {st : HSt}
    (h : HMax reads P k U st) : HMax reads P k U (helper reads P k br st) := by
  unfold helper
  exact helperLoop_induct reads P k br (HMax reads P k U) (fun st _ h => helperIter_max h) _ st h

/-! ## the two phases of the repaired `readselection` -/

theorem phases_max (reads : List Read) (k : Nat) (br : Bool) (choices : List Nat)
    (h2 : ∀ r ∈ reads, 2 ≤ r.pos.length) :
    HMax reads (positions reads) k (List.range reads.length) (phases true reads k br choices).2 := by
  have hterm := (phases_terminate true reads k br choices h2).1
  unfold phases at hterm ⊢
  simp only at hterm ⊢
  -- phase 1 over the universe of preferred reads
  have h1 : HMax reads (positions reads) k (preferredIdx reads)
      (if (preferredIdx reads).isEmpty then
        ({ cov := [], selected := [], undecided := [], choices := choices, trace := [] } : HSt)
       else helper reads (positions reads) k br
        { cov := [], selected := [], undecided := preferredIdx reads, choices := choices, trace := [] }) := by
    split
    · rename_i he
      have : preferredIdx reads = [] := by simpa using he
      rw [this]
      exact { exact := by simp [Cov.at, countSel], disj := by simp, nodup := List.nodup_nil,
              undU := by simp, selU := by simp, dec := by simp }
    · apply helper_max
      exact { exact := by simp [Cov.at, countSel], disj := by simp,
              nodup := List.Nodup.sublist List.filter_sublist List.nodup_range,
              undU := fun i hi => hi, selU := by simp, dec := fun i hi => Or.inl hi }
  apply helper_max
  exact {
    exact := h1.exact
    disj := by
      intro i hi hm
      simp only [if_true] at hi
      have := (List.mem_filter.mp hi).2
      have hp := h1.selU i hm
      simp [hp] at this
    nodup := by
      simp only [if_true]
      exact List.Nodup.sublist List.filter_sublist List.nodup_range
    undU := by
      intro i hi
      simp only [if_true] at hi
      exact (List.mem_filter.mp hi).1
    selU := fun i hi => List.mem_range.mpr (mem_preferredIdx (h1.selU i hi))
    dec := by
      intro i hi
      by_cases hp : i ∈ preferredIdx reads
      · rcases h1.dec i hp with hu | hs | hb
        · rw [hterm] at hu; simp at hu
        · exact Or.inr (Or.inl hs)
        · exact Or.inr (Or.inr hb)
      · refine Or.inl ?_
        simp only [if_true]
        exact List.mem_filter.mpr ⟨hi, by simp [hp]⟩ }

/-- without preferred reads the code as it is and the repaired code coincide -/
theorem phases_no_preferred (reads : List Read) (k : Nat) (br : Bool) (choices : List Nat)
    (h : preferredIdx reads = []) :
    phases false reads k br choices = phases true reads k br choices := by
  unfold phases
  have : List.filter (fun _ : Nat => true) (List.range reads.length) = List.range reads.length :=
    List.filter_eq_self.mpr (fun _ _ => rfl)
  simp [h, this]

end WhVerif.C07

import WhVerif.Lemmas.C06Affine
/-!
Reversal symmetry of the affine-gap alignment cost: reversing an alignment (and both strings) keeps its cost — a run of
`l` gap columns costs `gs + (l-1)·ge` from either end.  Hence `affineSpec q r = affineSpec q.reverse r.reverse`.
-/
namespace WhVerif.C06

/-- query bases consumed / bases of the other sequence consumed by a column list -/
def nQ : List Col → Nat
  | [] => 0
  | .sub :: cs => nQ cs + 1
  | .ins :: cs => nQ cs + 1
  | .del :: cs => nQ cs

def nR : List Col → Nat
  | [] => 0
  | .sub :: cs => nR cs + 1
  | .ins :: cs => nR cs
  | .del :: cs => nR cs + 1

theorem nQ_append (a b : List Col) : nQ (a ++ b) = nQ a + nQ b := by
  induction a with
  | nil => simp [nQ]
  | cons c a ih => cases c <;> simp [nQ, ih] <;> omega

theorem nR_append (a b : List Col) : nR (a ++ b) = nR a + nR b := by
  induction a with
  | nil => simp [nR]
  | cons c a ih => cases c <;> simp [nR, ih] <;> omega

theorem nQ_reverse (a : List Col) : nQ a.reverse = nQ a := by
  induction a with
  | nil => rfl
  | cons c a ih => cases c <;> simp [nQ, nQ_append, ih]

theorem nR_reverse (a : List Col) : nR a.reverse = nR a := by
  induction a with
  | nil => rfl
  | cons c a ih => cases c <;> simp [nR, nR_append, ih]

/-- the enumeration is exactly the column lists with the right numbers of consumed bases -/
theorem mem_alisR {α β} (u : List α) (v : List β) (cs : List Col) :
    cs ∈ alisR u v ↔ nQ cs = u.length ∧ nR cs = v.length := by
  constructor
  · fun_induction alisR u v generalizing cs with
    | case1 => intro h; simp at h; subst h; simp [nQ, nR]
    | case2 x u ih =>
      intro h; simp only [List.mem_map] at h
      obtain ⟨cs', h', rfl⟩ := h
      have := ih cs' h'
      simp [nQ, nR, this.1]; simpa using this.2
    | case3 y v ih =>
      intro h; simp only [List.mem_map] at h
      obtain ⟨cs', h', rfl⟩ := h
      have := ih cs' h'
      simp [nQ, nR, this.2]; simpa using this.1
    | case4 x u y v ih1 ih2 ih3 =>
      intro h; simp only [List.mem_append, List.mem_map] at h
      rcases h with ⟨cs', h', rfl⟩ | ⟨cs', h', rfl⟩ | ⟨cs', h', rfl⟩
      · have := ih1 cs' h'; simp [nQ, nR, this.1, this.2]
      · have := ih2 cs' h'; simp [nQ, nR, this.1]; simpa using this.2
      · have := ih3 cs' h'; simp [nQ, nR, this.2]; simpa using this.1
  · intro ⟨h1, h2⟩
    induction cs generalizing u v with
    | nil =>
      simp only [nQ, nR] at h1 h2
      have hu : u = [] := List.eq_nil_of_length_eq_zero h1.symm
      have hv : v = [] := List.eq_nil_of_length_eq_zero h2.symm
      subst hu hv; simp [alisR]
    | cons c cs ih =>
      cases c with
      | sub =>
        simp only [nQ, nR] at h1 h2
        cases u with
        | nil => simp at h1
        | cons x u =>
          cases v with
          | nil => simp at h2
          | cons y v =>
            simp only [List.length_cons, Nat.add_right_cancel_iff] at h1 h2
            rw [alisR]; simp only [List.mem_append, List.mem_map]
            exact Or.inl ⟨cs, ih u v h1 h2, rfl⟩
      | ins =>
        simp only [nQ, nR] at h1 h2
        cases u with
        | nil => simp at h1
        | cons x u =>
          simp only [List.length_cons, Nat.add_right_cancel_iff] at h1
          cases v with
          | nil => rw [alisR]; simp only [List.mem_map]; exact ⟨cs, ih u [] h1 h2, rfl⟩
          | cons y v =>
            rw [alisR]; simp only [List.mem_append, List.mem_map]
            exact Or.inr (Or.inl ⟨cs, ih u (y :: v) h1 h2, rfl⟩)
      | del =>
        simp only [nQ, nR] at h1 h2
        cases v with
        | nil => simp at h2
        | cons y v =>
          simp only [List.length_cons, Nat.add_right_cancel_iff] at h2
          cases u with
          | nil => rw [alisR]; simp only [List.mem_map]; exact ⟨cs, ih [] v h1 h2, rfl⟩
          | cons x u =>
            rw [alisR]; simp only [List.mem_append, List.mem_map]
            exact Or.inr (Or.inr ⟨cs, ih (x :: u) v h1 h2, rfl⟩)

/-! ## cost = substitution part + gap part -/

def isGap : Col → Bool
  | .sub => false
  | _ => true

/-- the gap columns' cost: depends on the column list only -/
def gapTot (gs ge : Nat) : List Col → Nat
  | [] => 0
  | c :: cs => (if isGap c then gapStep gs ge c cs else 0) + gapTot gs ge cs

/-- the `sub` columns' cost -/
def subCost : List Col → QSeq → List Char → Nat
  | [], _, _ => 0
  | .sub :: cs, x :: u, y :: v => (if x.1 == y then 0 else x.2) + subCost cs u v
  | .ins :: cs, _ :: u, v => subCost cs u v
  | .del :: cs, u, _ :: v => subCost cs u v
  | _ :: _, _, _ => 0

theorem costR_split (gs ge : Nat) (cs : List Col) (u : QSeq) (v : List Char) (h1 : nQ cs = u.length) (h2 : nR cs = v.length) :
    costR gs ge cs u v = subCost cs u v + gapTot gs ge cs := by
  induction cs generalizing u v with
  | nil => simp [costR, subCost, gapTot]
  | cons c cs ih =>
    cases c with
    | sub =>
      simp only [nQ, nR] at h1 h2
      cases u with
      | nil => simp at h1
      | cons x u =>
        cases v with
        | nil => simp at h2
        | cons y v =>
          simp only [List.length_cons, Nat.add_right_cancel_iff] at h1 h2
          simp only [costR, subCost, gapTot, isGap, ih u v h1 h2]
          simp; omega
    | ins =>
      simp only [nQ, nR] at h1 h2
      cases u with
      | nil => simp at h1
      | cons x u =>
        simp only [List.length_cons, Nat.add_right_cancel_iff] at h1
        simp only [costR, subCost, gapTot, isGap, ih u v h1 h2]
        simp; omega
    | del =>
      simp only [nQ, nR] at h1 h2
      cases v with
      | nil => simp at h2
      | cons y v =>
        simp only [List.length_cons, Nat.add_right_cancel_iff] at h2
        cases u with
        | nil =>
          simp only [costR, subCost, gapTot, isGap, ih [] v h1 h2]
          simp; omega
        | cons x u =>
          simp only [costR, subCost, gapTot, isGap, ih (x :: u) v h1 h2]
          simp; omega

/-! ## the gap part is symmetric -/

/-- number of gap columns -/
def nGap : List Col → Nat
  | [] => 0
  | c :: cs => (if isGap c then 1 else 0) + nGap cs

/-- gap columns whose successor in the list is not a gap column of the same kind -/
def runsE : List Col → Nat
  | [] => 0
  | c :: cs => (if isGap c ∧ cs.head? ≠ some c then 1 else 0) + runsE cs

/-- gap columns whose predecessor (`p` for the first) is not a gap column of the same kind -/
def runsS : Option Col → List Col → Nat
  | _, [] => 0
  | p, c :: cs => (if isGap c ∧ p ≠ some c then 1 else 0) + runsS (some c) cs

theorem gapTot_eq (gs ge : Nat) (cs : List Col) : gapTot gs ge cs + ge * runsE cs = gs * runsE cs + ge * nGap cs := by
  induction cs with
  | nil => simp [gapTot, runsE, nGap]
  | cons c cs ih =>
    simp only [gapTot, runsE, nGap, gapStep]
    by_cases hg : isGap c = true
    · by_cases hh : cs.head? = some c
      · simp only [hg, hh, if_true, ne_eq, not_true_eq_false, and_false, if_false, Nat.zero_add]
        rw [Nat.mul_add]; omega
      · simp only [hg, hh, if_true, if_false, ne_eq, not_false_eq_true, and_self]
        rw [Nat.mul_add, Nat.mul_add, Nat.mul_add]; omega
    · simp only [hg, Bool.false_eq_true, if_false, false_and, Nat.zero_add]
      exact ih

theorem nGap_append (a b : List Col) : nGap (a ++ b) = nGap a + nGap b := by
  induction a with
  | nil => simp [nGap]
  | cons c a ih => simp [nGap, ih]; omega

theorem nGap_reverse (a : List Col) : nGap a.reverse = nGap a := by
  induction a with
  | nil => rfl
  | cons c a ih => simp [nGap, nGap_append, ih]; omega

theorem runsE_reverse_append (cs acc : List Col) : runsE (cs.reverse ++ acc) = runsS acc.head? cs + runsE acc := by
  induction cs generalizing acc with
  | nil => simp [runsS]
  | cons c cs ih =>
    simp only [List.reverse_cons, List.append_assoc, List.singleton_append]
    rw [ih (c :: acc)]
    simp only [List.head?_cons, runsS, runsE]
    omega

theorem runsS_eq_runsE (p : Col) (cs : List Col) :
    (if isGap p then 1 else 0) + runsS (some p) cs = (if isGap p ∧ cs.head? ≠ some p then 1 else 0) + runsE cs := by
  induction cs generalizing p with
  | nil => simp [runsS, runsE]
  | cons c cs ih =>
    have := ih c
    simp only [runsS, runsE, List.head?_cons]
    by_cases hpc : p = c
    · subst hpc; simp; simp at this; omega
    · have h1 : (some p : Option Col) ≠ some c := by simpa using hpc
      have h2 : (some c : Option Col) ≠ some p := by simpa using fun e => hpc e.symm
      simp only [h1, h2, ne_eq, not_false_eq_true, and_true]
      simp at this ⊢; omega

theorem runsE_reverse (cs : List Col) : runsE cs.reverse = runsE cs := by
  have := runsE_reverse_append cs []
  simp only [List.append_nil, List.head?_nil, runsE, Nat.add_zero] at this
  rw [this]
  cases cs with
  | nil => rfl
  | cons c cs =>
    have h := runsS_eq_runsE c cs
    simp only [runsS, runsE]
    simp at h ⊢; omega

theorem gapTot_reverse (gs ge : Nat) (cs : List Col) : gapTot gs ge cs.reverse = gapTot gs ge cs := by
  have h1 := gapTot_eq gs ge cs
  have h2 := gapTot_eq gs ge cs.reverse
  rw [runsE_reverse, nGap_reverse] at h2
  omega

/-! ## the substitution part is symmetric -/

theorem subCost_snoc (cs : List Col) (u : QSeq) (v : List Char) (h1 : nQ cs = u.length) (h2 : nR cs = v.length)
    (x : Char × Nat) (y : Char) :
    subCost (cs ++ [Col.sub]) (u ++ [x]) (v ++ [y]) = subCost cs u v + (if x.1 == y then 0 else x.2) ∧
    subCost (cs ++ [Col.ins]) (u ++ [x]) v = subCost cs u v ∧
    subCost (cs ++ [Col.del]) u (v ++ [y]) = subCost cs u v := by
  induction cs generalizing u v with
  | nil =>
    simp only [nQ, nR] at h1 h2
    have hu : u = [] := List.eq_nil_of_length_eq_zero h1.symm
    have hv : v = [] := List.eq_nil_of_length_eq_zero h2.symm
    subst hu hv
    simp [subCost]
  | cons c cs ih =>
    cases c with
    | sub =>
      simp only [nQ, nR] at h1 h2
      cases u with
      | nil => simp at h1
      | cons a u =>
        cases v with
        | nil => simp at h2
        | cons b v =>
          simp only [List.length_cons, Nat.add_right_cancel_iff] at h1 h2
          obtain ⟨i1, i2, i3⟩ := ih u v h1 h2
          simp only [List.cons_append, subCost, i1, i2, i3]
          refine ⟨by omega, trivial, trivial⟩
    | ins =>
      simp only [nQ, nR] at h1 h2
      cases u with
      | nil => simp at h1
      | cons a u =>
        simp only [List.length_cons, Nat.add_right_cancel_iff] at h1
        obtain ⟨i1, i2, i3⟩ := ih u v h1 h2
        simp only [List.cons_append, subCost, i1, i2, i3]
        exact ⟨trivial, trivial, trivial⟩
    | del =>
      simp only [nQ, nR] at h1 h2
      cases v with
      | nil => simp at h2
      | cons b v =>
        simp only [List.length_cons, Nat.add_right_cancel_iff] at h2
        obtain ⟨i1, i2, i3⟩ := ih u v h1 h2
        cases u with
        | nil => simp only [List.cons_append, List.nil_append, subCost] at i1 i2 i3 ⊢; exact ⟨i1, i2, i3⟩
        | cons a u => simp only [List.cons_append, subCost] at i1 i2 i3 ⊢; exact ⟨i1, i2, i3⟩

theorem subCost_reverse (cs : List Col) (u : QSeq) (v : List Char) (h1 : nQ cs = u.length) (h2 : nR cs = v.length) :
    subCost cs.reverse u.reverse v.reverse = subCost cs u v := by
  induction cs generalizing u v with
  | nil => simp [subCost]
  | cons c cs ih =>
    cases c with
    | sub =>
      simp only [nQ, nR] at h1 h2
      cases u with
      | nil => simp at h1
      | cons a u =>
        cases v with
        | nil => simp at h2
        | cons b v =>
          simp only [List.length_cons, Nat.add_right_cancel_iff] at h1 h2
          simp only [List.reverse_cons]
          rw [(subCost_snoc cs.reverse u.reverse v.reverse (by simp [nQ_reverse, h1]) (by simp [nR_reverse, h2]) a b).1,
            ih u v h1 h2]
          simp only [subCost]; omega
    | ins =>
      simp only [nQ, nR] at h1 h2
      cases u with
      | nil => simp at h1
      | cons a u =>
        simp only [List.length_cons, Nat.add_right_cancel_iff] at h1
        simp only [List.reverse_cons]
        rw [(subCost_snoc cs.reverse u.reverse v.reverse (by simp [nQ_reverse, h1]) (by simp [nR_reverse, h2]) a 'x').2.1,
          ih u v h1 h2]
        simp only [subCost]
    | del =>
      simp only [nQ, nR] at h1 h2
      cases v with
      | nil => simp at h2
      | cons b v =>
        simp only [List.length_cons, Nat.add_right_cancel_iff] at h2
        simp only [List.reverse_cons]
        rw [(subCost_snoc cs.reverse u.reverse v.reverse (by simp [nQ_reverse, h1]) (by simp [nR_reverse, h2]) ('x', 0) b).2.2,
          ih u v h1 h2]
        cases u <;> simp only [subCost]

/-- reversing an alignment and both strings keeps the cost -/
theorem costR_reverse (gs ge : Nat) (cs : List Col) (u : QSeq) (v : List Char) (h1 : nQ cs = u.length) (h2 : nR cs = v.length) :
    costR gs ge cs.reverse u.reverse v.reverse = costR gs ge cs u v := by
  rw [costR_split gs ge cs u v h1 h2,
    costR_split gs ge cs.reverse u.reverse v.reverse (by simp [nQ_reverse, h1]) (by simp [nR_reverse, h2]),
    subCost_reverse cs u v h1 h2, gapTot_reverse]

/-- the affine-gap distance of the reversed strings is the same -/
theorem affineSpec_reverse (gs ge : Nat) (q : QSeq) (r : List Char) :
    affineSpec gs ge q.reverse r.reverse = affineSpec gs ge q r := by
  unfold affineSpec
  simp only [List.reverse_reverse]
  have hne1 : (alisR q r).map (fun cs => costR gs ge cs q r) ≠ [] := by simp [alisR_ne_nil]
  have hne2 : (alisR q.reverse r.reverse).map (fun cs => costR gs ge cs q.reverse r.reverse) ≠ [] := by simp [alisR_ne_nil]
  apply Nat.le_antisymm
  · obtain ⟨cs, hcs, hc⟩ := List.mem_map.1 (minList_mem _ hne2)
    rw [← hc]
    have hm := (mem_alisR _ _ cs).1 hcs
    simp only [List.length_reverse] at hm
    apply minList_le
    refine List.mem_map.2 ⟨cs.reverse, (mem_alisR _ _ _).2 ⟨by rw [nQ_reverse]; exact hm.1, by rw [nR_reverse]; exact hm.2⟩, ?_⟩
    have := costR_reverse gs ge cs.reverse q r (by rw [nQ_reverse]; exact hm.1) (by rw [nR_reverse]; exact hm.2)
    rw [List.reverse_reverse] at this
    exact this.symm
  · obtain ⟨cs, hcs, hc⟩ := List.mem_map.1 (minList_mem _ hne1)
    rw [← hc]
    have hm := (mem_alisR _ _ cs).1 hcs
    apply minList_le
    refine List.mem_map.2 ⟨cs.reverse, (mem_alisR _ _ _).2 ⟨by rw [nQ_reverse]; simpa using hm.1, by rw [nR_reverse]; simpa using hm.2⟩, ?_⟩
    exact costR_reverse gs ge cs q r hm.1 hm.2

end WhVerif.C06
